import SedVerif.Model.Extinction
import SedVerif.Model.ExtinctionIO
import SedVerif.Proofs.Integrate
import Mathlib.Tactic.Ring
import Mathlib.Tactic.FieldSimp
import Mathlib.Tactic.Linarith
import Mathlib.Tactic.NormNum
import Mathlib.Algebra.Order.Field.Basic

/-! Helper lemmas for C14: `np.interp` on a sorted table and the `get_av` ratio, over any linearly
ordered field. -/
namespace SF
variable {K : Type} [Field K] [LinearOrder K] [IsStrictOrderedRing K]
namespace Ext
open Integ

theorem negPt4_eq : (negPt4 : K) = -(2 / 5) := by
  unfold negPt4; rw [two_eq]; norm_num

/-- inside the table `np.interp` does not use the fill values -/
theorem npInterp_in (l r : K) (p0 : K × K) (tl : List (K × K)) (x : K)
    (h0 : p0.1 ≤ x) (h1 : x ≤ (lastD tl p0).1) : npInterp l r (p0 :: tl) x = interpIn (p0 :: tl) x := by
  simp [npInterp, lastD, not_lt.mpr h0, not_lt.mpr h1]

theorem npInterp_out (l : K) (p0 : K × K) (tl : List (K × K)) (x : K)
    (h : x < p0.1 ∨ (lastD tl p0).1 < x) : npInterp l l (p0 :: tl) x = l := by
  simp only [npInterp, lastD]
  by_cases h0 : x < p0.1
  · simp [h0]
  · rcases h with h | h
    · exact absurd h h0
    · simp [h0, h]

theorem mem_range : ∀ (tl : List (K × K)) (p0 p : K × K), SortedX (p0 :: tl) → p ∈ p0 :: tl →
    p0.1 ≤ p.1 ∧ p.1 ≤ (lastD tl p0).1
  | [], p0, p, _, hp => by
    have : p = p0 := by simpa using hp
    subst this; exact ⟨le_rfl, le_rfl⟩
  | p1 :: tl, p0, p, hs, hp => by
    have h01 : p0.1 < p1.1 := (List.pairwise_cons.mp hs).1 p1 List.mem_cons_self
    have hs' : SortedX (p1 :: tl) := (List.pairwise_cons.mp hs).2
    rcases List.mem_cons.mp hp with rfl | hp'
    · exact ⟨le_rfl, (lastD_gt p1 tl p hs).le⟩
    · obtain ⟨a, b⟩ := mem_range tl p1 p hs' hp'
      exact ⟨le_trans h01.le a, b⟩

/-- at a node `np.interp` returns the tabulated value -/
theorem interpIn_node : ∀ (tab : List (K × K)) (p : K × K), SortedX tab → p ∈ tab → interpIn tab p.1 = p.2
  | [], _, _, hp => by cases hp
  | [p0], p, _, hp => by
    have : p = p0 := by simpa using hp
    subst this; simp [interpIn]
  | p0 :: p1 :: rest, p, hs, hp => by
    have h01 : p0.1 < p1.1 := (List.pairwise_cons.mp hs).1 p1 List.mem_cons_self
    have hs' : SortedX (p1 :: rest) := (List.pairwise_cons.mp hs).2
    rcases List.mem_cons.mp hp with rfl | hp'
    · simp [interpIn]
    · have hlt : p0.1 < p.1 := (List.pairwise_cons.mp hs).1 p hp'
      rcases List.mem_cons.mp hp' with rfl | hp''
      · simp [interpIn, ne_of_gt hlt]
      · have h1 : p1.1 < p.1 := (List.pairwise_cons.mp hs').1 p hp''
        simp only [interpIn, ne_of_gt hlt, if_false, not_le.mpr h1]
        exact interpIn_node (p1 :: rest) p hs' hp'

/-- between two adjacent nodes `np.interp` is the straight line through them -/
theorem interpIn_seg (p q : K × K) (post : List (K × K)) (x : K) : ∀ (pre : List (K × K)),
    SortedX (pre ++ p :: q :: post) → p.1 ≤ x → x ≤ q.1 → interpIn (pre ++ p :: q :: post) x = lin p q x
  | [], hs, h0, h1 => by
    have hpq : p.1 < q.1 := (List.pairwise_cons.mp hs).1 q List.mem_cons_self
    simp only [List.nil_append, interpIn]
    by_cases e0 : x = p.1
    · rw [if_pos e0, e0, lin_left]
    · rw [if_neg e0, if_pos h1]
      by_cases e1 : x = q.1
      · rw [if_pos e1, e1, lin_right p q hpq]
      · rw [if_neg e1]
  | [a], hs, h0, h1 => by
    have hap : a.1 < p.1 := (List.pairwise_cons.mp hs).1 p List.mem_cons_self
    have ih := interpIn_seg p q post x [] (List.pairwise_cons.mp hs).2 h0 h1
    have hax : a.1 < x := lt_of_lt_of_le hap h0
    simp only [List.cons_append, List.nil_append, interpIn, ne_of_gt hax, if_false] at ih ⊢
    by_cases e : x ≤ p.1
    · have e0 : x = p.1 := le_antisymm e h0
      simp only [e0, le_refl, if_true, lin_left]
    · rw [if_neg e]; exact ih
  | a :: b :: pre, hs, h0, h1 => by
    have hs' := (List.pairwise_cons.mp hs).2
    have ih := interpIn_seg p q post x (b :: pre) hs' h0 h1
    have hap : a.1 < p.1 := (List.pairwise_cons.mp hs).1 p (by simp)
    have hbp : b.1 < p.1 := (List.pairwise_cons.mp hs').1 p (by simp)
    have hax : a.1 < x := lt_of_lt_of_le hap h0
    have hbx : b.1 < x := lt_of_lt_of_le hbp h0
    simp only [List.cons_append, interpIn, ne_of_gt hax, if_false, not_le.mpr hbx] at ih ⊢
    exact ih

theorem lin_pos (p0 p1 : K × K) (x : K) (h01 : p0.1 < p1.1) (h0 : p0.1 ≤ x) (h1 : x ≤ p1.1)
    (y0 : 0 < p0.2) (y1 : 0 < p1.2) : 0 < lin p0 p1 x := by
  unfold lin
  have hd : 0 < p1.1 - p0.1 := sub_pos.mpr h01
  have ht0 : 0 ≤ (x - p0.1) / (p1.1 - p0.1) := div_nonneg (sub_nonneg.mpr h0) hd.le
  have ht1 : (x - p0.1) / (p1.1 - p0.1) ≤ 1 := (div_le_one hd).mpr (by linarith)
  rcases le_total p0.2 p1.2 with h | h
  · have := mul_nonneg ht0 (sub_nonneg.mpr h); linarith
  · have := mul_nonneg (sub_nonneg.mpr ht1) (sub_nonneg.mpr h); nlinarith

theorem interpIn_pos : ∀ (tl : List (K × K)) (p0 : K × K) (x : K), SortedX (p0 :: tl) →
    (∀ p ∈ p0 :: tl, 0 < p.2) → p0.1 ≤ x → x ≤ (lastD tl p0).1 → 0 < interpIn (p0 :: tl) x
  | [], p0, x, _, hp, _, _ => by simpa [interpIn] using hp p0 List.mem_cons_self
  | p1 :: rest, p0, x, hs, hp, h0, h1 => by
    have h01 : p0.1 < p1.1 := (List.pairwise_cons.mp hs).1 p1 List.mem_cons_self
    have hs' : SortedX (p1 :: rest) := (List.pairwise_cons.mp hs).2
    have y0 := hp p0 List.mem_cons_self
    have y1 := hp p1 (List.mem_cons_of_mem _ List.mem_cons_self)
    simp only [interpIn]
    by_cases e0 : x = p0.1
    · rw [if_pos e0]; exact y0
    · rw [if_neg e0]
      by_cases e : x ≤ p1.1
      · rw [if_pos e]
        by_cases e1 : x = p1.1
        · rw [if_pos e1]; exact y1
        · rw [if_neg e1]; exact lin_pos p0 p1 x h01 h0 e y0 y1
      · rw [if_neg e]
        exact interpIn_pos rest p1 x hs' (fun p h => hp p (List.mem_cons_of_mem _ h)) (not_le.mp e).le h1

/-! ### multiplying every opacity by a constant -/

theorem lastD_map {α β : Type} (f : α → β) : ∀ (l : List α) (d : α), lastD (l.map f) (f d) = f (lastD l d)
  | [], _ => rfl
  | x :: l, _ => by simp only [List.map_cons, lastD]; exact lastD_map f l x

theorem lin_yscale (c : K) (p0 p1 : K × K) (x : K) :
    lin (p0.1, c * p0.2) (p1.1, c * p1.2) x = c * lin p0 p1 x := by
  unfold lin; ring

theorem interpIn_yscale (c : K) (x : K) : ∀ (tab : List (K × K)),
    interpIn (tab.map (fun p => (p.1, c * p.2))) x = c * interpIn tab x
  | [] => by simp [interpIn]
  | [p0] => by simp [interpIn]
  | p0 :: p1 :: rest => by
    have ih := interpIn_yscale c x (p1 :: rest)
    simp only [List.map_cons] at ih
    simp only [List.map_cons, interpIn, ih, lin_yscale]
    split_ifs <;> rfl

theorem npInterp_yscale (c l r : K) (x : K) (tab : List (K × K)) :
    npInterp (c * l) (c * r) (tab.map (fun p => (p.1, c * p.2))) x = c * npInterp l r tab x := by
  cases tab with
  | nil => simp [npInterp]
  | cons p0 tl =>
    have hl := lastD_map (fun p : K × K => (p.1, c * p.2)) (p0 :: tl) p0
    have hi := interpIn_yscale c x (p0 :: tl)
    simp only [List.map_cons] at hl hi
    simp only [List.map_cons, npInterp, hl, hi]
    split_ifs <;> rfl

theorem npInterpEdge_yscale (c : K) (x : K) (tab : List (K × K)) :
    npInterpEdge (tab.map (fun p => (p.1, c * p.2))) x = c * npInterpEdge tab x := by
  cases tab with
  | nil => simp [npInterpEdge]
  | cons p0 tl =>
    have hl := lastD_map (fun p : K × K => (p.1, c * p.2)) (p0 :: tl) p0
    have hn := npInterp_yscale c p0.2 (lastD (p0 :: tl) p0).2 x (p0 :: tl)
    simp only [List.map_cons] at hl hn
    simp only [List.map_cons, npInterpEdge, hl, hn]

/-! ### expressing wavelengths in another unit -/

theorem lin_xscale (s : K) (hs : s ≠ 0) (p0 p1 : K × K) (x : K) :
    lin (s * p0.1, p0.2) (s * p1.1, p1.2) (s * x) = lin p0 p1 x := by
  unfold lin
  simp only
  rw [← mul_sub, ← mul_sub, mul_div_mul_left _ _ hs]

theorem interpIn_xscale (s : K) (hs : 0 < s) (x : K) : ∀ (tab : List (K × K)),
    interpIn (tab.map (fun p => (s * p.1, p.2))) (s * x) = interpIn tab x
  | [] => by simp [interpIn]
  | [p0] => by simp [interpIn]
  | p0 :: p1 :: rest => by
    have ih := interpIn_xscale s hs x (p1 :: rest)
    simp only [List.map_cons] at ih
    simp only [List.map_cons, interpIn, ih, lin_xscale s (ne_of_gt hs), mul_le_mul_iff_right₀ hs,
      mul_right_inj' (ne_of_gt hs)]

theorem npInterp_xscale (s : K) (hs : 0 < s) (l r x : K) (tab : List (K × K)) :
    npInterp l r (tab.map (fun p => (s * p.1, p.2))) (s * x) = npInterp l r tab x := by
  cases tab with
  | nil => simp [npInterp]
  | cons p0 tl =>
    have hl := lastD_map (fun p : K × K => (s * p.1, p.2)) (p0 :: tl) p0
    have hi := interpIn_xscale s hs x (p0 :: tl)
    simp only [List.map_cons] at hl hi
    simp only [List.map_cons, npInterp, hl, hi, mul_lt_mul_iff_right₀ hs]

theorem npInterpEdge_xscale (s : K) (hs : 0 < s) (x : K) (tab : List (K × K)) :
    npInterpEdge (tab.map (fun p => (s * p.1, p.2))) (s * x) = npInterpEdge tab x := by
  cases tab with
  | nil => simp [npInterpEdge]
  | cons p0 tl =>
    have hl := lastD_map (fun p : K × K => (s * p.1, p.2)) (p0 :: tl) p0
    have hn := npInterp_xscale s hs p0.2 (lastD (p0 :: tl) p0).2 x (p0 :: tl)
    simp only [List.map_cons] at hl hn
    simp only [List.map_cons, npInterpEdge, hl, hn]

/-! ### the text-file reader -/

/-- the column selection of `from_file` returns the two columns that were written -/
theorem selectCols_ok (i j : Nat) : ∀ (rows : List (List K)) (ws cs : List K),
    rows.map (fun r => r[i]?) = ws.map some → rows.map (fun r => r[j]?) = cs.map some →
    selectCols i j rows = .ok (ws, cs)
  | [], ws, cs, hw, hc => by
    cases ws <;> cases cs <;> simp_all [selectCols]
  | row :: rows, [], _, hw, _ => by simp at hw
  | row :: rows, _ :: _, [], _, hc => by simp at hc
  | row :: rows, w :: ws, c :: cs, hw, hc => by
    simp only [List.map_cons, List.cons.injEq] at hw hc
    have ih := selectCols_ok i j rows ws cs hw.2 hc.2
    simp only [selectCols, hw.1, hc.1, ih]

theorem lastD_mem {α : Type} : ∀ (tl : List α) (p0 : α), lastD tl p0 ∈ p0 :: tl
  | [], _ => by simp [lastD]
  | p1 :: tl, p0 => by
    simp only [lastD]
    exact List.mem_cons_of_mem _ (lastD_mem tl p1)

end Ext
end SF
