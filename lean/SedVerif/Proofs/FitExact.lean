import SedVerif.Proofs.FitFlags

/-! Helper lemmas for C08: data synthesised exactly from a model are fitted exactly; `argminFirst`
picks the first strict minimum. -/
namespace SF
variable {K : Type} [Field K] [LinearOrder K] [IsStrictOrderedRing K]

/-! ## exact data -/

section exact
variable {ps : List (Pt K)} {a0 s0 : K}

theorem exact_sums (h : ∀ p ∈ ps, p.w ≠ 0 → p.r = a0 * p.k + s0 * p.q) :
    c1 ps = a0 * m11 ps + s0 * m12 ps ∧ c2 ps = a0 * m12 ps + s0 * m22 ps := by
  induction ps with
  | nil => simp [c1, c2, m11, m12, m22, sumBy]
  | cons p ps ih =>
    obtain ⟨i1, i2⟩ := ih (fun q hq => h q (List.mem_cons_of_mem _ hq))
    simp only [c1, c2, m11, m12, m22, sumBy] at i1 i2 ⊢
    rw [i1, i2]
    by_cases hw : p.w = 0
    · rw [hw]; constructor <;> ring
    · rw [h p List.mem_cons_self hw]; constructor <;> ring

theorem linreg_exact (h : ∀ p ∈ ps, p.w ≠ 0 → p.r = a0 * p.k + s0 * p.q)
    (hdet : m11 ps * m22 ps - m12 ps * m12 ps ≠ 0) : linreg ps = (a0, s0) := by
  obtain ⟨e1, e2⟩ := exact_sums h
  have hone : (m11 ps * m22 ps - m12 ps * m12 ps) * (1 / (m11 ps * m22 ps - m12 ps * m12 ps)) = 1 :=
    mul_one_div_cancel hdet
  simp only [linreg, e1, e2]
  refine Prod.ext ?_ ?_
  · simp only; linear_combination a0 * hone
  · simp only; linear_combination s0 * hone

theorem fit2_exact (lo hi : K) (h : ∀ p ∈ ps, p.w ≠ 0 → p.r = a0 * p.k + s0 * p.q)
    (hdet : m11 ps * m22 ps - m12 ps * m12 ps ≠ 0) (hlo : lo ≤ a0) (hhi : a0 ≤ hi) :
    fit2 lo hi ps = (a0, s0) := by
  simp only [fit2, linreg_exact h hdet, if_neg (not_lt.mpr hlo), if_neg (not_lt.mpr hhi)]

theorem ssq_exact (h : ∀ p ∈ ps, p.w ≠ 0 → p.r = a0 * p.k + s0 * p.q) : ssq a0 s0 ps = 0 := by
  unfold ssq
  apply sumBy_eq_zero
  intro p hp
  by_cases hw : p.w = 0
  · rw [hw, mul_zero]
  · rw [h p hp hw]; ring

theorem optAv_exact (h : ∀ p ∈ ps, p.w ≠ 0 → p.r = a0 * p.k)
    (hk : sumBy (fun p => p.k * p.k * p.w) ps ≠ 0) : optAv ps = a0 := by
  have e : sumBy (fun p => p.r * p.k * p.w) ps = a0 * sumBy (fun p => p.k * p.k * p.w) ps := by
    clear hk
    induction ps with
    | nil => simp [sumBy]
    | cons p ps ih =>
      simp only [sumBy]
      rw [ih (fun q hq => h q (List.mem_cons_of_mem _ hq))]
      by_cases hw : p.w = 0
      · rw [hw]; ring
      · rw [h p List.mem_cons_self hw]; ring
  unfold optAv
  rw [e, mul_div_assoc, div_self hk, mul_one]

end exact

theorem clipAv_of_mem (lo hi a : K) (hlo : lo ≤ a) (hhi : a ≤ hi) : clipAv lo hi a = a := by
  simp only [clipAv, if_neg (not_lt.mpr hlo), if_neg (not_lt.mpr hhi)]

/-! ## `np.argmin`: first index of the minimum -/

theorem argminFirstAux_keep (xs : List K) (i bi : Nat) (bv : K) (h : ∀ x ∈ xs, bv ≤ x) :
    argminFirstAux xs i bi bv = (bi, bv) := by
  induction xs generalizing i with
  | nil => rfl
  | cons x xs ih =>
    simp only [argminFirstAux, if_neg (not_lt.mpr (h x List.mem_cons_self))]
    exact ih (i + 1) (fun y hy => h y (List.mem_cons_of_mem _ hy))

theorem argminFirstAux_eq (xs : List K) (t : Nat) (v : K) (i0 bi : Nat) (bv : K)
    (ht : xs[t]? = some v) (hbefore : ∀ j < t, ∀ x, xs[j]? = some x → v < x)
    (hall : ∀ x ∈ xs, v ≤ x) (hbv : v < bv) :
    argminFirstAux xs i0 bi bv = (i0 + t, v) := by
  induction xs generalizing t i0 bi bv with
  | nil => simp at ht
  | cons x xs ih =>
    have hall' : ∀ y ∈ xs, v ≤ y := fun y hy => hall y (List.mem_cons_of_mem _ hy)
    cases t with
    | zero =>
      simp only [List.getElem?_cons_zero, Option.some.injEq] at ht
      subst ht
      simp only [argminFirstAux, if_pos hbv, Nat.add_zero]
      exact argminFirstAux_keep xs (i0 + 1) i0 x hall'
    | succ t =>
      simp only [List.getElem?_cons_succ] at ht
      have hx : v < x := hbefore 0 (Nat.succ_pos t) x (by simp)
      have hb' : ∀ j < t, ∀ y, xs[j]? = some y → v < y := fun j hj y hy =>
        hbefore (j + 1) (Nat.succ_lt_succ hj) y (by simpa using hy)
      simp only [argminFirstAux]
      by_cases hlt : x < bv
      · rw [if_pos hlt, ih t (i0 + 1) i0 x ht hb' hall' hx]
        congr 1; omega
      · rw [if_neg hlt, ih t (i0 + 1) bi bv ht hb' hall' hbv]
        congr 1; omega

/-- `argminFirst` returns the first index at which the minimum is attained -/
theorem argminFirst_eq (l : List K) (t : Nat) (v : K) (ht : l[t]? = some v)
    (hbefore : ∀ j < t, ∀ x, l[j]? = some x → v < x) (hall : ∀ x ∈ l, v ≤ x) :
    argminFirst l = (t, v) := by
  cases l with
  | nil => simp at ht
  | cons x xs =>
    have hall' : ∀ y ∈ xs, v ≤ y := fun y hy => hall y (List.mem_cons_of_mem _ hy)
    cases t with
    | zero =>
      simp only [List.getElem?_cons_zero, Option.some.injEq] at ht
      subst ht
      exact argminFirstAux_keep xs 1 0 x hall'
    | succ t =>
      simp only [List.getElem?_cons_succ] at ht
      have hx : v < x := hbefore 0 (Nat.succ_pos t) x (by simp)
      have hb' : ∀ j < t, ∀ y, xs[j]? = some y → v < y := fun j hj y hy =>
        hbefore (j + 1) (Nat.succ_lt_succ hj) y (by simpa using hy)
      simp only [argminFirst]
      rw [argminFirstAux_eq xs t v 1 0 x ht hb' hall' hx]
      congr 1; omega

theorem chi2_nonneg (big : K) (ln1m : K → K) (a s : K) (ps : List (Pt K)) (hbig : 0 ≤ big)
    (hw : ∀ p ∈ ps, 0 ≤ p.w)
    (hc : ∀ p ∈ ps, (p.flag = 2 ∨ p.flag = 3) → p.e ≠ 1 → ln1m p.e ≤ 0) :
    0 ≤ chi2 big ln1m a s ps :=
  sumBy_nonneg _ _ (fun p hp => chiTerm_nonneg big ln1m a s p (hw p hp) hbig (hc p hp))

end SF
