import SedVerif.Proofs.FitFlags

/-! Helper lemmas for C11: permutation invariance and the additive shift of all residuals. -/
namespace SF
variable {K : Type} [Field K] [LinearOrder K] [IsStrictOrderedRing K]

/-! ## permutations of the band list -/

section perm
variable {ps ps' : List (Pt K)}

theorem linreg_perm (h : ps.Perm ps') : linreg ps = linreg ps' := by
  simp only [linreg, c1, c2, m11, m12, m22, sumBy_perm _ h]

theorem optScale_perm (a : K) (h : ps.Perm ps') : optScaleAfterAv a ps = optScaleAfterAv a ps' := by
  simp only [optScaleAfterAv, m22, sumBy_perm _ h]

theorem fit2_perm (lo hi : K) (h : ps.Perm ps') : fit2 lo hi ps = fit2 lo hi ps' := by
  simp only [fit2, linreg_perm h, optScale_perm _ h]

theorem chi2_perm (big : K) (ln1m : K → K) (a s : K) (h : ps.Perm ps') :
    chi2 big ln1m a s ps = chi2 big ln1m a s ps' := sumBy_perm _ h

theorem optAv_perm (h : ps.Perm ps') : optAv ps = optAv ps' := by
  simp only [optAv, sumBy_perm _ h]

theorem fit3PerDist_perm (big : K) (ln1m : K → K) (lo hi : K) {pss pss' : List (List (Pt K))}
    (h : List.Forall₂ List.Perm pss pss') :
    fit3PerDist big ln1m lo hi pss = fit3PerDist big ln1m lo hi pss' := by
  unfold fit3PerDist
  induction h with
  | nil => rfl
  | cons hab _ ih => simp only [List.map_cons, optAv_perm hab, chi2_perm _ _ _ _ hab, ih]

end perm

/-- permuting (band of the source, model flux, coefficient) triples permutes the points -/
theorem obsPts_perm (lg : K → K) (ln10 : K) {os os' : List (Obs K)} {ks ks' mf mf' : List K}
    (h : (os.zip (mf.zip ks)).Perm (os'.zip (mf'.zip ks'))) :
    (obsPts lg ln10 os ks mf).Perm (obsPts lg ln10 os' ks' mf') := by
  unfold obsPts
  rw [mkPts_eq_map_zip, mkPts_eq_map_zip, List.zip_map_left, List.zip_map_left, List.map_map, List.map_map]
  exact h.map _

/-! ## shifting every residual by a constant -/

/-- `p'` is `p` with the residual shifted by `t`; bands of weight zero that are not limits (flags 0
    and 9) may carry any residual -/
def ShiftRel (t : K) (p p' : Pt K) : Prop :=
  p'.k = p.k ∧ p'.q = p.q ∧ p'.w = p.w ∧ p'.flag = p.flag ∧ p'.e = p.e ∧
    (p'.r = p.r + t ∨ (p.w = 0 ∧ p.flag ≠ 2 ∧ p.flag ≠ 3))

section shift
variable {t : K} {ps ps' : List (Pt K)}

theorem shift_sums (h : List.Forall₂ (ShiftRel t) ps ps') (hq : ∀ p ∈ ps, p.q = scLaw) :
    m11 ps' = m11 ps ∧ m12 ps' = m12 ps ∧ m22 ps' = m22 ps ∧
    2 * (c1 ps' - c1 ps) = -(t * m12 ps) ∧ 2 * (c2 ps' - c2 ps) = -(t * m22 ps) := by
  induction h with
  | nil => simp [m11, m12, m22, c1, c2, sumBy]
  | @cons p p' l l' hpp _ ih =>
    obtain ⟨i11, i12, i22, i1, i2⟩ := ih (fun x hx => hq x (List.mem_cons_of_mem _ hx))
    obtain ⟨hk, hq', hw, _, _, hr⟩ := hpp
    have hqp : p.q = -2 := by rw [hq p List.mem_cons_self, scLaw, two_eq]
    simp only [m11, m12, m22, c1, c2, sumBy] at i11 i12 i22 i1 i2 ⊢
    rw [hk, hq', hw, i11, i12, i22]
    refine ⟨rfl, rfl, rfl, ?_, ?_⟩
    · rcases hr with hr | ⟨hw0, _⟩
      · rw [hr, hqp]; linear_combination i1
      · rw [hw0]; linear_combination i1
    · rcases hr with hr | ⟨hw0, _⟩
      · rw [hr, hqp]; linear_combination i2
      · rw [hw0]; linear_combination i2

theorem linreg_shift (h : List.Forall₂ (ShiftRel t) ps ps') (hq : ∀ p ∈ ps, p.q = scLaw)
    (hdet : m11 ps * m22 ps - m12 ps * m12 ps ≠ 0) :
    linreg ps' = ((linreg ps).1, (linreg ps).2 - t / 2) := by
  obtain ⟨h11, h12, h22, h1, h2⟩ := shift_sums h hq
  have e1 : c1 ps' = c1 ps - t * m12 ps / 2 := by linear_combination h1 / 2
  have e2 : c2 ps' = c2 ps - t * m22 ps / 2 := by linear_combination h2 / 2
  simp only [linreg, h11, h12, h22, e1, e2]
  refine Prod.ext ?_ ?_
  · simp only; ring
  · simp only
    have : (m11 ps * m22 ps - m12 ps * m12 ps) * (1 / (m11 ps * m22 ps - m12 ps * m12 ps)) = 1 :=
      mul_one_div_cancel hdet
    linear_combination (-t / 2) * this

theorem optScale_shift (a : K) (h : List.Forall₂ (ShiftRel t) ps ps') (hq : ∀ p ∈ ps, p.q = scLaw)
    (h22 : m22 ps ≠ 0) : optScaleAfterAv a ps' = optScaleAfterAv a ps - t / 2 := by
  obtain ⟨_, h12, h22', _, h2⟩ := shift_sums h hq
  unfold optScaleAfterAv
  rw [optScale_expand, optScale_expand, h12, h22']
  have e2 : c2 ps' = c2 ps - t * m22 ps / 2 := by linear_combination h2 / 2
  rw [e2]; field_simp; ring

theorem fit2_shift (lo hi : K) (h : List.Forall₂ (ShiftRel t) ps ps') (hq : ∀ p ∈ ps, p.q = scLaw)
    (hdet : m11 ps * m22 ps - m12 ps * m12 ps ≠ 0) (h22 : m22 ps ≠ 0) :
    fit2 lo hi ps' = ((fit2 lo hi ps).1, (fit2 lo hi ps).2 - t / 2) := by
  simp only [fit2, linreg_shift h hq hdet, optScale_shift _ h hq h22]
  generalize linreg ps = AS
  obtain ⟨A, S⟩ := AS
  simp only
  by_cases h1 : A < lo
  · simp [h1]
  · by_cases h2 : hi < A
    · simp [h1, h2]
    · simp [h1, h2]

theorem chiTerm_shift (big : K) (ln1m : K → K) (a s : K) {p p' : Pt K} (h : ShiftRel t p p')
    (hq : p.q = scLaw) : chiTerm big ln1m a (s - t / 2) p' = chiTerm big ln1m a s p := by
  obtain ⟨hk, hq', hw, hf, he, hr⟩ := h
  have hqp : p.q = -2 := by rw [hq, scLaw, two_eq]
  rcases hr with hr | ⟨hw0, h2, h3⟩
  · have hm : a * p'.k + (s - t / 2) * p'.q = a * p.k + s * p.q + t := by rw [hk, hq', hqp]; ring
    simp only [chiTerm, hm, hr, hw, hf, he]
    have e1 : p.r + t - (a * p.k + s * p.q + t) = p.r - (a * p.k + s * p.q) := by ring
    have c1 : (a * p.k + s * p.q + t < p.r + t) ↔ (a * p.k + s * p.q < p.r) := by
      constructor <;> intro h <;> linarith
    have c2 : (p.r + t < a * p.k + s * p.q + t) ↔ (p.r < a * p.k + s * p.q) := by
      constructor <;> intro h <;> linarith
    simp only [e1, c1, c2]
  · have h2' : p'.flag ≠ 2 := hf ▸ h2
    have h3' : p'.flag ≠ 3 := hf ▸ h3
    rw [chiTerm_zero_of_w _ _ _ _ p hw0 h2 h3, chiTerm_zero_of_w _ _ _ _ p' (hw ▸ hw0) h2' h3']

theorem chi2_shift (big : K) (ln1m : K → K) (a s : K) (h : List.Forall₂ (ShiftRel t) ps ps')
    (hq : ∀ p ∈ ps, p.q = scLaw) :
    chi2 big ln1m a (s - t / 2) ps' = chi2 big ln1m a s ps := by
  unfold chi2
  induction h with
  | nil => rfl
  | @cons p p' _ _ hpp _ ih =>
    simp only [sumBy]
    rw [chiTerm_shift big ln1m a s hpp (hq p List.mem_cons_self),
      ih (fun x hx => hq x (List.mem_cons_of_mem _ hx))]

end shift

theorem obsPts_q (lg : K → K) (ln10 : K) (os : List (Obs K)) (ks mf : List K) :
    ∀ p ∈ obsPts lg ln10 os ks mf, p.q = scLaw := by
  intro p hp
  obtain ⟨_, _, _, _, rfl⟩ := mem_mkPts hp
  rfl

end SF
