import SedVerif.Model.History
/-!
# Helper lemmas for C10 (core Lean only)

Part 1: what `Writer.write` appends; the source loop against `parsePrefix`; the reader against the
serialised frames (for codecs whose laws hold on a subset `P` of the objects).  Part 2: heap lemmas (`lookupRef`/`updateRef`/`freshRef`/`alloc`), the extension
order `Ext` (everything the caller can reach is untouched), one iteration of `FitInfoFile.__iter__`
in copy mode, and the two loops.
-/
namespace SF.Hist

/-! ## Part 1 -/
section part1
variable {L Src Hdr Rec B : Type} [DecidableEq Hdr]

/-- what a writer whose `_first_meta` is `first` appends when the records `rs` (all carrying the
    metadata `h`) are written to it -/
def appended (h : Hdr) (first : Option Hdr) (rs : List Rec) : List (Frame Hdr Rec) :=
  match first with
  | none => framesOf h rs
  | some _ => rs.map .recd

theorem appended_nil (h : Hdr) (first : Option Hdr) : appended h first ([] : List Rec) = [] := by
  cases first <;> rfl

theorem appended_cons (h : Hdr) (first : Option Hdr) (r : Rec) (rs : List Rec) :
    appended h first (r :: rs) = appended h first [r] ++ rs.map .recd := by
  cases first <;> simp [appended, framesOf]

theorem write_ok (h : Hdr) (r : Rec) (w : Writer Hdr Rec)
    (hw : w.firstMeta = none ∨ w.firstMeta = some h) :
    ∃ w1, w.write h r = .ok w1 ∧ w1.firstMeta = some h ∧ w1.out = w.out ++ appended h w.firstMeta [r] := by
  rcases hw with hw | hw
  · exact ⟨⟨some h, w.out ++ [.hdr h, .recd r]⟩, by simp [Writer.write, hw], rfl, by simp [hw, appended, framesOf]⟩
  · exact ⟨⟨some h, w.out ++ [.recd r]⟩, by simp [Writer.write, hw], rfl, by simp [hw, appended]⟩

theorem writeLoop_spec (h : Hdr) : ∀ (rs : List Rec) (w : Writer Hdr Rec),
    (w.firstMeta = none ∨ w.firstMeta = some h) →
    ∃ w', writeLoop h rs w = .ok w' ∧ w'.out = w.out ++ appended h w.firstMeta rs := by
  intro rs
  induction rs with
  | nil => intro w _; exact ⟨w, rfl, by simp [appended_nil]⟩
  | cons r rs ih =>
    intro w hw
    obtain ⟨w1, h1, hf, ho⟩ := write_ok h r w hw
    obtain ⟨w', h2, ho'⟩ := ih w1 (Or.inr hf)
    refine ⟨w', by simp [writeLoop, h1, h2], ?_⟩
    rw [ho', ho, hf, appended_cons h w.firstMeta r rs, List.append_assoc]
    rfl

theorem writeAll_eq (h : Hdr) (rs : List Rec) : writeAll h rs = .ok (framesOf h rs) := by
  obtain ⟨w', h1, ho⟩ := writeLoop_spec h rs Writer.new (Or.inl rfl)
  simp only [writeAll, h1, ho]
  simp [Writer.new, appended]

/-- the records `fit()` writes for the parsed sources `ss` -/
def FitCfg.records (c : FitCfg L Src Hdr Rec) (ss : List Src) : List Rec :=
  (ss.filter c.eligible).map c.post

theorem records_cons (c : FitCfg L Src Hdr Rec) (s : Src) (ss : List Src) :
    c.records (s :: ss) = if c.eligible s then c.post s :: c.records ss else c.records ss := by
  unfold FitCfg.records
  by_cases he : c.eligible s <;> simp [List.filter, he]

theorem fitLoop_spec (c : FitCfg L Src Hdr Rec) : ∀ (lines : List L) (w : Writer Hdr Rec),
    (w.firstMeta = none ∨ w.firstMeta = some c.hdr) →
    match parsePrefix c.parse lines with
    | .error e => fitLoop c lines w = .error e
    | .ok ss => ∃ w', fitLoop c lines w = .ok w' ∧
                  w'.out = w.out ++ appended c.hdr w.firstMeta (c.records ss) := by
  intro lines
  induction lines with
  | nil =>
    intro w _
    simp only [parsePrefix]
    exact ⟨w, rfl, by simp [FitCfg.records, appended_nil]⟩
  | cons l ls ih =>
    intro w hw
    simp only [parsePrefix, fitLoop]
    cases hp : c.parse l with
    | error e =>
      by_cases he : e = .eof
      · simp only [he, if_true]
        exact ⟨w, rfl, by simp [FitCfg.records, appended_nil]⟩
      · simp only [he, if_false]
    | ok s =>
      simp only
      by_cases hel : c.eligible s
      · simp only [hel, if_true]
        obtain ⟨w1, h1, hf, ho⟩ := write_ok c.hdr (c.post s) w hw
        have ih1 := ih w1 (Or.inr hf)
        rw [h1]
        simp only
        cases hq : parsePrefix c.parse ls with
        | error e => rw [hq] at ih1; simpa using ih1
        | ok ss =>
          rw [hq] at ih1
          obtain ⟨w', h2, ho'⟩ := ih1
          refine ⟨w', h2, ?_⟩
          rw [ho', ho, hf, records_cons, if_pos hel, appended_cons c.hdr w.firstMeta (c.post s) (c.records ss), List.append_assoc]
          rfl
      · simp only [hel]
        have ih1 := ih w hw
        cases hq : parsePrefix c.parse ls with
        | error e => rw [hq] at ih1; simpa using ih1
        | ok ss =>
          rw [hq] at ih1
          obtain ⟨w', h2, ho'⟩ := ih1
          refine ⟨w', by simpa using h2, ?_⟩
          rw [ho', records_cons]
          simp [hel]

/-- a prefix of lines that all parse, followed by the end of the file or by a line on which
    `from_ascii` raises `EOFError` -/
theorem parsePrefix_upto (parse : L → Except Err Src) : ∀ (pre : List L) (ss : List Src) (tail : List L),
    pre.map parse = ss.map .ok →
    (tail = [] ∨ ∃ l rest, tail = l :: rest ∧ parse l = .error .eof) →
    parsePrefix parse (pre ++ tail) = .ok ss := by
  intro pre
  induction pre with
  | nil =>
    intro ss tail hall ht
    cases ss with
    | cons s ss => simp at hall
    | nil =>
      rcases ht with ht | ⟨l, rest, ht, hl⟩
      · simp [ht, parsePrefix]
      · simp [ht, parsePrefix, hl]
  | cons l pre ih =>
    intro ss tail hall ht
    cases ss with
    | nil => simp at hall
    | cons s ss =>
      simp only [List.map_cons, List.cons.injEq] at hall
      simp [parsePrefix, hall.1, ih ss tail hall.2 ht]

theorem enc_ne_nil {α : Type} {P : α → Prop} {enc : α → List B} {dec : List B → Dec α B}
    (hl : CodecLawsOn P enc dec) (x : α) (hx : P x) : enc x ≠ [] := by
  intro h
  have h1 := hl.roundtrip x hx []
  rw [h, List.append_nil, hl.atEnd] at h1
  cases h1

theorem readRecs_serialize {P : Rec → Prop} {encH : Hdr → List B} {enc : Rec → List B} {dec : List B → Dec Rec B}
    (hl : CodecLawsOn P enc dec) : ∀ (rs : List Rec) (n : Nat), (∀ r ∈ rs, P r) →
    (serialize encH enc (rs.map .recd)).length < n →
    readRecs dec n (serialize encH enc (rs.map .recd)) = .ok rs := by
  intro rs
  induction rs with
  | nil =>
    intro n _ hn
    cases n with
    | zero => omega
    | succ n => simp [serialize, readRecs, hl.atEnd]
  | cons r rs ih =>
    intro n hP hn
    cases n with
    | zero => omega
    | succ n =>
      simp only [List.map_cons, serialize, List.length_append] at hn ⊢
      have hr : P r := hP r (List.mem_cons_self ..)
      have hpos : 0 < (enc r).length := List.length_pos_iff.mpr (enc_ne_nil hl r hr)
      simp only [readRecs, hl.roundtrip r hr]
      rw [ih n (fun r' h' => hP r' (List.mem_cons_of_mem _ h')) (by omega)]

theorem readAll_framesOf {PH : Hdr → Prop} {PR : Rec → Prop} {encH : Hdr → List B} {decH : List B → Dec Hdr B}
    {enc : Rec → List B} {dec : List B → Dec Rec B}
    (hH : CodecLawsOn PH encH decH) (hR : CodecLawsOn PR enc dec) (h : Hdr) (r : Rec) (rs : List Rec)
    (hh : PH h) (hrs : ∀ r' ∈ r :: rs, PR r') :
    readAll decH dec (serialize encH enc (framesOf h (r :: rs))) = .ok (h, r :: rs) := by
  have hs : serialize encH enc (framesOf h (r :: rs)) = encH h ++ serialize encH enc ((r :: rs).map .recd) := by
    simp [framesOf, serialize]
  rw [hs]
  simp only [readAll, hH.roundtrip h hh]
  rw [readRecs_serialize hR (r :: rs) _ hrs (Nat.lt_succ_self _)]

/-- a byte codec for states lifts to a codec for the objects on which `__setstate__ ∘ __getstate__`
    is the identity -/
theorem codec_via {α σ : Type} {P : α → Prop} {get : α → σ} {set : σ → Except Err α}
    {encS : σ → List B} {decS : List B → Dec σ B}
    (hS : CodecLaws encS decS) (hrt : ∀ x, P x → set (get x) = .ok x) :
    CodecLawsOn P (encVia get encS) (decVia set decS) := by
  refine ⟨?_, ?_⟩
  · intro x hx rest
    simp only [encVia, decVia, hS.roundtrip (get x) trivial rest, hrt x hx]
  · simp only [decVia, hS.atEnd]

end part1

/-! ## Part 2 -/
section part2
variable {α : Type}

theorem lookup_lt_fresh : ∀ (h : Heap α) (r : Nat) (v : α), lookupRef r h = some v → r < freshRef h := by
  intro h
  induction h with
  | nil => intro r v hv; simp [lookupRef] at hv
  | cons c h ih =>
    intro r v hv
    obtain ⟨r', v'⟩ := c
    simp only [lookupRef] at hv
    simp only [freshRef]
    by_cases he : r' = r
    · omega
    · simp only [he, if_false] at hv
      have := ih r v hv
      omega

theorem lookup_update_ne (r r0 : Nat) (f : α → α) (hne : r ≠ r0) :
    ∀ h : Heap α, lookupRef r (updateRef r0 f h) = lookupRef r h := by
  intro h
  induction h with
  | nil => rfl
  | cons c h ih =>
    obtain ⟨r', v'⟩ := c
    simp only [updateRef]
    by_cases h0 : r' = r0
    · have hne' : ¬ r0 = r := fun h => hne h.symm
      subst h0
      simp [lookupRef, ih, hne']
    · simp only [h0, if_false, lookupRef, ih]

theorem lookup_update_eq (r0 : Nat) (f : α → α) :
    ∀ h : Heap α, lookupRef r0 (updateRef r0 f h) = (lookupRef r0 h).map f := by
  intro h
  induction h with
  | nil => rfl
  | cons c h ih =>
    obtain ⟨r', v'⟩ := c
    simp only [updateRef]
    by_cases h0 : r' = r0
    · simp [h0, lookupRef]
    · simp [h0, lookupRef, ih]

theorem fresh_update (r0 : Nat) (f : α → α) : ∀ h : Heap α, freshRef (updateRef r0 f h) = freshRef h := by
  intro h
  induction h with
  | nil => rfl
  | cons c h ih =>
    obtain ⟨r', v'⟩ := c
    simp only [updateRef]
    by_cases h0 : r' = r0 <;> simp [h0, freshRef, ih]

/-- `h'` extends `h`: every reference the owner of `h` can hold still leads to the same thing -/
def Ext (h h' : Heap α) : Prop :=
  freshRef h ≤ freshRef h' ∧ ∀ r, r < freshRef h → lookupRef r h' = lookupRef r h

theorem Ext.refl (h : Heap α) : Ext h h := ⟨Nat.le_refl _, fun _ _ => rfl⟩

theorem Ext.trans {h1 h2 h3 : Heap α} (a : Ext h1 h2) (b : Ext h2 h3) : Ext h1 h3 :=
  ⟨Nat.le_trans a.1 b.1, fun r hr => by rw [b.2 r (Nat.lt_of_lt_of_le hr a.1), a.2 r hr]⟩

theorem ext_alloc (h : Heap α) (v : α) : Ext h (alloc h v).1 := by
  refine ⟨?_, ?_⟩
  · simp only [alloc, freshRef]; omega
  · intro r hr
    simp only [alloc, lookupRef]
    have : ¬ freshRef h = r := by omega
    simp [this]

theorem ext_alloc_update (h : Heap α) (v : α) (f : α → α) :
    Ext h (updateRef (freshRef h) f (alloc h v).1) := by
  refine ⟨?_, ?_⟩
  · rw [fresh_update]; exact (ext_alloc h v).1
  · intro r hr
    rw [lookup_update_ne r (freshRef h) f (by omega)]
    exact (ext_alloc h v).2 r hr

theorem lookup_alloc (h : Heap α) (v : α) : lookupRef (freshRef h) (alloc h v).1 = some v := by
  simp [alloc, lookupRef]

theorem lookup_alloc_update (h : Heap α) (v : α) (f : α → α) :
    lookupRef (freshRef h) (updateRef (freshRef h) f (alloc h v).1) = some (f v) := by
  rw [lookup_update_eq, lookup_alloc]; rfl

variable {X Sel Thr V Pk : Type}

/-! ### values of attributes and objects -/

theorem fldVal_ext {c c' : Heap (List X)} (e : Ext c c') (f : Fld) (v : FV X)
    (hv : fldVal c f = some v) : fldVal c' f = some v := by
  simp only [fldVal] at hv ⊢
  cases hl : lookupRef f.ref c with
  | none => simp [hl] at hv
  | some a =>
    rw [e.2 f.ref (lookup_lt_fresh c f.ref a hl), hl]
    simpa [hl] using hv

theorem objVal_cons {c : Heap (List X)} {f : Fld} {fs : Obj} {vs : RecV X}
    (hv : objVal c (f :: fs) = some vs) :
    ∃ v ws, fldVal c f = some v ∧ objVal c fs = some ws ∧ vs = v :: ws := by
  simp only [objVal] at hv
  cases h1 : fldVal c f with
  | none => simp [h1] at hv
  | some v =>
    cases h2 : objVal c fs with
    | none => simp [h1, h2] at hv
    | some ws =>
      refine ⟨v, ws, rfl, rfl, ?_⟩
      simp [h1, h2] at hv
      exact hv.symm

theorem objVal_ext {c c' : Heap (List X)} (e : Ext c c') : ∀ (o : Obj) (vs : RecV X),
    objVal c o = some vs → objVal c' o = some vs := by
  intro o
  induction o with
  | nil => intro vs hv; exact hv
  | cons f fs ih =>
    intro vs hv
    obtain ⟨v, ws, h1, h2, rfl⟩ := objVal_cons hv
    simp only [objVal, fldVal_ext e f v h1, ih ws h2]

/-- both levels extended -/
def Ext2 (st st' : Store X) : Prop := Ext st.objs st'.objs ∧ Ext st.cells st'.cells

theorem Ext2.refl (st : Store X) : Ext2 st st := ⟨Ext.refl _, Ext.refl _⟩

theorem Ext2.trans {a b c : Store X} (x : Ext2 a b) (y : Ext2 b c) : Ext2 a c :=
  ⟨x.1.trans y.1, x.2.trans y.2⟩

theorem deref_ext {st st' : Store X} (e : Ext2 st st') (r : Nat) (v : RecV X)
    (hv : deref st r = some v) : deref st' r = some v := by
  simp only [deref] at hv ⊢
  cases hl : lookupRef r st.objs with
  | none => simp [hl] at hv
  | some o =>
    rw [e.1.2 r (lookup_lt_fresh _ r o hl), hl]
    simp only [hl] at hv
    exact objVal_ext e.2 o v hv

/-- cutting an object cuts its value: `a[:n][:k]` is `a[:min k n]` -/
theorem fldVal_keep (c : Heap (List X)) (k : Nat) (f : Fld) :
    fldVal c (keepFld k f) = (fldVal c f).map (keepFV k) := by
  obtain ⟨ref, len⟩ := f
  cases len with
  | none =>
    simp only [fldVal, keepFld]
    cases lookupRef ref c <;> simp [keepFV]
  | some n =>
    simp only [fldVal, keepFld]
    cases lookupRef ref c with
    | none => simp
    | some a => simp [keepFV, List.take_take]

theorem objVal_keep (c : Heap (List X)) (k : Nat) : ∀ (o : Obj),
    objVal c (keepObj k o) = (objVal c o).map (keepV k) := by
  intro o
  induction o with
  | nil => rfl
  | cons f fs ih =>
    have hf := fldVal_keep c k f
    simp only [keepObj, List.map_cons, objVal] at ih ⊢
    rw [hf, ih]
    cases fldVal c f with
    | none => simp
    | some v =>
      cases objVal c fs with
      | none => simp
      | some vs => simp [keepV]

/-- the cells of an unpickled record hold its value, and nothing that existed is touched -/
theorem allocFields_spec : ∀ (v : RecV X) (c : Heap (List X)),
    Ext c (allocFields c v).1 ∧ objVal (allocFields c v).1 (allocFields c v).2 = some v := by
  intro v
  induction v with
  | nil => intro c; exact ⟨Ext.refl c, rfl⟩
  | cons x rest ih =>
    intro c
    obtain ⟨e, hv⟩ := ih c
    simp only [allocFields]
    refine ⟨e.trans (ext_alloc _ _), ?_⟩
    have e2 := ext_alloc (allocFields c rest).1 x.2
    have h2 := objVal_ext e2 _ _ hv
    have h1 : fldVal (alloc (allocFields c rest).1 x.2).1
        ⟨(alloc (allocFields c rest).1 x.2).2, if x.1 then some x.2.length else none⟩ = some x := by
      simp only [fldVal]
      have := lookup_alloc (allocFields c rest).1 x.2
      simp only [alloc] at this ⊢
      rw [this]
      obtain ⟨b, a⟩ := x
      cases b <;> simp
    simp only [objVal, h1, h2]

/-! ### the iterator in copy mode -/

def itemOk (st : Store X) : Item X → Prop
  | .disk _ => True
  | .mem r => (lookupRef r st.objs).isSome

/-- one `next()` of the repaired iterator either raises (dangling reference) or returns a FRESH object
    (`freshRef st.objs`) on top of the old objects, with only new cells added, whose value is the
    value of the item -/
theorem yield1_copy (st : Store X) (it : Item X) :
    yield1 .copy st it = .error .badRef ∨
    ∃ o' c', yield1 .copy st it = .ok (⟨(alloc st.objs o').1, c'⟩, freshRef st.objs) ∧ Ext st.cells c' ∧
      (∀ v, itemVal st it = some v → objVal c' o' = some v) ∧
      (itemVal st it = none → objVal c' o' = none) := by
  cases it with
  | disk v =>
    refine Or.inr ⟨(allocFields st.cells v).2, (allocFields st.cells v).1, rfl, (allocFields_spec v st.cells).1, ?_, ?_⟩
    · intro v' hv'
      simp only [itemVal, Option.some.injEq] at hv'
      subst hv'
      exact (allocFields_spec v st.cells).2
    · intro h; simp [itemVal] at h
  | mem r =>
    simp only [yield1]
    cases hl : lookupRef r st.objs with
    | none => exact Or.inl rfl
    | some o =>
      refine Or.inr ⟨o, st.cells, rfl, Ext.refl _, ?_, ?_⟩
      · intro v hv; simpa [itemVal, deref, hl] using hv
      · intro hv; simpa [itemVal, deref, hl] using hv

theorem itemVal_ext {st st' : Store X} (e : Ext2 st st') (it : Item X) (v : RecV X)
    (hv : itemVal st it = some v) : itemVal st' it = some v := by
  cases it with
  | disk v' => exact hv
  | mem r => exact deref_ext e r v hv

theorem itemsVals_ext {st st' : Store X} (e : Ext2 st st') : ∀ (its : List (Item X)) (vs : List (RecV X)),
    itemsVals st its = some vs → itemsVals st' its = some vs := by
  intro its
  induction its with
  | nil => intro vs hv; exact hv
  | cons it its ih =>
    intro vs hv
    simp only [itemsVals] at hv ⊢
    cases h1 : itemVal st it with
    | none => simp [h1] at hv
    | some v =>
      cases h2 : itemsVals st its with
      | none => simp [h1, h2] at hv
      | some ws =>
        rw [itemVal_ext e it v h1, ih ws h2]
        simpa [h1, h2] using hv

theorem itemsVals_cons {st : Store X} {it : Item X} {its : List (Item X)} {vs : List (RecV X)}
    (hv : itemsVals st (it :: its) = some vs) :
    ∃ v ws, itemVal st it = some v ∧ itemsVals st its = some ws ∧ vs = v :: ws := by
  simp only [itemsVals] at hv
  cases h1 : itemVal st it with
  | none => simp [h1] at hv
  | some v =>
    cases h2 : itemsVals st its with
    | none => simp [h1, h2] at hv
    | some ws =>
      refine ⟨v, ws, rfl, rfl, ?_⟩
      simp [h1, h2] at hv
      exact hv.symm

/-- the state after `keep` on the freshly yielded object -/
theorem keep_fresh (st : Store X) (o' : Obj) (c' : Heap (List X)) (k : Nat) (e : Ext st.cells c') :
    Ext2 st ⟨updateRef (freshRef st.objs) (keepObj k) (alloc st.objs o').1, c'⟩ ∧
    deref ⟨updateRef (freshRef st.objs) (keepObj k) (alloc st.objs o').1, c'⟩ (freshRef st.objs)
      = (objVal c' o').map (keepV k) := by
  refine ⟨⟨ext_alloc_update st.objs o' (keepObj k), e⟩, ?_⟩
  simp only [deref, lookup_alloc_update, objVal_keep]

theorem deref_fresh (st : Store X) (o' : Obj) (c' : Heap (List X)) :
    deref ⟨(alloc st.objs o').1, c'⟩ (freshRef st.objs) = objVal c' o' := by
  simp only [deref, lookup_alloc]

theorem iterKeep_copy_ext (S : Sem X Sel Thr V Pk) (op : Op Sel Thr Pk) (sel : Sel) :
    ∀ (its : List (Item X)) (st : Store X), Ext2 st (iterKeep S .copy op sel none st its).1 := by
  intro its
  induction its with
  | nil => intro st; exact Ext2.refl st
  | cons it its ih =>
    intro st
    simp only [iterKeep]
    rcases yield1_copy st it with hy | ⟨o', c', hy, e, _, _⟩
    · rw [hy]; exact Ext2.refl st
    · rw [hy]
      simp only [deref_fresh]
      cases hv : objVal c' o' with
      | none => exact ⟨ext_alloc _ _, e⟩
      | some v =>
        obtain ⟨e2, hd⟩ := keep_fresh st o' c' (S.nKeep sel v) e
        simp only [hd, hv, Option.map]
        exact e2.trans (ih _)

theorem iterKeep_copy_out (S : Sem X Sel Thr V Pk) (op : Op Sel Thr Pk) (sel : Sel) :
    ∀ (its : List (Item X)) (st : Store X) (vs : List (RecV X)), itemsVals st its = some vs →
    (iterKeep S .copy op sel none st its).2 = .ok (vs.map (fun v => S.view op (S.keep sel v))) := by
  intro its
  induction its with
  | nil => intro st vs hv; simp only [itemsVals, Option.some.injEq] at hv; subst hv; rfl
  | cons it its ih =>
    intro st vs hv
    obtain ⟨v, ws, h1, h2, rfl⟩ := itemsVals_cons hv
    simp only [iterKeep]
    rcases yield1_copy st it with hy | ⟨o', c', hy, e, hsome, _⟩
    · -- a valid item cannot raise
      exfalso
      cases it with
      | disk v' => simp [yield1] at hy
      | mem r =>
        simp only [itemVal, deref] at h1
        simp only [yield1] at hy
        cases hl : lookupRef r st.objs with
        | none => simp [hl] at h1
        | some o => simp [hl] at hy
    · rw [hy]
      simp only [deref_fresh, hsome v h1]
      obtain ⟨e2, hd⟩ := keep_fresh st o' c' (S.nKeep sel v) e
      simp only [hd, hsome v h1, Option.map]
      rw [ih _ ws (itemsVals_ext e2 its ws h2)]
      rfl

theorem iterSplit_copy_ext (S : Sem X Sel Thr V Pk) (t : Thr) :
    ∀ (its : List (Item X)) (st : Store X), Ext2 st (iterSplit S .copy t st its).1 := by
  intro its
  induction its with
  | nil => intro st; exact Ext2.refl st
  | cons it its ih =>
    intro st
    simp only [iterSplit]
    rcases yield1_copy st it with hy | ⟨o', c', hy, e, _, _⟩
    · rw [hy]; exact Ext2.refl st
    · rw [hy]
      simp only [deref_fresh]
      have e1 : Ext2 st ⟨(alloc st.objs o').1, c'⟩ := ⟨ext_alloc _ _, e⟩
      cases hv : objVal c' o' with
      | none => exact e1
      | some v =>
        simp only
        cases hg : S.isGood t v with
        | error err => exact e1
        | ok g => exact e1.trans (ih _)

theorem iterSplit_copy_out (S : Sem X Sel Thr V Pk) (t : Thr) :
    ∀ (its : List (Item X)) (st : Store X) (vs : List (RecV X)), itemsVals st its = some vs →
    (iterSplit S .copy t st its).2 = splitSpec S t vs := by
  intro its
  induction its with
  | nil => intro st vs hv; simp only [itemsVals, Option.some.injEq] at hv; subst hv; rfl
  | cons it its ih =>
    intro st vs hv
    obtain ⟨v, ws, h1, h2, rfl⟩ := itemsVals_cons hv
    simp only [iterSplit, splitSpec]
    rcases yield1_copy st it with hy | ⟨o', c', hy, e, hsome, _⟩
    · exfalso
      cases it with
      | disk v' => simp [yield1] at hy
      | mem r =>
        simp only [itemVal, deref] at h1
        simp only [yield1] at hy
        cases hl : lookupRef r st.objs with
        | none => simp [hl] at h1
        | some o => simp [hl] at hy
    · rw [hy]
      simp only [deref_fresh, hsome v h1]
      have e1 : Ext2 st ⟨(alloc st.objs o').1, c'⟩ := ⟨ext_alloc _ _, e⟩
      cases hg : S.isGood t v with
      | error err => rfl
      | ok g =>
        simp only
        rw [ih _ ws (itemsVals_ext e1 its ws h2)]

theorem step_copy_ext (S : Sem X Sel Thr V Pk) (st : Store X) (c : Op Sel Thr Pk × Input X)
    (hc : c.1.noInplace = true) : Ext2 st (step S .copy st c).1 := by
  obtain ⟨op, inp⟩ := c
  cases op <;> simp only [step, printedOf, splitOf]
  · exact iterKeep_copy_ext S _ _ _ st
  · exact iterKeep_copy_ext S _ _ _ st
  · exact iterKeep_copy_ext S _ _ _ st
  · exact iterKeep_copy_ext S _ _ _ st
  · exact iterKeep_copy_ext S _ _ _ st
  · exact iterKeep_copy_ext S _ _ _ st
  · exact iterSplit_copy_ext S _ _ st
  · simp [Op.noInplace] at hc

theorem step_copy_out (S : Sem X Sel Thr V Pk) (st : Store X) (c : Op Sel Thr Pk × Input X) (recs : List (RecV X))
    (hc : c.1.noInplace = true) (hd : denote st c.2 = some recs) : (step S .copy st c).2 = specOut S c.1 recs := by
  obtain ⟨op, inp⟩ := c
  simp only [denote] at hd
  cases op <;> simp only [step, printedOf, splitOf, specOut]
  · rw [iterKeep_copy_out S _ _ _ st recs hd]
  · rw [iterKeep_copy_out S _ _ _ st recs hd]
  · rw [iterKeep_copy_out S _ _ _ st recs hd]
  · rw [iterKeep_copy_out S _ _ _ st recs hd]
  · rw [iterKeep_copy_out S _ _ _ st recs hd]
  · rw [iterKeep_copy_out S _ _ _ st recs hd]
  · rw [iterSplit_copy_out S _ _ st recs hd]
  · simp [Op.noInplace] at hc

theorem run_copy_ext (S : Sem X Sel Thr V Pk) : ∀ (calls : List (Op Sel Thr Pk × Input X)) (st : Store X),
    (∀ c ∈ calls, c.1.noInplace = true) → Ext2 st (run S .copy st calls).1 := by
  intro calls
  induction calls with
  | nil => intro st _; exact Ext2.refl st
  | cons c cs ih =>
    intro st hc
    simp only [run]
    exact (step_copy_ext S st c (hc c (List.mem_cons_self ..))).trans
      (ih _ (fun c' h' => hc c' (List.mem_cons_of_mem _ h')))

/-- outputs of a history as a function of what the inputs denote in the *initial* heap -/
theorem run_copy_out (S : Sem X Sel Thr V Pk) (st0 : Store X) :
    ∀ (calls : List (Op Sel Thr Pk × Input X)) (st : Store X), Ext2 st0 st →
    (∀ c ∈ calls, c.1.noInplace = true) →
    (∀ c ∈ calls, ∃ recs, denote st0 c.2 = some recs) →
    ∀ outs, (calls.map (fun c => (c.1, denote st0 c.2))) = outs →
      (run S .copy st calls).2 = outs.map (fun p => match p.2 with
                                                    | none => .error .badRef
                                                    | some recs => specOut S p.1 recs) := by
  intro calls
  induction calls with
  | nil => intro st _ _ _ outs ho; subst ho; rfl
  | cons c cs ih =>
    intro st e hc hv outs ho
    subst ho
    obtain ⟨recs, hr⟩ := hv c (List.mem_cons_self ..)
    have hr' : denote st c.2 = some recs := itemsVals_ext e _ _ hr
    have hc1 := hc c (List.mem_cons_self ..)
    simp only [run, List.map_cons, hr]
    rw [step_copy_out S st c recs hc1 hr']
    rw [ih _ (e.trans (step_copy_ext S st c hc1)) (fun c' hc' => hc c' (List.mem_cons_of_mem _ hc'))
      (fun c' hc' => hv c' (List.mem_cons_of_mem _ hc')) _ rfl]

end part2

/-! ## Part 3 — states -/
section part3
variable {F M Fl : Type}

theorem source_state_roundtrip (s : Source F) (h : s.WF) : Source.setstate s.getstate = .ok s := by
  obtain ⟨h1, h2, h3⟩ := h
  simp [Source.setstate, Source.getstate, getKey, h1, h2, h3]

theorem fitcore_state_roundtrip (c : FitCore F) (h : c.source.WF) : FitCore.setstate c.getstate = .ok c := by
  obtain ⟨s, av, sc, chi2, mid, mn, mf⟩ := c
  simp only [FitCore.setstate, FitCore.getstate, getKey]
  simp only [String.reduceEq, if_true, if_false] 
  cases mf <;> simp [source_state_roundtrip s h]

theorem extinction_state_roundtrip (isLen isApm : String → Bool) (e : Extinction F) (h : e.WF isLen isApm) :
    Extinction.setstate isLen isApm e.getstate = .ok e := by
  obtain ⟨h1, h2, h3⟩ := h
  simp [Extinction.setstate, Extinction.getstate, getKey, h1, h2, h3]

theorem meta_state_roundtrip (isLen isApm : String → Bool) (m : Meta F Fl) (h : m.law.WF isLen isApm) :
    Meta.setstate isLen isApm m.getstate = .ok m := by
  simp [Meta.setstate, Meta.getstate, extinction_state_roundtrip isLen isApm m.law h]

end part3
end SF.Hist
