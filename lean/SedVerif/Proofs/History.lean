import SedVerif.Model.History
/-!
# Helper lemmas for C10 (core Lean only)

Part 1: what `Writer.write` appends; the source loop against `parsePrefix`; the reader against the
serialised frames.  Part 2: heap lemmas (`lookupRef`/`updateRef`/`freshRef`/`alloc`), the extension
order `Ext` (everything the caller can reach is untouched), one iteration of `FitInfoFile.__iter__`
in copy mode, and the two loops.
-/
namespace SF.Hist

/-! ## Part 1 -/
section part1
variable {L Src Hdr Rec B : Type} [DecidableEq Hdr]

/-- what a writer whose `_first_meta` is `first` appends when the records `rs` (all carrying the
    metadata `h`) are written to it -/
def appended (h : Hdr) (first : Option Hdr) (rs : List Rec) : List (Frame Hdr Rec) :=
  match first with
  | none => framesOf h rs
  | some _ => rs.map .recd

theorem appended_nil (h : Hdr) (first : Option Hdr) : appended h first ([] : List Rec) = [] := by
  cases first <;> rfl

theorem appended_cons (h : Hdr) (first : Option Hdr) (r : Rec) (rs : List Rec) :
    appended h first (r :: rs) = appended h first [r] ++ rs.map .recd := by
  cases first <;> simp [appended, framesOf]

theorem write_ok (h : Hdr) (r : Rec) (w : Writer Hdr Rec)
    (hw : w.firstMeta = none ∨ w.firstMeta = some h) :
    ∃ w1, w.write h r = .ok w1 ∧ w1.firstMeta = some h ∧ w1.out = w.out ++ appended h w.firstMeta [r] := by
  rcases hw with hw | hw
  · exact ⟨⟨some h, w.out ++ [.hdr h, .recd r]⟩, by simp [Writer.write, hw], rfl, by simp [hw, appended, framesOf]⟩
  · exact ⟨⟨some h, w.out ++ [.recd r]⟩, by simp [Writer.write, hw], rfl, by simp [hw, appended]⟩

theorem writeLoop_spec (h : Hdr) : ∀ (rs : List Rec) (w : Writer Hdr Rec),
    (w.firstMeta = none ∨ w.firstMeta = some h) →
    ∃ w', writeLoop h rs w = .ok w' ∧ w'.out = w.out ++ appended h w.firstMeta rs := by
  intro rs
  induction rs with
  | nil => intro w _; exact ⟨w, rfl, by simp [appended_nil]⟩
  | cons r rs ih =>
    intro w hw
    obtain ⟨w1, h1, hf, ho⟩ := write_ok h r w hw
    obtain ⟨w', h2, ho'⟩ := ih w1 (Or.inr hf)
    refine ⟨w', by simp [writeLoop, h1, h2], ?_⟩
    rw [ho', ho, hf, appended_cons h w.firstMeta r rs, List.append_assoc]
    rfl

theorem writeAll_eq (h : Hdr) (rs : List Rec) : writeAll h rs = .ok (framesOf h rs) := by
  obtain ⟨w', h1, ho⟩ := writeLoop_spec h rs Writer.new (Or.inl rfl)
  simp only [writeAll, h1, ho]
  simp [Writer.new, appended]

/-- the records `fit()` writes for the parsed sources `ss` -/
def FitCfg.records (c : FitCfg L Src Hdr Rec) (ss : List Src) : List Rec :=
  (ss.filter c.eligible).map c.post

theorem records_cons (c : FitCfg L Src Hdr Rec) (s : Src) (ss : List Src) :
    c.records (s :: ss) = if c.eligible s then c.post s :: c.records ss else c.records ss := by
  unfold FitCfg.records
  by_cases he : c.eligible s <;> simp [List.filter, he]

theorem fitLoop_spec (c : FitCfg L Src Hdr Rec) : ∀ (lines : List L) (w : Writer Hdr Rec),
    (w.firstMeta = none ∨ w.firstMeta = some c.hdr) →
    match parsePrefix c.parse lines with
    | .error e => fitLoop c lines w = .error e
    | .ok ss => ∃ w', fitLoop c lines w = .ok w' ∧
                  w'.out = w.out ++ appended c.hdr w.firstMeta (c.records ss) := by
  intro lines
  induction lines with
  | nil =>
    intro w _
    simp only [parsePrefix]
    exact ⟨w, rfl, by simp [FitCfg.records, appended_nil]⟩
  | cons l ls ih =>
    intro w hw
    simp only [parsePrefix, fitLoop]
    cases hp : c.parse l with
    | error e =>
      by_cases he : e = .eof
      · simp only [he, if_true]
        exact ⟨w, rfl, by simp [FitCfg.records, appended_nil]⟩
      · simp only [he, if_false]
    | ok s =>
      simp only
      by_cases hel : c.eligible s
      · simp only [hel, if_true]
        obtain ⟨w1, h1, hf, ho⟩ := write_ok c.hdr (c.post s) w hw
        have ih1 := ih w1 (Or.inr hf)
        rw [h1]
        simp only
        cases hq : parsePrefix c.parse ls with
        | error e => rw [hq] at ih1; simpa using ih1
        | ok ss =>
          rw [hq] at ih1
          obtain ⟨w', h2, ho'⟩ := ih1
          refine ⟨w', h2, ?_⟩
          rw [ho', ho, hf, records_cons, if_pos hel, appended_cons c.hdr w.firstMeta (c.post s) (c.records ss), List.append_assoc]
          rfl
      · simp only [hel]
        have ih1 := ih w hw
        cases hq : parsePrefix c.parse ls with
        | error e => rw [hq] at ih1; simpa using ih1
        | ok ss =>
          rw [hq] at ih1
          obtain ⟨w', h2, ho'⟩ := ih1
          refine ⟨w', by simpa using h2, ?_⟩
          rw [ho', records_cons]
          simp [hel]

/-- a prefix of lines that all parse, followed by the end of the file or by a line on which
    `from_ascii` raises `EOFError` -/
theorem parsePrefix_upto (parse : L → Except Err Src) : ∀ (pre : List L) (ss : List Src) (tail : List L),
    pre.map parse = ss.map .ok →
    (tail = [] ∨ ∃ l rest, tail = l :: rest ∧ parse l = .error .eof) →
    parsePrefix parse (pre ++ tail) = .ok ss := by
  intro pre
  induction pre with
  | nil =>
    intro ss tail hall ht
    cases ss with
    | cons s ss => simp at hall
    | nil =>
      rcases ht with ht | ⟨l, rest, ht, hl⟩
      · simp [ht, parsePrefix]
      · simp [ht, parsePrefix, hl]
  | cons l pre ih =>
    intro ss tail hall ht
    cases ss with
    | nil => simp at hall
    | cons s ss =>
      simp only [List.map_cons, List.cons.injEq] at hall
      simp [parsePrefix, hall.1, ih ss tail hall.2 ht]

theorem enc_ne_nil {α : Type} {enc : α → List B} {dec : List B → Dec α B} (hl : CodecLaws enc dec) (x : α) :
    enc x ≠ [] := by
  intro h
  have h1 := hl.roundtrip x []
  rw [h, List.append_nil, hl.atEnd] at h1
  cases h1

theorem readRecs_serialize {encH : Hdr → List B} {enc : Rec → List B} {dec : List B → Dec Rec B}
    (hl : CodecLaws enc dec) : ∀ (rs : List Rec) (n : Nat),
    (serialize encH enc (rs.map .recd)).length < n →
    readRecs dec n (serialize encH enc (rs.map .recd)) = .ok rs := by
  intro rs
  induction rs with
  | nil =>
    intro n hn
    cases n with
    | zero => omega
    | succ n => simp [serialize, readRecs, hl.atEnd]
  | cons r rs ih =>
    intro n hn
    cases n with
    | zero => omega
    | succ n =>
      simp only [List.map_cons, serialize, List.length_append] at hn ⊢
      have hpos : 0 < (enc r).length := List.length_pos_iff.mpr (enc_ne_nil hl r)
      simp only [readRecs, hl.roundtrip]
      rw [ih n (by omega)]

theorem readAll_framesOf {encH : Hdr → List B} {decH : List B → Dec Hdr B}
    {enc : Rec → List B} {dec : List B → Dec Rec B}
    (hH : CodecLaws encH decH) (hR : CodecLaws enc dec) (h : Hdr) (r : Rec) (rs : List Rec) :
    readAll decH dec (serialize encH enc (framesOf h (r :: rs))) = .ok (h, r :: rs) := by
  have hs : serialize encH enc (framesOf h (r :: rs)) = encH h ++ serialize encH enc ((r :: rs).map .recd) := by
    simp [framesOf, serialize]
  rw [hs]
  simp only [readAll, hH.roundtrip]
  rw [readRecs_serialize hR (r :: rs) _ (Nat.lt_succ_self _)]

end part1

/-! ## Part 2 -/
section part2
variable {Rec Sel Thr V : Type}

theorem lookup_lt_fresh : ∀ (h : Heap Rec) (r : Nat) (v : Rec), lookupRef r h = some v → r < freshRef h := by
  intro h
  induction h with
  | nil => intro r v hv; simp [lookupRef] at hv
  | cons c h ih =>
    intro r v hv
    obtain ⟨r', v'⟩ := c
    simp only [lookupRef] at hv
    simp only [freshRef]
    by_cases he : r' = r
    · omega
    · simp only [he, if_false] at hv
      have := ih r v hv
      omega

theorem lookup_update_ne (r r0 : Nat) (f : Rec → Rec) (hne : r ≠ r0) :
    ∀ h : Heap Rec, lookupRef r (updateRef r0 f h) = lookupRef r h := by
  intro h
  induction h with
  | nil => rfl
  | cons c h ih =>
    obtain ⟨r', v'⟩ := c
    simp only [updateRef]
    by_cases h0 : r' = r0
    · have hne' : ¬ r0 = r := fun h => hne h.symm
      subst h0
      simp [lookupRef, ih, hne']
    · simp only [h0, if_false, lookupRef, ih]

theorem lookup_update_eq (r0 : Nat) (f : Rec → Rec) :
    ∀ h : Heap Rec, lookupRef r0 (updateRef r0 f h) = (lookupRef r0 h).map f := by
  intro h
  induction h with
  | nil => rfl
  | cons c h ih =>
    obtain ⟨r', v'⟩ := c
    simp only [updateRef]
    by_cases h0 : r' = r0
    · simp [h0, lookupRef]
    · simp [h0, lookupRef, ih]

theorem fresh_update (r0 : Nat) (f : Rec → Rec) : ∀ h : Heap Rec, freshRef (updateRef r0 f h) = freshRef h := by
  intro h
  induction h with
  | nil => rfl
  | cons c h ih =>
    obtain ⟨r', v'⟩ := c
    simp only [updateRef]
    by_cases h0 : r' = r0 <;> simp [h0, freshRef, ih]

/-- `h'` extends `h`: every reference the owner of `h` can hold still leads to the same value -/
def Ext (h h' : Heap Rec) : Prop :=
  freshRef h ≤ freshRef h' ∧ ∀ r, r < freshRef h → lookupRef r h' = lookupRef r h

theorem Ext.refl (h : Heap Rec) : Ext h h := ⟨Nat.le_refl _, fun _ _ => rfl⟩

theorem Ext.trans {h1 h2 h3 : Heap Rec} (a : Ext h1 h2) (b : Ext h2 h3) : Ext h1 h3 :=
  ⟨Nat.le_trans a.1 b.1, fun r hr => by rw [b.2 r (Nat.lt_of_lt_of_le hr a.1), a.2 r hr]⟩

theorem ext_alloc (h : Heap Rec) (v : Rec) : Ext h (alloc h v).1 := by
  refine ⟨?_, ?_⟩
  · simp only [alloc, freshRef]; omega
  · intro r hr
    simp only [alloc, lookupRef]
    have : ¬ freshRef h = r := by omega
    simp [this]

theorem ext_alloc_update (h : Heap Rec) (v : Rec) (f : Rec → Rec) :
    Ext h (updateRef (freshRef h) f (alloc h v).1) := by
  refine ⟨?_, ?_⟩
  · rw [fresh_update]; exact (ext_alloc h v).1
  · intro r hr
    rw [lookup_update_ne r (freshRef h) f (by omega)]
    exact (ext_alloc h v).2 r hr

theorem lookup_alloc (h : Heap Rec) (v : Rec) : lookupRef (freshRef h) (alloc h v).1 = some v := by
  simp [alloc, lookupRef]

theorem lookup_alloc_update (h : Heap Rec) (v : Rec) (f : Rec → Rec) :
    lookupRef (freshRef h) (updateRef (freshRef h) f (alloc h v).1) = some (f v) := by
  rw [lookup_update_eq, lookup_alloc]; rfl

theorem itemVal_ext {h h' : Heap Rec} (e : Ext h h') (it : Item Rec) (v : Rec)
    (hv : itemVal h it = some v) : itemVal h' it = some v := by
  cases it with
  | disk v' => exact hv
  | mem r =>
    simp only [itemVal] at hv ⊢
    rw [e.2 r (lookup_lt_fresh h r v hv), hv]

theorem itemsVals_ext {h h' : Heap Rec} (e : Ext h h') : ∀ (its : List (Item Rec)) (vs : List Rec),
    itemsVals h its = some vs → itemsVals h' its = some vs := by
  intro its
  induction its with
  | nil => intro vs hv; exact hv
  | cons it its ih =>
    intro vs hv
    simp only [itemsVals] at hv ⊢
    cases h1 : itemVal h it with
    | none => simp [h1] at hv
    | some v =>
      cases h2 : itemsVals h its with
      | none => simp [h1, h2] at hv
      | some ws =>
        rw [itemVal_ext e it v h1, ih ws h2]
        simpa [h1, h2] using hv

theorem itemsVals_cons {h : Heap Rec} {it : Item Rec} {its : List (Item Rec)} {vs : List Rec}
    (hv : itemsVals h (it :: its) = some vs) :
    ∃ v ws, itemVal h it = some v ∧ itemsVals h its = some ws ∧ vs = v :: ws := by
  simp only [itemsVals] at hv
  cases h1 : itemVal h it with
  | none => simp [h1] at hv
  | some v =>
    cases h2 : itemsVals h its with
    | none => simp [h1, h2] at hv
    | some ws =>
      refine ⟨v, ws, rfl, rfl, ?_⟩
      simp [h1, h2] at hv
      exact hv.symm

/-- one `next()` of the repaired iterator: a fresh object holding the value of the item -/
theorem yield1_copy (h : Heap Rec) (it : Item Rec) :
    yield1 .copy h it = match itemVal h it with
                        | none => .error .badRef
                        | some v => .ok (alloc h v) := by
  cases it with
  | disk v => rfl
  | mem r =>
    simp only [yield1, itemVal]
    cases lookupRef r h <;> rfl

theorem iterKeep_copy_ext (S : Sem Rec Sel Thr V) (op : Op Sel Thr) (sel : Sel) :
    ∀ (its : List (Item Rec)) (h : Heap Rec), Ext h (iterKeep S .copy op sel h its).1 := by
  intro its
  induction its with
  | nil => intro h; exact Ext.refl h
  | cons it its ih =>
    intro h
    simp only [iterKeep, yield1_copy]
    cases hv : itemVal h it with
    | none => exact Ext.refl h
    | some v =>
      simp only [alloc]
      have hl := lookup_alloc_update h v (S.keep sel)
      simp only [alloc] at hl
      simp only [hl]
      have e := ext_alloc_update h v (S.keep sel)
      simp only [alloc] at e
      exact e.trans (ih _)

theorem iterKeep_copy_out (S : Sem Rec Sel Thr V) (op : Op Sel Thr) (sel : Sel) :
    ∀ (its : List (Item Rec)) (h : Heap Rec) (vs : List Rec), itemsVals h its = some vs →
    (iterKeep S .copy op sel h its).2 = .ok (vs.map (fun v => S.view op (S.keep sel v))) := by
  intro its
  induction its with
  | nil => intro h vs hv; simp only [itemsVals, Option.some.injEq] at hv; subst hv; rfl
  | cons it its ih =>
    intro h vs hv
    obtain ⟨v, ws, h1, h2, rfl⟩ := itemsVals_cons hv
    simp only [iterKeep, yield1_copy, h1]
    simp only [alloc]
    have hl := lookup_alloc_update h v (S.keep sel)
    simp only [alloc] at hl
    simp only [hl]
    have e := ext_alloc_update h v (S.keep sel)
    simp only [alloc] at e
    rw [ih _ ws (itemsVals_ext e its ws h2)]
    rfl

theorem iterSplit_copy_ext (S : Sem Rec Sel Thr V) (t : Thr) :
    ∀ (its : List (Item Rec)) (h : Heap Rec), Ext h (iterSplit S .copy t h its).1 := by
  intro its
  induction its with
  | nil => intro h; exact Ext.refl h
  | cons it its ih =>
    intro h
    simp only [iterSplit, yield1_copy]
    cases hv : itemVal h it with
    | none => exact Ext.refl h
    | some v =>
      have hl := lookup_alloc h v
      simp only [alloc] at hl ⊢
      simp only [hl]
      have e := ext_alloc h v
      simp only [alloc] at e
      cases hg : S.isGood t v with
      | error err => exact e
      | ok g => exact e.trans (ih _)

theorem iterSplit_copy_out (S : Sem Rec Sel Thr V) (t : Thr) :
    ∀ (its : List (Item Rec)) (h : Heap Rec) (vs : List Rec), itemsVals h its = some vs →
    (iterSplit S .copy t h its).2 = splitSpec S t vs := by
  intro its
  induction its with
  | nil => intro h vs hv; simp only [itemsVals, Option.some.injEq] at hv; subst hv; rfl
  | cons it its ih =>
    intro h vs hv
    obtain ⟨v, ws, h1, h2, rfl⟩ := itemsVals_cons hv
    simp only [iterSplit, yield1_copy, h1, splitSpec]
    have hl := lookup_alloc h v
    simp only [alloc] at hl ⊢
    simp only [hl]
    have e := ext_alloc h v
    simp only [alloc] at e
    cases hg : S.isGood t v with
    | error err => rfl
    | ok g =>
      simp only
      rw [ih _ ws (itemsVals_ext e its ws h2)]

theorem step_copy_ext (S : Sem Rec Sel Thr V) (h : Heap Rec) (c : Op Sel Thr × Input Rec) :
    Ext h (step S .copy h c).1 := by
  obtain ⟨op, inp⟩ := c
  cases op <;> simp only [step, printedOf, splitOf]
  · exact iterKeep_copy_ext S _ _ _ h
  · exact iterKeep_copy_ext S _ _ _ h
  · exact iterKeep_copy_ext S _ _ _ h
  · exact iterKeep_copy_ext S _ _ _ h
  · exact iterSplit_copy_ext S _ _ h

theorem step_copy_out (S : Sem Rec Sel Thr V) (h : Heap Rec) (c : Op Sel Thr × Input Rec) (recs : List Rec)
    (hd : denote h c.2 = some recs) : (step S .copy h c).2 = specOut S c.1 recs := by
  obtain ⟨op, inp⟩ := c
  simp only [denote] at hd
  cases op <;> simp only [step, printedOf, splitOf, specOut]
  · rw [iterKeep_copy_out S _ _ _ h recs hd]
  · rw [iterKeep_copy_out S _ _ _ h recs hd]
  · rw [iterKeep_copy_out S _ _ _ h recs hd]
  · rw [iterKeep_copy_out S _ _ _ h recs hd]
  · rw [iterSplit_copy_out S _ _ h recs hd]

theorem run_copy_ext (S : Sem Rec Sel Thr V) : ∀ (calls : List (Op Sel Thr × Input Rec)) (h : Heap Rec),
    Ext h (run S .copy h calls).1 := by
  intro calls
  induction calls with
  | nil => intro h; exact Ext.refl h
  | cons c cs ih =>
    intro h
    simp only [run]
    exact (step_copy_ext S h c).trans (ih _)

/-- outputs of a history as a function of what the inputs denote in the *initial* heap -/
theorem run_copy_out (S : Sem Rec Sel Thr V) (h0 : Heap Rec) :
    ∀ (calls : List (Op Sel Thr × Input Rec)) (h : Heap Rec), Ext h0 h →
    (∀ c ∈ calls, ∃ recs, denote h0 c.2 = some recs) →
    ∀ outs, (calls.map (fun c => (c.1, denote h0 c.2))) = outs →
      (run S .copy h calls).2 = outs.map (fun p => match p.2 with
                                                   | none => .error .badRef
                                                   | some recs => specOut S p.1 recs) := by
  intro calls
  induction calls with
  | nil => intro h _ _ outs ho; subst ho; rfl
  | cons c cs ih =>
    intro h e hv outs ho
    subst ho
    obtain ⟨recs, hr⟩ := hv c (List.mem_cons_self ..)
    have hr' : denote h c.2 = some recs := itemsVals_ext e _ _ hr
    simp only [run, List.map_cons, hr]
    rw [step_copy_out S h c recs hr']
    rw [ih _ (e.trans (step_copy_ext S h c)) (fun c' hc' => hv c' (List.mem_cons_of_mem _ hc')) _ rfl]

end part2
end SF.Hist
