import SedVerif.Model.Integrate
import SedVerif.Proofs.Fit
import Mathlib.Tactic.Ring
import Mathlib.Tactic.FieldSimp
import Mathlib.Tactic.Linarith
import Mathlib.Tactic.NormNum
import Mathlib.Algebra.Order.Field.Basic

/-! Helper lemmas for C06: the slice-and-trapezium pipeline of `integrate_subset` equals the exact
integral of the piecewise-linear interpolant, over any linearly ordered field. -/
namespace SF
variable {K : Type} [Field K] [LinearOrder K] [IsStrictOrderedRing K]

namespace Integ

/-- nodes in strictly increasing abscissa -/
def SortedX (l : List (K × K)) : Prop := l.Pairwise (fun p q => p.1 < q.1)

theorem lin_left (p0 p1 : K × K) : lin p0 p1 p0.1 = p0.2 := by simp [lin]

theorem lin_right (p0 p1 : K × K) (h : p0.1 < p1.1) : lin p0 p1 p1.1 = p1.2 := by
  have : p1.1 - p0.1 ≠ 0 := sub_ne_zero.mpr (ne_of_gt h)
  unfold lin; field_simp; ring

theorem lastD_ge : ∀ (rest : List (K × K)) (p1 : K × K), SortedX (p1 :: rest) → p1.1 ≤ (lastD rest p1).1
  | [], p1, _ => le_refl _
  | p2 :: rest, p1, h => by
    have h12 : p1.1 < p2.1 := (List.pairwise_cons.mp h).1 p2 (List.mem_cons_self)
    have := lastD_ge rest p2 (List.pairwise_cons.mp h).2
    simp only [lastD]; exact le_trans h12.le this

theorem lastD_gt (p2 : K × K) (rest : List (K × K)) (p1 : K × K) (h : SortedX (p1 :: p2 :: rest)) :
    p1.1 < (lastD (p2 :: rest) p1).1 := by
  have h12 : p1.1 < p2.1 := (List.pairwise_cons.mp h).1 p2 (List.mem_cons_self)
  have := lastD_ge rest p2 (List.pairwise_cons.mp h).2
  simp only [lastD]; exact lt_of_lt_of_le h12 this

/-- the value the code puts at the upper limit equals the interpolant on the first segment when b lies in it -/
theorem yb_first (p0 p1 : K × K) (rest : List (K × K)) (hs : SortedX (p0 :: p1 :: rest)) (b : K)
    (hb : b ≤ p1.1) (hbl : b ≤ (lastD rest p1).1) (hb0 : p0.1 < b) :
    (if b = (lastD rest p1).1 then (lastD rest p1).2 else interpAt (p0 :: p1 :: rest) b) = lin p0 p1 b := by
  have h01 : p0.1 < p1.1 := (List.pairwise_cons.mp hs).1 p1 (List.mem_cons_self)
  have hs' : SortedX (p1 :: rest) := (List.pairwise_cons.mp hs).2
  split
  · next h =>
    cases rest with
    | nil => simp only [lastD] at h ⊢; rw [h, lin_right p0 p1 h01]
    | cons p2 rest =>
      have := lastD_gt p2 rest p1 hs'
      rw [← h] at this; exact absurd hb (not_le.mpr this)
  · simp [interpAt, hb]

theorem cumInt_first_zero (p1 : K × K) (rest : List (K × K)) : cumInt (p1 :: rest) p1.1 = 0 := by
  cases rest with
  | nil => simp [cumInt]
  | cons p2 rest => simp [cumInt]

/-- the slice-and-trapezium computation is the exact integral of the piecewise-linear interpolant
    between the limits -/
theorem integ_refine : ∀ (tl : List (K × K)) (p0 : K × K) (a b : K), SortedX (p0 :: tl) →
    p0.1 ≤ a → a < b → b ≤ (lastD tl p0).1 →
    integrateInc (p0 :: tl) a b = cumInt (p0 :: tl) b - cumInt (p0 :: tl) a
  | [], p0, a, b, _, h0, hab, hbl => by
    simp only [lastD] at hbl; exact absurd (lt_of_le_of_lt h0 hab) (not_lt.mpr hbl)
  | p1 :: rest, p0, a, b, hs, h0, hab, hbl => by
    have h01 : p0.1 < p1.1 := (List.pairwise_cons.mp hs).1 p1 (List.mem_cons_self)
    have hs' : SortedX (p1 :: rest) := (List.pairwise_cons.mp hs).2
    have hd : p1.1 - p0.1 ≠ 0 := sub_ne_zero.mpr (ne_of_gt h01)
    have hb0 : p0.1 < b := lt_of_le_of_lt h0 hab
    have hlast : (lastD (p1 :: rest) p0) = lastD rest p1 := rfl
    rw [hlast] at hbl
    by_cases hb : b ≤ p1.1
    · -- (i) both limits inside the first segment
      have ha1 : a ≤ p1.1 := le_trans hab.le hb
      have hyb := yb_first p0 p1 rest hs b hb hbl hb0
      have hnb : ¬ p1.1 < b := not_lt.mpr hb
      have hna : ¬ p1.1 < a := not_lt.mpr ha1
      have hcb : cumInt (p0 :: p1 :: rest) b = (b - p0.1) * (p0.2 + lin p0 p1 b) / two := by
        simp [cumInt, not_le.mpr hb0, hb]
      by_cases hae : a = p0.1
      · have hca : cumInt (p0 :: p1 :: rest) a = 0 := by simp [cumInt, hae]
        have hL : integrateInc (p0 :: p1 :: rest) a b
            = (b - a) * (lin p0 p1 b + p0.2) / two := by
          simp only [integrateInc, hlast, hae, if_true, hyb]
          simp [List.takeWhile, hnb, trapz]
        rw [hL, hcb, hca, hae, two_eq]; unfold lin; field_simp; ring
      · have h0a : p0.1 < a := lt_of_le_of_ne h0 (Ne.symm hae)
        have hca : cumInt (p0 :: p1 :: rest) a = (a - p0.1) * (p0.2 + lin p0 p1 a) / two := by
          simp [cumInt, not_le.mpr h0a, ha1]
        have hL : integrateInc (p0 :: p1 :: rest) a b
            = (b - a) * (lin p0 p1 b + lin p0 p1 a) / two := by
          simp only [integrateInc, hlast, hae, if_false, hyb]
          simp [List.dropWhile, h0a, hna, hnb, trapz, interpAt, ha1]
        rw [hL, hcb, hca, two_eq]; unfold lin; field_simp; ring
    · have hb' : p1.1 < b := not_le.mp hb
      have hyb : (if b = (lastD rest p1).1 then (lastD rest p1).2 else interpAt (p0 :: p1 :: rest) b)
               = (if b = (lastD rest p1).1 then (lastD rest p1).2 else interpAt (p1 :: rest) b) := by
        simp [interpAt, hb]
      have hcb : cumInt (p0 :: p1 :: rest) b
          = (p1.1 - p0.1) * (p0.2 + p1.2) / two + cumInt (p1 :: rest) b := by
        simp [cumInt, not_le.mpr hb0, hb]
      by_cases ha : a < p1.1
      · -- (ii) lower limit in the first segment, upper limit beyond it
        have ih := integ_refine rest p1 p1.1 b hs' (le_refl _) hb' hbl
        rw [cumInt_first_zero, sub_zero] at ih
        simp only [integrateInc, if_true] at ih
        have hna : ¬ p1.1 < a := not_lt.mpr ha.le
        have hca : cumInt (p0 :: p1 :: rest) a = (a - p0.1) * (p0.2 + lin p0 p1 a) / two := by
          by_cases hae : a = p0.1
          · simp [cumInt, hae]
          · have h0a : p0.1 < a := lt_of_le_of_ne h0 (Ne.symm hae)
            simp [cumInt, not_le.mpr h0a, ha.le]
        have hL : integrateInc (p0 :: p1 :: rest) a b
            = (p1.1 - a) * (p1.2 + lin p0 p1 a) / two
              + trapz ((p1.1, p1.2) :: (rest.takeWhile (fun p => p.1 < b) ++
                  [(b, if b = (lastD rest p1).1 then (lastD rest p1).2 else interpAt (p1 :: rest) b)])) := by
          by_cases hae : a = p0.1
          · simp only [integrateInc, hlast, hae, if_true, hyb]
            simp [List.takeWhile, hb', trapz, lin_left]
          · have h0a : p0.1 < a := lt_of_le_of_ne h0 (Ne.symm hae)
            simp only [integrateInc, hlast, hae, if_false, hyb]
            simp [List.dropWhile, h0a, hna, hb', trapz, interpAt, ha.le]
        rw [hL, ih, hcb, hca, two_eq]; unfold lin; field_simp; ring
      · -- (iii) both limits beyond the first segment
        have hp1a : p1.1 ≤ a := not_lt.mp ha
        have h0a : p0.1 < a := lt_of_lt_of_le h01 hp1a
        have hae : a ≠ p0.1 := ne_of_gt h0a
        have ih := integ_refine rest p1 a b hs' hp1a hab hbl
        have hca : cumInt (p0 :: p1 :: rest) a
            = (p1.1 - p0.1) * (p0.2 + p1.2) / two + cumInt (p1 :: rest) a := by
          by_cases hae1 : a = p1.1
          · rw [hae1, cumInt_first_zero]
            simp [cumInt, not_le.mpr h01, lin_right p0 p1 h01]
          · have : p1.1 < a := lt_of_le_of_ne hp1a (Ne.symm hae1)
            simp [cumInt, not_le.mpr h0a, not_le.mpr this]
        have hL : integrateInc (p0 :: p1 :: rest) a b = integrateInc (p1 :: rest) a b := by
          by_cases hae1 : a = p1.1
          · subst hae1
            simp only [integrateInc, hlast, hae, if_false, if_true, hyb]
            simp [List.dropWhile, h01, hb', trapz, interpAt, lin_right p0 p1 h01]
          · have h1a : p1.1 < a := lt_of_le_of_ne hp1a (Ne.symm hae1)
            simp only [integrateInc, hlast, hae, hae1, if_false, hyb]
            simp [List.dropWhile, h0a, h1a, interpAt, not_le.mpr h1a]
        rw [hL, ih, hcb, hca]; ring


/-! ### the full `integrate_subset`: storage order and limit order -/

theorem integrateSubset_sorted (p0 : K × K) (tl : List (K × K)) (a b : K) (hs : SortedX (p0 :: tl)) :
    integrateSubset (p0 :: tl) a b
      = if b < a then integrateInc (p0 :: tl) b a else if a = b then 0 else integrateInc (p0 :: tl) a b := by
  have := lastD_ge tl p0 hs
  simp [integrateSubset, not_lt.mpr this]

/-- for increasing storage and both limits inside the table, `integrate_subset` is the exact integral
    between the limits taken in increasing order -/
theorem integrateSubset_eq (p0 : K × K) (tl : List (K × K)) (a b : K) (hs : SortedX (p0 :: tl))
    (h0a : p0.1 ≤ a) (hal : a ≤ (lastD tl p0).1) (h0b : p0.1 ≤ b) (hbl : b ≤ (lastD tl p0).1) :
    integrateSubset (p0 :: tl) a b
      = if a ≤ b then cumInt (p0 :: tl) b - cumInt (p0 :: tl) a
        else cumInt (p0 :: tl) a - cumInt (p0 :: tl) b := by
  rw [integrateSubset_sorted p0 tl a b hs]
  by_cases hba : b < a
  · rw [if_pos hba, if_neg (not_le.mpr hba)]
    exact integ_refine tl p0 b a hs h0b hba hal
  · rw [if_neg hba, if_pos (not_lt.mp hba)]
    by_cases hab : a = b
    · rw [if_pos hab, hab, sub_self]
    · rw [if_neg hab]
      exact integ_refine tl p0 a b hs h0a (lt_of_le_of_ne (not_lt.mp hba) hab) hbl

theorem lastD_append_singleton {α : Type} (a : α) : ∀ (l : List α) (d : α), lastD (l ++ [a]) d = a
  | [], _ => rfl
  | x :: l, _ => by simp only [List.cons_append, lastD]; exact lastD_append_singleton a l x

/-- the reversed list starts with the last element and ends with the first one -/
theorem reverse_shape {α : Type} : ∀ (tq : List α) (q0 : α),
    ∃ tl, (q0 :: tq).reverse = lastD tq q0 :: tl ∧ lastD tl (lastD tq q0) = q0
  | [], q0 => ⟨[], rfl, rfl⟩
  | q1 :: tq, q0 => by
    obtain ⟨tl, h1, _⟩ := reverse_shape tq q1
    refine ⟨tl ++ [q0], ?_, ?_⟩
    · rw [List.reverse_cons, h1]; rfl
    · exact lastD_append_singleton q0 tl _

/-- nodes stored in decreasing abscissa are reversed first -/
theorem integrateSubset_reverse (q : List (K × K)) (hs : SortedX q) (a b : K) :
    integrateSubset q.reverse a b = integrateSubset q a b := by
  cases q with
  | nil => rfl
  | cons q0 tq =>
    cases tq with
    | nil => rfl
    | cons q1 tq =>
      have hlt := lastD_gt q1 tq q0 hs
      obtain ⟨tl, h1, h2⟩ := reverse_shape (q1 :: tq) q0
      have hrr : (lastD (q1 :: tq) q0 :: tl).reverse = q0 :: q1 :: tq := by
        rw [← h1, List.reverse_reverse]
      rw [h1]
      simp only [integrateSubset, h2, hlt, if_true, hrr, not_lt.mpr hlt.le, if_false]

/-! ### clipping -/

theorem clampK_mem (lo hi x : K) (h : lo ≤ hi) : lo ≤ clampK lo hi x ∧ clampK lo hi x ≤ hi := by
  unfold clampK
  by_cases h1 : x < lo
  · simp only [h1, if_true, not_lt.mpr h, if_false]; exact ⟨le_refl _, h⟩
  · simp only [h1, if_false]
    by_cases h2 : hi < x
    · simp only [h2, if_true]; exact ⟨h, le_refl _⟩
    · simp only [h2, if_false]; exact ⟨not_lt.mp h1, not_lt.mp h2⟩

theorem clampK_mono (lo hi x y : K) (h : lo ≤ hi) (hxy : x ≤ y) : clampK lo hi x ≤ clampK lo hi y := by
  unfold clampK
  by_cases h1 : x < lo <;> by_cases h2 : y < lo <;> simp only [h1, h2, if_true, if_false]
  · simp
  · by_cases h3 : hi < y
    · simp only [h3, if_true, not_lt.mpr h, if_false]; exact h
    · simp only [h3, if_false, not_lt.mpr h]; exact not_lt.mp h2
  · exact absurd (lt_of_le_of_lt hxy h2) h1
  · by_cases h3 : hi < x
    · have h4 : hi < y := lt_of_lt_of_le h3 hxy
      simp [h3, h4]
    · by_cases h4 : hi < y
      · simp only [h3, h4, if_true, if_false]; exact not_lt.mp h3
      · simp only [h3, h4, if_false]; exact hxy

theorem clampK_below (lo hi x : K) (h : lo ≤ hi) (hx : x ≤ lo) : clampK lo hi x = lo := by
  unfold clampK
  by_cases h1 : x < lo
  · simp [h1, not_lt.mpr h]
  · have : x = lo := le_antisymm hx (not_lt.mp h1)
    simp [this, not_lt.mpr h]

theorem clampK_above (lo hi x : K) (h : lo ≤ hi) (hx : hi ≤ x) : clampK lo hi x = hi := by
  unfold clampK
  have h1 : ¬ x < lo := not_lt.mpr (le_trans h hx)
  simp only [h1, if_false]
  by_cases h2 : hi < x
  · simp [h2]
  · simp only [h2, if_false]; exact le_antisymm (not_lt.mp h2) hx

/-! ### one bin, and the telescoping sum over the bins -/

/-- one bin of `Filter.rebin` for increasing storage: the exact integral between the clipped edges -/
theorem binResp_inc (p0 : K × K) (tl : List (K × K)) (hs : SortedX (p0 :: tl)) (e1 e2 : K) (h : e1 ≤ e2) :
    binResp (p0 :: tl) p0.1 (lastD tl p0).1 e1 e2
      = cumInt (p0 :: tl) (clampK p0.1 (lastD tl p0).1 e2) - cumInt (p0 :: tl) (clampK p0.1 (lastD tl p0).1 e1) := by
  have hlh := lastD_ge tl p0 hs
  obtain ⟨a1, a2⟩ := clampK_mem p0.1 (lastD tl p0).1 e1 hlh
  obtain ⟨b1, b2⟩ := clampK_mem p0.1 (lastD tl p0).1 e2 hlh
  have hm := clampK_mono p0.1 (lastD tl p0).1 e1 e2 hlh h
  simp only [binResp]
  by_cases hc : clampK p0.1 (lastD tl p0).1 e2 = clampK p0.1 (lastD tl p0).1 e1
  · rw [if_pos hc, hc, sub_self]
  · rw [if_neg hc, integrateSubset_eq p0 tl _ _ hs a1 a2 b1 b2, if_pos hm]

theorem binResp_dec (p0 : K × K) (tl : List (K × K)) (hs : SortedX (p0 :: tl)) (e1 e2 : K) (h : e2 ≤ e1) :
    binResp (p0 :: tl) p0.1 (lastD tl p0).1 e1 e2
      = cumInt (p0 :: tl) (clampK p0.1 (lastD tl p0).1 e1) - cumInt (p0 :: tl) (clampK p0.1 (lastD tl p0).1 e2) := by
  have hlh := lastD_ge tl p0 hs
  obtain ⟨a1, a2⟩ := clampK_mem p0.1 (lastD tl p0).1 e1 hlh
  obtain ⟨b1, b2⟩ := clampK_mem p0.1 (lastD tl p0).1 e2 hlh
  have hm := clampK_mono p0.1 (lastD tl p0).1 e2 e1 hlh h
  simp only [binResp]
  by_cases hc : clampK p0.1 (lastD tl p0).1 e2 = clampK p0.1 (lastD tl p0).1 e1
  · rw [if_pos hc, hc, sub_self]
  · rw [if_neg hc, integrateSubset_eq p0 tl _ _ hs a1 a2 b1 b2]
    by_cases hle : clampK p0.1 (lastD tl p0).1 e1 ≤ clampK p0.1 (lastD tl p0).1 e2
    · exact absurd (le_antisymm hm hle) hc
    · rw [if_neg hle]

theorem mid_between (n m : K) (h : n ≤ m) : n ≤ (n + m) / two ∧ (n + m) / two ≤ m := by
  rw [two_eq]
  constructor
  · rw [le_div_iff₀ (by norm_num : (0 : K) < 2)]; linarith
  · rw [div_le_iff₀ (by norm_num : (0 : K) < 2)]; linarith

theorem rebinAux_sum_inc (f : K → K → K) (G : K → K) (hf : ∀ x y, x ≤ y → f x y = G y - G x) :
    ∀ (rest : List K) (e1 n : K), e1 ≤ n → (n :: rest).Pairwise (fun a b => a ≤ b) →
      sumBy id (rebinAux f e1 n rest) = G (lastD rest n) - G e1
  | [], e1, n, h, _ => by simp [rebinAux, sumBy, lastD, hf e1 n h]
  | m :: rest, e1, n, h, hp => by
    have hnm : n ≤ m := (List.pairwise_cons.mp hp).1 m List.mem_cons_self
    obtain ⟨h1, h2⟩ := mid_between n m hnm
    have ih := rebinAux_sum_inc f G hf rest ((n + m) / two) m h2 (List.pairwise_cons.mp hp).2
    simp only [rebinAux, sumBy, lastD, id, ih, hf e1 _ (le_trans h h1)]
    ring

theorem rebinAux_sum_dec (f : K → K → K) (G : K → K) (hf : ∀ x y, y ≤ x → f x y = G x - G y) :
    ∀ (rest : List K) (e1 n : K), n ≤ e1 → (n :: rest).Pairwise (fun a b => b ≤ a) →
      sumBy id (rebinAux f e1 n rest) = G e1 - G (lastD rest n)
  | [], e1, n, h, _ => by simp [rebinAux, sumBy, lastD, hf e1 n h]
  | m :: rest, e1, n, h, hp => by
    have hnm : m ≤ n := (List.pairwise_cons.mp hp).1 m List.mem_cons_self
    obtain ⟨h1, h2⟩ := mid_between m n hnm
    rw [add_comm] at h1 h2
    have ih := rebinAux_sum_dec f G hf rest ((n + m) / two) m h1 (List.pairwise_cons.mp hp).2
    simp only [rebinAux, sumBy, lastD, id, ih, hf e1 _ (le_trans h2 h)]
    ring

theorem rebinAux_length (f : K → K → K) : ∀ (rest : List K) (e1 n : K),
    (rebinAux f e1 n rest).length = rest.length + 1
  | [], _, _ => rfl
  | m :: rest, _, n => by simp [rebinAux, rebinAux_length f rest]

theorem rebin_sorted (p0 : K × K) (tl : List (K × K)) (hs : SortedX (p0 :: tl)) (n0 : K) (rest : List K) :
    rebin (p0 :: tl) (n0 :: rest) = rebinAux (binResp (p0 :: tl) p0.1 (lastD tl p0).1) n0 n0 rest := by
  have h := lastD_ge tl p0 hs
  simp only [rebin, not_lt.mpr h, if_false]
  by_cases h2 : p0.1 < (lastD tl p0).1
  · simp [h2]
  · have : (lastD tl p0).1 = p0.1 := le_antisymm (not_lt.mp h2) h
    simp [this]

/-- a filter stored in decreasing frequency is rebinned like its reversed (increasing) node list -/
theorem rebin_reverse (q : List (K × K)) (hs : SortedX q) (nus : List K) :
    rebin q.reverse nus = rebin q nus := by
  cases q with
  | nil => rfl
  | cons q0 tq =>
    cases nus with
    | nil =>
      obtain ⟨tl, h1, _⟩ := reverse_shape tq q0
      rw [h1]; rfl
    | cons n0 rest =>
      obtain ⟨tl, h1, h2⟩ := reverse_shape tq q0
      have hge := lastD_ge tq q0 hs
      have hfun : ∀ lo hi : K, binResp (lastD tq q0 :: tl) lo hi = binResp (q0 :: tq) lo hi := by
        intro lo hi; funext e1 e2
        simp only [binResp, ← h1, integrateSubset_reverse (q0 :: tq) hs]
      rw [rebin_sorted q0 tq hs, h1]
      simp only [rebin, h2, hfun, not_lt.mpr hge, if_false]
      by_cases h3 : q0.1 < (lastD tq q0).1
      · simp [h3]
      · have : (lastD tq q0).1 = q0.1 := le_antisymm (not_lt.mp h3) hge
        simp [this]

/-! ### trapezium sum: sign, reversal, normalisation, relation to `cumInt` -/

theorem cumInt_last : ∀ (tl : List (K × K)) (p0 : K × K), SortedX (p0 :: tl) →
    cumInt (p0 :: tl) (lastD tl p0).1 = trapz (p0 :: tl)
  | [], _, _ => by simp [cumInt, trapz]
  | p1 :: rest, p0, hs => by
    have h01 : p0.1 < p1.1 := (List.pairwise_cons.mp hs).1 p1 (List.mem_cons_self)
    have hs' : SortedX (p1 :: rest) := (List.pairwise_cons.mp hs).2
    have ih := cumInt_last rest p1 hs'
    have hge := lastD_ge rest p1 hs'
    have hlast : (lastD (p1 :: rest) p0) = lastD rest p1 := rfl
    rw [hlast]
    have h0 : ¬ (lastD rest p1).1 ≤ p0.1 := not_le.mpr (lt_of_lt_of_le h01 hge)
    cases rest with
    | nil =>
      simp only [lastD, cumInt, trapz, not_le.mpr h01, if_false, le_refl, if_true, lin_right p0 p1 h01]
      ring
    | cons p2 rest =>
      have := lastD_gt p2 rest p1 hs'
      simp only [cumInt, h0, if_false, not_le.mpr this] at ih ⊢
      simp only [trapz] at ih ⊢
      rw [ih]; ring

theorem trapz_nonneg : ∀ (l : List (K × K)), SortedX l → (∀ p ∈ l, 0 ≤ p.2) → 0 ≤ trapz l
  | [], _, _ => by simp [trapz]
  | [_], _, _ => by simp [trapz]
  | p0 :: p1 :: rest, hs, hnn => by
    have h01 : p0.1 < p1.1 := (List.pairwise_cons.mp hs).1 p1 (List.mem_cons_self)
    have ih := trapz_nonneg (p1 :: rest) (List.pairwise_cons.mp hs).2
      (fun p hp => hnn p (List.mem_cons_of_mem _ hp))
    have y0 := hnn p0 List.mem_cons_self
    have y1 := hnn p1 (List.mem_cons_of_mem _ List.mem_cons_self)
    simp only [trapz, two_eq]
    have : 0 ≤ (p1.1 - p0.1) * (p1.2 + p0.2) / 2 :=
      div_nonneg (mul_nonneg (sub_nonneg.mpr h01.le) (add_nonneg y1 y0)) (by norm_num)
    linarith

theorem trapz_snoc (x y : K × K) : ∀ (l : List (K × K)),
    trapz (l ++ [x, y]) = trapz (l ++ [x]) + (y.1 - x.1) * (y.2 + x.2) / two
  | [] => by simp [trapz]
  | [a] => by simp [trapz]
  | a :: b :: l => by
    have ih := trapz_snoc x y (b :: l)
    simp only [List.cons_append, trapz] at ih ⊢
    rw [ih]; ring

theorem trapz_reverse : ∀ (l : List (K × K)), trapz l.reverse = - trapz l
  | [] => by simp [trapz]
  | [_] => by simp [trapz]
  | p0 :: p1 :: rest => by
    have ih := trapz_reverse (p1 :: rest)
    have e : (p0 :: p1 :: rest).reverse = rest.reverse ++ [p1, p0] := by simp
    have e' : (p1 :: rest).reverse = rest.reverse ++ [p1] := by simp
    rw [e, trapz_snoc, ← e', ih]
    simp only [trapz]; ring

theorem trapz_scale (s : K) : ∀ (l : List (K × K)),
    trapz (l.map (fun p => (p.1, p.2 / s))) = trapz l / s
  | [] => by simp [trapz]
  | [_] => by simp [trapz]
  | p0 :: p1 :: rest => by
    have ih := trapz_scale s (p1 :: rest)
    simp only [List.map_cons, trapz] at ih ⊢
    rw [ih]; ring

theorem absK_eq_abs (x : K) : absK x = |x| := by
  unfold absK
  by_cases h : x < 0
  · rw [if_pos h, abs_of_neg h]
  · rw [if_neg h, abs_of_nonneg (not_lt.mp h)]

/-! ### sums against a response list -/

theorem convolve_const (c : K) : ∀ (F R : List K), F.length = R.length → (∀ f ∈ F, f = c) →
    convolve F R = c * sumBy id R
  | [], [], _, _ => by simp [convolve, sumBy]
  | [], _ :: _, h, _ => by simp at h
  | _ :: _, [], h, _ => by simp at h
  | f :: F, r :: R, h, hc => by
    have ih := convolve_const c F R (by simpa using h) (fun g hg => hc g (List.mem_cons_of_mem _ hg))
    simp only [convolve, sumBy, id, ih, hc f List.mem_cons_self]; ring

theorem le_lastD : ∀ (rest : List K) (n : K), (n :: rest).Pairwise (fun a b => a ≤ b) → n ≤ lastD rest n
  | [], _, _ => le_rfl
  | m :: rest, n, hp =>
    le_trans ((List.pairwise_cons.mp hp).1 m List.mem_cons_self) (le_lastD rest m (List.pairwise_cons.mp hp).2)

theorem lastD_le : ∀ (rest : List K) (n : K), (n :: rest).Pairwise (fun a b => b ≤ a) → lastD rest n ≤ n
  | [], _, _ => le_rfl
  | m :: rest, n, hp =>
    le_trans (lastD_le rest m (List.pairwise_cons.mp hp).2) ((List.pairwise_cons.mp hp).1 m List.mem_cons_self)

/-! ### `Filter.normalize` -/

theorem absK_neg (x : K) : absK (-x) = absK x := by rw [absK_eq_abs, absK_eq_abs, abs_neg]

theorem normalize_reverse (q : List (K × K)) : normalize q.reverse = (normalize q).reverse := by
  unfold normalize
  rw [trapz_reverse, absK_neg, List.map_reverse]

theorem normalize_sorted (q : List (K × K)) (hs : SortedX q) : SortedX (normalize q) := by
  unfold normalize SortedX
  rw [List.pairwise_map]
  exact hs

theorem normalize_nonneg (q : List (K × K)) (h : ∀ p ∈ q, 0 ≤ p.2) : ∀ p ∈ normalize q, 0 ≤ p.2 := by
  intro p hp
  unfold normalize at hp
  obtain ⟨r, hr, rfl⟩ := List.mem_map.mp hp
  exact div_nonneg (h r hr) (by rw [absK_eq_abs]; exact abs_nonneg _)

theorem normalize_unit (q : List (K × K)) (h : trapz q ≠ 0) : absK (trapz (normalize q)) = 1 := by
  unfold normalize
  rw [trapz_scale, absK_eq_abs, absK_eq_abs, abs_div, abs_abs, div_self (abs_ne_zero.mpr h)]

/-! ### the spec integral of a non-negative curve is non-negative and monotone in its upper limit -/

theorem lin_nonneg (p0 p1 : K × K) (x : K) (h01 : p0.1 < p1.1) (h0 : p0.1 ≤ x) (h1 : x ≤ p1.1)
    (y0 : 0 ≤ p0.2) (y1 : 0 ≤ p1.2) : 0 ≤ lin p0 p1 x := by
  unfold lin
  have hd : 0 < p1.1 - p0.1 := sub_pos.mpr h01
  have ht0 : 0 ≤ (x - p0.1) / (p1.1 - p0.1) := div_nonneg (sub_nonneg.mpr h0) hd.le
  have ht1 : (x - p0.1) / (p1.1 - p0.1) ≤ 1 := (div_le_one hd).mpr (by linarith)
  rcases le_total p0.2 p1.2 with h | h
  · have := mul_nonneg ht0 (sub_nonneg.mpr h); linarith
  · have := mul_nonneg (sub_nonneg.mpr ht1) (sub_nonneg.mpr h); nlinarith

/-- inside one segment the spec integral grows by the trapezium between the two abscissae -/
theorem seg_diff (p0 p1 : K × K) (a b : K) (h01 : p0.1 < p1.1) :
    (b - p0.1) * (p0.2 + lin p0 p1 b) / two - (a - p0.1) * (p0.2 + lin p0 p1 a) / two
      = (b - a) * (lin p0 p1 a + lin p0 p1 b) / 2 := by
  have hd : p1.1 - p0.1 ≠ 0 := sub_ne_zero.mpr (ne_of_gt h01)
  rw [two_eq]; unfold lin; field_simp; ring

theorem seg_mono (p0 p1 : K × K) (a b : K) (h01 : p0.1 < p1.1) (h0 : p0.1 ≤ a) (hab : a ≤ b) (h1 : b ≤ p1.1)
    (y0 : 0 ≤ p0.2) (y1 : 0 ≤ p1.2) :
    (a - p0.1) * (p0.2 + lin p0 p1 a) / two ≤ (b - p0.1) * (p0.2 + lin p0 p1 b) / two := by
  have la := lin_nonneg p0 p1 a h01 h0 (le_trans hab h1) y0 y1
  have lb := lin_nonneg p0 p1 b h01 (le_trans h0 hab) h1 y0 y1
  have := seg_diff p0 p1 a b h01
  have : 0 ≤ (b - a) * (lin p0 p1 a + lin p0 p1 b) / 2 :=
    div_nonneg (mul_nonneg (sub_nonneg.mpr hab) (add_nonneg la lb)) (by norm_num)
  linarith

theorem cumInt_nonneg : ∀ (l : List (K × K)) (t : K), SortedX l → (∀ p ∈ l, 0 ≤ p.2) → 0 ≤ cumInt l t
  | [], _, _, _ => by simp [cumInt]
  | [_], _, _, _ => by simp [cumInt]
  | p0 :: p1 :: rest, t, hs, hnn => by
    have h01 : p0.1 < p1.1 := (List.pairwise_cons.mp hs).1 p1 (List.mem_cons_self)
    have y0 := hnn p0 List.mem_cons_self
    have y1 := hnn p1 (List.mem_cons_of_mem _ List.mem_cons_self)
    have ih := cumInt_nonneg (p1 :: rest) t (List.pairwise_cons.mp hs).2 (fun p hp => hnn p (List.mem_cons_of_mem _ hp))
    simp only [cumInt]
    by_cases h0 : t ≤ p0.1
    · rw [if_pos h0]
    · rw [if_neg h0]
      by_cases h1 : t ≤ p1.1
      · rw [if_pos h1, two_eq]
        have := lin_nonneg p0 p1 t h01 (not_le.mp h0).le h1 y0 y1
        exact div_nonneg (mul_nonneg (sub_nonneg.mpr (not_le.mp h0).le) (add_nonneg y0 this)) (by norm_num)
      · rw [if_neg h1, two_eq]
        have : 0 ≤ (p1.1 - p0.1) * (p0.2 + p1.2) / 2 :=
          div_nonneg (mul_nonneg (sub_nonneg.mpr h01.le) (add_nonneg y0 y1)) (by norm_num)
        linarith

theorem cumInt_mono : ∀ (l : List (K × K)) (a b : K), SortedX l → (∀ p ∈ l, 0 ≤ p.2) → a ≤ b →
    cumInt l a ≤ cumInt l b
  | [], _, _, _, _, _ => by simp [cumInt]
  | [_], _, _, _, _, _ => by simp [cumInt]
  | p0 :: p1 :: rest, a, b, hs, hnn, hab => by
    have h01 : p0.1 < p1.1 := (List.pairwise_cons.mp hs).1 p1 (List.mem_cons_self)
    have hs' : SortedX (p1 :: rest) := (List.pairwise_cons.mp hs).2
    have hnn' : ∀ p ∈ p1 :: rest, 0 ≤ p.2 := fun p hp => hnn p (List.mem_cons_of_mem _ hp)
    have y0 := hnn p0 List.mem_cons_self
    have y1 := hnn p1 (List.mem_cons_of_mem _ List.mem_cons_self)
    by_cases ha0 : a ≤ p0.1
    · have : cumInt (p0 :: p1 :: rest) a = 0 := by simp [cumInt, ha0]
      rw [this]; exact cumInt_nonneg _ b hs hnn
    · have h0a : p0.1 < a := not_le.mp ha0
      have hb0 : ¬ b ≤ p0.1 := not_le.mpr (lt_of_lt_of_le h0a hab)
      by_cases ha1 : a ≤ p1.1
      · have ea : cumInt (p0 :: p1 :: rest) a = (a - p0.1) * (p0.2 + lin p0 p1 a) / two := by
          simp [cumInt, ha0, ha1]
        by_cases hb1 : b ≤ p1.1
        · have eb : cumInt (p0 :: p1 :: rest) b = (b - p0.1) * (p0.2 + lin p0 p1 b) / two := by
            simp [cumInt, hb0, hb1]
          rw [ea, eb]; exact seg_mono p0 p1 a b h01 h0a.le hab hb1 y0 y1
        · have eb : cumInt (p0 :: p1 :: rest) b
              = (p1.1 - p0.1) * (p0.2 + p1.2) / two + cumInt (p1 :: rest) b := by
            simp [cumInt, hb0, hb1]
          have h1 := seg_mono p0 p1 a p1.1 h01 h0a.le ha1 le_rfl y0 y1
          rw [lin_right p0 p1 h01] at h1
          have h2 := cumInt_nonneg (p1 :: rest) b hs' hnn'
          rw [ea, eb]; linarith
      · have hb1 : ¬ b ≤ p1.1 := not_le.mpr (lt_of_lt_of_le (not_le.mp ha1) hab)
        have ih := cumInt_mono (p1 :: rest) a b hs' hnn' hab
        simp only [cumInt, ha0, hb0, ha1, hb1, if_false]
        linarith

/-- one bin of `Filter.rebin`, edges in either order: the exact integral of the response between the
    clipped edges taken in increasing order -/
theorem binResp_exact (p0 : K × K) (tl : List (K × K)) (hs : SortedX (p0 :: tl)) (e1 e2 : K) :
    binResp (p0 :: tl) p0.1 (lastD tl p0).1 e1 e2
      = cumInt (p0 :: tl) (clampK p0.1 (lastD tl p0).1 (max e1 e2))
        - cumInt (p0 :: tl) (clampK p0.1 (lastD tl p0).1 (min e1 e2)) := by
  rcases le_total e1 e2 with h | h
  · rw [max_eq_right h, min_eq_left h]; exact binResp_inc p0 tl hs e1 e2 h
  · rw [max_eq_left h, min_eq_right h]; exact binResp_dec p0 tl hs e1 e2 h

theorem mem_zipWith_exists {α β γ : Type} (f : α → β → γ) : ∀ (l1 : List α) (l2 : List β) (r : γ),
    r ∈ List.zipWith f l1 l2 → ∃ a b, r = f a b
  | [], _, _, h => by simp at h
  | _ :: _, [], _, h => by simp at h
  | a :: l1, b :: l2, r, h => by
    rw [List.zipWith_cons_cons, List.mem_cons] at h
    rcases h with h | h
    · exact ⟨a, b, h⟩
    · exact mem_zipWith_exists f l1 l2 r h

end Integ
end SF
