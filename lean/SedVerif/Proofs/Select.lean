import SedVerif.Model.Select
import SedVerif.Proofs.EF

/-! Helper lemmas about `keep`: on a ranked vector, counting the fits that satisfy the criterion and
then slicing is the same as filtering. -/
namespace SF
variable {K : Type} [Field K] [LinearOrder K] [IsStrictOrderedRing K]

/-- On a list ordered by `R`, a predicate that is inherited downwards along `R` (between members of
    the list) holds exactly on a prefix: `filter` is `take (count)`, and nothing after satisfies it. -/
theorem filter_eq_take_of_ranked {α : Type} (R : α → α → Prop) (p : α → Bool) (l : List α)
    (hs : l.Pairwise R) (hdc : ∀ a b, a ∈ l → b ∈ l → R a b → p b = true → p a = true) :
    l.filter p = l.take (l.filter p).length ∧ ∀ c ∈ l.drop (l.filter p).length, p c = false := by
  induction l with
  | nil => simp
  | cons a t ih =>
    obtain ⟨hat, ht⟩ := List.pairwise_cons.mp hs
    have ih' := ih ht (fun x y hx hy => hdc x y (List.mem_cons_of_mem _ hx) (List.mem_cons_of_mem _ hy))
    by_cases hpa : p a = true
    · simp only [List.filter_cons_of_pos hpa, List.length_cons, List.take_succ_cons, List.drop_succ_cons]
      exact ⟨by rw [← ih'.1], ih'.2⟩
    · have hall : ∀ b ∈ t, ¬ p b = true := fun b hb hpb =>
        hpa (hdc a b List.mem_cons_self (List.mem_cons_of_mem _ hb) (hat b hb) hpb)
      have hnil : t.filter p = [] := List.filter_eq_nil_iff.mpr hall
      rw [List.filter_cons_of_neg hpa, hnil]
      refine ⟨by simp, ?_⟩
      intro c hc
      simp only [List.length_nil, List.drop_zero, List.mem_cons] at hc
      rcases hc with rfl | hc
      · simpa using hpa
      · simpa using hall c hc

/-- index form: position `i` is below the count iff the `i`-th entry satisfies the predicate -/
theorem lt_count_iff_of_ranked {α : Type} (R : α → α → Prop) (p : α → Bool) (l : List α)
    (hs : l.Pairwise R) (hdc : ∀ a b, a ∈ l → b ∈ l → R a b → p b = true → p a = true)
    (i : Nat) (hi : i < l.length) : i < (l.filter p).length ↔ p l[i] = true := by
  obtain ⟨h1, h2⟩ := filter_eq_take_of_ranked R p l hs hdc
  constructor
  · intro hlt
    have hmem : l[i] ∈ l.filter p := by
      rw [h1]
      have : i < (l.take (l.filter p).length).length := by simp; omega
      have e : (l.take (l.filter p).length)[i] = l[i] := by simp
      rw [← e]; exact List.getElem_mem this
    exact (List.mem_filter.mp hmem).2
  · intro hp
    by_contra hge
    have hge : (l.filter p).length ≤ i := by omega
    have hmem : l[i] ∈ l.drop (l.filter p).length := by
      have hlt : i - (l.filter p).length < (l.drop (l.filter p).length).length := by simp; omega
      have e : (l.drop (l.filter p).length)[i - (l.filter p).length] = l[i] := by
        simp [List.getElem_drop]; congr 1; omega
      rw [← e]; exact List.getElem_mem hlt
    have := h2 _ hmem
    simp [hp] at this

/-- cutting a ranked list anywhere at or after the count does not change what the predicate selects -/
theorem filter_take_of_ranked {α : Type} (R : α → α → Prop) (p : α → Bool) (l : List α)
    (hs : l.Pairwise R) (hdc : ∀ a b, a ∈ l → b ∈ l → R a b → p b = true → p a = true)
    (m : Nat) (hm : (l.filter p).length ≤ m) : (l.take m).filter p = l.filter p := by
  induction l generalizing m with
  | nil => simp
  | cons a t ih =>
    obtain ⟨hat, ht⟩ := List.pairwise_cons.mp hs
    have hdc' : ∀ x y, x ∈ t → y ∈ t → R x y → p y = true → p x = true :=
      fun x y hx hy => hdc x y (List.mem_cons_of_mem _ hx) (List.mem_cons_of_mem _ hy)
    by_cases hpa : p a = true
    · rw [List.filter_cons_of_pos hpa] at hm ⊢
      cases m with
      | zero => simp at hm
      | succ m =>
        simp only [List.length_cons] at hm
        rw [List.take_succ_cons, List.filter_cons_of_pos hpa, ih ht hdc' m (by omega)]
    · have hall : ∀ b ∈ a :: t, ¬ p b = true := by
        intro b hb hpb
        rcases List.mem_cons.mp hb with rfl | hb'
        · exact hpa hpb
        · exact hpa (hdc a b List.mem_cons_self hb (hat b hb') hpb)
      rw [List.filter_eq_nil_iff.mpr hall]
      exact List.filter_eq_nil_iff.mpr (fun b hb => hall b (List.mem_of_mem_take hb))

/-! ### the criterion maps are rank-compatible -/

/-- the threshold of a criterion selector -/
def Sel.thr : Sel K → Option (EF K)
  | .C v => some v
  | .D v => some v
  | .E v => some v
  | .F v => some v
  | _ => none

theorem crit_rankCompat (s : Sel K) (nd : Nat) (c0 : EF K) : EF.RankCompat (crit s nd c0) := by
  have hd : EF.RankCompat (fun x : EF K => EF.divN x (natK nd)) := EF.rankCompat_divN _ (natK_nonneg nd)
  have hneg : ¬ (natK nd : K) < 0 := not_lt.mpr (natK_nonneg nd)
  cases s with
  | A => exact EF.rankCompat_id
  | N n => exact EF.rankCompat_id
  | C v => exact EF.rankCompat_id
  | D v => exact EF.rankCompat_sub c0
  | E v => exact hd
  | F v =>
    exact EF.rankCompat_comp (fun x => EF.divN x (natK nd)) (fun x => x - c0) hd (EF.rankCompat_sub c0)
      rfl (by simp [EF.divN, hneg])

/-- `n_fits` for the four criterion forms is the number of fits whose criterion is `<= v` -/
theorem nFits_crit (s : Sel K) (v : EF K) (hs : s.thr = some v) (nd : Nat) (c0 : EF K) (t : List (EF K)) :
    nFits s nd (c0 :: t) = ((c0 :: t).filter (fun c => EF.le (crit s nd c0 c) v)).length := by
  cases s <;> simp [Sel.thr] at hs <;> subst hs <;>
    simp only [nFits, countLe, crit, List.filter_map, List.length_map, Function.comp_def]

/-- with a threshold no criterion value equals, "criterion `<= v`" is inherited down the ranking -/
theorem crit_dc (s : Sel K) (v : EF K) (nd : Nat) (c0 : EF K) (l : List (EF K))
    (hna : ∀ c ∈ l, EF.eq (crit s nd c0 c) v = false) :
    ∀ a b, a ∈ l → b ∈ l → EF.leSort a b = true →
      EF.le (crit s nd c0 b) v = true → EF.le (crit s nd c0 a) v = true := by
  intro a b _ hb hab hle
  exact EF.le_of_lt ((crit_rankCompat s nd c0).down hab (EF.lt_of_le_of_ne hle (hna b hb)))

/-- on members of such a list `<= v` and `< v` say the same -/
theorem crit_le_eq_lt (s : Sel K) (v : EF K) (nd : Nat) (c0 : EF K) (l : List (EF K))
    (hna : ∀ c ∈ l, EF.eq (crit s nd c0 c) v = false) (c : EF K) (hc : c ∈ l) :
    EF.le (crit s nd c0 c) v = EF.lt (crit s nd c0 c) v := by
  cases h : EF.lt (crit s nd c0 c) v with
  | true => exact EF.le_of_lt h
  | false =>
    cases h2 : EF.le (crit s nd c0 c) v with
    | false => rfl
    | true => rw [EF.lt_of_le_of_ne h2 (hna c hc)] at h; exact h

/-- the count `keep` computes is unchanged by first cutting the ranked vector at or after it -/
theorem nFits_take (s : Sel K) (nd : Nat) (chi2 : List (EF K)) (m : Nat)
    (hr : chi2.Pairwise (fun a b => EF.leSort a b = true))
    (hna : ∀ v, s.thr = some v → ∀ c0, chi2.head? = some c0 → ∀ c ∈ chi2, EF.eq (crit s nd c0 c) v = false)
    (hm : nFits s nd chi2 ≤ m) : nFits s nd (chi2.take m) = nFits s nd chi2 := by
  cases chi2 with
  | nil => simp [nFits]
  | cons c0 t =>
    cases m with
    | zero =>
      have : nFits s nd (c0 :: t) = 0 := by omega
      rw [this]; simp [nFits]
    | succ m =>
      rw [List.take_succ_cons]
      cases hs : s.thr with
      | none =>
        cases s <;> simp [Sel.thr] at hs
        · simp only [nFits, List.length_cons, List.length_take] at hm ⊢
          omega
        · simp [nFits]
      | some v =>
        rw [nFits_crit s v hs, nFits_crit s v hs] at *
        have := filter_take_of_ranked (fun a b => EF.leSort a b = true)
          (fun c => EF.le (crit s nd c0 c) v) (c0 :: t) hr
          (crit_dc s v nd c0 (c0 :: t) (hna v hs c0 rfl)) (m + 1) hm
        rw [List.take_succ_cons] at this
        rw [this]

/-- position `i` of a ranked vector is below the count iff its criterion value is `< v` -/
theorem nFits_lt_iff (s : Sel K) (v : EF K) (hs : s.thr = some v) (nd : Nat) (l : List (EF K))
    (hr : l.Pairwise (fun a b => EF.leSort a b = true)) (c0 : EF K) (hc0 : l.head? = some c0)
    (hna : ∀ c ∈ l, EF.eq (crit s nd c0 c) v = false) (i : Nat) (hi : i < l.length) :
    i < nFits s nd l ↔ EF.lt (crit s nd c0 l[i]) v = true := by
  cases l with
  | nil => simp at hi
  | cons d t =>
    have hd : d = c0 := by simpa using hc0
    subst hd
    have key := lt_count_iff_of_ranked (fun a b => EF.leSort a b = true)
      (fun c => EF.le (crit s nd d c) v) (d :: t) hr (crit_dc s v nd d (d :: t) hna) i hi
    rw [nFits_crit s v hs, key]
    simp only [crit_le_eq_lt s v nd d (d :: t) hna _ (List.getElem_mem hi)]

/-- the survivors of a ranked vector are exactly the fits whose criterion value is `< v` -/
theorem take_nFits_eq_filter (s : Sel K) (v : EF K) (hs : s.thr = some v) (nd : Nat) (l : List (EF K))
    (hr : l.Pairwise (fun a b => EF.leSort a b = true)) (c0 : EF K) (hc0 : l.head? = some c0)
    (hna : ∀ c ∈ l, EF.eq (crit s nd c0 c) v = false) :
    l.take (nFits s nd l) = l.filter (fun c => EF.lt (crit s nd c0 c) v) := by
  cases l with
  | nil => simp
  | cons d t =>
    have hd : d = c0 := by simpa using hc0
    subst hd
    have key := (filter_eq_take_of_ranked (fun a b => EF.leSort a b = true)
      (fun c => EF.le (crit s nd d c) v) (d :: t) hr (crit_dc s v nd d (d :: t) hna)).1
    have hfc : (d :: t).filter (fun c => EF.lt (crit s nd d c) v)
        = (d :: t).filter (fun c => EF.le (crit s nd d c) v) :=
      List.filter_congr (fun c hc => (crit_le_eq_lt s v nd d (d :: t) hna c hc).symm)
    rw [hfc, nFits_crit s v hs]
    exact key.symm

/-- the same with the count capped at the number of fits (covers `('N', n)` with `n` beyond the end) -/
theorem nFits_take_min (s : Sel K) (nd : Nat) (chi2 : List (EF K)) (m : Nat)
    (hr : chi2.Pairwise (fun a b => EF.leSort a b = true))
    (hna : ∀ v, s.thr = some v → ∀ c0, chi2.head? = some c0 → ∀ c ∈ chi2, EF.eq (crit s nd c0 c) v = false)
    (hm : min (nFits s nd chi2) chi2.length ≤ m) : nFits s nd (chi2.take m) = nFits s nd chi2 := by
  cases hs : s.thr with
  | some v =>
    have hle : nFits s nd chi2 ≤ chi2.length := by
      cases chi2 with
      | nil => simp [nFits]
      | cons c0 t => rw [nFits_crit s v hs]; exact List.length_filter_le _ _
    exact nFits_take s nd chi2 m hr hna (by omega)
  | none =>
    cases chi2 with
    | nil => simp [nFits]
    | cons c0 t =>
      cases s <;> simp [Sel.thr] at hs
      · -- A
        simp only [nFits, List.length_cons] at hm ⊢
        cases m with
        | zero => omega
        | succ m =>
          simp only [List.take_succ_cons, List.length_cons, List.length_take]
          omega
      · -- N
        rename_i k
        simp only [nFits, List.length_cons] at hm ⊢
        cases m with
        | zero =>
          have : k = 0 := by omega
          simp [this]
        | succ m => simp [List.take_succ_cons]

end SF
