import SedVerif.Model.RoundTripDir
import SedVerif.Proofs.RoundTrip

/-! Helper lemmas for the second layer of C12: directory map, scaled axes. -/
namespace SF
namespace RT

theorem gzOf_ne (p : String) : gzOf p ≠ p := by
  intro h
  have := congrArg String.length h
  simp [gzOf, String.length_append] at this

theorem ne_gzOf (p : String) : p ≠ gzOf p := fun h => gzOf_ne p h.symm

section dir
variable {α : Type}

theorem lookup_filter_ne (p q : String) (hq : q ≠ p) : ∀ (d : Dir α),
    (d.filter (fun e => e.1 != p)).lookup q = d.lookup q := by
  intro d
  induction d with
  | nil => rfl
  | cons e t ih =>
    obtain ⟨k, v⟩ := e
    by_cases hk : k = p
    · subst hk
      have : (q == k) = false := by simpa using hq
      simp [List.filter_cons, List.lookup, this, ih]
    · have h1 : (k != p) = true := by simpa using hk
      simp only [List.filter_cons, h1, if_true, List.lookup]
      cases hqk : (q == k) <;> simp [ih]

theorem get_put_same (d : Dir α) (p : String) (x : α) : (d.put p x).get p = some x := by
  simp [Dir.get, Dir.put]

theorem get_put_other (d : Dir α) (p q : String) (x : α) (hq : q ≠ p) : (d.put p x).get q = d.get q := by
  have : (q == p) = false := by simpa using hq
  simp only [Dir.get, Dir.put, List.lookup, this]
  exact lookup_filter_ne p q hq d

end dir

section scale
variable {K : Type} [DecidableEq K]

/-- relabelling the wavelength list through an injective map (a change of length unit) does not move any cell -/
theorem cellAt_map_inj (f : K → K) (hf : ∀ a b, f a = f b → a = b) (x : K) : ∀ (ws vs : List K),
    cellAt (ws.map f) vs (f x) = cellAt ws vs x := by
  intro ws
  induction ws with
  | nil => intro vs; cases vs <;> rfl
  | cons w t ih =>
    intro vs
    cases vs with
    | nil => rfl
    | cons v vt =>
      simp only [List.map_cons, cellAt]
      by_cases h : w = x
      · subst h; simp
      · have : f w ≠ f x := fun e => h (hf _ _ e)
        simp only [if_neg h, if_neg this]
        exact ih vt

end scale

end RT
end SF
