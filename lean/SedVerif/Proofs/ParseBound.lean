import SedVerif.Model.Parse
import Mathlib.Algebra.Order.Field.Basic
import Mathlib.Algebra.Order.Field.Rat
import Mathlib.Algebra.Order.Ring.Abs
import Mathlib.Tactic.Ring
import Mathlib.Tactic.Linarith
import Mathlib.Tactic.FieldSimp
import Mathlib.Tactic.Positivity
import Mathlib.Tactic.NormNum
/-!
# Numeric core of `%.3e` / `%.5f`: rounding error bounds over `ℚ`
-/
namespace SF.Parse

theorem pow10_eq (e : Int) : pow10 e = (10 : ℚ) ^ e := by
  unfold pow10
  split
  · rename_i h
    conv_rhs => rw [← Int.toNat_of_nonneg h]
    rw [zpow_natCast]
  · rename_i h
    have : e = -((-e).toNat : Int) := by omega
    conv_rhs => rw [this]
    rw [zpow_neg, zpow_natCast, one_div]

theorem pow10_pos (e : Int) : 0 < pow10 e := by rw [pow10_eq]; exact zpow_pos (by norm_num) _

theorem roundHEdiv_bound (a b : Nat) (hb : 0 < b) :
    |((roundHEdiv a b : Nat) : ℚ) - (a : ℚ) / b| ≤ 1 / 2 := by
  have hbq : (0 : ℚ) < b := by exact_mod_cast hb
  have key : (a : ℚ) = (b : ℚ) * ((a / b : Nat) : ℚ) + ((a % b : Nat) : ℚ) := by
    exact_mod_cast (Nat.div_add_mod a b).symm
  have hr : ((a % b : Nat) : ℚ) < b := by exact_mod_cast Nat.mod_lt a hb
  have hr0 : (0 : ℚ) ≤ ((a % b : Nat) : ℚ) := by positivity
  have hdiv : (a : ℚ) / b = ((a / b : Nat) : ℚ) + ((a % b : Nat) : ℚ) / b := by
    have : (a : ℚ) / b = ((b : ℚ) * ((a / b : Nat) : ℚ) + ((a % b : Nat) : ℚ)) / b := by rw [← key]
    rw [this, add_div, mul_div_cancel_left₀ _ hbq.ne']
  unfold roundHEdiv
  simp only
  rw [hdiv, abs_le]
  have hx : ∀ x : ℚ, x / b ≤ 1 / 2 ↔ 2 * x ≤ b := by
    intro x; rw [div_le_iff₀ hbq]; constructor <;> intro h <;> linarith
  have hy : ∀ x : ℚ, 1 / 2 ≤ x / b ↔ (b : ℚ) ≤ 2 * x := by
    intro x; rw [le_div_iff₀ hbq]; constructor <;> intro h <;> linarith
  have h0 : (0 : ℚ) ≤ ((a % b : Nat) : ℚ) / b := div_nonneg hr0 hbq.le
  have h1 : ((a % b : Nat) : ℚ) / b < 1 := by rw [div_lt_one hbq]; exact hr
  split_ifs with c1 c2 c3
  · have : (2 : ℚ) * ((a % b : Nat) : ℚ) ≤ b := by exact_mod_cast c1.le
    have := (hx _).mpr this
    constructor <;> linarith
  · have : (b : ℚ) ≤ 2 * ((a % b : Nat) : ℚ) := by exact_mod_cast c2.le
    have := (hy _).mpr this
    push_cast
    constructor <;> linarith
  · have e : 2 * (a % b) = b := by omega
    have : (2 : ℚ) * ((a % b : Nat) : ℚ) ≤ b := by exact_mod_cast e.le
    have := (hx _).mpr this
    constructor <;> linarith
  · have e : 2 * (a % b) = b := by omega
    have : (b : ℚ) ≤ 2 * ((a % b : Nat) : ℚ) := by exact_mod_cast e.ge
    have := (hy _).mpr this
    push_cast
    constructor <;> linarith

theorem scaledRound_bound (p q : Nat) (hq : 0 < q) (k : Int) :
    |((scaledRound p q k : Nat) : ℚ) - (p : ℚ) / q * (10 : ℚ) ^ k| ≤ 1 / 2 := by
  have hqq : (0 : ℚ) < q := by exact_mod_cast hq
  unfold scaledRound
  split
  · rename_i h
    have := roundHEdiv_bound (p * 10 ^ k.toNat) q hq
    have e : (10 : ℚ) ^ k = (10 : ℚ) ^ k.toNat := by
      conv_lhs => rw [← Int.toNat_of_nonneg h]
      rw [zpow_natCast]
    rw [e]
    have e2 : (((p * 10 ^ k.toNat : Nat)) : ℚ) / q = (p : ℚ) / q * (10 : ℚ) ^ k.toNat := by
      push_cast; ring
    rw [← e2]; exact this
  · rename_i h
    have hpos : 0 < q * 10 ^ (-k).toNat := Nat.mul_pos hq (Nat.pow_pos (by omega))
    have := roundHEdiv_bound p (q * 10 ^ (-k).toNat) hpos
    have e : (10 : ℚ) ^ k = ((10 : ℚ) ^ (-k).toNat)⁻¹ := by
      have : k = -((-k).toNat : Int) := by omega
      conv_lhs => rw [this]
      rw [zpow_neg, zpow_natCast]
    rw [e]
    have e2 : (p : ℚ) / ((q * 10 ^ (-k).toNat : Nat) : ℚ) = (p : ℚ) / q * ((10 : ℚ) ^ (-k).toNat)⁻¹ := by
      push_cast; field_simp
    rw [← e2]; exact this

theorem ilog10Aux_spec : ∀ (f n : Nat), n ≤ f → 1 ≤ n →
    10 ^ ilog10Aux f n ≤ n ∧ n < 10 ^ (ilog10Aux f n + 1)
  | 0, n, h, h1 => by omega
  | f + 1, n, h, h1 => by
    simp only [ilog10Aux]
    by_cases h10 : n < 10
    · simp [h10]; omega
    · rw [if_neg h10]
      obtain ⟨a, b⟩ := ilog10Aux_spec f (n / 10) (by omega) (by omega)
      constructor
      · rw [Nat.pow_succ]; omega
      · rw [Nat.pow_succ]; omega

theorem ilog10_spec (n : Nat) (h : 1 ≤ n) : 10 ^ ilog10 n ≤ n ∧ n < 10 ^ (ilog10 n + 1) :=
  ilog10Aux_spec n n (Nat.le_refl _) h

/-- `decExp` brackets `p/q` between consecutive powers of ten -/
theorem decExp_spec (p q : Nat) (hp : 1 ≤ p) (hq : 1 ≤ q) :
    (10 : ℚ) ^ decExp p q ≤ (p : ℚ) / q ∧ (p : ℚ) / q < (10 : ℚ) ^ (decExp p q + 1) := by
  obtain ⟨pa, pb⟩ := ilog10_spec p hp
  obtain ⟨qa, qb⟩ := ilog10_spec q hq
  have hqq : (0 : ℚ) < q := by exact_mod_cast hq
  have pa' : (10 : ℚ) ^ ilog10 p ≤ p := by exact_mod_cast pa
  have pb' : (p : ℚ) < 10 ^ (ilog10 p + 1) := by exact_mod_cast pb
  have qa' : (10 : ℚ) ^ ilog10 q ≤ q := by exact_mod_cast qa
  have qb' : (q : ℚ) < 10 ^ (ilog10 q + 1) := by exact_mod_cast qb
  have z1 : (10 : ℚ) ^ ((ilog10 p : Int) - (ilog10 q : Int) + 1) * (10 : ℚ) ^ ilog10 q
      = (10 : ℚ) ^ (ilog10 p + 1) := by
    rw [← zpow_natCast, ← zpow_natCast, ← zpow_add₀ (by norm_num)]
    congr 1; push_cast; ring
  have z2 : (10 : ℚ) ^ ((ilog10 p : Int) - (ilog10 q : Int) - 1) * (10 : ℚ) ^ (ilog10 q + 1)
      = (10 : ℚ) ^ ilog10 p := by
    rw [← zpow_natCast, ← zpow_natCast, ← zpow_add₀ (by norm_num)]
    congr 1; push_cast; ring
  unfold decExp
  simp only [pow10_eq]
  split
  · rename_i h
    refine ⟨by rw [le_div_iff₀ hqq]; exact h, ?_⟩
    rw [div_lt_iff₀ hqq]
    have hz : (0 : ℚ) < (10 : ℚ) ^ ((ilog10 p : Int) - (ilog10 q : Int) + 1) := zpow_pos (by norm_num) _
    calc (p : ℚ) < 10 ^ (ilog10 p + 1) := pb'
      _ = (10 : ℚ) ^ ((ilog10 p : Int) - (ilog10 q : Int) + 1) * (10 : ℚ) ^ ilog10 q := z1.symm
      _ ≤ (10 : ℚ) ^ ((ilog10 p : Int) - (ilog10 q : Int) + 1) * q :=
          mul_le_mul_of_nonneg_left qa' hz.le
  · rename_i h
    rw [not_le] at h
    refine ⟨?_, by
      rw [div_lt_iff₀ hqq, show (ilog10 p : Int) - (ilog10 q : Int) - 1 + 1
        = (ilog10 p : Int) - (ilog10 q : Int) by ring]; exact h⟩
    rw [le_div_iff₀ hqq]
    have hz : (0 : ℚ) < (10 : ℚ) ^ ((ilog10 p : Int) - (ilog10 q : Int) - 1) := zpow_pos (by norm_num) _
    calc (10 : ℚ) ^ ((ilog10 p : Int) - (ilog10 q : Int) - 1) * q
        ≤ (10 : ℚ) ^ ((ilog10 p : Int) - (ilog10 q : Int) - 1) * (10 : ℚ) ^ (ilog10 q + 1) :=
          mul_le_mul_of_nonneg_left qb'.le hz.le
      _ = (10 : ℚ) ^ ilog10 p := z2
      _ ≤ p := pa'

theorem abs_eq_natAbs_div (v : ℚ) : (|v|) = (v.num.natAbs : ℚ) / v.den := by
  rw [Rat.abs_def, Rat.natCast_div_eq_divInt]

theorem signed_abs_sub (v t : ℚ) (ht : 0 ≤ t) :
    |(if decide (v < 0) = true then -t else t) - v| = |t - abs v| := by
  by_cases h : v < 0
  · simp only [h, decide_true, if_true, abs_of_neg h]
    rw [show -t - v = -(t - -v) by ring, abs_neg]
  · simp only [h, decide_false, Bool.false_eq_true, if_false, abs_of_nonneg (not_lt.mp h)]

/-- the numeric core of `%.3e`: the decade of `v`, the mantissa range and the rounding error -/
theorem roundE3_spec (v : ℚ) (hv : v ≠ 0) :
    (10 : ℚ) ^ decExp v.num.natAbs v.den ≤ |v| ∧
    |v| < (10 : ℚ) ^ (decExp v.num.natAbs v.den + 1) ∧
    (roundE3 v).m < 10000 ∧
    |(roundE3 v).val - v| ≤ 1 / 2 * (10 : ℚ) ^ (decExp v.num.natAbs v.den - 3) := by
  have hp : 1 ≤ v.num.natAbs := by
    have := Rat.num_ne_zero.mpr hv; omega
  have hq : 1 ≤ v.den := v.den_pos
  have habs := abs_eq_natAbs_div v
  obtain ⟨p, hpd⟩ : ∃ p, p = v.num.natAbs := ⟨_, rfl⟩
  obtain ⟨q, hqd⟩ : ∃ q, q = v.den := ⟨_, rfl⟩
  rw [← hpd] at habs hp ⊢
  rw [← hqd] at habs hq ⊢
  obtain ⟨e, hed⟩ : ∃ e, e = decExp p q := ⟨_, rfl⟩
  obtain ⟨lo, hi⟩ := decExp_spec p q hp hq
  rw [← habs, ← hed] at lo hi
  have B := scaledRound_bound p q hq (3 - e)
  rw [← habs] at B
  obtain ⟨m, hmd⟩ : ∃ m, m = scaledRound p q (3 - e) := ⟨_, rfl⟩
  rw [← hmd] at B
  rw [← hed]
  have ht : (0 : ℚ) < (10 : ℚ) ^ (e - 3) := zpow_pos (by norm_num) _
  have hk : (0 : ℚ) < (10 : ℚ) ^ (3 - e) := zpow_pos (by norm_num) _
  have hkt : (10 : ℚ) ^ (3 - e) * (10 : ℚ) ^ (e - 3) = 1 := by
    rw [← zpow_add₀ (by norm_num)]
    have : 3 - e + (e - 3) = 0 := by ring
    rw [this, zpow_zero]
  have e3 : (10 : ℚ) ^ e * (10 : ℚ) ^ (3 - e) = 1000 := by
    rw [← zpow_add₀ (by norm_num)]
    have : e + (3 - e) = 3 := by ring
    rw [this]; norm_num
  have e4 : (10 : ℚ) ^ (e + 1) * (10 : ℚ) ^ (3 - e) = 10000 := by
    rw [← zpow_add₀ (by norm_num)]
    have : e + 1 + (3 - e) = 4 := by ring
    rw [this]; norm_num
  have xlo : (1000 : ℚ) ≤ |v| * (10 : ℚ) ^ (3 - e) := by
    rw [← e3]; exact mul_le_mul_of_nonneg_right lo hk.le
  have xhi : |v| * (10 : ℚ) ^ (3 - e) < 10000 := by
    rw [← e4]; exact mul_lt_mul_of_pos_right hi hk
  obtain ⟨B1, B2⟩ := abs_le.mp B
  have m1 : 1000 ≤ m := by
    have : (999 : ℚ) < (m : ℚ) := by linarith
    have : 999 < m := by exact_mod_cast this
    omega
  have m2 : m ≤ 10000 := by
    have : (m : ℚ) < 10001 := by linarith
    have : m < 10001 := by exact_mod_cast this
    omega
  have hr : roundE3 v = if m = 10000 then ⟨decide (v < 0), 1000, e + 1 - 3⟩
      else ⟨decide (v < 0), m, e - 3⟩ := by
    unfold roundE3
    rw [← hpd, ← hqd]
    simp only [show p ≠ 0 by omega, if_false, ← hed, ← hmd]
  have core : |(m : ℚ) * (10 : ℚ) ^ (e - 3) - abs v| ≤ 1 / 2 * (10 : ℚ) ^ (e - 3) := by
    have : (m : ℚ) * (10 : ℚ) ^ (e - 3) - |v|
        = ((m : ℚ) - |v| * (10 : ℚ) ^ (3 - e)) * (10 : ℚ) ^ (e - 3) := by
      rw [sub_mul, mul_assoc, hkt, mul_one]
    rw [this, abs_mul, abs_of_pos ht]
    exact mul_le_mul_of_nonneg_right B ht.le
  refine ⟨lo, hi, ?_, ?_⟩
  · rw [hr]; split
    · simp
    · simp; omega
  · rw [hr]
    by_cases hm : m = 10000
    · rw [if_pos hm]
      simp only [Dec.val, pow10_eq]
      have hcarry : ((1000 : Nat) : ℚ) * (10 : ℚ) ^ (e + 1 - 3) = (m : ℚ) * (10 : ℚ) ^ (e - 3) := by
        have : e + 1 - 3 = e - 3 + 1 := by ring
        rw [this, zpow_add_one₀ (by norm_num), hm]
        push_cast; ring
      rw [hcarry, signed_abs_sub _ _ (by positivity)]
      exact core
    · rw [if_neg hm]
      simp only [Dec.val, pow10_eq]
      rw [signed_abs_sub _ _ (by positivity)]
      exact core

/-- the numeric core of `%.5f` -/
theorem roundF5_spec (v : ℚ) :
    (roundF5 v).e10 = -5 ∧ (|(roundF5 v).val - v|) ≤ 1 / 2 * (10 : ℚ) ^ (-5 : Int) := by
  refine ⟨rfl, ?_⟩
  have B := scaledRound_bound v.num.natAbs v.den v.den_pos 5
  rw [← abs_eq_natAbs_div] at B
  have ht : (0 : ℚ) < (10 : ℚ) ^ (-5 : Int) := zpow_pos (by norm_num) _
  have hkt : (10 : ℚ) ^ (5 : Int) * (10 : ℚ) ^ (-5 : Int) = 1 := by
    rw [← zpow_add₀ (by norm_num)]; norm_num
  simp only [roundF5, Dec.val, pow10_eq]
  rw [signed_abs_sub _ _ (by positivity)]
  have : ((scaledRound v.num.natAbs v.den 5 : Nat) : ℚ) * (10 : ℚ) ^ (-5 : Int) - |v|
      = (((scaledRound v.num.natAbs v.den 5 : Nat) : ℚ) - |v| * (10 : ℚ) ^ (5 : Int)) * (10 : ℚ) ^ (-5 : Int) := by
    rw [sub_mul, mul_assoc, hkt, mul_one]
  rw [this, abs_mul, abs_of_pos ht]
  exact mul_le_mul_of_nonneg_right B ht.le

theorem roundE3_zero : roundE3 0 = ⟨false, 0, -3⟩ := by decide +kernel

/-- the decade of a non-zero rational is unique -/
theorem decade_unique (x : ℚ) (e e' : Int) (h1 : (10 : ℚ) ^ e ≤ x) (h2 : x < (10 : ℚ) ^ (e + 1))
    (h1' : (10 : ℚ) ^ e' ≤ x) (h2' : x < (10 : ℚ) ^ (e' + 1)) : e = e' := by
  have a : e < e' + 1 := by
    by_contra h
    have : (10 : ℚ) ^ (e' + 1) ≤ (10 : ℚ) ^ e := zpow_le_zpow_right₀ (by norm_num) (by omega)
    linarith
  have b : e' < e + 1 := by
    by_contra h
    have : (10 : ℚ) ^ (e + 1) ≤ (10 : ℚ) ^ e' := zpow_le_zpow_right₀ (by norm_num) (by omega)
    linarith
  omega

end SF.Parse
