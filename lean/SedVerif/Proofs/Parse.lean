import SedVerif.Model.Parse
/-!
# Helper lemmas for C20 (core Lean only): `mapOpt`, strided slices, `fromAsciiToks` inversion
-/
namespace SF.Parse

section lists
variable {α β : Type}

theorem mapOpt_length (f : α → Option β) : ∀ (l : List α) (r : List β), mapOpt f l = some r → r.length = l.length
  | [], r, h => by simp only [mapOpt, Option.some.injEq] at h; subst h; rfl
  | a :: l, r, h => by
    simp only [mapOpt] at h
    cases ha : f a with
    | none => rw [ha] at h; cases h
    | some b =>
      rw [ha] at h
      cases hl : mapOpt f l with
      | none => rw [hl] at h; cases h
      | some bs =>
        rw [hl] at h; simp only [Option.some.injEq] at h; subst h
        simp only [List.length_cons, mapOpt_length f l bs hl]

theorem mapOpt_get (f : α → Option β) : ∀ (l : List α) (r : List β), mapOpt f l = some r →
    ∀ i, i < l.length → r[i]? = (l[i]?).bind f
  | [], r, h, i, hi => by simp at hi
  | a :: l, r, h, i, hi => by
    simp only [mapOpt] at h
    cases ha : f a with
    | none => rw [ha] at h; cases h
    | some b =>
      rw [ha] at h
      cases hl : mapOpt f l with
      | none => rw [hl] at h; cases h
      | some bs =>
        rw [hl] at h; simp only [Option.some.injEq] at h; subst h
        cases i with
        | zero => simp [ha]
        | succ i =>
          simp only [List.getElem?_cons_succ]
          exact mapOpt_get f l bs hl i (by simp at hi; omega)

theorem mapOpt_of_forall (f : α → Option β) : ∀ (l : List α),
    (∀ i, i < l.length → ((l[i]?).bind f).isSome) → ∃ r, mapOpt f l = some r
  | [], _ => ⟨[], rfl⟩
  | a :: l, h => by
    have h0 := h 0 (by simp)
    simp only [List.getElem?_cons_zero, Option.bind_some] at h0
    obtain ⟨b, hb⟩ := Option.isSome_iff_exists.mp h0
    obtain ⟨bs, hbs⟩ := mapOpt_of_forall f l (fun i hi => by
      have := h (i + 1) (by simp; omega)
      simpa using this)
    exact ⟨b :: bs, by simp [mapOpt, hb, hbs]⟩

theorem mapOpt_none_of (f : α → Option β) : ∀ (l : List α) (i : Nat), (l[i]?).bind f = none → i < l.length →
    mapOpt f l = none
  | [], i, _, hi => by simp at hi
  | a :: l, i, h, hi => by
    simp only [mapOpt]
    cases ha : f a with
    | none => rfl
    | some b =>
      cases i with
      | zero => simp [ha] at h
      | succ i =>
        simp only [List.getElem?_cons_succ] at h
        rw [mapOpt_none_of f l i h (by simp at hi; omega)]

theorem mapOpt_map (f : α → Option β) {γ : Type} (g : γ → α) (h : γ → β) (hf : ∀ c, f (g c) = some (h c)) :
    ∀ l : List γ, mapOpt f (l.map g) = some (l.map h)
  | [] => rfl
  | c :: l => by simp [mapOpt, hf, mapOpt_map f g h hf l]

theorem evens_length : ∀ l : List α, (evens l).length = (l.length + 1) / 2
  | [] => by simp [evens]
  | [_] => by simp [evens]
  | _ :: _ :: r => by simp only [evens, List.length_cons, evens_length r]; omega

theorem odds_length : ∀ l : List α, (odds l).length = l.length / 2
  | [] => by simp [odds]
  | [_] => by simp [odds]
  | _ :: _ :: r => by simp only [odds, List.length_cons, odds_length r]; omega

theorem evens_get : ∀ (l : List α) (i : Nat), (evens l)[i]? = l[2 * i]?
  | [], i => by simp [evens]
  | [a], i => by cases i <;> simp [evens]
  | a :: b :: r, i => by
    cases i with
    | zero => simp [evens]
    | succ i =>
      simp only [evens, List.getElem?_cons_succ]
      rw [evens_get r i]
      have : 2 * (i + 1) = 2 * i + 1 + 1 := by omega
      rw [this]; simp only [List.getElem?_cons_succ]

theorem odds_get : ∀ (l : List α) (i : Nat), (odds l)[i]? = l[2 * i + 1]?
  | [], i => by simp [odds]
  | [a], i => by simp [odds]
  | a :: b :: r, i => by
    cases i with
    | zero => simp [odds]
    | succ i =>
      simp only [odds, List.getElem?_cons_succ]
      rw [odds_get r i]
      have : 2 * (i + 1) = 2 * i + 1 + 1 := by omega
      rw [this]; simp only [List.getElem?_cons_succ]

end lists

section ascii
variable {K : Type}

/-- everything `from_ascii` has checked when it returns a source -/
theorem fromAsciiToks_ok_inv (parse : Str → Option K) (cols : List Str) (s : Src K)
    (h : fromAsciiToks parse cols = .ok s) :
    ∃ name xs ys rest fe, cols = name :: xs :: ys :: rest ∧ s.name = name ∧ parse xs = some s.x ∧
      parse ys = some s.y ∧ mapOpt parseInt (rest.take (rest.length / 3)) = some s.valid ∧
      s.valid.all validFlag = true ∧ mapOpt parse (rest.drop (rest.length / 3)) = some fe ∧
      s.flux = evens fe ∧ s.error = odds fe ∧ s.flux.length = s.valid.length ∧
      s.error.length = s.valid.length := by
  unfold fromAsciiToks at h
  split at h
  · cases h
  · match cols, h with
    | name :: xs :: ys :: rest, h =>
      simp only [List.length_cons] at h
      cases hx : parse xs with
      | none => rw [hx] at h; cases h
      | some x =>
        cases hy : parse ys with
        | none => rw [hx, hy] at h; cases h
        | some y =>
          rw [hx, hy] at h
          simp only at h
          have e3 : (rest.length + 1 + 1 + 1 - 3) / 3 = rest.length / 3 := by omega
          rw [e3] at h
          cases hv : mapOpt parseInt (rest.take (rest.length / 3)) with
          | none => rw [hv] at h; cases h
          | some valid =>
            rw [hv] at h; simp only at h
            by_cases hall : valid.all validFlag = true
            · rw [if_pos hall] at h
              cases hf : mapOpt parse (rest.drop (rest.length / 3)) with
              | none => rw [hf] at h; cases h
              | some fe =>
                rw [hf] at h; simp only at h
                by_cases h1 : (evens fe).length ≠ valid.length
                · rw [if_pos h1] at h; cases h
                · rw [if_neg h1] at h
                  by_cases h2 : (odds fe).length ≠ valid.length
                  · rw [if_pos h2] at h; cases h
                  · rw [if_neg h2] at h
                    simp only [Except.ok.injEq] at h
                    subst h
                    exact ⟨name, xs, ys, rest, fe, rfl, rfl, hx, hy, hv, hall, hf, rfl, rfl,
                      by simpa using h1, by simpa using h2⟩
            · rw [if_neg hall] at h; cases h
    | [], h => cases h
    | [_], h => cases h
    | [_, _], h => cases h

theorem fromAsciiToks_eof_iff (parse : Str → Option K) (cols : List Str) :
    fromAsciiToks parse cols = .error .eof ↔ cols.length < 3 := by
  constructor
  · intro h
    rcases Nat.lt_or_ge cols.length 3 with hl | hl
    · exact hl
    · exfalso
      unfold fromAsciiToks at h
      rw [if_neg (by omega)] at h
      match cols, hl, h with
      | name :: xs :: ys :: rest, _, h =>
        simp only at h
        split at h
        · cases h
        · split at h
          · cases h
          · split at h
            · cases h
            · split at h
              · split at h
                · cases h
                · split at h
                  · cases h
                  · split at h
                    · cases h
                    · cases h
              · cases h
      | [], hl, _ => simp at hl
      | [_], hl, _ => simp at hl
      | [_, _], hl, _ => simp at hl
  · intro h
    unfold fromAsciiToks
    rw [if_pos h]

/-- what `from_ascii` returns when every check passes -/
theorem fromAsciiToks_ok (parse : Str → Option K) (name xs ys : Str) (rest : List Str) (x y : K)
    (valid : List Int) (fe : List K) (hx : parse xs = some x) (hy : parse ys = some y)
    (hv : mapOpt parseInt (rest.take (rest.length / 3)) = some valid)
    (hall : valid.all validFlag = true)
    (hf : mapOpt parse (rest.drop (rest.length / 3)) = some fe)
    (h1 : (evens fe).length = valid.length) (h2 : (odds fe).length = valid.length) :
    fromAsciiToks parse (name :: xs :: ys :: rest) = .ok ⟨name, x, y, valid, evens fe, odds fe⟩ := by
  unfold fromAsciiToks
  rw [if_neg (by simp)]
  have e3 : ((name :: xs :: ys :: rest).length - 3) / 3 = rest.length / 3 := by
    simp only [List.length_cons]; omega
  simp only [hx, hy, e3, hv, hall, hf, if_true, h1, h2, ne_eq, not_true_eq_false, if_false]

theorem get3 {α : Type} (a b c : α) (rest : List α) (i : Nat) :
    (a :: b :: c :: rest)[3 + i]? = rest[i]? := by
  rw [show 3 + i = i + 1 + 1 + 1 by omega]; rfl

/-! ### `to_ascii` then `from_ascii`, token level -/

theorem mapOpt_map_mem {α β γ : Type} (f : α → Option β) (g : γ → α) (h : γ → β) :
    ∀ l : List γ, (∀ c ∈ l, f (g c) = some (h c)) → mapOpt f (l.map g) = some (l.map h)
  | [], _ => rfl
  | c :: l, hf => by
    simp only [List.map_cons, mapOpt, hf c (by simp),
      mapOpt_map_mem f g h l (fun d hd => hf d (by simp [hd]))]

theorem validFlag_cases (v : Int) (h : validFlag v = true) :
    v = 0 ∨ v = 1 ∨ v = 2 ∨ v = 3 ∨ v = 4 ∨ v = 9 := by
  simp only [validFlag, Bool.not_eq_true', Bool.or_eq_false_iff, decide_eq_false_iff_not,
    Bool.and_eq_false_iff, bne_eq_false_iff_eq] at h
  omega

theorem parseInt_fmtD_flag (v : Int) (h : validFlag v = true) : parseInt (fmtD v) = some v := by
  rcases validFlag_cases v h with rfl | rfl | rfl | rfl | rfl | rfl <;> decide

theorem pairToks_spec (parse : Str → Option K) (fmtE : K → Str) (rE : K → K)
    (hE : ∀ v, parse (fmtE v) = some (rE v)) :
    ∀ (n : Nat) (fs es : List K), fs.length = n → es.length = n →
      ∃ ps, pairToks fmtE n fs es = some ps ∧ ps.length = 2 * n ∧
        ∃ fe, mapOpt parse ps = some fe ∧ evens fe = fs.map rE ∧ odds fe = es.map rE
  | 0, fs, es, hf, he => by
    have : fs = [] := List.eq_nil_of_length_eq_zero hf
    have : es = [] := List.eq_nil_of_length_eq_zero he
    subst_vars
    exact ⟨[], rfl, rfl, [], rfl, rfl, rfl⟩
  | n + 1, [], _, hf, _ => by simp at hf
  | n + 1, _ :: _, [], _, he => by simp at he
  | n + 1, f :: fs, e :: es, hf, he => by
    obtain ⟨ps, hps, hlen, fe, hfe, hev, hod⟩ :=
      pairToks_spec parse fmtE rE hE n fs es (by simpa using hf) (by simpa using he)
    refine ⟨fmtE f :: fmtE e :: ps, by simp [pairToks, hps], by simp [hlen]; omega,
      rE f :: rE e :: fe, by simp [mapOpt, hE, hfe], by simp [evens, hev], by simp [odds, hod]⟩

/-- token-level round trip, numbers abstract: reading back the tokens that `to_ascii` writes gives the
    same name and flags, and every number `v` comes back as `parse (fmt v)` -/
theorem roundtrip_toks (parse : Str → Option K) (fmtF fmtE : K → Str) (rF rE : K → K)
    (hF : ∀ v, parse (fmtF v) = some (rF v)) (hE : ∀ v, parse (fmtE v) = some (rE v))
    (s : Src K) (hflags : s.valid.all validFlag = true)
    (hfl : s.flux.length = s.valid.length) (hel : s.error.length = s.valid.length) :
    ∃ toks, toAsciiToks fmtF fmtE s = some toks ∧ toks.length = 3 * (s.valid.length + 1) ∧
      fromAsciiToks parse toks
        = .ok ⟨s.name, rF s.x, rF s.y, s.valid, s.flux.map rE, s.error.map rE⟩ := by
  obtain ⟨ps, hps, hlen, fe, hfe, hev, hod⟩ :=
    pairToks_spec parse fmtE rE hE s.valid.length s.flux s.error hfl hel
  refine ⟨s.name :: fmtF s.x :: fmtF s.y :: (s.valid.map fmtD ++ ps), by simp [toAsciiToks, hps],
    by simp [hlen]; omega, ?_⟩
  have hrl : (s.valid.map fmtD ++ ps).length / 3 = s.valid.length := by
    simp only [List.length_append, List.length_map, hlen]; omega
  have hml : (s.valid.map fmtD).length = s.valid.length := by simp
  have := fromAsciiToks_ok parse s.name (fmtF s.x) (fmtF s.y) (s.valid.map fmtD ++ ps) (rF s.x) (rF s.y)
    s.valid fe (hF _) (hF _)
    (by
      rw [hrl, List.take_left' hml]
      have := mapOpt_map_mem parseInt fmtD id s.valid (fun c hc => by
        rw [List.all_eq_true] at hflags
        exact parseInt_fmtD_flag c (hflags c hc))
      simpa using this)
    hflags
    (by rw [hrl, List.drop_left' hml]; exact hfe)
    (by rw [hev]; simp [hfl]) (by rw [hod]; simp [hel])
  rw [this, hev, hod]

end ascii

/-! ### `str.split()` on the text that `to_ascii` writes -/

/-- a token: non-empty, no whitespace character -/
def TokOk (t : Str) : Prop := t ≠ [] ∧ ∀ c ∈ t, isWs c = false

theorem isWs_space : isWs ' ' = true := by decide

theorem splitAux_tok : ∀ (t r cur : List Char), (∀ c ∈ t, isWs c = false) →
    splitAux (t ++ r) cur = splitAux r (t.reverse ++ cur)
  | [], r, cur, _ => rfl
  | c :: t, r, cur, h => by
    have hc : isWs c = false := h c (by simp)
    simp only [List.cons_append, splitAux, hc, Bool.false_eq_true, if_false]
    rw [splitAux_tok t r (c :: cur) (fun d hd => h d (by simp [hd]))]
    simp

theorem splitAux_spaces : ∀ (k : Nat) (r : List Char), splitAux (spaces k ++ r) [] = splitAux r []
  | 0, r => rfl
  | k + 1, r => by
    simp only [spaces, List.replicate_succ, List.cons_append, splitAux, isWs_space, if_true]
    exact splitAux_spaces k r

/-- `[spaces] token spaces⁺` in front of `r` contributes exactly `token` -/
theorem splitAux_piece (a b : Nat) (t r : List Char) (ht : TokOk t) :
    splitAux (spaces a ++ (t ++ (spaces (b + 1) ++ r))) [] = t :: splitAux r [] := by
  rw [splitAux_spaces, splitAux_tok t _ [] ht.2]
  have hne : t.reverse ++ [] ≠ [] := by simpa using ht.1
  simp only [spaces, List.replicate_succ, List.cons_append, splitAux, isWs_space, if_true,
    if_neg hne]
  simp only [List.append_nil, List.reverse_reverse]
  congr 1
  exact splitAux_spaces b r

theorem split_padLeft (w : Nat) (t r : List Char) (ht : TokOk t) :
    splitAux (padLeft w t ++ ' ' :: r) [] = t :: splitAux r [] := by
  have := splitAux_piece (w - t.length) 0 t r ht
  simpa [padLeft, spaces, List.append_assoc] using this

theorem split_padRight (w : Nat) (t r : List Char) (ht : TokOk t) :
    splitAux (padRight w t ++ ' ' :: r) [] = t :: splitAux r [] := by
  have := splitAux_piece 0 (w - t.length) t r ht
  simp only [spaces, List.replicate_zero, List.nil_append] at this
  rw [← this]
  simp [padRight, spaces, List.replicate_succ', List.append_assoc]

section
variable {K : Type}

theorem split_pairText (fmtE : K → Str) (hE : ∀ v, TokOk (fmtE v)) :
    ∀ (n : Nat) (fs es : List K) (txt : Str), pairText fmtE n fs es = some txt →
      ∃ ps, pairToks fmtE n fs es = some ps ∧ splitAux txt [] = ps
  | 0, _, _, txt, h => by
    simp only [pairText, Option.some.injEq] at h; subst h
    exact ⟨[], rfl, rfl⟩
  | n + 1, [], _, txt, h => by simp [pairText] at h
  | n + 1, _ :: _, [], txt, h => by simp [pairText] at h
  | n + 1, f :: fs, e :: es, txt, h => by
    simp only [pairText] at h
    cases hr : pairText fmtE n fs es with
    | none => rw [hr] at h; cases h
    | some r =>
      rw [hr] at h; simp only [Option.some.injEq] at h; subst h
      obtain ⟨ps, hps, hsp⟩ := split_pairText fmtE hE n fs es r hr
      refine ⟨fmtE f :: fmtE e :: ps, by simp [pairToks, hps], ?_⟩
      rw [split_padLeft 11 _ _ (hE f), split_padLeft 11 _ _ (hE e), hsp]

theorem split_flagText : ∀ (l : List Int) (r : Str), (∀ v ∈ l, TokOk (fmtD v)) →
    splitAux (flagText l ++ r) [] = l.map fmtD ++ splitAux r []
  | [], r, _ => rfl
  | v :: l, r, hD => by
    simp only [flagText, List.append_assoc, List.cons_append, List.map_cons]
    rw [split_padLeft 1 _ _ (hD v (by simp)), split_flagText l r (fun w hw => hD w (by simp [hw]))]

theorem tokOk_fmtD_flag (v : Int) (h : validFlag v = true) : TokOk (fmtD v) := by
  unfold TokOk
  rcases validFlag_cases v h with rfl | rfl | rfl | rfl | rfl | rfl <;> decide

theorem pairText_some (fmtE : K → Str) : ∀ (n : Nat) (fs es : List K), fs.length = n → es.length = n →
    ∃ txt, pairText fmtE n fs es = some txt
  | 0, _, _, _, _ => ⟨[], rfl⟩
  | n + 1, [], _, hf, _ => by simp at hf
  | n + 1, _ :: _, [], _, he => by simp at he
  | n + 1, f :: fs, e :: es, hf, he => by
    obtain ⟨r, hr⟩ := pairText_some fmtE n fs es (by simpa using hf) (by simpa using he)
    exact ⟨padLeft 11 (fmtE f) ++ ' ' :: (padLeft 11 (fmtE e) ++ ' ' :: r), by simp only [pairText, hr]⟩

/-- the text of `to_ascii()` splits into exactly the tokens of `toAsciiToks` -/
theorem split_toAscii (fmtF fmtE : K → Str) (hF : ∀ v, TokOk (fmtF v)) (hE : ∀ v, TokOk (fmtE v))
    (s : Src K) (hD : ∀ v ∈ s.valid, TokOk (fmtD v)) (hname : TokOk s.name) (line : Str)
    (h : toAscii fmtF fmtE s = some line) :
    toAsciiToks fmtF fmtE s = some (splitWs line) := by
  unfold toAscii at h
  cases hp : pairText fmtE s.valid.length s.flux s.error with
  | none => rw [hp] at h; cases h
  | some txt =>
    rw [hp] at h; simp only [Option.some.injEq] at h; subst h
    obtain ⟨ps, hps, hsp⟩ := split_pairText fmtE hE _ _ _ _ hp
    unfold toAsciiToks splitWs
    rw [hps, split_padRight 30 _ _ hname, split_padLeft 9 _ _ (hF _), split_padLeft 9 _ _ (hF _),
      split_flagText _ _ hD, hsp]

end

end SF.Parse
