import SedVerif.Model.Fit
import Mathlib.Tactic.Ring
import Mathlib.Tactic.Linarith
import Mathlib.Tactic.FieldSimp
import Mathlib.Tactic.Positivity
import Mathlib.Tactic.LinearCombination
import Mathlib.Algebra.Order.Field.Basic

/-! Helper lemmas about the regression model, over any linearly ordered field. -/
namespace SF
variable {K : Type} [Field K] [LinearOrder K] [IsStrictOrderedRing K]

theorem two_eq : (two : K) = 2 := by unfold two; norm_num

theorem sumBy_nonneg {α : Type} (f : α → K) (l : List α) (h : ∀ p ∈ l, 0 ≤ f p) : 0 ≤ sumBy f l := by
  induction l with
  | nil => simp [sumBy]
  | cons p ps ih =>
    simp only [sumBy]
    have := h p List.mem_cons_self
    have := ih (fun q hq => h q (List.mem_cons_of_mem _ hq))
    linarith

theorem sumBy_pos_of_mem {α : Type} (f : α → K) (l : List α) (h : ∀ p ∈ l, 0 ≤ f p)
    (x : α) (hx : x ∈ l) (hpos : 0 < f x) : 0 < sumBy f l := by
  induction l with
  | nil => cases hx
  | cons p ps ih =>
    simp only [sumBy]
    have hp := h p List.mem_cons_self
    have hrest := sumBy_nonneg f ps (fun q hq => h q (List.mem_cons_of_mem _ hq))
    rcases List.mem_cons.mp hx with rfl | hx'
    · linarith
    · have := ih (fun q hq => h q (List.mem_cons_of_mem _ hq)) hx'
      linarith

theorem sumBy_add {α : Type} (f g : α → K) (l : List α) :
    sumBy (fun p => f p + g p) l = sumBy f l + sumBy g l := by
  induction l with
  | nil => simp [sumBy]
  | cons p ps ih => simp only [sumBy, ih]; ring

theorem sumBy_congr {α : Type} (f g : α → K) (l : List α) (h : ∀ p ∈ l, f p = g p) :
    sumBy f l = sumBy g l := by
  induction l with
  | nil => simp [sumBy]
  | cons p ps ih =>
    simp only [sumBy]
    rw [h p List.mem_cons_self, ih (fun q hq => h q (List.mem_cons_of_mem _ hq))]

theorem sumBy_perm {α : Type} (f : α → K) {l l' : List α} (h : l.Perm l') : sumBy f l = sumBy f l' := by
  induction h with
  | nil => rfl
  | cons x _ ih => simp only [sumBy, ih]
  | swap x y l => simp only [sumBy]; ring
  | trans _ _ ih1 ih2 => rw [ih1, ih2]

theorem ssq_expand (a s : K) (ps : List (Pt K)) :
    ssq a s ps = sumBy (fun p => p.r * p.r * p.w) ps - 2 * a * c1 ps - 2 * s * c2 ps
      + a * a * m11 ps + 2 * a * s * m12 ps + s * s * m22 ps := by
  induction ps with
  | nil => simp [ssq, sumBy, c1, c2, m11, m12, m22]
  | cons p ps ih =>
    simp only [ssq, sumBy, c1, c2, m11, m12, m22] at ih ⊢
    rw [ih]; ring

/-- the quadratic form of the normal matrix is a weighted sum of squares -/
theorem quad_eq (da ds : K) (ps : List (Pt K)) :
    da * da * m11 ps + 2 * da * ds * m12 ps + ds * ds * m22 ps
      = sumBy (fun p => (p.k * da + p.q * ds) * (p.k * da + p.q * ds) * p.w) ps := by
  induction ps with
  | nil => simp [sumBy, m11, m12, m22]
  | cons p ps ih =>
    simp only [sumBy, m11, m12, m22] at ih ⊢
    rw [← ih]; ring

/-- Q(da,ds) = Σ w (k da + q ds)² ≥ 0 -/
theorem quad_nonneg (da ds : K) (ps : List (Pt K)) (hw : ∀ p ∈ ps, 0 ≤ p.w) :
    0 ≤ da * da * m11 ps + 2 * da * ds * m12 ps + ds * ds * m22 ps := by
  rw [quad_eq]
  exact sumBy_nonneg _ _ (fun p hp => mul_nonneg (mul_self_nonneg _) (hw p hp))

theorem linreg_normal_eqs (ps : List (Pt K)) (hdet : m11 ps * m22 ps - m12 ps * m12 ps ≠ 0) :
    m11 ps * (linreg ps).1 + m12 ps * (linreg ps).2 = c1 ps ∧
    m12 ps * (linreg ps).1 + m22 ps * (linreg ps).2 = c2 ps := by
  simp only [linreg]
  constructor
  · rw [show m11 ps * ((m22 ps * c1 ps - m12 ps * c2 ps) * (1 / (m11 ps * m22 ps - m12 ps * m12 ps))) +
        m12 ps * ((m11 ps * c2 ps - m12 ps * c1 ps) * (1 / (m11 ps * m22 ps - m12 ps * m12 ps)))
        = c1 ps * ((m11 ps * m22 ps - m12 ps * m12 ps) * (1 / (m11 ps * m22 ps - m12 ps * m12 ps))) by ring,
      mul_one_div_cancel hdet, mul_one]
  · rw [show m12 ps * ((m22 ps * c1 ps - m12 ps * c2 ps) * (1 / (m11 ps * m22 ps - m12 ps * m12 ps))) +
        m22 ps * ((m11 ps * c2 ps - m12 ps * c1 ps) * (1 / (m11 ps * m22 ps - m12 ps * m12 ps)))
        = c2 ps * ((m11 ps * m22 ps - m12 ps * m12 ps) * (1 / (m11 ps * m22 ps - m12 ps * m12 ps))) by ring,
      mul_one_div_cancel hdet, mul_one]

/-- ssq(a,s) − ssq(A,S) is the quadratic form of the displacement, whenever (A,S) solves the normal equations -/
theorem ssq_diff (ps : List (Pt K)) (A S a s : K)
    (h1 : m11 ps * A + m12 ps * S = c1 ps) (h2 : m12 ps * A + m22 ps * S = c2 ps) :
    ssq a s ps - ssq A S ps
      = (a - A) * (a - A) * m11 ps + 2 * (a - A) * (s - S) * m12 ps + (s - S) * (s - S) * m22 ps := by
  rw [ssq_expand, ssq_expand]
  linear_combination (2 * (a - A)) * h1 + (2 * (s - S)) * h2

/-- unconstrained optimality -/
theorem linreg_optimal (ps : List (Pt K)) (hw : ∀ p ∈ ps, 0 ≤ p.w)
    (hdet : m11 ps * m22 ps - m12 ps * m12 ps ≠ 0) (a s : K) :
    ssq (linreg ps).1 (linreg ps).2 ps ≤ ssq a s ps := by
  obtain ⟨h1, h2⟩ := linreg_normal_eqs ps hdet
  have hq := quad_nonneg (a - (linreg ps).1) (s - (linreg ps).2) ps hw
  have := ssq_diff ps _ _ a s h1 h2
  linarith

theorem optScale_expand (a : K) (ps : List (Pt K)) :
    sumBy (fun p => (p.r - a * p.k) * p.q * p.w) ps = c2 ps - a * m12 ps := by
  induction ps with
  | nil => simp [sumBy, c2, m12]
  | cons p ps ih => simp only [sumBy, c2, m12] at ih ⊢; rw [ih]; ring

theorem optScale_eq (a : K) (ps : List (Pt K)) (hne : m22 ps ≠ 0) :
    m22 ps * optScaleAfterAv a ps = c2 ps - a * m12 ps := by
  unfold optScaleAfterAv; rw [optScale_expand]; field_simp

/-- for fixed a, optimal_scaling gives the best s -/
theorem optScale_optimal (a s : K) (ps : List (Pt K)) (h22 : 0 < m22 ps) :
    ssq a (optScaleAfterAv a ps) ps ≤ ssq a s ps := by
  have hS := optScale_eq a ps (ne_of_gt h22)
  generalize optScaleAfterAv a ps = S at hS
  have key : ssq a s ps - ssq a S ps = (s - S) * (s - S) * m22 ps := by
    rw [ssq_expand, ssq_expand]; linear_combination (2 * (s - S)) * hS
  have : 0 ≤ (s - S) * (s - S) * m22 ps := mul_nonneg (mul_self_nonneg _) h22.le
  linarith

/-- profile of the objective in a (scale re-optimised), relative to the unconstrained optimum -/
theorem profile (a : K) (ps : List (Pt K)) (h22 : 0 < m22 ps)
    (hdet : m11 ps * m22 ps - m12 ps * m12 ps ≠ 0) :
    (ssq a (optScaleAfterAv a ps) ps - ssq (linreg ps).1 (linreg ps).2 ps) * m22 ps
      = (m11 ps * m22 ps - m12 ps * m12 ps) * ((a - (linreg ps).1) * (a - (linreg ps).1)) := by
  obtain ⟨h1, h2⟩ := linreg_normal_eqs ps hdet
  have hS := optScale_eq a ps (ne_of_gt h22)
  rw [ssq_diff ps _ _ _ _ h1 h2]
  generalize optScaleAfterAv a ps = T at hS
  generalize (linreg ps).1 = A at h1 h2
  generalize (linreg ps).2 = S at h1 h2
  have hTS : m22 ps * (T - S) = -(a - A) * m12 ps := by linear_combination hS - h2
  linear_combination (m22 ps * (T - S) + (a - A) * m12 ps) * hTS

/-- clamp-then-rescale is the optimum over the box lo ≤ a ≤ hi, s free -/
theorem fit2_box_optimal (lo hi : K) (hlohi : lo ≤ hi) (ps : List (Pt K)) (hw : ∀ p ∈ ps, 0 ≤ p.w)
    (h22 : 0 < m22 ps) (hdet : 0 < m11 ps * m22 ps - m12 ps * m12 ps) (a s : K) (ha : lo ≤ a) (ha' : a ≤ hi) :
    lo ≤ (fit2 lo hi ps).1 ∧ (fit2 lo hi ps).1 ≤ hi ∧
    ssq (fit2 lo hi ps).1 (fit2 lo hi ps).2 ps ≤ ssq a s ps := by
  have hdet' := ne_of_gt hdet
  have hopt := linreg_optimal ps hw hdet' a s
  have hprofA := profile a ps h22 hdet'
  have hsa := optScale_optimal a s ps h22
  unfold fit2
  generalize hA : (linreg ps).1 = A at *
  generalize hS : (linreg ps).2 = S at *
  have hlr : linreg ps = (A, S) := by rw [← hA, ← hS]
  simp only [hlr]
  by_cases h1 : A < lo
  · simp only [h1, if_true]
    refine ⟨le_refl _, hlohi, ?_⟩
    have hprofL := profile lo ps h22 hdet'
    rw [hA, hS] at hprofL
    have hmono : (lo - A) * (lo - A) ≤ (a - A) * (a - A) := by nlinarith
    have : (ssq lo (optScaleAfterAv lo ps) ps - ssq A S ps) * m22 ps
         ≤ (ssq a (optScaleAfterAv a ps) ps - ssq A S ps) * m22 ps := by
      rw [hprofL, hprofA]; exact mul_le_mul_of_nonneg_left hmono hdet.le
    have := le_of_mul_le_mul_right this h22
    linarith
  · simp only [h1, if_false]
    by_cases h2 : hi < A
    · simp only [h2, if_true]
      refine ⟨hlohi, le_refl _, ?_⟩
      have hprofH := profile hi ps h22 hdet'
      rw [hA, hS] at hprofH
      have hmono : (hi - A) * (hi - A) ≤ (a - A) * (a - A) := by nlinarith
      have : (ssq hi (optScaleAfterAv hi ps) ps - ssq A S ps) * m22 ps
           ≤ (ssq a (optScaleAfterAv a ps) ps - ssq A S ps) * m22 ps := by
        rw [hprofH, hprofA]; exact mul_le_mul_of_nonneg_left hmono hdet.le
      have := le_of_mul_le_mul_right this h22
      linarith
    · simp only [h2, if_false]
      exact ⟨not_lt.mp h1, not_lt.mp h2, hopt⟩

end SF
