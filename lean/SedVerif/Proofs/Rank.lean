import SedVerif.Model.Rank
import SedVerif.Proofs.EF

/-! Helper lemmas about `argsortEF`, `fancyIndex`, `sortRows`. -/
namespace SF
variable {K : Type} [Field K] [LinearOrder K] [IsStrictOrderedRing K]

theorem argsortEF_perm (c : List (EF K)) : (argsortEF c).Perm (List.range c.length) :=
  List.mergeSort_perm _ _

theorem argsortEF_length (c : List (EF K)) : (argsortEF c).length = c.length := by
  simpa using (argsortEF_perm c).length_eq

theorem argsortEF_lt (c : List (EF K)) {m : Nat} (h : m ∈ argsortEF c) : m < c.length :=
  List.mem_range.mp ((argsortEF_perm c).mem_iff.mp h)

theorem argsortEF_sorted (c : List (EF K)) :
    ((argsortEF c).map (fun i => c.getD i EF.nan)).Pairwise (fun a b => EF.leSort a b = true) := by
  rw [List.pairwise_map]
  unfold argsortEF
  exact List.pairwise_mergeSort (le := fun i j => EF.leSort (c.getD i EF.nan) (c.getD j EF.nan))
    (fun a b d => EF.leSort_trans _ _ _) (fun a b => EF.leSort_total _ _) _

theorem fancyIndex_length {α : Type} (d : α) (o : List Nat) (xs : List α) : (fancyIndex d o xs).length = o.length := by
  simp [fancyIndex]

theorem fancyIndex_range {α : Type} (d : α) (xs : List α) :
    (List.range xs.length).map (fun i => xs.getD i d) = xs := by
  apply List.ext_getElem
  · simp
  · intro k h1 h2
    simp at h1
    simp [List.getD_eq_getElem?_getD, List.getElem?_eq_getElem h1]

/-- gathering through a permutation of all indices permutes the array -/
theorem fancyIndex_perm {α : Type} (d : α) (o : List Nat) (xs : List α) (h : o.Perm (List.range xs.length)) :
    (fancyIndex d o xs).Perm xs := by
  have := h.map (fun i => xs.getD i d)
  rw [fancyIndex_range] at this
  exact this

/-- the `i`-th entry of `xs[order]` is the `order[i]`-th entry of `xs`, and that index exists -/
theorem fancyIndex_getElem? {α : Type} (d : α) (o : List Nat) (xs : List α) (i m : Nat)
    (hm : o[i]? = some m) (hlt : m < xs.length) : (fancyIndex d o xs)[i]? = xs[m]? := by
  simp [fancyIndex, List.getElem?_map, hm, List.getD_eq_getElem?_getD, List.getElem?_eq_getElem hlt]

end SF
