import SedVerif.Model.Rank
import SedVerif.Proofs.EF

/-! Helper lemmas about `argsortEF`, `fancyIndex`, `sortRows`. -/
namespace SF
variable {K : Type} [Field K] [LinearOrder K] [IsStrictOrderedRing K]

theorem argsortEF_perm (c : List (EF K)) : (argsortEF c).Perm (List.range c.length) :=
  List.mergeSort_perm _ _

theorem argsortEF_length (c : List (EF K)) : (argsortEF c).length = c.length := by
  simpa using (argsortEF_perm c).length_eq

theorem argsortEF_lt (c : List (EF K)) {m : Nat} (h : m ∈ argsortEF c) : m < c.length :=
  List.mem_range.mp ((argsortEF_perm c).mem_iff.mp h)

theorem argsortEF_sorted (c : List (EF K)) :
    ((argsortEF c).map (fun i => c.getD i EF.nan)).Pairwise (fun a b => EF.leSort a b = true) := by
  rw [List.pairwise_map]
  unfold argsortEF
  exact List.pairwise_mergeSort (le := fun i j => EF.leSort (c.getD i EF.nan) (c.getD j EF.nan))
    (fun a b d => EF.leSort_trans _ _ _) (fun a b => EF.leSort_total _ _) _

theorem fancyIndex_length {α : Type} (d : α) (o : List Nat) (xs : List α) : (fancyIndex d o xs).length = o.length := by
  simp [fancyIndex]

theorem fancyIndex_range {α : Type} (d : α) (xs : List α) :
    (List.range xs.length).map (fun i => xs.getD i d) = xs := by
  apply List.ext_getElem
  · simp
  · intro k h1 h2
    simp at h1
    simp [List.getD_eq_getElem?_getD, List.getElem?_eq_getElem h1]

/-- gathering through a permutation of all indices permutes the array -/
theorem fancyIndex_perm {α : Type} (d : α) (o : List Nat) (xs : List α) (h : o.Perm (List.range xs.length)) :
    (fancyIndex d o xs).Perm xs := by
  have := h.map (fun i => xs.getD i d)
  rw [fancyIndex_range] at this
  exact this

/-- the `i`-th entry of `xs[order]` is the `order[i]`-th entry of `xs`, and that index exists -/
theorem fancyIndex_getElem? {α : Type} (d : α) (o : List Nat) (xs : List α) (i m : Nat)
    (hm : o[i]? = some m) (hlt : m < xs.length) : (fancyIndex d o xs)[i]? = xs[m]? := by
  simp [fancyIndex, List.getElem?_map, hm, List.getD_eq_getElem?_getD, List.getElem?_eq_getElem hlt]

/-! ### `argminFirstEF`, `fit3Ext` -/

theorem argminFirstEFAux_spec (xs : List (EF K)) (i bi : Nat) (bv : EF K) :
    argminFirstEFAux xs i bi bv = (bi, bv) ∨
    ∃ k, k < xs.length ∧ (argminFirstEFAux xs i bi bv).1 = i + k ∧
      xs[k]? = some (argminFirstEFAux xs i bi bv).2 := by
  induction xs generalizing i bi bv with
  | nil => left; rfl
  | cons x xs ih =>
    by_cases hx : EF.lt x bv = true
    · simp only [argminFirstEFAux, hx, if_true]
      rcases ih (i + 1) i x with h | ⟨k, hk, h1, h2⟩
      · right; exact ⟨0, by simp, by rw [h]; simp, by rw [h]; simp⟩
      · right; exact ⟨k + 1, by simp; omega, by rw [h1]; omega, by simpa using h2⟩
    · simp only [argminFirstEFAux, hx]
      rcases ih (i + 1) bi bv with h | ⟨k, hk, h1, h2⟩
      · left; simpa using h
      · right; exact ⟨k + 1, by simp; omega, by simp only [Bool.false_eq_true, if_false]; rw [h1]; omega,
          by simpa using h2⟩

/-- on a non-empty list `np.argmin` returns an existing position and the value there -/
theorem argminFirstEF_spec (l : List (EF K)) (hne : l ≠ []) :
    (argminFirstEF l).1 < l.length ∧ l[(argminFirstEF l).1]? = some (argminFirstEF l).2 := by
  cases l with
  | nil => exact absurd rfl hne
  | cons x xs =>
    simp only [argminFirstEF]
    rcases argminFirstEFAux_spec xs 1 0 x with h | ⟨k, hk, h1, h2⟩
    · rw [h]; simp
    · rw [h1]
      refine ⟨by simp; omega, ?_⟩
      rw [show 1 + k = k + 1 by omega]
      simpa using h2

theorem maskChi_length (per : List (K × K)) (ext : List Bool) : (maskChi per ext).length = per.length := by
  simp [maskChi]

theorem fit3PerDist_length (big : K) (ln1m : K → K) (lo hi : K) (pss : List (List (Pt K))) :
    (fit3PerDist big ln1m lo hi pss).length = pss.length := by
  simp [fit3PerDist]

/-- without NaN and without mask the EF argmin is the plain one -/
theorem argminFirstEFAux_fin (xs : List K) (i bi : Nat) (bv : K) :
    argminFirstEFAux (xs.map EF.fin) i bi (EF.fin bv)
      = ((argminFirstAux xs i bi bv).1, EF.fin (argminFirstAux xs i bi bv).2) := by
  induction xs generalizing i bi bv with
  | nil => rfl
  | cons x xs ih =>
    by_cases hx : x < bv
    · simp only [List.map_cons, argminFirstEFAux, argminFirstAux, EF.lt, hx, decide_true, if_true]
      exact ih (i + 1) i x
    · simp only [List.map_cons, argminFirstEFAux, argminFirstAux, EF.lt, hx, decide_false,
        Bool.false_eq_true, if_false]
      exact ih (i + 1) bi bv

theorem maskChi_nil (per : List (K × K)) : maskChi per [] = (per.map (·.2)).map EF.fin := by
  unfold maskChi
  apply List.ext_getElem
  · simp
  · intro k h1 h2
    simp

end SF
