import SedVerif.Model.Pipeline
import SedVerif.Properties.C05
import SedVerif.Properties.C07
import SedVerif.Properties.C09
import SedVerif.Proofs.RoundTrip
/-!
# Helper lemmas for the end-to-end composition (E2E)

Stage by stage: what a successful `convStage` / `readModels` / `listSource` returned, in terms of the
pipeline's *inputs* — obtained from the per-stage theorems (`C07_safety`, `sortToMatch_labelled`,
`C04_fit_rows`, `C05_domain`, `C09_safety`, …), never by re-proving them.
-/
set_option linter.unusedSectionVars false
set_option linter.unusedVariables false
namespace SF.Pipe
open SF SF.Match

/-! ## `mapE`, `mapO` -/

section maps
variable {ε α β : Type}

theorem mapO_some (f : α → Option β) (d : α → β) : ∀ (l : List α) (r : List β), mapO f l = some r →
    r = l.map (fun a => (f a).getD (d a)) ∧ ∀ a ∈ l, ∃ b, f a = some b
  | [], r, h => by simp [mapO] at h; subst h; simp
  | a :: as, r, h => by
    simp only [mapO] at h
    split at h
    · rename_i b bs hb hbs
      simp only [Option.some.injEq] at h; subst h
      obtain ⟨h1, h2⟩ := mapO_some f d as bs hbs
      refine ⟨by simp [hb, ← h1], ?_⟩
      intro x hx
      rcases List.mem_cons.mp hx with rfl | hx
      · exact ⟨b, hb⟩
      · exact h2 x hx
    · simp at h

theorem mapO_of_forall (f : α → Option β) (g : α → β) : ∀ (l : List α), (∀ a ∈ l, f a = some (g a)) →
    mapO f l = some (l.map g)
  | [], _ => rfl
  | a :: as, h => by
    simp only [mapO, h a (by simp), mapO_of_forall f g as (fun x hx => h x (by simp [hx])), List.map_cons]

theorem mapE_ok_map (f : α → Except ε β) (g : α → β) : ∀ (l : List α) (r : List β),
    (∀ a ∈ l, ∀ b, f a = .ok b → b = g a) → mapE f l = .ok r → r = l.map g
  | [], r, _, h => by simp [mapE] at h; subst h; rfl
  | a :: as, r, hg, h => by
    simp only [mapE] at h
    split at h
    · simp at h
    · rename_i b hb
      split at h
      · simp at h
      · rename_i bs hbs
        simp only [Except.ok.injEq] at h; subst h
        rw [List.map_cons, ← hg a (by simp) b hb,
          ← mapE_ok_map f g as bs (fun x hx => hg x (by simp [hx])) hbs]

theorem mapE_of_forall (f : α → Except ε β) (g : α → β) : ∀ (l : List α), (∀ a ∈ l, f a = .ok (g a)) →
    mapE f l = .ok (l.map g)
  | [], _ => rfl
  | a :: as, h => by
    simp only [mapE, h a (by simp), mapE_of_forall f g as (fun x hx => h x (by simp [hx])), List.map_cons]

/-- index form: result `i` is `f` of input `i` -/
theorem mapE_getElem? (f : α → Except ε β) : ∀ (l : List α) (r : List β), mapE f l = .ok r →
    r.length = l.length ∧ ∀ (i : Nat) (a : α) (b : β), l[i]? = some a → r[i]? = some b → f a = .ok b
  | [], r, h => by simp [mapE] at h; subst h; simp
  | a :: as, r, h => by
    simp only [mapE] at h
    split at h
    · simp at h
    · rename_i b hb
      split at h
      · simp at h
      · rename_i bs hbs
        simp only [Except.ok.injEq] at h; subst h
        obtain ⟨h1, h2⟩ := mapE_getElem? f as bs hbs
        refine ⟨by simp [h1], ?_⟩
        intro i x y hx hy
        cases i with
        | zero => simp at hx hy; subst hx; subst hy; exact hb
        | succ i => simp at hx hy; exact h2 i x y hx hy

theorem zipIdx_map_eq_map (l : List α) (F : α → Nat → β) (G : α → β)
    (h : ∀ i (hi : i < l.length), F l[i] i = G l[i]) :
    l.zipIdx.map (fun ni => F ni.1 ni.2) = l.map G := by
  apply List.ext_getElem
  · simp
  · intro i h1 h2
    simp at h1
    simp [h i h1]

theorem take_min_length' {α : Type} (l : List α) (n : Nat) : l.take (min n l.length) = l.take n := by
  rcases Nat.le_total n l.length with h | h
  · rw [Nat.min_eq_left h]
  · rw [Nat.min_eq_right h, List.take_length, List.take_of_length_le h]

theorem mapE_exists (f : α → Except ε β) : ∀ (l : List α), (∀ a ∈ l, ∃ b, f a = .ok b) →
    ∃ r, mapE f l = .ok r
  | [], _ => ⟨[], rfl⟩
  | a :: as, h => by
    obtain ⟨b, hb⟩ := h a (by simp)
    obtain ⟨bs, hbs⟩ := mapE_exists f as (fun x hx => h x (by simp [hx]))
    exact ⟨b :: bs, by simp [mapE, hb, hbs]⟩

theorem mapE_ok_forall (f : α → Except ε β) : ∀ (l : List α) (r : List β), mapE f l = .ok r →
    ∀ a ∈ l, ∃ b, f a = .ok b
  | [], _, _, a, ha => by simp at ha
  | x :: xs, r, h, a, ha => by
    simp only [mapE] at h
    split at h
    · simp at h
    · rename_i b hb
      split at h
      · simp at h
      · rename_i bs hbs
        rcases List.mem_cons.mp ha with rfl | ha'
        · exact ⟨b, hb⟩
        · exact mapE_ok_forall f xs bs hbs a ha'

theorem mapE_congr (f g : α → Except ε β) : ∀ (l : List α), (∀ a ∈ l, f a = g a) → mapE f l = mapE g l
  | [], _ => rfl
  | a :: as, h => by
    simp only [mapE, h a (by simp), mapE_congr f g as (fun x hx => h x (by simp [hx]))]

end maps

variable {K : Type} [Field K] [LinearOrder K] [IsStrictOrderedRing K]

/-! ## names -/

/-- the SED object named `X` (first match) -/
def pick (seds : List (RT.Sed K)) (X : String) : Option (RT.Sed K) := seds.find? (fun s => s.name == X)

/-- the property's "names distinct", plus: every name fits the 30-character column and carries no
    surrounding blanks -/
def NamesOK (inp : PInput K) : Prop :=
  (inp.seds.map (·.name)).Nodup ∧ ∀ s ∈ inp.seds, take30 s.name = s.name ∧ strip s.name = s.name

/-- stripped `MODEL_NAME` column of the parameter file, in file order -/
def tNames (inp : PInput K) : List String := inp.table.map (fun r => strip r.1)

theorem pick_of_mem : ∀ (seds : List (RT.Sed K)), (seds.map (·.name)).Nodup → ∀ s ∈ seds,
    pick seds s.name = some s
  | [], _, s, hs => by simp at hs
  | t :: ts, hnd, s, hs => by
    simp only [List.map_cons, List.nodup_cons] at hnd
    unfold pick
    rcases List.mem_cons.mp hs with rfl | hs'
    · simp
    · have hne : t.name ≠ s.name := fun e => hnd.1 (e ▸ List.mem_map.mpr ⟨s, hs', rfl⟩)
      rw [List.find?_cons_of_neg (by simpa using hne)]
      exact pick_of_mem ts hnd.2 s hs'

theorem pick_some {seds : List (RT.Sed K)} {X : String} {s : RT.Sed K} (h : pick seds X = some s) :
    s ∈ seds ∧ s.name = X := by
  unfold pick at h
  exact ⟨List.mem_of_find?_eq_some h, by simpa using List.find?_some h⟩

theorem pick_of_name_mem (seds : List (RT.Sed K)) (hnd : (seds.map (·.name)).Nodup) (X : String)
    (hX : X ∈ seds.map (·.name)) : ∃ s ∈ seds, s.name = X ∧ pick seds X = some s := by
  obtain ⟨s, hs, rfl⟩ := List.mem_map.mp hX
  exact ⟨s, hs, rfl, pick_of_mem seds hnd s hs⟩

/-- with distinct names, `pick` does not depend on the order of the list -/
theorem pick_perm {seds seds' : List (RT.Sed K)} (hp : seds.Perm seds') (hnd : (seds.map (·.name)).Nodup)
    (X : String) : pick seds' X = pick seds X := by
  have hnd' : (seds'.map (·.name)).Nodup := (hp.map _).nodup_iff.mp hnd
  cases h : pick seds X with
  | none =>
    cases h' : pick seds' X with
    | none => rfl
    | some s' =>
      obtain ⟨hm, hn⟩ := pick_some h'
      have := pick_of_mem seds hnd s' (hp.mem_iff.mpr hm)
      rw [hn, h] at this; cases this
  | some s =>
    obtain ⟨hm, hn⟩ := pick_some h
    have := pick_of_mem seds' hnd' s (hp.mem_iff.mp hm)
    rw [hn] at this; exact this

/-! ## `SED.write` + `SED.read` keep the name and the aperture list -/

theorem readSed_name (tiny : K) (s s' : RT.Sed K) (h : readSed tiny s = some s') :
    s'.name = s.name ∧ s'.aps = some (s.aps.getD [tiny]) := by
  unfold readSed RT.sedWrite at h
  cases he : s.err with
  | none => simp [he] at h
  | some e =>
    simp only [he, RT.sedRead] at h
    split at h
    · simp at h
    · simp only [Option.some.injEq] at h; subst h; simp [RT.reverseSpectral]
    · simp only [Option.some.injEq] at h; subst h; simp

/-! ## convolution stage -/

/-- flux row and variance row (one value per aperture) of the SED named `X` through filter `f` -/
def rowOf (tiny : K) (nAp : Nat) (f : PFilter K) (seds : List (RT.Sed K)) (X : String) :
    List K × List K :=
  match pick seds X with
  | none => ([], [])
  | some s =>
    match readSed tiny s with
    | none => ([], [])
    | some s' => convRow (cvOf (held f)) (ceOf (held f)) nAp (asSedFile s').sed

/-- `convolved/<filter>.fits` as a function of the inputs: rows follow the parameter table, each row
    is the convolution of the SED that carries the row's name -/
def convFile (tiny : K) (nAp : Nat) (aps : Option (List K)) (inp : PInput K) (f : PFilter K) :
    Conv K (List K) :=
  { names := tNames inp
    apertures := aps
    filtwav := f.wav
    flux := (tNames inp).map (fun X => (rowOf tiny nAp f inp.seds X).1)
    error := (tNames inp).map (fun X => (rowOf tiny nAp f inp.seds X).2) }

theorem liftM_ok {α : Type} (e : Except MErr α) (a : α) (h : liftM e = .ok a) : e = .ok a := by
  cases e with
  | ok b => simpa [liftM] using h
  | error m => simp [liftM] at h

/-- the object `_convolve_model_dir_1` has filled before `sort_to_match`, as a function of the names -/
theorem v1Unsorted_labelled (tiny : K) (inp : PInput K) (hN : NamesOK inp) (f : PFilter K)
    (rd : List (RT.Sed K)) (hrd : mapO (readSed tiny) inp.seds = some rd)
    (first : SedFile K (Spec K)) :
    let U := v1Unsorted (cvOf (held f)) (ceOf (held f)) f.wav first (rd.map asSedFile)
    U.names = inp.seds.map (·.name) ∧
    U.flux = U.names.map (fun X => (rowOf tiny (nApOf first.apertures) f inp.seds X).1) ∧
    U.error = U.names.map (fun X => (rowOf tiny (nApOf first.apertures) f inp.seds X).2) := by
  intro U
  obtain ⟨hrd1, hrd2⟩ := mapO_some (readSed tiny) (fun s => s) inp.seds rd hrd
  have hnm : U.names = inp.seds.map (·.name) := by
    simp only [U, v1Unsorted, hrd1, List.map_map]
    apply List.map_congr_left
    intro s hs
    obtain ⟨s', hs'⟩ := hrd2 s hs
    simp [hs', asSedFile, (readSed_name tiny s s' hs').1, (hN.2 s hs).1]
  have key : ∀ s ∈ inp.seds, rowOf tiny (nApOf first.apertures) f inp.seds s.name
      = convRow (cvOf (held f)) (ceOf (held f)) (nApOf first.apertures)
          (asSedFile ((readSed tiny s).getD s)).sed := by
    intro s hs
    obtain ⟨s', hs'⟩ := hrd2 s hs
    simp [rowOf, pick_of_mem inp.seds hN.1 s hs, hs']
  refine ⟨hnm, ?_, ?_⟩
  · rw [hnm]
    simp only [U, v1Unsorted, hrd1, List.map_map]
    apply List.map_congr_left
    intro s hs
    simp [key s hs]
  · rw [hnm]
    simp only [U, v1Unsorted, hrd1, List.map_map]
    apply List.map_congr_left
    intro s hs
    simp [key s hs]

theorem rebinE_ok_of_ne (flt : List (K × K)) (hne : flt ≠ []) (nus : List K) :
    rebinE flt nus = .ok (rebin flt nus) := by
  unfold rebinE
  cases flt with
  | nil => exact absurd rfl hne
  | cons p tl => rfl

theorem ne_of_rebinE_ok (flt : List (K × K)) (nus : List K) (r : List K) (h : rebinE flt nus = .ok r) :
    flt ≠ [] := by
  intro he
  subst he
  simp [rebinE] at h

/-- **what `convolve_model_dir` wrote.**  If the convolution stage returns, every file follows the
    parameter table (stripped names), and every row is the convolution of the SED carrying its name. -/
theorem convStage_ok (tiny : K) (inp : PInput K) (convs : List (Conv K (List K)))
    (h : convStage tiny inp = .ok convs) (hN : NamesOK inp) :
    ∃ (first : RT.Sed K) (rest : List (RT.Sed K)),
      mapO (readSed tiny) inp.seds = some (first :: rest) ∧
      convs = inp.filters.map (convFile tiny (nApOf first.aps) first.aps inp) ∧
      (inp.filters ≠ [] → ∀ X ∈ tNames inp, X ∈ inp.seds.map (·.name)) ∧
      (∀ f ∈ inp.filters, held f ≠ []) := by
  unfold convStage at h
  split at h
  · simp at h
  · rename_i rd hrd
    split at h
    · simp at h
    · rename_i first' rest' hl
      split at h
      · simp at h
      · rename_i rb hrb
        have hflt : ∀ f ∈ inp.filters, held f ≠ [] := by
          intro f hf
          obtain ⟨b, hb⟩ := mapE_ok_forall _ _ _ hrb f hf
          exact ne_of_rebinE_ok _ _ _ hb
        have hrdne : ∃ first rest, rd = first :: rest ∧ first' = asSedFile first := by
          cases rd with
          | nil => simp at hl
          | cons a as => simp at hl; exact ⟨a, as, rfl, hl.1.symm⟩
        obtain ⟨first, rest, rfl, rfl⟩ := hrdne
        -- every filter's file, one at a time
        have one : ∀ f ∈ inp.filters, ∀ b,
            liftM (convolveV1 (cvOf (held f)) (ceOf (held f)) f.wav (asSedFile first :: rest')
              (inp.table.map (·.1))) = .ok b →
            b = convFile tiny (nApOf first.aps) first.aps inp f ∧
              ∀ X ∈ tNames inp, X ∈ inp.seds.map (·.name) := by
          intro f _ b hb
          have hb' := liftM_ok _ _ hb
          unfold convolveV1 at hb'
          simp only at hb'
          split at hb'
          · simp at hb'
          · rename_i c' hc'
            simp only [Except.ok.injEq] at hb'
            subst hb'
            rw [← hl] at hc'
            obtain ⟨hn, hfl, her⟩ := v1Unsorted_labelled tiny inp hN f _ hrd (asSedFile first)
            obtain ⟨hfl', her'⟩ := sortToMatch_labelled _ _ _ _ _ hc' hfl her
            obtain ⟨hnames, hap, hw, -, -, hrow⟩ := C07_safety _ _ _ hc'
            have hT : c'.names = tNames inp := by
              rw [hnames]; simp [tNames, List.map_map, Function.comp_def]
            have hsub : ∀ X ∈ tNames inp, X ∈ inp.seds.map (·.name) := by
              intro X hX
              rw [← hT, hnames] at hX
              obtain ⟨i, hi, hXi⟩ := List.mem_iff_getElem.mp hX
              have hi' : i < (inp.table.map (·.1)).length := by simpa using hi
              obtain ⟨j, _, _, hj, -⟩ := hrow i hi'
              rw [hn] at hj
              have hXe : X = strip (inp.table.map (·.1))[i] := by rw [← hXi]; simp
              rw [hXe]; exact List.mem_of_getElem? hj
            refine ⟨?_, hsub⟩
            have h30 : c'.names.map take30 = c'.names := by
              conv => rhs; rw [← List.map_id c'.names]
              apply List.map_congr_left
              intro X hX
              rw [hT] at hX
              obtain ⟨s, hs, rfl⟩ := List.mem_map.mp (hsub X hX)
              simpa using (hN.2 s hs).1
            rw [hT] at h30
            simp only [Conv.written, convFile, hfl', her', hT, hap, hw, v1Unsorted, asSedFile, h30]
        have hall := mapE_ok_map _ (convFile tiny (nApOf first.aps) first.aps inp) inp.filters convs
          (fun f hf b hb => (one f hf b hb).1) h
        refine ⟨first, rest, hrd, hall, ?_, hflt⟩
        intro hne
        obtain ⟨f, fs, hf⟩ := List.exists_cons_of_ne_nil hne
        rw [hf] at h
        simp only [mapE] at h
        split at h
        · simp at h
        · rename_i b hb
          exact (one f (by simp [hf]) b hb).2

/-! ## `Models.read` -/

/-- the model row the fitter holds for the name `X`: the `log10` convolved fluxes of the SED named `X` -/
def modelOf (env : PEnv K) (inp : PInput K) (X : String) : ModelRow K :=
  ⟨X, match pick inp.seds X with
      | some s => sedLogFluxes env inp s
      | none => []⟩

/-- aperture 0 of a row is the convolved flux of the SED carrying the name -/
theorem rowOf_head (tiny : K) (nAp : Nat) (f : PFilter K) (seds : List (RT.Sed K)) (X : String)
    (s : RT.Sed K) (x : K) (hp : pick seds X = some s)
    (hx : (rowOf tiny nAp f seds X).1.head? = some x) : x = sedFlux tiny f s := by
  unfold rowOf at hx
  rw [hp] at hx
  simp only at hx
  unfold sedFlux
  cases hr : readSed tiny s with
  | none => simp [hr] at hx
  | some s' =>
    simp only [hr, convRow] at hx ⊢
    cases nAp with
    | zero => simp at hx
    | succ n =>
      rw [List.range_succ_eq_map] at hx
      simp only [List.map_cons, List.head?_cons, Option.some.injEq] at hx
      rw [← hx]; rfl

theorem rowOf_heads (tiny : K) (nAp : Nat) (f : PFilter K) (seds : List (RT.Sed K)) (X : String)
    (s : RT.Sed K) (x : K) (hp : pick seds X = some s)
    (hx : (rowOf tiny nAp f seds X).1.head? = some x) :
    (rowOf tiny nAp f seds X).1.head? = some (sedFlux tiny f s) ∧
    (rowOf tiny nAp f seds X).2.head? = some (sedVar tiny f s) := by
  have h1 := rowOf_head tiny nAp f seds X s x hp hx
  refine ⟨by rw [hx, h1], ?_⟩
  unfold rowOf at hx ⊢
  rw [hp] at hx ⊢
  simp only at hx ⊢
  unfold sedVar
  cases hr : readSed tiny s with
  | none => simp [hr] at hx
  | some s' =>
    simp only [hr, convRow] at hx ⊢
    cases nAp with
    | zero => simp at hx
    | succ n =>
      rw [List.range_succ_eq_map]
      simp only [List.map_cons, List.head?_cons]
      rfl

theorem readModels_ok (env : PEnv K) (inp : PInput K) (nAp : Nat) (aps : Option (List K))
    (models : List (ModelRow K))
    (h : readModels env.lg (inp.filters.map (convFile env.tiny nAp aps inp)) = .ok models)
    (hN : NamesOK inp) (hsub : ∀ X ∈ tNames inp, X ∈ inp.seds.map (·.name)) :
    models = (tNames inp).map (modelOf env inp) ∧
    ∀ f ∈ inp.filters, ∀ X ∈ tNames inp,
      ∃ x, (rowOf env.tiny nAp f inp.seds X).1.head? = some x ∧ 0 < x := by
  unfold readModels at h
  split at h
  · simp at h
  · rename_i last hlast
    have hlm : last ∈ inp.filters.map (convFile env.tiny nAp aps inp) := List.mem_of_getLast? hlast
    obtain ⟨fl, _, rfl⟩ := List.mem_map.mp hlm
    split at h
    · simp at h
    · rename_i cols hcols
      obtain ⟨hc1, hc2⟩ := mapO_some column0 (fun _ => ([] : List K)) _ cols hcols
      have hstrip : (convFile env.tiny nAp aps inp fl).names.map strip = tNames inp := by
        simp only [convFile]
        conv => rhs; rw [← List.map_id (tNames inp)]
        apply List.map_congr_left
        intro X hX
        obtain ⟨s, hs, rfl⟩ := List.mem_map.mp (hsub X hX)
        simpa using (hN.2 s hs).2
      simp only [hstrip] at h
      split at h
      · simp at h
      · split at h
        · simp at h
        · rename_i hshape hpos
          simp only [Except.ok.injEq] at h
          have heads : ∀ f ∈ inp.filters, ∀ X ∈ tNames inp,
              ∃ x, (rowOf env.tiny nAp f inp.seds X).1.head? = some x ∧ 0 < x := by
            intro f hf X hX
            obtain ⟨col, hcol⟩ := hc2 _ (List.mem_map.mpr ⟨f, hf, rfl⟩)
            have hcolm : col ∈ cols := by
              rw [hc1]
              refine List.mem_map.mpr ⟨convFile env.tiny nAp aps inp f, List.mem_map.mpr ⟨f, hf, rfl⟩, ?_⟩
              rw [hcol]; rfl
            unfold column0 at hcol
            obtain ⟨hk1, hk2⟩ := mapO_some List.head? (fun _ => (0 : K)) _ col hcol
            simp only [convFile] at hk1 hk2
            obtain ⟨x, hx⟩ := hk2 _ (List.mem_map.mpr ⟨X, hX, rfl⟩)
            refine ⟨x, hx, ?_⟩
            have hxm : x ∈ col := by
              rw [hk1]
              refine List.mem_map.mpr ⟨_, List.mem_map.mpr ⟨X, hX, rfl⟩, ?_⟩
              simp [hx]
            simp only [List.any_eq_true, not_exists, not_and, Bool.not_eq_eq_eq_not] at hpos
            have := hpos col hcolm x hxm
            simpa using this
          have heads' : ∀ f ∈ inp.filters, ∀ X ∈ tNames inp,
              ∃ x, (rowOf env.tiny nAp f inp.seds X).1.head? = some x :=
            fun f hf X hX => (heads f hf X hX).imp (fun _ hx => hx.1)
          refine ⟨?_, heads⟩
          rw [← h]
          apply zipIdx_map_eq_map (tNames inp)
            (fun X i => (⟨X, cols.map (fun col => env.lg (col.getD i 0))⟩ : ModelRow K)) (modelOf env inp)
          intro i hi
          obtain ⟨s, hs, hsn, hp⟩ := pick_of_name_mem inp.seds hN.1 _ (hsub _ (List.getElem_mem hi))
          simp only [modelOf, hp, sedLogFluxes, ModelRow.mk.injEq, true_and]
          rw [hc1, List.map_map, List.map_map]
          apply List.map_congr_left
          intro f hf
          simp only [Function.comp]
          congr 1
          obtain ⟨col, hcol⟩ := hc2 _ (List.mem_map.mpr ⟨f, hf, rfl⟩)
          rw [hcol, Option.getD_some]
          unfold column0 at hcol
          obtain ⟨hk1, hk2⟩ := mapO_some List.head? (fun _ => (0 : K)) _ col hcol
          simp only [convFile] at hk1 hk2
          obtain ⟨x, hx⟩ := hk2 _ (List.mem_map.mpr ⟨(tNames inp)[i], List.getElem_mem hi, rfl⟩)
          rw [hk1]
          simp only [List.map_map, List.getD_eq_getElem?_getD, List.getElem?_map,
            List.getElem?_eq_getElem hi, Option.map_some, Option.getD_some, Function.comp, hx]
          exact rowOf_head env.tiny nAp f inp.seds _ s x hp hx

theorem ksOf_convFile (inp : PInput K) (tiny : K) (nAp : Nat) (aps : Option (List K)) :
    ksOf inp (inp.filters.map (convFile tiny nAp aps inp)) = ksIn inp := by
  simp [ksOf, ksIn, convFile, List.map_map, Function.comp_def]

/-! ## `Models.fit` + `FitInfo.sort` + `keep` -/

theorem fit2Full_eq (big : K) (ln1m : K → K) (lo hi : K) (ps : List (Pt K)) :
    fit2Full big ln1m lo hi ps
      = ((fit2 lo hi ps).1, (fit2 lo hi ps).2, chi2 big ln1m (fit2 lo hi ps).1 (fit2 lo hi ps).2 ps) := by
  unfold fit2Full
  generalize fit2 lo hi ps = AS
  obtain ⟨A, S⟩ := AS
  rfl

theorem rowAt_some (x : FitRows K) (i : Nat) (r : Row K) (h : rowAt x i = some r) :
    x.av[i]? = some r.av ∧ x.sc[i]? = some r.sc ∧ x.chi2[i]? = some r.chi2 ∧ x.name[i]? = some r.name := by
  unfold rowAt at h
  split at h
  · rename_i a s c nm ha hs hc hn
    split at h
    · simp only [Option.some.injEq] at h; subst h; exact ⟨ha, hs, hc, hn⟩
    · split at h
      · simp only [Option.some.injEq] at h; subst h; exact ⟨ha, hs, hc, hn⟩
      · simp at h
  · simp at h

theorem unsorted_wf (big : K) (ln1m : K → K) (lo hi : K) (lobs : List (LogObs K)) (ks : List K)
    (models : List (ModelRow K)) :
    WFRows (fitRowsUnsorted2 big ln1m lo hi lobs ks models) ∧
    (fitRowsUnsorted2 big ln1m lo hi lobs ks models).chi2.length = models.length := by
  refine ⟨⟨by simp [fitRowsUnsorted2], by simp [fitRowsUnsorted2], by simp [fitRowsUnsorted2], ?_⟩,
    by simp [fitRowsUnsorted2]⟩
  intro fl hfl
  simp [fitRowsUnsorted2] at hfl
  subst hfl
  simp [fitRowsUnsorted2]

/-- the ranked result of one source: well-formed, ranked, one entry per model -/
theorem rank_wf (env : PEnv K) (lo hi : K) (ks : List K) (models : List (ModelRow K)) (bands : List (Obs K)) :
    WFInfo (rankSource env lo hi ks models bands) ∧ Ranked (rankSource env lo hi ks models bands).chi2 ∧
    (rankSource env lo hi ks models bands).chi2.length = models.length := by
  unfold rankSource fitRows2
  obtain ⟨hwf, hlen⟩ := unsorted_wf env.big env.ln1m lo hi (bands.map (logTransform env.lg env.ln10)) ks models
  obtain ⟨h1, h2⟩ := (C05_domain _).1 hwf
  refine ⟨h1, h2, ?_⟩
  rw [← hlen]
  simp [sortRows, fancyIndex_length, argsortEF_length]

/-- row `i` of the ranked result is one model of the list, with that model's own fit -/
theorem rank_row (env : PEnv K) (lo hi : K) (ks : List K) (models : List (ModelRow K)) (bands : List (Obs K))
    (i : Nat) (hi' : i < models.length) :
    ∃ md ∈ models,
      (rankSource env lo hi ks models bands).name[i]? = some md.name ∧
      (rankSource env lo hi ks models bands).av[i]?
        = some (fit2Full env.big env.ln1m lo hi (mkPts (bands.map (logTransform env.lg env.ln10)) md.mf ks)).1 ∧
      (rankSource env lo hi ks models bands).sc[i]?
        = some (fit2Full env.big env.ln1m lo hi (mkPts (bands.map (logTransform env.lg env.ln10)) md.mf ks)).2.1 ∧
      (rankSource env lo hi ks models bands).chi2[i]?
        = some (EF.fin (fit2Full env.big env.ln1m lo hi (mkPts (bands.map (logTransform env.lg env.ln10)) md.mf ks)).2.2) := by
  obtain ⟨m, md, -, hmd, hrow⟩ := C04_fit_rows env.big env.ln1m lo hi
    (bands.map (logTransform env.lg env.ln10)) ks models i hi'
  obtain ⟨h1, h2, h3, h4⟩ := rowAt_some _ _ _ hrow
  refine ⟨md, List.mem_of_getElem? hmd, h4, ?_, ?_, ?_⟩
  · rw [fit2Full_eq]; exact h1
  · rw [fit2Full_eq]; exact h2
  · rw [fit2Full_eq]; exact h3

/-- the arrays `write_parameters` prints from: the ranked arrays cut twice -/
def keptOf (env : PEnv K) (inp : PInput K) (ks : List K) (models : List (ModelRow K))
    (bands : List (Obs K)) : FitRows K :=
  keepSrc inp.selOut (flagsOf bands) (fitSource env inp.lo inp.hi ks models inp.selFit bands)

/-- number of rows that survive `output_format` and then `select_format` -/
def nKept (env : PEnv K) (inp : PInput K) (ks : List K) (models : List (ModelRow K))
    (bands : List (Obs K)) : Nat :=
  let r := rankSource env inp.lo inp.hi ks models bands
  let n1 := nFits inp.selFit (nDataSrc (flagsOf bands)) r.chi2
  min (nFits inp.selOut (nDataSrc (flagsOf bands)) (r.chi2.take n1)) n1

theorem keptOf_arrays (env : PEnv K) (inp : PInput K) (ks : List K) (models : List (ModelRow K))
    (bands : List (Obs K)) :
    let r := rankSource env inp.lo inp.hi ks models bands
    let n := nKept env inp ks models bands
    (keptOf env inp ks models bands).name = r.name.take n ∧
    (keptOf env inp ks models bands).chi2 = r.chi2.take n ∧
    (keptOf env inp ks models bands).av = r.av.take n ∧
    (keptOf env inp ks models bands).sc = r.sc.take n := by
  simp [keptOf, fitSource, keepSrc, keep, nKept, List.take_take]

/-! ## the print loop -/

theorem mkRows_getElem? : ∀ (ns : List String) (i0 j : Nat) (cs : List (EF K)) (as ss : List K)
    (ts : List (String × List K × List K)),
    (mkRows i0 ns cs as ss ts)[j]? =
      (ns[j]?).bind (fun n => (cs[j]?).bind (fun c => (as[j]?).bind (fun a => (ss[j]?).bind (fun s =>
        (ts[j]?).map (fun t => (⟨i0 + j + 1, n, c, a, s, t.2.1 ++ t.2.2⟩ : ListRow K))))))
  | [], i0, j, cs, as, ss, ts => by simp [mkRows]
  | n :: ns, i0, j, [], as, ss, ts => by simp [mkRows]
  | n :: ns, i0, j, c :: cs, [], ss, ts => by simp [mkRows]
  | n :: ns, i0, j, c :: cs, a :: as, [], ts => by simp [mkRows]
  | n :: ns, i0, j, c :: cs, a :: as, s :: ss, [] => by simp [mkRows]
  | n :: ns, i0, 0, c :: cs, a :: as, s :: ss, t :: ts => by simp [mkRows]
  | n :: ns, i0, j + 1, c :: cs, a :: as, s :: ss, t :: ts => by
    simp only [mkRows, List.getElem?_cons_succ]
    rw [mkRows_getElem? ns (i0 + 1) j cs as ss ts]
    have : i0 + 1 + j + 1 = i0 + (j + 1) + 1 := by omega
    simp only [this]

theorem mkRows_length : ∀ (ns : List String) (i0 : Nat) (cs : List (EF K)) (as ss : List K)
    (ts : List (String × List K × List K)) (n : Nat), ns.length = n → cs.length = n → as.length = n →
    ss.length = n → ts.length = n → (mkRows i0 ns cs as ss ts).length = n
  | [], i0, cs, as, ss, ts, n, h1, _, _, _, _ => by simp at h1; subst h1; simp [mkRows]
  | x :: ns, i0, [], as, ss, ts, n, h1, h2, _, _, _ => by simp at h1 h2; omega
  | x :: ns, i0, c :: cs, [], ss, ts, n, h1, _, h3, _, _ => by simp at h1 h3; omega
  | x :: ns, i0, c :: cs, a :: as, [], ts, n, h1, _, _, h4, _ => by simp at h1 h4; omega
  | x :: ns, i0, c :: cs, a :: as, s :: ss, [], n, h1, _, _, _, h5 => by simp at h1 h5; omega
  | x :: ns, i0, c :: cs, a :: as, s :: ss, t :: ts, n, h1, h2, h3, h4, h5 => by
    cases n with
    | zero => simp at h1
    | succ n =>
      simp only [List.length_cons, Nat.add_right_cancel_iff] at h1 h2 h3 h4 h5
      simp [mkRows, mkRows_length ns (i0 + 1) cs as ss ts n h1 h2 h3 h4 h5]

theorem mkRows_maps : ∀ (ns : List String) (i0 : Nat) (cs : List (EF K)) (as ss : List K)
    (ts : List (String × List K × List K)) (n : Nat), ns.length = n → cs.length = n → as.length = n →
    ss.length = n → ts.length = n →
    (mkRows i0 ns cs as ss ts).map (·.name) = ns ∧ (mkRows i0 ns cs as ss ts).map (·.chi2) = cs ∧
    (mkRows i0 ns cs as ss ts).map (·.av) = as ∧ (mkRows i0 ns cs as ss ts).map (·.sc) = ss ∧
    (mkRows i0 ns cs as ss ts).map (·.fitId) = (List.range n).map (fun j => i0 + j + 1) ∧
    (mkRows i0 ns cs as ss ts).map (·.pars) = ts.map (fun t => t.2.1 ++ t.2.2)
  | [], i0, cs, as, ss, ts, n, h1, h2, h3, h4, h5 => by
    simp at h1; subst h1
    simp only [List.length_eq_zero_iff] at h2 h3 h4 h5
    subst h2; subst h3; subst h4; subst h5
    simp [mkRows]
  | x :: ns, i0, [], as, ss, ts, n, h1, h2, _, _, _ => by simp at h1 h2; omega
  | x :: ns, i0, c :: cs, [], ss, ts, n, h1, _, h3, _, _ => by simp at h1 h3; omega
  | x :: ns, i0, c :: cs, a :: as, [], ts, n, h1, _, _, h4, _ => by simp at h1 h4; omega
  | x :: ns, i0, c :: cs, a :: as, s :: ss, [], n, h1, _, _, _, h5 => by simp at h1 h5; omega
  | x :: ns, i0, c :: cs, a :: as, s :: ss, t :: ts, n, h1, h2, h3, h4, h5 => by
    cases n with
    | zero => simp at h1
    | succ n =>
      simp only [List.length_cons, Nat.add_right_cancel_iff] at h1 h2 h3 h4 h5
      obtain ⟨g1, g2, g3, g4, g5, g6⟩ := mkRows_maps ns (i0 + 1) cs as ss ts n h1 h2 h3 h4 h5
      refine ⟨by simp [mkRows, g1], by simp [mkRows, g2], by simp [mkRows, g3], by simp [mkRows, g4], ?_,
        by simp [mkRows, g6]⟩
      rw [List.range_succ_eq_map]
      simp only [mkRows, List.map_cons, g5, List.map_map, Nat.add_zero]
      congr 1
      apply List.map_congr_left
      intro j _
      simp only [Function.comp]
      omega

/-! ## `write_parameters` for one record -/

theorem listing_ok (table : List (String × List K)) (mn : List String)
    (r : List (String × List K × List K)) (h : listing (K := K) table mn [] = .ok r)
    (hnd : (table.map (fun y => strip y.1)).Nodup) :
    r.map (·.1) = mn ∧
    ∀ x ∈ r, x.2.2 = [] ∧ (∃ y ∈ table, strip y.1 = x.1 ∧ y.2 = x.2.1) ∧
      (∀ y ∈ table, strip y.1 = x.1 → y.2 = x.2.1) := by
  unfold listing at h
  obtain ⟨h1, h2, h3⟩ := C09_safety _ _ _ _ h
  have hnd' : ((prepTable table).map (·.1)).Nodup := (prepTable_names_perm table).nodup_iff.mpr hnd
  refine ⟨h1, fun x hx => ⟨?_, ?_, ?_⟩⟩
  · have := h3 x hx
    simpa using this.symm
  · have := (prepTable_perm table).mem_iff.mp (h2 x hx)
    obtain ⟨y, hy, hyx⟩ := List.mem_map.mp this
    simp only [Prod.mk.injEq] at hyx
    exact ⟨y, hy, hyx.1, hyx.2⟩
  · intro y hy hyx
    have hy' : (strip y.1, y.2) ∈ prepTable table :=
      (prepTable_perm table).mem_iff.mpr (List.mem_map.mpr ⟨y, hy, rfl⟩)
    exact C09_safety_nodup _ _ _ _ h hnd' x hx (strip y.1, y.2) hy' hyx

theorem listSource_ok (table : List (String × List K)) (selOut : Sel K) (src : String × List (Obs K))
    (info : FitRows K) (L : SrcListing K) (h : listSource table selOut src info = .ok L) :
    ∃ tsorted, listing (K := K) table (keepSrc selOut (flagsOf src.2) info).name [] = .ok tsorted ∧
      L.source = src.1 ∧ L.nData = nDataSrc (flagsOf src.2) ∧
      L.nFits = (keepSrc selOut (flagsOf src.2) info).chi2.length ∧
      L.rows = mkRows 0 (keepSrc selOut (flagsOf src.2) info).name (keepSrc selOut (flagsOf src.2) info).chi2
        (keepSrc selOut (flagsOf src.2) info).av (keepSrc selOut (flagsOf src.2) info).sc tsorted := by
  unfold listSource at h
  simp only at h
  split at h
  · simp at h
  · rename_i ts hts
    simp only [Except.ok.injEq] at h
    subst h
    exact ⟨ts, hts, rfl, rfl, rfl, rfl⟩

/-! ## the whole pipeline, stage by stage -/

/-- the model list the fitter holds, as a function of the inputs -/
def modelsOf (env : PEnv K) (inp : PInput K) : List (ModelRow K) := (tNames inp).map (modelOf env inp)

/-- the record `fit()` writes for one source, as a function of the inputs -/
def recordOf (env : PEnv K) (inp : PInput K) (bands : List (Obs K)) : FitRows K :=
  fitSource env inp.lo inp.hi (ksIn inp) (modelsOf env inp) inp.selFit bands

theorem runPipeline_ok (env : PEnv K) (inp : PInput K) (out : POut K)
    (h : runPipeline env inp = .ok out) (hN : NamesOK inp) :
    ∃ (first : RT.Sed K) (rest : List (RT.Sed K)),
      mapO (readSed env.tiny) inp.seds = some (first :: rest) ∧
      (∀ X ∈ tNames inp, X ∈ inp.seds.map (·.name)) ∧
      (∀ f ∈ inp.filters, ∀ X ∈ tNames inp,
        ∃ x, (rowOf env.tiny (nApOf first.aps) f inp.seds X).1.head? = some x ∧ 0 < x) ∧
      inp.filters ≠ [] ∧ (∀ f ∈ inp.filters, held f ≠ []) ∧
      out.conv = inp.filters.map (convFile env.tiny (nApOf first.aps) first.aps inp) ∧
      out.fits = (fittedSources inp).map (fun s => recordOf env inp s.2) ∧
      mapE (fun s => listSource inp.table inp.selOut s (recordOf env inp s.2)) (fittedSources inp)
        = .ok out.listings := by
  unfold runPipeline at h
  split at h
  · simp at h
  · rename_i convs hconvs
    obtain ⟨first, rest, hrd, hcv, hsub, hflt⟩ := convStage_ok env.tiny inp convs hconvs hN
    split at h
    · simp at h
    · rename_i models hmodels
      have hne : inp.filters ≠ [] := by
        intro he
        rw [hcv, he] at hmodels
        simp [readModels] at hmodels
      rw [hcv] at hmodels
      obtain ⟨hm, hheads⟩ := readModels_ok env inp _ _ models hmodels hN (hsub hne)
      rw [hcv, ksOf_convFile] at h
      subst hm
      simp only at h
      split at h
      · simp at h
      · rename_i ls hls
        simp only [Except.ok.injEq] at h
        subst h
        exact ⟨first, rest, hrd, hsub hne, hheads, hne, hflt, rfl, rfl, hls⟩

/-- one block of the listing, in terms of the complete ranking of its source -/
theorem listing_block (env : PEnv K) (inp : PInput K) (out : POut K)
    (h : runPipeline env inp = .ok out) (hN : NamesOK inp)
    (k : Nat) (src : String × List (Obs K)) (L : SrcListing K)
    (hsrc : (fittedSources inp)[k]? = some src) (hL : out.listings[k]? = some L) :
    ∃ ts, listing (K := K) inp.table
        ((rankSource env inp.lo inp.hi (ksIn inp) (modelsOf env inp) src.2).name.take
          (nKept env inp (ksIn inp) (modelsOf env inp) src.2)) [] = .ok ts ∧
      L.source = src.1 ∧ L.nData = nDataSrc (flagsOf src.2) ∧
      L.nFits = ((rankSource env inp.lo inp.hi (ksIn inp) (modelsOf env inp) src.2).chi2.take
          (nKept env inp (ksIn inp) (modelsOf env inp) src.2)).length ∧
      L.rows = mkRows 0
        ((rankSource env inp.lo inp.hi (ksIn inp) (modelsOf env inp) src.2).name.take
          (nKept env inp (ksIn inp) (modelsOf env inp) src.2))
        ((rankSource env inp.lo inp.hi (ksIn inp) (modelsOf env inp) src.2).chi2.take
          (nKept env inp (ksIn inp) (modelsOf env inp) src.2))
        ((rankSource env inp.lo inp.hi (ksIn inp) (modelsOf env inp) src.2).av.take
          (nKept env inp (ksIn inp) (modelsOf env inp) src.2))
        ((rankSource env inp.lo inp.hi (ksIn inp) (modelsOf env inp) src.2).sc.take
          (nKept env inp (ksIn inp) (modelsOf env inp) src.2)) ts := by
  obtain ⟨first, rest, hrd, hsub, hheads, -, -, hconv, -, hls⟩ := runPipeline_ok env inp out h hN
  obtain ⟨hlen, hget⟩ := mapE_getElem? _ _ _ hls
  have hLs := hget k src L hsrc hL
  obtain ⟨ts, hts, hsource, hnd, hnf, hrows⟩ := listSource_ok _ _ _ _ _ hLs
  obtain ⟨hkn, hkc, hka, hks⟩ := keptOf_arrays env inp (ksIn inp) (modelsOf env inp) src.2
  simp only [keptOf] at hkn hkc hka hks
  change (keepSrc inp.selOut (flagsOf src.2) (recordOf env inp src.2)).name = _ at hkn
  change (keepSrc inp.selOut (flagsOf src.2) (recordOf env inp src.2)).chi2 = _ at hkc
  change (keepSrc inp.selOut (flagsOf src.2) (recordOf env inp src.2)).av = _ at hka
  change (keepSrc inp.selOut (flagsOf src.2) (recordOf env inp src.2)).sc = _ at hks
  rw [hkn] at hts
  rw [hkn, hkc, hka, hks] at hrows
  rw [hkc] at hnf
  exact ⟨ts, hts, hsource, hnd, hnf, hrows⟩

/-- the names of the complete ranking are the table's names, each exactly once -/
theorem rank_names_perm (env : PEnv K) (inp : PInput K) (bands : List (Obs K)) :
    (rankSource env inp.lo inp.hi (ksIn inp) (modelsOf env inp) bands).name.Perm (tNames inp) := by
  unfold rankSource fitRows2
  obtain ⟨hwf, -⟩ := unsorted_wf env.big env.ln1m inp.lo inp.hi (bands.map (logTransform env.lg env.ln10))
    (ksIn inp) (modelsOf env inp)
  have := (C04_perm _ hwf).2.2.1
  refine this.trans ?_
  simp [fitRowsUnsorted2, modelsOf, List.map_map, Function.comp_def, modelOf]

/-- every chi² of the ranking is a finite number -/
theorem rank_chi2_fin (env : PEnv K) (lo hi : K) (ks : List K) (models : List (ModelRow K))
    (bands : List (Obs K)) : ∀ c ∈ (rankSource env lo hi ks models bands).chi2, ∃ x, c = EF.fin x := by
  intro c hc
  obtain ⟨i, hi', rfl⟩ := List.getElem_of_mem hc
  have hlen := (rank_wf env lo hi ks models bands).2.2
  obtain ⟨md, -, -, -, -, rc⟩ := rank_row env lo hi ks models bands i (by omega)
  rw [List.getElem?_eq_getElem hi'] at rc
  simp only [Option.some.injEq] at rc
  exact ⟨_, rc⟩

/-- the chi² of every SED object that has a parameter row appears in the complete ranking -/
theorem rank_chi2_mem (env : PEnv K) (inp : PInput K) (hN : NamesOK inp) (bands : List (Obs K))
    (s : RT.Sed K) (hs : s ∈ inp.seds) (hsT : s.name ∈ tNames inp) :
    EF.fin (sedFit env inp bands s).2.2
      ∈ (rankSource env inp.lo inp.hi (ksIn inp) (modelsOf env inp) bands).chi2 := by
  unfold rankSource fitRows2
  obtain ⟨hwf, -⟩ := unsorted_wf env.big env.ln1m inp.lo inp.hi (bands.map (logTransform env.lg env.ln10))
    (ksIn inp) (modelsOf env inp)
  refine ((C04_perm _ hwf).2.2.2.1).mem_iff.mpr ?_
  simp only [fitRowsUnsorted2, modelsOf, List.map_map, List.mem_map, Function.comp]
  refine ⟨s.name, hsT, ?_⟩
  simp [modelOf, pick_of_mem inp.seds hN.1 s hs, sedFit, sedPts]

/-! ## ranking does not depend on the order of the model list (tie-free chi²) -/

/-- one model's entry in the four per-fit arrays a listing is printed from -/
def tupOf (big : K) (ln1m : K → K) (lo hi : K) (lobs : List (LogObs K)) (ks : List K) (md : ModelRow K) :
    EF K × String × K × K :=
  (EF.fin (fit2Full big ln1m lo hi (mkPts lobs md.mf ks)).2.2, md.name,
   (fit2Full big ln1m lo hi (mkPts lobs md.mf ks)).1, (fit2Full big ln1m lo hi (mkPts lobs md.mf ks)).2.1)

/-- the ranked arrays, zipped: position `i` of `chi2 / name / av / sc` after `FitInfo.sort` -/
def sortedTups (big : K) (ln1m : K → K) (lo hi : K) (lobs : List (LogObs K)) (ks : List K)
    (models : List (ModelRow K)) : List (EF K × String × K × K) :=
  let x := fitRowsUnsorted2 big ln1m lo hi lobs ks models
  (argsortEF x.chi2).map (fun i => (x.chi2.getD i EF.nan, x.name.getD i "", x.av.getD i 0, x.sc.getD i 0))

theorem fitRows2_cols (big : K) (ln1m : K → K) (lo hi : K) (lobs : List (LogObs K)) (ks : List K)
    (models : List (ModelRow K)) :
    (fitRows2 big ln1m lo hi lobs ks models).chi2 = (sortedTups big ln1m lo hi lobs ks models).map (·.1) ∧
    (fitRows2 big ln1m lo hi lobs ks models).name = (sortedTups big ln1m lo hi lobs ks models).map (·.2.1) ∧
    (fitRows2 big ln1m lo hi lobs ks models).av = (sortedTups big ln1m lo hi lobs ks models).map (·.2.2.1) ∧
    (fitRows2 big ln1m lo hi lobs ks models).sc = (sortedTups big ln1m lo hi lobs ks models).map (·.2.2.2) := by
  simp [fitRows2, sortRows, sortedTups, fancyIndex, List.map_map, Function.comp_def]

theorem sortedTups_perm (big : K) (ln1m : K → K) (lo hi : K) (lobs : List (LogObs K)) (ks : List K)
    (models : List (ModelRow K)) :
    (sortedTups big ln1m lo hi lobs ks models).Perm (models.map (tupOf big ln1m lo hi lobs ks)) := by
  unfold sortedTups
  simp only
  have hlen : (fitRowsUnsorted2 big ln1m lo hi lobs ks models).chi2.length = models.length := by
    simp [fitRowsUnsorted2]
  have hp := (argsortEF_perm (fitRowsUnsorted2 big ln1m lo hi lobs ks models).chi2).map
    (fun i => ((fitRowsUnsorted2 big ln1m lo hi lobs ks models).chi2.getD i EF.nan,
      (fitRowsUnsorted2 big ln1m lo hi lobs ks models).name.getD i "",
      (fitRowsUnsorted2 big ln1m lo hi lobs ks models).av.getD i 0,
      (fitRowsUnsorted2 big ln1m lo hi lobs ks models).sc.getD i 0))
  refine hp.trans (List.Perm.of_eq ?_)
  rw [hlen]
  apply List.ext_getElem
  · simp
  · intro i h1 h2
    simp at h1
    simp [fitRowsUnsorted2, tupOf, List.getD_eq_getElem?_getD, List.getElem?_eq_getElem h1]

theorem sortedTups_sorted (big : K) (ln1m : K → K) (lo hi : K) (lobs : List (LogObs K)) (ks : List K)
    (models : List (ModelRow K)) :
    (sortedTups big ln1m lo hi lobs ks models).Pairwise (fun a b => EF.leSort a.1 b.1 = true) := by
  have := argsortEF_sorted (fitRowsUnsorted2 big ln1m lo hi lobs ks models).chi2
  rw [List.pairwise_map] at this
  unfold sortedTups
  simp only
  rw [List.pairwise_map]
  exact this

/-- with pairwise different chi², the ranked arrays are the same for every order of the model list -/
theorem fitRows2_perm_invariant (big : K) (ln1m : K → K) (lo hi : K) (lobs : List (LogObs K)) (ks : List K)
    (models models' : List (ModelRow K)) (hp : models.Perm models')
    (hkey : ∀ a ∈ models, ∀ b ∈ models,
      (fit2Full big ln1m lo hi (mkPts lobs a.mf ks)).2.2 = (fit2Full big ln1m lo hi (mkPts lobs b.mf ks)).2.2 →
      a = b) :
    (fitRows2 big ln1m lo hi lobs ks models').chi2 = (fitRows2 big ln1m lo hi lobs ks models).chi2 ∧
    (fitRows2 big ln1m lo hi lobs ks models').name = (fitRows2 big ln1m lo hi lobs ks models).name ∧
    (fitRows2 big ln1m lo hi lobs ks models').av = (fitRows2 big ln1m lo hi lobs ks models).av ∧
    (fitRows2 big ln1m lo hi lobs ks models').sc = (fitRows2 big ln1m lo hi lobs ks models).sc := by
  have hperm : (sortedTups big ln1m lo hi lobs ks models').Perm (sortedTups big ln1m lo hi lobs ks models) :=
    (sortedTups_perm big ln1m lo hi lobs ks models').trans
      (((hp.map _).symm).trans (sortedTups_perm big ln1m lo hi lobs ks models).symm)
  have heq : sortedTups big ln1m lo hi lobs ks models' = sortedTups big ln1m lo hi lobs ks models := by
    refine hperm.eq_of_pairwise ?_ (sortedTups_sorted big ln1m lo hi lobs ks models')
      (sortedTups_sorted big ln1m lo hi lobs ks models)
    intro a b ha hb hab hba
    have ha' := (hperm.trans (sortedTups_perm big ln1m lo hi lobs ks models)).mem_iff.mp ha
    have hb' := (sortedTups_perm big ln1m lo hi lobs ks models).mem_iff.mp hb
    obtain ⟨ma, hma, rfl⟩ := List.mem_map.mp ha'
    obtain ⟨mb, hmb, rfl⟩ := List.mem_map.mp hb'
    simp only [tupOf, EF.leSort, decide_eq_true_eq] at hab hba
    rw [hkey ma hma mb hmb (le_antisymm hab hba)]
  obtain ⟨a1, a2, a3, a4⟩ := fitRows2_cols big ln1m lo hi lobs ks models
  obtain ⟨b1, b2, b3, b4⟩ := fitRows2_cols big ln1m lo hi lobs ks models'
  rw [a1, a2, a3, a4, b1, b2, b3, b4, heq]
  exact ⟨rfl, rfl, rfl, rfl⟩

/-! ## liveness of the stages (used for order invariance) -/

/-- the convolution stage returns when the table's names are the SED names (any two orders), every SED
    file can be written and read, and no filter is empty -/
theorem convStage_live (tiny : K) (inp : PInput K) (hN : NamesOK inp)
    (hcover : (tNames inp).Perm (inp.seds.map (·.name)))
    (first : RT.Sed K) (rest : List (RT.Sed K))
    (hrd : mapO (readSed tiny) inp.seds = some (first :: rest))
    (hflt : ∀ f ∈ inp.filters, held f ≠ []) :
    ∃ convs, convStage tiny inp = .ok convs := by
  unfold convStage
  rw [hrd]
  simp only [List.map_cons]
  rw [mapE_of_forall _ (fun f => rebin (held f) ((asSedFile first).sed 0).val.1) inp.filters
    (fun f hf => rebinE_ok_of_ne _ (hflt f hf) _)]
  simp only
  apply mapE_exists
  intro f _
  obtain ⟨hn, hfl, her⟩ := v1Unsorted_labelled tiny inp hN f _ hrd (asSedFile first)
  simp only [List.map_cons] at hn hfl her
  obtain ⟨c', hc', -⟩ := C07_liveness
    (v1Unsorted (cvOf (held f)) (ceOf (held f)) f.wav (asSedFile first) (asSedFile first :: rest.map asSedFile))
    (inp.table.map (·.1))
    (by rw [hn]; refine hcover.symm.trans (List.Perm.of_eq ?_); simp [tNames, List.map_map, Function.comp_def])
    (by rw [hfl]; simp) (by rw [her]; simp)
  exact ⟨c'.written, by simp [convolveV1, hc', liftM]⟩

/-- `Models.read` returns when there is a filter and every row's aperture-0 flux exists and is positive -/
theorem readModels_live (env : PEnv K) (inp : PInput K) (nAp : Nat) (aps : Option (List K))
    (hne : inp.filters ≠ [])
    (hheads : ∀ f ∈ inp.filters, ∀ X ∈ tNames inp,
      ∃ x, (rowOf env.tiny nAp f inp.seds X).1.head? = some x ∧ 0 < x) :
    ∃ models, readModels env.lg (inp.filters.map (convFile env.tiny nAp aps inp)) = .ok models := by
  unfold readModels
  cases hlast : (inp.filters.map (convFile env.tiny nAp aps inp)).getLast? with
  | none =>
    rw [List.getLast?_eq_none_iff] at hlast
    simp at hlast
    exact absurd hlast hne
  | some last =>
    obtain ⟨fl, _, rfl⟩ := List.mem_map.mp (List.mem_of_getLast? hlast)
    have hcol : ∀ c ∈ inp.filters.map (convFile env.tiny nAp aps inp),
        column0 c = some (c.flux.map (fun r => r.head?.getD 0)) := by
      intro c hc
      obtain ⟨f, hf, rfl⟩ := List.mem_map.mp hc
      unfold column0
      apply mapO_of_forall
      intro r hr
      simp only [convFile] at hr
      obtain ⟨X, hX, rfl⟩ := List.mem_map.mp hr
      obtain ⟨x, hx, -⟩ := hheads f hf X hX
      simp [hx]
    rw [mapO_of_forall column0 _ _ hcol]
    simp only
    rw [if_neg, if_neg]
    · exact ⟨_, rfl⟩
    · simp only [List.any_eq_true, not_exists, not_and, Bool.not_eq_eq_eq_not]
      intro col hcolm x hx
      obtain ⟨c, hc, rfl⟩ := List.mem_map.mp hcolm
      obtain ⟨f, hf, rfl⟩ := List.mem_map.mp hc
      simp only [convFile, List.map_map, List.mem_map, Function.comp] at hx
      obtain ⟨X, hX, rfl⟩ := hx
      obtain ⟨x, hx, hpos⟩ := hheads f hf X hX
      simp [hx, hpos]
    · simp only [List.any_eq_true, not_exists, not_and]
      intro col hcolm
      obtain ⟨c, hc, rfl⟩ := List.mem_map.mp hcolm
      obtain ⟨f, hf, rfl⟩ := List.mem_map.mp hc
      simp [convFile]

/-! ## the same package in another order -/

/-- the pipeline input with the SED files listed in another order and the parameter rows in another order -/
def reorder (inp : PInput K) (seds' : List (RT.Sed K)) (table' : List (String × List K)) : PInput K :=
  { inp with seds := seds', table := table' }

theorem first_aps (tiny : K) (seds : List (RT.Sed K)) (first : RT.Sed K) (rest : List (RT.Sed K))
    (hrd : mapO (readSed tiny) seds = some (first :: rest)) (aps : Option (List K))
    (haps : ∀ s ∈ seds, s.aps = aps) : first.aps = some (aps.getD [tiny]) := by
  cases seds with
  | nil => simp [mapO] at hrd
  | cons s0 ss =>
    simp only [mapO] at hrd
    split at hrd
    · rename_i b bs hb hbs
      simp only [Option.some.injEq, List.cons.injEq] at hrd
      rw [← hrd.1, (readSed_name tiny s0 b hb).2, haps s0 (by simp)]
    · simp at hrd

theorem rowOf_perm (tiny : K) (nAp : Nat) (f : PFilter K) {seds seds' : List (RT.Sed K)}
    (hp : seds'.Perm seds) (hnd : (seds.map (·.name)).Nodup) (X : String) :
    rowOf tiny nAp f seds' X = rowOf tiny nAp f seds X := by
  unfold rowOf
  rw [pick_perm hp.symm hnd X]

theorem modelOf_reorder (env : PEnv K) (inp : PInput K) (seds' : List (RT.Sed K))
    (table' : List (String × List K)) (hp : seds'.Perm inp.seds) (hnd : (inp.seds.map (·.name)).Nodup)
    (X : String) : modelOf env (reorder inp seds' table') X = modelOf env inp X := by
  unfold modelOf
  have : pick (reorder inp seds' table').seds X = pick inp.seds X := pick_perm hp.symm hnd X
  rw [this]
  rfl

theorem listSource_congr (table : List (String × List K)) (sel : Sel K) (src : String × List (Obs K))
    (info info' : FitRows K) (h1 : info'.name = info.name) (h2 : info'.chi2 = info.chi2)
    (h3 : info'.av = info.av) (h4 : info'.sc = info.sc) :
    listSource table sel src info' = listSource table sel src info := by
  simp [listSource, keepSrc, keep, h1, h2, h3, h4]

theorem fitSource_congr (env : PEnv K) (lo hi : K) (ks : List K) (models models' : List (ModelRow K))
    (sel : Sel K) (bands : List (Obs K))
    (h : (rankSource env lo hi ks models' bands).chi2 = (rankSource env lo hi ks models bands).chi2 ∧
      (rankSource env lo hi ks models' bands).name = (rankSource env lo hi ks models bands).name ∧
      (rankSource env lo hi ks models' bands).av = (rankSource env lo hi ks models bands).av ∧
      (rankSource env lo hi ks models' bands).sc = (rankSource env lo hi ks models bands).sc) :
    (fitSource env lo hi ks models' sel bands).name = (fitSource env lo hi ks models sel bands).name ∧
    (fitSource env lo hi ks models' sel bands).chi2 = (fitSource env lo hi ks models sel bands).chi2 ∧
    (fitSource env lo hi ks models' sel bands).av = (fitSource env lo hi ks models sel bands).av ∧
    (fitSource env lo hi ks models' sel bands).sc = (fitSource env lo hi ks models sel bands).sc := by
  obtain ⟨h1, h2, h3, h4⟩ := h
  simp [fitSource, keepSrc, keep, h1, h2, h3, h4]

theorem listing_perm (table table' : List (String × List K)) (hp : table'.Perm table)
    (hnd : (table.map (fun y => strip y.1)).Nodup) (mn : List String) :
    listing (K := K) table' mn [] = listing (K := K) table mn [] := by
  unfold listing
  rw [prepTable_eq_of_perm table table' hp.symm hnd]

/-- distinct chi² over the SED objects ⇒ distinct chi² over the model rows the fitter holds -/
theorem modelsOf_key (env : PEnv K) (inp : PInput K) (hN : NamesOK inp)
    (hsub : ∀ X ∈ tNames inp, X ∈ inp.seds.map (·.name)) (bands : List (Obs K))
    (htie : (inp.seds.map (fun s => (sedFit env inp bands s).2.2)).Nodup) :
    ∀ a ∈ modelsOf env inp, ∀ b ∈ modelsOf env inp,
      (fit2Full env.big env.ln1m inp.lo inp.hi (mkPts (bands.map (logTransform env.lg env.ln10)) a.mf (ksIn inp))).2.2
        = (fit2Full env.big env.ln1m inp.lo inp.hi (mkPts (bands.map (logTransform env.lg env.ln10)) b.mf (ksIn inp))).2.2 →
      a = b := by
  intro a ha b hb hab
  obtain ⟨X, hX, rfl⟩ := List.mem_map.mp ha
  obtain ⟨Y, hY, rfl⟩ := List.mem_map.mp hb
  obtain ⟨sX, hsX, hnX, hpX⟩ := pick_of_name_mem inp.seds hN.1 X (hsub X hX)
  obtain ⟨sY, hsY, hnY, hpY⟩ := pick_of_name_mem inp.seds hN.1 Y (hsub Y hY)
  simp only [modelOf, hpX, hpY] at hab
  have : sX = sY := List.inj_on_of_nodup_map htie hsX hsY hab
  rw [← hnX, ← hnY, this]

/-! ## liveness of the whole pipeline -/

theorem rowOf_head_pos (tiny : K) (nAp : Nat) (f : PFilter K) (seds : List (RT.Sed K)) (X : String)
    (s s' : RT.Sed K) (hp : pick seds X = some s) (hr : readSed tiny s = some s') (hn : 0 < nAp) :
    (rowOf tiny nAp f seds X).1.head? = some (sedFlux tiny f s) := by
  unfold rowOf sedFlux
  rw [hp]
  simp only [hr, convRow]
  cases nAp with
  | zero => omega
  | succ n =>
    rw [List.range_succ_eq_map]
    simp only [List.map_cons, List.head?_cons]
    rfl

/-- the names `write_parameters` looks up for one source: distinct, and all in the table -/
theorem kept_names_ok (env : PEnv K) (inp : PInput K)
    (hT : (inp.table.map (fun y => strip y.1)).Nodup) (bands : List (Obs K)) :
    (keepSrc inp.selOut (flagsOf bands) (recordOf env inp bands)).name.Nodup ∧
    ∀ X ∈ (keepSrc inp.selOut (flagsOf bands) (recordOf env inp bands)).name,
      X ∈ inp.table.map (fun y => strip y.1) := by
  obtain ⟨hkn, -, -, -⟩ := keptOf_arrays env inp (ksIn inp) (modelsOf env inp) bands
  simp only [keptOf] at hkn
  change (keepSrc inp.selOut (flagsOf bands) (recordOf env inp bands)).name = _ at hkn
  rw [hkn]
  have hp := rank_names_perm env inp bands
  have hnd : (rankSource env inp.lo inp.hi (ksIn inp) (modelsOf env inp) bands).name.Nodup :=
    hp.nodup_iff.mpr hT
  exact ⟨(List.take_sublist _ _).nodup hnd, fun X hX => hp.mem_iff.mp (List.mem_of_mem_take hX)⟩

/-- the pipeline returns on its domain -/
theorem runPipeline_live (env : PEnv K) (inp : PInput K) (hN : NamesOK inp)
    (hT : (inp.table.map (fun y => strip y.1)).Nodup)
    (hcover : (tNames inp).Perm (inp.seds.map (·.name)))
    (hne : inp.seds ≠ [])
    (hread : ∀ s ∈ inp.seds, ∃ s', readSed env.tiny s = some s')
    (haps : ∀ s ∈ inp.seds, s.aps ≠ some [])
    (hfne : inp.filters ≠ []) (hflt : ∀ f ∈ inp.filters, held f ≠ [])
    (hpos : ∀ f ∈ inp.filters, ∀ s ∈ inp.seds, 0 < sedFlux env.tiny f s) :
    ∃ out, runPipeline env inp = .ok out := by
  obtain ⟨s0, ss, hs0⟩ := List.exists_cons_of_ne_nil hne
  have hrd : mapO (readSed env.tiny) inp.seds
      = some ((readSed env.tiny s0).getD s0 :: ss.map (fun s => (readSed env.tiny s).getD s)) := by
    rw [mapO_of_forall (readSed env.tiny) (fun s => (readSed env.tiny s).getD s) inp.seds
      (fun s hs => by obtain ⟨b, hb⟩ := hread s hs; simp [hb]), hs0]
    rfl
  obtain ⟨convs, hconvs⟩ := convStage_live env.tiny inp hN hcover _ _ hrd hflt
  obtain ⟨first, rest, hrdx, hcv, hsub, -⟩ := convStage_ok env.tiny inp convs hconvs hN
  -- at least one aperture
  have hnAp : 0 < nApOf first.aps := by
    rw [hrd] at hrdx
    simp only [Option.some.injEq, List.cons.injEq] at hrdx
    obtain ⟨b, hb⟩ := hread s0 (by simp [hs0])
    have hfa : first.aps = some (s0.aps.getD [env.tiny]) := by
      rw [← hrdx.1, hb, Option.getD_some]; exact (readSed_name env.tiny s0 b hb).2
    rw [hfa]
    have h0 := haps s0 (by simp [hs0])
    cases ha : s0.aps with
    | none => simp [nApOf]
    | some l =>
      cases l with
      | nil => rw [ha] at h0; exact absurd rfl h0
      | cons a t => simp [nApOf]
  have hheads : ∀ f ∈ inp.filters, ∀ X ∈ tNames inp,
      ∃ x, (rowOf env.tiny (nApOf first.aps) f inp.seds X).1.head? = some x ∧ 0 < x := by
    intro f hf X hX
    obtain ⟨s, hs, hsn, hp⟩ := pick_of_name_mem inp.seds hN.1 X (hsub hfne X hX)
    obtain ⟨s', hs'⟩ := hread s hs
    exact ⟨_, rowOf_head_pos env.tiny _ f inp.seds X s s' hp hs' hnAp, hpos f hf s hs⟩
  obtain ⟨models, hmodels⟩ := readModels_live env inp _ first.aps hfne hheads
  obtain ⟨hm, -⟩ := readModels_ok env inp _ _ models hmodels hN (hsub hfne)
  -- every record can be listed
  obtain ⟨ls, hls⟩ := mapE_exists (fun s => listSource inp.table inp.selOut s (recordOf env inp s.2))
    (fittedSources inp) (by
      intro s _
      obtain ⟨hnd, hsubn⟩ := kept_names_ok env inp hT s.2
      obtain ⟨r, hr, -⟩ := C09_any_order (K := K) inp.table inp.table _ [] (List.Perm.refl _) hT hnd hsubn
        (by simp)
      exact ⟨_, by simp only [listSource, hr]; rfl⟩)
  refine ⟨{ conv := convs, fits := (fittedSources inp).map (fun s => recordOf env inp s.2), listings := ls }, ?_⟩
  unfold runPipeline
  rw [hconvs]
  simp only
  rw [hcv, hmodels]
  simp only
  rw [ksOf_convFile, hm]
  change (match mapE (fun s => listSource inp.table inp.selOut s (recordOf env inp s.2))
    (fittedSources inp) with | .error e => _ | .ok ls => _) = _
  rw [hls]
  subst hcv
  rfl

end SF.Pipe
