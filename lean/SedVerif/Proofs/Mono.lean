import SedVerif.Model.Mono
import Mathlib.Algebra.Order.Field.Basic
import Mathlib.Tactic.Linarith

/-! Helper lemmas for C16: chunk loop, window indices, gather / post-check, first argmin. -/
namespace SF
namespace Mono

/-! ### integer ranges and the chunk loop -/

theorem intRange_zero (a : Int) : intRange a 0 = [] := rfl

theorem length_intRange (a : Int) (n : Nat) : (intRange a n).length = n := by
  simp [intRange]

theorem mem_intRange (a : Int) (n : Nat) (j : Int) : j ∈ intRange a n ↔ a ≤ j ∧ j < a + n := by
  simp only [intRange, List.mem_map, List.mem_range]
  constructor
  · rintro ⟨k, hk, rfl⟩; omega
  · intro h; exact ⟨(j - a).toNat, by omega, by omega⟩

theorem intRange_append (a : Int) (m n : Nat) :
    intRange a (m + n) = intRange a m ++ intRange (a + m) n := by
  simp only [intRange, List.range_add, List.map_append, List.map_map]
  congr 1
  apply List.map_congr_left
  intro k _
  simp only [Function.comp]
  omega

theorem getElem?_intRange (a : Int) (n k : Nat) (h : k < n) : (intRange a n)[k]? = some (a + k) := by
  simp [intRange, h]

theorem pairwise_intRange (a : Int) (n : Nat) : (intRange a n).Pairwise (· < ·) := by
  unfold intRange
  rw [List.pairwise_map]
  have : (List.range n).Pairwise (· < ·) := List.pairwise_lt_range
  exact this.imp (by intro x y h; omega)

/-- the loop with `size ≥ 1` and enough fuel emits `jmin, jmin+1, …, jhi`, once each, in order -/
theorem emit_chunkLoop (size jhi : Int) (hs : 1 ≤ size) :
    ∀ (fuel : Nat) (jmin : Int), jhi + 1 - jmin ≤ fuel →
      (chunkLoop size jhi fuel jmin).flatMap emitChunk = intRange jmin (jhi + 1 - jmin).toNat := by
  intro fuel
  induction fuel with
  | zero =>
    intro jmin h
    have : (jhi + 1 - jmin).toNat = 0 := by omega
    simp [chunkLoop, this, intRange_zero]
  | succ f ih =>
    intro jmin h
    simp only [chunkLoop]
    by_cases hle : jmin ≤ jhi
    · rw [if_pos hle, List.flatMap_cons, ih (jmin + size) (by omega)]
      simp only [emitChunk]
      by_cases hin : jmin + size - 1 ≤ jhi
      · have e1 : (min (jmin + size - 1) jhi - jmin + 1).toNat = size.toNat := by
          rw [min_eq_left hin]; omega
        have e2 : (jhi + 1 - jmin).toNat = size.toNat + (jhi + 1 - (jmin + size)).toNat := by omega
        have e3 : jmin + size = jmin + (size.toNat : Int) := by omega
        rw [e1, e2, intRange_append, ← e3]
      · have e1 : (min (jmin + size - 1) jhi - jmin + 1).toNat = (jhi + 1 - jmin).toNat := by
          rw [min_eq_right (by omega)]; omega
        have e2 : (jhi + 1 - (jmin + size)).toNat = 0 := by omega
        rw [e1, e2, intRange_zero, List.append_nil]
    · rw [if_neg hle]
      have : (jhi + 1 - jmin).toNat = 0 := by omega
      simp [this, intRange_zero]

/-- with a negative step Python's `range` runs downwards and every pass has `n_chunk ≤ 0` -/
theorem emit_chunkLoopDown (size jhi : Int) (hs : size < 0) :
    ∀ (fuel : Nat) (jmin : Int), (chunkLoopDown size jhi fuel jmin).flatMap emitChunk = [] := by
  intro fuel
  induction fuel with
  | zero => intro jmin; simp [chunkLoopDown]
  | succ f ih =>
    intro jmin
    simp only [chunkLoopDown]
    by_cases h : jhi + 1 < jmin
    · rw [if_pos h, List.flatMap_cons, ih]
      have : (min (jmin + size - 1) jhi - jmin + 1).toNat = 0 := by
        have := min_le_left (jmin + size - 1) jhi
        omega
      simp [emitChunk, this, intRange_zero]
    · rw [if_neg h]; rfl

theorem emitted_pos (jlo jhi size : Int) (hs : 1 ≤ size) :
    emitted jlo jhi size = .ok (intRange jlo (jhi + 1 - jlo).toNat) := by
  unfold emitted chunks
  rw [if_neg (by omega), if_neg (by omega)]
  simp only
  rw [emit_chunkLoop size jhi hs _ jlo (by omega)]

/-! ### `searchsorted` on a strictly increasing list -/

section order
variable {K : Type} [LinearOrder K]

theorem ssLeft_le_length (l : List K) (x : K) : ssLeft l x ≤ l.length := by
  unfold ssLeft
  exact (List.takeWhile_sublist _).length_le

/-- on a strictly increasing list, index `i` lies before the insertion point of `x` iff `l[i] < x` -/
theorem lt_ssLeft_iff (x : K) : ∀ (l : List K), l.Pairwise (· < ·) → ∀ (i : Nat) (v : K),
    l[i]? = some v → (i < ssLeft l x ↔ v < x) := by
  intro l
  induction l with
  | nil => intro _ i v h; simp at h
  | cons a t ih =>
    intro hp i v hv
    have hp' := List.pairwise_cons.mp hp
    unfold ssLeft
    by_cases hax : a < x
    · rw [List.takeWhile_cons_of_pos (by simpa using hax)]
      cases i with
      | zero =>
        simp only [List.getElem?_cons_zero, Option.some.injEq] at hv
        subst hv
        simp [hax]
      | succ k =>
        simp only [List.getElem?_cons_succ] at hv
        have := ih hp'.2 k v hv
        unfold ssLeft at this
        simp only [List.length_cons]
        exact Nat.succ_lt_succ_iff.trans this
    · rw [List.takeWhile_cons_of_neg (by simpa using hax)]
      simp only [List.length_nil, Nat.not_lt_zero, false_iff, not_lt]
      cases i with
      | zero =>
        simp only [List.getElem?_cons_zero, Option.some.injEq] at hv
        subst hv
        exact not_lt.mp hax
      | succ k =>
        simp only [List.getElem?_cons_succ] at hv
        have hmem : v ∈ t := List.mem_of_getElem? hv
        have := hp'.1 v hmem
        exact le_trans (not_lt.mp hax) (le_of_lt this)

theorem ssRight_le_length (l : List K) (x : K) : ssRight l x ≤ l.length := by
  unfold ssRight
  exact (List.takeWhile_sublist _).length_le

/-- on a strictly increasing list, index `i` lies before the right insertion point of `x` iff `l[i] ≤ x` -/
theorem lt_ssRight_iff (x : K) : ∀ (l : List K), l.Pairwise (· < ·) → ∀ (i : Nat) (v : K),
    l[i]? = some v → (i < ssRight l x ↔ v ≤ x) := by
  intro l
  induction l with
  | nil => intro _ i v h; simp at h
  | cons a t ih =>
    intro hp i v hv
    have hp' := List.pairwise_cons.mp hp
    unfold ssRight
    by_cases hax : a ≤ x
    · rw [List.takeWhile_cons_of_pos (by simpa using hax)]
      cases i with
      | zero =>
        simp only [List.getElem?_cons_zero, Option.some.injEq] at hv
        subst hv
        simp [hax]
      | succ k =>
        simp only [List.getElem?_cons_succ] at hv
        have := ih hp'.2 k v hv
        unfold ssRight at this
        simp only [List.length_cons]
        exact Nat.succ_lt_succ_iff.trans this
    · rw [List.takeWhile_cons_of_neg (by simpa using hax)]
      simp only [List.length_nil, Nat.not_lt_zero, false_iff, not_le]
      cases i with
      | zero =>
        simp only [List.getElem?_cons_zero, Option.some.injEq] at hv
        subst hv
        exact not_le.mp hax
      | succ k =>
        simp only [List.getElem?_cons_succ] at hv
        have hmem : v ∈ t := List.mem_of_getElem? hv
        have := hp'.1 v hmem
        exact lt_trans (not_le.mp hax) this

/-- element `j` of a list is element `n-1-j` of its reverse -/
theorem getElem?_reverse' {α : Type} (l : List α) (j : Nat) (hj : j < l.length) :
    l.reverse[l.length - 1 - j]? = l[j]? := by
  rw [List.getElem?_reverse (by omega)]
  congr 1
  omega

/-- the lower / upper window condition: both ends inclusive, a missing end is infinite -/
def geMin : Option K → K → Prop
  | none, _ => True
  | some m, v => m ≤ v

def leMax : Option K → K → Prop
  | none, _ => True
  | some M, v => v ≤ M

/-- for wavelengths stored strictly decreasing, index `k` lies in `[jlo, jhi]` exactly when
    `wav_min ≤ λ_k ≤ wav_max` -/
theorem window_iff (ws : List K) (hdec : ws.Pairwise (· > ·)) (wmin wmax : Option K) (k : Nat) (v : K)
    (hv : ws[k]? = some v) :
    ((windowIdx ws wmin wmax).1 ≤ (k : Int) ∧ (k : Int) ≤ (windowIdx ws wmin wmax).2) ↔
      (geMin wmin v ∧ leMax wmax v) := by
  have hk : k < ws.length := by
    by_contra hc
    rw [List.getElem?_eq_none (by omega)] at hv
    cases hv
  have hrev : ws.reverse.Pairwise (· < ·) := List.pairwise_reverse.mpr hdec
  have hrv : ws.reverse[ws.length - 1 - k]? = some v := by rw [getElem?_reverse' ws k hk, hv]
  have hlen : ws.reverse.length = ws.length := List.length_reverse
  have hmax : (windowIdx ws wmin wmax).1 ≤ (k : Int) ↔ leMax wmax v := by
    cases wmax with
    | none =>
      simp only [windowIdx, leMax, iff_true, hlen]
      omega
    | some M =>
      have hiff := lt_ssRight_iff M ws.reverse hrev (ws.length - 1 - k) v hrv
      have hle := ssRight_le_length ws.reverse M
      simp only [windowIdx, leMax]
      constructor
      · intro h; exact hiff.mp (by omega)
      · intro h; have := hiff.mpr h; omega
  have hmin : (k : Int) ≤ (windowIdx ws wmin wmax).2 ↔ geMin wmin v := by
    cases wmin with
    | none =>
      simp only [windowIdx, geMin, iff_true]
      omega
    | some m =>
      have hiff := lt_ssLeft_iff m ws.reverse hrev (ws.length - 1 - k) v hrv
      have hle := ssLeft_le_length ws.reverse m
      simp only [windowIdx, geMin]
      constructor
      · intro h
        by_contra hc
        have := hiff.mpr (not_le.mp hc)
        omega
      · intro h
        have : ¬ (ws.length - 1 - k < ssLeft ws.reverse m) := fun hc => absurd (hiff.mp hc) (not_lt.mpr h)
        omega
  rw [hmax, hmin, and_comm]

/-- the index range never leaves the array -/
theorem window_bounds (ws : List K) (wmin wmax : Option K) :
    0 ≤ (windowIdx ws wmin wmax).1 ∧ (windowIdx ws wmin wmax).2 ≤ (ws.length : Int) - 1 := by
  have hlen : ws.reverse.length = ws.length := List.length_reverse
  constructor
  · cases wmax with
    | none => simp only [windowIdx, hlen]; omega
    | some M =>
      have := ssRight_le_length ws.reverse M
      simp only [windowIdx]; omega
  · cases wmin with
    | none => simp only [windowIdx]; omega
    | some m => simp only [windowIdx]; omega

end order

/-! ### gather, post-check, rows -/


theorem gatherO_spec {α : Type} (a : List α) : ∀ (is : List Nat) (r : List α), gatherO a is = some r →
    r.length = is.length ∧ ∀ (k i : Nat), is[k]? = some i → r[k]? = a[i]? ∧ (r[k]?).isSome := by
  intro is
  induction is with
  | nil =>
    intro r h
    simp only [gatherO, Option.some.injEq] at h
    subst h
    exact ⟨rfl, by intro k i hk; simp at hk⟩
  | cons i0 t ih =>
    intro r h
    simp only [gatherO] at h
    cases hv : a[i0]? with
    | none => simp [hv] at h
    | some v =>
      cases ht : gatherO a t with
      | none => simp [hv, ht] at h
      | some vs =>
        simp only [hv, ht, Option.some.injEq] at h
        subst h
        obtain ⟨hl, hs⟩ := ih vs ht
        refine ⟨by simp [hl], ?_⟩
        intro k i hk
        cases k with
        | zero =>
          simp only [List.getElem?_cons_zero, Option.some.injEq] at hk
          subst hk
          simp [hv]
        | succ k' =>
          simp only [List.getElem?_cons_succ] at hk ⊢
          exact hs k' i hk

section rows
variable {K : Type}

theorem colAt_spec : ∀ (arr : List (List K)) (j : Nat) (row : List K), colAt arr j = some row →
    row.length = arr.length ∧ ∀ a, a < row.length → row[a]? = (arr[a]?).bind (fun r => r[j]?) := by
  intro arr
  induction arr with
  | nil =>
    intro j row h
    simp only [colAt, Option.some.injEq] at h
    subst h
    exact ⟨rfl, by intro a ha; simp at ha⟩
  | cons r rs ih =>
    intro j row h
    simp only [colAt] at h
    cases hv : r[j]? with
    | none => simp [hv] at h
    | some v =>
      cases ht : colAt rs j with
      | none => simp [hv, ht] at h
      | some vs =>
        simp only [hv, ht, Option.some.injEq] at h
        subst h
        obtain ⟨hl, hs⟩ := ih j vs ht
        refine ⟨by simp [hl], ?_⟩
        intro a ha
        cases a with
        | zero => simp [hv]
        | succ a' =>
          simp only [List.getElem?_cons_succ]
          exact hs a' (by simpa using ha)

theorem rowOf_spec (nAp : Nat) (arr : List (List K)) (j : Nat) (row : List K)
    (h : rowOf nAp arr j = some row) :
    row.length = (if nAp = 1 then 1 else arr.length) ∧
    ∀ a, a < row.length → row[a]? = (arr[a]?).bind (fun r => r[j]?) := by
  unfold rowOf at h
  by_cases h1 : nAp = 1
  · rw [if_pos h1] at h
    rw [if_pos h1]
    cases h0 : arr[0]? with
    | none => simp [h0] at h
    | some r =>
      simp only [h0] at h
      cases hv : r[j]? with
      | none => simp [hv] at h
      | some v =>
        simp only [hv, Option.map_some, Option.some.injEq] at h
        subst h
        refine ⟨rfl, ?_⟩
        intro a ha
        have : a = 0 := by simpa using ha
        subst this
        simp [h0, hv]
  · rw [if_neg h1] at h
    rw [if_neg h1]
    exact colAt_spec arr j row h

theorem rowsAt_spec {N : Type} (nAp : Nat) (sel : SedIn N K → List (List K)) :
    ∀ (seds : List (SedIn N K)) (j : Nat) (rows : List (List K)), rowsAt nAp sel seds j = some rows →
      rows.length = seds.length ∧
      ∀ (im : Nat) s, seds[im]? = some s → ∃ row, rows[im]? = some row ∧ rowOf nAp (sel s) j = some row := by
  intro seds
  induction seds with
  | nil =>
    intro j rows h
    simp only [rowsAt, Option.some.injEq] at h
    subst h
    exact ⟨rfl, by intro im s hs; simp at hs⟩
  | cons s0 ss ih =>
    intro j rows h
    simp only [rowsAt] at h
    cases hv : rowOf nAp (sel s0) j with
    | none => simp [hv] at h
    | some v =>
      cases ht : rowsAt nAp sel ss j with
      | none => simp [hv, ht] at h
      | some vs =>
        simp only [hv, ht, Option.some.injEq] at h
        subst h
        obtain ⟨hl, hs⟩ := ih j vs ht
        refine ⟨by simp [hl], ?_⟩
        intro im s hs'
        cases im with
        | zero =>
          simp only [List.getElem?_cons_zero, Option.some.injEq] at hs'
          subst hs'
          exact ⟨v, by simp, hv⟩
        | succ k =>
          simp only [List.getElem?_cons_succ] at hs' ⊢
          exact hs k s hs'

end rows

/-- safety of `sort_to_match`: whatever index list `order_to_match` produced, the post-check
    guarantees that row `r` of the result is the input row of a model named `strip ref[r]` -/
theorem sortToMatch_ok {N K : Type} [LT N] [DecidableLT N] [DecidableEq N] (strip : N → N)
    (names ref : List N) (flux err : List (List K)) (n' : List N) (f' e' : List (List K))
    (h : sortToMatch strip names ref flux err = .ok (n', f', e')) :
    n' = ref.map strip ∧ f'.length = ref.length ∧ e'.length = ref.length ∧
    ∀ (r : Nat), r < ref.length → ∃ i : Nat, names[i]? = (ref.map strip)[r]? ∧ f'[r]? = flux[i]? ∧ e'[r]? = err[i]? ∧
      (f'[r]?).isSome ∧ (e'[r]?).isSome := by
  unfold sortToMatch at h
  simp only at h
  cases ho : orderToMatch names (ref.map strip) with
  | none => simp [ho] at h
  | some order =>
    simp only [ho] at h
    cases h1 : gatherO names order with
    | none => simp [h1] at h
    | some a1 =>
      cases h2 : gatherO flux order with
      | none => simp [h1, h2] at h
      | some a2 =>
        cases h3 : gatherO err order with
        | none => simp [h1, h2, h3] at h
        | some a3 =>
          simp only [h1, h2, h3] at h
          by_cases hc : a1 = ref.map strip
          · rw [if_pos hc] at h
            simp only [Except.ok.injEq, Prod.mk.injEq] at h
            obtain ⟨rfl, rfl, rfl⟩ := h
            obtain ⟨l1, s1⟩ := gatherO_spec names order _ h1
            obtain ⟨l2, s2⟩ := gatherO_spec flux order _ h2
            obtain ⟨l3, s3⟩ := gatherO_spec err order _ h3
            have hlen : order.length = ref.length := by rw [← l1, hc]; simp
            refine ⟨hc, by omega, by omega, ?_⟩
            intro r hr
            have hro : r < order.length := by omega
            refine ⟨order[r], ?_, ?_, ?_, ?_, ?_⟩
            · rw [← (s1 r order[r] (by simp [hro])).1, hc]
            · exact (s2 r order[r] (by simp [hro])).1
            · exact (s3 r order[r] (by simp [hro])).1
            · exact (s2 r order[r] (by simp [hro])).2
            · exact (s3 r order[r] (by simp [hro])).2
          · rw [if_neg hc] at h
            cases h

/-! ### first argmin -/

theorem absK_eq_abs {K : Type} [Field K] [LinearOrder K] [IsStrictOrderedRing K] (x : K) :
    absK x = |x| := by
  unfold absK
  by_cases h : x < 0
  · rw [if_pos h, abs_of_neg h]
  · rw [if_neg h, abs_of_nonneg (not_lt.mp h)]

section argmin
variable {K : Type} [LinearOrder K]

theorem argminFrom_spec (L : List K) : ∀ (l : List K) (b i : Nat) (bv : K),
    L.drop i = l → b < i → L[b]? = some bv →
    (∀ (k : Nat) v, k < i → L[k]? = some v → bv ≤ v) → (∀ (k : Nat) v, k < b → L[k]? = some v → bv < v) →
    ∃ rv, L[argminFrom b bv i l]? = some rv ∧ (∀ (k : Nat) v, L[k]? = some v → rv ≤ v) ∧
      (∀ (k : Nat) v, k < argminFrom b bv i l → L[k]? = some v → rv < v) := by
  intro l
  induction l with
  | nil =>
    intro b i bv hd hbi hb hle hlt
    have hi : L.length ≤ i := by
      have := congrArg List.length hd
      simp at this
      omega
    refine ⟨bv, by simpa [argminFrom] using hb, ?_, by simpa [argminFrom] using hlt⟩
    intro k v hk
    have hkl : k < L.length := by
      by_contra hc
      rw [List.getElem?_eq_none (by omega)] at hk
      cases hk
    exact hle k v (by omega) hk
  | cons x xs ih =>
    intro b i bv hd hbi hb hle hlt
    have hxi : L[i]? = some x := by
      have : (L.drop i)[0]? = some x := by rw [hd]; rfl
      simpa using this
    have hd' : L.drop (i + 1) = xs := by
      have : (L.drop i).drop 1 = xs := by rw [hd]; rfl
      simpa [List.drop_drop, Nat.add_comm] using this
    simp only [argminFrom]
    by_cases hx : x < bv
    · rw [if_pos hx]
      apply ih i (i + 1) x hd' (by omega) hxi
      · intro k v hk hv
        by_cases hki : k = i
        · subst hki; rw [hxi] at hv; cases hv; exact le_refl _
        · exact le_trans (le_of_lt hx) (hle k v (by omega) hv)
      · intro k v hk hv
        exact lt_of_lt_of_le hx (hle k v hk hv)
    · rw [if_neg hx]
      apply ih b (i + 1) bv hd' (by omega) hb
      · intro k v hk hv
        by_cases hki : k = i
        · subst hki; rw [hxi] at hv; cases hv; exact not_lt.mp hx
        · exact hle k v (by omega) hv
      · exact hlt

theorem argminFirst_spec (L : List K) (r : Nat) (h : argminFirst L = .ok r) :
    ∃ rv, L[r]? = some rv ∧ (∀ (k : Nat) v, L[k]? = some v → rv ≤ v) ∧
      (∀ (k : Nat) v, k < r → L[k]? = some v → rv < v) := by
  cases L with
  | nil => simp [argminFirst] at h
  | cons x xs =>
    simp only [argminFirst, Except.ok.injEq] at h
    subst h
    apply argminFrom_spec (x :: xs) xs 0 1 x rfl (by omega) rfl
    · intro k v hk hv
      have : k = 0 := by omega
      subst this
      simp at hv
      exact le_of_eq hv
    · intro k v hk; omega

end argmin


/-! ### chunk size, returned table, list of files -/

theorem chunkSize_pos (nWav : Nat) (ramFl jlo jhi : Int) : 1 ≤ chunkSize nWav ramFl jlo jhi := by
  unfold chunkSize; omega

theorem length_fillTable : ∀ (js : List Int) (names : List String),
    (fillTable names js).length = names.length := by
  intro js
  induction js with
  | nil => intro names; rfl
  | cons j t ih =>
    intro names
    simp only [fillTable]
    by_cases hj : j < 0
    · rw [if_pos hj]; exact ih names
    · rw [if_neg hj, ih, List.length_set]

/-- entry `k` of the table after the loop: the file name if `k` was emitted, else what was there -/
theorem getElem?_fillTable : ∀ (js : List Int) (names : List String) (k : Nat), k < names.length →
    (fillTable names js)[k]? = if (k : Int) ∈ js then some (moName k) else names[k]? := by
  intro js
  induction js with
  | nil => intro names k _; simp [fillTable]
  | cons j t ih =>
    intro names k hk
    simp only [fillTable]
    by_cases hj : j < 0
    · rw [if_pos hj, ih names k hk]
      have : (k : Int) ≠ j := by omega
      simp [this]
    · rw [if_neg hj, ih _ k (by rw [List.length_set]; exact hk)]
      by_cases hkt : (k : Int) ∈ t
      · simp [hkt]
      · by_cases hkj : (k : Int) = j
        · have : j.toNat = k := by omega
          simp [hkj, this, hk]
        · have : j.toNat ≠ k := by omega
          simp [hkt, hkj, this]

theorem getElem?_monoTable (n : Nat) (js : List Int) (k : Nat) (hk : k < n) :
    (monoTable n js)[k]? = some (if (k : Int) ∈ js then moName k else "") := by
  unfold monoTable
  rw [getElem?_fillTable js _ k (by simpa using hk)]
  by_cases h : (k : Int) ∈ js <;> simp [h, hk]

theorem length_monoTable (n : Nat) (js : List Int) : (monoTable n js).length = n := by
  unfold monoTable; rw [length_fillTable]; simp

section files
variable {N K : Type} [LT N] [DecidableLT N] [DecidableEq N]

theorem monoFile_index (strip trunc : N → N) (ws aps : List K) (seds : List (SedIn N K)) (ref : List N)
    (j : Nat) (f : MonoFile N K) (h : monoFile strip trunc ws aps seds ref j = .ok f) : f.index = j := by
  unfold monoFile at h
  split at h
  · split at h
    · cases h
    · simp only [Except.ok.injEq] at h; subst h; rfl
  · cases h

/-- if the list of files is written, file number `k` is the file of the `k`-th emitted index -/
theorem monoFilesAt_spec (strip trunc : N → N) (ws aps : List K) (seds : List (SedIn N K)) (ref : List N) :
    ∀ (js : List Int) (fs : List (MonoFile N K)), monoFilesAt strip trunc ws aps seds ref js = .ok fs →
      List.Forall₂ (fun j f => 0 ≤ j ∧ monoFile strip trunc ws aps seds ref j.toNat = .ok f) js fs := by
  intro js
  induction js with
  | nil =>
    intro fs h
    simp only [monoFilesAt, Except.ok.injEq] at h
    subst h
    exact List.Forall₂.nil
  | cons j t ih =>
    intro fs h
    simp only [monoFilesAt] at h
    by_cases hj : j < 0
    · rw [if_pos hj] at h; cases h
    · rw [if_neg hj] at h
      cases hf : monoFile strip trunc ws aps seds ref j.toNat with
      | error e => simp [hf] at h
      | ok f =>
        cases ht : monoFilesAt strip trunc ws aps seds ref t with
        | error e => simp [hf, ht] at h
        | ok ft =>
          simp only [hf, ht, Except.ok.injEq] at h
          subst h
          exact List.Forall₂.cons ⟨by omega, hf⟩ (ih ft ht)

/-- if every emitted index is a non-negative index whose file can be written, all files are written -/
theorem monoFilesAt_live (strip trunc : N → N) (ws aps : List K) (seds : List (SedIn N K)) (ref : List N) :
    ∀ (js : List Int), (∀ j ∈ js, 0 ≤ j ∧ ∃ f, monoFile strip trunc ws aps seds ref j.toNat = .ok f) →
      ∃ fs, monoFilesAt strip trunc ws aps seds ref js = .ok fs := by
  intro js
  induction js with
  | nil => intro _; exact ⟨[], rfl⟩
  | cons j t ih =>
    intro h
    obtain ⟨hj, f, hf⟩ := h j List.mem_cons_self
    obtain ⟨ft, ht⟩ := ih (fun x hx => h x (List.mem_cons_of_mem _ hx))
    refine ⟨f :: ft, ?_⟩
    simp only [monoFilesAt, if_neg (by omega : ¬ j < 0), hf, ht]

theorem forall₂_index (strip trunc : N → N) (ws aps : List K) (seds : List (SedIn N K)) (ref : List N) :
    ∀ (js : List Int) (fs : List (MonoFile N K)),
      List.Forall₂ (fun j f => 0 ≤ j ∧ monoFile strip trunc ws aps seds ref j.toNat = .ok f) js fs →
      fs.map (fun f => (f.index : Int)) = js ∧ ∀ f ∈ fs, monoFile strip trunc ws aps seds ref f.index = .ok f := by
  intro js fs h
  induction h with
  | nil => exact ⟨rfl, by intro f hf; cases hf⟩
  | cons hd _ ih =>
    obtain ⟨h0, hf⟩ := hd
    have hidx := monoFile_index strip trunc ws aps seds ref _ _ hf
    refine ⟨?_, ?_⟩
    · simp only [List.map_cons, ih.1, hidx]
      congr 1
      omega
    · intro f hfm
      rcases List.mem_cons.mp hfm with rfl | hm
      · rw [hidx]; exact hf
      · exact ih.2 f hm

end files

end Mono
end SF
