import SedVerif.Model.PickleFrame
/-!
# Helper lemmas for C19 (core Lean only)

`Complete fmt c` : `c` is exactly one complete argument of format `fmt`.  The three facts about
`skipArg` that the framing theorems need: it splits off a complete argument; a complete argument is
skipped whatever follows it; no proper prefix of a complete argument is skippable.
-/
namespace SF.Pickle

/-- the lookup table is the readable opcode table -/
theorem argFmt_eq_spec (op : UInt8) : argFmt op = argFmtSpec op.toNat := by
  have h : ∀ n, n < 256 → (opTable[n]?).getD Option.none = argFmtSpec n := by decide +kernel
  exact h op.toNat op.toNat_lt

theorem dropN_eq (n : Nat) (b : List UInt8) :
    dropN n b = if b.length < n then none else some (b.drop n) := by
  cases n with
  | zero => simp [dropN]
  | succ n =>
    simp only [dropN]
    cases h : b.drop n with
    | nil =>
      have := List.drop_eq_nil_iff.mp h
      rw [if_pos (by omega)]
    | cons a r =>
      have hl : n < b.length := by
        rcases Nat.lt_or_ge n b.length with h1 | h1
        · exact h1
        · rw [List.drop_eq_nil_iff.mpr h1] at h; cases h
      rw [if_neg (by omega)]
      have : b.drop (n + 1) = (b.drop n).drop 1 := by rw [List.drop_drop]
      rw [this, h]; rfl

theorem dropN_split {n : Nat} {x y : List UInt8} (h : dropN n x = some y) :
    x = x.take n ++ y ∧ (x.take n).length = n := by
  rw [dropN_eq] at h
  split at h
  · cases h
  · cases h
    refine ⟨(List.take_append_drop n x).symm, ?_⟩
    rw [List.length_take]; omega

theorem dropN_append {n : Nat} {c : List UInt8} (hc : c.length = n) (r : List UInt8) :
    dropN n (c ++ r) = some r := by
  rw [dropN_eq]
  rw [if_neg (by rw [List.length_append]; omega)]
  rw [List.drop_append_of_le_length (by omega), List.drop_of_length_le (by omega)]
  rfl

theorem dropN_short {n : Nat} {p : List UInt8} (h : p.length < n) : dropN n p = none := by
  rw [dropN_eq, if_pos h]

/-- the three facts, packaged -/
def SkipSpec (fmt : ArgFmt) (x y : List UInt8) : Prop :=
  ∃ c, x = c ++ y ∧ (∀ r, skipArg fmt (c ++ r) = some r) ∧
    (∀ t, t < c.length → skipArg fmt (c.take t) = none)

theorem dropLine_spec : ∀ {x y : List UInt8}, dropLine x = some y →
    ∃ c, x = c ++ y ∧ (∀ r, dropLine (c ++ r) = some r) ∧ (∀ t, t < c.length → dropLine (c.take t) = none)
  | [], y, h => by simp [dropLine] at h
  | a :: x, y, h => by
    unfold dropLine at h
    by_cases ha : a = 10
    · rw [if_pos ha] at h; cases h
      refine ⟨[a], rfl, ?_, ?_⟩
      · intro r; simp [dropLine, ha]
      · intro t ht
        have : t = 0 := by simp at ht; omega
        subst this; simp [dropLine]
    · rw [if_neg ha] at h
      obtain ⟨c, hx, h1, h2⟩ := dropLine_spec h
      refine ⟨a :: c, by rw [hx]; rfl, ?_, ?_⟩
      · intro r; simp only [List.cons_append, dropLine, if_neg ha]; exact h1 r
      · intro t ht
        cases t with
        | zero => simp [dropLine]
        | succ t =>
          simp only [List.take_succ_cons, dropLine, if_neg ha]
          exact h2 t (by simp at ht; omega)

theorem dropLines_spec : ∀ (k : Nat) {x y : List UInt8}, dropLines k x = some y →
    ∃ c, x = c ++ y ∧ (∀ r, dropLines k (c ++ r) = some r) ∧
      (∀ t, t < c.length → dropLines k (c.take t) = none)
  | 0, x, y, h => by
    simp only [dropLines, Option.some.injEq] at h; subst h
    exact ⟨[], rfl, fun r => rfl, fun t ht => by simp at ht⟩
  | k + 1, x, y, h => by
    unfold dropLines at h
    cases hl : dropLine x with
    | none => rw [hl] at h; cases h
    | some x1 =>
      rw [hl] at h
      obtain ⟨c1, hx, a1, b1⟩ := dropLine_spec hl
      obtain ⟨c2, hx1, a2, b2⟩ := dropLines_spec k h
      refine ⟨c1 ++ c2, by rw [hx, hx1, List.append_assoc], ?_, ?_⟩
      · intro r
        unfold dropLines
        rw [List.append_assoc, a1]; exact a2 r
      · intro t ht
        unfold dropLines
        by_cases h1 : t < c1.length
        · rw [List.take_append_of_le_length (by omega), b1 t h1]
        · rw [List.take_append, List.take_of_length_le (by omega), a1]
          apply b2
          rw [List.length_append] at ht; omega

theorem skipArg_spec (fmt : ArgFmt) {x y : List UInt8} (h : skipArg fmt x = some y) :
    SkipSpec fmt x y := by
  unfold SkipSpec
  cases fmt with
  | none =>
    simp only [skipArg, Option.some.injEq] at h; subst h
    exact ⟨[], rfl, fun r => rfl, fun t ht => by simp at ht⟩
  | fixed n =>
    simp only [skipArg] at h
    obtain ⟨hx, hl⟩ := dropN_split h
    refine ⟨x.take n, hx, fun r => ?_, fun t ht => ?_⟩
    · simp only [skipArg]; exact dropN_append hl r
    · simp only [skipArg]; apply dropN_short; rw [List.length_take]; omega
  | lp1 =>
    cases x with
    | nil => simp [skipArg] at h
    | cons l x =>
      simp only [skipArg] at h
      obtain ⟨hx, hl⟩ := dropN_split h
      refine ⟨l :: x.take l.toNat, by rw [List.cons_append, ← hx], fun r => ?_, fun t ht => ?_⟩
      · simp only [List.cons_append, skipArg]; exact dropN_append hl r
      · cases t with
        | zero => simp [skipArg]
        | succ t =>
          simp only [List.take_succ_cons, skipArg]; apply dropN_short
          rw [List.length_take]; simp at ht; omega
  | lp4 =>
    match x, h with
    | a :: b :: c :: d :: x, h =>
      simp only [skipArg] at h
      obtain ⟨hx, hl⟩ := dropN_split h
      refine ⟨a :: b :: c :: d :: x.take (le32 a b c d), by simp only [List.cons_append, ← hx],
        fun r => ?_, fun t ht => ?_⟩
      · simp only [List.cons_append, skipArg]; exact dropN_append hl r
      · match t, ht with
        | 0, _ => simp [skipArg]
        | 1, _ => simp [skipArg]
        | 2, _ => simp [skipArg]
        | 3, _ => simp [skipArg]
        | t + 4, ht =>
          simp only [List.take_succ_cons, skipArg]; apply dropN_short
          rw [List.length_take]; simp at ht; omega
    | [], h => simp [skipArg] at h
    | [_], h => simp [skipArg] at h
    | [_, _], h => simp [skipArg] at h
    | [_, _, _], h => simp [skipArg] at h
  | lines k =>
    simp only [skipArg] at h ⊢
    exact dropLines_spec k h

theorem skipArg_length_le (fmt : ArgFmt) {x y : List UInt8} (h : skipArg fmt x = some y) :
    y.length ≤ x.length := by
  obtain ⟨c, hx, _, _⟩ := skipArg_spec fmt h
  rw [hx, List.length_append]; omega

theorem scanAux_stop (f : Nat) (op : UInt8) (rest : List UInt8) (hs : op = opSTOP) :
    scanAux (f + 1) (op :: rest) = .done rest := by simp [scanAux, hs]

theorem scanAux_bad (f : Nat) (op : UInt8) (rest : List UInt8) (hs : op ≠ opSTOP)
    (hf : argFmt op = none) : scanAux (f + 1) (op :: rest) = .badOpcode := by simp [scanAux, hs, hf]

theorem scanAux_trunc (f : Nat) (op : UInt8) (rest : List UInt8) (fmt : ArgFmt) (hs : op ≠ opSTOP)
    (hf : argFmt op = some fmt) (hk : skipArg fmt rest = none) :
    scanAux (f + 1) (op :: rest) = .truncatedArg := by simp [scanAux, hs, hf, hk]

theorem scanAux_step (f : Nat) (op : UInt8) (rest r : List UInt8) (fmt : ArgFmt) (hs : op ≠ opSTOP)
    (hf : argFmt op = some fmt) (hk : skipArg fmt rest = some r) :
    scanAux (f + 1) (op :: rest) = scanAux f r := by simp [scanAux, hs, hf, hk]

/-- with enough fuel the result does not depend on the fuel -/
theorem scanAux_fuel : ∀ (f f' : Nat) (b : List UInt8), b.length < f → b.length < f' →
    scanAux f b = scanAux f' b
  | 0, _, _, h, _ => by omega
  | _ + 1, 0, _, _, h => by omega
  | f + 1, f' + 1, [], _, _ => rfl
  | f + 1, f' + 1, op :: rest, h, h' => by
    by_cases hs : op = opSTOP
    · rw [scanAux_stop _ _ _ hs, scanAux_stop _ _ _ hs]
    · cases hf : argFmt op with
      | none => rw [scanAux_bad _ _ _ hs hf, scanAux_bad _ _ _ hs hf]
      | some fmt =>
        cases hk : skipArg fmt rest with
        | none => rw [scanAux_trunc _ _ _ _ hs hf hk, scanAux_trunc _ _ _ _ hs hf hk]
        | some rest' =>
          rw [scanAux_step _ _ _ _ _ hs hf hk, scanAux_step _ _ _ _ _ hs hf hk]
          have := skipArg_length_le fmt hk
          simp only [List.length_cons] at h h'
          exact scanAux_fuel f f' rest' (by omega) (by omega)

theorem scanOne_eq (f : Nat) (b : List UInt8) (h : b.length < f) : scanOne b = scanAux f b :=
  scanAux_fuel _ _ b (by omega) h

/-- `done rest` splits the input into a complete frame and `rest` -/
theorem scanAux_done_split : ∀ (f : Nat) (b rest : List UInt8), scanAux f b = .done rest →
    ∃ fr, b = fr ++ rest ∧ scanAux f fr = .done [] ∧ fr ≠ []
  | 0, _, _, h => by simp [scanAux] at h
  | _ + 1, [], _, h => by simp [scanAux] at h
  | f + 1, op :: b, rest, h => by
    by_cases hs : op = opSTOP
    · rw [scanAux_stop _ _ _ hs] at h
      cases h
      exact ⟨[op], rfl, scanAux_stop _ _ _ hs, by simp⟩
    · cases hf : argFmt op with
      | none => rw [scanAux_bad _ _ _ hs hf] at h; cases h
      | some fmt =>
        cases hk : skipArg fmt b with
        | none => rw [scanAux_trunc _ _ _ _ hs hf hk] at h; cases h
        | some b' =>
          rw [scanAux_step _ _ _ _ _ hs hf hk] at h
          obtain ⟨c, hb, hc1, _⟩ := skipArg_spec fmt hk
          obtain ⟨fr, hb', hfr, _⟩ := scanAux_done_split f b' rest h
          refine ⟨op :: (c ++ fr), by rw [hb, hb']; simp, ?_, by simp⟩
          rw [scanAux_step _ _ _ _ _ hs hf (hc1 fr)]
          exact hfr

/-- a complete frame is consumed whatever follows it -/
theorem scanAux_append : ∀ (f : Nat) (b r : List UInt8), scanAux f b = .done [] →
    scanAux f (b ++ r) = .done r
  | 0, _, _, h => by simp [scanAux] at h
  | _ + 1, [], _, h => by simp [scanAux] at h
  | f + 1, op :: b, r, h => by
    rw [List.cons_append]
    by_cases hs : op = opSTOP
    · rw [scanAux_stop _ _ _ hs] at h ⊢
      cases h; rfl
    · cases hf : argFmt op with
      | none => rw [scanAux_bad _ _ _ hs hf] at h; cases h
      | some fmt =>
        cases hk : skipArg fmt b with
        | none => rw [scanAux_trunc _ _ _ _ hs hf hk] at h; cases h
        | some b' =>
          rw [scanAux_step _ _ _ _ _ hs hf hk] at h
          obtain ⟨c, hb, hc1, _⟩ := skipArg_spec fmt hk
          have : skipArg fmt (b ++ r) = some (b' ++ r) := by
            rw [hb, List.append_assoc]; exact hc1 _
          rw [scanAux_step _ _ _ _ _ hs hf this]
          exact scanAux_append f b' r h

theorem scanOne_append (b r : List UInt8) (h : scanOne b = .done []) : scanOne (b ++ r) = .done r := by
  have h1 : scanAux ((b ++ r).length + 1) b = .done [] := by
    rw [← scanOne_eq _ b (by rw [List.length_append]; omega)]; exact h
  exact scanAux_append _ b r h1

/-- a proper prefix of a complete frame ends at an opcode boundary or inside an argument -/
theorem scanAux_take : ∀ (f : Nat) (b : List UInt8) (t : Nat), scanAux f b = .done [] → t < b.length →
    scanAux f (b.take t) = .eofAtOpcode ∨ scanAux f (b.take t) = .truncatedArg
  | 0, _, _, h, _ => by simp [scanAux] at h
  | _ + 1, [], _, _, ht => by simp at ht
  | f + 1, op :: b, 0, _, _ => by left; rfl
  | f + 1, op :: b, t + 1, h, ht => by
    rw [List.take_succ_cons]
    by_cases hs : op = opSTOP
    · rw [scanAux_stop _ _ _ hs] at h
      cases h
      simp at ht
    · cases hf : argFmt op with
      | none => rw [scanAux_bad _ _ _ hs hf] at h; cases h
      | some fmt =>
        cases hk : skipArg fmt b with
        | none => rw [scanAux_trunc _ _ _ _ hs hf hk] at h; cases h
        | some b' =>
          rw [scanAux_step _ _ _ _ _ hs hf hk] at h
          obtain ⟨c, hb, hc1, hc2⟩ := skipArg_spec fmt hk
          simp only [List.length_cons] at ht
          by_cases h1 : t < c.length
          · right
            have : b.take t = c.take t := by
              rw [hb, List.take_append_of_le_length (by omega)]
            rw [this, scanAux_trunc _ _ _ _ hs hf (hc2 t h1)]
          · have : b.take t = c ++ b'.take (t - c.length) := by
              rw [hb, List.take_append, List.take_of_length_le (by omega)]
            rw [this, scanAux_step _ _ _ _ _ hs hf (hc1 _)]
            apply scanAux_take f b' _ h
            rw [hb, List.length_append] at ht; omega

theorem scanOne_take (b : List UInt8) (t : Nat) (h : scanOne b = .done []) (ht : t < b.length) :
    scanOne (b.take t) = .eofAtOpcode ∨ scanOne (b.take t) = .truncatedArg := by
  have hl : (b.take t).length < b.length + 1 := by rw [List.length_take]; omega
  rw [scanOne_eq _ _ hl]
  exact scanAux_take _ b t h ht

theorem scanOne_done_split (b rest : List UInt8) (h : scanOne b = .done rest) :
    ∃ fr, b = fr ++ rest ∧ scanOne fr = .done [] ∧ fr ≠ [] := by
  obtain ⟨fr, hb, hfr, hne⟩ := scanAux_done_split _ b rest h
  refine ⟨fr, hb, ?_, hne⟩
  rw [scanOne_eq (b.length + 1) fr (by rw [hb, List.length_append]; omega)]; exact hfr

theorem scanOne_nil_ne (b : List UInt8) (h : scanOne b = .done []) : b ≠ [] := by
  intro hb; subst hb; simp [scanOne, scanAux] at h

/-! ### the reader -/

/-- all frames of a list are complete pickles -/
def Frames (l : List (List UInt8)) : Prop := ∀ b ∈ l, scanOne b = .done []

theorem readHeader_all : ∀ (hdr : List (List UInt8)), Frames hdr → ∀ x,
    readHeader hdr.length (hdr.flatten ++ x) = some x
  | [], _, x => rfl
  | b :: hs, h, x => by
    simp only [List.length_cons, List.flatten_cons, List.append_assoc, readHeader]
    rw [scanOne_append b _ (h b (by simp))]
    exact readHeader_all hs (fun c hc => h c (by simp [hc])) x

theorem readHeader_cut : ∀ (hdr : List (List UInt8)), Frames hdr → ∀ t, t < hdr.flatten.length →
    readHeader hdr.length (hdr.flatten.take t) = none
  | [], _, t, ht => by simp at ht
  | b :: hs, h, t, ht => by
    have hb := h b (by simp)
    simp only [List.length_cons, List.flatten_cons, readHeader]
    by_cases h1 : t < b.length
    · rw [List.take_append_of_le_length (by omega)]
      rcases scanOne_take b t hb h1 with e | e <;> rw [e]
    · rw [List.take_append, List.take_of_length_le (by omega), scanOne_append b _ hb]
      apply readHeader_cut hs (fun c hc => h c (by simp [hc]))
      simp only [List.flatten_cons, List.length_append] at ht; omega

theorem take_frame (fr rest : List UInt8) :
    (fr ++ rest).take ((fr ++ rest).length - rest.length) = fr := by
  rw [List.length_append, Nat.add_sub_cancel, List.take_left']
  rfl

theorem readRecs_all : ∀ (recs : List (List UInt8)), Frames recs → ∀ f, recs.flatten.length < f →
    readRecs f recs.flatten = ⟨.cleanEnd, recs⟩
  | [], _, f, hf => by
    cases f with
    | zero => omega
    | succ f => rfl
  | b :: rs, h, f, hf => by
    have hb := h b (by simp)
    have hne := scanOne_nil_ne b hb
    have hlen : 0 < b.length := List.length_pos_iff.mpr hne
    cases f with
    | zero => omega
    | succ f =>
      simp only [List.flatten_cons, readRecs]
      rw [scanOne_append b _ hb]
      simp only [take_frame]
      simp only [List.flatten_cons, List.length_append] at hf
      rw [readRecs_all rs (fun c hc => h c (by simp [hc])) f (by omega)]

/-- a record stream cut at `t`: the records yielded are the `j` records that fit completely into the
    first `t` bytes (`j < k`), and nothing else -/
theorem readRecs_cut : ∀ (recs : List (List UInt8)), Frames recs → ∀ t, t < recs.flatten.length →
    ∀ f, t < f → ∃ j, j < recs.length ∧ (readRecs f (recs.flatten.take t)).recs = recs.take j ∧
      (readRecs f (recs.flatten.take t)).status ≠ .openError ∧
      (recs.take j).flatten.length ≤ t ∧ t < (recs.take (j + 1)).flatten.length
  | [], _, t, ht, _, _ => by simp at ht
  | b :: rs, h, t, ht, f, hf => by
    have hb := h b (by simp)
    cases f with
    | zero => omega
    | succ f =>
      simp only [List.flatten_cons, readRecs]
      by_cases h1 : t < b.length
      · rw [List.take_append_of_le_length (by omega)]
        refine ⟨0, by simp, ?_⟩
        rcases scanOne_take b t hb h1 with e | e <;> rw [e] <;> simp <;> omega
      · rw [List.take_append, List.take_of_length_le (by omega), scanOne_append b _ hb]
        simp only [take_frame]
        simp only [List.flatten_cons, List.length_append] at ht
        have hne := scanOne_nil_ne b hb
        have hlen : 0 < b.length := List.length_pos_iff.mpr hne
        obtain ⟨j, hj, hr, hs, hlo, hhi⟩ :=
          readRecs_cut rs (fun c hc => h c (by simp [hc])) (t - b.length) (by omega) f (by omega)
        refine ⟨j + 1, by simp; omega, ?_, hs, ?_, ?_⟩
        · simp only [List.take_succ_cons, hr]
        · simp only [List.take_succ_cons, List.flatten_cons, List.length_append]; omega
        · simp only [List.take_succ_cons, List.flatten_cons, List.length_append]; omega

/-! ### passes over one reader -/

theorem Frames.tail {b : List UInt8} {rs : List (List UInt8)} (h : Frames (b :: rs)) : Frames rs :=
  fun c hc => h c (by simp [hc])

theorem Frames.drop {rs : List (List UInt8)} (h : Frames rs) (j : Nat) : Frames (rs.drop j) :=
  fun c hc => h c (List.mem_of_mem_drop hc)

theorem scanOne_nil : scanOne [] = .eofAtOpcode := rfl

/-- one pass over a (possibly cut) stream of frames `rs`: it yields the first `j` of them, all lying completely
    before the cut, and leaves a (possibly cut) stream of the remaining frames; a pass that is not abandoned
    yields every frame that lies completely before the cut -/
theorem readPass_stream : ∀ (rs : List (List UInt8)), Frames rs → ∀ (f : Nat) (limit : Option Nat) (s : Nat),
    (rs.flatten.take s).length < f →
    ∃ j s', j ≤ rs.length ∧ (readPass f limit (rs.flatten.take s)).recs = rs.take j ∧
      (readPass f limit (rs.flatten.take s)).rest = (rs.drop j).flatten.take s' ∧
      (rs.take j).flatten.length + s' ≤ s ∧
      (limit = none → j < rs.length → s < (rs.take (j + 1)).flatten.length)
  | rs, h, 0, limit, s, hf => by omega
  | [], h, f + 1, limit, s, hf => by
    refine ⟨0, 0, by simp, ?_, ?_, by simp, by simp⟩
    · simp only [List.flatten_nil, List.take_nil, readPass, scanOne_nil]; split <;> rfl
    · simp only [List.flatten_nil, List.take_nil, readPass, scanOne_nil]; split <;> rfl
  | b :: rs, h, f + 1, limit, s, hf => by
    have hb := h b (by simp)
    have hne := scanOne_nil_ne b hb
    have hlen : 0 < b.length := List.length_pos_iff.mpr hne
    by_cases hl : limit = some 0
    · refine ⟨0, s, by simp, by simp [readPass, hl], by simp [readPass, hl], by simp, ?_⟩
      intro hn; rw [hn] at hl; cases hl
    · simp only [readPass, if_neg hl, List.flatten_cons]
      by_cases h1 : s < b.length
      · rw [List.take_append_of_le_length (by omega)]
        refine ⟨0, 0, by simp, ?_, ?_, by simp, ?_⟩
        · rcases scanOne_take b s hb h1 with e | e <;> simp [e]
        · rcases scanOne_take b s hb h1 with e | e <;> simp [e]
        · intro _ _; simp; omega
      · rw [List.take_append, List.take_of_length_le (by omega), scanOne_append b _ hb]
        simp only [take_frame]
        have hf' : (rs.flatten.take (s - b.length)).length < f := by
          simp only [List.flatten_cons] at hf
          rw [List.take_append, List.take_of_length_le (by omega), List.length_append] at hf
          omega
        obtain ⟨j, s', hj, hr, hrest, hle, hmax⟩ :=
          readPass_stream rs h.tail f (limit.map (· - 1)) (s - b.length) hf'
        refine ⟨j + 1, s', by simp; omega, by simp [hr], by simp [hrest], ?_, ?_⟩
        · simp only [List.take_succ_cons, List.flatten_cons, List.length_append]; omega
        · intro hn hj1
          have := hmax (by rw [hn]; rfl) (by simpa using hj1)
          simp only [List.take_succ_cons, List.flatten_cons, List.length_append]; omega

/-- all passes over one reader: together they yield the first `j` frames, all lying completely before the cut -/
theorem readPasses_stream : ∀ (ops : List (Option Nat)) (rs : List (List UInt8)), Frames rs → ∀ s,
    ∃ j, j ≤ rs.length ∧ allYielded (readPasses ops (rs.flatten.take s)) = rs.take j ∧
      (rs.take j).flatten.length ≤ s
  | [], rs, _, s => ⟨0, by simp, by simp [readPasses, allYielded], by simp⟩
  | l :: ls, rs, h, s => by
    obtain ⟨j1, s1, hj1, hr1, hrest1, hle1, _⟩ :=
      readPass_stream rs h ((rs.flatten.take s).length + 1) l s (by omega)
    obtain ⟨j2, hj2, hr2, hle2⟩ := readPasses_stream ls (rs.drop j1) (h.drop j1) s1
    refine ⟨j1 + j2, ?_, ?_, ?_⟩
    · rw [List.length_drop] at hj2; omega
    · simp only [readPasses, allYielded, List.map_cons, List.flatten_cons]
      rw [hr1, hrest1]
      have := hr2
      simp only [allYielded] at this
      rw [this, List.take_add]
    · rw [List.take_add, List.flatten_append, List.length_append]; omega

theorem take_flatten_length_mono (rs : List (List UInt8)) {a b : Nat} (h : a ≤ b) :
    (rs.take a).flatten.length ≤ (rs.take b).flatten.length := by
  obtain ⟨c, rfl⟩ := Nat.exists_eq_add_of_le h
  rw [List.take_add, List.flatten_append, List.length_append]; omega

/-- a full iteration is a pass that is not abandoned -/
theorem readRecs_eq_readPass : ∀ (f : Nat) (b : List UInt8),
    (readRecs f b).recs = (readPass f none b).recs
  | 0, b => rfl
  | f + 1, b => by
    simp only [readRecs, readPass]
    rw [if_neg (by simp)]
    cases scanOne b with
    | done rest => simp only [Option.map_none]; rw [readRecs_eq_readPass f rest]
    | eofAtOpcode => rfl
    | truncatedArg => rfl
    | badOpcode => rfl

/-- complete frames in front of `x` are all yielded, then the reader goes on with `x` -/
theorem readRecs_append : ∀ (l : List (List UInt8)), Frames l → ∀ (f : Nat) (x : List UInt8), l.length < f →
    readRecs f (l.flatten ++ x) = ⟨(readRecs (f - l.length) x).status, l ++ (readRecs (f - l.length) x).recs⟩
  | [], _, f, x, _ => by simp
  | b :: rs, h, f + 1, x, hf => by
    have hb := h b (by simp)
    simp only [List.flatten_cons, List.append_assoc, readRecs]
    rw [scanOne_append b _ hb]
    simp only [take_frame]
    rw [readRecs_append rs h.tail f x (by simpa using hf)]
    simp only [List.length_cons, List.cons_append]
    have : f + 1 - (rs.length + 1) = f - rs.length := by omega
    rw [this]
  | _ :: _, _, 0, _, hf => by simp at hf

theorem frames_length_le : ∀ (l : List (List UInt8)), Frames l → l.length ≤ l.flatten.length
  | [], _ => by simp
  | b :: rs, h => by
    have hne := scanOne_nil_ne b (h b (by simp))
    have hlen : 0 < b.length := List.length_pos_iff.mpr hne
    have := frames_length_le rs h.tail
    simp only [List.length_cons, List.flatten_cons, List.length_append]; omega

end SF.Pickle
