import SedVerif.Model.EF
import Mathlib.Tactic.Linarith
import Mathlib.Algebra.Order.Field.Basic

/-! Order facts about extended floats, over any linearly ordered field. -/
namespace SF
variable {K : Type} [Field K] [LinearOrder K] [IsStrictOrderedRing K]

theorem natK_eq (n : Nat) : (natK n : K) = (n : K) := by
  induction n with
  | zero => simp [natK]
  | succ n ih => simp [natK, ih]

theorem natK_nonneg (n : Nat) : (0 : K) ≤ natK n := by
  rw [natK_eq]; exact Nat.cast_nonneg n

theorem natK_pos {n : Nat} (h : 0 < n) : (0 : K) < natK n := by
  rw [natK_eq]; exact Nat.cast_pos.mpr h

namespace EF

theorem leSort_trans (a b c : EF K) : leSort a b = true → leSort b c = true → leSort a c = true := by
  cases a <;> cases b <;> cases c <;> simp [leSort]
  exact le_trans

theorem leSort_total (a b : EF K) : (leSort a b || leSort b a) = true := by
  cases a <;> cases b <;> simp [leSort]
  exact le_total _ _

theorem leSort_refl (a : EF K) : leSort a a = true := by
  cases a <;> simp [leSort]

theorem leSort_of_le {a b : EF K} : le a b = true → leSort a b = true := by
  cases a <;> cases b <;> simp [le, leSort]

theorem lt_of_le_of_lt {a b v : EF K} : le a b = true → lt b v = true → lt a v = true := by
  cases a <;> cases b <;> cases v <;> simp [le, lt]
  exact _root_.lt_of_le_of_lt

theorem le_of_lt {a v : EF K} : lt a v = true → le a v = true := by
  cases a <;> cases v <;> simp [le, lt]
  exact _root_.le_of_lt

/-- `a <= v` and not `a == v` is `a < v` -/
theorem lt_of_le_of_ne {a v : EF K} : le a v = true → eq a v = false → lt a v = true := by
  cases a <;> cases v <;> simp [le, lt, eq]
  exact fun h1 h2 => _root_.lt_of_le_of_ne h1 h2

theorem lt_irrefl_eq {a v : EF K} : lt a v = true → eq a v = false := by
  cases a <;> cases v <;> simp [lt, eq]
  exact fun h => ne_of_lt h

/-- a map `g` of chi² values is *rank-compatible* when, going down the ranking from `b` to `a`, either
    `g b` already fails every strict upper bound (it is NaN or `+inf`) or `g a <= g b`. -/
def RankCompat (g : EF K → EF K) : Prop :=
  ∀ a b : EF K, leSort a b = true → g b = nan ∨ g b = pinf ∨ le (g a) (g b) = true

theorem rankCompat_id : RankCompat (fun c : EF K => c) := by
  intro a b h
  cases a <;> cases b <;> simp_all [leSort, le]

theorem rankCompat_sub (c : EF K) : RankCompat (fun x : EF K => x - c) := by
  intro a b h
  show sub b c = nan ∨ sub b c = pinf ∨ le (sub a c) (sub b c) = true
  cases a <;> cases b <;> cases c <;> simp_all [leSort, le, sub]

theorem rankCompat_divN (n : K) (hn : 0 ≤ n) : RankCompat (fun x : EF K => divN x n) := by
  intro a b h
  have hn' : ¬ n < 0 := not_lt.mpr hn
  show divN b n = nan ∨ divN b n = pinf ∨ le (divN a n) (divN b n) = true
  by_cases h0 : n = 0
  · subst h0
    cases a with
    | nan => cases b <;> simp_all [leSort, divN]
    | pinf => cases b <;> simp_all [leSort, divN, le]
    | ninf =>
      cases b with
      | fin y =>
        by_cases hy : 0 < y
        · simp [divN, hy]
        · by_cases hy2 : y < 0
          · simp [divN, hy, hy2, le]
          · simp [divN, hy, hy2]
      | _ => simp [divN, le]
    | fin x =>
      cases b with
      | fin y =>
        have hxy : x ≤ y := by simpa [leSort] using h
        by_cases hy : 0 < y
        · simp [divN, hy]
        · by_cases hy2 : y < 0
          · have hx : x < 0 := _root_.lt_of_le_of_lt hxy hy2
            have hx' : ¬ 0 < x := not_lt.mpr (_root_.le_of_lt hx)
            simp [divN, hy, hy2, hx, hx', le]
          · simp [divN, hy, hy2]
      | _ => simp_all [divN, le, leSort]
  · have hpos : 0 < n := _root_.lt_of_le_of_ne hn (Ne.symm h0)
    cases a <;> cases b <;> simp only [divN, if_neg hn', if_neg h0] <;> simp_all [leSort, le]
    exact div_le_div_of_nonneg_right h hn

theorem rankCompat_comp (g1 g2 : EF K → EF K) (h1 : RankCompat g1) (h2 : RankCompat g2)
    (hnan : g1 nan = nan) (hinf : g1 pinf = pinf) : RankCompat (fun x => g1 (g2 x)) := by
  intro a b h
  rcases h2 a b h with e | e | e
  · left; simp [e, hnan]
  · right; left; simp [e, hinf]
  · exact h1 _ _ (leSort_of_le e)

/-- going down the ranking keeps a strict upper bound -/
theorem RankCompat.down {g : EF K → EF K} (hg : RankCompat g) {a b v : EF K}
    (h : leSort a b = true) (hb : lt (g b) v = true) : lt (g a) v = true := by
  rcases hg a b h with e | e | e
  · rw [e] at hb; cases v <;> simp [lt] at hb
  · rw [e] at hb; cases v <;> simp [lt] at hb
  · exact lt_of_le_of_lt e hb

end EF
end SF
