import SedVerif.Model.FitExtra
import SedVerif.Proofs.Fit
import Mathlib.Data.List.Forall2

/-! Helper lemmas for C03 / C11 / C08: bands the fitter cannot tell apart, the shape of what
`mkPts ∘ logTransform` produces, signs of the chi² terms. -/
namespace SF
variable {K : Type} [Field K] [LinearOrder K] [IsStrictOrderedRing K]

/-! ## sums over related lists -/

theorem sumBy_forall₂ {α β : Type} (f : α → K) (g : β → K) {l : List α} {l' : List β}
    (h : List.Forall₂ (fun a b => f a = g b) l l') : sumBy f l = sumBy g l' := by
  induction h with
  | nil => rfl
  | cons hab _ ih => simp only [sumBy, hab, ih]

theorem le_sumBy_of_mem {α : Type} (f : α → K) (l : List α) (h : ∀ p ∈ l, 0 ≤ f p)
    (x : α) (hx : x ∈ l) : f x ≤ sumBy f l := by
  induction l with
  | nil => cases hx
  | cons p ps ih =>
    simp only [sumBy]
    have hp := h p List.mem_cons_self
    have hrest := sumBy_nonneg f ps (fun q hq => h q (List.mem_cons_of_mem _ hq))
    rcases List.mem_cons.mp hx with rfl | hx'
    · linarith
    · have := ih (fun q hq => h q (List.mem_cons_of_mem _ hq)) hx'
      linarith

theorem sumBy_eq_zero {α : Type} (f : α → K) (l : List α) (h : ∀ p ∈ l, f p = 0) : sumBy f l = 0 := by
  induction l with
  | nil => rfl
  | cons p ps ih =>
    simp only [sumBy]
    rw [h p List.mem_cons_self, ih (fun q hq => h q (List.mem_cons_of_mem _ hq))]; simp

theorem sumBy_filter_add {α : Type} (f : α → K) (P : α → Bool) (l : List α)
    (h : ∀ p ∈ l, P p = false → f p = 0) : sumBy f (l.filter P) = sumBy f l := by
  induction l with
  | nil => rfl
  | cons p ps ih =>
    have ih' := ih (fun q hq => h q (List.mem_cons_of_mem _ hq))
    by_cases hp : P p = true
    · simp only [List.filter_cons, hp, if_true, sumBy, ih']
    · have hp' : P p = false := by simpa using hp
      simp only [List.filter_cons, hp', sumBy, h p List.mem_cons_self hp']
      simp [ih']

/-! ## bands the fitter cannot tell apart -/

/-- `p` and `p'` enter every sum of the regression identically: same patterns and weight, same
    residual unless the weight is zero -/
def PtLS (p p' : Pt K) : Prop :=
  p.k = p'.k ∧ p.q = p'.q ∧ p.w = p'.w ∧ (p.w ≠ 0 → p.r = p'.r)

/-- … and they also contribute the same chi² term at every `(a, s)` -/
def PtEquiv (big : K) (ln1m : K → K) (p p' : Pt K) : Prop :=
  PtLS p p' ∧ ∀ a s, chiTerm big ln1m a s p = chiTerm big ln1m a s p'

theorem PtEquiv.refl (big : K) (ln1m : K → K) (p : Pt K) : PtEquiv big ln1m p p :=
  ⟨⟨rfl, rfl, rfl, fun _ => rfl⟩, fun _ _ => rfl⟩

theorem PtLS.term {p p' : Pt K} (h : PtLS p p')
    (g : K → K → K → K) : g p.r p.k p.q * p.w = g p'.r p'.k p'.q * p'.w := by
  obtain ⟨hk, hq, hw, hr⟩ := h
  by_cases h0 : p.w = 0
  · rw [← hw, h0, mul_zero, mul_zero]
  · rw [← hk, ← hq, ← hw, ← hr h0]

section ls
variable {ps ps' : List (Pt K)}

theorem sumBy_ls (g : K → K → K → K) (h : List.Forall₂ PtLS ps ps') :
    sumBy (fun p => g p.r p.k p.q * p.w) ps = sumBy (fun p => g p.r p.k p.q * p.w) ps' :=
  sumBy_forall₂ _ _ (h.imp (fun _ _ hp => hp.term g))

theorem c1_ls (h : List.Forall₂ PtLS ps ps') : c1 ps = c1 ps' := sumBy_ls (fun r k _ => r * k) h
theorem c2_ls (h : List.Forall₂ PtLS ps ps') : c2 ps = c2 ps' := sumBy_ls (fun r _ q => r * q) h
theorem m11_ls (h : List.Forall₂ PtLS ps ps') : m11 ps = m11 ps' := sumBy_ls (fun _ k _ => k * k) h
theorem m12_ls (h : List.Forall₂ PtLS ps ps') : m12 ps = m12 ps' := sumBy_ls (fun _ k q => k * q) h
theorem m22_ls (h : List.Forall₂ PtLS ps ps') : m22 ps = m22 ps' := sumBy_ls (fun _ _ q => q * q) h

theorem linreg_ls (h : List.Forall₂ PtLS ps ps') : linreg ps = linreg ps' := by
  simp only [linreg, c1_ls h, c2_ls h, m11_ls h, m12_ls h, m22_ls h]

theorem optScale_ls (a : K) (h : List.Forall₂ PtLS ps ps') :
    optScaleAfterAv a ps = optScaleAfterAv a ps' := by
  unfold optScaleAfterAv
  rw [m22_ls h, sumBy_ls (fun r k q => (r - a * k) * q) h]

theorem fit2_ls (lo hi : K) (h : List.Forall₂ PtLS ps ps') : fit2 lo hi ps = fit2 lo hi ps' := by
  simp only [fit2, linreg_ls h, optScale_ls _ h]

theorem optAv_ls (h : List.Forall₂ PtLS ps ps') : optAv ps = optAv ps' := by
  unfold optAv
  rw [sumBy_ls (fun r k _ => r * k) h, sumBy_ls (fun _ k _ => k * k) h]

end ls

section equiv
variable {big : K} {ln1m : K → K} {ps ps' : List (Pt K)}

theorem PtEquiv.ls (h : List.Forall₂ (PtEquiv big ln1m) ps ps') : List.Forall₂ PtLS ps ps' :=
  h.imp (fun _ _ hp => hp.1)

theorem chi2_equiv (a s : K) (h : List.Forall₂ (PtEquiv big ln1m) ps ps') :
    chi2 big ln1m a s ps = chi2 big ln1m a s ps' :=
  sumBy_forall₂ _ _ (h.imp (fun _ _ hp => hp.2 a s))

theorem fit2Full_equiv (lo hi : K) (h : List.Forall₂ (PtEquiv big ln1m) ps ps') :
    fit2Full big ln1m lo hi ps = fit2Full big ln1m lo hi ps' := by
  simp only [fit2Full, fit2_ls lo hi (PtEquiv.ls h), chi2_equiv _ _ h]

theorem fit3PerDist_equiv (lo hi : K) {pss pss' : List (List (Pt K))}
    (h : List.Forall₂ (List.Forall₂ (PtEquiv big ln1m)) pss pss') :
    fit3PerDist big ln1m lo hi pss = fit3PerDist big ln1m lo hi pss' := by
  unfold fit3PerDist
  induction h with
  | nil => rfl
  | cons hab _ ih => simp only [List.map_cons, optAv_ls (PtEquiv.ls hab), chi2_equiv _ _ hab, ih]

theorem fit3_equiv (lo hi : K) (logd : List K) {pss pss' : List (List (Pt K))}
    (h : List.Forall₂ (List.Forall₂ (PtEquiv big ln1m)) pss pss') :
    fit3 big ln1m lo hi logd pss = fit3 big ln1m lo hi logd pss' := by
  simp only [fit3, fit3PerDist_equiv lo hi h]

end equiv

/-! ## what `logTransform` and `mkPts` produce -/

theorem logTransform_flag (lg : K → K) (ln10 : K) (o : Obs K) :
    (logTransform lg ln10 o).flag = o.flag := by
  unfold logTransform
  by_cases h1 : o.flag = 1
  · simp [h1]
  · by_cases h23 : o.flag = 2 ∨ o.flag = 3
    · simp [h1, h23]
    · by_cases h4 : o.flag = 4
      · simp [h4]
      · simp [h1, h23, h4]

theorem logTransform_w_zero (lg : K → K) (ln10 : K) (o : Obs K) (h1 : o.flag ≠ 1) (h4 : o.flag ≠ 4) :
    (logTransform lg ln10 o).w = 0 := by
  unfold logTransform
  by_cases h23 : o.flag = 2 ∨ o.flag = 3
  · simp [h1, h23]
  · simp [h1, h23, h4]

theorem logTransform_w_nonneg (lg : K → K) (ln10 : K) (o : Obs K) :
    0 ≤ (logTransform lg ln10 o).w := by
  unfold logTransform
  by_cases h1 : o.flag = 1
  · simp only [h1, if_true]
    exact div_nonneg zero_le_one (mul_self_nonneg _)
  · by_cases h23 : o.flag = 2 ∨ o.flag = 3
    · simp [h1, h23]
    · by_cases h4 : o.flag = 4
      · simp only [h4, if_true]
        rw [if_neg (by omega), if_neg (by omega)]
        exact div_nonneg zero_le_one (mul_self_nonneg _)
      · simp [h1, h23, h4]

/-- a fitted band (flag 1 with non-zero flux and error, `ln 10 ≠ 0`; flag 4 with non-zero error) has
    strictly positive weight -/
theorem logTransform_w_pos (lg : K → K) (ln10 : K) (hln : ln10 ≠ 0) (o : Obs K)
    (h : (o.flag = 1 ∧ o.flux ≠ 0 ∧ o.err ≠ 0) ∨ (o.flag = 4 ∧ o.err ≠ 0)) :
    0 < (logTransform lg ln10 o).w := by
  unfold logTransform
  rcases h with ⟨h1, hf, he⟩ | ⟨h4, he⟩
  · simp only [h1, if_true]
    have hrel : o.err / o.flux ≠ 0 := div_ne_zero he hf
    have habs : absK (o.err / o.flux) ≠ 0 := by
      unfold absK; split
      · exact neg_ne_zero.mpr hrel
      · exact hrel
    exact div_pos zero_lt_one (mul_self_pos.mpr (div_ne_zero habs hln))
  · rw [if_neg (by omega), if_neg (by omega), if_pos h4]
    exact div_pos zero_lt_one (mul_self_pos.mpr he)

/-- a band of `mkPts` is built from one transformed observation, one model flux, one coefficient -/
theorem mem_mkPts {los : List (LogObs K)} {mfs ks : List K} {p : Pt K} (hp : p ∈ mkPts los mfs ks) :
    ∃ o ∈ los, ∃ mf k, p = { r := o.lf - mf, k := k, q := scLaw, w := o.w, flag := o.flag, e := o.le } := by
  induction los generalizing mfs ks with
  | nil => simp [mkPts] at hp
  | cons o os ih =>
    cases mfs with
    | nil => simp [mkPts] at hp
    | cons mf mfs =>
      cases ks with
      | nil => simp [mkPts] at hp
      | cons k ks =>
        simp only [mkPts, List.mem_cons] at hp
        rcases hp with rfl | hp
        · exact ⟨o, List.mem_cons_self, mf, k, rfl⟩
        · obtain ⟨o', ho', r⟩ := ih hp
          exact ⟨o', List.mem_cons_of_mem _ ho', r⟩

/-- `mkPts` carries a band-wise relation on transformed observations over to the points -/
theorem mkPts_forall₂ {R : LogObs K → LogObs K → Prop} {S : Pt K → Pt K → Prop}
    (hRS : ∀ o o' mf k, R o o' →
      S { r := o.lf - mf, k := k, q := scLaw, w := o.w, flag := o.flag, e := o.le }
        { r := o'.lf - mf, k := k, q := scLaw, w := o'.w, flag := o'.flag, e := o'.le })
    {los los' : List (LogObs K)} (h : List.Forall₂ R los los') (mfs ks : List K) :
    List.Forall₂ S (mkPts los mfs ks) (mkPts los' mfs ks) := by
  induction h generalizing mfs ks with
  | nil => simp [mkPts]
  | cons hab _ ih =>
    cases mfs with
    | nil => simp [mkPts]
    | cons mf mfs =>
      cases ks with
      | nil => simp [mkPts]
      | cons k ks =>
        simp only [mkPts]
        exact List.Forall₂.cons (hRS _ _ mf k hab) (ih mfs ks)

/-- `mkPts` is a map over the zipped triple (band of the source, model flux, coefficient) -/
theorem mkPts_eq_map_zip (los : List (LogObs K)) (mfs ks : List K) :
    mkPts los mfs ks = (los.zip (mfs.zip ks)).map
      (fun t => { r := t.1.lf - t.2.1, k := t.2.2, q := scLaw, w := t.1.w, flag := t.1.flag, e := t.1.le }) := by
  induction los generalizing mfs ks with
  | nil => simp [mkPts]
  | cons o os ih =>
    cases mfs with
    | nil => simp [mkPts]
    | cons mf mfs =>
      cases ks with
      | nil => simp [mkPts]
      | cons k ks => simp [mkPts, ih]

/-! ## chi² terms -/

theorem chiTerm_zero_of_w (big : K) (ln1m : K → K) (a s : K) (p : Pt K)
    (hw : p.w = 0) (h2 : p.flag ≠ 2) (h3 : p.flag ≠ 3) : chiTerm big ln1m a s p = 0 := by
  simp [chiTerm, hw, h2, h3]

theorem penalty_nonneg (big : K) (ln1m : K → K) (c : K) (hbig : 0 ≤ big) (hc : c ≠ 1 → ln1m c ≤ 0) :
    0 ≤ penalty big ln1m c := by
  unfold penalty
  by_cases h : c = 1
  · simp [h, hbig]
  · rw [if_neg h, two_eq]
    have := hc h
    nlinarith

theorem chiTerm_nonneg (big : K) (ln1m : K → K) (a s : K) (p : Pt K) (hw : 0 ≤ p.w) (hbig : 0 ≤ big)
    (hc : (p.flag = 2 ∨ p.flag = 3) → p.e ≠ 1 → ln1m p.e ≤ 0) : 0 ≤ chiTerm big ln1m a s p := by
  have hd : 0 ≤ (p.r - (a * p.k + s * p.q)) * (p.r - (a * p.k + s * p.q)) * p.w :=
    mul_nonneg (mul_self_nonneg _) hw
  unfold chiTerm
  simp only
  by_cases h0 : p.flag = 0
  · simp [h0]
  · rw [if_neg h0]
    by_cases h2 : p.flag = 2
    · rw [if_pos h2]
      split
      · exact penalty_nonneg big ln1m p.e hbig (hc (Or.inl h2))
      · exact hd
    · rw [if_neg h2]
      by_cases h3 : p.flag = 3
      · rw [if_pos h3]
        split
        · exact penalty_nonneg big ln1m p.e hbig (hc (Or.inr h3))
        · exact hd
      · rw [if_neg h3]; exact hd


/-! ## from bands of the source to points -/

/-- the point `mkPts` builds from one transformed band -/
def mkPt (o : LogObs K) (mf k : K) : Pt K :=
  { r := o.lf - mf, k := k, q := scLaw, w := o.w, flag := o.flag, e := o.le }

/-- two transformed bands the fitter cannot tell apart, whatever the model flux and coefficient -/
def LogEquiv (big : K) (ln1m : K → K) (l l' : LogObs K) : Prop :=
  ∀ mf k, PtEquiv big ln1m (mkPt l mf k) (mkPt l' mf k)

/-- same, for the least-squares part only -/
def LogLS (l l' : LogObs K) : Prop := ∀ mf k, PtLS (mkPt l mf k) (mkPt l' mf k)

theorem obsPts_rel {S : Pt K → Pt K → Prop} (lg : K → K) (ln10 : K) {os os' : List (Obs K)}
    (h : List.Forall₂ (fun o o' => ∀ mf k, S (mkPt (logTransform lg ln10 o) mf k)
      (mkPt (logTransform lg ln10 o') mf k)) os os') (ks mf : List K) :
    List.Forall₂ S (obsPts lg ln10 os ks mf) (obsPts lg ln10 os' ks mf) := by
  unfold obsPts
  refine mkPts_forall₂ (R := fun l l' => ∀ mf k, S (mkPt l mf k) (mkPt l' mf k))
    (fun o o' mf k hR => hR mf k) ?_ mf ks
  rw [List.forall₂_map_left_iff, List.forall₂_map_right_iff]
  exact h

/-- sources whose bands are pairwise indistinguishable to the fitter get identical results, for every
    model, in both modes -/
theorem obsFit_equiv (lg : K → K) (ln10 big : K) (ln1m : K → K) {os os' : List (Obs K)}
    (h : List.Forall₂ (fun o o' => LogEquiv big ln1m (logTransform lg ln10 o) (logTransform lg ln10 o'))
      os os') :
    (∀ lo hi ks mf, obsFit2 lg ln10 big ln1m lo hi os ks mf = obsFit2 lg ln10 big ln1m lo hi os' ks mf) ∧
    (∀ lo hi logd ks mfd, obsFit3 lg ln10 big ln1m lo hi logd os ks mfd
        = obsFit3 lg ln10 big ln1m lo hi logd os' ks mfd) := by
  constructor
  · intro lo hi ks mf
    exact fit2Full_equiv lo hi (obsPts_rel lg ln10 h ks mf)
  · intro lo hi logd ks mfd
    unfold obsFit3
    apply fit3_equiv
    rw [List.forall₂_map_left_iff, List.forall₂_map_right_iff, List.forall₂_same]
    intro mf _
    exact obsPts_rel lg ln10 h ks mf

end SF
