import SedVerif.Proofs.Parse
/-!
# `parseNum ∘ renderE3 / renderF5` (core Lean only)

The renderer writes decimal digits; the parser reads them back: `parseNum (renderE3 d) = d.val` for
every four-digit mantissa, `parseNum (renderF5 d) = d.val` for every value in units of `10⁻⁵`.
-/
namespace SF.Parse

theorem digitVal_digitChar (d : Nat) (h : d < 10) : digitVal (digitChar d) = some d := by
  have : d = 0 ∨ d = 1 ∨ d = 2 ∨ d = 3 ∨ d = 4 ∨ d = 5 ∨ d = 6 ∨ d = 7 ∨ d = 8 ∨ d = 9 := by omega
  rcases this with rfl | rfl | rfl | rfl | rfl | rfl | rfl | rfl | rfl | rfl <;> decide

theorem isWs_digitChar (d : Nat) (h : d < 10) : isWs (digitChar d) = false := by
  have : d = 0 ∨ d = 1 ∨ d = 2 ∨ d = 3 ∨ d = 4 ∨ d = 5 ∨ d = 6 ∨ d = 7 ∨ d = 8 ∨ d = 9 := by omega
  rcases this with rfl | rfl | rfl | rfl | rfl | rfl | rfl | rfl | rfl | rfl <;> decide

theorem parseSign_digitChar (d : Nat) (h : d < 10) (r : List Char) :
    parseSign (digitChar d :: r) = (false, digitChar d :: r) := by
  have : d = 0 ∨ d = 1 ∨ d = 2 ∨ d = 3 ∨ d = 4 ∨ d = 5 ∨ d = 6 ∨ d = 7 ∨ d = 8 ∨ d = 9 := by omega
  rcases this with rfl | rfl | rfl | rfl | rfl | rfl | rfl | rfl | rfl | rfl <;> rfl

theorem mod_pow_succ (n w : Nat) : n % 10 ^ (w + 1) = (n / 10 % 10 ^ w) * 10 + n % 10 := by
  rw [Nat.pow_succ, Nat.mul_comm (10 ^ w) 10, Nat.mod_mul]
  omega

/-- scanning the digits that `digitsW` wrote continues on what follows, with the value accumulated -/
theorem scanDigits_digitsW : ∀ (w n : Nat) (rest : List Char) (acc cnt : Nat),
    scanDigits (digitsW w n ++ rest) acc cnt = scanDigits rest (acc * 10 ^ w + n % 10 ^ w) (cnt + w)
  | 0, n, rest, acc, cnt => by simp [digitsW, Nat.mod_one]
  | w + 1, n, rest, acc, cnt => by
    simp only [digitsW, List.append_assoc, List.singleton_append]
    rw [scanDigits_digitsW w (n / 10) _ acc cnt]
    simp only [scanDigits, digitVal_digitChar (n % 10) (Nat.mod_lt _ (by omega))]
    rw [mod_pow_succ]
    congr 1
    · rw [Nat.pow_succ]
      rw [Nat.add_mul, Nat.mul_assoc, Nat.add_assoc]

theorem ndigitsAux_spec : ∀ (f n : Nat), n ≤ f → n < 10 ^ ndigitsAux f n
  | 0, n, h => by simp [ndigitsAux]; omega
  | f + 1, n, h => by
    simp only [ndigitsAux]
    by_cases h10 : n < 10
    · simp [h10]
    · rw [if_neg h10]
      have := ndigitsAux_spec f (n / 10) (by omega)
      rw [Nat.pow_succ]
      omega

theorem ndigits_spec (n : Nat) : n < 10 ^ ndigits n := ndigitsAux_spec n n (Nat.le_refl _)

theorem ndigitsAux_pos : ∀ (f n : Nat), 0 < ndigitsAux f n
  | 0, _ => by simp [ndigitsAux]
  | f + 1, n => by
    simp only [ndigitsAux]
    split <;> omega

theorem lt_pow_of_le {a w W : Nat} (h : a < 10 ^ w) (hw : w ≤ W) : a < 10 ^ W :=
  Nat.lt_of_lt_of_le h (Nat.pow_le_pow_right (by omega) hw)

theorem scanDigits_nil (acc cnt : Nat) : scanDigits [] acc cnt = (acc, cnt, []) := rfl

/-- all of `digitsW w a` read from zero, `a < 10^w` -/
theorem scanDigits_digitsW_end (w a : Nat) (h : a < 10 ^ w) :
    scanDigits (digitsW w a) 0 0 = (a, w, []) := by
  have := scanDigits_digitsW w a [] 0 0
  rw [List.append_nil] at this
  rw [this, scanDigits_nil, Nat.mod_eq_of_lt h]
  simp

theorem digitsW_ne_nil (w n : Nat) (h : 0 < w) : digitsW w n ≠ [] := by
  cases w with
  | zero => omega
  | succ w => simp [digitsW]

theorem digitsW_noWs : ∀ (w n : Nat), ∀ c ∈ digitsW w n, isWs c = false
  | 0, _, c, h => by simp [digitsW] at h
  | w + 1, n, c, h => by
    simp only [digitsW, List.mem_append, List.mem_singleton] at h
    rcases h with h | rfl
    · exact digitsW_noWs w _ c h
    · exact isWs_digitChar _ (Nat.mod_lt _ (by omega))

/-! ### the parser on a rendered number, stage by stage -/

theorem scanDigits_stop (c : Char) (r : List Char) (acc cnt : Nat) (h : digitVal c = none) :
    scanDigits (c :: r) acc cnt = (acc, cnt, c :: r) := by simp [scanDigits, h]

theorem parseNum_eval_exp (cs r0 r1 r2 : List Char) (neg : Bool) (ip ic mant fc : Nat) (ex : Int)
    (hs : parseSign cs = (neg, r0)) (h1 : scanDigits r0 0 0 = (ip, ic, '.' :: r1))
    (h2 : scanDigits r1 ip 0 = (mant, fc, 'e' :: r2)) (hne : ic + fc ≠ 0)
    (he : parseExp r2 = some ex) :
    parseNum cs = some (if neg then -((mant : Rat) * pow10 (ex - fc)) else (mant : Rat) * pow10 (ex - fc)) := by
  unfold parseNum
  simp only [hs, h1, h2, if_neg hne, he, true_or, if_true]

theorem parseNum_eval_noexp (cs r0 r1 : List Char) (neg : Bool) (ip ic mant fc : Nat)
    (hs : parseSign cs = (neg, r0)) (h1 : scanDigits r0 0 0 = (ip, ic, '.' :: r1))
    (h2 : scanDigits r1 ip 0 = (mant, fc, [])) (hne : ic + fc ≠ 0) :
    parseNum cs = some (if neg then -((mant : Rat) * pow10 (0 - fc)) else (mant : Rat) * pow10 (0 - fc)) := by
  unfold parseNum
  simp only [hs, h1, h2, if_neg hne]

theorem parseSign_signChars (neg : Bool) (d : Nat) (hd : d < 10) (r : List Char) :
    parseSign (signChars neg ++ digitChar d :: r) = (neg, digitChar d :: r) := by
  cases neg with
  | true => rfl
  | false => exact parseSign_digitChar d hd r

theorem digitsW_one (x : Nat) : digitsW 1 x = [digitChar (x % 10)] := by simp [digitsW]

theorem natDigits_cons (n : Nat) : ∃ d r, d < 10 ∧ natDigits n = digitChar d :: r := by
  unfold natDigits
  have hp : 0 < ndigits n := ndigitsAux_pos n n
  generalize ndigits n = w at hp
  induction w generalizing n with
  | zero => omega
  | succ w ih =>
    cases w with
    | zero => exact ⟨n % 10, [], Nat.mod_lt _ (by omega), by simp [digitsW]⟩
    | succ w =>
      obtain ⟨d, r, hd, hr⟩ := ih (n / 10) (by omega)
      refine ⟨d, r ++ [digitChar (n % 10)], hd, ?_⟩
      rw [digitsW, hr]; rfl

theorem parseExp_render (e : Int) :
    parseExp ((if e < 0 then '-' else '+') :: digitsW (max 2 (ndigits e.natAbs)) e.natAbs) = some e := by
  have hw : e.natAbs < 10 ^ (max 2 (ndigits e.natAbs)) :=
    lt_pow_of_le (ndigits_spec _) (Nat.le_max_right _ _)
  have hsc := scanDigits_digitsW_end _ _ hw
  have h2 : max 2 (ndigits e.natAbs) ≠ 0 := by
    have := Nat.le_max_left 2 (ndigits e.natAbs); omega
  unfold parseExp
  by_cases he : e < 0
  · simp only [if_pos he]
    have : parseSign ('-' :: digitsW (max 2 (ndigits e.natAbs)) e.natAbs)
        = (true, digitsW (max 2 (ndigits e.natAbs)) e.natAbs) := rfl
    simp only [this, hsc, h2, ne_eq, not_true_eq_false, or_self, if_false, if_true, Option.some.injEq]
    omega
  · simp only [if_neg he]
    have : parseSign ('+' :: digitsW (max 2 (ndigits e.natAbs)) e.natAbs)
        = (false, digitsW (max 2 (ndigits e.natAbs)) e.natAbs) := rfl
    simp only [this, hsc, h2, ne_eq, not_true_eq_false, or_self, if_false, Option.some.injEq]
    simp only [Bool.false_eq_true, if_false]
    omega

/-- **reading back `%.3e`.**  For a mantissa of at most four digits the parser returns exactly the
    decimal that was rendered. -/
theorem parseNum_renderE3 (d : Dec) (hm : d.m < 10000) : parseNum (renderE3 d) = some d.val := by
  have hd0 : d.m / 1000 % 10 < 10 := Nat.mod_lt _ (by omega)
  have hdot : digitVal '.' = none := by decide
  have hE : digitVal 'e' = none := by decide
  unfold renderE3
  simp only [digitsW_one, List.append_assoc, List.singleton_append]
  have h1 : scanDigits (digitChar (d.m / 1000 % 10) :: '.' :: (digitsW 3 (d.m % 1000) ++
      'e' :: ((if d.e10 + 3 < 0 then '-' else '+') ::
        digitsW (max 2 (ndigits (d.e10 + 3).natAbs)) (d.e10 + 3).natAbs))) 0 0
      = (d.m / 1000 % 10, 1, '.' :: (digitsW 3 (d.m % 1000) ++
      'e' :: ((if d.e10 + 3 < 0 then '-' else '+') ::
        digitsW (max 2 (ndigits (d.e10 + 3).natAbs)) (d.e10 + 3).natAbs))) := by
    simp only [scanDigits, digitVal_digitChar _ hd0, hdot]
    simp
  have h2 : scanDigits (digitsW 3 (d.m % 1000) ++
      'e' :: ((if d.e10 + 3 < 0 then '-' else '+') ::
        digitsW (max 2 (ndigits (d.e10 + 3).natAbs)) (d.e10 + 3).natAbs)) (d.m / 1000 % 10) 0
      = (d.m, 3, 'e' :: ((if d.e10 + 3 < 0 then '-' else '+') ::
        digitsW (max 2 (ndigits (d.e10 + 3).natAbs)) (d.e10 + 3).natAbs)) := by
    rw [scanDigits_digitsW, scanDigits_stop _ _ _ _ hE]
    simp only [Nat.zero_add, Prod.mk.injEq, and_true]
    omega
  rw [parseNum_eval_exp _ _ _ _ d.neg _ _ _ _ (d.e10 + 3)
    (parseSign_signChars d.neg _ hd0 _) h1 h2 (by omega) (parseExp_render _)]
  unfold Dec.val
  have : d.e10 + 3 - ((3 : Nat) : Int) = d.e10 := by omega
  rw [this]

/-- **reading back `%.5f`.** -/
theorem parseNum_renderF5 (d : Dec) (he : d.e10 = -5) : parseNum (renderF5 d) = some d.val := by
  have hdot : digitVal '.' = none := by decide
  obtain ⟨d0, r, hd0, hr⟩ := natDigits_cons (d.m / 100000)
  have hs : parseSign (renderF5 d) = (d.neg, natDigits (d.m / 100000) ++ '.' :: digitsW 5 (d.m % 100000)) := by
    unfold renderF5
    rw [hr]
    simp only [List.cons_append, List.append_assoc]
    exact parseSign_signChars d.neg d0 hd0 _
  have h1 : scanDigits (natDigits (d.m / 100000) ++ '.' :: digitsW 5 (d.m % 100000)) 0 0
      = (d.m / 100000, ndigits (d.m / 100000), '.' :: digitsW 5 (d.m % 100000)) := by
    unfold natDigits
    rw [scanDigits_digitsW, scanDigits_stop _ _ _ _ hdot, Nat.mod_eq_of_lt (ndigits_spec _)]
    simp
  have h2 : scanDigits (digitsW 5 (d.m % 100000)) (d.m / 100000) 0 = (d.m, 5, []) := by
    have := scanDigits_digitsW 5 (d.m % 100000) [] (d.m / 100000) 0
    rw [List.append_nil] at this
    rw [this, scanDigits_nil]
    simp only [Nat.zero_add, Prod.mk.injEq, and_true]
    omega
  rw [parseNum_eval_noexp _ _ _ d.neg _ _ _ _ hs h1 h2 (by omega)]
  unfold Dec.val
  rw [he]
  rfl

/-! ### `parsePy` extends `parseNum` -/

theorem stripUsAux_id : ∀ (prev : Bool) (l : List Char), '_' ∉ l → stripUsAux prev l = some l
  | _, [], _ => rfl
  | prev, c :: r, h => by
    have hc : c ≠ '_' := fun e => h (by simp [e])
    have hr : '_' ∉ r := fun e => h (by simp [e])
    simp only [stripUsAux, if_neg hc, stripUsAux_id (isDigit c) r hr]

theorem parsePy_of_parseNum (s : Str) (q : Rat) (hus : '_' ∉ s) (h : parseNum s = some q) :
    parsePy s = some (.fin q) := by
  unfold parsePy stripUs
  rw [stripUsAux_id false s hus]
  simp only [h]

theorem parseInt_of_plain (s : Str) (hus : '_' ∉ s) : parseInt s = parseIntPlain s := by
  unfold parseInt stripUs
  rw [stripUsAux_id false s hus]

/-! ### rendered numbers are tokens -/

theorem signChars_noWs (neg : Bool) : ∀ c ∈ signChars neg, isWs c = false := by
  cases neg <;> simp [signChars] <;> decide

theorem tokOk_renderE3 (d : Dec) : TokOk (renderE3 d) := by
  unfold TokOk renderE3
  refine ⟨by simp [digitsW], ?_⟩
  intro c hc
  simp only [List.mem_append, List.mem_cons] at hc
  rcases hc with (h | h) | rfl | h | rfl | h | h
  · exact signChars_noWs _ c h
  · exact digitsW_noWs _ _ c h
  · decide
  · exact digitsW_noWs _ _ c h
  · decide
  · rw [h]; split <;> decide
  · exact digitsW_noWs _ _ c h

theorem tokOk_renderF5 (d : Dec) : TokOk (renderF5 d) := by
  unfold TokOk renderF5
  refine ⟨by simp, ?_⟩
  intro c hc
  simp only [List.mem_append, List.mem_cons] at hc
  rcases hc with (h | h) | rfl | h
  · exact signChars_noWs _ c h
  · exact digitsW_noWs _ _ c h
  · decide
  · exact digitsW_noWs _ _ c h

end SF.Parse
