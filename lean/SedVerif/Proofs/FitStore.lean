import SedVerif.Model.FitStore

/-! Soundness of the static check `writesFreshOnly` for the store model of `Models.fit` (core Lean only). -/
namespace SF
variable {C : Type}

/-- every name in `known` is bound to an array allocated during the run -/
def KnownFresh (known : List Var) (h : Heap C) : Prop :=
  ∀ x ∈ known, ∃ l, h.loc x = some l ∧ l.owner = .fresh

theorem lookup_setCell_ne (cells : List (Loc × C)) (l l' : Loc) (c : C) (hne : l ≠ l') :
    (setCell cells l' c).lookup l = cells.lookup l := by
  induction cells with
  | nil => rfl
  | cons p ps ih =>
    obtain ⟨a, b⟩ := p
    simp only [setCell, List.map_cons] at ih ⊢
    by_cases ha : a = l'
    · subst ha
      have h1 : (l == a) = false := by simpa using hne
      simp only [if_true, List.lookup_cons, h1]
      exact ih
    · simp only [if_neg ha, List.lookup_cons]
      cases (l == a) <;> simp [ih]

theorem step_unchanged (known : List Var) (h h' : Heap C) (i : Instr C) (is : List (Instr C))
    (hinv : KnownFresh known h) (hchk : writesFreshOnly known (i :: is) = true) (hs : step h i = some h') :
    (∀ l, l.owner ≠ .fresh → h'.get l = h.get l) ∧
    ∃ known', KnownFresh known' h' ∧ writesFreshOnly known' is = true := by
  cases i with
  | new dst f =>
    simp only [step, Option.some.injEq] at hs
    subst hs
    simp only [writesFreshOnly] at hchk
    refine ⟨?_, dst :: known, ?_, hchk⟩
    · intro l hl
      have : (l == (⟨.fresh, h.next⟩ : Loc)) = false := by
        simp only [beq_eq_false_iff_ne, ne_eq]
        intro he; rw [he] at hl; exact hl rfl
      simp only [Heap.get, List.lookup_cons, this]
    · intro x hx
      by_cases hxd : x = dst
      · subst hxd
        exact ⟨⟨.fresh, h.next⟩, by simp [Heap.loc], rfl⟩
      · rcases List.mem_cons.mp hx with h1 | h1
        · exact absurd h1 hxd
        · obtain ⟨l, hl, hf⟩ := hinv x h1
          refine ⟨l, ?_, hf⟩
          have : (x == dst) = false := by simpa using hxd
          simpa [Heap.loc, List.lookup_cons, this] using hl
  | upd dst f =>
    simp only [writesFreshOnly, Bool.and_eq_true] at hchk
    obtain ⟨hk, hrest⟩ := hchk
    have hmem : dst ∈ known := by simpa using hk
    obtain ⟨l0, hl0, hf0⟩ := hinv dst hmem
    simp only [step, hl0] at hs
    cases hg : h.get l0 with
    | none => simp [hg] at hs
    | some c =>
      simp only [hg, Option.some.injEq] at hs
      subst hs
      refine ⟨?_, known, hinv, hrest⟩
      intro l hl
      have hne : l ≠ l0 := by intro he; rw [he] at hl; exact hl hf0
      simp only [Heap.get]
      exact lookup_setCell_ne _ _ _ _ hne
  | bind dst src =>
    simp only [writesFreshOnly] at hchk
    simp only [step] at hs
    cases hsrc : h.loc src with
    | none => simp [hsrc] at hs
    | some l0 =>
      simp only [hsrc, Option.some.injEq] at hs
      subst hs
      refine ⟨fun _ _ => rfl, _, ?_, hchk⟩
      by_cases hk : known.contains src = true
      · simp only [hk, if_true]
        have hmem : src ∈ known := by simpa using hk
        obtain ⟨l1, hl1, hf1⟩ := hinv src hmem
        have : l1 = l0 := by rw [hsrc] at hl1; exact (Option.some.inj hl1).symm
        subst this
        intro x hx
        by_cases hxd : x = dst
        · subst hxd; exact ⟨l1, by simp [Heap.loc], hf1⟩
        · rcases List.mem_cons.mp hx with h1 | h1
          · exact absurd h1 hxd
          · obtain ⟨l, hl, hf⟩ := hinv x h1
            have : (x == dst) = false := by simpa using hxd
            exact ⟨l, by simpa [Heap.loc, List.lookup_cons, this] using hl, hf⟩
      · simp only [hk, if_false, Bool.false_eq_true]
        intro x hx
        obtain ⟨hx1, hxd⟩ := List.mem_filter.mp hx
        have hxd' : x ≠ dst := by simpa using hxd
        obtain ⟨l, hl, hf⟩ := hinv x hx1
        have : (x == dst) = false := by simpa using hxd'
        exact ⟨l, by simpa [Heap.loc, List.lookup_cons, this] using hl, hf⟩
  | arg dst l0 =>
    simp only [writesFreshOnly] at hchk
    simp only [step, Option.some.injEq] at hs
    subst hs
    refine ⟨fun _ _ => rfl, _, ?_, hchk⟩
    by_cases hk : l0.owner = .fresh
    · simp only [hk, if_true]
      intro x hx
      by_cases hxd : x = dst
      · subst hxd; exact ⟨l0, by simp [Heap.loc], hk⟩
      · rcases List.mem_cons.mp hx with h1 | h1
        · exact absurd h1 hxd
        · obtain ⟨l, hl, hf⟩ := hinv x h1
          have : (x == dst) = false := by simpa using hxd
          exact ⟨l, by simpa [Heap.loc, List.lookup_cons, this] using hl, hf⟩
    · simp only [hk, if_false]
      intro x hx
      obtain ⟨hx1, hxd⟩ := List.mem_filter.mp hx
      have hxd' : x ≠ dst := by simpa using hxd
      obtain ⟨l, hl, hf⟩ := hinv x hx1
      have : (x == dst) = false := by simpa using hxd'
      exact ⟨l, by simpa [Heap.loc, List.lookup_cons, this] using hl, hf⟩

/-- a program that passes the static check leaves every array it did not allocate untouched -/
theorem run_unchanged (prog : List (Instr C)) : ∀ (known : List Var) (h h' : Heap C),
    KnownFresh known h → writesFreshOnly known prog = true → run h prog = some h' →
    ∀ l, l.owner ≠ .fresh → h'.get l = h.get l := by
  induction prog with
  | nil =>
    intro known h h' _ _ hr l _
    simp only [run, Option.some.injEq] at hr
    rw [hr]
  | cons i is ih =>
    intro known h h' hinv hchk hr l hl
    simp only [run] at hr
    cases hs : step h i with
    | none => simp [hs] at hr
    | some h1 =>
      simp only [hs] at hr
      obtain ⟨hun, known', hinv', hchk'⟩ := step_unchanged known h h1 i is hinv hchk hs
      rw [ih known' h1 h' hinv' hchk' hr l hl, hun l hl]

theorem run_append (h : Heap C) (a b : List (Instr C)) :
    run h (a ++ b) = (run h a).bind (fun h1 => run h1 b) := by
  induction a generalizing h with
  | nil => rfl
  | cons i is ih =>
    simp only [List.cons_append, run]
    cases step h i with
    | none => rfl
    | some h1 => exact ih h1

theorem knownFresh_nil (h : Heap C) : KnownFresh [] h := fun _ hx => by cases hx

theorem progCall_check (p : Payload C) (dist : Bool) (k : Nat) :
    writesFreshOnly [] (progCall p dist k) = true := by
  cases dist <;> rfl

end SF
