import SedVerif.Model.Resolved
import SedVerif.Proofs.Rank
import SedVerif.Proofs.Dist
import Mathlib.Tactic.Ring
import Mathlib.Tactic.Linarith
import Mathlib.Tactic.FieldSimp
import Mathlib.Algebra.Order.Field.Basic

/-! Helper lemmas for the resolved-source rule (`Model/Resolved.lean`).  Everything lives in `SF.Res`. -/
namespace SF
namespace Res
open Dist
variable {K : Type} [Field K] [LinearOrder K] [IsStrictOrderedRing K]

/-! ## order facts on extended floats -/

theorem ef_lt_trans {a b c : EF K} : EF.lt a b = true → EF.lt b c = true → EF.lt a c = true := by
  cases a <;> cases b <;> cases c <;> simp [EF.lt]
  exact _root_.lt_trans

theorem ef_lt_of_lt_of_le {a b c : EF K} : EF.lt a b = true → EF.le b c = true → EF.lt a c = true := by
  cases a <;> cases b <;> cases c <;> simp [EF.lt, EF.le]
  exact _root_.lt_of_lt_of_le

theorem ef_le_of_not_lt {a b : EF K} (ha : a ≠ EF.nan) (hb : b ≠ EF.nan) :
    EF.lt a b = false → EF.le b a = true := by
  cases a <;> cases b <;> simp_all [EF.lt, EF.le]

theorem ef_le_refl {a : EF K} (ha : a ≠ EF.nan) : EF.le a a = true := by
  cases a <;> simp_all [EF.le]

theorem ef_le_trans {a b c : EF K} : EF.le a b = true → EF.le b c = true → EF.le a c = true := by
  cases a <;> cases b <;> cases c <;> simp [EF.le]
  exact _root_.le_trans

theorem ef_lt_ne_nan_left {a b : EF K} : EF.lt a b = true → a ≠ EF.nan := by
  cases a <;> simp [EF.lt]

theorem ef_lt_ne_nan_right {a b : EF K} : EF.lt a b = true → b ≠ EF.nan := by
  cases a <;> cases b <;> simp [EF.lt]

/-! ## `np.argmin` on a list without NaN -/

def NoNan (l : List (EF K)) : Prop := ∀ x ∈ l, x ≠ EF.nan

theorem argminAux_min (xs : List (EF K)) (i bi : Nat) (bv : EF K) (hn : NoNan xs) (hbv : bv ≠ EF.nan) :
    (argminFirstEFAux xs i bi bv).2 ≠ EF.nan ∧
    EF.le (argminFirstEFAux xs i bi bv).2 bv = true ∧
    (∀ x ∈ xs, EF.le (argminFirstEFAux xs i bi bv).2 x = true) ∧
    (argminFirstEFAux xs i bi bv = (bi, bv) ∨
      ∃ k, k < xs.length ∧ (argminFirstEFAux xs i bi bv).1 = i + k ∧
        xs[k]? = some (argminFirstEFAux xs i bi bv).2 ∧
        EF.lt (argminFirstEFAux xs i bi bv).2 bv = true ∧
        ∀ j y, j < k → xs[j]? = some y → EF.lt (argminFirstEFAux xs i bi bv).2 y = true) := by
  induction xs generalizing i bi bv with
  | nil =>
    refine ⟨by simpa [argminFirstEFAux] using hbv, by simpa [argminFirstEFAux] using ef_le_refl hbv, by simp, Or.inl rfl⟩
  | cons x xs ih =>
    have hx : x ≠ EF.nan := hn x (by simp)
    have hn' : NoNan xs := fun y hy => hn y (by simp [hy])
    by_cases hlt : EF.lt x bv = true
    · have hstep : argminFirstEFAux (x :: xs) i bi bv = argminFirstEFAux xs (i + 1) i x := by
        simp [argminFirstEFAux, hlt]
      rw [hstep]
      obtain ⟨h0, h1, h2, h3⟩ := ih (i + 1) i x hn' hx
      refine ⟨h0, ef_le_trans h1 (EF.le_of_lt hlt), ?_, ?_⟩
      · intro y hy
        rcases List.mem_cons.mp hy with rfl | hy
        · exact h1
        · exact h2 y hy
      · right
        rcases h3 with h3 | ⟨k, hk, hk1, hk2, hk3, hk4⟩
        · refine ⟨0, by simp, by rw [h3]; simp, by rw [h3]; simp, by rw [h3]; exact hlt, ?_⟩
          intro j y hj; omega
        · refine ⟨k + 1, by simp; omega, by rw [hk1]; omega, by simpa using hk2, ef_lt_trans hk3 hlt, ?_⟩
          intro j y hj hy
          cases j with
          | zero => simp at hy; subst hy; exact hk3
          | succ j' => exact hk4 j' y (by omega) (by simpa using hy)
    · have hlt' : EF.lt x bv = false := by simpa using hlt
      have hstep : argminFirstEFAux (x :: xs) i bi bv = argminFirstEFAux xs (i + 1) bi bv := by
        simp [argminFirstEFAux, hlt']
      rw [hstep]
      obtain ⟨h0, h1, h2, h3⟩ := ih (i + 1) bi bv hn' hbv
      have hbx : EF.le bv x = true := ef_le_of_not_lt hx hbv hlt'
      refine ⟨h0, h1, ?_, ?_⟩
      · intro y hy
        rcases List.mem_cons.mp hy with rfl | hy
        · exact ef_le_trans h1 hbx
        · exact h2 y hy
      · rcases h3 with h3 | ⟨k, hk, hk1, hk2, hk3, hk4⟩
        · left; exact h3
        · right
          refine ⟨k + 1, by simp; omega, by rw [hk1]; omega, by simpa using hk2, hk3, ?_⟩
          intro j y hj hy
          cases j with
          | zero => simp at hy; subst hy; exact ef_lt_of_lt_of_le hk3 hbx
          | succ j' => exact hk4 j' y (by omega) (by simpa using hy)

/-- `np.argmin` of a non-empty list without NaN: an existing position holding the value returned, which is
    `<=` every entry and `<` every earlier entry (first minimum) -/
theorem argminFirstEF_min (l : List (EF K)) (hne : l ≠ []) (hn : NoNan l) :
    (argminFirstEF l).1 < l.length ∧ l[(argminFirstEF l).1]? = some (argminFirstEF l).2 ∧
    (∀ x ∈ l, EF.le (argminFirstEF l).2 x = true) ∧
    (∀ j y, j < (argminFirstEF l).1 → l[j]? = some y → EF.lt (argminFirstEF l).2 y = true) := by
  obtain ⟨hlt, hget⟩ := argminFirstEF_spec l hne
  refine ⟨hlt, hget, ?_, ?_⟩
  · cases l with
    | nil => exact absurd rfl hne
    | cons x xs =>
      simp only [argminFirstEF]
      obtain ⟨_, h1, h2, _⟩ := argminAux_min xs 1 0 x (fun y hy => hn y (by simp [hy])) (hn x (by simp))
      intro y hy
      rcases List.mem_cons.mp hy with rfl | hy
      · exact h1
      · exact h2 y hy
  · cases l with
    | nil => exact absurd rfl hne
    | cons x xs =>
      simp only [argminFirstEF]
      obtain ⟨_, _, _, h3⟩ := argminAux_min xs 1 0 x (fun y hy => hn y (by simp [hy])) (hn x (by simp))
      intro j y hj hy
      rcases h3 with h3 | ⟨k, hk, hk1, hk2, hk3, hk4⟩
      · rw [h3] at hj; simp at hj
      · cases j with
        | zero => simp at hy; subst hy; exact hk3
        | succ j' =>
          rw [hk1] at hj
          exact hk4 j' y (by omega) (by simpa using hy)

/-! ## `ch_best[reset] = np.inf` followed by `np.argmin` -/

theorem maskChi_getElem? (per : List (K × K)) (ext : List Bool) (d : Nat) :
    (maskChi per ext)[d]? = (per[d]?).map (fun p => if ext.getD d false then EF.pinf else EF.fin p.2) := by
  simp [maskChi, List.getElem?_mapIdx]

theorem maskChi_noNan (per : List (K × K)) (ext : List Bool) : NoNan (maskChi per ext) := by
  intro x hx
  obtain ⟨d, hd, hget⟩ := List.getElem_of_mem hx
  have := maskChi_getElem? per ext d
  rw [List.getElem?_eq_getElem hd, hget] at this
  cases hp : per[d]? with
  | none => rw [hp] at this; simp at this
  | some p =>
    rw [hp] at this
    simp only [Option.map_some, Option.some.injEq] at this
    rw [this]
    split <;> simp

/-- the masked argmin: the position exists; if some distance is kept the position is a kept one and the value is
    the chi² there, `<=` the chi² at every kept distance and `<` the chi² at every earlier kept distance; if every
    distance is removed the result is `(0, +inf)` -/
theorem maskChi_argmin (per : List (K × K)) (ext : List Bool) (hne : per ≠ []) :
    (argminFirstEF (maskChi per ext)).1 < per.length ∧
    ((∃ d, d < per.length ∧ ext.getD d false = false) →
      ext.getD (argminFirstEF (maskChi per ext)).1 false = false ∧
      ∃ p, per[(argminFirstEF (maskChi per ext)).1]? = some p ∧
        (argminFirstEF (maskChi per ext)).2 = EF.fin p.2 ∧
        (∀ d q, per[d]? = some q → ext.getD d false = false → p.2 ≤ q.2) ∧
        (∀ d q, d < (argminFirstEF (maskChi per ext)).1 → per[d]? = some q → ext.getD d false = false → p.2 < q.2)) ∧
    ((∀ d, d < per.length → ext.getD d false = true) → argminFirstEF (maskChi per ext) = (0, EF.pinf)) := by
  have hne' : maskChi per ext ≠ [] := by
    intro h
    have := congrArg List.length h
    rw [maskChi_length] at this
    exact hne (List.length_eq_zero_iff.mp (by simpa using this))
  obtain ⟨hlt, hget, hmin, hfirst⟩ := argminFirstEF_min (maskChi per ext) hne' (maskChi_noNan per ext)
  rw [maskChi_length] at hlt
  generalize hr : argminFirstEF (maskChi per ext) = r at hlt hget hmin hfirst
  rw [maskChi_getElem?, List.getElem?_eq_getElem hlt] at hget
  simp only [Option.map_some, Option.some.injEq] at hget
  refine ⟨hlt, ?_, ?_⟩
  · rintro ⟨d0, hd0, he0⟩
    have hm0 : (if ext.getD d0 false then EF.pinf else EF.fin per[d0].2) ∈ maskChi per ext := by
      apply List.mem_of_getElem? (i := d0)
      rw [maskChi_getElem?, List.getElem?_eq_getElem hd0]; rfl
    rw [he0] at hm0
    have hle0 := hmin _ hm0
    have hkept : ext.getD r.1 false = false := by
      by_contra hc
      have hc' : ext.getD r.1 false = true := by simpa using hc
      rw [hc'] at hget
      rw [← hget] at hle0
      simp [EF.le] at hle0
    rw [hkept] at hget
    refine ⟨hkept, per[r.1], List.getElem?_eq_getElem hlt, by simpa using hget.symm, ?_, ?_⟩
    · intro d q hq hd
      have hm : EF.fin q.2 ∈ maskChi per ext := by
        apply List.mem_of_getElem? (i := d)
        rw [maskChi_getElem?, hq, Option.map_some, hd]; rfl
      have := hmin _ hm
      rw [← hget] at this
      simpa [EF.le] using this
    · intro d q hdlt hq hd
      have := hfirst d (EF.fin q.2) hdlt (by rw [maskChi_getElem?, hq, Option.map_some, hd]; rfl)
      rw [← hget] at this
      simpa [EF.lt] using this
  · intro hall
    have hv : r.2 = EF.pinf := by
      rw [hall r.1 hlt] at hget
      simpa using hget.symm
    have h0 : r.1 = 0 := by
      by_contra hc
      have hpos : 0 < r.1 := Nat.pos_of_ne_zero hc
      have h0lt : 0 < per.length := by omega
      have := hfirst 0 EF.pinf hpos (by
        rw [maskChi_getElem?, List.getElem?_eq_getElem h0lt, Option.map_some, hall 0 h0lt]; rfl)
      rw [hv] at this
      simp [EF.lt] at this
    cases r with
    | mk a b => simp at h0 hv; rw [h0, hv]

/-- a mask that removes nothing is no mask (`C04_fit3Ext_nomask` then gives the plain C02 result) -/
theorem maskChi_allFalse (per : List (K × K)) (ext : List Bool)
    (h : ∀ d, d < per.length → ext.getD d false = false) : maskChi per ext = maskChi per [] := by
  apply List.ext_getElem?
  intro d
  rw [maskChi_getElem?, maskChi_getElem?]
  cases hp : per[d]? with
  | none => rfl
  | some p =>
    have hd : d < per.length := by
      by_contra hc
      rw [List.getElem?_eq_none (by omega)] at hp
      cases hp
    rw [Option.map_some, Option.map_some, h d hd]; rfl

/-! ## `find_radius_sigma` -/

theorem maxNp_eq_ninf {a b : EF K} : EF.maxNp a b = EF.ninf → a = EF.ninf := by
  cases a <;> cases b <;> simp [EF.maxNp, EF.lt]
  all_goals (try split) <;> simp

theorem foldl_maxNp_ninf (l : List (EF K)) (a : EF K) : l.foldl EF.maxNp a = EF.ninf → a = EF.ninf := by
  induction l generalizing a with
  | nil => simp
  | cons x xs ih =>
    intro h
    exact maxNp_eq_ninf (ih _ (by simpa using h))

theorem mulK_ne_ninf {a : EF K} {f : K} (hf : 0 < f) (ha : a ≠ EF.ninf) : EF.mulK a f ≠ EF.ninf := by
  cases a <;> simp_all [EF.mulK]

/-- what `find_radius_sigma` can return on a grid of positive non-decreasing apertures -/
def RadIn (lo hi : K) (r : EF K) : Prop :=
  r = EF.fin 0 ∨ r = EF.nan ∨ ∃ x, r = EF.fin x ∧ lo ≤ x ∧ x ≤ hi

theorem radiusLoop_noThr (thr : EF K) (h : ∀ x, EF.lt thr x = false) (l : List (K × EF K)) :
    radiusLoop thr l = EF.fin 0 := by
  induction l with
  | nil => rfl
  | cons p rest ih =>
    cases rest with
    | nil => rfl
    | cons q rest' => simp [radiusLoop, h, ih]

theorem pairwise_le_lastD (p : K × EF K) (rest : List (K × EF K))
    (h : (p :: rest).Pairwise (fun a b => a.1 ≤ b.1)) : p.1 ≤ (lastD rest p).1 := by
  have := lastD_mem rest p
  rcases List.mem_cons.mp this with h1 | h1
  · rw [h1]
  · exact (List.pairwise_cons.mp h).1 _ h1

/-- the value assigned inside the loop when the next sigma does not exceed the threshold -/
theorem radiusInterp_cases (t : K) (p q : K × EF K) (hpq : p.1 ≤ q.1)
    (hp : EF.lt (EF.fin t) p.2 = true) (hq : EF.lt (EF.fin t) q.2 = false) :
    radiusInterp (EF.fin t) p q = EF.nan ∨
    ∃ x, radiusInterp (EF.fin t) p q = EF.fin x ∧ p.1 ≤ x ∧ x ≤ q.1 := by
  obtain ⟨a, s⟩ := p
  obtain ⟨a', s'⟩ := q
  simp only at hpq hp hq ⊢
  cases s with
  | nan => simp [EF.lt] at hp
  | ninf => simp [EF.lt] at hp
  | pinf =>
    left
    cases s' <;> simp [radiusInterp, HSub.hSub, Sub.sub, EF.sub, EF.div, EF.divN, EF.mulK, EF.addK]
  | fin x =>
    have hx : t < x := by simpa [EF.lt] using hp
    cases s' with
    | nan => left; simp [radiusInterp, HSub.hSub, Sub.sub, EF.sub, EF.div, EF.mulK, EF.addK]
    | pinf => simp [EF.lt] at hq
    | ninf =>
      right
      refine ⟨a, ?_, le_refl _, hpq⟩
      simp [radiusInterp, HSub.hSub, Sub.sub, EF.sub, EF.div, EF.mulK, EF.addK]
    | fin y =>
      right
      have hy : y ≤ t := by simpa [EF.lt] using hq
      have hxy : 0 < x - y := by linarith
      have hne : x - y ≠ 0 := ne_of_gt hxy
      refine ⟨(x - t) / (x - y) * (a' - a) + a, ?_, ?_, ?_⟩
      · have e1 : (EF.fin x - EF.fin t : EF K) = EF.fin (x - t) := rfl
        have e2 : (EF.fin x - EF.fin y : EF K) = EF.fin (x - y) := rfl
        simp only [radiusInterp, e1, e2, EF.div, EF.divN, hne, if_false, EF.mulK, EF.addK]
      · have h1 : 0 ≤ (x - t) / (x - y) := div_nonneg (by linarith) (le_of_lt hxy)
        have h2 : 0 ≤ a' - a := by linarith
        nlinarith [mul_nonneg h1 h2]
      · have h1 : (x - t) / (x - y) ≤ 1 := by rw [div_le_one hxy]; linarith
        have h0 : 0 ≤ (x - t) / (x - y) := div_nonneg (by linarith) (le_of_lt hxy)
        have h2 : 0 ≤ a' - a := by linarith
        nlinarith [mul_le_mul_of_nonneg_right h1 h2]

/-- invariant of the backwards loop for a finite threshold, when the last sigma does not exceed it -/
theorem radiusLoop_inv (t : K) (rest : List (K × EF K)) (p : K × EF K)
    (hpos : ∀ q ∈ p :: rest, 0 < q.1)
    (hnd : (p :: rest).Pairwise (fun a b => a.1 ≤ b.1))
    (hlast : EF.lt (EF.fin t) (lastD rest p).2 = false) :
    (radiusLoop (EF.fin t) (p :: rest) = EF.fin 0 ∧ ∀ q ∈ p :: rest, EF.lt (EF.fin t) q.2 = false) ∨
    radiusLoop (EF.fin t) (p :: rest) = EF.nan ∨
    ∃ x, radiusLoop (EF.fin t) (p :: rest) = EF.fin x ∧ p.1 ≤ x ∧ x ≤ (lastD rest p).1 := by
  induction rest generalizing p with
  | nil =>
    left
    refine ⟨rfl, ?_⟩
    intro q hq
    simp only [List.mem_singleton] at hq
    subst hq
    simpa [lastD] using hlast
  | cons q rest' ih =>
    have hpos' : ∀ z ∈ q :: rest', 0 < z.1 := fun z hz => hpos z (List.mem_cons_of_mem _ hz)
    have hnd' := (List.pairwise_cons.mp hnd).2
    have hpq : p.1 ≤ q.1 := (List.pairwise_cons.mp hnd).1 q (by simp)
    have hqlast : q.1 ≤ (lastD rest' q).1 := pairwise_le_lastD q rest' hnd'
    simp only [lastD] at hlast ⊢
    have hunf : radiusLoop (EF.fin t) (p :: q :: rest')
        = if (EF.lt (EF.fin t) p.2 && EF.eq (radiusLoop (EF.fin t) (q :: rest')) (EF.fin 0)) = true
          then radiusInterp (EF.fin t) p q else radiusLoop (EF.fin t) (q :: rest') := by
      simp [radiusLoop]
    rcases ih q hpos' hnd' hlast with ⟨h0, hall⟩ | hnan | ⟨x, hx, hx1, hx2⟩
    · by_cases hp : EF.lt (EF.fin t) p.2 = true
      · have hq : EF.lt (EF.fin t) q.2 = false := hall q (by simp)
        rw [hunf, h0, hp]
        simp only [EF.eq, decide_true, Bool.and_self, if_true]
        rcases radiusInterp_cases t p q hpq hp hq with h | ⟨x, hx, hx1, hx2⟩
        · right; left; exact h
        · right; right; exact ⟨x, hx, hx1, le_trans hx2 hqlast⟩
      · have hp' : EF.lt (EF.fin t) p.2 = false := by simpa using hp
        left
        rw [hunf, hp']
        simp only [Bool.false_and, Bool.false_eq_true, if_false]
        refine ⟨h0, ?_⟩
        intro z hz
        rcases List.mem_cons.mp hz with rfl | hz
        · exact hp'
        · exact hall z hz
    · right; left
      rw [hunf, hnan]
      simp [EF.eq]
    · right; right
      have hxpos : x ≠ 0 := by
        have := hpos q (by simp)
        intro h; rw [h] at hx1; linarith
      refine ⟨x, ?_, le_trans hpq hx1, hx2⟩
      rw [hunf, hx]
      simp [EF.eq, hxpos]

theorem sigmaTail_length (pa pf : K) (as fs : List K) (h : as.length = fs.length) :
    (sigmaTail pa pf as fs).length = as.length := by
  induction as generalizing pa pf fs with
  | nil => cases fs <;> simp [sigmaTail]
  | cons a as ih =>
    cases fs with
    | nil => simp at h
    | cons f fs => simp [sigmaTail, ih a f fs (by simpa using h)]

theorem lastD_zip_snd {α β : Type} (xs : List α) (ys : List β) (h : xs.length = ys.length) (d : α) (e : β) :
    (lastD (xs.zip ys) (d, e)).2 = lastD ys e := by
  induction xs generalizing ys d e with
  | nil => cases ys <;> simp_all [lastD]
  | cons x xt ih =>
    cases ys with
    | nil => simp at h
    | cons y yt =>
      simp only [List.zip_cons_cons, lastD]
      exact ih yt (by simpa using h) x y

/-- how `findRadiusSigma` unfolds on a non-empty grid -/
theorem findRadiusSigma_unfold (f a0 f0 : K) (as fs : List K) (hlen : as.length = fs.length) :
    findRadiusSigma f (a0 :: as) (f0 :: fs)
      = some (if EF.lt (EF.mulK (maxSigma (EF.divN (EF.fin f0) (a0 * a0)) (sigmaTail a0 f0 as fs)) f)
                  (lastD (sigmaTail a0 f0 as fs) (EF.divN (EF.fin f0) (a0 * a0))) = true
              then EF.fin (lastD as a0)
              else radiusLoop (EF.mulK (maxSigma (EF.divN (EF.fin f0) (a0 * a0)) (sigmaTail a0 f0 as fs)) f)
                ((a0 :: as).zip (EF.divN (EF.fin f0) (a0 * a0) :: sigmaTail a0 f0 as fs))) := by
  simp [findRadiusSigma, sigmaProfile, hlen]

/-- **range of the radius**: on positive, non-decreasing apertures (the grid `theta·d` reset to the largest tabulated
    aperture is such a list) `find_radius_sigma` returns `0`, NaN, or a value between the first and the last aperture -/
theorem findRadiusSigma_range (f : K) (hf : 0 < f) (a0 : K) (as flux : List K)
    (hlen : (a0 :: as).length = flux.length) (hpos : ∀ a ∈ a0 :: as, 0 < a)
    (hnd : (a0 :: as).Pairwise (· ≤ ·)) :
    ∃ r, findRadiusSigma f (a0 :: as) flux = some r ∧ RadIn a0 (lastD as a0) r := by
  cases flux with
  | nil => simp at hlen
  | cons f0 fs =>
    have hl : as.length = fs.length := by simpa using hlen
    rw [findRadiusSigma_unfold f a0 f0 as fs hl]
    refine ⟨_, rfl, ?_⟩
    have ha0 : 0 < a0 := hpos a0 (by simp)
    have hne : a0 * a0 ≠ 0 := ne_of_gt (mul_pos ha0 ha0)
    have hs0 : EF.divN (EF.fin f0) (a0 * a0) = EF.fin (f0 / (a0 * a0)) := by simp [EF.divN, hne]
    rw [hs0]
    set ss := sigmaTail a0 f0 as fs with hss
    have hssl : ss.length = as.length := sigmaTail_length a0 f0 as fs hl
    have hlastle : a0 ≤ lastD as a0 := by
      rcases List.mem_cons.mp (lastD_mem as a0) with h | h
      · rw [h]
      · exact (List.pairwise_cons.mp hnd).1 _ h
    have hmx : maxSigma (EF.fin (f0 / (a0 * a0))) ss ≠ EF.ninf := by
      intro h
      have := foldl_maxNp_ninf ss _ h
      cases this
    have hthr := mulK_ne_ninf hf hmx
    cases hthr' : EF.mulK (maxSigma (EF.fin (f0 / (a0 * a0))) ss) f with
    | ninf => exact absurd hthr' hthr
    | nan =>
      have hno : ∀ x : EF K, EF.lt EF.nan x = false := fun x => by cases x <;> rfl
      rw [hno, radiusLoop_noThr _ hno]
      simp [RadIn]
    | pinf =>
      have hno : ∀ x : EF K, EF.lt EF.pinf x = false := fun x => by cases x <;> rfl
      rw [hno, radiusLoop_noThr _ hno]
      simp [RadIn]
    | fin t =>
      by_cases hover : EF.lt (EF.fin t) (lastD ss (EF.fin (f0 / (a0 * a0)))) = true
      · rw [if_pos hover]
        right; right
        exact ⟨_, rfl, hlastle, le_refl _⟩
      · rw [if_neg hover]
        have hover' : EF.lt (EF.fin t) (lastD ss (EF.fin (f0 / (a0 * a0)))) = false := by simpa using hover
        have hz : (a0 :: as).zip (EF.fin (f0 / (a0 * a0)) :: ss) = (a0, EF.fin (f0 / (a0 * a0))) :: as.zip ss := rfl
        rw [hz]
        have hposz : ∀ q ∈ (a0, EF.fin (f0 / (a0 * a0))) :: as.zip ss, 0 < q.1 := by
          intro q hq
          rw [← hz] at hq
          obtain ⟨q1, q2⟩ := q
          exact hpos q1 (List.of_mem_zip hq).1
        have hndz : ((a0, EF.fin (f0 / (a0 * a0))) :: as.zip ss).Pairwise (fun a b => a.1 ≤ b.1) := by
          rw [← hz]
          have hm : ((a0 :: as).zip (EF.fin (f0 / (a0 * a0)) :: ss)).map Prod.fst = a0 :: as := by
            apply List.map_fst_zip
            simp [hssl]
          have := hnd
          rw [← hm, List.pairwise_map] at this
          exact this
        have hl1 : (lastD (as.zip ss) (a0, EF.fin (f0 / (a0 * a0)))).1 = lastD as a0 :=
          lastD_zip_fst as ss hssl.symm _ _
        have hl2 : (lastD (as.zip ss) (a0, EF.fin (f0 / (a0 * a0)))).2 = lastD ss (EF.fin (f0 / (a0 * a0))) :=
          lastD_zip_snd as ss hssl.symm _ _
        rcases radiusLoop_inv t (as.zip ss) (a0, EF.fin (f0 / (a0 * a0))) hposz hndz (by rw [hl2]; exact hover')
          with ⟨h0, _⟩ | hnan | ⟨x, hx, hx1, hx2⟩
        · left; exact h0
        · right; left; exact hnan
        · right; right
          exact ⟨x, hx, hx1, by rw [← hl1]; exact hx2⟩

/-- `apertures < radius` at the largest aperture is never true for a radius in range -/
theorem radIn_not_lt (lo hi : K) (r : EF K) (hlo : 0 < hi) (h : RadIn lo hi r) (a : K) (ha : hi ≤ a) :
    EF.lt (EF.fin a) r = false := by
  rcases h with h | h | ⟨x, hx, _, hx2⟩
  · rw [h]; simp [EF.lt]; linarith
  · rw [h]; rfl
  · rw [hx]; simp [EF.lt]; linarith

/-- the mask of one band is antitone along a non-decreasing aperture grid -/
theorem maskOf_antitone (aps : List K) (r : EF K) (hnd : aps.Pairwise (· ≤ ·)) (i j : Nat) (hij : i ≤ j)
    (hj : (maskOf aps r)[j]? = some true) : (maskOf aps r)[i]? = some true := by
  simp only [maskOf, List.getElem?_map] at hj ⊢
  cases haj : aps[j]? with
  | none => rw [haj] at hj; simp at hj
  | some aj =>
    have hjl : j < aps.length := by
      by_contra hc
      rw [List.getElem?_eq_none (by omega)] at haj; cases haj
    have hil : i < aps.length := by omega
    rw [List.getElem?_eq_getElem hil]
    rw [haj] at hj
    simp only [Option.map_some, Option.some.injEq] at hj ⊢
    have haj' : aps[j] = aj := by
      rw [List.getElem?_eq_getElem hjl] at haj; simpa using haj
    have hle : aps[i] ≤ aj := by
      rcases Nat.lt_or_ge i j with h | h
      · rw [← haj']; exact List.pairwise_iff_getElem.mp hnd i j hil hjl h
      · have : i = j := by omega
        subst this; rw [haj']
    cases r with
    | nan => simp [EF.lt] at hj
    | ninf => simp [EF.lt] at hj
    | pinf => rfl
    | fin x =>
      simp only [EF.lt, decide_eq_true_eq] at hj ⊢
      linarith

/-! ## strictly increasing grids: every sigma is finite and the radius exceeds the first aperture -/

def AllFin (l : List (K × EF K)) : Prop := ∀ q ∈ l, ∃ y, q.2 = EF.fin y

theorem sigmaTail_fin (pa pf : K) (as fs : List K) (hpa : 0 < pa) (hinc : (pa :: as).Pairwise (· < ·)) :
    ∀ s ∈ sigmaTail pa pf as fs, ∃ y, s = EF.fin y := by
  induction as generalizing pa pf fs with
  | nil => intro s hs; cases fs <;> simp [sigmaTail] at hs
  | cons a as ih =>
    cases fs with
    | nil => intro s hs; simp [sigmaTail] at hs
    | cons f fs =>
      have hlt : pa < a := (List.pairwise_cons.mp hinc).1 a (by simp)
      have hne : a * a - pa * pa ≠ 0 := by
        have : pa * pa < a * a := mul_lt_mul'' hlt hlt (le_of_lt hpa) (le_of_lt hpa)
        exact ne_of_gt (by linarith)
      intro s hs
      simp only [sigmaTail, List.mem_cons] at hs
      rcases hs with rfl | hs
      · exact ⟨(f - pf) / (a * a - pa * pa), by simp [EF.divN, hne]⟩
      · exact ih a f fs (lt_trans hpa hlt) (List.pairwise_cons.mp hinc).2 s hs

/-- `np.max` of finite values is one of them and bounds them all -/
theorem foldl_maxNp_fin (l : List (EF K)) (a : K) (h : ∀ s ∈ l, ∃ y, s = EF.fin y) :
    ∃ M, l.foldl EF.maxNp (EF.fin a) = EF.fin M ∧ a ≤ M ∧ (∀ y, EF.fin y ∈ l → y ≤ M) ∧
      (M = a ∨ EF.fin M ∈ l) := by
  induction l generalizing a with
  | nil => exact ⟨a, rfl, le_refl _, by simp, Or.inl rfl⟩
  | cons x xs ih =>
    obtain ⟨y, rfl⟩ := h x (by simp)
    have hxs : ∀ s ∈ xs, ∃ y, s = EF.fin y := fun s hs => h s (by simp [hs])
    by_cases hay : a < y
    · have hstep : EF.maxNp (EF.fin a) (EF.fin y) = EF.fin y := by simp [EF.maxNp, EF.lt, hay]
      obtain ⟨M, h1, h2, h3, h4⟩ := ih y hxs
      refine ⟨M, by simpa [List.foldl_cons, hstep] using h1, by linarith, ?_, ?_⟩
      · intro z hz
        rcases List.mem_cons.mp hz with hz | hz
        · have : z = y := by simpa using hz
          linarith
        · exact h3 z hz
      · right
        rcases h4 with h4 | h4
        · rw [h4]; simp
        · exact List.mem_cons_of_mem _ h4
    · have hstep : EF.maxNp (EF.fin a) (EF.fin y) = EF.fin a := by simp [EF.maxNp, EF.lt, hay]
      obtain ⟨M, h1, h2, h3, h4⟩ := ih a hxs
      refine ⟨M, by simpa [List.foldl_cons, hstep] using h1, h2, ?_, ?_⟩
      · intro z hz
        rcases List.mem_cons.mp hz with hz | hz
        · have : z = y := by simpa using hz
          have : y ≤ a := not_lt.mp hay
          linarith
        · exact h3 z hz
      · rcases h4 with h4 | h4
        · left; exact h4
        · right; exact List.mem_cons_of_mem _ h4

/-- the backwards loop on a strictly increasing grid with finite sigmas: nothing above the threshold, or a radius
    strictly beyond the first aperture of the list -/
theorem radiusLoop_fin (t : K) (rest : List (K × EF K)) (p : K × EF K)
    (hpos : ∀ q ∈ p :: rest, 0 < q.1)
    (hinc : (p :: rest).Pairwise (fun a b => a.1 < b.1))
    (hfin : AllFin (p :: rest))
    (hlast : EF.lt (EF.fin t) (lastD rest p).2 = false) :
    (radiusLoop (EF.fin t) (p :: rest) = EF.fin 0 ∧ ∀ q ∈ p :: rest, EF.lt (EF.fin t) q.2 = false) ∨
    ∃ x, radiusLoop (EF.fin t) (p :: rest) = EF.fin x ∧ p.1 < x ∧ x ≤ (lastD rest p).1 := by
  induction rest generalizing p with
  | nil =>
    left
    refine ⟨rfl, ?_⟩
    intro q hq
    simp only [List.mem_singleton] at hq
    subst hq
    simpa [lastD] using hlast
  | cons q rest' ih =>
    have hpos' : ∀ z ∈ q :: rest', 0 < z.1 := fun z hz => hpos z (List.mem_cons_of_mem _ hz)
    have hinc' := (List.pairwise_cons.mp hinc).2
    have hfin' : AllFin (q :: rest') := fun z hz => hfin z (List.mem_cons_of_mem _ hz)
    have hpq : p.1 < q.1 := (List.pairwise_cons.mp hinc).1 q (by simp)
    have hqlast : q.1 ≤ (lastD rest' q).1 :=
      pairwise_le_lastD q rest' (hinc'.imp (fun h => le_of_lt h))
    simp only [lastD] at hlast ⊢
    have hunf : radiusLoop (EF.fin t) (p :: q :: rest')
        = if (EF.lt (EF.fin t) p.2 && EF.eq (radiusLoop (EF.fin t) (q :: rest')) (EF.fin 0)) = true
          then radiusInterp (EF.fin t) p q else radiusLoop (EF.fin t) (q :: rest') := by
      simp [radiusLoop]
    rcases ih q hpos' hinc' hfin' hlast with ⟨h0, hall⟩ | ⟨x, hx, hx1, hx2⟩
    · by_cases hp : EF.lt (EF.fin t) p.2 = true
      · have hq : EF.lt (EF.fin t) q.2 = false := hall q (by simp)
        obtain ⟨xs, hxs⟩ := hfin p (by simp)
        obtain ⟨ys, hys⟩ := hfin q (by simp)
        rw [hunf, h0, hp]
        simp only [EF.eq, decide_true, Bool.and_self, if_true]
        right
        obtain ⟨a, s⟩ := p
        obtain ⟨a', s'⟩ := q
        simp only at hxs hys hp hq hpq hqlast ⊢
        subst hxs hys
        have hx : t < xs := by simpa [EF.lt] using hp
        have hy : ys ≤ t := by simpa [EF.lt] using hq
        have hxy : 0 < xs - ys := by linarith
        have hne : xs - ys ≠ 0 := ne_of_gt hxy
        refine ⟨(xs - t) / (xs - ys) * (a' - a) + a, ?_, ?_, ?_⟩
        · have e1 : (EF.fin xs - EF.fin t : EF K) = EF.fin (xs - t) := rfl
          have e2 : (EF.fin xs - EF.fin ys : EF K) = EF.fin (xs - ys) := rfl
          simp only [radiusInterp, e1, e2, EF.div, EF.divN, hne, if_false, EF.mulK, EF.addK]
        · have h1 : 0 < (xs - t) / (xs - ys) := div_pos (by linarith) hxy
          have h2 : 0 < a' - a := by linarith
          nlinarith [mul_pos h1 h2]
        · have h1 : (xs - t) / (xs - ys) ≤ 1 := by rw [div_le_one hxy]; linarith
          have h2 : 0 ≤ a' - a := by linarith
          nlinarith [mul_le_mul_of_nonneg_right h1 h2]
      · have hp' : EF.lt (EF.fin t) p.2 = false := by simpa using hp
        left
        rw [hunf, hp']
        simp only [Bool.false_and, Bool.false_eq_true, if_false]
        refine ⟨h0, ?_⟩
        intro z hz
        rcases List.mem_cons.mp hz with rfl | hz
        · exact hp'
        · exact hall z hz
    · right
      have hxpos : x ≠ 0 := by
        have := hpos q (by simp)
        intro h; rw [h] at hx1; linarith
      refine ⟨x, ?_, lt_trans hpq hx1, hx2⟩
      rw [hunf, hx]
      simp [EF.eq, hxpos]

/-- **the nearest trial distance is always removed**: on a strictly increasing positive grid of at least two apertures,
    with a positive first flux and a fraction in `(0, 1)`, the radius is finite and strictly larger than the first
    aperture (and at most the last) -/
theorem findRadiusSigma_gt_first (f : K) (hf0 : 0 < f) (hf1 : f < 1) (a0 a1 : K) (as flux : List K)
    (hlen : (a0 :: a1 :: as).length = flux.length) (ha0 : 0 < a0)
    (hinc : (a0 :: a1 :: as).Pairwise (· < ·)) (hF0 : ∀ f0 ∈ flux.head?, 0 < f0) :
    ∃ x, findRadiusSigma f (a0 :: a1 :: as) flux = some (EF.fin x) ∧ a0 < x ∧ x ≤ lastD (a1 :: as) a0 := by
  cases flux with
  | nil => simp at hlen
  | cons f0 fs =>
    have hl : (a1 :: as).length = fs.length := by simpa using hlen
    have hf0pos : 0 < f0 := hF0 f0 (by simp)
    rw [findRadiusSigma_unfold f a0 f0 (a1 :: as) fs hl]
    have hne : a0 * a0 ≠ 0 := ne_of_gt (mul_pos ha0 ha0)
    have hs0 : EF.divN (EF.fin f0) (a0 * a0) = EF.fin (f0 / (a0 * a0)) := by simp [EF.divN, hne]
    rw [hs0]
    set ss := sigmaTail a0 f0 (a1 :: as) fs with hss
    have hssl : ss.length = (a1 :: as).length := sigmaTail_length a0 f0 (a1 :: as) fs hl
    have hssfin : ∀ s ∈ ss, ∃ y, s = EF.fin y := sigmaTail_fin a0 f0 (a1 :: as) fs ha0 hinc
    have hpos : ∀ a ∈ a0 :: a1 :: as, 0 < a := by
      intro a ha
      rcases List.mem_cons.mp ha with rfl | ha
      · exact ha0
      · exact lt_trans ha0 ((List.pairwise_cons.mp hinc).1 a ha)
    have hs0pos : 0 < f0 / (a0 * a0) := div_pos hf0pos (mul_pos ha0 ha0)
    obtain ⟨M, hM, hM0, hMall, hMatt⟩ := foldl_maxNp_fin ss (f0 / (a0 * a0)) hssfin
    have hMpos : 0 < M := lt_of_lt_of_le hs0pos hM0
    have hthr : EF.mulK (maxSigma (EF.fin (f0 / (a0 * a0))) ss) f = EF.fin (M * f) := by
      unfold maxSigma; rw [hM]; rfl
    rw [hthr]
    have hMf : M * f < M := by nlinarith
    have hlastgt : a0 < lastD (a1 :: as) a0 := by
      have := lastD_mem as a1
      simp only [lastD]
      exact (List.pairwise_cons.mp hinc).1 _ this
    by_cases hover : EF.lt (EF.fin (M * f)) (lastD ss (EF.fin (f0 / (a0 * a0)))) = true
    · rw [if_pos hover]
      exact ⟨_, rfl, hlastgt, le_refl _⟩
    · rw [if_neg hover]
      have hover' : EF.lt (EF.fin (M * f)) (lastD ss (EF.fin (f0 / (a0 * a0)))) = false := by simpa using hover
      have hz : (a0 :: a1 :: as).zip (EF.fin (f0 / (a0 * a0)) :: ss)
          = (a0, EF.fin (f0 / (a0 * a0))) :: (a1 :: as).zip ss := rfl
      rw [hz]
      have hposz : ∀ q ∈ (a0, EF.fin (f0 / (a0 * a0))) :: (a1 :: as).zip ss, 0 < q.1 := by
        intro q hq
        rw [← hz] at hq
        obtain ⟨q1, q2⟩ := q
        exact hpos q1 (List.of_mem_zip hq).1
      have hincz : ((a0, EF.fin (f0 / (a0 * a0))) :: (a1 :: as).zip ss).Pairwise (fun a b => a.1 < b.1) := by
        rw [← hz]
        have hm : ((a0 :: a1 :: as).zip (EF.fin (f0 / (a0 * a0)) :: ss)).map Prod.fst = a0 :: a1 :: as := by
          apply List.map_fst_zip
          simp [hssl]
        have := hinc
        rw [← hm, List.pairwise_map] at this
        exact this
      have hfinz : AllFin ((a0, EF.fin (f0 / (a0 * a0))) :: (a1 :: as).zip ss) := by
        intro q hq
        rw [← hz] at hq
        obtain ⟨q1, q2⟩ := q
        have := (List.of_mem_zip hq).2
        rcases List.mem_cons.mp this with h | h
        · exact ⟨_, h⟩
        · exact hssfin q2 h
      have hl1 : (lastD ((a1 :: as).zip ss) (a0, EF.fin (f0 / (a0 * a0)))).1 = lastD (a1 :: as) a0 :=
        lastD_zip_fst (a1 :: as) ss hssl.symm _ _
      have hl2 : (lastD ((a1 :: as).zip ss) (a0, EF.fin (f0 / (a0 * a0)))).2 = lastD ss (EF.fin (f0 / (a0 * a0))) :=
        lastD_zip_snd (a1 :: as) ss hssl.symm _ _
      rcases radiusLoop_fin (M * f) ((a1 :: as).zip ss) (a0, EF.fin (f0 / (a0 * a0))) hposz hincz hfinz
          (by rw [hl2]; exact hover') with ⟨-, hall⟩ | ⟨x, hx, hx1, hx2⟩
      · exfalso
        -- the maximum itself exceeds the threshold and sits somewhere in the list
        rcases hMatt with hM' | hM'
        · have := hall (a0, EF.fin (f0 / (a0 * a0))) (by simp)
          rw [← hM'] at this
          simp [EF.lt] at this
          linarith
        · obtain ⟨i, hi, hget⟩ := List.getElem_of_mem hM'
          have hia : i < (a1 :: as).length := by rw [← hssl]; exact hi
          have hmem : ((a1 :: as)[i], ss[i]) ∈ (a1 :: as).zip ss := by
            apply List.mem_of_getElem? (i := i)
            rw [List.getElem?_zip_eq_some]
            exact ⟨List.getElem?_eq_getElem hia, List.getElem?_eq_getElem hi⟩
          have := hall _ (List.mem_cons_of_mem _ hmem)
          rw [hget] at this
          simp [EF.lt] at this
          linarith
      · exact ⟨x, by rw [hx], hx1, by rw [← hl1]; exact hx2⟩

/-! ## the aperture grid `theta·d`, reset to the largest tabulated aperture -/

theorem clampHi_mono (m x y : K) (h : x ≤ y) : clampHi m x ≤ clampHi m y := by
  unfold clampHi
  split_ifs <;> linarith

theorem clampHi_pos (m x : K) (hm : 0 < m) (hx : 0 < x) : 0 < clampHi m x := by
  unfold clampHi
  split_ifs <;> assumption

theorem halfK_pos : (0 : K) < halfK := by
  unfold halfK two
  positivity

theorem halfK_eq : (halfK : K) = 1 / 2 := by
  unfold halfK two
  norm_num

/-- the domain of the distance-dependent mode: positive aperture `theta`, positive tabulated apertures, positive
    non-decreasing trial distances (the grid of C02 is increasing) -/
structure GridOK (t : BandTab K) (dists : List K) : Prop where
  theta_pos : 0 < t.theta
  aps_pos : ∀ a ∈ t.aps, 0 < a
  d_pos : ∀ d ∈ dists, 0 < d
  d_nd : dists.Pairwise (· ≤ ·)

theorem apGrid_length (t : BandTab K) (dists : List K) : (apGrid t dists).length = dists.length := by
  unfold apGrid
  split <;> simp

theorem apGrid_pos (t : BandTab K) (dists : List K) (h : GridOK t dists) : ∀ a ∈ apGrid t dists, 0 < a := by
  intro a ha
  unfold apGrid at ha
  have h1000 : (0 : K) < thousandK := by rw [thousandK_eq]; norm_num
  split at ha
  · obtain ⟨d, hd, rfl⟩ := List.mem_map.mp ha
    exact mul_pos h.theta_pos (mul_pos h1000 (h.d_pos d hd))
  · rename_i a0 rest heq
    obtain ⟨d, hd, rfl⟩ := List.mem_map.mp ha
    apply clampHi_pos
    · exact h.aps_pos _ (by rw [heq]; exact lastD_mem rest a0)
    · exact mul_pos h.theta_pos (mul_pos h1000 (h.d_pos d hd))

theorem apGrid_nondecr (t : BandTab K) (dists : List K) (h : GridOK t dists) :
    (apGrid t dists).Pairwise (· ≤ ·) := by
  have h1000 : (0 : K) < thousandK := by rw [thousandK_eq]; norm_num
  have hmono : ∀ x y : K, x ≤ y → t.theta * (thousandK * x) ≤ t.theta * (thousandK * y) := by
    intro x y hxy
    exact mul_le_mul_of_nonneg_left (mul_le_mul_of_nonneg_left hxy (le_of_lt h1000)) (le_of_lt h.theta_pos)
  unfold apGrid
  split
  · rw [List.pairwise_map]
    exact h.d_nd.imp (fun hxy => hmono _ _ hxy)
  · rw [List.pairwise_map]
    exact h.d_nd.imp (fun hxy => clampHi_mono _ _ _ (hmono _ _ hxy))

theorem bandFluxes_length (t : BandTab K) (dists : List K) (fl : List K) (h : bandFluxes t dists = .ok fl) :
    fl.length = dists.length := by
  simpa using seqE_length _ _ h

/-- a band radius that is returned is the `findRadiusSigma` of the band's per-distance fluxes on `apGrid` -/
theorem bandRadius_ok (t : BandTab K) (dists : List K) (r : EF K) (h : bandRadius t dists = .ok r) :
    ∃ fl, bandFluxes t dists = .ok fl ∧ findRadiusSigma halfK (apGrid t dists) fl = some r := by
  unfold bandRadius at h
  cases hf : bandFluxes t dists with
  | error e => rw [hf] at h; cases h
  | ok fl =>
    rw [hf] at h
    simp only at h
    cases hr : findRadiusSigma halfK (apGrid t dists) fl with
    | none => rw [hr] at h; cases h
    | some r' =>
      rw [hr] at h
      simp only [Except.ok.injEq] at h
      exact ⟨fl, rfl, by rw [← h]; exact hr⟩

/-- the radius of a band on the domain: `0`, NaN or within the aperture grid -/
theorem bandRadius_range (t : BandTab K) (d0 : K) (ds : List K) (h : GridOK t (d0 :: ds)) (r : EF K)
    (hr : bandRadius t (d0 :: ds) = .ok r) :
    ∃ a0 as, apGrid t (d0 :: ds) = a0 :: as ∧ 0 < lastD as a0 ∧ RadIn a0 (lastD as a0) r := by
  obtain ⟨fl, hfl, hfr⟩ := bandRadius_ok t _ r hr
  have hlen := apGrid_length t (d0 :: ds)
  cases hg : apGrid t (d0 :: ds) with
  | nil => rw [hg] at hlen; simp at hlen
  | cons a0 as =>
    have hpos := apGrid_pos t _ h
    have hnd := apGrid_nondecr t _ h
    rw [hg] at hpos hnd hfr hlen
    obtain ⟨r', hr', hin⟩ := findRadiusSigma_range halfK halfK_pos a0 as fl
      (by rw [hlen, bandFluxes_length t _ fl hfl]) hpos hnd
    rw [hfr] at hr'
    simp only [Option.some.injEq] at hr'
    subst hr'
    exact ⟨a0, as, rfl, hpos _ (lastD_mem as a0), hin⟩

/-- the mask of a band on the domain: one flag per trial distance, antitone in the distance, `False` at the last one -/
theorem bandMask_spec (t : BandTab K) (d0 : K) (ds : List K) (h : GridOK t (d0 :: ds)) (m : List Bool)
    (hm : bandMask t (d0 :: ds) = .ok m) :
    m.length = ds.length + 1 ∧ m[ds.length]? = some false ∧
    ∀ i j : Nat, i ≤ j → m[j]? = some true → m[i]? = some true := by
  unfold bandMask at hm
  obtain ⟨r, hr, hmr⟩ := exceptMap_ok _ _ _ hm
  obtain ⟨a0, as, hg, hlpos, hin⟩ := bandRadius_range t d0 ds h r hr
  have hlen := apGrid_length t (d0 :: ds)
  have hasl : as.length = ds.length := by rw [hg] at hlen; simpa using hlen
  subst hmr
  refine ⟨by simp [maskOf, hlen], ?_, ?_⟩
  · rw [hg]
    simp only [maskOf, List.getElem?_map]
    have : (a0 :: as)[ds.length]? = some (lastD as a0) := by
      rw [← hasl]
      have := lastD_eq_getElem (a0 :: as) a0 as.length (by simp)
      simp only [lastD] at this
      rw [this]
      exact List.getElem?_eq_getElem (by simp)
    rw [this]
    simp only [Option.map_some, Option.some.injEq]
    exact radIn_not_lt a0 _ r hlpos hin _ (le_refl _)
  · intro i j hij hj
    exact maskOf_antitone _ r (apGrid_nondecr t _ h) i j hij hj

/-! ## `np.any(extended[:, source.valid > 0])` -/

theorem resetResolved_length (flags : List Nat) (ext : List (List Bool)) (nd : Nat) :
    (resetResolved flags ext nd).length = nd := by
  simp [resetResolved]

theorem resetResolved_getElem? (flags : List Nat) (ext : List (List Bool)) (nd d : Nat) (hd : d < nd) :
    (resetResolved flags ext nd)[d]?
      = some ((flags.zip ext).any (fun fc => decide (0 < fc.1) && fc.2.getD d false)) := by
  simp [resetResolved, List.getElem?_map, List.getElem?_range hd]

theorem resetResolved_getD (flags : List Nat) (ext : List (List Bool)) (nd d : Nat) (hd : d < nd) :
    (resetResolved flags ext nd).getD d false
      = (flags.zip ext).any (fun fc => decide (0 < fc.1) && fc.2.getD d false) := by
  rw [List.getD_eq_getElem?_getD, resetResolved_getElem? _ _ _ _ hd]; rfl

/-- a band with `valid = 0` can be deleted from the mask without changing which distances are removed -/
theorem resetResolved_unused (fl1 fl2 : List Nat) (e1 e2 : List (List Bool)) (col : List Bool) (nd : Nat)
    (h : fl1.length = e1.length) :
    resetResolved (fl1 ++ 0 :: fl2) (e1 ++ col :: e2) nd = resetResolved (fl1 ++ fl2) (e1 ++ e2) nd := by
  unfold resetResolved
  apply List.map_congr_left
  intro d _
  rw [List.zip_append h, List.zip_append h]
  simp

/-- distances removed for a source: `True` only where some used band is marked -/
theorem resetResolved_false (flags : List Nat) (ext : List (List Bool)) (nd d : Nat) (hd : d < nd)
    (h : ∀ col ∈ ext, col.getD d false = false) : (resetResolved flags ext nd).getD d false = false := by
  rw [resetResolved_getD _ _ _ _ hd]
  rw [List.any_eq_false]
  intro fc hfc
  obtain ⟨a, b⟩ := fc
  have := h b (List.of_mem_zip hfc).2
  show ¬ (decide (0 < a) && b.getD d false) = true
  rw [this, Bool.and_false]; simp

theorem resetResolved_antitone (flags : List Nat) (ext : List (List Bool)) (nd i j : Nat) (hij : i ≤ j) (hj : j < nd)
    (h : ∀ col ∈ ext, col.getD j false = true → col.getD i false = true)
    (hr : (resetResolved flags ext nd).getD j false = true) : (resetResolved flags ext nd).getD i false = true := by
  rw [resetResolved_getD _ _ _ _ hj] at hr
  rw [resetResolved_getD _ _ _ _ (by omega)]
  rw [List.any_eq_true] at hr ⊢
  obtain ⟨⟨a, b⟩, hfc, hv⟩ := hr
  refine ⟨(a, b), hfc, ?_⟩
  simp only [Bool.and_eq_true, decide_eq_true_eq] at hv ⊢
  exact ⟨hv.1, h b (List.of_mem_zip hfc).2 hv.2⟩

end Res
end SF
