import SedVerif.Model.Dist
import SedVerif.Proofs.Fit
import SedVerif.Proofs.FitFlags
import Mathlib.Tactic.Ring
import Mathlib.Tactic.Linarith
import Mathlib.Tactic.FieldSimp
import Mathlib.Tactic.NormNum
import Mathlib.Algebra.Order.Field.Basic

/-! Helper lemmas for aperture interpolation (C13) and the distance-dependent mode (C02).
    Everything lives in `SF.Dist` so that generic lemma names cannot clash with other proof files. -/
namespace SF
namespace Dist
variable {K : Type} [Field K] [LinearOrder K] [IsStrictOrderedRing K]

/-- a table with strictly increasing abscissae -/
def SortedX (tab : List (K × K)) : Prop := tab.Pairwise (fun p q => p.1 < q.1)

/-- strictly increasing apertures -/
def Incr (xs : List K) : Prop := xs.Pairwise (· < ·)

/-! ## `lastD` -/

theorem lastD_mem {α : Type} (rest : List α) (p0 : α) : lastD rest p0 ∈ p0 :: rest := by
  induction rest generalizing p0 with
  | nil => simp [lastD]
  | cons p1 r ih =>
    simp only [lastD]
    exact List.mem_cons_of_mem _ (ih p1)

theorem lastD_map {α β : Type} (g : α → β) (l : List α) (d : α) : lastD (l.map g) (g d) = g (lastD l d) := by
  induction l generalizing d with
  | nil => simp [lastD]
  | cons a r ih => simp only [List.map_cons, lastD]; exact ih a

theorem lastD_eq_getElem {α : Type} (l : List α) (d : α) (n : Nat) (h : l.length = n + 1) :
    lastD l d = l[n]'(by omega) := by
  induction l generalizing d n with
  | nil => simp at h
  | cons a r ih =>
    cases r with
    | nil =>
      simp at h; subst h; simp [lastD]
    | cons b r' =>
      simp only [lastD]
      cases n with
      | zero => simp at h
      | succ m =>
        have := ih a m (by simpa using h)
        simp only [lastD] at this
        simpa using this

theorem lastD_zip_fst {α β : Type} (xs : List α) (ys : List β) (h : xs.length = ys.length) (d : α) (e : β) :
    (lastD (xs.zip ys) (d, e)).1 = lastD xs d := by
  induction xs generalizing ys d e with
  | nil => simp [lastD]
  | cons x xt ih =>
    cases ys with
    | nil => simp at h
    | cons y yt =>
      simp only [List.zip_cons_cons, lastD]
      exact ih yt (by simpa using h) x y

theorem sortedX_head_le (p0 : K × K) (rest : List (K × K)) (hs : SortedX (p0 :: rest)) :
    ∀ p ∈ p0 :: rest, p0.1 ≤ p.1 := by
  intro p hp
  rcases List.mem_cons.mp hp with rfl | hp
  · exact le_rfl
  · exact le_of_lt ((List.pairwise_cons.mp hs).1 p hp)

theorem sortedX_le_last (p0 : K × K) (rest : List (K × K)) (hs : SortedX (p0 :: rest)) :
    ∀ p ∈ p0 :: rest, p.1 ≤ (lastD rest p0).1 := by
  induction rest generalizing p0 with
  | nil => intro p hp; simp at hp; subst hp; simp [lastD]
  | cons p1 r ih =>
    intro p hp
    have hs' : SortedX (p1 :: r) := (List.pairwise_cons.mp hs).2
    simp only [lastD]
    rcases List.mem_cons.mp hp with rfl | hp
    · have h01 : p.1 < p1.1 := (List.pairwise_cons.mp hs).1 p1 List.mem_cons_self
      exact le_trans (le_of_lt h01) (ih p1 hs' p1 List.mem_cons_self)
    · exact ih p1 hs' p hp

theorem sortedX_zip (xs ys : List K) (hs : Incr xs) : SortedX (xs.zip ys) := by
  induction xs generalizing ys with
  | nil => simp [SortedX]
  | cons x xt ih =>
    cases ys with
    | nil => simp [SortedX]
    | cons y yt =>
      simp only [List.zip_cons_cons, SortedX]
      refine List.pairwise_cons.mpr ⟨?_, ih yt (List.pairwise_cons.mp hs).2⟩
      intro p hp
      exact (List.pairwise_cons.mp hs).1 p.1 (List.of_mem_zip hp).1

/-! ## `interpIn` on a sorted table -/

theorem interpIn_knot (tab : List (K × K)) (hs : SortedX tab) (p : K × K) (hp : p ∈ tab) :
    interpIn tab p.1 = p.2 := by
  induction tab with
  | nil => cases hp
  | cons p0 tl ih =>
    cases tl with
    | nil => simp at hp; subst hp; simp [interpIn]
    | cons p1 rest =>
      have hs' : SortedX (p1 :: rest) := (List.pairwise_cons.mp hs).2
      have h0 := (List.pairwise_cons.mp hs).1
      rcases List.mem_cons.mp hp with rfl | hp'
      · simp [interpIn]
      · have hne : p.1 ≠ p0.1 := ne_of_gt (h0 p hp')
        rcases List.mem_cons.mp hp' with rfl | hp''
        · simp [interpIn, hne]
        · have h1 : p1.1 < p.1 := (List.pairwise_cons.mp hs').1 p hp''
          simp only [interpIn, hne, if_false, not_le.mpr h1]
          exact ih hs' hp'

theorem interpIn_between (pre post : List (K × K)) (p0 p1 : K × K) (x : K)
    (hs : SortedX (pre ++ p0 :: p1 :: post)) (h0 : p0.1 < x) (h1 : x < p1.1) :
    interpIn (pre ++ p0 :: p1 :: post) x = lin p0 p1 x := by
  induction pre with
  | nil =>
    simp only [List.nil_append, interpIn, ne_of_gt h0, if_false, le_of_lt h1, if_true, ne_of_lt h1]
  | cons q pre' ih =>
    have hs' : SortedX (pre' ++ p0 :: p1 :: post) := (List.pairwise_cons.mp hs).2
    have hq := (List.pairwise_cons.mp hs).1
    have hq0 : q.1 < p0.1 := hq p0 (by simp)
    have hne : x ≠ q.1 := ne_of_gt (lt_trans hq0 h0)
    cases pre' with
    | nil =>
      simp only [List.cons_append, List.nil_append, interpIn, hne, if_false, not_le.mpr h0]
      exact ih hs'
    | cons q1 pre'' =>
      have hq1 : q1.1 < p0.1 := (List.pairwise_cons.mp hs').1 p0 (by simp)
      simp only [List.cons_append, interpIn, hne, if_false, not_le.mpr (lt_trans hq1 h0)]
      exact ih hs'

theorem interpIn_scale (s : K) (hs : 0 < s) (tab : List (K × K)) (x : K) :
    interpIn (tab.map (fun p => (s * p.1, p.2))) (s * x) = interpIn tab x := by
  induction tab with
  | nil => simp [interpIn]
  | cons p0 tl ih =>
    cases tl with
    | nil => simp [interpIn]
    | cons p1 rest =>
      have e1 : (s * x = s * p0.1) ↔ x = p0.1 := by
        constructor
        · intro h; exact mul_left_cancel₀ (ne_of_gt hs) h
        · intro h; rw [h]
      have e2 : (s * x ≤ s * p1.1) ↔ x ≤ p1.1 := by
        constructor
        · intro h; exact le_of_mul_le_mul_left h hs
        · intro h; exact mul_le_mul_of_nonneg_left h hs.le
      have e3 : (s * x = s * p1.1) ↔ x = p1.1 := by
        constructor
        · intro h; exact mul_left_cancel₀ (ne_of_gt hs) h
        · intro h; rw [h]
      have elin : lin (s * p0.1, p0.2) (s * p1.1, p1.2) (s * x) = lin p0 p1 x := by
        simp only [lin]
        rw [← mul_sub, ← mul_sub, mul_div_mul_left _ _ (ne_of_gt hs)]
      simp only [List.map_cons, interpIn, e1, e2, e3, elin]
      simp only [List.map_cons] at ih
      rw [ih]

/-! ## `clampHi`, `clampK` -/

theorem clampHi_le (mx x : K) : clampHi mx x ≤ mx := by
  unfold clampHi; split
  · exact le_rfl
  · exact not_lt.mp ‹_›

theorem clampHi_of_le (mx x : K) (h : x ≤ mx) : clampHi mx x = x := by
  unfold clampHi; rw [if_neg (not_lt.mpr h)]

theorem clampHi_of_lt (mx x : K) (h : mx < x) : clampHi mx x = mx := by
  unfold clampHi; rw [if_pos h]

theorem clampK_of_mem (lo hi x : K) (h1 : lo ≤ x) (h2 : x ≤ hi) : clampK lo hi x = x := by
  unfold clampK; simp only [if_neg (not_lt.mpr h1), if_neg (not_lt.mpr h2)]

/-! ## `interpClampT` on a sorted table -/

theorem interpClampT_knot (tab : List (K × K)) (hs : SortedX tab) (p : K × K) (hp : p ∈ tab) :
    interpClampT tab p.1 = .ok p.2 := by
  cases tab with
  | nil => cases hp
  | cons p0 rest =>
    simp only [interpClampT, lastD, clampHi_of_le _ _ (sortedX_le_last p0 rest hs p hp),
      not_lt.mpr (sortedX_head_le p0 rest hs p hp), if_false, interpIn_knot _ hs p hp]

theorem interpClampT_above (p0 : K × K) (rest : List (K × K)) (hs : SortedX (p0 :: rest)) (x : K)
    (hx : (lastD rest p0).1 < x) : interpClampT (p0 :: rest) x = .ok (lastD rest p0).2 := by
  simp only [interpClampT, lastD, clampHi_of_lt _ _ hx,
    not_lt.mpr (sortedX_head_le p0 rest hs _ (lastD_mem rest p0)), if_false,
    interpIn_knot _ hs _ (lastD_mem rest p0)]

theorem interpClampT_below (p0 : K × K) (rest : List (K × K)) (hs : SortedX (p0 :: rest)) (x : K)
    (hx : x < p0.1) : interpClampT (p0 :: rest) x = .error .tooSmall := by
  simp only [interpClampT, lastD]
  have hle : x ≤ (lastD rest p0).1 :=
    le_trans (le_of_lt hx) (sortedX_head_le p0 rest hs _ (lastD_mem rest p0))
  simp only [clampHi_of_le _ _ hle, hx, if_true]

theorem interpClampT_between (pre post : List (K × K)) (p0 p1 : K × K) (x : K)
    (hs : SortedX (pre ++ p0 :: p1 :: post)) (h0 : p0.1 < x) (h1 : x < p1.1) :
    interpClampT (pre ++ p0 :: p1 :: post) x = .ok (lin p0 p1 x) := by
  have hb := interpIn_between pre post p0 p1 x hs h0 h1
  generalize htab : pre ++ p0 :: p1 :: post = tab at hs hb
  cases tab with
  | nil => simp at htab
  | cons q0 rest =>
    have hp0 : p0 ∈ q0 :: rest := by rw [← htab]; simp
    have hp1 : p1 ∈ q0 :: rest := by rw [← htab]; simp
    simp only [interpClampT, lastD]
    have hle : x ≤ (lastD rest q0).1 := le_trans (le_of_lt h1) (sortedX_le_last q0 rest hs p1 hp1)
    have hge : q0.1 ≤ x := le_trans (sortedX_head_le q0 rest hs p0 hp0) (le_of_lt h0)
    simp only [clampHi_of_le _ _ hle, not_lt.mpr hge, if_false, hb]

/-- what `interpClampT` does whenever it does not refuse -/
theorem interpClampT_eq (p0 : K × K) (rest : List (K × K)) (x : K)
    (h : ¬ clampHi (lastD rest p0).1 x < p0.1) :
    interpClampT (p0 :: rest) x = .ok (interpIn (p0 :: rest) (clampHi (lastD rest p0).1 x)) := by
  simp [interpClampT, lastD, h]

theorem interpClampT_scale (s : K) (hs : 0 < s) (tab : List (K × K)) (x : K) :
    interpClampT (tab.map (fun p => (s * p.1, p.2))) (s * x) = interpClampT tab x := by
  cases tab with
  | nil => simp [interpClampT]
  | cons p0 rest =>
    have hl : lastD (rest.map (fun p : K × K => (s * p.1, p.2))) (s * p0.1, p0.2)
        = (s * (lastD rest p0).1, (lastD rest p0).2) :=
      lastD_map (fun p : K × K => (s * p.1, p.2)) rest p0
    have hc : clampHi (s * (lastD rest p0).1) (s * x) = s * clampHi (lastD rest p0).1 x := by
      unfold clampHi
      by_cases h : (lastD rest p0).1 < x
      · rw [if_pos h, if_pos (mul_lt_mul_of_pos_left h hs)]
      · rw [if_neg h, if_neg (fun h' => h (lt_of_mul_lt_mul_left h' hs.le))]
    have hlt : (s * clampHi (lastD rest p0).1 x < s * p0.1) ↔ clampHi (lastD rest p0).1 x < p0.1 :=
      ⟨fun h' => lt_of_mul_lt_mul_left h' hs.le, fun h' => mul_lt_mul_of_pos_left h' hs⟩
    have hi := interpIn_scale s hs (p0 :: rest) (clampHi (lastD rest p0).1 x)
    simp only [List.map_cons] at hi
    simp only [List.map_cons, interpClampT, lastD, hl, hc, hlt, hi]
    by_cases hcnd : clampHi (lastD rest p0).1 x < p0.1 <;> simp [hcnd]

/-! ## parallel arrays -/

theorem zip_getElem_mem (xs ys : List K) (h : xs.length = ys.length) (i : Nat) (hi : i < xs.length) :
    (xs[i], ys[i]'(h ▸ hi)) ∈ xs.zip ys := by
  have hz : i < (xs.zip ys).length := by simp [List.length_zip, ← h, hi]
  have : (xs.zip ys)[i] = (xs[i], ys[i]'(h ▸ hi)) := by simp
  rw [← this]; exact List.getElem_mem hz

theorem interpClamp_knot (xs ys : List K) (h : xs.length = ys.length) (hinc : Incr xs) (i : Nat)
    (hi : i < xs.length) : interpClamp xs ys xs[i] = .ok (ys[i]'(h ▸ hi)) :=
  interpClampT_knot _ (sortedX_zip xs ys hinc) (xs[i], ys[i]'(h ▸ hi)) (zip_getElem_mem xs ys h i hi)

theorem zip_split (xs ys : List K) (h : xs.length = ys.length) (i : Nat) (hi : i + 1 < xs.length) :
    xs.zip ys = (xs.zip ys).take i ++ (xs[i], ys[i]'(by omega)) :: (xs[i + 1], ys[i + 1]'(by omega))
      :: (xs.zip ys).drop (i + 2) := by
  have hz : i + 1 < (xs.zip ys).length := by simp [List.length_zip, ← h, hi]
  have e0 : (xs.zip ys)[i]'(by omega) = (xs[i], ys[i]'(by omega)) := by simp
  have e1 : (xs.zip ys)[i + 1] = (xs[i + 1], ys[i + 1]'(by omega)) := by simp
  rw [← e0, ← e1]
  have d1 : (xs.zip ys).drop i = (xs.zip ys)[i]'(by omega) :: (xs.zip ys).drop (i + 1) :=
    List.drop_eq_getElem_cons (by omega)
  have d2 : (xs.zip ys).drop (i + 1) = (xs.zip ys)[i + 1] :: (xs.zip ys).drop (i + 2) :=
    List.drop_eq_getElem_cons hz
  rw [← d2, ← d1, List.take_append_drop]

theorem interpClamp_between (xs ys : List K) (h : xs.length = ys.length) (hinc : Incr xs) (i : Nat)
    (hi : i + 1 < xs.length) (x : K) (h0 : xs[i] < x) (h1 : x < xs[i + 1]) :
    interpClamp xs ys x = .ok (lin (xs[i], ys[i]'(by omega)) (xs[i + 1], ys[i + 1]'(by omega)) x) := by
  unfold interpClamp
  have hs := sortedX_zip xs ys hinc
  rw [zip_split xs ys h i hi] at hs ⊢
  exact interpClampT_between _ _ _ _ x hs h0 h1

theorem interpClamp_above (xs ys : List K) (n : Nat) (hx : xs.length = n + 1) (hy : ys.length = n + 1)
    (hinc : Incr xs) (x : K) (hgt : xs[n] < x) : interpClamp xs ys x = .ok ys[n] := by
  unfold interpClamp
  have hs := sortedX_zip xs ys hinc
  have hzl : (xs.zip ys).length = n + 1 := by simp [List.length_zip, hx, hy]
  generalize htab : xs.zip ys = tab at hs hzl
  cases tab with
  | nil => simp at hzl
  | cons p0 rest =>
    have hl : lastD rest p0 = (xs[n], ys[n]) := by
      have := lastD_eq_getElem (p0 :: rest) p0 n hzl
      simp only [lastD] at this
      rw [this]
      simp only [← htab]; simp
    rw [interpClampT_above p0 rest hs x (by rw [hl]; exact hgt), hl]

theorem interpClamp_below (xs ys : List K) (h : xs.length = ys.length) (hinc : Incr xs)
    (h0 : 0 < xs.length) (x : K) (hlt : x < xs[0]) : interpClamp xs ys x = .error .tooSmall := by
  unfold interpClamp
  have hs := sortedX_zip xs ys hinc
  cases xs with
  | nil => simp at h0
  | cons a xt =>
    cases ys with
    | nil => simp at h
    | cons b yt =>
      simp only [List.zip_cons_cons] at hs ⊢
      exact interpClampT_below _ _ hs x (by simpa using hlt)

theorem interpClamp_scale (s : K) (hs : 0 < s) (xs ys : List K) (x : K) :
    interpClamp (xs.map (fun a => s * a)) ys (s * x) = interpClamp xs ys x := by
  unfold interpClamp
  have : (xs.map (fun a => s * a)).zip ys = (xs.zip ys).map (fun p => (s * p.1, p.2)) := by
    rw [List.zip_map_left]; rfl
  rw [this, interpClampT_scale s hs]

/-! ## whole-array interpolation (`ConvolvedFluxes.interpolate`, `SED.interpolate`) -/

/-- the value the array code computes for one row and one request, once the request passed the test -/
theorem row_cell (a0 a1 : K) (rest : List K) (row : List K)
    (hrow : row.length = (a0 :: a1 :: rest).length) (x : K)
    (hchk : ¬ clampHi (lastD (a0 :: a1 :: rest) a0) x < a0) :
    interpClamp (a0 :: a1 :: rest) row x
      = .ok (interpIn ((a0 :: a1 :: rest).zip row)
          (clampK a0 (lastD (a0 :: a1 :: rest) a0) (clampHi (lastD (a0 :: a1 :: rest) a0) x))) := by
  cases row with
  | nil => simp at hrow
  | cons r0 rt =>
    have hl : (lastD ((a1 :: rest).zip rt) (a0, r0)).1 = lastD (a0 :: a1 :: rest) a0 := by
      rw [lastD_zip_fst (a1 :: rest) rt (by simpa using hrow.symm) a0 r0]; simp [lastD]
    have hck : clampK a0 (lastD (a0 :: a1 :: rest) a0) (clampHi (lastD (a0 :: a1 :: rest) a0) x)
        = clampHi (lastD (a0 :: a1 :: rest) a0) x :=
      clampK_of_mem _ _ _ (not_lt.mp hchk) (clampHi_le _ _)
    unfold interpClamp
    simp only [List.zip_cons_cons]
    rw [interpClampT_eq (a0, r0) ((a1 :: rest).zip rt) x (by rw [hl]; exact hchk), hl, hck]

theorem any_lt_false (l : List K) (a0 : K) (h : (l.any (fun x => decide (x < a0))) = false) :
    ∀ x ∈ l, ¬ x < a0 := by
  intro x hx hlt
  have : l.any (fun x => decide (x < a0)) = true := List.any_eq_true.mpr ⟨x, hx, by simpa using hlt⟩
  rw [h] at this; cases this

theorem convInterpolate_multi (c : ConvTab K) (req : List K) (a0 a1 : K) (rest : List K)
    (haps : c.aps = a0 :: a1 :: rest) :
    convInterpolate c req =
      if (req.map (clampHi (lastD (a0 :: a1 :: rest) a0))).any (fun x => decide (x < a0)) then .error .tooSmall
      else .ok { wav := c.wav, names := c.names, aps := req.map (clampHi (lastD (a0 :: a1 :: rest) a0)),
                 flux := c.flux.map (fun row =>
                   ((req.map (clampHi (lastD (a0 :: a1 :: rest) a0))).map
                     (clampK a0 (lastD (a0 :: a1 :: rest) a0))).map (interpIn ((a0 :: a1 :: rest).zip row))),
                 err := c.err.map (fun row =>
                   ((req.map (clampHi (lastD (a0 :: a1 :: rest) a0))).map
                     (clampK a0 (lastD (a0 :: a1 :: rest) a0))).map (interpIn ((a0 :: a1 :: rest).zip row))) } := by
  unfold convInterpolate
  rw [haps]

theorem convInterpolate_single (c : ConvTab K) (req : List K) (h : c.aps.length ≤ 1) :
    convInterpolate c req =
      .ok { wav := c.wav, names := c.names, aps := req,
            flux := c.flux.map (repeatRow req.length), err := c.err.map (repeatRow req.length) } := by
  unfold convInterpolate
  match hc : c.aps with
  | [] => rfl
  | [_] => rfl
  | _ :: _ :: _ => rw [hc] at h; simp at h

theorem sedInterpolate_multi (s : SedTab K) (req : List K) (a0 a1 : K) (rest : List K)
    (haps : s.aps = a0 :: a1 :: rest) :
    sedInterpolate s req =
      if (req.map (clampHi (lastD (a0 :: a1 :: rest) a0))).any (fun x => decide (x < a0)) then .error .tooSmall
      else .ok ((transposeN s.wav.length s.flux).map (fun col =>
        (req.map (clampHi (lastD (a0 :: a1 :: rest) a0))).map (interpIn ((a0 :: a1 :: rest).zip col)))) := by
  unfold sedInterpolate
  rw [haps]

theorem repeatRow_single {α : Type} (n : Nat) (v : α) : repeatRow n [v] = List.replicate n v := by
  simp [repeatRow]

/-! ## distance grid -/

theorem ofNatK_eq (n : Nat) : (ofNatK n : K) = (n : K) := by
  induction n with
  | zero => simp [ofNatK]
  | succ m ih => simp [ofNatK, ih]

theorem linspace_length (a b : K) (m : Nat) : (linspace a b (m + 2)).length = m + 2 := by
  simp [linspace]

theorem linspace_getElem? (a b : K) (m i : Nat) (hi : i < m + 2) :
    (linspace a b (m + 2))[i]? = some (a + (i : K) * ((b - a) / ((m : K) + 1))) := by
  have hm : ((m : K) + 1) ≠ 0 := by positivity
  simp only [linspace, ofNatK_eq]
  by_cases h : i < m + 1
  · rw [List.getElem?_append_left (by simpa using h)]
    simp only [List.getElem?_map, List.getElem?_range h, Option.map_some, Nat.cast_add, Nat.cast_one]
    congr 1; ring
  · have hi' : i = m + 1 := by omega
    subst hi'
    rw [List.getElem?_append_right (by simp)]
    simp only [List.length_map, List.length_range, Nat.sub_self, List.getElem?_cons_zero, Nat.cast_add, Nat.cast_one]
    congr 1; field_simp; ring

/-! ## `argminFirst` -/

theorem argminFirstAux_spec (xs : List K) (i bi : Nat) (bv : K) :
    (argminFirstAux xs i bi bv = (bi, bv) ∧ ∀ x ∈ xs, bv ≤ x) ∨
    (∃ pre v post, xs = pre ++ v :: post ∧ argminFirstAux xs i bi bv = (i + pre.length, v) ∧ v < bv ∧
      (∀ y ∈ pre, v < y) ∧ (∀ y ∈ post, v ≤ y)) := by
  induction xs generalizing i bi bv with
  | nil => left; simp [argminFirstAux]
  | cons x xs ih =>
    by_cases hx : x < bv
    · simp only [argminFirstAux, hx, if_true]
      rcases ih (i + 1) i x with ⟨he, hall⟩ | ⟨pre, v, post, hsplit, he, hv, hpre, hpost⟩
      · right
        exact ⟨[], x, xs, by simp, by simpa using he, hx, by simp, hall⟩
      · right
        refine ⟨x :: pre, v, post, by simp [hsplit], ?_, lt_trans hv hx, ?_, hpost⟩
        · rw [he]; simp; omega
        · intro y hy
          rcases List.mem_cons.mp hy with rfl | hy
          · exact hv
          · exact hpre y hy
    · simp only [argminFirstAux, hx, if_false]
      rcases ih (i + 1) bi bv with ⟨he, hall⟩ | ⟨pre, v, post, hsplit, he, hv, hpre, hpost⟩
      · left
        refine ⟨he, ?_⟩
        intro y hy
        rcases List.mem_cons.mp hy with rfl | hy
        · exact not_lt.mp hx
        · exact hall y hy
      · right
        refine ⟨x :: pre, v, post, by simp [hsplit], ?_, hv, ?_, hpost⟩
        · rw [he]; simp; omega
        · intro y hy
          rcases List.mem_cons.mp hy with rfl | hy
          · exact lt_of_lt_of_le hv (not_lt.mp hx)
          · exact hpre y hy

/-- `np.argmin`: the first position of the minimum -/
theorem argminFirst_spec (l : List K) (hne : l ≠ []) :
    ∃ pre v post, l = pre ++ v :: post ∧ argminFirst l = (pre.length, v) ∧
      (∀ y ∈ pre, v < y) ∧ (∀ y ∈ post, v ≤ y) := by
  cases l with
  | nil => exact absurd rfl hne
  | cons x xs =>
    simp only [argminFirst]
    rcases argminFirstAux_spec xs 1 0 x with ⟨he, hall⟩ | ⟨pre, v, post, hsplit, he, hv, hpre, hpost⟩
    · exact ⟨[], x, xs, by simp, by simpa using he, by simp, hall⟩
    · refine ⟨x :: pre, v, post, by simp [hsplit], ?_, ?_, hpost⟩
      · rw [he]; simp; omega
      · intro y hy
        rcases List.mem_cons.mp hy with rfl | hy
        · exact hv
        · exact hpre y hy

/-! ## one-parameter fit -/

theorem optAv_eq (ps : List (Pt K)) : optAv ps = c1 ps / m11 ps := rfl

theorem ssq_zero (a : K) (ps : List (Pt K)) :
    ssq a 0 ps = sumBy (fun p => (p.r - a * p.k) * (p.r - a * p.k) * p.w) ps := by
  unfold ssq
  apply sumBy_congr
  intro p _
  ring

/-- the objective is a parabola around `optAv` -/
theorem ssq1_diff (a : K) (ps : List (Pt K)) (h11 : m11 ps ≠ 0) :
    ssq a 0 ps - ssq (optAv ps) 0 ps = m11 ps * ((a - optAv ps) * (a - optAv ps)) := by
  have hA : optAv ps * m11 ps = c1 ps := by rw [optAv_eq]; field_simp
  rw [ssq_expand, ssq_expand]
  generalize optAv ps = A at hA
  linear_combination (2 * (a - A)) * hA

theorem clipAv_mem (lo hi a : K) (h : lo ≤ hi) : lo ≤ clipAv lo hi a ∧ clipAv lo hi a ≤ hi := by
  unfold clipAv
  by_cases h1 : a < lo
  · simp only [h1, if_true]
    by_cases h2 : hi < lo
    · exact absurd h (not_le.mpr h2)
    · simp only [h2, if_false]; exact ⟨le_rfl, h⟩
  · simp only [h1, if_false]
    by_cases h2 : hi < a
    · simp only [h2, if_true]; exact ⟨h, le_rfl⟩
    · simp only [h2, if_false]; exact ⟨not_lt.mp h1, not_lt.mp h2⟩

/-- clipping the unconstrained optimum gives the optimum over the interval (1-D convexity) -/
theorem clipAv_optimal (lo hi : K) (hlohi : lo ≤ hi) (ps : List (Pt K)) (h11 : 0 < m11 ps)
    (a : K) (ha : lo ≤ a) (ha' : a ≤ hi) :
    ssq (clipAv lo hi (optAv ps)) 0 ps ≤ ssq a 0 ps := by
  have hd := ssq1_diff a ps (ne_of_gt h11)
  have hc := ssq1_diff (clipAv lo hi (optAv ps)) ps (ne_of_gt h11)
  generalize optAv ps = A at *
  have hmono : (clipAv lo hi A - A) * (clipAv lo hi A - A) ≤ (a - A) * (a - A) := by
    unfold clipAv
    by_cases h1 : A < lo
    · simp only [h1, if_true]
      by_cases h2 : hi < lo
      · exact absurd hlohi (not_le.mpr h2)
      · simp only [h2, if_false]; nlinarith
    · simp only [h1, if_false]
      by_cases h2 : hi < A
      · simp only [h2, if_true]; nlinarith
      · simp only [h2, if_false]; nlinarith [mul_self_nonneg (a - A)]
  have := mul_le_mul_of_nonneg_left hmono h11.le
  linarith

/-! ## `seqE` -/

theorem seqE_length {ε α : Type} (l : List (Except ε α)) (out : List α) (h : seqE l = .ok out) :
    out.length = l.length := by
  induction l generalizing out with
  | nil => simp [seqE] at h; subst h; rfl
  | cons x xs ih =>
    cases x with
    | error e => simp [seqE] at h
    | ok v =>
      simp only [seqE] at h
      cases hr : seqE xs with
      | error e => rw [hr] at h; simp at h
      | ok vs =>
        rw [hr] at h; simp at h; subst h
        simp [ih vs hr]

theorem seqE_getElem {ε α : Type} (l : List (Except ε α)) (out : List α) (h : seqE l = .ok out)
    (i : Nat) (hi : i < l.length) (ho : i < out.length) : l[i] = .ok out[i] := by
  induction l generalizing out i with
  | nil => simp at hi
  | cons x xs ih =>
    cases x with
    | error e => simp [seqE] at h
    | ok v =>
      simp only [seqE] at h
      cases hr : seqE xs with
      | error e => rw [hr] at h; simp at h
      | ok vs =>
        rw [hr] at h; simp at h; subst h
        cases i with
        | zero => simp
        | succ j =>
          simp only [List.getElem_cons_succ]
          exact ih vs hr j (by simpa using hi) (by simpa using ho)

/-! ## `transposeN`, `interpStrictT`, `npInterpEdge` (for `interpolate_variable`) -/

theorem filterMap_head_length {α : Type} (m : List (List α)) (n : Nat) (h : ∀ row ∈ m, row.length = n + 1) :
    (m.filterMap List.head?).length = m.length := by
  induction m with
  | nil => rfl
  | cons r rs ih =>
    have hr := h r List.mem_cons_self
    cases r with
    | nil => simp at hr
    | cons a t =>
      simp only [List.filterMap_cons, List.head?_cons, List.length_cons]
      rw [ih (fun row hrow => h row (List.mem_cons_of_mem _ hrow))]

theorem transposeN_length {α : Type} (n : Nat) (m : List (List α)) : (transposeN n m).length = n := by
  induction n generalizing m with
  | zero => rfl
  | succ k ih => simp [transposeN, ih]

/-- for an `n_ap × n` array every column has `n_ap` entries -/
theorem transposeN_cols {α : Type} (n : Nat) (m : List (List α)) (h : ∀ row ∈ m, row.length = n) :
    ∀ col ∈ transposeN n m, col.length = m.length := by
  induction n generalizing m with
  | zero => intro col hc; simp [transposeN] at hc
  | succ k ih =>
    intro col hc
    simp only [transposeN, List.mem_cons] at hc
    rcases hc with rfl | hc
    · exact filterMap_head_length m k h
    · have := ih (m.map List.tail) (by
        intro row hrow
        obtain ⟨r, hr, rfl⟩ := List.mem_map.mp hrow
        simp [h r hr]) col hc
      simpa using this

theorem interpStrictT_eq (p0 : K × K) (rest : List (K × K)) (y : K) (h0 : p0.1 ≤ y)
    (h1 : y ≤ (lastD rest p0).1) : interpStrictT (p0 :: rest) y = .ok (interpIn (p0 :: rest) y) := by
  simp [interpStrictT, lastD, not_lt.mpr h0, not_lt.mpr h1]

theorem npInterpEdge_mem (tab : List (K × K)) (hs : SortedX tab) (p : K × K) (hp : p ∈ tab) :
    npInterpEdge tab p.1 = p.2 := by
  cases tab with
  | nil => cases hp
  | cons p0 rest =>
    simp [npInterpEdge, npInterp, lastD, not_lt.mpr (sortedX_head_le p0 rest hs p hp),
      not_lt.mpr (sortedX_le_last p0 rest hs p hp), interpIn_knot _ hs p hp]

/-- the log–log table of `interpolate_variable` is strictly increasing -/
theorem varTab_sorted (lg : K → K) (hmono : ∀ x y, 0 < x → x < y → lg x < lg y)
    (fw fa : List K) (hlen : fw.length = fa.length) (hnd : fw.Nodup) (hpos : ∀ w ∈ fw, 0 < w) :
    SortedX (((fw.zip fa).mergeSort (fun p q => decide (p.1 ≤ q.1))).map (fun p => (lg p.1, lg p.2))) := by
  have hperm := List.mergeSort_perm (fw.zip fa) (fun p q => decide (p.1 ≤ q.1))
  have hle : List.Pairwise (fun a b : K × K => decide (a.1 ≤ b.1) = true)
      ((fw.zip fa).mergeSort (fun p q => decide (p.1 ≤ q.1))) := by
    apply List.pairwise_mergeSort
    · intro a b c hab hbc
      simp only [decide_eq_true_eq] at *
      exact le_trans hab hbc
    · intro a b
      simp only [Bool.or_eq_true, decide_eq_true_eq]
      exact le_total _ _
  have hfst : (fw.zip fa).map Prod.fst = fw := List.map_fst_zip (le_of_eq hlen)
  have hnd' : (((fw.zip fa).mergeSort (fun p q => decide (p.1 ≤ q.1))).map Prod.fst).Nodup := by
    rw [(hperm.map Prod.fst).nodup_iff, hfst]; exact hnd
  have hne : List.Pairwise (fun a b : K × K => a.1 ≠ b.1)
      ((fw.zip fa).mergeSort (fun p q => decide (p.1 ≤ q.1))) := by
    have := hnd'
    unfold List.Nodup at this
    exact List.pairwise_map.mp this
  have hmem : ∀ p ∈ (fw.zip fa).mergeSort (fun p q => decide (p.1 ≤ q.1)), 0 < p.1 := by
    intro p hp
    exact hpos p.1 (List.of_mem_zip (hperm.mem_iff.mp hp)).1
  unfold SortedX
  rw [List.pairwise_map]
  refine List.Pairwise.imp_of_mem ?_ (hle.and hne)
  intro a b ha _ hab
  simp only [decide_eq_true_eq] at hab
  exact hmono _ _ (hmem a ha) (lt_of_le_of_ne hab.1 hab.2)

theorem varTab_mem (lg : K → K) (fw fa : List K) (hlen : fw.length = fa.length) (j : Nat) (hj : j < fw.length) :
    (lg fw[j], lg (fa[j]'(hlen ▸ hj))) ∈
      ((fw.zip fa).mergeSort (fun p q => decide (p.1 ≤ q.1))).map (fun p => (lg p.1, lg p.2)) := by
  have hperm := List.mergeSort_perm (fw.zip fa) (fun p q => decide (p.1 ≤ q.1))
  have h1 : (fw[j], fa[j]'(hlen ▸ hj)) ∈ (fw.zip fa).mergeSort (fun p q => decide (p.1 ≤ q.1)) :=
    hperm.mem_iff.mpr (zip_getElem_mem fw fa hlen j hj)
  exact List.mem_map.mpr ⟨_, h1, rfl⟩

/-! ## `fit3` -/

/-- chi² of one model at one trial distance, with A_V the clipped one-parameter optimum there -/
def chiAt (big : K) (ln1m : K → K) (lo hi : K) (ps : List (Pt K)) : K :=
  chi2 big ln1m (clipAv lo hi (optAv ps)) 0 ps

/-- how `fit3` unfolds: the distance list splits at the first minimum of chi² -/
theorem fit3_spec (big : K) (ln1m : K → K) (lo hi : K) (logd : List K) (pss : List (List (Pt K)))
    (hne : pss ≠ []) (hlen : logd.length = pss.length) :
    ∃ (before : List (List (Pt K))) (ps : List (Pt K)) (after : List (List (Pt K))),
      ∃ hb : before.length < logd.length,
      pss = before ++ ps :: after ∧
      fit3 big ln1m lo hi logd pss
        = (clipAv lo hi (optAv ps), logd[before.length], chiAt big ln1m lo hi ps, before.length) ∧
      (∀ ps' ∈ before, chiAt big ln1m lo hi ps < chiAt big ln1m lo hi ps') ∧
      (∀ ps' ∈ after, chiAt big ln1m lo hi ps ≤ chiAt big ln1m lo hi ps') := by
  have hchis : (fit3PerDist big ln1m lo hi pss).map (·.2) = pss.map (chiAt big ln1m lo hi) := by
    simp [fit3PerDist, chiAt, List.map_map, Function.comp_def]
  have hne' : pss.map (chiAt big ln1m lo hi) ≠ [] := by simpa using hne
  obtain ⟨pre, v, post, hsplit, harg, hpre, hpost⟩ := argminFirst_spec _ hne'
  obtain ⟨before, l2, hpss, hb, hl2⟩ := List.map_eq_append_iff.mp hsplit
  obtain ⟨ps, after, hl2', hv, hafter⟩ := List.map_eq_cons_iff.mp hl2
  subst hl2'
  have hlb : pre.length = before.length := by rw [← hb]; simp
  have hblt : before.length < logd.length := by rw [hlen, hpss]; simp
  refine ⟨before, ps, after, hblt, hpss, ?_, ?_, ?_⟩
  · unfold fit3
    simp only [hchis, harg, hlb]
    have hper : (fit3PerDist big ln1m lo hi pss).getD before.length (0, 0)
        = (clipAv lo hi (optAv ps), chiAt big ln1m lo hi ps) := by
      simp [fit3PerDist, hpss, chiAt, List.getD_eq_getElem?_getD]
    rw [hper, ← hv]
    simp [List.getD_eq_getElem?_getD, hblt]
  · intro ps' hp
    rw [hv]; apply hpre; rw [← hb]; exact List.mem_map_of_mem hp
  · intro ps' hp
    rw [hv]; apply hpost; rw [← hafter]; exact List.mem_map_of_mem hp

/-! ## requests below the table -/

theorem below_any (a0 a1 : K) (rest req : List K) (hinc : Incr (a0 :: a1 :: rest)) (x : K) (hx : x ∈ req)
    (hlt : x < a0) :
    (req.map (clampHi (lastD (a0 :: a1 :: rest) a0))).any (fun x => decide (x < a0)) = true := by
  have hle : a0 ≤ lastD (a0 :: a1 :: rest) a0 := by
    have hs : SortedX ((a0 :: a1 :: rest).zip (a0 :: a1 :: rest)) := sortedX_zip _ _ hinc
    have := sortedX_head_le _ _ hs _ (lastD_mem (((a1 :: rest).zip (a1 :: rest))) (a0, a0))
    rw [lastD_zip_fst (a1 :: rest) (a1 :: rest) rfl a0 a0] at this
    simpa [lastD] using this
  apply List.any_eq_true.mpr
  refine ⟨clampHi (lastD (a0 :: a1 :: rest) a0) x, List.mem_map_of_mem hx, ?_⟩
  rw [clampHi_of_le _ _ (le_trans (le_of_lt hlt) hle)]
  simpa using hlt

/-! ## the glue between tables, distances and the per-distance band lists -/

theorem thousandK_eq : (thousandK : K) = 1000 := by
  unfold thousandK tenK two; norm_num

theorem mkPts_getElem? (los : List (LogObs K)) (mfs ks : List K) (j : Nat) (h1 : j < los.length)
    (h2 : j < mfs.length) (h3 : j < ks.length) :
    (mkPts los mfs ks)[j]? = some { r := los[j].lf - mfs[j], k := ks[j], q := scLaw, w := los[j].w,
                                    flag := los[j].flag, e := los[j].le } := by
  rw [mkPts_eq_map_zip]
  simp [h1, h2, h3]

theorem exceptMap_ok {ε α β : Type} (f : α → β) (x : Except ε α) (y : β) (h : x.map f = .ok y) :
    ∃ v, x = .ok v ∧ y = f v := by
  cases x with
  | error e => simp [Except.map] at h
  | ok v => simp only [Except.map, Except.ok.injEq] at h; exact ⟨v, rfl, h.symm⟩

theorem seqE_ok_of_forall {ε α : Type} (l : List (Except ε α)) (h : ∀ x ∈ l, ∃ v, x = .ok v) :
    ∃ out, seqE l = .ok out := by
  induction l with
  | nil => exact ⟨[], rfl⟩
  | cons x xs ih =>
    obtain ⟨v, rfl⟩ := h x List.mem_cons_self
    obtain ⟨vs, hvs⟩ := ih (fun y hy => h y (List.mem_cons_of_mem _ hy))
    exact ⟨v :: vs, by simp [seqE, hvs]⟩

theorem mem_zipWith {α β γ : Type} (f : α → β → γ) (l1 : List α) (l2 : List β) (x : γ)
    (h : x ∈ List.zipWith f l1 l2) : ∃ a ∈ l1, ∃ b ∈ l2, x = f a b := by
  induction l1 generalizing l2 with
  | nil => simp at h
  | cons a as ih =>
    cases l2 with
    | nil => simp at h
    | cons b bs =>
      simp only [List.zipWith_cons_cons, List.mem_cons] at h
      rcases h with rfl | h
      · exact ⟨a, List.mem_cons_self, b, List.mem_cons_self, rfl⟩
      · obtain ⟨a', ha', b', hb', rfl⟩ := ih bs h
        exact ⟨a', List.mem_cons_of_mem _ ha', b', List.mem_cons_of_mem _ hb', rfl⟩

theorem clampK_mem (lo hi x : K) (h : lo ≤ hi) : lo ≤ clampK lo hi x ∧ clampK lo hi x ≤ hi := by
  unfold clampK
  by_cases h1 : x < lo
  · simp only [h1, if_true]
    by_cases h2 : hi < lo
    · exact absurd h (not_le.mpr h2)
    · simp only [h2, if_false]; exact ⟨le_rfl, h⟩
  · simp only [h1, if_false]
    by_cases h2 : hi < x
    · simp only [h2, if_true]; exact ⟨h, le_rfl⟩
    · simp only [h2, if_false]; exact ⟨not_lt.mp h1, not_lt.mp h2⟩

theorem head_le_lastD (a0 a1 : K) (rest : List K) (hinc : Incr (a0 :: a1 :: rest)) :
    a0 ≤ lastD (a0 :: a1 :: rest) a0 := by
  have hs : SortedX ((a0 :: a1 :: rest).zip (a0 :: a1 :: rest)) := sortedX_zip _ _ hinc
  have := sortedX_head_le _ _ hs _ (lastD_mem (((a1 :: rest).zip (a1 :: rest))) (a0, a0))
  rw [lastD_zip_fst (a1 :: rest) (a1 :: rest) rfl a0 a0] at this
  simpa [lastD] using this

theorem any_lt_eq_false (l : List K) (a0 : K) (h : ∀ x ∈ l, ¬ x < a0) :
    (l.any (fun x => decide (x < a0))) = false := by
  rw [List.any_eq_false]
  intro x hx
  simpa using h x hx

/-- `interp1d` evaluated inside the table of a column with as many entries as apertures -/
theorem interpStrictT_col (a0 a1 : K) (rest col : List K) (hcol : col.length = (a0 :: a1 :: rest).length)
    (y : K) (h0 : a0 ≤ y) (h1 : y ≤ lastD (a0 :: a1 :: rest) a0) :
    interpStrictT ((a0 :: a1 :: rest).zip col) y = .ok (interpIn ((a0 :: a1 :: rest).zip col) y) := by
  cases col with
  | nil => simp at hcol
  | cons c0 ct =>
    simp only [List.zip_cons_cons]
    have hl : (lastD ((a1 :: rest).zip ct) (a0, c0)).1 = lastD (a0 :: a1 :: rest) a0 := by
      rw [lastD_zip_fst (a1 :: rest) ct (by simpa using hcol.symm) a0 c0]; simp [lastD]
    exact interpStrictT_eq (a0, c0) _ _ h0 (by rw [hl]; exact h1)

end Dist
end SF
