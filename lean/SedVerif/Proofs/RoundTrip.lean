import SedVerif.Model.RoundTrip
import Mathlib.Order.Defs.LinearOrder
import Mathlib.Data.List.Nodup

/-! Helper lemmas for C12: keyed lookup under reversal, argsort of a monotone axis, gather. -/
namespace SF
namespace RT

/-! ### lookup by wavelength value -/

section cell
variable {K : Type} [DecidableEq K]

theorem cellAt_none_of_not_mem (x : K) : ∀ (ws vs : List K), x ∉ ws → cellAt ws vs x = none := by
  intro ws
  induction ws with
  | nil => intro vs _; cases vs <;> rfl
  | cons w t ih =>
    intro vs h
    cases vs with
    | nil => rfl
    | cons v vt =>
      have hw : w ≠ x := fun e => h (e ▸ List.mem_cons_self)
      simp only [cellAt, if_neg hw]
      exact ih vt (fun hm => h (List.mem_cons_of_mem _ hm))

theorem cellAt_append_single (x w v : K) : ∀ (ws vs : List K), ws.length = vs.length →
    cellAt (ws ++ [w]) (vs ++ [v]) x =
      (match cellAt ws vs x with
       | some r => some r
       | none => if w = x then some v else none) := by
  intro ws
  induction ws with
  | nil =>
    intro vs h
    cases vs with
    | nil => simp [cellAt]
    | cons _ _ => simp at h
  | cons w0 t ih =>
    intro vs h
    cases vs with
    | nil => simp at h
    | cons v0 vt =>
      simp only [List.cons_append, cellAt]
      by_cases h0 : w0 = x
      · simp [h0]
      · simp only [if_neg h0]
        exact ih vt (by simpa using h)

/-- reversing the wavelength list and the row together does not change any keyed cell -/
theorem cellAt_reverse (x : K) : ∀ (ws vs : List K), ws.Nodup → ws.length = vs.length →
    cellAt ws.reverse vs.reverse x = cellAt ws vs x := by
  intro ws
  induction ws with
  | nil => intro vs _ h; cases vs <;> simp_all [cellAt]
  | cons w t ih =>
    intro vs hnd h
    cases vs with
    | nil => simp at h
    | cons v vt =>
      have hnd' := List.nodup_cons.mp hnd
      have hl : t.length = vt.length := by simpa using h
      rw [List.reverse_cons, List.reverse_cons,
        cellAt_append_single x w v t.reverse vt.reverse (by simp [hl]), ih vt hnd'.2 hl]
      simp only [cellAt]
      by_cases hw : w = x
      · subst hw
        rw [cellAt_none_of_not_mem w t vt hnd'.1]
      · simp only [if_neg hw]
        cases cellAt t vt x <;> rfl

/-- the keyed cell of a tabulated wavelength is the cell at its index -/
theorem cellAt_getElem : ∀ (ws vs : List K), ws.Nodup → ∀ (i : Nat) (w v : K),
    ws[i]? = some w → vs[i]? = some v → cellAt ws vs w = some v := by
  intro ws
  induction ws with
  | nil => intro vs _ i w v h; simp at h
  | cons w0 t ih =>
    intro vs hnd i w v hw hv
    have hnd' := List.nodup_cons.mp hnd
    cases vs with
    | nil => simp at hv
    | cons v0 vt =>
      cases i with
      | zero =>
        simp only [List.getElem?_cons_zero, Option.some.injEq] at hw hv
        subst hw; subst hv
        simp [cellAt]
      | succ k =>
        simp only [List.getElem?_cons_succ] at hw hv
        have hmem : w ∈ t := List.mem_of_getElem? hw
        have hne : w0 ≠ w := fun e => hnd'.1 (e ▸ hmem)
        simp only [cellAt, if_neg hne]
        exact ih vt hnd'.2 k w v hw hv

end cell

/-! ### gather through the identity and through the reversal -/

section gather
variable {K : Type} [Zero K]

theorem gather_range (a : List K) (n : Nat) (h : a.length = n) : gather (List.range n) a = a := by
  subst h
  apply List.ext_getElem?
  intro i
  by_cases hi : i < a.length
  · simp [gather, hi, List.getD_eq_getElem?_getD]
  · simp [gather, hi]

theorem gather_range_reverse (a : List K) (n : Nat) (h : a.length = n) :
    gather (List.range n).reverse a = a.reverse := by
  unfold gather
  rw [List.map_reverse]
  exact congrArg List.reverse (gather_range a n h)

end gather

/-! ### argsort and the `x[0] > x[-1]` test on a strictly monotone axis -/

section order
variable {K : Type} [LinearOrder K]

theorem nodup_of_inc (l : List K) (h : l.Pairwise (· < ·)) : l.Nodup :=
  h.imp (fun hab => ne_of_lt hab)

theorem nodup_of_dec (l : List K) (h : l.Pairwise (· > ·)) : l.Nodup :=
  h.imp (fun hab => ne_of_gt hab)

theorem argsort_inc (keys : List K) (h : keys.Pairwise (· < ·)) :
    argsort keys = List.range keys.length := by
  unfold argsort
  have hz : keys.zipIdx.Pairwise (fun a b => decide (¬ b.1 < a.1) = true) := by
    have : (keys.zipIdx.map (·.1)).Pairwise (· < ·) := by rw [List.zipIdx_map_fst]; exact h
    rw [List.pairwise_map] at this
    exact this.imp (by intro a b hab; simpa using le_of_lt hab)
  rw [List.mergeSort_of_pairwise hz, List.zipIdx_map_snd, List.range_eq_range']

theorem argsort_dec (keys : List K) (h : keys.Pairwise (· > ·)) :
    argsort keys = (List.range keys.length).reverse := by
  unfold argsort
  let le2 : K × Nat → K × Nat → Bool := fun a b => decide (¬ b.1 < a.1)
  have hrevsorted : keys.zipIdx.reverse.Pairwise (fun a b => le2 a b = true) := by
    rw [List.pairwise_reverse]
    have : (keys.zipIdx.map (·.1)).Pairwise (· > ·) := by rw [List.zipIdx_map_fst]; exact h
    rw [List.pairwise_map] at this
    exact this.imp (by intro a b hab; simpa [le2] using le_of_lt hab)
  have hsorted : (keys.zipIdx.mergeSort le2).Pairwise (fun a b => le2 a b = true) := by
    apply List.pairwise_mergeSort
    · intro a b c hab hbc
      simp only [le2, decide_eq_true_eq, not_lt] at hab hbc ⊢
      exact le_trans hab hbc
    · intro a b
      simp only [le2, Bool.or_eq_true, decide_eq_true_eq, not_lt]
      exact le_total _ _
  have hperm : (keys.zipIdx.mergeSort le2).Perm keys.zipIdx.reverse :=
    (List.mergeSort_perm _ _).trans (List.reverse_perm _).symm
  have hnd : (keys.zipIdx.map (·.1)).Nodup := by rw [List.zipIdx_map_fst]; exact nodup_of_dec keys h
  have heq : keys.zipIdx.mergeSort le2 = keys.zipIdx.reverse := by
    apply List.Perm.eq_of_pairwise _ hsorted hrevsorted hperm
    intro a b ha hb hab hba
    simp only [le2, decide_eq_true_eq, not_lt] at hab hba
    have ha' : a ∈ keys.zipIdx := (List.mergeSort_perm _ _).mem_iff.mp ha
    have hb' : b ∈ keys.zipIdx := List.mem_reverse.mp hb
    exact List.inj_on_of_nodup_map hnd ha' hb' (le_antisymm hab hba)
  show List.map (·.2) (keys.zipIdx.mergeSort le2) = _
  rw [heq, List.map_reverse, List.zipIdx_map_snd, List.range_eq_range']

theorem firstGtLast_inc (l : List K) (h : l.Pairwise (· < ·)) (hne : l ≠ []) :
    firstGtLast l = some false := by
  cases l with
  | nil => exact absurd rfl hne
  | cons a t =>
    unfold firstGtLast
    cases hl : (a :: t).getLast? with
    | none => simp at hl
    | some b =>
      simp only [List.head?_cons, Option.some.injEq, decide_eq_false_iff_not, not_lt]
      have hb : b ∈ a :: t := List.mem_of_getLast? hl
      rcases List.mem_cons.mp hb with rfl | hm
      · exact le_refl _
      · exact le_of_lt ((List.pairwise_cons.mp h).1 b hm)

theorem firstGtLast_dec (l : List K) (h : l.Pairwise (· > ·)) (hlen : 2 ≤ l.length) :
    firstGtLast l = some true := by
  cases l with
  | nil => simp at hlen
  | cons a t =>
    unfold firstGtLast
    cases hl : (a :: t).getLast? with
    | none => simp at hl
    | some b =>
      simp only [List.head?_cons, Option.some.injEq, decide_eq_true_eq]
      cases t with
      | nil => simp at hlen
      | cons a2 t2 =>
        rw [List.getLast?_cons_cons] at hl
        have hb : b ∈ a2 :: t2 := List.mem_of_getLast? hl
        exact (List.pairwise_cons.mp h).1 b hb

/-- a strictly decreasing list of length 1 also passes the test as "not reversed" -/
theorem firstGtLast_some (l : List K) (hne : l ≠ []) : ∃ b, firstGtLast l = some b := by
  cases l with
  | nil => exact absurd rfl hne
  | cons a t =>
    unfold firstGtLast
    cases hl : (a :: t).getLast? with
    | none => simp at hl
    | some b => exact ⟨_, rfl⟩

end order

/-! ### involutions -/

section invol
variable {K : Type}

theorem map_reverse_reverse (l : List (List K)) : (l.map List.reverse).map List.reverse = l := by
  rw [List.map_map]
  conv => rhs; rw [← List.map_id l]
  apply List.map_congr_left
  intro a _
  simp

theorem reverseSpectral_invol (s : Sed K) : reverseSpectral (reverseSpectral s) = s := by
  cases s with
  | mk name wav nu aps flux err =>
    simp only [reverseSpectral, List.reverse_reverse, map_reverse_reverse]
    cases err <;> simp

theorem map_map_reverse_reverse (l : List (List (List K))) :
    (l.map (fun m => m.map List.reverse)).map (fun m => m.map List.reverse) = l := by
  rw [List.map_map]
  conv => rhs; rw [← List.map_id l]
  apply List.map_congr_left
  intro a _
  simp

theorem reverseSpectralCube_invol (c : Cube K) : reverseSpectralCube (reverseSpectralCube c) = c := by
  cases c with
  | mk names wav aps val unc =>
    simp only [reverseSpectralCube, List.reverse_reverse, map_map_reverse_reverse]
    cases unc <;> simp

end invol

/-! ### lookups are blind to a joint reversal of the spectral axis -/

section look
variable {K : Type} [DecidableEq K]

theorem rowLookup_reverse (wav : List K) (hnd : wav.Nodup) (rows : List (List K))
    (hr : ∀ row ∈ rows, row.length = wav.length) (a : Nat) (x : K) :
    ((rows.map List.reverse)[a]?).bind (fun row => cellAt wav.reverse row x) =
      (rows[a]?).bind (fun row => cellAt wav row x) := by
  rw [List.getElem?_map]
  cases h : rows[a]? with
  | none => rfl
  | some row =>
    simp only [Option.map_some, Option.bind_some]
    exact cellAt_reverse x wav row hnd (hr row (List.mem_of_getElem? h)).symm

theorem sedFlux_reverse (s : Sed K) (hnd : s.wav.Nodup) (hr : ∀ row ∈ s.flux, row.length = s.wav.length)
    (a : Nat) (x : K) : sedFlux (reverseSpectral s) a x = sedFlux s a x :=
  rowLookup_reverse s.wav hnd s.flux hr a x

theorem sedErr_reverse (s : Sed K) (hnd : s.wav.Nodup)
    (hr : ∀ e, s.err = some e → ∀ row ∈ e, row.length = s.wav.length)
    (a : Nat) (x : K) : sedErr (reverseSpectral s) a x = sedErr s a x := by
  unfold sedErr
  cases he : s.err with
  | none => simp [reverseSpectral, he]
  | some e =>
    simp only [reverseSpectral, he, Option.map_some, Option.bind_some]
    exact rowLookup_reverse s.wav hnd e (hr e he) a x

theorem sedNu_reverse (s : Sed K) (hnd : s.wav.Nodup) (hl : s.nu.length = s.wav.length) (x : K) :
    sedNu (reverseSpectral s) x = sedNu s x :=
  cellAt_reverse x s.wav s.nu hnd hl.symm

theorem cubeRows_reverse (wav : List K) (hnd : wav.Nodup) (val : List (List (List K)))
    (hr : ∀ mm ∈ val, ∀ row ∈ mm, row.length = wav.length) (m a : Nat) (x : K) :
    ((val.map (fun mm => mm.map List.reverse))[m]?).bind
        (fun mm => (mm[a]?).bind (fun row => cellAt wav.reverse row x)) =
      (val[m]?).bind (fun mm => (mm[a]?).bind (fun row => cellAt wav row x)) := by
  rw [List.getElem?_map]
  cases h : val[m]? with
  | none => rfl
  | some mm =>
    simp only [Option.map_some, Option.bind_some]
    exact rowLookup_reverse wav hnd mm (hr mm (List.mem_of_getElem? h)) a x

theorem cubeVal_reverse (c : Cube K) (hnd : c.wav.Nodup)
    (hr : ∀ mm ∈ c.val, ∀ row ∈ mm, row.length = c.wav.length) (m a : Nat) (x : K) :
    cubeVal (reverseSpectralCube c) m a x = cubeVal c m a x :=
  cubeRows_reverse c.wav hnd c.val hr m a x

theorem cubeUnc_reverse (c : Cube K) (hnd : c.wav.Nodup)
    (hr : ∀ u, c.unc = some u → ∀ mm ∈ u, ∀ row ∈ mm, row.length = c.wav.length) (m a : Nat) (x : K) :
    cubeUnc (reverseSpectralCube c) m a x = cubeUnc c m a x := by
  unfold cubeUnc
  cases hu : c.unc with
  | none => simp [reverseSpectralCube, hu]
  | some u =>
    simp only [reverseSpectralCube, hu, Option.map_some, Option.bind_some]
    exact cubeRows_reverse c.wav hnd u (hr u hu) m a x

end look

/-! ### the read functions in closed form -/

section readform
variable {K : Type} [LT K] [DecidableLT K]

/-- the object `SED.read` builds before it decides whether to reverse -/
def fileSed (f : SedFile K) : Sed K :=
  { name := f.name, wav := f.wav, nu := f.nu, aps := some f.aps, flux := f.flux, err := some f.err }

theorem sedRead_nu (f : SedFile K) (b : Bool) (h : firstGtLast f.nu = some b) :
    sedRead .nu f = some (if b then reverseSpectral (fileSed f) else fileSed f) := by
  simp only [sedRead, h]; cases b <;> rfl

theorem sedRead_wav (f : SedFile K) (b : Bool) (h : firstGtLast f.wav = some b) :
    sedRead .wav f = some (if b then reverseSpectral (fileSed f) else fileSed f) := by
  simp only [sedRead, h]; cases b <;> rfl

theorem cubeRead_nu (toNu : K → K) (c : Cube K) (b : Bool) (h : firstGtLast (c.wav.map toNu) = some b) :
    cubeRead toNu .nu (cubeWrite toNu c) = some (if b then reverseSpectralCube c else c) := by
  simp only [cubeRead, cubeWrite, h]; cases b <;> rfl

theorem cubeRead_wav (toNu : K → K) (c : Cube K) (b : Bool) (h : firstGtLast c.wav = some b) :
    cubeRead toNu .wav (cubeWrite toNu c) = some (if b then reverseSpectralCube c else c) := by
  simp only [cubeRead, cubeWrite, h]; cases b <;> rfl

end readform

end RT
end SF
