import SedVerif.Model.Match
import Mathlib.Order.Defs.LinearOrder
/-! Helper lemmas about `minL` / `maxL` (`np.nanmin` / `np.nanmax` on finite values), over any linear
order. -/
namespace SF.Match
variable {K : Type} [LinearOrder K]

theorem minL_spec (xs : List K) : ∀ m : K,
    minL m xs ≤ m ∧ (∀ y ∈ xs, minL m xs ≤ y) ∧ (minL m xs = m ∨ minL m xs ∈ xs) := by
  induction xs with
  | nil => intro m; simp [minL]
  | cons x xs ih =>
    intro m
    simp only [minL, List.foldl_cons]
    by_cases h : x < m
    · simp only [h, if_true]
      obtain ⟨h1, h2, h3⟩ := ih x
      simp only [minL] at h1 h2 h3
      refine ⟨le_trans h1 (le_of_lt h), ?_, ?_⟩
      · intro y hy
        rcases List.mem_cons.mp hy with rfl | hy'
        · exact h1
        · exact h2 y hy'
      · rcases h3 with h3 | h3
        · right; rw [h3]; simp
        · right; exact List.mem_cons_of_mem _ h3
    · simp only [h, if_false]
      obtain ⟨h1, h2, h3⟩ := ih m
      simp only [minL] at h1 h2 h3
      refine ⟨h1, ?_, ?_⟩
      · intro y hy
        rcases List.mem_cons.mp hy with rfl | hy'
        · exact le_trans h1 (not_lt.mp h)
        · exact h2 y hy'
      · rcases h3 with h3 | h3
        · left; exact h3
        · right; exact List.mem_cons_of_mem _ h3

theorem maxL_spec (xs : List K) : ∀ m : K,
    m ≤ maxL m xs ∧ (∀ y ∈ xs, y ≤ maxL m xs) ∧ (maxL m xs = m ∨ maxL m xs ∈ xs) := by
  induction xs with
  | nil => intro m; simp [maxL]
  | cons x xs ih =>
    intro m
    simp only [maxL, List.foldl_cons]
    by_cases h : m < x
    · simp only [h, if_true]
      obtain ⟨h1, h2, h3⟩ := ih x
      simp only [maxL] at h1 h2 h3
      refine ⟨le_trans (le_of_lt h) h1, ?_, ?_⟩
      · intro y hy
        rcases List.mem_cons.mp hy with rfl | hy'
        · exact h1
        · exact h2 y hy'
      · rcases h3 with h3 | h3
        · right; rw [h3]; simp
        · right; exact List.mem_cons_of_mem _ h3
    · simp only [h, if_false]
      obtain ⟨h1, h2, h3⟩ := ih m
      simp only [maxL] at h1 h2 h3
      refine ⟨h1, ?_, ?_⟩
      · intro y hy
        rcases List.mem_cons.mp hy with rfl | hy'
        · exact le_trans (not_lt.mp h) h1
        · exact h2 y hy'
      · rcases h3 with h3 | h3
        · left; exact h3
        · right; exact List.mem_cons_of_mem _ h3

end SF.Match
