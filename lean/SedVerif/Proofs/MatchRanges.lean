import SedVerif.Model.Match
import Mathlib.Order.Defs.LinearOrder
/-! Helper lemmas about `minL` / `maxL` (`np.nanmin` / `np.nanmax` on finite values), over any linear
order. -/
namespace SF.Match
variable {K : Type} [LinearOrder K]

theorem minL_spec (xs : List K) : ∀ m : K,
    minL m xs ≤ m ∧ (∀ y ∈ xs, minL m xs ≤ y) ∧ (minL m xs = m ∨ minL m xs ∈ xs) := by
  induction xs with
  | nil => intro m; simp [minL]
  | cons x xs ih =>
    intro m
    simp only [minL, List.foldl_cons]
    by_cases h : x < m
    · simp only [h, if_true]
      obtain ⟨h1, h2, h3⟩ := ih x
      simp only [minL] at h1 h2 h3
      refine ⟨le_trans h1 (le_of_lt h), ?_, ?_⟩
      · intro y hy
        rcases List.mem_cons.mp hy with rfl | hy'
        · exact h1
        · exact h2 y hy'
      · rcases h3 with h3 | h3
        · right; rw [h3]; simp
        · right; exact List.mem_cons_of_mem _ h3
    · simp only [h, if_false]
      obtain ⟨h1, h2, h3⟩ := ih m
      simp only [minL] at h1 h2 h3
      refine ⟨h1, ?_, ?_⟩
      · intro y hy
        rcases List.mem_cons.mp hy with rfl | hy'
        · exact le_trans h1 (not_lt.mp h)
        · exact h2 y hy'
      · rcases h3 with h3 | h3
        · left; exact h3
        · right; exact List.mem_cons_of_mem _ h3

theorem maxL_spec (xs : List K) : ∀ m : K,
    m ≤ maxL m xs ∧ (∀ y ∈ xs, y ≤ maxL m xs) ∧ (maxL m xs = m ∨ maxL m xs ∈ xs) := by
  induction xs with
  | nil => intro m; simp [maxL]
  | cons x xs ih =>
    intro m
    simp only [maxL, List.foldl_cons]
    by_cases h : m < x
    · simp only [h, if_true]
      obtain ⟨h1, h2, h3⟩ := ih x
      simp only [maxL] at h1 h2 h3
      refine ⟨le_trans (le_of_lt h) h1, ?_, ?_⟩
      · intro y hy
        rcases List.mem_cons.mp hy with rfl | hy'
        · exact h1
        · exact h2 y hy'
      · rcases h3 with h3 | h3
        · right; rw [h3]; simp
        · right; exact List.mem_cons_of_mem _ h3
    · simp only [h, if_false]
      obtain ⟨h1, h2, h3⟩ := ih m
      simp only [maxL] at h1 h2 h3
      refine ⟨h1, ?_, ?_⟩
      · intro y hy
        rcases List.mem_cons.mp hy with rfl | hy'
        · exact le_trans (not_lt.mp h) h1
        · exact h2 y hy'
      · rcases h3 with h3 | h3
        · left; exact h3
        · right; exact List.mem_cons_of_mem _ h3

/-! ## the same on extended floats (`np.nanmin` / `np.nanmax` proper) -/

theorem ef_le_refl {a : EF K} (h : isNan a = false) : EF.le a a = true := by
  cases a <;> simp_all [EF.le, isNan]

theorem ef_le_of_not_lt {a b : EF K} (ha : isNan a = false) (hb : isNan b = false)
    (h : EF.lt a b = false) : EF.le b a = true := by
  cases a <;> cases b <;> simp_all [EF.le, EF.lt, isNan]

theorem ef_le_of_lt {a b : EF K} (h : EF.lt a b = true) : EF.le a b = true := by
  cases a <;> cases b <;> simp_all [EF.le, EF.lt]
  exact le_of_lt h

theorem ef_le_trans {a b c : EF K} (h1 : EF.le a b = true) (h2 : EF.le b c = true) :
    EF.le a c = true := by
  cases a <;> cases b <;> cases c <;> simp_all [EF.le]
  exact le_trans h1 h2

theorem ef_not_nan_of_lt_left {a b : EF K} (h : EF.lt a b = true) : isNan a = false := by
  cases a <;> cases b <;> simp_all [EF.lt, isNan]

/-- the running minimum over non-NaN values -/
theorem foldMin_spec (xs : List (EF K)) : ∀ m : EF K, isNan m = false → (∀ y ∈ xs, isNan y = false) →
    let r := xs.foldl (fun m y => if EF.lt y m then y else m) m
    isNan r = false ∧ EF.le r m = true ∧ (∀ y ∈ xs, EF.le r y = true) ∧ (r = m ∨ r ∈ xs) := by
  induction xs with
  | nil => intro m hm _; simp [ef_le_refl hm, hm]
  | cons x xs ih =>
    intro m hm hxs
    have hx : isNan x = false := hxs x (by simp)
    have hxs' : ∀ y ∈ xs, isNan y = false := fun y hy => hxs y (by simp [hy])
    simp only [List.foldl_cons]
    by_cases h : EF.lt x m = true
    · simp only [h, if_true]
      obtain ⟨h0, h1, h2, h3⟩ := ih x hx hxs'
      refine ⟨h0, ef_le_trans h1 (ef_le_of_lt h), ?_, ?_⟩
      · intro y hy
        rcases List.mem_cons.mp hy with rfl | hy'
        · exact h1
        · exact h2 y hy'
      · rcases h3 with h3 | h3
        · right; rw [h3]; simp
        · right; exact List.mem_cons_of_mem _ h3
    · have h' : EF.lt x m = false := by simpa using h
      simp only [h', Bool.false_eq_true, if_false]
      obtain ⟨h0, h1, h2, h3⟩ := ih m hm hxs'
      refine ⟨h0, h1, ?_, ?_⟩
      · intro y hy
        rcases List.mem_cons.mp hy with rfl | hy'
        · exact ef_le_trans h1 (ef_le_of_not_lt hx hm h')
        · exact h2 y hy'
      · rcases h3 with h3 | h3
        · left; exact h3
        · right; exact List.mem_cons_of_mem _ h3

/-- the running maximum over non-NaN values -/
theorem foldMax_spec (xs : List (EF K)) : ∀ m : EF K, isNan m = false → (∀ y ∈ xs, isNan y = false) →
    let r := xs.foldl (fun m y => if EF.lt m y then y else m) m
    isNan r = false ∧ EF.le m r = true ∧ (∀ y ∈ xs, EF.le y r = true) ∧ (r = m ∨ r ∈ xs) := by
  induction xs with
  | nil => intro m hm _; simp [ef_le_refl hm, hm]
  | cons x xs ih =>
    intro m hm hxs
    have hx : isNan x = false := hxs x (by simp)
    have hxs' : ∀ y ∈ xs, isNan y = false := fun y hy => hxs y (by simp [hy])
    simp only [List.foldl_cons]
    by_cases h : EF.lt m x = true
    · simp only [h, if_true]
      obtain ⟨h0, h1, h2, h3⟩ := ih x hx hxs'
      refine ⟨h0, ef_le_trans (ef_le_of_lt h) h1, ?_, ?_⟩
      · intro y hy
        rcases List.mem_cons.mp hy with rfl | hy'
        · exact h1
        · exact h2 y hy'
      · rcases h3 with h3 | h3
        · right; rw [h3]; simp
        · right; exact List.mem_cons_of_mem _ h3
    · have h' : EF.lt m x = false := by simpa using h
      simp only [h', Bool.false_eq_true, if_false]
      obtain ⟨h0, h1, h2, h3⟩ := ih m hm hxs'
      refine ⟨h0, h1, ?_, ?_⟩
      · intro y hy
        rcases List.mem_cons.mp hy with rfl | hy'
        · exact ef_le_trans (ef_le_of_not_lt hm hx h') h1
        · exact h2 y hy'
      · rcases h3 with h3 | h3
        · left; exact h3
        · right; exact List.mem_cons_of_mem _ h3

/-- `np.nanmin`: NaN exactly when every entry is NaN; otherwise a non-NaN entry of the column below
    every non-NaN entry -/
theorem nanMin_spec (col : List (EF K)) :
    ((∀ y ∈ col, isNan y = true) → nanMin col = EF.nan) ∧
    ((∃ y ∈ col, isNan y = false) → nanMin col ∈ col ∧ isNan (nanMin col) = false ∧
      ∀ y ∈ col, isNan y = false → EF.le (nanMin col) y = true) := by
  unfold nanMin
  constructor
  · intro h
    have : col.filter (fun x => !isNan x) = [] := by
      apply List.filter_eq_nil_iff.mpr
      intro y hy; simp [h y hy]
    rw [this]
  · rintro ⟨y0, hy0, hn0⟩
    have hmem0 : y0 ∈ col.filter (fun x => !isNan x) := List.mem_filter.mpr ⟨hy0, by simp [hn0]⟩
    cases hf : col.filter (fun x => !isNan x) with
    | nil => rw [hf] at hmem0; simp at hmem0
    | cons v vs =>
      have hall : ∀ y ∈ v :: vs, y ∈ col ∧ isNan y = false := by
        intro y hy
        have := List.mem_filter.mp (hf ▸ hy)
        exact ⟨this.1, by simpa using this.2⟩
      obtain ⟨h0, h1, h2, h3⟩ := foldMin_spec vs v (hall v (by simp)).2
        (fun y hy => (hall y (by simp [hy])).2)
      simp only
      refine ⟨?_, h0, ?_⟩
      · rcases h3 with h3 | h3
        · rw [h3]; exact (hall v (by simp)).1
        · exact (hall _ (List.mem_cons_of_mem _ h3)).1
      · intro y hy hny
        have : y ∈ v :: vs := hf ▸ List.mem_filter.mpr ⟨hy, by simp [hny]⟩
        rcases List.mem_cons.mp this with rfl | hy'
        · exact h1
        · exact h2 y hy'

theorem nanMax_spec (col : List (EF K)) :
    ((∀ y ∈ col, isNan y = true) → nanMax col = EF.nan) ∧
    ((∃ y ∈ col, isNan y = false) → nanMax col ∈ col ∧ isNan (nanMax col) = false ∧
      ∀ y ∈ col, isNan y = false → EF.le y (nanMax col) = true) := by
  unfold nanMax
  constructor
  · intro h
    have : col.filter (fun x => !isNan x) = [] := by
      apply List.filter_eq_nil_iff.mpr
      intro y hy; simp [h y hy]
    rw [this]
  · rintro ⟨y0, hy0, hn0⟩
    have hmem0 : y0 ∈ col.filter (fun x => !isNan x) := List.mem_filter.mpr ⟨hy0, by simp [hn0]⟩
    cases hf : col.filter (fun x => !isNan x) with
    | nil => rw [hf] at hmem0; simp at hmem0
    | cons v vs =>
      have hall : ∀ y ∈ v :: vs, y ∈ col ∧ isNan y = false := by
        intro y hy
        have := List.mem_filter.mp (hf ▸ hy)
        exact ⟨this.1, by simpa using this.2⟩
      obtain ⟨h0, h1, h2, h3⟩ := foldMax_spec vs v (hall v (by simp)).2
        (fun y hy => (hall y (by simp [hy])).2)
      simp only
      refine ⟨?_, h0, ?_⟩
      · rcases h3 with h3 | h3
        · rw [h3]; exact (hall v (by simp)).1
        · exact (hall _ (List.mem_cons_of_mem _ h3)).1
      · intro y hy hny
        have : y ∈ v :: vs := hf ▸ List.mem_filter.mpr ⟨hy, by simp [hny]⟩
        rcases List.mem_cons.mp this with rfl | hy'
        · exact h1
        · exact h2 y hy'

end SF.Match
