import SedVerif.Proofs.Mono

/-! Liveness of `sort_to_match`: `argsort(a)[argsort(argsort(ref))]` turns `a` into `ref` whenever
`a` is a rearrangement of `ref` (core `mergeSort` lemmas only; no `Nodup` needed). -/
namespace SF
namespace Mono

theorem gatherO_total {α : Type} (a : List α) : ∀ (is : List Nat), (∀ i ∈ is, i < a.length) →
    ∃ r, gatherO a is = some r := by
  intro is
  induction is with
  | nil => intro _; exact ⟨[], rfl⟩
  | cons i t ih =>
    intro h
    obtain ⟨vs, hvs⟩ := ih (fun j hj => h j (List.mem_cons_of_mem _ hj))
    have hi : i < a.length := h i List.mem_cons_self
    exact ⟨a[i] :: vs, by simp [gatherO, hvs, List.getElem?_eq_getElem hi]⟩

/-- to show `a[is] = t` it is enough to compare cell by cell -/
theorem gatherO_eq_of {α : Type} (a : List α) (is : List Nat) (t : List α) (hl : t.length = is.length)
    (h : ∀ (k i : Nat), is[k]? = some i → a[i]? = t[k]?) : gatherO a is = some t := by
  have hin : ∀ i ∈ is, i < a.length := by
    intro i hi
    obtain ⟨k, hk⟩ := List.mem_iff_getElem?.mp hi
    have hkl : k < is.length := by
      by_contra hc
      rw [List.getElem?_eq_none (by omega)] at hk
      cases hk
    have := h k i hk
    by_contra hc
    rw [List.getElem?_eq_none (by omega), List.getElem?_eq_getElem (by omega)] at this
    cases this
  obtain ⟨r, hr⟩ := gatherO_total a is hin
  obtain ⟨rl, rs⟩ := gatherO_spec a is r hr
  rw [hr]
  congr 1
  apply List.ext_getElem?
  intro k
  by_cases hk : k < is.length
  · have := (rs k is[k] (by simp [hk])).1
    rw [this, h k is[k] (by simp [hk])]
  · rw [List.getElem?_eq_none (by omega), List.getElem?_eq_none (by omega)]

theorem gatherO_map_snd {α : Type} (l : List α) : ∀ (P : List (α × Nat)),
    (∀ p ∈ P, l[p.2]? = some p.1) → gatherO l (P.map (·.2)) = some (P.map (·.1)) := by
  intro P
  induction P with
  | nil => intro _; rfl
  | cons p t ih =>
    intro h
    have h1 := h p List.mem_cons_self
    have h2 := ih (fun q hq => h q (List.mem_cons_of_mem _ hq))
    simp only [List.map_cons, gatherO, h1, h2]

section live
variable {α : Type} [LinearOrder α]

/-- `np.argsort`: the index list is a rearrangement of `0 … n-1` and gathering through it sorts -/
theorem argsortBy_spec (l : List α) :
    ∃ sorted, gatherO l (argsortBy l) = some sorted ∧ sorted.Pairwise (· ≤ ·) ∧ sorted.Perm l ∧
      (argsortBy l).Perm (List.range l.length) := by
  let le2 : α × Nat → α × Nat → Bool := fun a b => decide (¬ b.1 < a.1)
  have hperm : (l.zipIdx.mergeSort le2).Perm l.zipIdx := List.mergeSort_perm _ _
  have hsorted : (l.zipIdx.mergeSort le2).Pairwise (fun a b => le2 a b = true) := by
    apply List.pairwise_mergeSort
    · intro a b c hab hbc
      simp only [le2, decide_eq_true_eq, not_lt] at hab hbc ⊢
      exact le_trans hab hbc
    · intro a b
      simp only [le2, Bool.or_eq_true, decide_eq_true_eq, not_lt]
      exact le_total _ _
  refine ⟨(l.zipIdx.mergeSort le2).map (·.1), ?_, ?_, ?_, ?_⟩
  · apply gatherO_map_snd
    intro p hp
    exact List.mem_zipIdx_iff_getElem?.mp ((hperm.mem_iff).mp hp)
  · rw [List.pairwise_map]
    exact hsorted.imp (by intro a b h; simpa [le2] using h)
  · have := hperm.map (·.1)
    rwa [List.zipIdx_map_fst] at this
  · have := hperm.map (·.2)
    rw [List.zipIdx_map_snd, ← List.range_eq_range'] at this
    exact this

theorem sorted_unique (l1 l2 : List α) (h1 : l1.Pairwise (· ≤ ·)) (h2 : l2.Pairwise (· ≤ ·))
    (hp : l1.Perm l2) : l1 = l2 :=
  List.Perm.eq_of_pairwise (fun a b _ _ hab hba => le_antisymm hab hba) h1 h2 hp

/-- `order_to_match(a, ref)` exists and `a[order] == ref` whenever `a` is a rearrangement of `ref` -/
theorem orderToMatch_spec (a ref : List α) (hp : a.Perm ref) :
    ∃ order, orderToMatch a ref = some order ∧ gatherO a order = some ref ∧
      order.length = ref.length ∧ ∀ i ∈ order, i < a.length := by
  obtain ⟨sortedA, hgA, hsA, hpA, hrA⟩ := argsortBy_spec a
  obtain ⟨sortedR, hgR, hsR, hpR, hrR⟩ := argsortBy_spec ref
  obtain ⟨sortedS, hgS, hsS, hpS, hrS⟩ := argsortBy_spec (argsortBy ref)
  have hn : a.length = ref.length := hp.length_eq
  have hlr : (argsortBy ref).length = ref.length := by rw [hrR.length_eq]; simp
  have hla : (argsortBy a).length = a.length := by rw [hrA.length_eq]; simp
  have hls : (argsortBy (argsortBy ref)).length = ref.length := by rw [hrS.length_eq]; simp [hlr]
  -- sorted a = sorted ref;  sorted (argsort ref) = 0 … n-1
  have hAR : sortedA = sortedR := sorted_unique _ _ hsA hsR ((hpA.trans hp).trans hpR.symm)
  have hS : sortedS = List.range ref.length :=
    sorted_unique _ _ hsS List.pairwise_le_range (hpS.trans hrR)
  -- indices in range
  have hinS : ∀ i ∈ argsortBy (argsortBy ref), i < (argsortBy a).length := by
    intro i hi
    have := (hrS.mem_iff).mp hi
    rw [List.mem_range] at this
    omega
  obtain ⟨order, hord⟩ := gatherO_total (argsortBy a) _ hinS
  obtain ⟨hlo, hso⟩ := gatherO_spec _ _ _ hord
  obtain ⟨_, hsA'⟩ := gatherO_spec _ _ _ hgA
  obtain ⟨_, hsR'⟩ := gatherO_spec _ _ _ hgR
  obtain ⟨_, hsS'⟩ := gatherO_spec _ _ _ hgS
  have hino : ∀ i ∈ order, i < a.length := by
    intro i hi
    obtain ⟨k, hk⟩ := List.mem_iff_getElem?.mp hi
    have hkl : k < (argsortBy (argsortBy ref)).length := by
      by_contra hc
      rw [List.getElem?_eq_none (by omega)] at hk
      cases hk
    have h1 := (hso k _ (List.getElem?_eq_getElem hkl)).1
    rw [hk] at h1
    have hmem : i ∈ argsortBy a := List.mem_of_getElem? h1.symm
    have := (hrA.mem_iff).mp hmem
    rw [List.mem_range] at this
    exact this
  refine ⟨order, hord, ?_, by omega, hino⟩
  apply gatherO_eq_of a order ref (by omega)
  intro r i hri
  have hr : r < ref.length := by
    by_contra hc
    rw [List.getElem?_eq_none (by omega)] at hri
    cases hri
  -- order[r] = sa[ssr[r]]
  have hrs : r < (argsortBy (argsortBy ref)).length := by omega
  set q := (argsortBy (argsortBy ref))[r] with hq
  have hq' : (argsortBy (argsortBy ref))[r]? = some q := List.getElem?_eq_getElem hrs
  have h1 : order[r]? = (argsortBy a)[q]? := (hso r q hq').1
  rw [hri] at h1
  -- sr[q] = r
  have h2 : sortedS[r]? = (argsortBy ref)[q]? := (hsS' r q hq').1
  rw [hS, List.getElem?_range hr] at h2
  -- ref[r] = sortedR[q],  a[i] = sortedA[q]
  have h3 : sortedR[q]? = ref[r]? := (hsR' q r h2.symm).1
  have h4 : sortedA[q]? = a[i]? := (hsA' q i h1.symm).1
  rw [← h4, hAR, h3]

end live

/-- liveness of `sort_to_match` -/
theorem sortToMatch_live {N K : Type} [LinearOrder N] (strip : N → N)
    (names ref : List N) (flux err : List (List K)) (hp : names.Perm (ref.map strip))
    (hf : flux.length = names.length) (he : err.length = names.length) :
    ∃ f' e', sortToMatch strip names ref flux err = .ok (ref.map strip, f', e') := by
  obtain ⟨order, ho, hg, hl, hin⟩ := orderToMatch_spec names (ref.map strip) hp
  obtain ⟨f', hf'⟩ := gatherO_total flux order (by intro i hi; have := hin i hi; omega)
  obtain ⟨e', he'⟩ := gatherO_total err order (by intro i hi; have := hin i hi; omega)
  refine ⟨f', e', ?_⟩
  unfold sortToMatch
  simp only [ho, hg, hf', he', if_true]

end Mono
end SF
