import SedVerif.Model.Plot
import SedVerif.Proofs.Fit
import Mathlib.Tactic.Ring
import Mathlib.Tactic.Linarith
import Mathlib.Tactic.FieldSimp
import Mathlib.Tactic.Positivity
import Mathlib.Tactic.LinearCombination
import Mathlib.Algebra.Order.Field.Basic

/-! Helper lemmas about the plot model (C17), over any linearly ordered field. -/
namespace SF.Plt
variable {K : Type} [Field K] [LinearOrder K] [IsStrictOrderedRing K]

theorem thousand_eq : (thousand : K) = 1000 := by
  unfold thousand; simp only [two_eq]; norm_num

/-! ## bookkeeping: lengths and block structure -/

theorem prepAps_length {aps req r : List K} (h : prepAps aps req = .ok r) : r.length = req.length := by
  unfold prepAps at h
  simp only at h
  split at h
  · cases h
  · cases h; simp

theorem prepAps_eq {aps req r : List K} (h : prepAps aps req = .ok r) :
    r = req.map (clampAbove (listMax aps)) := by
  unfold prepAps at h
  simp only at h
  split at h
  · cases h
  · cases h; rfl

theorem sedInterpolate_length {aps : List K} {rows : List (K × List K)} {req : List K}
    {cs : List (Curve K)} (h : sedInterpolate aps rows req = .ok cs) : cs.length = req.length := by
  unfold sedInterpolate at h
  split at h
  · cases h; simp
  · split at h
    · cases h
    · next r hr => cases h; simp [prepAps_length hr]

theorem insertUniq_mem (x z : K) (l : List K) : z ∈ insertUniq x l ↔ z = x ∨ z ∈ l := by
  induction l with
  | nil => simp [insertUniq]
  | cons y ys ih =>
    simp only [insertUniq]
    split
    · simp
    · split
      · next hxy => subst hxy; simp
      · simp only [List.mem_cons, ih]; tauto

theorem uniqueSorted_mem (z : K) (l : List K) : z ∈ uniqueSorted l ↔ z ∈ l := by
  induction l with
  | nil => simp [uniqueSorted]
  | cons x xs ih => simp only [uniqueSorted, insertUniq_mem, ih, List.mem_cons]

theorem modeThetas_length (mode : SedType) (hm : mode ≠ .interp) (theta : List K) :
    (modeThetas mode theta).length = nCurves mode (uniqueSorted theta).length := by
  cases mode <;> simp [modeThetas, nCurves] at hm ⊢

theorem fitCurves_length (lg exp10 : K → K) (P : PlotCtx K) (mode : SedType) (f : PlotFit K)
    {cs : List (Curve K)} (h : fitCurves lg exp10 P mode f = .ok cs) :
    cs.length = nCurves mode (uniqueSorted P.theta).length := by
  cases mode
  · simp only [fitCurves] at h
    split at h
    · cases h
    · cases h; simp [nCurves]
  all_goals
    simp only [fitCurves] at h
    rw [sedInterpolate_length h, List.length_map]
    exact modeThetas_length _ (by simp) _

/-- `appendCurves` returns exactly when every fit returns, and then the result is the old lines
    followed by the blocks of the fits in iteration order -/
theorem appendCurves_spec (lg exp10 : K → K) (P : PlotCtx K) (mode : SedType) :
    ∀ (fs : List (PlotFit K)) (lines ls : List (Curve K)),
      appendCurves lg exp10 P mode fs lines = .ok ls ↔
      ∃ css, List.Forall₂ (fun f cs => fitCurves lg exp10 P mode f = .ok cs) fs css ∧
        ls = lines ++ css.flatten := by
  intro fs
  induction fs with
  | nil =>
    intro lines ls
    simp only [appendCurves, List.forall₂_nil_left_iff]
    constructor
    · intro h; cases h; exact ⟨[], rfl, by simp⟩
    · rintro ⟨css, rfl, rfl⟩; simp
  | cons f fs ih =>
    intro lines ls
    simp only [appendCurves]
    constructor
    · intro h
      split at h
      · cases h
      · next cs hcs =>
        obtain ⟨css, hall, rfl⟩ := (ih _ _).mp h
        exact ⟨cs :: css, List.Forall₂.cons hcs hall, by simp⟩
    · rintro ⟨css, hall, rfl⟩
      cases hall with
      | cons hcs hrest =>
        rw [hcs]
        simp only
        exact (ih _ _).mpr ⟨_, hrest, by simp⟩

theorem forall₂_flatten_length {α β : Type} (R : α → β → Prop) (len : β → Nat) (n : Nat)
    {l : List α} {css : List β} (h : List.Forall₂ R l css) (hn : ∀ a b, R a b → len b = n) :
    (css.map len).sum = l.length * n := by
  induction h with
  | nil => simp
  | cons hab _ ih => simp only [List.map_cons, List.sum_cons, List.length_cons, ih, hn _ _ hab]; ring

theorem forall₂_append_singleton {α β : Type} (R : α → β → Prop) {l : List α} {a : α} {css : List β}
    (h : List.Forall₂ R (l ++ [a]) css) : ∃ c1 c, List.Forall₂ R l c1 ∧ R a c ∧ css = c1 ++ [c] := by
  induction l generalizing css with
  | nil =>
    cases h with
    | cons hac hnil => cases hnil; exact ⟨[], _, List.Forall₂.nil, hac, rfl⟩
  | cons x xs ih =>
    cases h with
    | cons hx hrest =>
      obtain ⟨c1, c, h1, hc, rfl⟩ := ih hrest
      exact ⟨_ :: c1, c, List.Forall₂.cons hx h1, hc, rfl⟩

/-! ## liveness: on the property's domain nothing raises -/

theorem foldl_pick_mem (g : K → K → K) (hg : ∀ a b, g a b = a ∨ g a b = b) (xs : List K) (m : K) :
    xs.foldl g m = m ∨ xs.foldl g m ∈ xs := by
  induction xs generalizing m with
  | nil => simp
  | cons y ys ih =>
    simp only [List.foldl_cons, List.mem_cons]
    rcases ih (g m y) with h | h
    · rcases hg m y with h' | h'
      · left; rw [h, h']
      · right; left; rw [h, h']
    · right; right; exact h

theorem listMax_mem (l : List K) (h : l ≠ []) : listMax l ∈ l := by
  cases l with
  | nil => exact absurd rfl h
  | cons x xs =>
    simp only [listMax, List.mem_cons]
    exact foldl_pick_mem _ (fun a b => by split <;> simp) xs x

theorem listMin_mem (l : List K) (h : l ≠ []) : listMin l ∈ l := by
  cases l with
  | nil => exact absurd rfl h
  | cons x xs =>
    simp only [listMin, List.mem_cons]
    exact foldl_pick_mem _ (fun a b => by split <;> simp) xs x

theorem foldl_min_le (xs : List K) (m : K) :
    xs.foldl (fun m y => if y < m then y else m) m ≤ m ∧
    ∀ x ∈ xs, xs.foldl (fun m y => if y < m then y else m) m ≤ x := by
  induction xs generalizing m with
  | nil => simp
  | cons y ys ih =>
    simp only [List.foldl_cons]
    obtain ⟨h1, h2⟩ := ih (if y < m then y else m)
    have hm : (if y < m then y else m) ≤ m ∧ (if y < m then y else m) ≤ y := by
      split
      · next h => exact ⟨le_of_lt h, le_rfl⟩
      · next h => exact ⟨le_rfl, not_lt.mp h⟩
    refine ⟨le_trans h1 hm.1, ?_⟩
    intro x hx
    rcases List.mem_cons.mp hx with rfl | hx'
    · exact le_trans h1 hm.2
    · exact h2 x hx'

theorem foldl_max_ge (xs : List K) (m : K) :
    m ≤ xs.foldl (fun m y => if m < y then y else m) m ∧
    ∀ x ∈ xs, x ≤ xs.foldl (fun m y => if m < y then y else m) m := by
  induction xs generalizing m with
  | nil => simp
  | cons y ys ih =>
    simp only [List.foldl_cons]
    obtain ⟨h1, h2⟩ := ih (if m < y then y else m)
    have hm : m ≤ (if m < y then y else m) ∧ y ≤ (if m < y then y else m) := by
      split
      · next h => exact ⟨le_of_lt h, le_rfl⟩
      · next h => exact ⟨le_rfl, not_lt.mp h⟩
    refine ⟨le_trans hm.1 h1, ?_⟩
    intro x hx
    rcases List.mem_cons.mp hx with rfl | hx'
    · exact le_trans hm.2 h1
    · exact h2 x hx'

theorem listMin_le_listMax (l : List K) (h : l ≠ []) : listMin l ≤ listMax l := by
  cases l with
  | nil => exact absurd rfl h
  | cons x xs =>
    simp only [listMin, listMax]
    exact le_trans (foldl_min_le xs x).1 (foldl_max_ge xs x).1

theorem modeThetas_subset (mode : SedType) (theta : List K) (h : theta ≠ []) :
    ∀ t ∈ modeThetas mode theta, t ∈ theta := by
  intro t ht
  cases mode
  · exact ht
  · simp only [modeThetas, List.mem_singleton] at ht; subst ht; exact listMax_mem _ h
  · simp only [modeThetas, List.mem_cons, List.not_mem_nil, or_false] at ht
    rcases ht with rfl | rfl
    · exact listMin_mem _ h
    · exact listMax_mem _ h
  · exact (uniqueSorted_mem t theta).mp ht

theorem prepAps_ok (aps req : List K) (haps : aps ≠ []) (h : ∀ x ∈ req, listMin aps ≤ x) :
    ∃ r, prepAps aps req = .ok r := by
  unfold prepAps
  simp only
  split
  · next hany =>
    exfalso
    simp only [List.any_eq_true, decide_eq_true_eq, List.mem_map] at hany
    obtain ⟨y, ⟨x, hx, rfl⟩, hlt⟩ := hany
    have hmm := listMin_le_listMax aps haps
    have : listMin aps ≤ clampAbove (listMax aps) x := by
      unfold clampAbove; split
      · exact hmm
      · exact h x hx
    exact absurd hlt (not_lt.mpr this)
  · exact ⟨_, rfl⟩

theorem fitCurves_ok (lg exp10 : K → K) (P : PlotCtx K) (mode : SedType) (f : PlotFit K)
    (hth : P.theta ≠ [])
    (hdom : 1 < P.aps.length → ∀ t ∈ P.theta, listMin P.aps ≤ plotAperture exp10 t f.sc) :
    ∃ cs, fitCurves lg exp10 P mode f = .ok cs := by
  by_cases hap : P.aps.length ≤ 1
  · cases mode <;> simp [fitCurves, sedInterpolate, sedInterpolateVariable, hap]
  · have haps : P.aps ≠ [] := by intro h0; simp [h0] at hap
    have hreq : ∀ x ∈ (modeThetas mode P.theta).map (fun t => plotAperture exp10 t f.sc),
        listMin P.aps ≤ x := by
      intro x hx
      obtain ⟨t, ht, rfl⟩ := List.mem_map.mp hx
      exact hdom (by omega) t (modeThetas_subset mode P.theta hth t ht)
    obtain ⟨r, hr⟩ := prepAps_ok P.aps _ haps hreq
    cases mode
    · simp only [modeThetas] at hr
      simp [fitCurves, sedInterpolateVariable, hap, modeThetas, hr]
    all_goals simp [fitCurves, sedInterpolate, hap, hr]

theorem appendCurves_ok (lg exp10 : K → K) (P : PlotCtx K) (mode : SedType) (fs : List (PlotFit K))
    (lines : List (Curve K)) (h : ∀ f ∈ fs, ∃ cs, fitCurves lg exp10 P mode f = .ok cs) :
    ∃ ls, appendCurves lg exp10 P mode fs lines = .ok ls := by
  induction fs generalizing lines with
  | nil => exact ⟨lines, rfl⟩
  | cons f fs ih =>
    obtain ⟨cs, hcs⟩ := h f List.mem_cons_self
    simp only [appendCurves, hcs]
    exact ih _ (fun g hg => h g (List.mem_cons_of_mem _ hg))

/-! ## arithmetic: the scaling commutes with the aperture interpolation -/

theorem interpIn_map_mul (S : K) : ∀ (tab : List (K × K)) (t : K),
    interpIn (tab.map (fun p => (p.1, p.2 * S))) t = interpIn tab t * S
  | [], t => by simp [interpIn]
  | [p0], t => by simp [interpIn]
  | p0 :: p1 :: rest, t => by
    have ih := interpIn_map_mul S (p1 :: rest) t
    simp only [List.map_cons] at ih ⊢
    simp only [interpIn]
    split_ifs
    · rfl
    · rfl
    · simp only [lin]; ring
    · exact ih

theorem apInterp_map_mul (S : K) (aps row : List K) (x : K) :
    apInterp aps (row.map (fun f => f * S)) x = apInterp aps row x * S := by
  unfold apInterp
  rw [List.zip_map_right]
  exact interpIn_map_mul S (aps.zip row) x

/-- the factor applied to every flux of a row: unit conversion, distance scaling, reddening -/
def rowFactor (exp10 : K → K) (P : PlotCtx K) (sc av : K) (r : SedRow K) : K :=
  P.c * r.nu * ((P.dOld / (exp10 sc * P.kpc)) * (P.dOld / (exp10 sc * P.kpc))) * exp10 (av * r.k)

theorem scaledRow_eq (exp10 : K → K) (P : PlotCtx K) (sc av : K) (r : SedRow K) :
    scaledRow exp10 P sc av r = (r.wav, r.flux.map (fun f => f * rowFactor exp10 P sc av r)) := by
  unfold scaledRow rowFactor scaleToAv scaleToDistance
  congr 1
  apply List.map_congr_left
  intro f _
  ring

/-- consequences of the two laws assumed of `exp10` -/
theorem exp10_zero (lg exp10 : K → K) (hadd : ∀ a b, exp10 (a + b) = exp10 a * exp10 b)
    (hlg : ∀ x, 0 < x → exp10 (lg x) = x) : exp10 0 = 1 := by
  have h1 : exp10 (lg 1) = 1 := hlg 1 one_pos
  have h2 := hadd (lg 1) 0
  rw [add_zero, h1] at h2
  simpa using h2.symm

theorem exp10_neg_two (lg exp10 : K → K) (hadd : ∀ a b, exp10 (a + b) = exp10 a * exp10 b)
    (hlg : ∀ x, 0 < x → exp10 (lg x) = x) (s : K) :
    exp10 (s * (-(two))) * (exp10 s * exp10 s) = 1 := by
  rw [← hadd, ← hadd, two_eq]
  have : s * -2 + (s + s) = 0 := by ring
  rw [this]
  exact exp10_zero lg exp10 hadd hlg

/-- **algebraic core, multi-aperture / distance-dependent.**  At the grid distance `d` (so that
    `sc = lg d`), the value of the curve for the aperture `θ` at one tabulated wavelength is `10**`
    of the predicted log flux the fitter stores for a band at that wavelength measured in that
    aperture, times the unit factor `ν·c`, times the squared ratio of the two kiloparsec constants. -/
theorem through3_core (lg exp10 : K → K) (hadd : ∀ a b, exp10 (a + b) = exp10 a * exp10 b)
    (hlg : ∀ x, 0 < x → exp10 (lg x) = x)
    (P : PlotCtx K) (hkpc : P.kpc ≠ 0) (hap : 1 < P.aps.length)
    (d : K) (hd : 0 < d) (av θ : K) (r : SedRow K)
    (hF : 0 < fitApFlux P.aps r.flux (θ * (d * thousand))) :
    apInterp P.aps (scaledRow exp10 P (lg d) av r).2
        (clampAbove (listMax P.aps) (plotAperture exp10 θ (lg d)))
      = exp10 (predStored3 lg P.aps r.flux θ d av r.k) * (r.nu * P.c)
          * ((P.dOld / P.kpc) * (P.dOld / P.kpc)) := by
  have hnot : ¬ P.aps.length ≤ 1 := by omega
  have hx : plotAperture exp10 θ (lg d) = θ * (d * thousand) := by
    unfold plotAperture; rw [hlg d hd]; ring
  unfold fitApFlux at hF
  rw [if_neg hnot] at hF
  rw [scaledRow_eq]
  simp only
  rw [apInterp_map_mul, hx]
  unfold predStored3 fitApFlux
  rw [if_neg hnot]
  set F := apInterp P.aps r.flux (clampAbove (listMax P.aps) (θ * (d * thousand))) with hFdef
  have hpos : 0 < F * (1 / d * (1 / d)) := by positivity
  rw [hadd, hlg _ hpos]
  unfold rowFactor
  rw [hlg d hd]
  field_simp

/-- **algebraic core, single aperture / distance-independent.** -/
theorem through2_core (lg exp10 : K → K) (hadd : ∀ a b, exp10 (a + b) = exp10 a * exp10 b)
    (hlg : ∀ x, 0 < x → exp10 (lg x) = x)
    (P : PlotCtx K) (hkpc : P.kpc ≠ 0) (sc av : K) (r : SedRow K) (hF : 0 < r.flux.headD 0) :
    (scaledRow exp10 P sc av r).2.headD 0
      = exp10 (predStored2 lg r.flux sc av r.k) * (r.nu * P.c)
          * ((P.dOld / P.kpc) * (P.dOld / P.kpc)) := by
  rw [scaledRow_eq]
  simp only
  unfold predStored2
  rw [hadd, hadd, hlg _ hF]
  have h2 := exp10_neg_two lg exp10 hadd hlg sc
  have hne : exp10 sc ≠ 0 := by
    intro h0; rw [h0] at h2; simp at h2
  cases hfl : r.flux with
  | nil => simp [hfl] at hF
  | cons f0 rest =>
    simp only [List.map_cons, List.headD_cons]
    unfold rowFactor
    have : exp10 (sc * -two) = 1 / (exp10 sc * exp10 sc) := by
      rw [eq_div_iff (mul_ne_zero hne hne)]; exact h2
    rw [this]
    field_simp

/-! ## the log–log aperture interpolation of `interpolate_variable` returns a filter's own aperture
       at that filter's wavelength -/

/-- strictly increasing first components -/
abbrev SortedFst (tab : List (K × K)) : Prop := tab.Pairwise (fun a b => a.1 < b.1)

theorem interpIn_knot : ∀ (tab : List (K × K)), SortedFst tab → ∀ p ∈ tab, interpIn tab p.1 = p.2
  | [], _, p, hp => by cases hp
  | [p0], _, p, hp => by
    simp only [List.mem_singleton] at hp; subst hp; simp [interpIn]
  | p0 :: p1 :: rest, hs, p, hp => by
    have hs' : SortedFst (p1 :: rest) := (List.pairwise_cons.mp hs).2
    have h0 := (List.pairwise_cons.mp hs).1
    simp only [interpIn]
    rcases List.mem_cons.mp hp with rfl | hp1
    · simp
    · have hlt : p0.1 < p.1 := h0 p hp1
      rw [if_neg (ne_of_gt hlt)]
      rcases List.mem_cons.mp hp1 with rfl | hp2
      · simp
      · have hlt1 : p1.1 < p.1 := (List.pairwise_cons.mp hs').1 p hp2
        rw [if_neg (not_le.mpr hlt1)]
        exact interpIn_knot (p1 :: rest) hs' p hp1

theorem lastD_ge : ∀ (tab : List (K × K)) (q : K × K), SortedFst (q :: tab) →
    ∀ p ∈ q :: tab, p.1 ≤ (lastD tab q).1
  | [], q, _, p, hp => by
    simp only [List.mem_singleton] at hp; subst hp; simp [lastD]
  | q' :: rest, q, hs, p, hp => by
    simp only [lastD]
    have hs' : SortedFst (q' :: rest) := (List.pairwise_cons.mp hs).2
    rcases List.mem_cons.mp hp with rfl | hp1
    · have h1 : p.1 < q'.1 := (List.pairwise_cons.mp hs).1 q' List.mem_cons_self
      exact le_trans (le_of_lt h1) (lastD_ge rest q' hs' q' List.mem_cons_self)
    · exact lastD_ge rest q' hs' p hp1

theorem npInterpEdge_knot (tab : List (K × K)) (hs : SortedFst tab) (p : K × K) (hp : p ∈ tab) :
    npInterpEdge tab p.1 = p.2 := by
  cases tab with
  | nil => cases hp
  | cons p0 rest =>
    simp only [npInterpEdge, npInterp]
    have h0 : ¬ p.1 < p0.1 := by
      rcases List.mem_cons.mp hp with rfl | hp1
      · exact lt_irrefl _
      · exact not_lt.mpr (le_of_lt ((List.pairwise_cons.mp hs).1 p hp1))
    have h1 : ¬ (lastD (p0 :: rest) p0).1 < p.1 := by
      simp only [lastD]
      exact not_lt.mpr (lastD_ge rest p0 hs p hp)
    rw [if_neg h0, if_neg h1]
    exact interpIn_knot _ hs p hp

theorem insertByFst_mem (p z : K × K) (l : List (K × K)) : z ∈ insertByFst p l ↔ z = p ∨ z ∈ l := by
  induction l with
  | nil => simp [insertByFst]
  | cons q qs ih =>
    simp only [insertByFst]
    split
    · simp only [List.mem_cons, ih]; tauto
    · simp

theorem sortByFst_mem (z : K × K) (l : List (K × K)) : z ∈ sortByFst l ↔ z ∈ l := by
  induction l with
  | nil => simp [sortByFst]
  | cons p ps ih => simp only [sortByFst, insertByFst_mem, ih, List.mem_cons]

theorem insertByFst_sorted (p : K × K) (l : List (K × K)) (hs : SortedFst l)
    (hne : ∀ q ∈ l, q.1 ≠ p.1) : SortedFst (insertByFst p l) := by
  induction l with
  | nil => simp [insertByFst, SortedFst]
  | cons q qs ih =>
    have hq := List.pairwise_cons.mp hs
    simp only [insertByFst]
    split
    · next hlt =>
      refine List.pairwise_cons.mpr ⟨?_, ih hq.2 (fun x hx => hne x (List.mem_cons_of_mem _ hx))⟩
      intro z hz
      rcases (insertByFst_mem p z qs).mp hz with rfl | hz'
      · exact hlt
      · exact hq.1 z hz'
    · next hnlt =>
      have hlt : p.1 < q.1 :=
        lt_of_le_of_ne (not_lt.mp hnlt) (fun h => hne q List.mem_cons_self h.symm)
      refine List.pairwise_cons.mpr ⟨?_, hs⟩
      intro z hz
      rcases List.mem_cons.mp hz with rfl | hz'
      · exact hlt
      · exact lt_trans hlt (hq.1 z hz')

theorem sortByFst_sorted (l : List (K × K)) (hd : l.Pairwise (fun a b => a.1 ≠ b.1)) :
    SortedFst (sortByFst l) := by
  induction l with
  | nil => simp [sortByFst, SortedFst]
  | cons p ps ih =>
    have hp := List.pairwise_cons.mp hd
    simp only [sortByFst]
    apply insertByFst_sorted p _ (ih hp.2)
    intro q hq
    exact fun h => hp.1 q ((sortByFst_mem q ps).mp hq) h.symm

theorem zip_pairwise_fst (xs ys : List K) (h : xs.Pairwise (· ≠ ·)) :
    (xs.zip ys).Pairwise (fun a b => a.1 ≠ b.1) := by
  induction xs generalizing ys with
  | nil => simp
  | cons x xs ih =>
    cases ys with
    | nil => simp
    | cons y ys =>
      have hx := List.pairwise_cons.mp h
      simp only [List.zip_cons_cons]
      refine List.pairwise_cons.mpr ⟨?_, ih ys hx.2⟩
      intro q hq
      exact hx.1 q.1 (List.of_mem_zip hq).1

theorem clampAbove_le (mx x : K) : clampAbove mx x ≤ mx := by
  unfold clampAbove; split
  · exact le_rfl
  · next h => exact not_lt.mp h

theorem clampK_id (lo hi x : K) (h1 : lo ≤ x) (h2 : x ≤ hi) : clampK lo hi x = x := by
  unfold clampK
  simp only [if_neg (not_lt.mpr h1), if_neg (not_lt.mpr h2)]

theorem prepAps_ge {aps req r : List K} (h : prepAps aps req = .ok r) : ∀ x ∈ r, listMin aps ≤ x := by
  unfold prepAps at h
  simp only at h
  split at h
  · cases h
  · next hany =>
    cases h
    intro x hx
    by_contra hlt
    apply hany
    simp only [List.any_eq_true, decide_eq_true_eq]
    exact ⟨x, hx, not_le.mp hlt⟩

/-- at the wavelength of a filter, `interpolate_variable` uses that filter's (clamped) aperture -/
theorem varAperture_knot (lg exp10 : K → K) (hlg : ∀ x, 0 < x → exp10 (lg x) = x)
    (hmono : ∀ x y, 0 < x → x < y → lg x < lg y)
    (aps fwav r : List K) (hmin : 0 < listMin aps)
    (hfw : fwav.Pairwise (· ≠ ·)) (hfpos : ∀ w ∈ fwav, 0 < w)
    (hge : ∀ x ∈ r, listMin aps ≤ x) (hle : ∀ x ∈ r, x ≤ listMax aps)
    (w x : K) (hmem : (w, x) ∈ fwav.zip r) :
    varAperture lg exp10 aps fwav r w = x := by
  unfold varAperture
  simp only
  have hsorted : SortedFst (sortByFst (fwav.zip r)) := sortByFst_sorted _ (zip_pairwise_fst fwav r hfw)
  have hpos1 : ∀ p ∈ sortByFst (fwav.zip r), 0 < p.1 := by
    intro p hp
    exact hfpos p.1 (List.of_mem_zip ((sortByFst_mem p _).mp hp)).1
  have hsorted' : SortedFst ((sortByFst (fwav.zip r)).map (fun p => (lg p.1, lg p.2))) := by
    refine List.pairwise_map.mpr ?_
    refine List.Pairwise.imp_of_mem ?_ hsorted
    intro a b ha _ hab
    exact hmono a.1 b.1 (hpos1 a ha) hab
  have hmem' : (lg w, lg x) ∈ (sortByFst (fwav.zip r)).map (fun p => (lg p.1, lg p.2)) :=
    List.mem_map.mpr ⟨(w, x), (sortByFst_mem _ _).mpr hmem, rfl⟩
  have hk := npInterpEdge_knot _ hsorted' (lg w, lg x) hmem'
  simp only at hk
  rw [hk]
  have hx : x ∈ r := (List.of_mem_zip hmem).2
  have hxpos : 0 < x := lt_of_lt_of_le hmin (hge x hx)
  rw [hlg x hxpos]
  exact clampK_id _ _ _ (hge x hx) (hle x hx)

/-! ## `.max()` / `.min()` of an increasing aperture table are its last / first entry -/

theorem listMax_of_sorted (x : K) (xs : List K) (h : (x :: xs).Pairwise (· < ·)) :
    listMax (x :: xs) = lastD xs x := by
  induction xs generalizing x with
  | nil => simp [listMax, lastD]
  | cons y ys ih =>
    have hxy : x < y := (List.pairwise_cons.mp h).1 y List.mem_cons_self
    have := ih y (List.pairwise_cons.mp h).2
    simp only [listMax, List.foldl_cons, if_pos hxy, lastD] at this ⊢
    exact this

theorem listMin_of_sorted (x : K) (xs : List K) (h : (x :: xs).Pairwise (· < ·)) :
    listMin (x :: xs) = x := by
  have h1 : listMin (x :: xs) ≤ x := (foldl_min_le xs x).1
  have hmem := listMin_mem (x :: xs) (by simp)
  rcases List.mem_cons.mp hmem with h2 | h2
  · exact h2
  · exact absurd ((List.pairwise_cons.mp h).1 _ h2) (not_lt.mpr h1)

end SF.Plt
