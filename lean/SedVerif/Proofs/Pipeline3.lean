import SedVerif.Model.Pipeline3
import SedVerif.Proofs.Pipeline
import SedVerif.Properties.C02
import SedVerif.Properties.C12
import SedVerif.Properties.C16
import SedVerif.Properties.C04
/-!
# Helper lemmas for the end-to-end composition on cube packages (E2E3)

Stage by stage: what a successful `runPipeline3` computed, in terms of the pipeline's *inputs* — obtained
from the per-stage theorems (`C12_cube_cell`, `fromCols_eq`, `colAt`, `C04_rows`, `C05_domain`,
`C09_safety`, `C02_model`, …) and the stage lemmas of `Proofs/Pipeline.lean`, never by re-proving them.
-/
set_option linter.unusedSectionVars false
set_option linter.unusedVariables false
namespace SF.Pipe3
open SF SF.Match SF.Pipe

variable {K : Type} [Field K] [LinearOrder K] [IsStrictOrderedRing K]

/-! ## the domain -/

/-- model names of the cube: distinct, each fits the 30-character column, no surrounding blanks -/
def NamesOK3 (inp : P3Input K) : Prop :=
  inp.cube.names.Nodup ∧ ∀ n ∈ inp.cube.names, take30 n = n ∧ strip n = n

/-- one `val` (and `unc`) slab per model name -/
def CubeShape (c : RT.Cube K) : Prop :=
  c.val.length = c.names.length ∧ ∀ u, c.unc = some u → u.length = c.names.length

/-! ## write + read of the cube -/

theorem readCube_cases (toNu : K → K) (c r : RT.Cube K) (h : readCube toNu c = some r) :
    r = c ∨ r = RT.reverseSpectralCube c := by
  unfold readCube RT.cubeRead RT.cubeWrite at h
  simp only at h
  split at h
  · simp at h
  · simp only [Option.some.injEq] at h; right; rw [← h]
  · simp only [Option.some.injEq] at h; left; rw [← h]

theorem readCube_names (toNu : K → K) (c r : RT.Cube K) (h : readCube toNu c = some r) :
    r.names = c.names ∧ r.aps = c.aps ∧ r.val.length = c.val.length ∧
    (∀ u, r.unc = some u → ∃ u', c.unc = some u' ∧ u.length = u'.length) := by
  rcases readCube_cases toNu c r h with rfl | rfl
  · exact ⟨rfl, rfl, rfl, fun u hu => ⟨u, hu, rfl⟩⟩
  · refine ⟨rfl, rfl, by simp [RT.reverseSpectralCube], ?_⟩
    intro u hu
    simp only [RT.reverseSpectralCube, Option.map_eq_some_iff] at hu
    obtain ⟨u', hu', rfl⟩ := hu
    exact ⟨u', hu', by simp⟩

/-! ## one entry's table -/

/-- the uncertainty column of cube row `m` through one entry: variances for a broadband entry,
    `unc[m, :, j]` for a wavelength entry -/
def entryErr (env : P3Env K) (inp : P3Input K) (e : Entry K) (m : Nat) : List K :=
  let c := rdCube env inp
  let unc := c.unc.getD []
  match e with
  | .band f =>
    (List.range (nApOf c.aps)).map (fun ia =>
      ceOf (held f) (c.wav.map env.toNu, ((unc.getD m []).getD ia [])))
  | .mono w0 =>
    match Mono.nearestIdx c.wav w0 with
    | .ok j => (unc.getD m []).map (fun row => row.getD j 0)
    | .error _ => []

/-- the table `Models._read_version_2` holds for one entry, as a function of the inputs -/
def convOf (env : P3Env K) (inp : P3Input K) (e : Entry K) : Match.Conv K (List K) :=
  { names := (rdCube env inp).names
    apertures := (rdCube env inp).aps
    filtwav := entryWav e
    flux := (List.range (rdCube env inp).names.length).map (entryRow env inp e)
    error := (List.range (rdCube env inp).names.length).map (entryErr env inp e) }

theorem colAt_eq_map : ∀ (arr : List (List K)) (j : Nat) (col : List K), Mono.colAt arr j = some col →
    col = arr.map (fun r => r.getD j 0)
  | [], j, col, h => by simp [Mono.colAt] at h; subst h; rfl
  | r :: rs, j, col, h => by
    simp only [Mono.colAt] at h
    split at h
    · rename_i v vs hv hvs
      simp only [Option.some.injEq] at h; subst h
      rw [List.map_cons, ← colAt_eq_map rs j vs hvs]
      simp [List.getD_eq_getElem?_getD, hv]
    · simp at h

theorem mapO_colAt (val : List (List (List K))) (j : Nat) (fl : List (List K))
    (h : mapO (fun m => Mono.colAt m j) val = some fl) :
    fl = val.map (fun m => m.map (fun r => r.getD j 0)) := by
  obtain ⟨h1, h2⟩ := mapO_some (fun m => Mono.colAt m j) (fun m => m.map (fun r => r.getD j 0)) val fl h
  rw [h1]
  apply List.map_congr_left
  intro m hm
  obtain ⟨col, hcol⟩ := h2 m hm
  rw [hcol, Option.getD_some]
  exact colAt_eq_map m j col hcol

theorem map_eq_range_map {α β : Type} (l : List α) (d : α) (g : α → β) :
    l.map g = (List.range l.length).map (fun i => g (l.getD i d)) := by
  apply List.ext_getElem
  · simp
  · intro i h1 h2
    simp at h1
    simp [List.getD_eq_getElem?_getD, List.getElem?_eq_getElem h1]

theorem zipWith_eq_range_map {α β γ : Type} (f : α → β → γ) (l1 : List α) (l2 : List β) (d1 : α) (d2 : β)
    (n : Nat) (h1 : l1.length = n) (h2 : l2.length = n) :
    List.zipWith f l1 l2 = (List.range n).map (fun i => f (l1.getD i d1) (l2.getD i d2)) := by
  apply List.ext_getElem
  · simp [h1, h2]
  · intro i hi1 hi2
    simp at hi1
    have a1 : i < l1.length := by omega
    have a2 : i < l2.length := by omega
    simp [List.getD_eq_getElem?_getD, List.getElem?_eq_getElem a1, List.getElem?_eq_getElem a2]

/-- a successful `convEntry` on the cube as read IS `convOf` -/
theorem convEntry_ok (env : P3Env K) (inp : P3Input K) (hN : NamesOK3 inp) (hS : CubeShape inp.cube)
    (cube : RT.Cube K) (unc : List (List (List K))) (hrd : readCube env.toNu inp.cube = some cube)
    (hunc : cube.unc = some unc) (table : List String) (e : Entry K) (c : Match.Conv K (List K))
    (h : convEntry env.toNu cube unc table e = .ok c) :
    c = convOf env inp e ∧ (∀ f, e = .band f → table = inp.cube.names ∧ held f ≠ []) := by
  have hrdc : rdCube env inp = cube := by simp [rdCube, hrd]
  obtain ⟨hnames, haps, hvlen, huncs⟩ := readCube_names env.toNu inp.cube cube hrd
  obtain ⟨u', hu', hul⟩ := huncs unc hunc
  have hvn : cube.val.length = cube.names.length := by rw [hvlen, hnames]; exact hS.1
  have hun : unc.length = cube.names.length := by rw [hul, hnames]; exact hS.2 u' hu'
  cases e with
  | band f =>
    simp only [convEntry] at h
    split at h
    · simp at h
    · rename_i r hr
      have hne : held f ≠ [] := ne_of_rebinE_ok _ _ _ hr
      unfold convolveV2 at h
      split at h
      · simp [liftM3] at h
      · rename_i htab
        simp only [liftM3, Except.ok.injEq] at h
        have htab' : table = cube.names := by
          simpa [asMatchCube] using htab
        refine ⟨?_, fun g hg => ⟨by rw [htab', hnames], by cases hg; exact hne⟩⟩
        rw [← h]
        -- names fit the column
        have ht30 : cube.names.map take30 = cube.names := by
          conv => rhs; rw [← List.map_id cube.names]
          apply List.map_congr_left
          intro n hn
          rw [hnames] at hn
          simpa using (hN.2 n hn).1
        -- the seds of the convolution loop, by index
        have hseds : (asMatchCube env.toNu cube unc).seds
            = (List.range cube.names.length).map (fun m => fun ia =>
                (⟨(cube.wav.map env.toNu, (cube.val.getD m []).getD ia []),
                  (cube.wav.map env.toNu, (unc.getD m []).getD ia [])⟩ : Ap (Spec K))) := by
          simp only [asMatchCube]
          exact zipWith_eq_range_map _ _ _ [] [] _ hvn hun
        have hlen : (asMatchCube env.toNu cube unc).seds.length = cube.names.length := by
          rw [hseds]; simp
        have hF := fromCols_eq (K := K) (fun (s : Nat → Ap (Spec K)) ia => cvOf (held f) (s ia).val)
          (asMatchCube env.toNu cube unc).seds (nApOf cube.aps)
        have hE := fromCols_eq (K := K) (fun (s : Nat → Ap (Spec K)) ia => ceOf (held f) (s ia).unc)
          (asMatchCube env.toNu cube unc).seds (nApOf cube.aps)
        rw [hlen] at hF hE
        simp only [convOf, hrdc, Conv.written, v2Filled, entryWav]
        have e1 : (asMatchCube env.toNu cube unc).names = cube.names := rfl
        have e2 : (asMatchCube env.toNu cube unc).apertures = cube.aps := rfl
        simp only [e1, e2, ht30]
        rw [hF, hE, hseds]
        simp only [List.map_map, Function.comp_def]
        have r1 : entryRow env inp (Entry.band f) = fun m => (List.range (nApOf cube.aps)).map (fun ia =>
            cvOf (held f) (cube.wav.map env.toNu, ((cube.val.getD m []).getD ia []))) := by
          funext m; simp only [entryRow, hrdc]
        have r2 : entryErr env inp (Entry.band f) = fun m => (List.range (nApOf cube.aps)).map (fun ia =>
            ceOf (held f) (cube.wav.map env.toNu, ((unc.getD m []).getD ia []))) := by
          funext m; simp only [entryErr, hrdc, hunc, Option.getD_some]
        rw [r1, r2]
  | mono w0 =>
    simp only [convEntry] at h
    split at h
    · simp at h
    · rename_i j hj
      split at h
      · rename_i fl er hfl her
        simp only [Except.ok.injEq] at h
        refine ⟨?_, fun g hg => by cases hg⟩
        rw [← h]
        have e1 := mapO_colAt cube.val j fl hfl
        have e2 := mapO_colAt unc j er her
        have r1 : entryRow env inp (Entry.mono w0) = fun m => (cube.val.getD m []).map (fun row => row.getD j 0) := by
          funext m; simp only [entryRow, hrdc, hj]
        have r2 : entryErr env inp (Entry.mono w0) = fun m => (unc.getD m []).map (fun row => row.getD j 0) := by
          funext m; simp only [entryErr, hrdc, hunc, Option.getD_some, hj]
        simp only [convOf, hrdc, entryWav]
        rw [r1, r2, e1, e2, map_eq_range_map cube.val [] _, map_eq_range_map unc [] _, hvn, hun]
      · simp at h

/-! ## `Models._read_version_2`: the models the fitter holds, as functions of the inputs -/

/-- model `m` of the cube before the distance grid is applied -/
def modelsOf3 (env : P3Env K) (inp : P3Input K) : List (Model3 K) :=
  (List.range inp.cube.names.length).map (fun m => ⟨inp.cube.names.getD m "", cubeTabs env inp m⟩)

/-- model `m` of the cube with its `log10` fluxes over the distance grid -/
def lmodelsOf3 (env : P3Env K) (inp : P3Input K) : List (ModelRow3 K) :=
  (List.range inp.cube.names.length).map (fun m => ⟨inp.cube.names.getD m "", cubeLfs env inp m, []⟩)

theorem rdCube_names (env : P3Env K) (inp : P3Input K) (cube : RT.Cube K)
    (hrd : readCube env.toNu inp.cube = some cube) :
    rdCube env inp = cube ∧ (rdCube env inp).names = inp.cube.names ∧ (rdCube env inp).aps = inp.cube.aps := by
  have hrdc : rdCube env inp = cube := by simp [rdCube, hrd]
  obtain ⟨h1, h2, -, -⟩ := readCube_names env.toNu inp.cube cube hrd
  exact ⟨hrdc, by rw [hrdc, h1], by rw [hrdc, h2]⟩

theorem zipIdx_map_range {α β : Type} (l : List α) (d : α) (F : α → Nat → β) :
    l.zipIdx.map (fun ni => F ni.1 ni.2) = (List.range l.length).map (fun i => F (l.getD i d) i) := by
  apply List.ext_getElem
  · simp
  · intro i h1 h2
    simp at h1
    simp [List.getD_eq_getElem?_getD, List.getElem?_eq_getElem h1]

theorem tabsOf_convOf (env : P3Env K) (inp : P3Input K) (i : Nat) (hi : i < (rdCube env inp).names.length) :
    tabsOf inp.filters (inp.filters.map (fun f => convOf env inp f.entry)) i = cubeTabs env inp i := by
  unfold tabsOf cubeTabs
  rw [List.zipWith_map_right, List.zipWith_self]
  apply List.map_congr_left
  intro f _
  simp [convOf, List.getD_eq_getElem?_getD, List.getElem?_range hi]

theorem readModels3_ok (env : P3Env K) (inp : P3Input K) (hN : NamesOK3 inp) (cube : RT.Cube K)
    (hrd : readCube env.toNu inp.cube = some cube) (models : List (Model3 K))
    (h : readModels3 inp.filters (inp.filters.map (fun f => convOf env inp f.entry)) = .ok models) :
    inp.filters ≠ [] ∧ models = modelsOf3 env inp := by
  obtain ⟨-, hnames, -⟩ := rdCube_names env inp cube hrd
  unfold readModels3 at h
  split at h
  · simp at h
  · rename_i last hlast
    have hne : inp.filters ≠ [] := by
      intro he; rw [he] at hlast; simp at hlast
    rw [List.getLast?_map] at hlast
    obtain ⟨f, -, hf⟩ := Option.map_eq_some_iff.mp hlast
    split at h
    · simp at h
    · split at h
      · simp at h
      · split at h
        · simp at h
        · simp only [Except.ok.injEq] at h
          refine ⟨hne, ?_⟩
          rw [← h, ← hf]
          have hstrip : (convOf env inp f.entry).names.map strip = inp.cube.names := by
            simp only [convOf, hnames]
            conv => rhs; rw [← List.map_id inp.cube.names]
            apply List.map_congr_left
            intro n hn
            simpa using (hN.2 n hn).2
          rw [hstrip, zipIdx_map_range inp.cube.names "" (fun n i => (⟨n, tabsOf inp.filters
            (inp.filters.map (fun f => convOf env inp f.entry)) i⟩ : Model3 K))]
          unfold modelsOf3
          apply List.map_congr_left
          intro m hm
          rw [tabsOf_convOf env inp m (by rw [hnames]; exact List.mem_range.mp hm)]

theorem logFluxStage_ok (env : P3Env K) (inp : P3Input K) (lm : List (ModelRow3 K))
    (h : logFluxStage env.lg (distsOf env inp) (modelsOf3 env inp) = .ok lm) :
    lm = lmodelsOf3 env inp ∧
    ∀ m, m < inp.cube.names.length →
      modelLogFluxes env.lg (cubeTabs env inp m) (distsOf env inp) = .ok (cubeLfs env inp m) := by
  unfold logFluxStage at h
  constructor
  · have := mapE_ok_map _ (fun (m : Model3 K) => (⟨m.name,
        match modelLogFluxes env.lg m.tabs (distsOf env inp) with
        | .ok l => l
        | .error _ => [], []⟩ : ModelRow3 K)) _ lm (by
      intro a _ b hb
      split at hb
      · rename_i l hl
        simp only [Except.ok.injEq] at hb
        rw [← hb, hl]
      · simp at hb) h
    rw [this]
    simp only [modelsOf3, lmodelsOf3, List.map_map]
    apply List.map_congr_left
    intro m _
    simp only [Function.comp, cubeLfs]
    cases modelLogFluxes env.lg (cubeTabs env inp m) (distsOf env inp) <;> rfl
  · intro m hm
    have hmem : (⟨inp.cube.names.getD m "", cubeTabs env inp m⟩ : Model3 K) ∈ modelsOf3 env inp :=
      List.mem_map.mpr ⟨m, List.mem_range.mpr hm, rfl⟩
    obtain ⟨b, hb⟩ := mapE_ok_forall _ _ lm h _ hmem
    simp only at hb
    split at hb
    · rename_i l hl
      rw [hl]; simp only [cubeLfs, hl]
    · simp at hb

theorem ksOf3_convOf (env : P3Env K) (inp : P3Input K) :
    ksOf3 inp (inp.filters.map (fun f => convOf env inp f.entry)) = ksIn3 inp := by
  simp [ksOf3, ksIn3, convOf, List.map_map, Function.comp_def]

/-- the record `fit()` writes for one source, as a function of the inputs -/
def recordOf3 (env : P3Env K) (inp : P3Input K) (bands : List (Obs K)) : FitRows K :=
  fitSource3 env inp.lo inp.hi (logdOf env inp) (ksIn3 inp) (lmodelsOf3 env inp) inp.selFit bands

/-! ## the whole pipeline, stage by stage -/

theorem runPipeline3_ok (env : P3Env K) (inp : P3Input K) (out : P3Out K)
    (h : runPipeline3 env inp = .ok out) (hN : NamesOK3 inp) (hS : CubeShape inp.cube) :
    ∃ (cube : RT.Cube K) (unc : List (List (List K))),
      readCube env.toNu inp.cube = some cube ∧ cube.unc = some unc ∧
      inp.filters ≠ [] ∧
      (∀ f ∈ inp.filters, ∀ g, f.entry = .band g → inp.table.map (·.1) = inp.cube.names ∧ held g ≠ []) ∧
      out.conv = inp.filters.map (fun f => convOf env inp f.entry) ∧
      out.dists = distsOf env inp ∧ distsOf env inp ≠ [] ∧
      out.models = lmodelsOf3 env inp ∧
      (∀ m, m < inp.cube.names.length →
        modelLogFluxes env.lg (cubeTabs env inp m) (distsOf env inp) = .ok (cubeLfs env inp m)) ∧
      out.fits = (fittedSources3 inp).map (fun s => recordOf3 env inp s.2) ∧
      mapE (fun s => liftP3 (listSource inp.table inp.selOut s (recordOf3 env inp s.2))) (fittedSources3 inp)
        = .ok out.listings := by
  unfold runPipeline3 at h
  split at h
  · simp at h
  · rename_i cube hrd
    split at h
    · simp at h
    · rename_i unc hunc
      split at h
      · simp at h
      · rename_i convs hconvs
        have hcv : convs = inp.filters.map (fun f => convOf env inp f.entry) :=
          mapE_ok_map _ _ _ convs (fun f _ c hc =>
            (convEntry_ok env inp hN hS cube unc hrd hunc _ f.entry c hc).1) hconvs
        have hband : ∀ f ∈ inp.filters, ∀ g, f.entry = .band g →
            inp.table.map (·.1) = inp.cube.names ∧ held g ≠ [] := by
          intro f hf g hg
          obtain ⟨c, hc⟩ := mapE_ok_forall _ _ convs hconvs f hf
          exact (convEntry_ok env inp hN hS cube unc hrd hunc _ f.entry c hc).2 g hg
        subst hcv
        split at h
        · simp at h
        · rename_i models hmodels
          obtain ⟨hne, hm⟩ := readModels3_ok env inp hN cube hrd models hmodels
          subst hm
          split at h
          · simp at h
          · rename_i hd
            split at h
            · simp at h
            · rename_i lm hlm
              obtain ⟨hl, hall⟩ := logFluxStage_ok env inp lm hlm
              subst hl
              rw [ksOf3_convOf] at h
              simp only at h
              split at h
              · simp at h
              · rename_i ls hls
                simp only [Except.ok.injEq] at h
                subst h
                exact ⟨cube, unc, hrd, hunc, hne, hband, rfl, rfl, hd, rfl, hall, rfl, hls⟩

/-! ## `Models.fit` (`ndim == 3`) + `FitInfo.sort` + `keep` -/

theorem unsorted3_wf (big : K) (ln1m : K → K) (lo hi : K) (logd : List K) (lobs : List (LogObs K)) (ks : List K)
    (models : List (ModelRow3 K)) :
    WFRows (fitRowsUnsorted3 big ln1m lo hi logd lobs ks models) ∧
    (fitRowsUnsorted3 big ln1m lo hi logd lobs ks models).chi2.length = models.length := by
  refine ⟨⟨by simp [fitRowsUnsorted3], by simp [fitRowsUnsorted3], by simp [fitRowsUnsorted3], ?_⟩,
    by simp [fitRowsUnsorted3]⟩
  intro fl hfl
  simp [fitRowsUnsorted3] at hfl
  subst hfl
  simp [fitRowsUnsorted3]

/-- the ranked result of one source: well-formed, ranked, one entry per model -/
theorem rank3_wf (env : P3Env K) (lo hi : K) (logd ks : List K) (models : List (ModelRow3 K)) (bands : List (Obs K)) :
    WFInfo (rankSource3 env lo hi logd ks models bands) ∧ Ranked (rankSource3 env lo hi logd ks models bands).chi2 ∧
    (rankSource3 env lo hi logd ks models bands).chi2.length = models.length := by
  unfold rankSource3 fitRows3
  obtain ⟨hwf, hlen⟩ := unsorted3_wf env.big env.ln1m lo hi logd (bands.map (logTransform env.lg env.ln10)) ks models
  obtain ⟨h1, h2⟩ := (C05_domain _).1 hwf
  refine ⟨h1, h2, ?_⟩
  rw [← hlen]
  simp [sortRows, fancyIndex_length, argsortEF_length]

/-- row `i` of the ranked result is one model of the list (position `m`), with that model's own fit:
    without `extended` mask and with at least one trial distance, `fit3` of C02 (`C04_fit_rows3`,
    `C04_fit3Ext_nomask`) -/
theorem rank3_row (env : P3Env K) (lo hi : K) (logd ks : List K) (models : List (ModelRow3 K)) (bands : List (Obs K))
    (hext : ∀ md ∈ models, md.ext = [] ∧ md.mfss ≠ [])
    (i : Nat) (hi' : i < models.length) :
    ∃ (m : Nat) (md : ModelRow3 K), models[m]? = some md ∧
      (rankSource3 env lo hi logd ks models bands).name[i]? = some md.name ∧
      (rankSource3 env lo hi logd ks models bands).av[i]?
        = some (fit3 env.big env.ln1m lo hi logd (pssOf (bands.map (logTransform env.lg env.ln10)) ks md.mfss)).1 ∧
      (rankSource3 env lo hi logd ks models bands).sc[i]?
        = some (fit3 env.big env.ln1m lo hi logd (pssOf (bands.map (logTransform env.lg env.ln10)) ks md.mfss)).2.1 ∧
      (rankSource3 env lo hi logd ks models bands).chi2[i]?
        = some (EF.fin (fit3 env.big env.ln1m lo hi logd (pssOf (bands.map (logTransform env.lg env.ln10)) ks md.mfss)).2.2.1) := by
  obtain ⟨-, -, hrows⟩ := C04_fit_rows3 env.big env.ln1m lo hi logd (bands.map (logTransform env.lg env.ln10)) ks models
  obtain ⟨m, md, -, hmd, hrow⟩ := hrows i hi'
  obtain ⟨h1, h2, h3, h4⟩ := rowAt_some _ _ _ hrow
  obtain ⟨he, hne⟩ := hext md (List.mem_of_getElem? hmd)
  have hpne : pssOf (bands.map (logTransform env.lg env.ln10)) ks md.mfss ≠ [] := by
    simpa [pssOf] using hne
  obtain ⟨n1, n2, n3, -⟩ := C04_fit3Ext_nomask env.big env.ln1m lo hi logd _ hpne
  simp only [he, n1, n2, n3] at h1 h2 h3
  exact ⟨m, md, hmd, h4, h1, h2, h3⟩

/-- the complete ranking of one source over the models of the cube (what `Models.fit` returns before
    any selection), as a function of the pipeline's inputs -/
def fullRanking3 (env : P3Env K) (inp : P3Input K) (bands : List (Obs K)) : FitRows K :=
  rankSource3 env inp.lo inp.hi (logdOf env inp) (ksIn3 inp) (lmodelsOf3 env inp) bands

/-- number of rows that survive `output_format` and then `select_format` -/
def nKept3 (env : P3Env K) (inp : P3Input K) (bands : List (Obs K)) : Nat :=
  let r := fullRanking3 env inp bands
  let n1 := nFits inp.selFit (nDataSrc (flagsOf bands)) r.chi2
  min (nFits inp.selOut (nDataSrc (flagsOf bands)) (r.chi2.take n1)) n1

theorem kept3_arrays (env : P3Env K) (inp : P3Input K) (bands : List (Obs K)) :
    (keepSrc inp.selOut (flagsOf bands) (recordOf3 env inp bands)).name
      = (fullRanking3 env inp bands).name.take (nKept3 env inp bands) ∧
    (keepSrc inp.selOut (flagsOf bands) (recordOf3 env inp bands)).chi2
      = (fullRanking3 env inp bands).chi2.take (nKept3 env inp bands) ∧
    (keepSrc inp.selOut (flagsOf bands) (recordOf3 env inp bands)).av
      = (fullRanking3 env inp bands).av.take (nKept3 env inp bands) ∧
    (keepSrc inp.selOut (flagsOf bands) (recordOf3 env inp bands)).sc
      = (fullRanking3 env inp bands).sc.take (nKept3 env inp bands) := by
  simp [recordOf3, fitSource3, keepSrc, keep, nKept3, fullRanking3, List.take_take]

theorem lmodelsOf3_length (env : P3Env K) (inp : P3Input K) :
    (lmodelsOf3 env inp).length = inp.cube.names.length := by simp [lmodelsOf3]

theorem lmodelsOf3_getElem? (env : P3Env K) (inp : P3Input K) (m : Nat) (md : ModelRow3 K)
    (h : (lmodelsOf3 env inp)[m]? = some md) :
    m < inp.cube.names.length ∧ inp.cube.names[m]? = some md.name ∧ md.mfss = cubeLfs env inp m ∧ md.ext = [] := by
  unfold lmodelsOf3 at h
  rw [List.getElem?_map] at h
  obtain ⟨k, hk, rfl⟩ := Option.map_eq_some_iff.mp h
  have hm : m < inp.cube.names.length := by
    have := (List.getElem?_eq_some_iff.mp hk).1; simpa using this
  rw [List.getElem?_range hm] at hk
  simp only [Option.some.injEq] at hk
  subst hk
  exact ⟨hm, by simp [List.getD_eq_getElem?_getD, List.getElem?_eq_getElem hm], rfl, rfl⟩

/-- the grid the fitter holds is not empty and every cube row was interpolated over it -/
def GridOK (env : P3Env K) (inp : P3Input K) : Prop :=
  distsOf env inp ≠ [] ∧ ∀ m, m < inp.cube.names.length →
    modelLogFluxes env.lg (cubeTabs env inp m) (distsOf env inp) = .ok (cubeLfs env inp m)

open SF.Dist in
theorem cubeLfs_length (env : P3Env K) (inp : P3Input K) (m : Nat)
    (hm : modelLogFluxes env.lg (cubeTabs env inp m) (distsOf env inp) = .ok (cubeLfs env inp m)) :
    (cubeLfs env inp m).length = (distsOf env inp).length := by
  unfold modelLogFluxes at hm
  have := seqE_length _ _ hm
  simpa using this

theorem lmodelsOf3_ext (env : P3Env K) (inp : P3Input K) (hG : GridOK env inp) :
    ∀ md ∈ lmodelsOf3 env inp, md.ext = [] ∧ md.mfss ≠ [] := by
  intro md hmd
  obtain ⟨m, hm⟩ := List.mem_iff_getElem?.mp hmd
  obtain ⟨hlt, -, hl, he⟩ := lmodelsOf3_getElem? env inp m md hm
  refine ⟨he, ?_⟩
  intro h0
  have := cubeLfs_length env inp m (hG.2 m hlt)
  rw [← hl, h0] at this
  exact hG.1 (List.length_eq_zero_iff.mp this.symm)

/-- row `i` of the complete ranking belongs to ONE cube row `m`: its name, and `fit3` over the
    per-distance points built from that row -/
theorem fullRanking3_row (env : P3Env K) (inp : P3Input K) (hG : GridOK env inp) (bands : List (Obs K)) (i : Nat)
    (hi' : i < inp.cube.names.length) :
    ∃ m, m < inp.cube.names.length ∧
      (fullRanking3 env inp bands).name[i]? = inp.cube.names[m]? ∧
      (fullRanking3 env inp bands).av[i]? = some (cubeFit env inp bands m).1 ∧
      (fullRanking3 env inp bands).sc[i]? = some (cubeFit env inp bands m).2.1 ∧
      (fullRanking3 env inp bands).chi2[i]? = some (EF.fin (cubeFit env inp bands m).2.2.1) := by
  obtain ⟨m, md, hmd, rn, ra, rs, rc⟩ := rank3_row env inp.lo inp.hi (logdOf env inp) (ksIn3 inp) (lmodelsOf3 env inp)
    bands (lmodelsOf3_ext env inp hG) i (by rw [lmodelsOf3_length]; exact hi')
  obtain ⟨hm, hname, hlfs, -⟩ := lmodelsOf3_getElem? env inp m md hmd
  have hp : pssOf (bands.map (logTransform env.lg env.ln10)) (ksIn3 inp) md.mfss = cubePss env inp bands m := by
    simp only [pssOf, cubePss, hlfs]
  rw [hp] at ra rs rc
  exact ⟨m, hm, by rw [hname]; exact rn, ra, rs, rc⟩

/-- the names of the complete ranking are the cube's names, each exactly once -/
theorem rank3_names_perm (env : P3Env K) (inp : P3Input K) (bands : List (Obs K)) :
    (fullRanking3 env inp bands).name.Perm inp.cube.names := by
  unfold fullRanking3 rankSource3 fitRows3
  obtain ⟨hwf, -⟩ := unsorted3_wf env.big env.ln1m inp.lo inp.hi (logdOf env inp)
    (bands.map (logTransform env.lg env.ln10)) (ksIn3 inp) (lmodelsOf3 env inp)
  refine (C04_perm _ hwf).2.2.1.trans ?_
  have : (fitRowsUnsorted3 env.big env.ln1m inp.lo inp.hi (logdOf env inp)
      (bands.map (logTransform env.lg env.ln10)) (ksIn3 inp) (lmodelsOf3 env inp)).name = inp.cube.names := by
    simp only [fitRowsUnsorted3, lmodelsOf3, List.map_map, Function.comp_def]
    rw [← map_eq_range_map inp.cube.names "" (fun n => n)]
    simp
  rw [this]

/-- every chi² of the ranking is a finite number -/
theorem rank3_chi2_fin (env : P3Env K) (inp : P3Input K) (hG : GridOK env inp) (bands : List (Obs K)) :
    ∀ c ∈ (fullRanking3 env inp bands).chi2, ∃ x, c = EF.fin x := by
  intro c hc
  obtain ⟨i, hi', rfl⟩ := List.getElem_of_mem hc
  have hlen := (rank3_wf env inp.lo inp.hi (logdOf env inp) (ksIn3 inp) (lmodelsOf3 env inp) bands).2.2
  rw [lmodelsOf3_length] at hlen
  obtain ⟨m, -, -, -, -, rc⟩ := fullRanking3_row env inp hG bands i (by unfold fullRanking3 at hi'; omega)
  rw [List.getElem?_eq_getElem hi'] at rc
  simp only [Option.some.injEq] at rc
  exact ⟨_, rc⟩

/-- the chi² of every cube row appears in the complete ranking -/
theorem rank3_chi2_mem (env : P3Env K) (inp : P3Input K) (hG : GridOK env inp) (bands : List (Obs K)) (m : Nat)
    (hm : m < inp.cube.names.length) :
    EF.fin (cubeFit env inp bands m).2.2.1 ∈ (fullRanking3 env inp bands).chi2 := by
  unfold fullRanking3 rankSource3 fitRows3
  obtain ⟨hwf, -⟩ := unsorted3_wf env.big env.ln1m inp.lo inp.hi (logdOf env inp)
    (bands.map (logTransform env.lg env.ln10)) (ksIn3 inp) (lmodelsOf3 env inp)
  refine ((C04_perm _ hwf).2.2.2.1).mem_iff.mpr ?_
  simp only [fitRowsUnsorted3, List.map_map, List.mem_map, Function.comp]
  have hmd : (lmodelsOf3 env inp)[m]? = some ⟨inp.cube.names.getD m "", cubeLfs env inp m, []⟩ := by
    simp [lmodelsOf3, List.getElem?_range hm]
  refine ⟨_, List.mem_of_getElem? hmd, ?_⟩
  have hne : pssOf (bands.map (logTransform env.lg env.ln10)) (ksIn3 inp) (cubeLfs env inp m) ≠ [] := by
    have := (lmodelsOf3_ext env inp hG _ (List.mem_of_getElem? hmd)).2
    simpa [pssOf] using this
  obtain ⟨-, -, n3, -⟩ := C04_fit3Ext_nomask env.big env.ln1m inp.lo inp.hi (logdOf env inp) _ hne
  simp only [n3]
  rfl

/-! ## one block of the listing -/

theorem liftP3_ok {α : Type} (e : Except PErr α) (a : α) (h : liftP3 e = .ok a) : e = .ok a := by
  cases e with
  | error x => simp [liftP3] at h
  | ok b => simp [liftP3] at h; rw [h]

/-- one block of the listing, in terms of the complete ranking of its source -/
theorem listing_block3 (env : P3Env K) (inp : P3Input K) (out : P3Out K)
    (h : runPipeline3 env inp = .ok out) (hN : NamesOK3 inp) (hS : CubeShape inp.cube)
    (k : Nat) (src : String × List (Obs K)) (L : SrcListing K)
    (hsrc : (fittedSources3 inp)[k]? = some src) (hL : out.listings[k]? = some L) :
    ∃ ts, listing (K := K) inp.table
        ((fullRanking3 env inp src.2).name.take (nKept3 env inp src.2)) [] = .ok ts ∧
      L.source = src.1 ∧ L.nData = nDataSrc (flagsOf src.2) ∧
      L.nFits = ((fullRanking3 env inp src.2).chi2.take (nKept3 env inp src.2)).length ∧
      L.rows = mkRows 0
        ((fullRanking3 env inp src.2).name.take (nKept3 env inp src.2))
        ((fullRanking3 env inp src.2).chi2.take (nKept3 env inp src.2))
        ((fullRanking3 env inp src.2).av.take (nKept3 env inp src.2))
        ((fullRanking3 env inp src.2).sc.take (nKept3 env inp src.2)) ts := by
  obtain ⟨cube, unc, -, -, -, -, -, -, -, -, -, -, hls⟩ := runPipeline3_ok env inp out h hN hS
  obtain ⟨hlen, hget⟩ := mapE_getElem? _ _ _ hls
  have hLs := liftP3_ok _ _ (hget k src L hsrc hL)
  obtain ⟨ts, hts, hsource, hnd, hnf, hrows⟩ := listSource_ok _ _ _ _ _ hLs
  obtain ⟨hkn, hkc, hka, hks⟩ := kept3_arrays env inp src.2
  rw [hkn] at hts
  rw [hkn, hkc, hka, hks] at hrows
  rw [hkc] at hnf
  exact ⟨ts, hts, hsource, hnd, hnf, hrows⟩

/-! ## the cube as read, on the property's domain (`CubeOK`) -/

/-- write + read of a cube of the property's domain: succeeds; the result is the input or the input with
    the spectral axis reversed; cells by wavelength VALUE are unchanged (`C12_cube_cell`); and the
    wavelength axis as read is in DECREASING wavelength (increasing frequency) whatever the stored order -/
theorem readCube_ok (toNu : K → K) (c : RT.Cube K) (hc : RT.CubeOK toNu c) :
    ∃ rd, readCube toNu c = some rd ∧ (rd = c ∨ rd = RT.reverseSpectralCube c) ∧
      rd.names = c.names ∧ rd.aps = c.aps ∧
      (∀ (m a : Nat) (x : K), RT.cubeVal rd m a x = RT.cubeVal c m a x ∧ RT.cubeUnc rd m a x = RT.cubeUnc c m a x) ∧
      rd.wav.Pairwise (· > ·) ∧ rd.wav ≠ [] ∧ (∀ w, w ∈ rd.wav ↔ w ∈ c.wav) ∧
      (∀ mm ∈ rd.val, ∀ row ∈ mm, row.length = rd.wav.length) ∧
      (∀ u, rd.unc = some u → ∀ mm ∈ u, ∀ row ∈ mm, row.length = rd.wav.length) ∧
      rd.val.length = c.val.length ∧ (∀ u, c.unc = some u → ∃ u', rd.unc = some u' ∧ u'.length = u.length) := by
  obtain ⟨rd, hrd, hcase, hn, ha, -, hcell⟩ := C12_cube_cell toNu RT.Order.nu c hc
  have hrd' : readCube toNu c = some rd := hrd
  -- facts that hold for both shapes of `rd`
  have hshape : (∀ w, w ∈ rd.wav ↔ w ∈ c.wav) ∧ rd.wav ≠ [] ∧
      (∀ mm ∈ rd.val, ∀ row ∈ mm, row.length = rd.wav.length) ∧
      (∀ u, rd.unc = some u → ∀ mm ∈ u, ∀ row ∈ mm, row.length = rd.wav.length) ∧
      rd.val.length = c.val.length ∧ (∀ u, c.unc = some u → ∃ u', rd.unc = some u' ∧ u'.length = u.length) := by
    rcases hcase with rfl | rfl
    · exact ⟨fun w => Iff.rfl, hc.ne, hc.rowsV, hc.rowsU, rfl, fun u hu => ⟨u, hu, rfl⟩⟩
    · refine ⟨fun w => by simp [RT.reverseSpectralCube], by simpa [RT.reverseSpectralCube] using hc.ne, ?_, ?_,
        by simp [RT.reverseSpectralCube], ?_⟩
      · intro mm hmm row hrow
        simp only [RT.reverseSpectralCube, List.mem_map] at hmm
        obtain ⟨mm0, hmm0, rfl⟩ := hmm
        obtain ⟨row0, hrow0, rfl⟩ := List.mem_map.mp hrow
        simp [RT.reverseSpectralCube, hc.rowsV mm0 hmm0 row0 hrow0]
      · intro u hu mm hmm row hrow
        simp only [RT.reverseSpectralCube, Option.map_eq_some_iff] at hu
        obtain ⟨u0, hu0, rfl⟩ := hu
        obtain ⟨mm0, hmm0, rfl⟩ := List.mem_map.mp hmm
        obtain ⟨row0, hrow0, rfl⟩ := List.mem_map.mp hrow
        simp [RT.reverseSpectralCube, hc.rowsU u0 hu0 mm0 hmm0 row0 hrow0]
      · intro u hu
        exact ⟨u.map (fun m => m.map List.reverse), by simp [RT.reverseSpectralCube, hu], by simp⟩
  -- the axis as read is in decreasing wavelength
  have hdec : rd.wav.Pairwise (· > ·) := by
    have hnune : c.wav.map toNu ≠ [] := by simpa using hc.ne
    rcases hc.mono with hinc | hdec
    · by_cases h2 : 2 ≤ c.wav.length
      · have := RT.cubeRead_nu toNu c true
          (RT.firstGtLast_dec _ (RT.nu_of_inc toNu c.wav hinc hc.anti) (by simpa using h2))
        rw [hrd] at this
        simp only [Option.some.injEq, if_true] at this
        rw [this]
        simp only [RT.reverseSpectralCube, List.pairwise_reverse]
        exact hinc
      · -- a single wavelength
        have h1 : rd.wav.length ≤ 1 := by
          rcases hcase with rfl | rfl
          · omega
          · simp only [RT.reverseSpectralCube, List.length_reverse]; omega
        match hw : rd.wav, h1 with
        | [], _ => exact List.Pairwise.nil
        | [x], _ => exact List.pairwise_singleton _ _
    · have := RT.cubeRead_nu toNu c false (RT.firstGtLast_inc _ (RT.nu_of_dec toNu c.wav hdec hc.anti) hnune)
      rw [hrd] at this
      simp only [Option.some.injEq] at this
      rw [this]
      exact hdec
  obtain ⟨s1, s2, s3, s4, s5, s6⟩ := hshape
  exact ⟨rd, hrd', hcase, hn, ha, hcell, hdec, s2, s1, s3, s4, s5, s6⟩

/-- on an axis in decreasing wavelength, `nearestIdx` picks the LARGEST of the wavelengths nearest to `w0` -/
theorem nearest_largest (ws : List K) (hdec : ws.Pairwise (· > ·)) (w0 : K) (j : Nat)
    (h : Mono.nearestIdx ws w0 = .ok j) :
    ∃ wr, ws[j]? = some wr ∧ (∀ w ∈ ws, |wr - w0| ≤ |w - w0|) ∧
      (∀ w ∈ ws, |w - w0| = |wr - w0| → w ≤ wr) := by
  obtain ⟨wr, hwr, hmin, hfirst⟩ := (C16_nearest ws w0).2 j h
  refine ⟨wr, hwr, ?_, ?_⟩
  · intro w hw
    obtain ⟨k, hk⟩ := List.mem_iff_getElem?.mp hw
    exact hmin k w hk
  · intro w hw heq
    obtain ⟨k, hk⟩ := List.mem_iff_getElem?.mp hw
    have hkj : ¬ k < j := by
      intro hlt
      have := hfirst k w hlt hk
      rw [heq] at this
      exact lt_irrefl _ this
    obtain ⟨hjl, hje⟩ := List.getElem?_eq_some_iff.mp hwr
    obtain ⟨hkl, hke⟩ := List.getElem?_eq_some_iff.mp hk
    rcases Nat.lt_or_ge j k with hjk | hjk
    · have := List.pairwise_iff_getElem.mp hdec j k hjl hkl hjk
      rw [hje, hke] at this
      exact le_of_lt this
    · have : k = j := by omega
      subst this
      rw [← hje, ← hke]

/-- the keyed cell `(m, ia, wavelength value wr)` of a slab is the cell at the index of `wr` -/
theorem slab_col (wav : List K) (hnd : wav.Nodup) (slab : List (List (List K)))
    (hrows : ∀ mm ∈ slab, ∀ row ∈ mm, row.length = wav.length) (j : Nat) (wr : K) (hj : wav[j]? = some wr)
    (m ia : Nat) :
    (slab[m]?).bind (fun mm => (mm[ia]?).bind (fun row => RT.cellAt wav row wr))
      = ((slab.getD m [])[ia]?).map (fun row => row.getD j 0) := by
  cases hm : slab[m]? with
  | none => simp [List.getD_eq_getElem?_getD, hm]
  | some mm =>
    simp only [List.getD_eq_getElem?_getD, hm, Option.bind_some, Option.getD_some]
    cases hia : mm[ia]? with
    | none => simp
    | some row =>
      simp only [Option.bind_some, Option.map_some]
      have hlen : row.length = wav.length :=
        hrows mm (List.mem_of_getElem? hm) row (List.mem_of_getElem? hia)
      have hjl : j < row.length := by rw [hlen]; exact (List.getElem?_eq_some_iff.mp hj).1
      rw [RT.cellAt_getElem wav row hnd j wr row[j] hj (List.getElem?_eq_getElem hjl)]
      simp [List.getElem?_eq_getElem hjl]

/-! ## liveness: the pipeline returns on its domain -/

open SF.Dist in
theorem interpClamp_live (a0 : K) (t ys : List K) (hlen : (a0 :: t).length = ys.length) (hinc : Incr (a0 :: t))
    (x : K) (hx : a0 ≤ x) : ∃ v, interpClamp (a0 :: t) ys x = .ok v := by
  cases ys with
  | nil => simp at hlen
  | cons y0 yt =>
    have hs : SortedX ((a0 :: t).zip (y0 :: yt)) := sortedX_zip (a0 :: t) (y0 :: yt) hinc
    simp only [List.zip_cons_cons] at hs
    unfold interpClamp
    simp only [List.zip_cons_cons]
    refine ⟨_, interpClampT_eq (a0, y0) (t.zip yt) x ?_⟩
    simp only [not_lt]
    by_cases hl : (lastD (t.zip yt) (a0, y0)).1 < x
    · rw [clampHi_of_lt _ _ hl]
      exact sortedX_head_le (a0, y0) (t.zip yt) hs _ (lastD_mem _ _)
    · rw [clampHi_of_le _ _ (not_lt.mp hl)]
      exact hx

theorem seqE_live {ε α : Type} : ∀ (l : List (Except ε α)), (∀ e ∈ l, ∃ v, e = .ok v) → ∃ out, seqE l = .ok out
  | [], _ => ⟨[], rfl⟩
  | e :: es, h => by
    obtain ⟨v, rfl⟩ := h e (by simp)
    obtain ⟨vs, hvs⟩ := seqE_live es (fun e he => h e (by simp [he]))
    exact ⟨v :: vs, by simp [seqE, hvs]⟩

open SF.Dist in
/-- aperture interpolation never refuses when every `θ·d` reaches the smallest aperture -/
theorem modelLogFluxes_live (lg : K → K) (tabs : List (BandTab K)) (dists : List K) (a0 : K) (t : List K)
    (hinc : Incr (a0 :: t))
    (htabs : ∀ b ∈ tabs, b.aps = a0 :: t ∧ b.row.length = (a0 :: t).length)
    (hreach : ∀ b ∈ tabs, ∀ d ∈ dists, a0 ≤ b.theta * (thousandK * d)) :
    ∃ l, modelLogFluxes lg tabs dists = .ok l := by
  unfold modelLogFluxes
  apply seqE_live
  intro e he
  obtain ⟨d, hd, rfl⟩ := List.mem_map.mp he
  have : ∃ fl, modelFluxes tabs d = .ok fl := by
    unfold modelFluxes
    apply seqE_live
    intro e he
    obtain ⟨b, hb, rfl⟩ := List.mem_map.mp he
    obtain ⟨h1, h2⟩ := htabs b hb
    unfold fluxAt
    rw [h1]
    obtain ⟨v, hv⟩ := interpClamp_live a0 t b.row h2.symm hinc _ (hreach b hb d hd)
    exact ⟨_, by rw [hv]; rfl⟩
  obtain ⟨fl, hfl⟩ := this
  exact ⟨_, by rw [hfl]; rfl⟩

theorem colAt_live : ∀ (arr : List (List K)) (j : Nat), (∀ r ∈ arr, j < r.length) → ∃ col, Mono.colAt arr j = some col
  | [], _, _ => ⟨[], rfl⟩
  | r :: rs, j, h => by
    obtain ⟨col, hcol⟩ := colAt_live rs j (fun r hr => h r (by simp [hr]))
    have hj : j < r.length := h r (by simp)
    exact ⟨r[j] :: col, by simp [Mono.colAt, List.getElem?_eq_getElem hj, hcol]⟩

theorem mapO_live {α β : Type} (f : α → Option β) : ∀ (l : List α), (∀ a ∈ l, ∃ b, f a = some b) → ∃ r, mapO f l = some r
  | [], _ => ⟨[], rfl⟩
  | a :: as, h => by
    obtain ⟨b, hb⟩ := h a (by simp)
    obtain ⟨bs, hbs⟩ := mapO_live f as (fun x hx => h x (by simp [hx]))
    exact ⟨b :: bs, by simp [mapO, hb, hbs]⟩

/-- the names `write_parameters` looks up for one source: distinct, and all in the cube -/
theorem kept3_names_ok (env : P3Env K) (inp : P3Input K) (hN : NamesOK3 inp) (bands : List (Obs K)) :
    (keepSrc inp.selOut (flagsOf bands) (recordOf3 env inp bands)).name.Nodup ∧
    ∀ X ∈ (keepSrc inp.selOut (flagsOf bands) (recordOf3 env inp bands)).name, X ∈ inp.cube.names := by
  obtain ⟨hkn, -, -, -⟩ := kept3_arrays env inp bands
  rw [hkn]
  have hp := rank3_names_perm env inp bands
  have hnd : (fullRanking3 env inp bands).name.Nodup := hp.nodup_iff.mpr hN.1
  exact ⟨(List.take_sublist _ _).nodup hnd, fun X hX => hp.mem_iff.mp (List.mem_of_mem_take hX)⟩

/-- the pipeline returns on its domain -/
theorem runPipeline3_live (env : P3Env K) (inp : P3Input K) (hN : NamesOK3 inp) (hS : CubeShape inp.cube)
    (hC : RT.CubeOK env.toNu inp.cube)
    (hunc : ∃ u, inp.cube.unc = some u)
    (htab : inp.table.map (·.1) = inp.cube.names)
    (a0 : K) (t : List K) (haps : inp.cube.aps = some (a0 :: t)) (ht : t ≠ []) (hinc : SF.Dist.Incr (a0 :: t))
    (hvap : ∀ mm ∈ inp.cube.val, mm.length = (a0 :: t).length)
    (hfne : inp.filters ≠ [])
    (hflt : ∀ f ∈ inp.filters, ∀ g, f.entry = .band g → held g ≠ [])
    (hpos : ∀ f ∈ inp.filters, ∀ m, m < inp.cube.names.length → ∀ x ∈ entryRow env inp f.entry m, 0 < x)
    (hd : distsOf env inp ≠ [])
    (hreach : ∀ f ∈ inp.filters, ∀ d ∈ distsOf env inp, a0 ≤ f.theta * (thousandK * d)) :
    ∃ out, runPipeline3 env inp = .ok out := by
  obtain ⟨rd, hrd, hcase, hnames, hrdaps, -, hdec, hne, -, hrowsV, hrowsU, hvlen, huncs⟩ :=
    readCube_ok env.toNu inp.cube hC
  obtain ⟨u0, hu0⟩ := hunc
  obtain ⟨unc, hunc', hul⟩ := huncs u0 hu0
  have hrdc : rdCube env inp = rd := by simp [rdCube, hrd]
  -- every entry's table
  have hentry : ∀ f ∈ inp.filters,
      convEntry env.toNu rd unc (inp.table.map (·.1)) f.entry = .ok (convOf env inp f.entry) := by
    intro f hf
    have hex : ∃ c, convEntry env.toNu rd unc (inp.table.map (·.1)) f.entry = .ok c := by
      cases he : f.entry with
      | band g =>
        simp only [convEntry, rebinE_ok_of_ne _ (hflt f hf g he), convolveV2]
        have : ¬ (inp.table.map (·.1) ≠ (asMatchCube env.toNu rd unc).names) := by
          simp only [asMatchCube, hnames, htab, ne_eq, not_not]
        rw [if_neg this]
        exact ⟨_, rfl⟩
      | mono w0 =>
        obtain ⟨j, hj⟩ := (C16_nearest rd.wav w0).1 hne
        obtain ⟨wr, hwr, -, -⟩ := (C16_nearest rd.wav w0).2 j hj
        have hjl : j < rd.wav.length := (List.getElem?_eq_some_iff.mp hwr).1
        obtain ⟨fl, hfl⟩ := mapO_live (fun m => Mono.colAt m j) rd.val
          (fun mm hmm => colAt_live mm j (fun r hr => by rw [hrowsV mm hmm r hr]; exact hjl))
        obtain ⟨er, her⟩ := mapO_live (fun m => Mono.colAt m j) unc
          (fun mm hmm => colAt_live mm j (fun r hr => by rw [hrowsU unc hunc' mm hmm r hr]; exact hjl))
        simp only [convEntry, hj, hfl, her]
        exact ⟨_, rfl⟩
    obtain ⟨c, hc⟩ := hex
    rw [hc, (convEntry_ok env inp hN hS rd unc hrd hunc' _ f.entry c hc).1]
  have hconvs := mapE_of_forall (fun (f : Filt3 K) => convEntry env.toNu rd unc (inp.table.map (·.1)) f.entry)
    (fun f => convOf env inp f.entry) inp.filters hentry
  -- `Models.read`
  have hmodels : ∃ models, readModels3 inp.filters (inp.filters.map (fun f => convOf env inp f.entry)) = .ok models := by
    unfold readModels3
    obtain ⟨flast, hflast⟩ : ∃ fl, inp.filters.getLast? = some fl := by
      cases hl : inp.filters.getLast? with
      | none => exact absurd (List.getLast?_eq_none_iff.mp hl) hfne
      | some fl => exact ⟨fl, rfl⟩
    rw [List.getLast?_map, hflast]
    simp only [Option.map_some]
    have c1 : (inp.filters.map (fun f => convOf env inp f.entry)).any
        (fun c => c.flux.length ≠ (convOf env inp flast.entry).names.length) = false := by
      rw [List.any_eq_false]
      intro c hc
      obtain ⟨f, -, rfl⟩ := List.mem_map.mp hc
      simp [convOf]
    have c2 : (inp.filters.map (fun f => convOf env inp f.entry)).any fewAps = false := by
      rw [List.any_eq_false]
      intro c hc
      obtain ⟨f, -, rfl⟩ := List.mem_map.mp hc
      cases t with
      | nil => exact absurd rfl ht
      | cons a1 t' => simp [fewAps, convOf, hrdc, hrdaps, haps]
    have c3 : (inp.filters.map (fun f => convOf env inp f.entry)).any
        (fun c => c.flux.any (fun row => row.any (fun x => !(decide (0 < x))))) = false := by
      rw [List.any_eq_false]
      intro c hc
      obtain ⟨f, hf, rfl⟩ := List.mem_map.mp hc
      simp only [Bool.not_eq_true, List.any_eq_false, Bool.not_eq_eq_eq_not, Bool.not_true,
        decide_eq_false_iff_not, not_not]
      intro row hrow x hx
      simp only [convOf, List.mem_map, List.mem_range] at hrow
      obtain ⟨m, hm, rfl⟩ := hrow
      exact hpos f hf m (by rw [← hnames, ← hrdc]; exact hm) x hx
    simp only [c1, c2, c3, Bool.false_eq_true, if_false]
    exact ⟨_, rfl⟩
  obtain ⟨models, hmodels⟩ := hmodels
  obtain ⟨-, hm⟩ := readModels3_ok env inp hN rd hrd models hmodels
  subst hm
  -- aperture interpolation over the distance grid
  have hlm : ∃ lm, logFluxStage env.lg (distsOf env inp) (modelsOf3 env inp) = .ok lm := by
    unfold logFluxStage
    apply mapE_exists
    intro md hmd
    obtain ⟨m, hm, rfl⟩ := List.mem_map.mp hmd
    have hm' : m < inp.cube.names.length := List.mem_range.mp hm
    obtain ⟨l, hl⟩ := modelLogFluxes_live env.lg (cubeTabs env inp m) (distsOf env inp) a0 t hinc
      (by
        intro b hb
        obtain ⟨f, hf, rfl⟩ := List.mem_map.mp hb
        refine ⟨by simp [hrdc, hrdaps, haps], ?_⟩
        simp only
        cases he : f.entry with
        | band g => simp [entryRow, hrdc, hrdaps, haps, nApOf]
        | mono w0 =>
          obtain ⟨j, hj⟩ := (C16_nearest rd.wav w0).1 hne
          simp only [entryRow, hrdc, hj, List.length_map]
          have hmv : m < rd.val.length := by rw [hvlen, hS.1]; exact hm'
          rw [List.getD_eq_getElem?_getD, List.getElem?_eq_getElem hmv, Option.getD_some]
          rcases hcase with rfl | rfl
          · exact hvap _ (List.getElem_mem hmv)
          · have hmv' : m < inp.cube.val.length := by rw [hS.1]; exact hm'
            simp only [RT.reverseSpectralCube, List.getElem_map, List.length_map]
            exact hvap _ (List.getElem_mem hmv'))
      (by
        intro b hb d hd
        obtain ⟨f, hf, rfl⟩ := List.mem_map.mp hb
        exact hreach f hf d hd)
    exact ⟨⟨inp.cube.names.getD m "", l, []⟩, by simp only [hl]⟩
  obtain ⟨lm, hlm⟩ := hlm
  obtain ⟨hl, -⟩ := logFluxStage_ok env inp lm hlm
  subst hl
  -- every record can be listed
  have hTn : (inp.table.map (fun y => strip y.1)) = inp.cube.names := by
    have : inp.table.map (fun y => strip y.1) = (inp.table.map (·.1)).map strip := by simp [List.map_map]
    rw [this, htab]
    conv => rhs; rw [← List.map_id inp.cube.names]
    apply List.map_congr_left
    intro n hn
    simpa using (hN.2 n hn).2
  have hT : (inp.table.map (fun y => strip y.1)).Nodup := by rw [hTn]; exact hN.1
  obtain ⟨ls, hls⟩ := mapE_exists
    (fun s => liftP3 (listSource inp.table inp.selOut s (recordOf3 env inp s.2))) (fittedSources3 inp) (by
      intro s _
      obtain ⟨hnd, hsubn⟩ := kept3_names_ok env inp hN s.2
      obtain ⟨r, hr, -⟩ := C09_any_order (K := K) inp.table inp.table _ [] (List.Perm.refl _) hT hnd
        (fun X hX => by rw [hTn]; exact hsubn X hX) (by simp)
      exact ⟨_, by simp only [listSource, hr]; rfl⟩)
  refine ⟨{ conv := inp.filters.map (fun f => convOf env inp f.entry), dists := distsOf env inp,
            models := lmodelsOf3 env inp,
            fits := (fittedSources3 inp).map (fun s => recordOf3 env inp s.2), listings := ls }, ?_⟩
  unfold runPipeline3
  simp only [hrd, hunc', hconvs, hmodels, hlm, ksOf3_convOf, if_neg hd]
  change (match mapE (fun s => liftP3 (listSource inp.table inp.selOut s (recordOf3 env inp s.2)))
    (fittedSources3 inp) with | .error e => _ | .ok ls => _) = _
  rw [hls]
  rfl

/-! ## the stored spectral order does not matter -/

theorem reverse_of_length_le_one {α : Type} (l : List α) (h : l.length ≤ 1) : l.reverse = l := by
  match l, h with
  | [], _ => rfl
  | [x], _ => rfl

theorem length_le_one_of_inc_dec (l : List K) (h1 : l.Pairwise (· < ·)) (h2 : l.Pairwise (· > ·)) :
    l.length ≤ 1 := by
  match l, h1, h2 with
  | [], _, _ => simp
  | [x], _, _ => simp
  | x :: y :: t, h1, h2 =>
    have a := (List.pairwise_cons.mp h1).1 y (by simp)
    have b := (List.pairwise_cons.mp h2).1 y (by simp)
    exact absurd a (not_lt.mpr (le_of_lt b))

theorem cubeOK_reverse (toNu : K → K) (c : RT.Cube K) (hc : RT.CubeOK toNu c) :
    RT.CubeOK toNu (RT.reverseSpectralCube c) := by
  refine ⟨by simpa [RT.reverseSpectralCube] using hc.ne, ?_, ?_, ?_, ?_⟩
  · rcases hc.mono with h | h
    · right; simpa [RT.reverseSpectralCube, List.pairwise_reverse] using h
    · left; simpa [RT.reverseSpectralCube, List.pairwise_reverse] using h
  · intro x hx y hy hxy
    exact hc.anti x (by simpa [RT.reverseSpectralCube] using hx) y (by simpa [RT.reverseSpectralCube] using hy) hxy
  · intro mm hmm row hrow
    simp only [RT.reverseSpectralCube, List.mem_map] at hmm
    obtain ⟨mm0, hmm0, rfl⟩ := hmm
    obtain ⟨row0, hrow0, rfl⟩ := List.mem_map.mp hrow
    simp [RT.reverseSpectralCube, hc.rowsV mm0 hmm0 row0 hrow0]
  · intro u hu mm hmm row hrow
    simp only [RT.reverseSpectralCube, Option.map_eq_some_iff] at hu
    obtain ⟨u0, hu0, rfl⟩ := hu
    obtain ⟨mm0, hmm0, rfl⟩ := List.mem_map.mp hmm
    obtain ⟨row0, hrow0, rfl⟩ := List.mem_map.mp hrow
    simp [RT.reverseSpectralCube, hc.rowsU u0 hu0 mm0 hmm0 row0 hrow0]

theorem reverseCube_of_single (toNu : K → K) (c : RT.Cube K) (hc : RT.CubeOK toNu c) (h1 : c.wav.length ≤ 1) :
    RT.reverseSpectralCube c = c := by
  have hv : c.val.map (fun m => m.map List.reverse) = c.val := by
    conv => rhs; rw [← List.map_id c.val]
    apply List.map_congr_left
    intro mm hmm
    conv => rhs; rw [id, ← List.map_id mm]
    apply List.map_congr_left
    intro row hrow
    exact reverse_of_length_le_one row (by rw [hc.rowsV mm hmm row hrow]; exact h1)
  have hu : c.unc.map (fun u => u.map (fun m => m.map List.reverse)) = c.unc := by
    cases hcu : c.unc with
    | none => rfl
    | some u =>
      simp only [Option.map_some, Option.some.injEq]
      conv => rhs; rw [← List.map_id u]
      apply List.map_congr_left
      intro mm hmm
      conv => rhs; rw [id, ← List.map_id mm]
      apply List.map_congr_left
      intro row hrow
      exact reverse_of_length_le_one row (by rw [hc.rowsU u hcu mm hmm row hrow]; exact h1)
  cases c with
  | mk names wav aps val unc =>
    simp only [RT.reverseSpectralCube] at hv hu ⊢
    rw [hv, hu, reverse_of_length_le_one wav h1]

/-- both stored spectral orders of a cube are read back as the same object -/
theorem readCube_reverse (toNu : K → K) (c : RT.Cube K) (hc : RT.CubeOK toNu c) :
    readCube toNu (RT.reverseSpectralCube c) = readCube toNu c := by
  obtain ⟨r1, h1, c1, -, -, -, d1, -⟩ := readCube_ok toNu c hc
  obtain ⟨r2, h2, c2, -, -, -, d2, -⟩ := readCube_ok toNu _ (cubeOK_reverse toNu c hc)
  rw [h1, h2]
  rw [RT.reverseSpectralCube_invol] at c2
  have single : c.wav.Pairwise (· > ·) → (RT.reverseSpectralCube c).wav.Pairwise (· > ·) →
      RT.reverseSpectralCube c = c := by
    intro hd hr
    have hi : c.wav.Pairwise (· < ·) := by
      simpa [RT.reverseSpectralCube, List.pairwise_reverse] using hr
    exact reverseCube_of_single toNu c hc (length_le_one_of_inc_dec c.wav hi hd)
  rcases c1 with rfl | rfl <;> rcases c2 with rfl | e2
  · rw [single d1 d2]
  · rw [e2]
  · rfl
  · rw [e2] at d2
    rw [e2, single d2 d1]

end SF.Pipe3
