import SedVerif.Model.Match
/-!
# Helper lemmas for C07 / C09 (core Lean only)

`argsort(a)[argsort(argsort(ref))]` reorders `a` into `ref`; facts about `gather?`; the order on
names is a linear order.
-/
namespace SF.Match

/-! ## `gather?` -/

theorem gather?_length {α : Type} (a : List α) : ∀ (idx : List Nat) (r : List α),
    gather? a idx = some r → r.length = idx.length
  | [], r, h => by simp [gather?] at h; subst h; rfl
  | i :: is, r, h => by
    simp only [gather?] at h
    split at h
    · rename_i x xs hx hxs
      simp only [Option.some.injEq] at h; subst h
      simp [gather?_length a is xs hxs]
    · simp at h

/-- element `k` of `a[idx]` is `a[idx[k]]` -/
theorem gather?_getElem? {α : Type} (a : List α) : ∀ (idx : List Nat) (r : List α),
    gather? a idx = some r → ∀ k (hk : k < idx.length), r[k]? = a[idx[k]]? ∧ (a[idx[k]]?).isSome
  | [], r, h, k, hk => by simp at hk
  | i :: is, r, h, k, hk => by
    simp only [gather?] at h
    split at h
    · rename_i x xs hx hxs
      simp only [Option.some.injEq] at h; subst h
      cases k with
      | zero => simp [hx]
      | succ k =>
        have := gather?_getElem? a is xs hxs k (by simpa using hk)
        simpa using this
    · simp at h

theorem gather?_eq_map_getD {α : Type} (a : List α) (d : α) : ∀ (idx : List Nat),
    (∀ i ∈ idx, i < a.length) → gather? a idx = some (idx.map (fun i => a.getD i d))
  | [], _ => rfl
  | i :: is, h => by
    have hi : i < a.length := h i (by simp)
    have ih := gather?_eq_map_getD a d is (fun j hj => h j (by simp [hj]))
    simp [gather?, ih, List.getElem?_eq_getElem hi, List.getD_eq_getElem?_getD]

theorem gather?_isSome {α : Type} (a : List α) : ∀ (idx : List Nat),
    (∀ i ∈ idx, i < a.length) → ∃ r, gather? a idx = some r
  | [], _ => ⟨[], rfl⟩
  | i :: is, h => by
    have hi : i < a.length := h i (by simp)
    obtain ⟨r, hr⟩ := gather?_isSome a is (fun j hj => h j (by simp [hj]))
    exact ⟨a[i] :: r, by simp [gather?, hr, List.getElem?_eq_getElem hi]⟩

/-- indices that could be gathered are in range -/
theorem gather?_lt {α : Type} (a : List α) (idx : List Nat) (r : List α)
    (h : gather? a idx = some r) : ∀ i ∈ idx, i < a.length := by
  intro i hi
  obtain ⟨k, hk, rfl⟩ := List.getElem_of_mem hi
  have := (gather?_getElem? a idx r h k hk).2
  rcases hlt : a[idx[k]]? with _ | x
  · simp [hlt] at this
  · exact (List.getElem?_eq_some_iff.mp hlt).1

/-- fancy indexing commutes with an element-wise map (parallel arrays stay aligned) -/
theorem gather?_map {α β : Type} (f : α → β) (a : List α) : ∀ (idx : List Nat),
    gather? (a.map f) idx = (gather? a idx).map (List.map f)
  | [] => rfl
  | i :: is => by
    simp only [gather?, gather?_map f a is, List.getElem?_map]
    cases a[i]? <;> cases gather? a is <;> simp

/-! ## `argsort` -/

section argsort
variable {β : Type} (le : β → β → Bool)
  (htrans : ∀ a b c : β, le a b = true → le b c = true → le a c = true)
  (htotal : ∀ a b : β, (le a b || le b a) = true)
  (hanti : ∀ a b : β, le a b = true → le b a = true → a = b)

include htrans htotal in
theorem argsortBy_perm_sorted (key : Nat → β) (n : Nat) :
    (argsortBy le key n).Perm (List.range n) ∧
    ((argsortBy le key n).map key).Pairwise (fun a b => le a b = true) := by
  refine ⟨List.mergeSort_perm _ _, ?_⟩
  rw [List.pairwise_map]
  unfold argsortBy
  exact List.pairwise_mergeSort (le := fun i j => le (key i) (key j))
    (fun a b c => htrans _ _ _) (fun a b => htotal _ _) _

theorem argsortBy_perm (key : Nat → β) (n : Nat) : (argsortBy le key n).Perm (List.range n) :=
  List.mergeSort_perm _ _

theorem argsortBy_length (key : Nat → β) (n : Nat) : (argsortBy le key n).length = n := by
  simpa using (argsortBy_perm le key n).length_eq

theorem mem_lt_of_perm_range {l : List Nat} {n : Nat} (h : l.Perm (List.range n)) {x : Nat}
    (hx : x ∈ l) : x < n :=
  List.mem_range.mp (h.mem_iff.mp hx)

theorem natLe_trans (a b c : Nat) (h1 : natLe a b = true) (h2 : natLe b c = true) :
    natLe a c = true := by simp [natLe] at *; omega

theorem natLe_total (a b : Nat) : (natLe a b || natLe b a) = true := by simp [natLe]; omega

/-- argsort of a permutation of `range n` is its inverse -/
theorem argsort_perm_inverse (ρ : List Nat) (n : Nat) (hρ : ρ.Perm (List.range n)) (i : Nat)
    (hi : i < n) :
    ρ.getD ((argsortBy natLe (fun j => ρ.getD j 0) n).getD i 0) 0 = i := by
  have hlen : ρ.length = n := by simpa using hρ.length_eq
  obtain ⟨hp, hs⟩ := argsortBy_perm_sorted natLe natLe_trans natLe_total (fun j => ρ.getD j 0) n
  generalize argsortBy natLe (fun j => ρ.getD j 0) n = τ at hp hs ⊢
  have hmapρ : (List.range n).map (fun j => ρ.getD j 0) = ρ := by
    apply List.ext_getElem
    · simp [hlen]
    · intro k h1 h2; simp at h1
      simp [List.getD_eq_getElem?_getD, List.getElem?_eq_getElem (by omega : k < ρ.length)]
  have ht_perm : (τ.map (fun j => ρ.getD j 0)).Perm (List.range n) := by
    have := hp.map (fun j => ρ.getD j 0)
    rw [hmapρ] at this
    exact this.trans hρ
  have hrange_sorted : (List.range n).Pairwise (fun a b => natLe a b = true) := by
    have := List.pairwise_lt_range (n := n)
    exact this.imp (fun h => by simp [natLe]; omega)
  have hteq : τ.map (fun j => ρ.getD j 0) = List.range n :=
    ht_perm.eq_of_pairwise (fun a b _ _ h1 h2 => by simp [natLe] at h1 h2; omega) hs hrange_sorted
  have hτlen : τ.length = n := by simpa using hp.length_eq
  have := congrArg (fun l => l.getD i 0) hteq
  simp only [List.getD_eq_getElem?_getD, List.getElem?_map] at this ⊢
  rw [List.getElem?_eq_getElem (by omega : i < τ.length)] at this ⊢
  simpa [List.getElem?_range hi] using this

include htrans htotal hanti in
/-- `order_to_match`: `a[argsort a][argsort (argsort ref)] = ref` for key lists with equal multisets -/
theorem orderToMatch_spec (keyA keyR : Nat → β) (n : Nat)
    (hperm : ((List.range n).map keyA).Perm ((List.range n).map keyR)) (i : Nat) (hi : i < n) :
    let σ := argsortBy le keyA n
    let ρ := argsortBy le keyR n
    let τ := argsortBy natLe (fun j => ρ.getD j 0) n
    keyA (σ.getD (τ.getD i 0) 0) = keyR i := by
  intro σ ρ τ
  obtain ⟨hσp, hσs⟩ := argsortBy_perm_sorted le htrans htotal keyA n
  obtain ⟨hρp, hρs⟩ := argsortBy_perm_sorted le htrans htotal keyR n
  have hss : σ.map keyA = ρ.map keyR :=
    ((hσp.map keyA).trans (hperm.trans (hρp.map keyR).symm)).eq_of_pairwise
      (fun a b _ _ h1 h2 => hanti a b h1 h2) hσs hρs
  have hinv : ρ.getD (τ.getD i 0) 0 = i := argsort_perm_inverse ρ n hρp i hi
  have hτp : τ.Perm (List.range n) := List.mergeSort_perm _ _
  have hσlen : σ.length = n := by simpa using hσp.length_eq
  have hρlen : ρ.length = n := by simpa using hρp.length_eq
  have hτlen : τ.length = n := by simpa using hτp.length_eq
  have hk : τ.getD i 0 < n := by
    apply mem_lt_of_perm_range hτp
    rw [List.getD_eq_getElem?_getD, List.getElem?_eq_getElem (by omega : i < τ.length)]
    simp
  generalize τ.getD i 0 = k at hk hinv ⊢
  have h1 := congrArg (fun l => l[k]?) hss
  simp only [List.getElem?_map] at h1
  rw [List.getElem?_eq_getElem (by omega : k < σ.length),
    List.getElem?_eq_getElem (by omega : k < ρ.length)] at h1
  simp only [Option.map_some, Option.some.injEq] at h1
  have e1 : σ.getD k 0 = σ[k]'(by omega) := by
    simp [List.getD_eq_getElem?_getD, List.getElem?_eq_getElem (by omega : k < σ.length)]
  have e2 : ρ.getD k 0 = ρ[k]'(by omega) := by
    simp [List.getD_eq_getElem?_getD, List.getElem?_eq_getElem (by omega : k < ρ.length)]
  rw [e1, h1, ← e2, hinv]

end argsort

/-! ## the order on names -/

theorem strLe_trans (a b c : String) (h1 : strLe a b = true) (h2 : strLe b c = true) :
    strLe a c = true := by
  simp only [strLe, decide_eq_true_eq] at *; exact String.le_trans h1 h2

theorem strLe_total (a b : String) : (strLe a b || strLe b a) = true := by
  simp only [strLe, Bool.or_eq_true, decide_eq_true_eq]; exact String.le_total a b

theorem strLe_antisymm (a b : String) (h1 : strLe a b = true) (h2 : strLe b a = true) : a = b := by
  simp only [strLe, decide_eq_true_eq] at *; exact String.le_antisymm h1 h2

theorem map_getD_range {α : Type} (l : List α) (d : α) :
    (List.range l.length).map (fun i => l.getD i d) = l := by
  apply List.ext_getElem
  · simp
  · intro k h1 h2
    simp [List.getD_eq_getElem?_getD, List.getElem?_eq_getElem h2]

/-- the rank list `argsort(argsort(ref))` is a permutation of `range ref.length` -/
theorem rank_perm (ref : List String) :
    (argsortNat (argsortStr ref)).Perm (List.range ref.length) := by
  unfold argsortNat
  have : (argsortStr ref).length = ref.length := argsortBy_length _ _ _
  rw [this]
  exact argsortBy_perm _ _ _

/-- `order_to_match(a, ref)` when `a` is a rearrangement of `ref`: the order exists, stays inside
    `a`, and `a[order] = ref` -/
theorem orderToMatch_of_perm (a ref : List String) (hperm : a.Perm ref) :
    ∃ order, orderToMatch a ref = some order ∧ order.length = ref.length ∧
      (∀ i ∈ order, i < a.length) ∧ gather? a order = some ref := by
  have hlen : ref.length = a.length := hperm.length_eq.symm
  have hσp : (argsortStr a).Perm (List.range a.length) := argsortBy_perm _ _ _
  have hσlen : (argsortStr a).length = a.length := argsortBy_length _ _ _
  have hτp : (argsortNat (argsortStr ref)).Perm (List.range a.length) := hlen ▸ rank_perm ref
  have hτlen : (argsortNat (argsortStr ref)).length = a.length := by simpa using hτp.length_eq
  have hτlt : ∀ t ∈ argsortNat (argsortStr ref), t < (argsortStr a).length := fun t ht => by
    rw [hσlen]; exact mem_lt_of_perm_range hτp ht
  have hord := gather?_eq_map_getD (argsortStr a) 0 _ hτlt
  refine ⟨_, hord, by simp [hτlen, hlen], ?_, ?_⟩
  · intro i hi
    obtain ⟨t, ht, rfl⟩ := List.mem_map.mp hi
    have htlt := hτlt t ht
    apply mem_lt_of_perm_range hσp
    rw [List.getD_eq_getElem?_getD, List.getElem?_eq_getElem htlt]
    simp
  · have hin : ∀ i ∈ (argsortNat (argsortStr ref)).map (fun i => (argsortStr a).getD i 0),
        i < a.length := by
      intro i hi
      obtain ⟨t, ht, rfl⟩ := List.mem_map.mp hi
      have htlt := hτlt t ht
      apply mem_lt_of_perm_range hσp
      rw [List.getD_eq_getElem?_getD, List.getElem?_eq_getElem htlt]
      simp
    rw [gather?_eq_map_getD a "" _ hin]
    congr 1
    apply List.ext_getElem
    · simp [hτlen, hlen]
    · intro i h1 h2
      have hi : i < a.length := by simpa [hτlen] using h1
      have hperm' : ((List.range a.length).map (fun i => a.getD i "")).Perm
          ((List.range a.length).map (fun i => ref.getD i "")) := by
        rw [map_getD_range a ""]
        have := map_getD_range ref ""
        rw [hlen] at this
        rw [this]; exact hperm
      have hspec := orderToMatch_spec strLe strLe_trans strLe_total strLe_antisymm
        (fun i => a.getD i "") (fun i => ref.getD i "") a.length hperm' i hi
      simp only at hspec
      have e1 : argsortBy strLe (fun i => ref.getD i "") a.length = argsortStr ref := by
        unfold argsortStr; rw [hlen]
      have e2 : argsortBy natLe (fun j => (argsortStr ref).getD j 0) a.length
          = argsortNat (argsortStr ref) := by
        unfold argsortNat
        have : (argsortStr ref).length = a.length := by
          rw [← hlen]; exact argsortBy_length _ _ _
        rw [this]
      have e3 : argsortBy strLe (fun i => a.getD i "") a.length = argsortStr a := rfl
      rw [e1, e2, e3] at hspec
      simp only [List.getElem_map]
      have e4 : (argsortNat (argsortStr ref)).getD i 0 = (argsortNat (argsortStr ref))[i]'(by omega) := by
        simp [List.getD_eq_getElem?_getD, List.getElem?_eq_getElem (by omega : i < (argsortNat (argsortStr ref)).length)]
      rw [e4] at hspec
      rw [hspec]
      simp [List.getD_eq_getElem?_getD, List.getElem?_eq_getElem h2]

/-- names of at most 30 characters are unchanged by the `S30` / `U30` storage -/
theorem take30_of_length_le (s : String) (h : s.length ≤ 30) : take30 s = s := by
  unfold take30
  rw [List.take_of_length_le (by rw [String.length_toList]; exact h)]
  exact String.ofList_toList

/-! ## `sort_to_match` -/

variable {K F S V : Type}

/-- what a successful `sort_to_match` did -/
theorem sortToMatch_ok (c c' : Conv K F) (req : List String) (h : sortToMatch c req = .ok c') :
    ∃ order fl er, orderToMatch c.names (req.map strip) = some order ∧
      gather? c.names order = some (req.map strip) ∧ gather? c.flux order = some fl ∧
      gather? c.error order = some er ∧
      c' = { c with names := req.map strip, flux := fl, error := er } := by
  unfold sortToMatch at h
  simp only at h
  split at h
  · simp at h
  · rename_i order horder
    split at h
    · rename_i nm fl er hnm hfl her
      split at h
      · rename_i heq
        subst heq
        simp only [Except.ok.injEq] at h
        exact ⟨order, fl, er, horder, hnm, hfl, her, h.symm⟩
      · simp at h
    · simp at h

/-- rows that are a function of their label stay so under `sort_to_match` -/
theorem sortToMatch_labelled (c c' : Conv K F) (req : List String) (g1 g2 : String → F)
    (h : sortToMatch c req = .ok c')
    (hf : c.flux = c.names.map g1) (he : c.error = c.names.map g2) :
    c'.flux = c'.names.map g1 ∧ c'.error = c'.names.map g2 := by
  obtain ⟨order, fl, er, -, hnm, hfl, her, rfl⟩ := sortToMatch_ok c c' req h
  rw [hf, gather?_map, hnm] at hfl
  rw [he, gather?_map, hnm] at her
  simp only [Option.map_some, Option.some.injEq] at hfl her
  exact ⟨hfl.symm, her.symm⟩

/-- reading the row labelled `X` from a file whose rows are a function of their label -/
theorem lookupRow_map (X : String) (g1 g2 : String → F) : ∀ names : List String,
    lookupRow X names (names.map g1) (names.map g2) = if X ∈ names then some (g1 X, g2 X) else none
  | [] => by simp [lookupRow]
  | n :: ns => by
    simp only [List.map_cons, lookupRow, lookupRow_map X g1 g2 ns, List.mem_cons]
    by_cases h : n = X
    · subst h; simp
    · have : ¬ X = n := fun e => h e.symm
      simp [h, this]

/-- assembling the `(n_models, n_ap)` array from per-aperture columns gives, row by row, the
    per-model values -/
theorem fromCols_eq [Zero K] {A : Type} (h : A → Nat → K) (seds : List A) (nAp : Nat) :
    fromCols seds.length nAp ((List.range nAp).map (fun ia => seds.map (fun s => h s ia)))
      = seds.map (fun s => (List.range nAp).map (fun ia => h s ia)) := by
  unfold fromCols
  apply List.ext_getElem
  · simp
  · intro m h1 h2
    simp only [List.length_map, List.length_range] at h1
    simp only [List.getElem_map, List.getElem_range]
    apply List.map_congr_left
    intro ia hia
    have hia' : ia < nAp := List.mem_range.mp hia
    simp [List.getD_eq_getElem?_getD, List.getElem?_range hia', List.getElem?_eq_getElem h1]

/-! ## `filter_table` -/

theorem gather?_mem {α : Type} (a : List α) (idx : List Nat) (r : List α)
    (h : gather? a idx = some r) : ∀ x ∈ r, x ∈ a := by
  intro x hx
  obtain ⟨k, hk, rfl⟩ := List.getElem_of_mem hx
  have hk' : k < idx.length := by rw [← gather?_length a idx r h]; exact hk
  have := (gather?_getElem? a idx r h k hk').1
  rw [List.getElem?_eq_getElem hk] at this
  exact List.mem_iff_getElem?.mpr ⟨_, this.symm⟩

/-- indexing a name-sorted rearrangement of `mn` by the rank list `argsort(argsort(mn))` gives `mn` -/
theorem rank_gather_sorted (mn subN : List String)
    (hs : subN.Pairwise (fun a b => strLe a b = true)) (hp : subN.Perm mn) :
    gather? subN (argsortNat (argsortStr mn)) = some mn := by
  have hlen : subN.length = mn.length := hp.length_eq
  obtain ⟨hρp, hρs⟩ := argsortBy_perm_sorted strLe strLe_trans strLe_total
    (fun i => mn.getD i "") mn.length
  have hρlen : (argsortStr mn).length = mn.length := argsortBy_length _ _ _
  have hτp := rank_perm mn
  have hτlen : (argsortNat (argsortStr mn)).length = mn.length := by simpa using hτp.length_eq
  -- the sorted names are `mn[ρ[k]]`
  have hsub : subN = (argsortStr mn).map (fun i => mn.getD i "") := by
    have hperm2 : ((argsortStr mn).map (fun i => mn.getD i "")).Perm mn := by
      have := hρp.map (fun i => mn.getD i "")
      rw [map_getD_range] at this
      exact this
    exact (hp.trans hperm2.symm).eq_of_pairwise (fun a b _ _ h1 h2 => strLe_antisymm a b h1 h2) hs hρs
  have hlt : ∀ t ∈ argsortNat (argsortStr mn), t < subN.length := fun t ht => by
    rw [hlen]; exact mem_lt_of_perm_range hτp ht
  rw [gather?_eq_map_getD subN "" _ hlt]
  congr 1
  apply List.ext_getElem
  · simp [hτlen]
  · intro i h1 h2
    have hi : i < mn.length := h2
    have hinv := argsort_perm_inverse (argsortStr mn) mn.length hρp i hi
    have e2 : argsortBy natLe (fun j => (argsortStr mn).getD j 0) mn.length
        = argsortNat (argsortStr mn) := by unfold argsortNat; rw [hρlen]
    rw [e2] at hinv
    have hti : i < (argsortNat (argsortStr mn)).length := by omega
    have e4 : (argsortNat (argsortStr mn)).getD i 0 = (argsortNat (argsortStr mn))[i] := by
      simp [List.getD_eq_getElem?_getD, List.getElem?_eq_getElem hti]
    rw [e4] at hinv
    have htlt : (argsortNat (argsortStr mn))[i] < (argsortStr mn).length := by
      rw [hρlen]; exact mem_lt_of_perm_range hτp (List.getElem_mem _)
    simp only [List.getElem_map]
    have hget : subN.getD (argsortNat (argsortStr mn))[i] ""
        = ((argsortStr mn).map (fun i => mn.getD i "")).getD (argsortNat (argsortStr mn))[i] "" :=
      congrArg (fun (l : List String) => l.getD (argsortNat (argsortStr mn))[i] "") hsub
    rw [hget]
    simp only [List.getD_eq_getElem?_getD, List.getElem?_map, List.getElem?_eq_getElem htlt,
      Option.map_some, Option.getD_some]
    simp only [List.getD_eq_getElem?_getD, List.getElem?_eq_getElem htlt, Option.getD_some] at hinv
    rw [hinv]
    simp [List.getElem?_eq_getElem hi]

/-- what a successful `filter_table` did -/
theorem filterTable_ok (table : List (String × V)) (mn : List String) (r : List (String × V))
    (h : filterTable table mn = .ok r) :
    gather? (table.filter (fun x => mn.contains x.1)) (argsortNat (argsortStr mn)) = some r ∧
      mn = r.map (·.1) := by
  unfold filterTable at h
  simp only at h
  split at h
  · simp at h
  · rename_i sorted hs
    split at h
    · rename_i heq
      simp only [Except.ok.injEq] at h
      subst h
      exact ⟨hs, heq⟩
    · simp at h

/-- in a table with distinct names a row is determined by its name -/
theorem eq_of_fst_eq_of_nodup : ∀ (l : List (String × V)), (l.map (·.1)).Nodup →
    ∀ a ∈ l, ∀ b ∈ l, a.1 = b.1 → a = b
  | [], _, a, ha, _, _, _ => by simp at ha
  | x :: xs, hnd, a, ha, b, hb, hab => by
    simp only [List.map_cons, List.nodup_cons, List.mem_map, not_exists, not_and] at hnd
    rcases List.mem_cons.mp ha with rfl | ha'
    · rcases List.mem_cons.mp hb with rfl | hb'
      · rfl
      · exact absurd hab.symm (hnd.1 b hb')
    · rcases List.mem_cons.mp hb with rfl | hb'
      · exact absurd hab (hnd.1 a ha')
      · exact eq_of_fst_eq_of_nodup xs hnd.2 a ha' b hb' hab

theorem extras_spec (addl : List (List (String × K))) (name : String) : ∀ (vs : List K),
    extras addl name = some vs ↔ addl.map (fun d => d.lookup (strip name)) = vs.map some := by
  induction addl with
  | nil => intro vs; cases vs <;> simp [extras]
  | cons d ds ih =>
    intro vs
    simp only [extras, List.map_cons]
    cases hd : d.lookup (strip name) with
    | none => cases vs <;> simp
    | some v =>
      cases he : extras ds name with
      | none =>
        cases vs with
        | nil => simp
        | cons w ws =>
          have := mt (ih ws).mpr (by simp [he])
          simp [this]
      | some us =>
        have hus := (ih us).mp he
        cases vs with
        | nil => simp
        | cons w ws =>
          simp only [Option.some.injEq, List.cons.injEq, List.map_cons]
          constructor
          · rintro ⟨rfl, rfl⟩; exact ⟨rfl, hus⟩
          · rintro ⟨rfl, h2⟩
            refine ⟨rfl, ?_⟩
            have := (ih ws).mpr h2
            rw [he] at this
            exact Option.some.inj this

theorem attach_spec (addl : List (List (String × K))) : ∀ (rows : List (String × V))
    (t : List (String × V × List K)), attach addl rows = some t →
    t.map (fun x => (x.1, x.2.1)) = rows ∧ ∀ x ∈ t, extras addl x.1 = some x.2.2
  | [], t, h => by simp [attach] at h; subst h; simp
  | r :: rs, t, h => by
    simp only [attach] at h
    split at h
    · rename_i e t' he ht'
      simp only [Option.some.injEq] at h; subst h
      obtain ⟨h1, h2⟩ := attach_spec addl rs t' ht'
      refine ⟨by simp [h1], ?_⟩
      intro x hx
      rcases List.mem_cons.mp hx with rfl | hx'
      · exact he
      · exact h2 x hx'
    · simp at h

theorem attach_isSome (addl : List (List (String × K))) : ∀ (rows : List (String × V)),
    (∀ x ∈ rows, ∃ e, extras addl x.1 = some e) → ∃ t, attach addl rows = some t
  | [], _ => ⟨[], rfl⟩
  | r :: rs, h => by
    obtain ⟨e, he⟩ := h r (by simp)
    obtain ⟨t, ht⟩ := attach_isSome addl rs (fun x hx => h x (by simp [hx]))
    exact ⟨(r.1, r.2, e) :: t, by simp [attach, he, ht]⟩

theorem extras_isSome (addl : List (List (String × K))) (name : String)
    (h : ∀ d ∈ addl, ∃ v, d.lookup (strip name) = some v) : ∃ e, extras addl name = some e := by
  induction addl with
  | nil => exact ⟨[], rfl⟩
  | cons d ds ih =>
    obtain ⟨v, hv⟩ := h d (by simp)
    obtain ⟨e, he⟩ := ih (fun d' hd' => h d' (by simp [hd']))
    exact ⟨v :: e, by simp [extras, hv, he]⟩

/-! ## the `additional` loop, parameter by parameter -/

theorem fillCol_spec (d : List (String × K)) : ∀ (rows rows' : List (String × V × List K)),
    fillCol d rows = some rows' →
    rows'.map (fun x => (x.1, x.2.1)) = rows.map (fun x => (x.1, x.2.1)) ∧
    ∀ x' ∈ rows', ∃ x ∈ rows, x'.1 = x.1 ∧ ∃ v, d.lookup (strip x.1) = some v ∧ x'.2.2 = x.2.2 ++ [v]
  | [], rows', h => by simp [fillCol] at h; subst h; simp
  | r :: rs, rows', h => by
    simp only [fillCol] at h
    split at h
    · rename_i v t hv ht
      simp only [Option.some.injEq] at h; subst h
      obtain ⟨h1, h2⟩ := fillCol_spec d rs t ht
      refine ⟨by simp [h1], ?_⟩
      intro x' hx'
      rcases List.mem_cons.mp hx' with rfl | hx''
      · exact ⟨r, by simp, rfl, v, hv, rfl⟩
      · obtain ⟨x, hx, rest⟩ := h2 x' hx''
        exact ⟨x, List.mem_cons_of_mem _ hx, rest⟩
    · simp at h

/-- invariant of the loop: if every row carries the values of the dictionaries `done` (looked up by
    its stripped name), then after the loop every row carries those of `done` and of all remaining
    dictionaries; names and table values are untouched -/
theorem attachCols_spec : ∀ (addl : List (String × List (String × K))) (cols : List String)
    (rows r : List (String × V × List K)) (done : List (List (String × K))),
    attachCols cols addl rows = .ok r →
    (∀ x ∈ rows, done.map (fun d => d.lookup (strip x.1)) = x.2.2.map some) →
    r.map (fun x => (x.1, x.2.1)) = rows.map (fun x => (x.1, x.2.1)) ∧
    ∀ x ∈ r, (done ++ addl.map (·.2)).map (fun d => d.lookup (strip x.1)) = x.2.2.map some
  | [], cols, rows, r, done, h, hinv => by
    simp only [attachCols, Except.ok.injEq] at h; subst h
    exact ⟨rfl, by simpa using hinv⟩
  | (key, d) :: rest, cols, rows, r, done, h, hinv => by
    simp only [attachCols] at h
    split at h
    · simp at h
    · split at h
      · simp at h
      · rename_i rows' hf
        obtain ⟨f1, f2⟩ := fillCol_spec d rows rows' hf
        have hinv' : ∀ x ∈ rows', (done ++ [d]).map (fun d => d.lookup (strip x.1)) = x.2.2.map some := by
          intro x' hx'
          obtain ⟨x, hx, hn, v, hv, he⟩ := f2 x' hx'
          rw [he, hn]
          simp [hinv x hx, hv]
        obtain ⟨g1, g2⟩ := attachCols_spec rest (cols ++ [key]) rows' r (done ++ [d]) h hinv'
        refine ⟨g1.trans f1, ?_⟩
        intro x hx
        have := g2 x hx
        simpa [List.append_assoc] using this

theorem fillCol_isSome (d : List (String × K)) : ∀ (rows : List (String × V × List K)),
    (∀ x ∈ rows, ∃ v, d.lookup (strip x.1) = some v) → ∃ rows', fillCol d rows = some rows'
  | [], _ => ⟨[], rfl⟩
  | r :: rs, h => by
    obtain ⟨v, hv⟩ := h r (by simp)
    obtain ⟨t, ht⟩ := fillCol_isSome d rs (fun x hx => h x (by simp [hx]))
    exact ⟨(r.1, r.2.1, r.2.2 ++ [v]) :: t, by simp [fillCol, hv, ht]⟩

/-- the loop goes through when no parameter name is taken (by a table column or an earlier
    parameter) and every dictionary has every row's stripped name -/
theorem attachCols_isSome : ∀ (addl : List (String × List (String × K))) (cols : List String)
    (rows : List (String × V × List K)),
    (∀ kd ∈ addl, kd.1 ∉ cols) → (addl.map (·.1)).Nodup →
    (∀ kd ∈ addl, ∀ n ∈ rows.map (·.1), ∃ v, kd.2.lookup (strip n) = some v) →
    ∃ r, attachCols cols addl rows = .ok r
  | [], _, rows, _, _, _ => ⟨rows, rfl⟩
  | (key, d) :: rest, cols, rows, hc, hnd, hcov => by
    have hk : key ∉ cols := hc (key, d) (by simp)
    obtain ⟨rows', hf⟩ := fillCol_isSome d rows (fun x hx =>
      hcov (key, d) (by simp) x.1 (List.mem_map.mpr ⟨x, hx, rfl⟩))
    have hnames : rows'.map (·.1) = rows.map (·.1) := by
      have := congrArg (List.map Prod.fst) (fillCol_spec d rows rows' hf).1
      simpa [List.map_map, Function.comp_def] using this
    simp only [List.map_cons, List.nodup_cons, List.mem_map, not_exists, not_and] at hnd
    obtain ⟨r, hr⟩ := attachCols_isSome rest (cols ++ [key]) rows'
      (fun kd hkd => by
        intro hmem
        rcases List.mem_append.mp hmem with h1 | h1
        · exact hc kd (by simp [hkd]) h1
        · simp only [List.mem_singleton] at h1
          exact hnd.1 kd hkd h1)
      hnd.2
      (fun kd hkd n hn => hcov kd (by simp [hkd]) n (hnames ▸ hn))
    refine ⟨r, ?_⟩
    simp [attachCols, hk, hf, hr]

/-! ## the strip + sort-by-name step -/

theorem prepTable_perm (rows : List (String × V)) :
    (prepTable rows).Perm (rows.map (fun r => (strip r.1, r.2))) :=
  List.mergeSort_perm _ _

theorem prepTable_sorted (rows : List (String × V)) :
    ((prepTable rows).map (·.1)).Pairwise (fun a b => strLe a b = true) := by
  rw [List.pairwise_map]
  exact List.pairwise_mergeSort (le := fun (a b : String × V) => strLe a.1 b.1)
    (fun a b c => strLe_trans _ _ _) (fun a b => strLe_total _ _) _

theorem prepTable_names_perm (rows : List (String × V)) :
    ((prepTable rows).map (·.1)).Perm (rows.map (fun r => strip r.1)) := by
  have := (prepTable_perm rows).map (·.1)
  simpa [List.map_map, Function.comp_def] using this

/-- any two row orders of the same parameter file give the same prepared table, when the stripped
    names are distinct -/
theorem prepTable_eq_of_perm (rows rows' : List (String × V)) (hperm : rows.Perm rows')
    (hnd : (rows.map (fun r => strip r.1)).Nodup) : prepTable rows = prepTable rows' := by
  have hp1 : (prepTable rows).Perm (rows.map (fun r => (strip r.1, r.2))) := prepTable_perm rows
  have hp2 : (prepTable rows').Perm (rows'.map (fun r => (strip r.1, r.2))) := prepTable_perm rows'
  have hp3 : (rows.map (fun r => (strip r.1, r.2))).Perm (rows'.map (fun r => (strip r.1, r.2))) :=
    hperm.map _
  have hp : (prepTable rows).Perm (prepTable rows') := hp1.trans (hp3.trans hp2.symm)
  have hnd1 : ((prepTable rows).map (·.1)).Nodup := (prepTable_names_perm rows).nodup_iff.mpr hnd
  have hs1 := prepTable_sorted rows
  have hs2 := prepTable_sorted rows'
  rw [List.pairwise_map] at hs1 hs2
  refine hp.eq_of_pairwise (fun a b ha hb h1 h2 => ?_) hs1 hs2
  exact eq_of_fst_eq_of_nodup _ hnd1 a ha b (hp.mem_iff.mpr hb) (strLe_antisymm _ _ h1 h2)

end SF.Match
