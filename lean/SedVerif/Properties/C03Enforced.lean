import SedVerif.Properties.C03
import SedVerif.Model.Resolved
/-!
# C03 — statements matching what the harness enforces (near-ties, resolved-source rule, representation)

Property theorems only.  Models: `Model/Fit.lean` (`chiTerm`), `Model/Resolved.lean` (`resetResolved`,
`fitResolved`: builder L's model of `Fitter(remove_resolved=True)`), `Model/FitExtra.lean`.
-/
namespace SF
variable {K : Type} [Field K] [LinearOrder K] [IsStrictOrderedRing K]

/-- **C03 (the limit test is a strict comparison).** For a limit band of weight zero and a model lying at
    `m = a·k + s·q`: on the forbidden side by ANY `ε > 0` the band costs exactly `penalty conf`
    (`−2·ln(1−c)` for `c ≠ 1`), on the allowed side by any `ε > 0` and AT the limit it costs nothing; the cost
    does not depend on `ε`. -/
theorem C03_limit_eps (big : K) (ln1m : K → K) (a s : K) (p : Pt K) (hw : p.w = 0) (ε : K) (hε : 0 < ε) :
    (p.flag = 2 → a * p.k + s * p.q = p.r - ε → chiTerm big ln1m a s p = penalty big ln1m p.e) ∧
    (p.flag = 2 → a * p.k + s * p.q = p.r + ε → chiTerm big ln1m a s p = 0) ∧
    (p.flag = 3 → a * p.k + s * p.q = p.r + ε → chiTerm big ln1m a s p = penalty big ln1m p.e) ∧
    (p.flag = 3 → a * p.k + s * p.q = p.r - ε → chiTerm big ln1m a s p = 0) ∧
    ((p.flag = 2 ∨ p.flag = 3) → a * p.k + s * p.q = p.r → chiTerm big ln1m a s p = 0) ∧
    (p.e ≠ 1 → penalty big ln1m p.e = -2 * ln1m p.e) := by
  refine ⟨?_, ?_, ?_, ?_, ?_, fun h => by simp [penalty, h, two_eq]⟩
  · intro h2 hm
    have : a * p.k + s * p.q < p.r := by rw [hm]; linarith
    simp [chiTerm, h2, this]
  · intro h2 hm
    have : ¬ a * p.k + s * p.q < p.r := by rw [hm]; linarith
    simp [chiTerm, h2, this, hw]
  · intro h3 hm
    have : p.r < a * p.k + s * p.q := by rw [hm]; linarith
    simp [chiTerm, h3, this]
  · intro h3 hm
    have : ¬ p.r < a * p.k + s * p.q := by rw [hm]; linarith
    simp [chiTerm, h3, this, hw]
  · intro h23 hm
    rcases h23 with h | h <;> simp [chiTerm, h, hm, hw]

/-- **C03 (the penalty does not depend on the distance to the limit).** Two models on the forbidden side of the
    same limit band pay the same, however far beyond the limit they lie. -/
theorem C03_limit_penalty_flat (big : K) (ln1m : K → K) (a s a' s' : K) (p : Pt K)
    (h : forbidden a s p) (h' : forbidden a' s' p) :
    chiTerm big ln1m a s p = chiTerm big ln1m a' s' p := by
  have key : ∀ a s, forbidden a s p → chiTerm big ln1m a s p = penalty big ln1m p.e := by
    intro a s hf
    rcases hf with ⟨h2, hm⟩ | ⟨h3, hm⟩
    · simp [chiTerm, h2, hm]
    · simp [chiTerm, h3, hm]
  rw [key a s h, key a' s' h']

/-- **C03 (resolved-source rule: the mask sees only which flags are non-zero).** Two flag vectors with the same
    support of non-zero flags give the same removed distances; in particular flags 1 and 4 are interchangeable
    there, a flag-9 (plot-only) band and a limit of any confidence count, and a flag-0 band does not. -/
theorem C03_mask_support (flags flags' : List Nat) (ext : List (List Bool)) (nd : Nat)
    (h : flags.map (fun f => decide (0 < f)) = flags'.map (fun f => decide (0 < f))) :
    resetResolved flags ext nd = resetResolved flags' ext nd := by
  unfold resetResolved
  have hz : ∀ (fl fl' : List Nat) (e : List (List Bool)),
      fl.map (fun f => decide (0 < f)) = fl'.map (fun f => decide (0 < f)) →
      ∀ d, (fl.zip e).any (fun fc => decide (0 < fc.1) && fc.2.getD d false)
        = (fl'.zip e).any (fun fc => decide (0 < fc.1) && fc.2.getD d false) := by
    intro fl
    induction fl with
    | nil => intro fl' e hh d; cases fl' <;> simp_all
    | cons f fs ih =>
      intro fl' e hh d
      cases fl' with
      | nil => simp at hh
      | cons f' fs' =>
        simp only [List.map_cons, List.cons.injEq] at hh
        cases e with
        | nil => simp
        | cons c cs =>
          simp only [List.zip_cons_cons, List.any_cons, hh.1, ih fs' cs hh.2 d]
  apply List.map_congr_left
  intro d _
  exact hz flags flags' ext h d

/-- flags 0 and 9 differ under the rule: a resolved plot-only band removes the distance, an unused band does not -/
theorem C03_mask_zero_vs_nine :
    resetResolved [9] [[true]] 1 = [true] ∧ resetResolved [0] [[true]] 1 = [false] ∧
    resetResolved [2] [[true]] 1 = [true] := by decide

/-- **C03 (flag 4 under the resolved-source rule).** Sources whose transformed bands are pairwise indistinguishable
    to the fitter (`LogEquiv`: e.g. a flag-1 band and the flag-4 band carrying its transform) and have the same
    support of non-zero flags get the same masked fit `(av, sc, chi2, distance index)` from a fitter built with
    `remove_resolved=True`. -/
theorem C03_flag4_resolved (big : K) (ln1m lg : K → K) (lo hi : K) {lobs lobs' : List (LogObs K)}
    (h : List.Forall₂ (LogEquiv big ln1m) lobs lobs')
    (hsupp : (lobs.map (·.flag)).map (fun f => decide (0 < f)) = (lobs'.map (·.flag)).map (fun f => decide (0 < f)))
    (ks : List K) (tabs : List (BandTab K)) (dists : List K) :
    fitResolved big ln1m lg lo hi lobs ks tabs dists = fitResolved big ln1m lg lo hi lobs' ks tabs dists := by
  unfold fitResolved modelPss
  cases hm : modelLogFluxes lg tabs dists with
  | error e => simp [Except.map]
  | ok lfs =>
    simp only [Except.map]
    have hpss : List.Forall₂ (List.Forall₂ (PtEquiv big ln1m)) (lfs.map (fun lf => mkPts lobs lf ks))
        (lfs.map (fun lf => mkPts lobs' lf ks)) := by
      rw [List.forall₂_map_left_iff, List.forall₂_map_right_iff, List.forall₂_same]
      intro lf _
      exact mkPts_forall₂ (R := LogEquiv big ln1m) (fun o o' mf k hR => hR mf k) h lf ks
    cases extendedMask tabs dists with
    | error e => rfl
    | ok ext =>
      simp only [fit3Ext, fit3PerDist_equiv lo hi hpss, C03_mask_support _ _ ext dists.length hsupp]

/-- a transformed flag-1 band and the same band flagged 4 are indistinguishable to the fitter -/
theorem C03_flag14_logEquiv (big : K) (ln1m : K → K) (l : LogObs K) (h1 : l.flag = 1) :
    LogEquiv big ln1m l { l with flag := 4 } := by
  intro mf k
  refine ⟨⟨rfl, rfl, rfl, fun _ => rfl⟩, ?_⟩
  intro a s
  simp [mkPt, chiTerm, h1]

/-- **C03 (only the values of the flags matter).** The band list the fitter sees is a function of the decoded
    `(flag value, flux, error)` triples: two containers (int64 / uint8 / float flag arrays, lists, a parsed data
    line …) that decode to the same triples get the same fits in both modes. -/
theorem C03_values_only {α β : Type} (dec : α → Obs K) (dec' : β → Obs K) (xs : List α) (ys : List β)
    (h : xs.map dec = ys.map dec') (lg : K → K) (ln10 big : K) (ln1m : K → K) (lo hi : K) (ks mf : List K)
    (logd : List K) (mfd : List (List K)) :
    obsFit2 lg ln10 big ln1m lo hi (xs.map dec) ks mf = obsFit2 lg ln10 big ln1m lo hi (ys.map dec') ks mf ∧
    obsFit3 lg ln10 big ln1m lo hi logd (xs.map dec) ks mfd = obsFit3 lg ln10 big ln1m lo hi logd (ys.map dec') ks mfd := by
  rw [h]; exact ⟨rfl, rfl⟩

/-! ### Non-vacuity -/

example : (0 : Rat) < 1 / 1000000 ∧
    (({ r := 1, k := -1/2, q := -2, w := 0, flag := 3, e := 9/10 } : Pt Rat).w = 0) := by
  constructor <;> norm_num

example : forbidden (0 : Rat) 0 { r := -1, k := -1/3, q := -2, w := 0, flag := 3, e := 1/2 } ∧
    forbidden (-3 : Rat) (-1) { r := -1, k := -1/3, q := -2, w := 0, flag := 3, e := 1/2 } := by
  constructor <;> (right; constructor <;> norm_num)

example : ([1, 0, 4, 9, 3] : List Nat).map (fun f => decide (0 < f)) = ([4, 0, 1, 2, 9] : List Nat).map (fun f => decide (0 < f)) := by
  decide

example : List.Forall₂ (LogEquiv (10 : Rat) (fun c => -c))
    [⟨1, 2, 1/20, 400⟩, ⟨3, 1, 1/2, 0⟩] [⟨4, 2, 1/20, 400⟩, ⟨3, 1, 1/2, 0⟩] :=
  List.Forall₂.cons (C03_flag14_logEquiv _ _ _ rfl)
    (List.Forall₂.cons (fun _ _ => PtEquiv.refl _ _ _) List.Forall₂.nil)

example : ([(1 : Nat), 2] : List Nat).map (fun n => (⟨n, 1, 1⟩ : Obs Rat))
    = ([(1 : Int), 2] : List Int).map (fun n => (⟨n.toNat, 1, 1⟩ : Obs Rat)) := by simp

end SF
