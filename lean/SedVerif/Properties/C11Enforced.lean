import SedVerif.Properties.C11
/-!
# C11 — statements matching what the harness enforces (shared cube slices, several fitters alive, per-file units)

Property theorems only.  Models: `Model/Fit.lean`, `Model/FitExtra.lean`, `Model/FitStore.lean`.
-/
namespace SF
variable {K : Type} [Field K] [LinearOrder K] [IsStrictOrderedRing K]

/-- **C11 (two filters sharing one model column).** Two wavelength filters whose nearest tabulated wavelength
    is the same cube slice see the SAME model flux `m` (at every trial distance).  Exchanging them — photometry
    and coefficients alike — leaves every model's result unchanged in both modes: the permutation theorem needs
    no distinctness of the columns. -/
theorem C11_shared_column (lg : K → K) (ln10 big : K) (ln1m : K → K) (lo hi : K)
    (o1 o2 : Obs K) (os : List (Obs K)) (k1 k2 : K) (ks : List K) :
    (∀ m mf, obsFit2 lg ln10 big ln1m lo hi (o1 :: o2 :: os) (k1 :: k2 :: ks) (m :: m :: mf)
        = obsFit2 lg ln10 big ln1m lo hi (o2 :: o1 :: os) (k2 :: k1 :: ks) (m :: m :: mf)) ∧
    (∀ logd (cols : List (K × List K)),
      obsFit3 lg ln10 big ln1m lo hi logd (o1 :: o2 :: os) (k1 :: k2 :: ks) (cols.map (fun c => c.1 :: c.1 :: c.2))
        = obsFit3 lg ln10 big ln1m lo hi logd (o2 :: o1 :: os) (k2 :: k1 :: ks) (cols.map (fun c => c.1 :: c.1 :: c.2))) := by
  obtain ⟨h2, h3⟩ := C11_filter_perm_source lg ln10 big ln1m lo hi
    (os := o1 :: o2 :: os) (os' := o2 :: o1 :: os) (ks := k1 :: k2 :: ks) (ks' := k2 :: k1 :: ks)
  constructor
  · intro m mf
    apply h2
    simp only [List.zip_cons_cons]
    exact List.Perm.swap _ _ _
  · intro logd cols
    apply h3
    rw [List.forall₂_map_left_iff, List.forall₂_map_right_iff, List.forall₂_same]
    intro c _
    simp only [List.zip_cons_cons]
    exact List.Perm.swap _ _ _

/-! ### several fitters alive at once -/

/-- what happens in a process that holds several fitters: a new fitter is built, or fitter number `i` fits a source -/
inductive FleetOp (K : Type) where
  | build (st : FitterState K)
  | fit (i : Nat) (src : List (Obs K))

/-- one step of the product machine: building appends a fitter and touches no other; a fit reads fitter `i` only -/
def fleetStep (lg : K → K) (ln10 big : K) (ln1m : K → K) (fl : List (FitterState K)) :
    FleetOp K → List (FitterState K) × Option (FitResult K)
  | .build st => (fl ++ [st], none)
  | .fit i src =>
    match fl[i]? with
    | some st => (fl, some (fitStep lg ln10 big ln1m st src).2)
    | none => (fl, none)

def fleetRun (lg : K → K) (ln10 big : K) (ln1m : K → K) :
    List (FitterState K) → List (FleetOp K) → List (FitterState K) × List (Option (FitResult K))
  | fl, [] => (fl, [])
  | fl, op :: ops =>
    let (fl1, out) := fleetStep lg ln10 big ln1m fl op
    let (fl2, outs) := fleetRun lg ln10 big ln1m fl1 ops
    (fl2, out :: outs)

/-- **C11 (a fitter's answers are a function of its own package, options and the source).** In any history that
    interleaves constructions of other fitters and fits by any fitter: every fitter that existed keeps its state
    (the fleet only grows at the end), and every fit by fitter `i` returns `fitOne` of fitter `i`'s own state — the
    answer it would give alone. -/
theorem C11_fleet_independent (lg : K → K) (ln10 big : K) (ln1m : K → K) (ops : List (FleetOp K)) :
    ∀ (fl : List (FitterState K)),
    (∀ (i : Nat) (st : FitterState K), fl[i]? = some st → (fleetRun lg ln10 big ln1m fl ops).1[i]? = some st) ∧
    (∀ (n i : Nat) (src : List (Obs K)), ops[n]? = some (FleetOp.fit i src) →
      ∃ pre : List (FitterState K), (∀ (j : Nat) (st : FitterState K), fl[j]? = some st → pre[j]? = some st) ∧
        (fleetRun lg ln10 big ln1m fl ops).2[n]? = some ((pre[i]?).map (fun st => fitOne lg ln10 big ln1m st src))) := by
  induction ops with
  | nil => intro fl; exact ⟨fun i st h => h, fun n i src h => by cases h⟩
  | cons op ops ih =>
    intro fl
    have hstep : ∀ (j : Nat) (st : FitterState K), fl[j]? = some st → (fleetStep lg ln10 big ln1m fl op).1[j]? = some st := by
      intro j st hj
      cases op with
      | build s =>
        simp only [fleetStep]
        rw [List.getElem?_append_left (List.getElem?_eq_some_iff.mp hj).1]; exact hj
      | fit i src => simp only [fleetStep]; split <;> exact hj
    obtain ⟨ih1, ih2⟩ := ih (fleetStep lg ln10 big ln1m fl op).1
    constructor
    · intro i st h
      simp only [fleetRun]
      exact ih1 i st (hstep i st h)
    · intro n i src hn
      cases n with
      | zero =>
        simp only [List.getElem?_cons_zero, Option.some.injEq] at hn
        subst hn
        refine ⟨fl, fun j st h => h, ?_⟩
        simp only [fleetRun, fleetStep, List.getElem?_cons_zero]
        cases fl[i]? <;> simp [fitStep]
      | succ n =>
        simp only [List.getElem?_cons_succ] at hn
        obtain ⟨pre, hpre, hout⟩ := ih2 n i src hn
        refine ⟨pre, fun j st h => hpre j st (hstep j st h), ?_⟩
        simp only [fleetRun, List.getElem?_cons_succ]
        exact hout

/-- **C11 (several fitters alive, at the level of array objects).** In the store model, constructing a fitter is a
    sequence of allocations (`new`); any interleaving of such constructions with complete `fit` calls of any
    fitter leaves every array object that is not freshly allocated — the arrays of every fitter and of every
    source alike — holding what it held. -/
theorem C11_store_segments {C : Type} (segs : List (List (Instr C)))
    (hsegs : ∀ seg ∈ segs, writesFreshOnly [] seg = true) :
    ∀ (h h' : Heap C), run h segs.flatten = some h' → ∀ l : Loc, l.owner ≠ .fresh → h'.get l = h.get l := by
  induction segs with
  | nil =>
    intro h h' hr l _
    simp only [List.flatten_nil, run, Option.some.injEq] at hr
    rw [hr]
  | cons seg rest ih =>
    intro h h' hr l hl
    simp only [List.flatten_cons, run_append] at hr
    cases h1 : run h seg with
    | none => simp [h1] at hr
    | some hm =>
      simp only [h1, Option.bind_some] at hr
      rw [ih (fun s hs => hsegs s (List.mem_cons_of_mem _ hs)) hm h' hr l hl]
      exact run_unchanged _ [] h hm (knownFresh_nil h) (hsegs seg List.mem_cons_self) h1 l hl

/-- a construction (allocations only) and a complete call both pass the check that `C11_store_segments` asks for -/
theorem C11_store_segment_kinds {C : Type} (p : Payload C) (dist : Bool) (k : Nat) (allocs : List (Var × ((Var → Option C) → C))) :
    writesFreshOnly [] (progCall p dist k) = true ∧
    writesFreshOnly [] (allocs.map (fun a => Instr.new a.1 a.2)) = true := by
  refine ⟨progCall_check p dist k, ?_⟩
  have : ∀ (known : List Var), writesFreshOnly known (allocs.map (fun a => Instr.new a.1 a.2)) = true := by
    induction allocs with
    | nil => intro _; rfl
    | cons a as ih => intro known; simp only [List.map_cons, writesFreshOnly]; exact ih _
  exact this []

/-- **C11 (per-file flux units).** A convolved file that stores one model column in another unit holds the numbers
    `x·f` and declares the unit whose conversion factor to mJy is `1/f`; the reader's conversion gives back the
    mJy values, so the package — and every fit — is the one with all columns in mJy. -/
theorem C11_unit_column (f : K) (hf : f ≠ 0) (col : List K) :
    (col.map (fun x => x * f)).map (fun y => y * (1 / f)) = col ∧
    ∀ (lg : K → K) (ln10 big : K) (ln1m : K → K) (lo hi : K) (os : List (Obs K)) (ks : List K),
      obsFit2 lg ln10 big ln1m lo hi os ks (((col.map (fun x => x * f)).map (fun y => y * (1 / f))).map lg)
        = obsFit2 lg ln10 big ln1m lo hi os ks (col.map lg) := by
  have h : (col.map (fun x => x * f)).map (fun y => y * (1 / f)) = col := by
    rw [List.map_map]
    conv_rhs => rw [← List.map_id col]
    apply List.map_congr_left
    intro x _
    simp only [Function.comp, id]
    field_simp
  exact ⟨h, fun lg ln10 big ln1m lo hi os ks => by rw [h]⟩

/-! ### Non-vacuity -/

example : ([⟨1, 10, 1⟩, ⟨4, 1, 1/10⟩] : List (Obs Rat)).length = 2 := rfl

/-- a fleet history: build a second fitter between two fits of the first -/
example : ∃ ops : List (FleetOp Rat), ops[2]? = some (.fit 0 [⟨1, 10, 1⟩]) ∧ ops.length = 3 :=
  ⟨[.fit 0 [⟨1, 10, 1⟩], .build ⟨[], 0, 1, none, []⟩, .fit 0 [⟨1, 10, 1⟩]], rfl, rfl⟩

example : ∀ seg ∈ [progCall exStorePayload false 0, [Instr.new Var.selfFluxes (fun _ => 7)], progCall exStorePayload true 1],
    writesFreshOnly [] seg = true := by decide

example : (run exStore ([progCall exStorePayload false 0, [Instr.new Var.selfFluxes (fun _ => 7)],
    progCall exStorePayload true 1].flatten)).isSome = true := by decide

example : (1000 : Rat) ≠ 0 := by norm_num

end SF
