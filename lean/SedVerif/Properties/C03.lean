import SedVerif.Proofs.FitFlags
import SedVerif.Properties.C01
import SedVerif.Model.Rank
/-!
# C03 — data flags mean what the data-format page says

Property theorems only.  Model: `Model/Fit.lean` (`logTransform`, `mkPts`, `chiTerm`, `chi2`, `fit2`,
`fit2Full`, `optAv`, `fit3`) and `Model/FitExtra.lean` (`obsPts`, `obsFit2`, `obsFit3`: the two modes
of `Models.fit` for one model, starting from the source as it stands in the data file).  Everything
holds over every linearly ordered field, every number of bands, every model, every distance grid.
`WF` and `limitTerm` are those of `Properties/C01.lean`.
-/
namespace SF
variable {K : Type} [Field K] [LinearOrder K] [IsStrictOrderedRing K]

/-! ### relations between paired sources, band by band -/

/-- same flag, and the same flux and error unless the flag is 0 (unused) or 9 (plot only) -/
def SameUpToIgnored (o o' : Obs K) : Prop :=
  o.flag = o'.flag ∧ (o.flag ≠ 0 → o.flag ≠ 9 → o.flux = o'.flux ∧ o.err = o'.err)

/-- same flag, and the same flux and error unless the band is a lower (2) or upper (3) limit -/
def SameUpToLimitValues (o o' : Obs K) : Prop :=
  o.flag = o'.flag ∧ ((o.flag = 2 ∨ o.flag = 3) ∨ (o.flux = o'.flux ∧ o.err = o'.err))

/-- points: same patterns, weight, flag; same residual / confidence slot unless the point is a limit -/
def SameButLimits (p p' : Pt K) : Prop :=
  p.flag = p'.flag ∧ p.k = p'.k ∧ p.q = p'.q ∧ p.w = p'.w ∧
    ((p.flag = 2 ∨ p.flag = 3) ∨ (p.r = p'.r ∧ p.e = p'.e))

/-- identical, or: a limit with confidence 0 on one side, an unused band (any values) on the other -/
def Conf0OrSame (o o' : Obs K) : Prop :=
  o = o' ∨ ((o.flag = 2 ∨ o.flag = 3) ∧ o.err = 0 ∧ o'.flag = 0)

/-- identical, or: a flag-1 band on one side and, on the other, a flag-4 band carrying the log10 flux
    and log10 error that `Source.get_log_fluxes` computes for it -/
def Flag4OrSame (lg : K → K) (ln10 : K) (o o' : Obs K) : Prop :=
  o = o' ∨ (o.flag = 1 ∧
    o' = ⟨4, (logTransform lg ln10 o).lf, (logTransform lg ln10 o).le⟩)

/-- the model lies on the forbidden side of limit `p` -/
def forbidden (a s : K) (p : Pt K) : Prop :=
  (p.flag = 2 ∧ a * p.k + s * p.q < p.r) ∨ (p.flag = 3 ∧ p.r < a * p.k + s * p.q)

/-- bands that are not limits -/
def notLimit (p : Pt K) : Bool := !(p.flag == 2 || p.flag == 3)

/-! ### theorems -/

/-- **C03 (ignored bands).** Two sources with equal flags and equal (flux, error) wherever the flag is
    neither 0 nor 9 are the same source to the fitter: the transformed bands coincide, hence every
    model gets the same `(av, sc, chi2)` in the distance-independent mode and the same
    `(av, sc, chi2, distance index)` in the distance-dependent mode. -/
theorem C03_ignored (lg : K → K) (ln10 : K) {os os' : List (Obs K)}
    (h : List.Forall₂ SameUpToIgnored os os') :
    os.map (logTransform lg ln10) = os'.map (logTransform lg ln10) ∧
    (∀ big ln1m lo hi ks mf,
      obsFit2 lg ln10 big ln1m lo hi os ks mf = obsFit2 lg ln10 big ln1m lo hi os' ks mf) ∧
    (∀ big ln1m lo hi logd ks mfd,
      obsFit3 lg ln10 big ln1m lo hi logd os ks mfd = obsFit3 lg ln10 big ln1m lo hi logd os' ks mfd) := by
  have hmap : os.map (logTransform lg ln10) = os'.map (logTransform lg ln10) := by
    induction h with
    | nil => rfl
    | @cons o o' _ _ hoo _ ih =>
      simp only [List.map_cons, ih]
      congr 1
      obtain ⟨f, x, e⟩ := o
      obtain ⟨f', x', e'⟩ := o'
      obtain ⟨hf, hv⟩ := hoo
      simp only at hf hv
      subst hf
      by_cases h0 : f = 0
      · subst h0; simp [logTransform]
      · by_cases h9 : f = 9
        · subst h9; simp [logTransform]
        · obtain ⟨hx, he⟩ := hv h0 h9
          rw [hx, he]
  refine ⟨hmap, ?_, ?_⟩
  · intro big ln1m lo hi ks mf
    simp only [obsFit2, obsPts, hmap]
  · intro big ln1m lo hi logd ks mfd
    have : obsPts lg ln10 os ks = obsPts lg ln10 os' ks := by
      funext mf; simp only [obsPts, hmap]
    simp only [obsFit3, this]

/-- **C03 (ignored bands, predicted fluxes).** Corollary of `C03_ignored`: the predicted log fluxes stored
    with every row (`FitInfo.model_fluxes`: `model + model_log_flux` in the distance-independent mode,
    the row gathered at the reported distance in the distance-dependent mode) are unaffected by the
    content of flag-0 / flag-9 bands as well — at every band, the ignored ones included. -/
theorem C03_ignored_predicted (lg : K → K) (ln10 : K) {os os' : List (Obs K)}
    (h : List.Forall₂ SameUpToIgnored os os') :
    (∀ lo hi ks mf,
      predicted2 (fit2 lo hi (obsPts lg ln10 os ks mf)).1 (fit2 lo hi (obsPts lg ln10 os ks mf)).2
          (obsPts lg ln10 os ks mf) mf
        = predicted2 (fit2 lo hi (obsPts lg ln10 os' ks mf)).1 (fit2 lo hi (obsPts lg ln10 os' ks mf)).2
          (obsPts lg ln10 os' ks mf) mf) ∧
    (∀ big ln1m lo hi ks mfd,
      predictedRow3 big ln1m lo hi (mfd.map (obsPts lg ln10 os ks)) mfd
        = predictedRow3 big ln1m lo hi (mfd.map (obsPts lg ln10 os' ks)) mfd) := by
  have hmap := (C03_ignored lg ln10 h).1
  have hpts : obsPts lg ln10 os = obsPts lg ln10 os' := by
    funext ks mf; simp only [obsPts, hmap]
  exact ⟨fun lo hi ks mf => by rw [hpts], fun big ln1m lo hi ks mfd => by rw [hpts]⟩

/-- **C03 (weights).** `Source.get_log_fluxes` keeps the flag, gives a non-negative weight, and gives
    weight zero to every band whose flag is not 1 or 4 (so flags 0, 2, 3, 9 never enter a weighted
    sum); consequently the point list of every source and model is well-formed in the sense of C01
    — with no side condition.  (In a field `1/0 = 0`; that the *code's* weights are finite needs
    non-zero flux and error on fitted bands, which is what `C03_weights_pos` asks for.) -/
theorem C03_weights (lg : K → K) (ln10 : K) :
    (∀ o : Obs K, (logTransform lg ln10 o).flag = o.flag ∧ 0 ≤ (logTransform lg ln10 o).w ∧
      (o.flag ≠ 1 → o.flag ≠ 4 → (logTransform lg ln10 o).w = 0)) ∧
    ∀ os ks mf, WF (obsPts lg ln10 os ks mf) := by
  have hband : ∀ o : Obs K, (logTransform lg ln10 o).flag = o.flag ∧ 0 ≤ (logTransform lg ln10 o).w ∧
      (o.flag ≠ 1 → o.flag ≠ 4 → (logTransform lg ln10 o).w = 0) :=
    fun o => ⟨logTransform_flag lg ln10 o, logTransform_w_nonneg lg ln10 o, logTransform_w_zero lg ln10 o⟩
  refine ⟨hband, ?_⟩
  intro os ks mf p hp
  obtain ⟨l, hl, mf', k, rfl⟩ := mem_mkPts hp
  obtain ⟨o, _, rfl⟩ := List.mem_map.mp hl
  obtain ⟨hf, hw, hz⟩ := hband o
  exact ⟨hw, fun h1 h4 => hz (hf ▸ h1) (hf ▸ h4)⟩

/-- **C03 (weights of fitted bands).** A flag-1 band with non-zero flux and error (and `ln 10 ≠ 0`)
    and a flag-4 band with non-zero error get a strictly positive weight — the `0 < w` hypothesis of
    `C01_nonsingular`. -/
theorem C03_weights_pos (lg : K → K) (ln10 : K) (hln : ln10 ≠ 0) (o : Obs K)
    (h : (o.flag = 1 ∧ o.flux ≠ 0 ∧ o.err ≠ 0) ∨ (o.flag = 4 ∧ o.err ≠ 0)) :
    0 < (logTransform lg ln10 o).w :=
  logTransform_w_pos lg ln10 hln o h

/-- **C03 (limits are not in the least-squares solution), point level.** On a well-formed list
    (limits have weight zero) changing the residual and the confidence of flag-2/3 points changes
    neither the regression, nor the clamped `(av, sc)`, nor the distance-dependent A_V. -/
theorem C03_limit_not_in_ls {ps ps' : List (Pt K)} (hwf : WF ps)
    (h : List.Forall₂ SameButLimits ps ps') (lo hi : K) :
    linreg ps = linreg ps' ∧ fit2 lo hi ps = fit2 lo hi ps' ∧ optAv ps = optAv ps' := by
  have hls : List.Forall₂ PtLS ps ps' := by
    have hwf' : ∀ p ∈ ps, (p.flag = 2 ∨ p.flag = 3) → p.w = 0 := fun p hp h23 =>
      (hwf p hp).2 (by rcases h23 with h | h <;> omega) (by rcases h23 with h | h <;> omega)
    clear hwf
    induction h with
    | nil => exact List.Forall₂.nil
    | @cons p p' _ _ hpp _ ih =>
      refine List.Forall₂.cons ?_ (ih (fun q hq => hwf' q (List.mem_cons_of_mem _ hq)))
      obtain ⟨_, hk, hq, hw, hr⟩ := hpp
      refine ⟨hk, hq, hw, fun hne => ?_⟩
      rcases hr with h23 | ⟨hr, _⟩
      · exact absurd (hwf' p List.mem_cons_self h23) hne
      · exact hr
  exact ⟨linreg_ls hls, fit2_ls lo hi hls, optAv_ls hls⟩

/-- **C03 (limits are not in the least-squares solution), source level.** Two sources that differ only
    in the flux and confidence of lower/upper limits get the same `(av, sc)` for every model in the
    distance-independent mode and the same A_V at every trial distance in the distance-dependent
    mode. -/
theorem C03_limit_not_in_ls_source (lg : K → K) (ln10 : K) {os os' : List (Obs K)}
    (h : List.Forall₂ SameUpToLimitValues os os') (lo hi : K) (ks mf : List K) :
    fit2 lo hi (obsPts lg ln10 os ks mf) = fit2 lo hi (obsPts lg ln10 os' ks mf) ∧
    optAv (obsPts lg ln10 os ks mf) = optAv (obsPts lg ln10 os' ks mf) := by
  have hls : List.Forall₂ PtLS (obsPts lg ln10 os ks mf) (obsPts lg ln10 os' ks mf) := by
    apply obsPts_rel
    refine h.imp ?_
    intro o o' ⟨hf, hv⟩ mf k
    obtain ⟨f, x, e⟩ := o
    obtain ⟨f', x', e'⟩ := o'
    simp only at hf hv
    subst hf
    rcases hv with h23 | ⟨hx, he⟩
    · have h1 : f ≠ 1 := by rcases h23 with h | h <;> omega
      refine ⟨rfl, rfl, ?_, ?_⟩ <;> simp [mkPt, logTransform, h1, h23]
    · subst hx; subst he; exact ⟨rfl, rfl, rfl, fun _ => rfl⟩
  exact ⟨fit2_ls lo hi hls, optAv_ls hls⟩

/-- **C03 (what one limit costs).** A limit band of weight zero contributes the penalty of its
    confidence when the model is on its forbidden side and nothing otherwise; the penalty is
    `−2·ln(1 − c)` unless `c = 1`, where the code substitutes `1e30` (`big`) for the infinity. -/
theorem C03_limit_term (big : K) (ln1m : K → K) (a s : K) (p : Pt K)
    (hl : p.flag = 2 ∨ p.flag = 3) (hw : p.w = 0) [Decidable (forbidden a s p)] :
    chiTerm big ln1m a s p = (if forbidden a s p then penalty big ln1m p.e else 0) ∧
    (p.e ≠ 1 → penalty big ln1m p.e = -2 * ln1m p.e) ∧ (p.e = 1 → penalty big ln1m p.e = big) := by
  refine ⟨?_, fun h => by simp [penalty, h, two_eq], fun h => by simp [penalty, h]⟩
  unfold forbidden chiTerm
  rcases hl with h2 | h3
  · by_cases hm : a * p.k + s * p.q < p.r <;> simp [h2, hm, hw]
  · by_cases hm : p.r < a * p.k + s * p.q <;> simp [h3, hm, hw]

/-- **C03 (limit penalties add to chi²).** On a well-formed list, chi² is the chi² of the list with the
    limit bands removed plus, for every limit on whose forbidden side the model lies, the penalty of
    its confidence (`limitTerm` is `penalty conf` there and `0` elsewhere, see `C03_limit_term`). -/
theorem C03_limit_penalty (big : K) (ln1m : K → K) (a s : K) (ps : List (Pt K)) (hwf : WF ps) :
    chi2 big ln1m a s ps
      = chi2 big ln1m a s (ps.filter notLimit) + sumBy (limitTerm big ln1m a s) ps := by
  unfold chi2
  have h1 : sumBy (chiTerm big ln1m a s) ps
      = sumBy (fun p => chiTerm big ln1m a s p - limitTerm big ln1m a s p) ps
        + sumBy (limitTerm big ln1m a s) ps := by
    rw [← sumBy_add]; apply sumBy_congr; intro p _; ring
  have hlim : ∀ p ∈ ps, notLimit p = false →
      chiTerm big ln1m a s p - limitTerm big ln1m a s p = 0 := by
    intro p hp hnl
    have h23 : p.flag = 2 ∨ p.flag = 3 := by
      simp only [notLimit, Bool.not_eq_false', Bool.or_eq_true, beq_iff_eq] at hnl
      exact hnl
    have hw : p.w = 0 :=
      (hwf p hp).2 (by rcases h23 with h | h <;> omega) (by rcases h23 with h | h <;> omega)
    simp only [chiTerm, limitTerm]
    rcases h23 with h2 | h3
    · by_cases hm : a * p.k + s * p.q < p.r <;> simp [h2, hm, hw]
    · by_cases hm : p.r < a * p.k + s * p.q <;> simp [h3, hm, hw]
  have h2 : sumBy (chiTerm big ln1m a s) (ps.filter notLimit)
      = sumBy (fun p => chiTerm big ln1m a s p - limitTerm big ln1m a s p) (ps.filter notLimit) := by
    apply sumBy_congr
    intro p hp
    have hnl : notLimit p = true := (List.mem_filter.mp hp).2
    have h23 : ¬ (p.flag = 2 ∨ p.flag = 3) := by
      simp only [notLimit, Bool.not_eq_true', Bool.or_eq_false_iff, beq_eq_false_iff_ne] at hnl
      exact fun h => h.elim hnl.1 hnl.2
    have : limitTerm big ln1m a s p = 0 := by
      simp only [limitTerm]
      rw [if_neg (fun h => h23 (Or.inl h.1)), if_neg (fun h => h23 (Or.inr h.1))]
    rw [this, sub_zero]
  rw [h1, h2, sumBy_filter_add _ notLimit ps hlim]

/-- **C03 (confidence 0 ≡ flag 0).** With `ln(1 − 0) = 0`: a source in which some lower/upper limits
    carry confidence 0 and the source in which those bands are flagged 0 (with any values) get
    identical results for every model, in both modes. -/
theorem C03_conf0 (lg : K → K) (ln10 big : K) (ln1m : K → K) (h0 : ln1m 0 = 0)
    {os os' : List (Obs K)} (h : List.Forall₂ Conf0OrSame os os') :
    (∀ lo hi ks mf, obsFit2 lg ln10 big ln1m lo hi os ks mf = obsFit2 lg ln10 big ln1m lo hi os' ks mf) ∧
    (∀ lo hi logd ks mfd, obsFit3 lg ln10 big ln1m lo hi logd os ks mfd
        = obsFit3 lg ln10 big ln1m lo hi logd os' ks mfd) := by
  apply obsFit_equiv
  refine h.imp ?_
  intro o o' hoo mf k
  rcases hoo with rfl | ⟨h23, he, hf'⟩
  · exact PtEquiv.refl _ _ _
  · obtain ⟨f, x, e⟩ := o
    obtain ⟨f', x', e'⟩ := o'
    simp only at h23 he hf'
    subst he; subst hf'
    have h1 : f ≠ 1 := by rcases h23 with h | h <;> omega
    have hpen : penalty big ln1m (0 : K) = 0 := by simp [penalty, h0]
    refine ⟨⟨rfl, rfl, ?_, ?_⟩, ?_⟩
    · simp [mkPt, logTransform, h1, h23]
    · simp [mkPt, logTransform, h1, h23]
    · intro a s
      rcases h23 with h2 | h3
      · subst h2; simp [mkPt, logTransform, chiTerm, hpen]
      · subst h3; simp [mkPt, logTransform, chiTerm, hpen]

/-- **C03 (confidence 0 ≡ flag 0), point level.** A limit point of weight zero with confidence 0
    contributes the same (zero) chi² term as the same point flagged 0, at every `(a, s)`. -/
theorem C03_conf0_term (big : K) (ln1m : K → K) (h0 : ln1m 0 = 0) (a s : K) (p : Pt K)
    (hl : p.flag = 2 ∨ p.flag = 3) (hw : p.w = 0) (he : p.e = 0) :
    chiTerm big ln1m a s p = 0 ∧ chiTerm big ln1m a s { p with flag := 0 } = 0 := by
  have hpen : penalty big ln1m (0 : K) = 0 := by simp [penalty, h0]
  refine ⟨?_, by simp [chiTerm]⟩
  unfold chiTerm
  rcases hl with h2 | h3
  · by_cases hm : a * p.k + s * p.q < p.r <;> simp [h2, hm, hw, he, hpen]
  · by_cases hm : p.r < a * p.k + s * p.q <;> simp [h3, hm, hw, he, hpen]

/-- **C03 (confidence 1).** If the model lies on the forbidden side of a limit with confidence 1 then
    `chi2 ≥ big` (`big = 1e30` in the code), provided the other terms are non-negative: weights `≥ 0`,
    `big ≥ 0`, and `ln(1 − c) ≤ 0` for the confidences `c ≠ 1` of the limit bands. -/
theorem C03_conf1 (big : K) (ln1m : K → K) (a s : K) (ps : List (Pt K)) (hbig : 0 ≤ big)
    (hw : ∀ p ∈ ps, 0 ≤ p.w)
    (hc : ∀ p ∈ ps, (p.flag = 2 ∨ p.flag = 3) → p.e ≠ 1 → ln1m p.e ≤ 0)
    (p : Pt K) (hp : p ∈ ps) (he : p.e = 1) (hforb : forbidden a s p) :
    big ≤ chi2 big ln1m a s ps := by
  have hterm : chiTerm big ln1m a s p = big := by
    unfold chiTerm
    rcases hforb with ⟨h2, hm⟩ | ⟨h3, hm⟩
    · simp [h2, hm, he, penalty]
    · simp [h3, hm, he, penalty]
  have := le_sumBy_of_mem (chiTerm big ln1m a s) ps
    (fun q hq => chiTerm_nonneg big ln1m a s q (hw q hq) hbig (hc q hq)) p hp
  rw [hterm] at this
  exact this

/-- **C03 (flag 4).** Replacing flag-1 bands by flag-4 bands that carry the log10 flux
    `lg F − (σ/F)²/2/ln10` and log10 error `|σ/F|/ln10` computed by `Source.get_log_fluxes` leaves
    `(weight, log_flux, log_error)` of every band unchanged, hence gives identical results for every
    model, in both modes. -/
theorem C03_flag4 (lg : K → K) (ln10 big : K) (ln1m : K → K)
    {os os' : List (Obs K)} (h : List.Forall₂ (Flag4OrSame lg ln10) os os') :
    List.Forall₂ (fun o o' =>
      (logTransform lg ln10 o).lf = (logTransform lg ln10 o').lf ∧
      (logTransform lg ln10 o).le = (logTransform lg ln10 o').le ∧
      (logTransform lg ln10 o).w = (logTransform lg ln10 o').w) os os' ∧
    (∀ lo hi ks mf, obsFit2 lg ln10 big ln1m lo hi os ks mf = obsFit2 lg ln10 big ln1m lo hi os' ks mf) ∧
    (∀ lo hi logd ks mfd, obsFit3 lg ln10 big ln1m lo hi logd os ks mfd
        = obsFit3 lg ln10 big ln1m lo hi logd os' ks mfd) := by
  have hband : ∀ o o' : Obs K, o.flag = 1 →
      o' = ⟨4, (logTransform lg ln10 o).lf, (logTransform lg ln10 o).le⟩ →
      (logTransform lg ln10 o).lf = (logTransform lg ln10 o').lf ∧
      (logTransform lg ln10 o).le = (logTransform lg ln10 o').le ∧
      (logTransform lg ln10 o).w = (logTransform lg ln10 o').w ∧
      (logTransform lg ln10 o).flag = 1 ∧ (logTransform lg ln10 o').flag = 4 := by
    intro o o' h1 ho'
    obtain ⟨f, x, e⟩ := o
    simp only at h1
    subst h1; subst ho'
    simp [logTransform]
  refine ⟨?_, ?_⟩
  · refine h.imp ?_
    intro o o' hoo
    rcases hoo with rfl | ⟨h1, ho'⟩
    · exact ⟨rfl, rfl, rfl⟩
    · obtain ⟨a, b, c, _⟩ := hband o o' h1 ho'
      exact ⟨a, b, c⟩
  · apply obsFit_equiv
    refine h.imp ?_
    intro o o' hoo mf k
    rcases hoo with rfl | ⟨h1, ho'⟩
    · exact PtEquiv.refl _ _ _
    · obtain ⟨hlf, hle, hw, hf, hf'⟩ := hband o o' h1 ho'
      refine ⟨⟨rfl, rfl, hw, fun _ => by simp [mkPt, hlf]⟩, ?_⟩
      intro a s
      simp [mkPt, chiTerm, hf, hf', hlf, hw]

/-! ### Non-vacuity: concrete instances over ℚ (with stand-ins for `log10`, `ln 10`, `ln(1 − c)`) -/

/-- a five-band source with one band of every kind -/
def exObs : List (Obs Rat) :=
  [⟨1, 10, 1⟩, ⟨0, -999, -999⟩, ⟨3, 20, 1/2⟩, ⟨9, -1, 0⟩, ⟨4, 3/2, 1/10⟩]

def exObs' : List (Obs Rat) :=
  [⟨1, 10, 1⟩, ⟨0, 5, 0⟩, ⟨3, 20, 1/2⟩, ⟨9, 7, 2⟩, ⟨4, 3/2, 1/10⟩]

example : List.Forall₂ SameUpToIgnored exObs exObs' := by
  simp [exObs, exObs', SameUpToIgnored]

example : List.Forall₂ SameUpToLimitValues exObs
    [⟨1, 10, 1⟩, ⟨0, -999, -999⟩, ⟨3, 2, 9/10⟩, ⟨9, -1, 0⟩, ⟨4, 3/2, 1/10⟩] := by
  simp [exObs, SameUpToLimitValues]

example : List.Forall₂ Conf0OrSame
    [⟨1, 10, 1⟩, ⟨2, 20, 0⟩, ⟨4, 3/2, 1/10⟩] [⟨1, 10, 1⟩, ⟨0, -999, -999⟩, (⟨4, 3/2, 1/10⟩ : Obs Rat)] := by
  simp [Conf0OrSame]

example : List.Forall₂ (Flag4OrSame (fun x : Rat => x - 1) 2)
    [⟨1, 10, 1⟩, ⟨3, 20, 1/2⟩] [⟨4, 9 - 1/400, 1/20⟩, ⟨3, 20, 1/2⟩] := by
  refine List.Forall₂.cons (Or.inr ⟨rfl, ?_⟩) (List.Forall₂.cons (Or.inl rfl) List.Forall₂.nil)
  simp [logTransform, absK, two]; norm_num

/-- a violated upper limit with confidence 1 among fitted points, `ln(1 − c)` replaced by `−c` -/
example : ∃ p ∈ exPts ++ [{ r := -1, k := -1/3, q := -2, w := 0, flag := 3, e := 1 }],
    p.e = (1 : Rat) ∧ forbidden 0 0 p := by
  refine ⟨{ r := -1, k := -1/3, q := -2, w := 0, flag := 3, e := 1 }, by simp, rfl, Or.inr ⟨rfl, ?_⟩⟩
  norm_num

example : ∀ p ∈ exPts, (p.flag = 2 ∨ p.flag = 3) → p.e ≠ 1 → (fun c : Rat => -c) p.e ≤ 0 := by
  simp [exPts]

end SF
