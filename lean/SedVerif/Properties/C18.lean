import SedVerif.Model.Partition
import SedVerif.Proofs.EF
/-!
# C18 — `filter_output` splits sources into two complete, disjoint, faithful files

Property theorems only.  Model: `SedVerif/Model/Partition.lean` (`isGood`, `filterLoop`,
`filterOutput`).  Records are arbitrary (any payload type `ρ`), best chi² values range over the
extended floats, `n_data` over all naturals, thresholds over `Option (EF K)` with Python truthiness.

Domain: every record has at least one fit (`HasBest`), otherwise `info.chi2[0]` raises
(`C18_error`).
-/
namespace SF
variable {K : Type} [Field K] [LinearOrder K] [IsStrictOrderedRing K] {ρ : Type}

/-- every record of the input has a best fit -/
def HasBest (input : List (OutRec K ρ)) : Prop := ∀ r ∈ input, r.chi2 ≠ []

/-- the branch `filter_output` takes for a record (for a record without fits: no branch, `false`) -/
def goesGood (chi cpd : Option (EF K)) (r : OutRec K ρ) : Bool :=
  match r.chi2 with
  | [] => false
  | c0 :: _ => isGood chi cpd c0 (nDataSrc r.flags)

theorem filterLoop_ok (chi cpd : Option (EF K)) (l : List (OutRec K ρ)) (h : HasBest l)
    (g b : List (OutRec K ρ)) :
    filterLoop chi cpd l (g, b)
      = .ok (g ++ l.filter (goesGood chi cpd), b ++ l.filter (fun r => !goesGood chi cpd r)) := by
  induction l generalizing g b with
  | nil => simp [filterLoop]
  | cons r rs ih =>
    have hr : r.chi2 ≠ [] := h r List.mem_cons_self
    have hrs : HasBest rs := fun q hq => h q (List.mem_cons_of_mem _ hq)
    cases hc : r.chi2 with
    | nil => exact absurd hc hr
    | cons c0 t =>
      have hg : goesGood chi cpd r = isGood chi cpd c0 (nDataSrc r.flags) := by simp [goesGood, hc]
      by_cases hgood : isGood chi cpd c0 (nDataSrc r.flags) = true
      · simp [filterLoop, hc, hgood, ih hrs, hg]
      · simp [filterLoop, hc, hgood, ih hrs, hg]

/-- the whole run: the two files hold `filter p input` and `filter (¬p) input` -/
theorem filterOutput_ok (chi cpd : Option (EF K)) (input : List (OutRec K ρ)) (h : HasBest input) :
    filterOutput chi cpd input
      = .ok (input.filter (goesGood chi cpd), input.filter (fun r => !goesGood chi cpd r)) := by
  simpa [filterOutput] using filterLoop_ok chi cpd input h [] []

/-- **C18 (complete and disjoint).** The run succeeds; the two files together hold exactly the input
    records (as a multiset: every source exactly once, counting repetitions) and no record is in both. -/
theorem C18_partition (chi cpd : Option (EF K)) (input : List (OutRec K ρ)) (h : HasBest input) :
    ∃ good bad, filterOutput chi cpd input = .ok (good, bad) ∧
      (good ++ bad).Perm input ∧ good.length + bad.length = input.length ∧
      ∀ r, r ∈ good → r ∉ bad := by
  refine ⟨_, _, filterOutput_ok chi cpd input h, List.filter_append_perm _ _, ?_, ?_⟩
  · simpa using (List.filter_append_perm (goesGood chi cpd) input).length_eq
  · intro r hg hb
    have h1 := (List.mem_filter.mp hg).2
    have h2 := (List.mem_filter.mp hb).2
    simp [h1] at h2

/-- **C18 (order preserved).** Each file lists its records in input order. -/
theorem C18_order (chi cpd : Option (EF K)) (input good bad : List (OutRec K ρ))
    (hrun : filterOutput chi cpd input = .ok (good, bad)) (h : HasBest input) :
    good.Sublist input ∧ bad.Sublist input := by
  rw [filterOutput_ok chi cpd input h] at hrun
  simp only [Except.ok.injEq, Prod.mk.injEq] at hrun
  obtain ⟨rfl, rfl⟩ := hrun
  exact ⟨List.filter_sublist, List.filter_sublist⟩

/-- **C18 (criterion).** A record goes to the *good* file iff its best chi² is below `chi` or its best
    chi² per fitted point is below `cpd` (whichever are given).  Python treats a threshold `0.0` like
    `None`; that agrees with "below the threshold" because nothing non-negative is below zero
    (hypotheses `hz…`: a falsy threshold has nothing below it — true for every chi², a sum of
    non-negative terms).  With best values not equal to the threshold (the property's quantifier)
    `<` and `<=` say the same. -/
theorem C18_criterion (chi cpd : Option (EF K)) (input good bad : List (OutRec K ρ))
    (hrun : filterOutput chi cpd input = .ok (good, bad)) (h : HasBest input)
    (r : OutRec K ρ) (hr : r ∈ input) (c0 : EF K) (hc0 : r.chi2.head? = some c0)
    (hzchi : ∀ v, chi = some v → v.truthy = false → EF.lt c0 v = false)
    (hzcpd : ∀ v, cpd = some v → v.truthy = false → EF.lt (EF.divN c0 (natK (nDataSrc r.flags))) v = false) :
    (r ∈ good ↔ ((∃ v, chi = some v ∧ EF.lt c0 v = true) ∨
                 (∃ v, cpd = some v ∧ EF.lt (EF.divN c0 (natK (nDataSrc r.flags))) v = true))) ∧
    (r ∈ bad ↔ ¬ ((∃ v, chi = some v ∧ EF.lt c0 v = true) ∨
                 (∃ v, cpd = some v ∧ EF.lt (EF.divN c0 (natK (nDataSrc r.flags))) v = true))) ∧
    ((∀ v, chi = some v → EF.eq c0 v = false) →
     (∀ v, cpd = some v → EF.eq (EF.divN c0 (natK (nDataSrc r.flags))) v = false) →
      (r ∈ good ↔ ((∃ v, chi = some v ∧ EF.le c0 v = true) ∨
                   (∃ v, cpd = some v ∧ EF.le (EF.divN c0 (natK (nDataSrc r.flags))) v = true)))) := by
  rw [filterOutput_ok chi cpd input h] at hrun
  simp only [Except.ok.injEq, Prod.mk.injEq] at hrun
  obtain ⟨rfl, rfl⟩ := hrun
  have hg : goesGood chi cpd r = isGood chi cpd c0 (nDataSrc r.flags) := by
    cases hc : r.chi2 with
    | nil => simp [hc] at hc0
    | cons d t => simp [hc] at hc0; subst hc0; simp [goesGood, hc]
  -- the branch condition against the specification
  have hspec : isGood chi cpd c0 (nDataSrc r.flags) = true ↔
      ((∃ v, chi = some v ∧ EF.lt c0 v = true) ∨
       (∃ v, cpd = some v ∧ EF.lt (EF.divN c0 (natK (nDataSrc r.flags))) v = true)) := by
    have one : ∀ (t : Option (EF K)) (x : EF K), (∀ v, t = some v → v.truthy = false → EF.lt x v = false) →
        ((optTruthy t && optBelow x t) = true ↔ ∃ v, t = some v ∧ EF.lt x v = true) := by
      intro t x hz
      cases t with
      | none => simp [optTruthy, optBelow]
      | some v =>
        cases ht : v.truthy with
        | true => simp [optTruthy, optBelow, ht]
        | false => simp [optTruthy, optBelow, ht, hz v rfl ht]
    simp only [isGood, Bool.or_eq_true, one chi c0 hzchi, one cpd _ hzcpd]
  refine ⟨?_, ?_, ?_⟩
  · rw [List.mem_filter, hg, hspec]; simp [hr]
  · rw [List.mem_filter, hg, ← hspec]; simp [hr]
  · intro hne1 hne2
    rw [List.mem_filter, hg, hspec]
    simp only [hr, true_and]
    have two : ∀ (t : Option (EF K)) (x : EF K), (∀ v, t = some v → EF.eq x v = false) →
        ((∃ v, t = some v ∧ EF.lt x v = true) ↔ ∃ v, t = some v ∧ EF.le x v = true) := by
      intro t x hne
      constructor
      · rintro ⟨v, hv, hlt⟩; exact ⟨v, hv, EF.le_of_lt hlt⟩
      · rintro ⟨v, hv, hle⟩; exact ⟨v, hv, EF.lt_of_le_of_ne hle (hne v hv)⟩
    rw [two chi c0 hne1, two cpd _ hne2]

/-- **C18 (records unchanged).** What is written is the input record itself: each file is the input
    list with some records left out (nothing altered, nothing invented), namely `filter` of the input
    by the branch condition. -/
theorem C18_unchanged (chi cpd : Option (EF K)) (input good bad : List (OutRec K ρ))
    (hrun : filterOutput chi cpd input = .ok (good, bad)) (h : HasBest input) :
    good = input.filter (goesGood chi cpd) ∧ bad = input.filter (fun r => !goesGood chi cpd r) ∧
    (∀ r ∈ good, r ∈ input) ∧ (∀ r ∈ bad, r ∈ input) := by
  rw [filterOutput_ok chi cpd input h] at hrun
  simp only [Except.ok.injEq, Prod.mk.injEq] at hrun
  obtain ⟨rfl, rfl⟩ := hrun
  exact ⟨rfl, rfl, fun r hr => (List.mem_filter.mp hr).1, fun r hr => (List.mem_filter.mp hr).1⟩

/-- the rejecting branch: a record without fits makes `info.chi2[0]` raise -/
theorem C18_error (chi cpd : Option (EF K)) (pre post : List (OutRec K ρ)) (r : OutRec K ρ)
    (hpre : HasBest pre) (hr : r.chi2 = []) :
    filterOutput chi cpd (pre ++ r :: post) = .error FilterErr.indexError := by
  have gen : ∀ g b, filterLoop chi cpd (pre ++ r :: post) (g, b) = .error FilterErr.indexError := by
    induction pre with
    | nil => intro g b; simp [filterLoop, hr]
    | cons q qs ih =>
      intro g b
      have hq : q.chi2 ≠ [] := hpre q List.mem_cons_self
      have ih' := ih (fun x hx => hpre x (List.mem_cons_of_mem _ hx))
      cases hc : q.chi2 with
      | nil => exact absurd hc hq
      | cons c0 t =>
        by_cases hgood : isGood chi cpd c0 (nDataSrc q.flags) = true
        · simp [filterLoop, hc, hgood, ih']
        · simp [filterLoop, hc, hgood, ih']
  exact gen [] []

/-! ### histories: the output paths as state -/

theorem OutFS.read_write_same (fs : OutFS K ρ) (p : String) (recs : List (OutRec K ρ)) :
    (fs.write p recs).read p = some recs := by
  simp [OutFS.write, OutFS.read]

theorem OutFS.read_write_other (fs : OutFS K ρ) (p q : String) (recs : List (OutRec K ρ)) (h : q ≠ p) :
    (fs.write p recs).read q = fs.read q := by
  have hpq : (p == q) = false := by simpa using (Ne.symm h)
  have hfun : ∀ e : String × List (OutRec K ρ),
      decide ((!(e.1 == p)) = true ∧ (e.1 == q) = true) = (e.1 == q) := by
    intro e
    by_cases heq : e.1 = q
    · simp [heq, h]
    · simp [heq]
  simp only [OutFS.write, OutFS.read, List.find?_cons, hpq, List.find?_filter, hfun]

/-- **C18 (histories).** However many `filter_output` calls came before, with whatever output names,
    thresholds and inputs (each input in the domain), after a call whose two output paths differ the
    *good* path holds exactly this call's good records and the *bad* path exactly its bad records —
    nothing of what the paths held before survives (both writers truncate on open, also the one that
    receives no record). -/
theorem C18_history (fs : OutFS K ρ) (before : List (FilterCall K ρ)) (c : FilterCall K ρ)
    (hdom : ∀ b ∈ before, HasBest b.input) (hc : HasBest c.input) (hpaths : c.goodPath ≠ c.badPath) :
    ∃ fs', runFilterCalls fs (before ++ [c]) = .ok fs' ∧
      fs'.read c.goodPath = some (c.input.filter (goesGood c.chi c.cpd)) ∧
      fs'.read c.badPath = some (c.input.filter (fun r => !goesGood c.chi c.cpd r)) := by
  induction before generalizing fs with
  | nil =>
    refine ⟨(fs.write c.goodPath (c.input.filter (goesGood c.chi c.cpd))).write c.badPath
      (c.input.filter (fun r => !goesGood c.chi c.cpd r)),
      by simp [runFilterCalls, filterOutputFS, filterOutput_ok c.chi c.cpd c.input hc], ?_, ?_⟩
    · rw [OutFS.read_write_other _ _ _ _ hpaths, OutFS.read_write_same]
    · rw [OutFS.read_write_same]
  | cons b bs ih =>
    have hb : HasBest b.input := hdom b List.mem_cons_self
    obtain ⟨fs', h1, h2, h3⟩ := ih ((fs.write b.goodPath (b.input.filter (goesGood b.chi b.cpd))).write b.badPath
      (b.input.filter (fun r => !goesGood b.chi b.cpd r))) (fun q hq => hdom q (List.mem_cons_of_mem _ hq))
    exact ⟨fs', by simpa [runFilterCalls, filterOutputFS, filterOutput_ok b.chi b.cpd b.input hb] using h1, h2, h3⟩

/-! ### further statements the correspondence check enforces -/

/-- **C18 (histories, independence).** What the two paths hold after a call does not depend on the
    earlier calls at all, nor on what the paths (or any other file) held to begin with. -/
theorem C18_history_indep (fs1 fs2 : OutFS K ρ) (before1 before2 : List (FilterCall K ρ)) (c : FilterCall K ρ)
    (h1 : ∀ b ∈ before1, HasBest b.input) (h2 : ∀ b ∈ before2, HasBest b.input) (hc : HasBest c.input)
    (hpaths : c.goodPath ≠ c.badPath) :
    ∃ r1 r2, runFilterCalls fs1 (before1 ++ [c]) = .ok r1 ∧ runFilterCalls fs2 (before2 ++ [c]) = .ok r2 ∧
      r1.read c.goodPath = r2.read c.goodPath ∧ r1.read c.badPath = r2.read c.badPath := by
  obtain ⟨r1, e1, g1, b1⟩ := C18_history fs1 before1 c h1 hc hpaths
  obtain ⟨r2, e2, g2, b2⟩ := C18_history fs2 before2 c h2 hc hpaths
  exact ⟨r1, r2, e1, e2, by rw [g1, g2], by rw [b1, b2]⟩

theorem hasBest_filter (input : List (OutRec K ρ)) (h : HasBest input) (p : OutRec K ρ → Bool) :
    HasBest (input.filter p) := fun r hr => h r (List.mem_filter.mp hr).1

/-- **C18 (re-filtering is stable).** Filtering the *good* file again with the same criterion gives the
    same good file and an empty bad file; filtering the *bad* file gives an empty good file and the
    same bad file. -/
theorem C18_refilter (chi cpd : Option (EF K)) (input good bad : List (OutRec K ρ))
    (hrun : filterOutput chi cpd input = .ok (good, bad)) (h : HasBest input) :
    filterOutput chi cpd good = .ok (good, []) ∧ filterOutput chi cpd bad = .ok ([], bad) := by
  rw [filterOutput_ok chi cpd input h] at hrun
  simp only [Except.ok.injEq, Prod.mk.injEq] at hrun
  obtain ⟨rfl, rfl⟩ := hrun
  constructor
  · rw [filterOutput_ok chi cpd _ (hasBest_filter input h _)]
    congr 2
    · simp [List.filter_filter]
    · rw [List.filter_filter]
      apply List.filter_eq_nil_iff.mpr
      intro r _
      cases goesGood chi cpd r <;> simp
  · rw [filterOutput_ok chi cpd _ (hasBest_filter input h _)]
    congr 2
    · rw [List.filter_filter]
      apply List.filter_eq_nil_iff.mpr
      intro r _
      cases goesGood chi cpd r <;> simp
    · simp [List.filter_filter]

/-- a source whose flag array has been edited (in place or not) -/
def withFlags (r : OutRec K ρ) (fl : List Nat) : OutRec K ρ := { r with flags := fl }

/-- **C18 (flags as they are at call time).** The decision for a record depends on its flags only
    through `n_data` of the flags it carries when the call is made: after an edit the decision is the
    one for the new count, two flag arrays with the same number of 1/4 entries give the same decision,
    and in a history the files of a call reflect the flags its input has at that call. -/
theorem C18_current_flags (chi cpd : Option (EF K)) (r : OutRec K ρ) (fl fl' : List Nat) :
    (∀ c0 t, r.chi2 = c0 :: t → goesGood chi cpd (withFlags r fl) = isGood chi cpd c0 (nDataSrc fl)) ∧
    (nDataSrc fl = nDataSrc fl' → goesGood chi cpd (withFlags r fl) = goesGood chi cpd (withFlags r fl')) ∧
    (∀ (fs : OutFS K ρ) (before : List (FilterCall K ρ)) (c : FilterCall K ρ) (edit : OutRec K ρ → List Nat),
      (∀ b ∈ before, HasBest b.input) → HasBest c.input → c.goodPath ≠ c.badPath →
      ∃ fs', runFilterCalls fs (before ++ [{ c with input := c.input.map (fun q => withFlags q (edit q)) }]) = .ok fs' ∧
        fs'.read c.goodPath = some ((c.input.map (fun q => withFlags q (edit q))).filter (goesGood c.chi c.cpd))) := by
  refine ⟨?_, ?_, ?_⟩
  · intro c0 t hc
    simp [goesGood, withFlags, hc]
  · intro hn
    cases hc : r.chi2 with
    | nil => simp [goesGood, withFlags, hc]
    | cons c0 t => simp [goesGood, withFlags, hc, hn]
  · intro fs before c edit hb hc hp
    have hc' : HasBest (c.input.map (fun q => withFlags q (edit q))) := by
      intro q hq
      obtain ⟨q0, hq0, rfl⟩ := List.mem_map.mp hq
      exact hc q0 hq0
    obtain ⟨fs', e, g, _⟩ := C18_history fs before { c with input := c.input.map (fun q => withFlags q (edit q)) } hb hc' hp
    exact ⟨fs', e, g⟩

/-- **C18 (chi= and cpd= are different criteria, related by n_data).** For a source with `n ≥ 1`
    fitted points, the threshold `cpd = t` decides exactly like the threshold `chi = n·t` — for every
    best chi² (finite, `±inf`, NaN) and every finite `t`; so the two criteria coincide when `n = 1`
    and only then in general (see the example below). -/
theorem C18_chi_vs_cpd (c0 : EF K) (t : K) (n : Nat) (hn : 0 < n) :
    isGood none (some (EF.fin t)) c0 n = isGood (some (EF.fin (natK n * t))) none c0 n ∧
    (n = 1 → isGood none (some (EF.fin t)) c0 n = isGood (some (EF.fin t)) none c0 n) := by
  have hpos : (0 : K) < natK n := natK_pos hn
  have hne : (natK n : K) ≠ 0 := ne_of_gt hpos
  have hnl : ¬ (natK n : K) < 0 := not_lt.mpr (le_of_lt hpos)
  have key : isGood none (some (EF.fin t)) c0 n = isGood (some (EF.fin (natK n * t))) none c0 n := by
    have htr : (decide (natK n * t = 0)) = decide (t = 0) := by
      by_cases ht : t = 0
      · simp [ht]
      · simp [ht, hne]
    cases c0 with
    | nan => simp [isGood, optTruthy, optBelow, EF.divN, EF.lt]
    | pinf => simp [isGood, optTruthy, optBelow, EF.divN, EF.lt, hnl]
    | ninf => simp [isGood, optTruthy, optBelow, EF.divN, EF.lt, hnl, EF.truthy, htr, hne]
    | fin x =>
      have hlt : decide (x / natK n < t) = decide (x < natK n * t) := by
        congr 1
        rw [div_lt_iff₀ hpos, mul_comm]
      simp [isGood, optTruthy, optBelow, EF.divN, EF.lt, hne, EF.truthy, htr, hlt]
  refine ⟨key, ?_⟩
  intro h1
  rw [key, h1]
  simp [natK]

/-! ### Non-vacuity -/

def exInputC18 : List (OutRec Rat String) :=
  [⟨[EF.fin 4, EF.fin 9], [1, 1, 3], "s1"⟩, ⟨[EF.fin 12], [1, 4, 1], "s2"⟩,
   ⟨[EF.pinf], [1, 1, 0], "s3"⟩, ⟨[EF.nan, EF.nan], [1, 1, 1], "s4"⟩, ⟨[EF.fin 1], [1, 9, 2], "s5"⟩]

example : HasBest exInputC18 := by simp [HasBest, exInputC18]

/-- a non-zero threshold is truthy, so the `hz…` hypotheses of `C18_criterion` are met vacuously -/
example : ∀ v : EF Rat, some (EF.fin (3 : Rat)) = some v → v.truthy = false → False := by
  intro v hv ht
  cases hv
  revert ht
  decide +kernel

/-- `cpd=3`: best chi² per point 2, 4, +inf, NaN, 1 → good = s1, s5 (in that order) -/
example : (filterOutput none (some (EF.fin 3)) exInputC18).toOption.map
      (fun gb => (gb.1.map (·.rest), gb.2.map (·.rest)))
    = some (["s1", "s5"], ["s2", "s3", "s4"]) := by decide +kernel

/-- a history whose last call sends everything to the good file: the bad file ends up empty although
    the first call had filled it -/
example : ((runFilterCalls ([] : OutFS Rat String)
      [⟨exInputC18, "g", "b", none, some (EF.fin 3)⟩, ⟨exInputC18.take 2, "g", "b", some (EF.fin 100), none⟩]).toOption.bind
      (fun fs => fs.read "b")).map (fun l => l.map (·.rest)) = some [] := by decide +kernel

/-- separating example: best chi² 10 on 4 fitted points is good for `cpd = 3` (2.5 per point) and bad for
    `chi = 3`; and `cpd = 3` decides like `chi = 12` -/
example : isGood (K := Rat) none (some (EF.fin 3)) (EF.fin 10) 4 = true ∧
    isGood (K := Rat) (some (EF.fin 3)) none (EF.fin 10) 4 = false ∧
    isGood (K := Rat) (some (EF.fin 12)) none (EF.fin 10) 4 = true := by decide +kernel

/-- re-filtering the example's good file: nothing moves -/
example : (filterOutput none (some (EF.fin 3)) (exInputC18.filter (goesGood none (some (EF.fin 3))))).toOption.map
      (fun gb => (gb.1.map (·.rest), gb.2.map (·.rest))) = some (["s1", "s5"], []) := by decide +kernel

/-- an in-place edit that drops two fitted points of `s1` (4/3 → 4/1 per point) turns it bad for `cpd = 3` -/
example : goesGood none (some (EF.fin (3 : Rat))) (⟨[EF.fin 4], [1, 1, 1], "s1"⟩ : OutRec Rat String) = true ∧
    goesGood none (some (EF.fin (3 : Rat))) (withFlags (⟨[EF.fin 4], [1, 1, 1], "s1"⟩ : OutRec Rat String) [1, 0, 0]) = false := by
  decide +kernel

end SF
