import SedVerif.Model.Partition
import SedVerif.Proofs.EF
/-!
# C18 — `filter_output` splits sources into two complete, disjoint, faithful files

Property theorems only.  Model: `SedVerif/Model/Partition.lean` (`isGood`, `filterLoop`,
`filterOutput`).  Records are arbitrary (any payload type `ρ`), best chi² values range over the
extended floats, `n_data` over all naturals, thresholds over `Option (EF K)` with Python truthiness.

Domain: every record has at least one fit (`HasBest`), otherwise `info.chi2[0]` raises
(`C18_error`).
-/
namespace SF
variable {K : Type} [Field K] [LinearOrder K] [IsStrictOrderedRing K] {ρ : Type}

/-- every record of the input has a best fit -/
def HasBest (input : List (OutRec K ρ)) : Prop := ∀ r ∈ input, r.chi2 ≠ []

/-- the branch `filter_output` takes for a record (for a record without fits: no branch, `false`) -/
def goesGood (chi cpd : Option (EF K)) (r : OutRec K ρ) : Bool :=
  match r.chi2 with
  | [] => false
  | c0 :: _ => isGood chi cpd c0 (nDataSrc r.flags)

theorem filterLoop_ok (chi cpd : Option (EF K)) (l : List (OutRec K ρ)) (h : HasBest l)
    (g b : List (OutRec K ρ)) :
    filterLoop chi cpd l (g, b)
      = .ok (g ++ l.filter (goesGood chi cpd), b ++ l.filter (fun r => !goesGood chi cpd r)) := by
  induction l generalizing g b with
  | nil => simp [filterLoop]
  | cons r rs ih =>
    have hr : r.chi2 ≠ [] := h r List.mem_cons_self
    have hrs : HasBest rs := fun q hq => h q (List.mem_cons_of_mem _ hq)
    cases hc : r.chi2 with
    | nil => exact absurd hc hr
    | cons c0 t =>
      have hg : goesGood chi cpd r = isGood chi cpd c0 (nDataSrc r.flags) := by simp [goesGood, hc]
      by_cases hgood : isGood chi cpd c0 (nDataSrc r.flags) = true
      · simp [filterLoop, hc, hgood, ih hrs, hg]
      · simp [filterLoop, hc, hgood, ih hrs, hg]

/-- the whole run: the two files hold `filter p input` and `filter (¬p) input` -/
theorem filterOutput_ok (chi cpd : Option (EF K)) (input : List (OutRec K ρ)) (h : HasBest input) :
    filterOutput chi cpd input
      = .ok (input.filter (goesGood chi cpd), input.filter (fun r => !goesGood chi cpd r)) := by
  simpa [filterOutput] using filterLoop_ok chi cpd input h [] []

/-- **C18 (complete and disjoint).** The run succeeds; the two files together hold exactly the input
    records (as a multiset: every source exactly once, counting repetitions) and no record is in both. -/
theorem C18_partition (chi cpd : Option (EF K)) (input : List (OutRec K ρ)) (h : HasBest input) :
    ∃ good bad, filterOutput chi cpd input = .ok (good, bad) ∧
      (good ++ bad).Perm input ∧ good.length + bad.length = input.length ∧
      ∀ r, r ∈ good → r ∉ bad := by
  refine ⟨_, _, filterOutput_ok chi cpd input h, List.filter_append_perm _ _, ?_, ?_⟩
  · simpa using (List.filter_append_perm (goesGood chi cpd) input).length_eq
  · intro r hg hb
    have h1 := (List.mem_filter.mp hg).2
    have h2 := (List.mem_filter.mp hb).2
    simp [h1] at h2

/-- **C18 (order preserved).** Each file lists its records in input order. -/
theorem C18_order (chi cpd : Option (EF K)) (input good bad : List (OutRec K ρ))
    (hrun : filterOutput chi cpd input = .ok (good, bad)) (h : HasBest input) :
    good.Sublist input ∧ bad.Sublist input := by
  rw [filterOutput_ok chi cpd input h] at hrun
  simp only [Except.ok.injEq, Prod.mk.injEq] at hrun
  obtain ⟨rfl, rfl⟩ := hrun
  exact ⟨List.filter_sublist, List.filter_sublist⟩

/-- **C18 (criterion).** A record goes to the *good* file iff its best chi² is below `chi` or its best
    chi² per fitted point is below `cpd` (whichever are given).  Python treats a threshold `0.0` like
    `None`; that agrees with "below the threshold" because nothing non-negative is below zero
    (hypotheses `hz…`: a falsy threshold has nothing below it — true for every chi², a sum of
    non-negative terms).  With best values not equal to the threshold (the property's quantifier)
    `<` and `<=` say the same. -/
theorem C18_criterion (chi cpd : Option (EF K)) (input good bad : List (OutRec K ρ))
    (hrun : filterOutput chi cpd input = .ok (good, bad)) (h : HasBest input)
    (r : OutRec K ρ) (hr : r ∈ input) (c0 : EF K) (hc0 : r.chi2.head? = some c0)
    (hzchi : ∀ v, chi = some v → v.truthy = false → EF.lt c0 v = false)
    (hzcpd : ∀ v, cpd = some v → v.truthy = false → EF.lt (EF.divN c0 (natK (nDataSrc r.flags))) v = false) :
    (r ∈ good ↔ ((∃ v, chi = some v ∧ EF.lt c0 v = true) ∨
                 (∃ v, cpd = some v ∧ EF.lt (EF.divN c0 (natK (nDataSrc r.flags))) v = true))) ∧
    (r ∈ bad ↔ ¬ ((∃ v, chi = some v ∧ EF.lt c0 v = true) ∨
                 (∃ v, cpd = some v ∧ EF.lt (EF.divN c0 (natK (nDataSrc r.flags))) v = true))) ∧
    ((∀ v, chi = some v → EF.eq c0 v = false) →
     (∀ v, cpd = some v → EF.eq (EF.divN c0 (natK (nDataSrc r.flags))) v = false) →
      (r ∈ good ↔ ((∃ v, chi = some v ∧ EF.le c0 v = true) ∨
                   (∃ v, cpd = some v ∧ EF.le (EF.divN c0 (natK (nDataSrc r.flags))) v = true)))) := by
  rw [filterOutput_ok chi cpd input h] at hrun
  simp only [Except.ok.injEq, Prod.mk.injEq] at hrun
  obtain ⟨rfl, rfl⟩ := hrun
  have hg : goesGood chi cpd r = isGood chi cpd c0 (nDataSrc r.flags) := by
    cases hc : r.chi2 with
    | nil => simp [hc] at hc0
    | cons d t => simp [hc] at hc0; subst hc0; simp [goesGood, hc]
  -- the branch condition against the specification
  have hspec : isGood chi cpd c0 (nDataSrc r.flags) = true ↔
      ((∃ v, chi = some v ∧ EF.lt c0 v = true) ∨
       (∃ v, cpd = some v ∧ EF.lt (EF.divN c0 (natK (nDataSrc r.flags))) v = true)) := by
    have one : ∀ (t : Option (EF K)) (x : EF K), (∀ v, t = some v → v.truthy = false → EF.lt x v = false) →
        ((optTruthy t && optBelow x t) = true ↔ ∃ v, t = some v ∧ EF.lt x v = true) := by
      intro t x hz
      cases t with
      | none => simp [optTruthy, optBelow]
      | some v =>
        cases ht : v.truthy with
        | true => simp [optTruthy, optBelow, ht]
        | false => simp [optTruthy, optBelow, ht, hz v rfl ht]
    simp only [isGood, Bool.or_eq_true, one chi c0 hzchi, one cpd _ hzcpd]
  refine ⟨?_, ?_, ?_⟩
  · rw [List.mem_filter, hg, hspec]; simp [hr]
  · rw [List.mem_filter, hg, ← hspec]; simp [hr]
  · intro hne1 hne2
    rw [List.mem_filter, hg, hspec]
    simp only [hr, true_and]
    have two : ∀ (t : Option (EF K)) (x : EF K), (∀ v, t = some v → EF.eq x v = false) →
        ((∃ v, t = some v ∧ EF.lt x v = true) ↔ ∃ v, t = some v ∧ EF.le x v = true) := by
      intro t x hne
      constructor
      · rintro ⟨v, hv, hlt⟩; exact ⟨v, hv, EF.le_of_lt hlt⟩
      · rintro ⟨v, hv, hle⟩; exact ⟨v, hv, EF.lt_of_le_of_ne hle (hne v hv)⟩
    rw [two chi c0 hne1, two cpd _ hne2]

/-- **C18 (records unchanged).** What is written is the input record itself: each file is the input
    list with some records left out (nothing altered, nothing invented), namely `filter` of the input
    by the branch condition. -/
theorem C18_unchanged (chi cpd : Option (EF K)) (input good bad : List (OutRec K ρ))
    (hrun : filterOutput chi cpd input = .ok (good, bad)) (h : HasBest input) :
    good = input.filter (goesGood chi cpd) ∧ bad = input.filter (fun r => !goesGood chi cpd r) ∧
    (∀ r ∈ good, r ∈ input) ∧ (∀ r ∈ bad, r ∈ input) := by
  rw [filterOutput_ok chi cpd input h] at hrun
  simp only [Except.ok.injEq, Prod.mk.injEq] at hrun
  obtain ⟨rfl, rfl⟩ := hrun
  exact ⟨rfl, rfl, fun r hr => (List.mem_filter.mp hr).1, fun r hr => (List.mem_filter.mp hr).1⟩

/-- the rejecting branch: a record without fits makes `info.chi2[0]` raise -/
theorem C18_error (chi cpd : Option (EF K)) (pre post : List (OutRec K ρ)) (r : OutRec K ρ)
    (hpre : HasBest pre) (hr : r.chi2 = []) :
    filterOutput chi cpd (pre ++ r :: post) = .error FilterErr.indexError := by
  have gen : ∀ g b, filterLoop chi cpd (pre ++ r :: post) (g, b) = .error FilterErr.indexError := by
    induction pre with
    | nil => intro g b; simp [filterLoop, hr]
    | cons q qs ih =>
      intro g b
      have hq : q.chi2 ≠ [] := hpre q List.mem_cons_self
      have ih' := ih (fun x hx => hpre x (List.mem_cons_of_mem _ hx))
      cases hc : q.chi2 with
      | nil => exact absurd hc hq
      | cons c0 t =>
        by_cases hgood : isGood chi cpd c0 (nDataSrc q.flags) = true
        · simp [filterLoop, hc, hgood, ih']
        · simp [filterLoop, hc, hgood, ih']
  exact gen [] []

/-! ### histories: the output paths as state -/

theorem OutFS.read_write_same (fs : OutFS K ρ) (p : String) (recs : List (OutRec K ρ)) :
    (fs.write p recs).read p = some recs := by
  simp [OutFS.write, OutFS.read]

theorem OutFS.read_write_other (fs : OutFS K ρ) (p q : String) (recs : List (OutRec K ρ)) (h : q ≠ p) :
    (fs.write p recs).read q = fs.read q := by
  have hpq : (p == q) = false := by simpa using (Ne.symm h)
  have hfun : ∀ e : String × List (OutRec K ρ),
      decide ((!(e.1 == p)) = true ∧ (e.1 == q) = true) = (e.1 == q) := by
    intro e
    by_cases heq : e.1 = q
    · simp [heq, h]
    · simp [heq]
  simp only [OutFS.write, OutFS.read, List.find?_cons, hpq, List.find?_filter, hfun]

/-- **C18 (histories).** However many `filter_output` calls came before, with whatever output names,
    thresholds and inputs (each input in the domain), after a call whose two output paths differ the
    *good* path holds exactly this call's good records and the *bad* path exactly its bad records —
    nothing of what the paths held before survives (both writers truncate on open, also the one that
    receives no record). -/
theorem C18_history (fs : OutFS K ρ) (before : List (FilterCall K ρ)) (c : FilterCall K ρ)
    (hdom : ∀ b ∈ before, HasBest b.input) (hc : HasBest c.input) (hpaths : c.goodPath ≠ c.badPath) :
    ∃ fs', runFilterCalls fs (before ++ [c]) = .ok fs' ∧
      fs'.read c.goodPath = some (c.input.filter (goesGood c.chi c.cpd)) ∧
      fs'.read c.badPath = some (c.input.filter (fun r => !goesGood c.chi c.cpd r)) := by
  induction before generalizing fs with
  | nil =>
    refine ⟨(fs.write c.goodPath (c.input.filter (goesGood c.chi c.cpd))).write c.badPath
      (c.input.filter (fun r => !goesGood c.chi c.cpd r)),
      by simp [runFilterCalls, filterOutputFS, filterOutput_ok c.chi c.cpd c.input hc], ?_, ?_⟩
    · rw [OutFS.read_write_other _ _ _ _ hpaths, OutFS.read_write_same]
    · rw [OutFS.read_write_same]
  | cons b bs ih =>
    have hb : HasBest b.input := hdom b List.mem_cons_self
    obtain ⟨fs', h1, h2, h3⟩ := ih ((fs.write b.goodPath (b.input.filter (goesGood b.chi b.cpd))).write b.badPath
      (b.input.filter (fun r => !goesGood b.chi b.cpd r))) (fun q hq => hdom q (List.mem_cons_of_mem _ hq))
    exact ⟨fs', by simpa [runFilterCalls, filterOutputFS, filterOutput_ok b.chi b.cpd b.input hb] using h1, h2, h3⟩

/-! ### Non-vacuity -/

def exInputC18 : List (OutRec Rat String) :=
  [⟨[EF.fin 4, EF.fin 9], [1, 1, 3], "s1"⟩, ⟨[EF.fin 12], [1, 4, 1], "s2"⟩,
   ⟨[EF.pinf], [1, 1, 0], "s3"⟩, ⟨[EF.nan, EF.nan], [1, 1, 1], "s4"⟩, ⟨[EF.fin 1], [1, 9, 2], "s5"⟩]

example : HasBest exInputC18 := by simp [HasBest, exInputC18]

/-- a non-zero threshold is truthy, so the `hz…` hypotheses of `C18_criterion` are met vacuously -/
example : ∀ v : EF Rat, some (EF.fin (3 : Rat)) = some v → v.truthy = false → False := by
  intro v hv ht
  cases hv
  revert ht
  decide +kernel

/-- `cpd=3`: best chi² per point 2, 4, +inf, NaN, 1 → good = s1, s5 (in that order) -/
example : (filterOutput none (some (EF.fin 3)) exInputC18).toOption.map
      (fun gb => (gb.1.map (·.rest), gb.2.map (·.rest)))
    = some (["s1", "s5"], ["s2", "s3", "s4"]) := by decide +kernel

/-- a history whose last call sends everything to the good file: the bad file ends up empty although
    the first call had filled it -/
example : ((runFilterCalls ([] : OutFS Rat String)
      [⟨exInputC18, "g", "b", none, some (EF.fin 3)⟩, ⟨exInputC18.take 2, "g", "b", some (EF.fin 100), none⟩]).toOption.bind
      (fun fs => fs.read "b")).map (fun l => l.map (·.rest)) = some [] := by decide +kernel

end SF
