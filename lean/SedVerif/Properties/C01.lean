import SedVerif.Proofs.Fit
/-!
# C01 — best-fit (A_V, scale) is the constrained least-squares optimum

Property theorems only.  Model: `SedVerif/Model/Fit.lean` (`linreg`, `optScaleAfterAv`, `fit2`,
`chi2`, `fit2Full`).  All statements hold over every linearly ordered field, every list of bands.
-/
namespace SF
variable {K : Type} [Field K] [LinearOrder K] [IsStrictOrderedRing K]

/-- the contribution of one limit band to chi² at a model lying at `a·k + s·q` -/
def limitTerm (big : K) (ln1m : K → K) (a s : K) (p : Pt K) : K :=
  let m := a * p.k + s * p.q
  if p.flag = 2 ∧ m < p.r then penalty big ln1m p.e
  else if p.flag = 3 ∧ p.r < m then penalty big ln1m p.e
  else 0

/-- well-formed band list: flags from the documented alphabet, non-negative weights, and weight zero
    on every band that is not fitted (flags other than 1 and 4).  `mkPts ∘ logTransform` produces
    exactly such lists (see `C03_weights`). -/
def WF (ps : List (Pt K)) : Prop :=
  ∀ p ∈ ps, 0 ≤ p.w ∧ (p.flag ≠ 1 → p.flag ≠ 4 → p.w = 0)

/-- **C01 (optimality).** For `lo ≤ hi`, non-negative weights and a non-singular regression, the
    reported `(av, sc)` lies in the box and minimises the weighted sum of squares over
    `lo ≤ a ≤ hi`, `s` free. -/
theorem C01_box_optimal (lo hi : K) (hlohi : lo ≤ hi) (ps : List (Pt K)) (hw : ∀ p ∈ ps, 0 ≤ p.w)
    (h22 : 0 < m22 ps) (hdet : 0 < m11 ps * m22 ps - m12 ps * m12 ps) :
    lo ≤ (fit2 lo hi ps).1 ∧ (fit2 lo hi ps).1 ≤ hi ∧
    ∀ a s : K, lo ≤ a → a ≤ hi → ssq (fit2 lo hi ps).1 (fit2 lo hi ps).2 ps ≤ ssq a s ps := by
  obtain ⟨h1, h2, _⟩ := fit2_box_optimal lo hi hlohi ps hw h22 hdet lo 0 le_rfl hlohi
  exact ⟨h1, h2, fun a s ha ha' => (fit2_box_optimal lo hi hlohi ps hw h22 hdet a s ha ha').2.2⟩

/-- **C01 (non-singularity).** The property's own wording — two fitted points whose extinction
    coefficients differ, scale pattern `q ≡ c ≠ 0` (the code uses −2) — implies the algebraic
    hypotheses of `C01_box_optimal`. -/
theorem C01_nonsingular (ps : List (Pt K)) (c : K) (hc : c ≠ 0) (hq : ∀ p ∈ ps, p.q = c)
    (hw : ∀ p ∈ ps, 0 ≤ p.w) (pi pj : Pt K) (hi : pi ∈ ps) (hj : pj ∈ ps)
    (hwi : 0 < pi.w) (hwj : 0 < pj.w) (hk : pi.k ≠ pj.k) :
    0 < m22 ps ∧ 0 < m11 ps * m22 ps - m12 ps * m12 ps := by
  have h22 : 0 < m22 ps := by
    unfold m22
    apply sumBy_pos_of_mem _ _ (fun p hp => mul_nonneg (mul_self_nonneg _) (hw p hp)) pi hi
    rw [hq pi hi]; exact mul_pos (mul_self_pos.mpr hc) hwi
  refine ⟨h22, ?_⟩
  -- Q(m22, −m12) = m22 · det, and Q is positive at any non-zero displacement
  have hQ := quad_eq (m22 ps) (-(m12 ps)) ps
  have hpos : 0 < sumBy (fun p => (p.k * m22 ps + p.q * -(m12 ps)) * (p.k * m22 ps + p.q * -(m12 ps)) * p.w) ps := by
    have hnn : ∀ p ∈ ps, 0 ≤ (p.k * m22 ps + p.q * -(m12 ps)) * (p.k * m22 ps + p.q * -(m12 ps)) * p.w :=
      fun p hp => mul_nonneg (mul_self_nonneg _) (hw p hp)
    by_cases hzi : pi.k * m22 ps + pi.q * -(m12 ps) = 0
    · have hzj : pj.k * m22 ps + pj.q * -(m12 ps) ≠ 0 := by
        intro hzj
        rw [hq pi hi] at hzi; rw [hq pj hj] at hzj
        have : (pi.k - pj.k) * m22 ps = 0 := by linear_combination hzi - hzj
        rcases mul_eq_zero.mp this with h | h
        · exact hk (sub_eq_zero.mp h)
        · exact (ne_of_gt h22) h
      exact sumBy_pos_of_mem _ _ hnn pj hj (mul_pos (mul_self_pos.mpr hzj) hwj)
    · exact sumBy_pos_of_mem _ _ hnn pi hi (mul_pos (mul_self_pos.mpr hzi) hwi)
  rw [← hQ] at hpos
  have : m22 ps * (m11 ps * m22 ps - m12 ps * m12 ps)
      = m22 ps * m22 ps * m11 ps + 2 * m22 ps * -(m12 ps) * m12 ps + -(m12 ps) * -(m12 ps) * m22 ps := by ring
  rw [← this] at hpos
  exact (pos_iff_pos_of_mul_pos hpos).mp h22

/-- **C01 (chi² decomposition).** The reported chi² is the weighted sum of squares over the fitted
    points plus the limit penalties evaluated at the same `(av, sc)`. -/
theorem C01_chi2_decomp (big : K) (ln1m : K → K) (a s : K) (ps : List (Pt K)) (hwf : WF ps) :
    chi2 big ln1m a s ps = ssq a s ps + sumBy (limitTerm big ln1m a s) ps := by
  unfold chi2 ssq
  rw [← sumBy_add]
  apply sumBy_congr
  intro p hp
  obtain ⟨_, hz⟩ := hwf p hp
  simp only [chiTerm, limitTerm]
  by_cases h0 : p.flag = 0
  · have : p.w = 0 := hz (by omega) (by omega)
    simp [h0, this]
  · by_cases h2 : p.flag = 2
    · have : p.w = 0 := hz (by omega) (by omega)
      by_cases hm : a * p.k + s * p.q < p.r <;> simp [h2, hm, this]
    · by_cases h3 : p.flag = 3
      · have : p.w = 0 := hz (by omega) (by omega)
        by_cases hm : p.r < a * p.k + s * p.q <;> simp [h3, hm, this]
      · rw [if_neg h0, if_neg h2, if_neg h3, if_neg (by simp [h2]), if_neg (by simp [h3])]; ring

/-- **C01 (reported chi²).** `fit2Full` reports the decomposition at the very `(av, sc)` it reports. -/
theorem C01_reported (big : K) (ln1m : K → K) (lo hi : K) (ps : List (Pt K)) (hwf : WF ps) :
    (fit2Full big ln1m lo hi ps).1 = (fit2 lo hi ps).1 ∧
    (fit2Full big ln1m lo hi ps).2.1 = (fit2 lo hi ps).2 ∧
    (fit2Full big ln1m lo hi ps).2.2
      = ssq (fit2 lo hi ps).1 (fit2 lo hi ps).2 ps
        + sumBy (limitTerm big ln1m (fit2 lo hi ps).1 (fit2 lo hi ps).2) ps := by
  unfold fit2Full
  generalize fit2 lo hi ps = AS
  obtain ⟨A, S⟩ := AS
  exact ⟨rfl, rfl, C01_chi2_decomp big ln1m A S ps hwf⟩

/-- **C01 (degenerate range).** `lo = hi` forces the reported A_V to that value. -/
theorem C01_degenerate_range (lo : K) (ps : List (Pt K)) : (fit2 lo lo ps).1 = lo := by
  unfold fit2
  generalize linreg ps = AS
  obtain ⟨A, S⟩ := AS
  simp only
  by_cases h1 : A < lo
  · simp [h1]
  · by_cases h2 : lo < A
    · simp [h1, h2]
    · simp only [h1, h2, if_false]; exact le_antisymm (not_lt.mp h2) (not_lt.mp h1)

/-! ### Non-vacuity: a concrete two-band source meets every hypothesis above (over ℚ). -/

def exPts : List (Pt Rat) :=
  [{ r := 1, k := -1/2, q := -2, w := 4, flag := 1, e := 1/2 },
   { r := 3, k := -1/5, q := -2, w := 9, flag := 4, e := 1/3 },
   { r := 2, k := -1/3, q := -2, w := 0, flag := 3, e := 1/2 }]

example : (∀ p ∈ exPts, p.q = (-2 : Rat)) ∧ (∀ p ∈ exPts, 0 ≤ p.w) ∧ WF exPts := by
  refine ⟨?_, ?_, ?_⟩ <;> simp [exPts, WF]

example : 0 < m22 exPts ∧ 0 < m11 exPts * m22 exPts - m12 exPts * m12 exPts := by
  simp [exPts, m11, m12, m22, sumBy]; norm_num

end SF
