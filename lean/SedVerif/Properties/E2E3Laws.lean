import SedVerif.Properties.E2E3
import Mathlib.Analysis.SpecialFunctions.Log.Base
import Mathlib.Analysis.SpecialFunctions.Pow.Real
/-!
# The laws `E2E3_grid` assumes of `ceilK`, `lg`, `exp10` hold for the real functions

`E2E3_grid` takes `ceilK : K → ℕ`, `lg : K → K` (`log10`) and `exp10 : K → K` (`10**x`) as parameters of the
environment and assumes only: `x ≤ ceilK x`, `x ≤ m → ceilK x ≤ m`, `lg (exp10 x) = x`.  Over `K := ℝ` with
`ceilK := ⌈·⌉₊`, `lg := Real.logb 10`, `exp10 := (10 : ℝ) ^ ·` these hold, and a distance range
`0 < dmin < dmax` gives `lg dmin < lg dmax`; so the theorem instantiates.
-/
namespace SF
open SF.Pipe3

theorem real_lg_exp10 (x : ℝ) : Real.logb 10 ((10 : ℝ) ^ x) = x :=
  Real.logb_rpow (by norm_num) (by norm_num)

theorem real_lg_lt (a b : ℝ) (ha : 0 < a) (hab : a < b) : Real.logb 10 a < Real.logb 10 b :=
  Real.logb_lt_logb (by norm_num) ha hab

theorem real_ceil : (∀ x : ℝ, x ≤ ((⌈x⌉₊ : ℕ) : ℝ)) ∧ (∀ (x : ℝ) (m : ℕ), x ≤ (m : ℝ) → ⌈x⌉₊ ≤ m) :=
  ⟨fun x => Nat.le_ceil x, fun _ _ h => Nat.ceil_le.mpr h⟩

/-- `E2E3_grid` over the reals with the real functions, for a proper distance range -/
example (env : P3Env ℝ) (inp : P3Input ℝ) (hceil : env.ceilK = fun x => ⌈x⌉₊) (hlg : env.lg = Real.logb 10)
    (hexp : env.exp10 = fun x => (10 : ℝ) ^ x) (hs : 0 < inp.step) (h0 : 0 < inp.dmin) (hlt : inp.dmin < inp.dmax) :
    2 ≤ env.ceilK (1 + (env.lg inp.dmax - env.lg inp.dmin) / inp.step) ∧
    (logdOf env inp).length = env.ceilK (1 + (env.lg inp.dmax - env.lg inp.dmin) / inp.step) ∧
    (logdOf env inp)[0]? = some (Real.logb 10 inp.dmin) := by
  have hg := (E2E3_grid env inp (by rw [hceil]; exact real_ceil.1) (by rw [hceil]; exact real_ceil.2)
    (by intro x; rw [hlg, hexp]; exact real_lg_exp10 x) hs).2.1
    (by rw [hlg]; exact real_lg_lt _ _ h0 hlt)
  exact ⟨hg.1, hg.2.1, by rw [← hlg]; exact hg.2.2.2.2.1⟩

end SF
