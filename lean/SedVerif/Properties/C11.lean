import SedVerif.Proofs.FitInvar
import SedVerif.Proofs.FitStore
import SedVerif.Properties.C01
import SedVerif.Properties.C04
/-!
# C11 — fits do not depend on labelling, ordering, units of brightness, or history

Property theorems only.  Model: `Model/Fit.lean` and `Model/FitExtra.lean` (`obsPts`, `obsFit2`,
`obsFit3`, `FitterState`, `fitStep`, `fitAll`) and, for purity, `Model/FitStore.lean` (`Models.fit` as reads and
writes on a store of array objects).  `ShiftRel` is defined in `Proofs/FitInvar.lean`.
Everything holds over every linearly ordered field and every list length.
-/
namespace SF
variable {K : Type} [Field K] [LinearOrder K] [IsStrictOrderedRing K]

/-- band `o'` is band `o` after every flux and error of the source has been multiplied by `c`:
    fluxes (flags 1, 2, 3) and errors (flag 1) are multiplied, confidences of limits are kept,
    a flag-4 band — whose "flux" already is a log10 value — gets `lg c` added and keeps its log10
    error; ignored bands (flags 0, 9) may carry anything -/
def ScaledObs (lg : K → K) (c : K) (o o' : Obs K) : Prop :=
  o'.flag = o.flag ∧
  (o.flag = 1 → o'.flux = c * o.flux ∧ o'.err = c * o.err) ∧
  (o.flag = 2 ∨ o.flag = 3 → o'.flux = c * o.flux ∧ o'.err = o.err) ∧
  (o.flag = 4 → o'.flux = o.flux + lg c ∧ o'.err = o.err)

/-- **C11 (filter permutation), point level.** A permutation of the band list leaves the regression,
    the clamped `(av, sc)`, chi² at any `(a, s)`, the full distance-independent result and the
    distance-dependent A_V unchanged. -/
theorem C11_filter_perm {ps ps' : List (Pt K)} (h : ps.Perm ps') (big : K) (ln1m : K → K) (lo hi : K) :
    linreg ps = linreg ps' ∧ fit2 lo hi ps = fit2 lo hi ps' ∧
    (∀ a s, chi2 big ln1m a s ps = chi2 big ln1m a s ps') ∧
    fit2Full big ln1m lo hi ps = fit2Full big ln1m lo hi ps' ∧ optAv ps = optAv ps' := by
  refine ⟨linreg_perm h, fit2_perm lo hi h, fun a s => chi2_perm big ln1m a s h, ?_, optAv_perm h⟩
  simp only [fit2Full, fit2_perm lo hi h, chi2_perm big ln1m _ _ h]

/-- **C11 (filter permutation), distance-dependent mode.** Permuting the bands at every trial distance
    leaves the per-distance `(av, chi2)` table and the reported `(av, sc, chi2, distance index)`
    unchanged. -/
theorem C11_filter_perm3 {pss pss' : List (List (Pt K))} (h : List.Forall₂ List.Perm pss pss')
    (big : K) (ln1m : K → K) (lo hi : K) (logd : List K) :
    fit3PerDist big ln1m lo hi pss = fit3PerDist big ln1m lo hi pss' ∧
    fit3 big ln1m lo hi logd pss = fit3 big ln1m lo hi logd pss' := by
  have := fit3PerDist_perm big ln1m lo hi h
  exact ⟨this, by simp only [fit3, this]⟩

/-- **C11 (filter permutation), source level.** Permuting the filters — photometry, model fluxes and
    extinction coefficients alike, i.e. a permutation of the (band, model flux, coefficient)
    triples — gives every model the same result, in both modes. -/
theorem C11_filter_perm_source (lg : K → K) (ln10 big : K) (ln1m : K → K) (lo hi : K)
    {os os' : List (Obs K)} {ks ks' : List K} :
    (∀ mf mf', (os.zip (mf.zip ks)).Perm (os'.zip (mf'.zip ks')) →
      obsFit2 lg ln10 big ln1m lo hi os ks mf = obsFit2 lg ln10 big ln1m lo hi os' ks' mf') ∧
    (∀ logd mfd mfd',
      List.Forall₂ (fun mf mf' => (os.zip (mf.zip ks)).Perm (os'.zip (mf'.zip ks'))) mfd mfd' →
      obsFit3 lg ln10 big ln1m lo hi logd os ks mfd = obsFit3 lg ln10 big ln1m lo hi logd os' ks' mfd') := by
  constructor
  · intro mf mf' h
    exact (C11_filter_perm (obsPts_perm lg ln10 h) big ln1m lo hi).2.2.2.1
  · intro logd mfd mfd' h
    unfold obsFit3
    refine (C11_filter_perm3 ?_ big ln1m lo hi logd).2
    rw [List.forall₂_map_left_iff, List.forall₂_map_right_iff]
    exact h.imp (fun _ _ hp => obsPts_perm lg ln10 hp)

/-- **C11 (model permutation), unsorted.** Permuting the models inside the package permutes the
    per-model results alike (`Models.fit` maps one computation over the model axis). -/
theorem C11_model_perm (lg : K → K) (ln10 big : K) (ln1m : K → K) (st : FitterState K)
    (models' : List (List (List K))) (h : st.models.Perm models') (src : List (Obs K)) :
    (fitOne lg ln10 big ln1m st src).Perm (fitOne lg ln10 big ln1m { st with models := models' } src) := by
  unfold fitOne
  exact h.map _

/-- **C11 (model permutation), ranked.** Any two rankings by chi² (`S`, `S'`: rearrangements sorted by
    the third component) of result lists that are permutations of each other contain the same rows
    and show the same chi² sequence — they are equal up to the order inside groups of tied chi². -/
theorem C11_model_perm_ranked {R R' S S' : List (K × K × K)} (h : R.Perm R')
    (hS : S.Perm R) (hS' : S'.Perm R')
    (hs : S.Pairwise (fun x y => x.2.2 ≤ y.2.2)) (hs' : S'.Pairwise (fun x y => x.2.2 ≤ y.2.2)) :
    S.Perm S' ∧ S.map (·.2.2) = S'.map (·.2.2) := by
  have hp : S.Perm S' := (hS.trans h).trans hS'.symm
  refine ⟨hp, ?_⟩
  apply List.Perm.eq_of_pairwise (le := (· ≤ ·)) (fun a b _ _ hab hba => le_antisymm hab hba)
  · exact List.pairwise_map.mpr hs
  · exact List.pairwise_map.mpr hs'
  · exact hp.map _

/-- **C11 (brightness units), point level.** If every residual of a band list with scale pattern
    `q ≡ −2` is shifted by `t` (ignored bands excepted) and the regression is non-singular, the
    distance-independent result has the same A_V, the scale lowered by `t/2` and the same chi² —
    limit terms included, since model and limit shift together. -/
theorem C11_scale_pts (big : K) (ln1m : K → K) (lo hi t : K) {ps ps' : List (Pt K)}
    (h : List.Forall₂ (ShiftRel t) ps ps') (hq : ∀ p ∈ ps, p.q = scLaw)
    (hdet : m11 ps * m22 ps - m12 ps * m12 ps ≠ 0) (h22 : m22 ps ≠ 0) :
    fit2Full big ln1m lo hi ps'
      = ((fit2Full big ln1m lo hi ps).1, (fit2Full big ln1m lo hi ps).2.1 - t / 2,
         (fit2Full big ln1m lo hi ps).2.2) := by
  simp only [fit2Full, fit2_shift lo hi h hq hdet h22]
  generalize fit2 lo hi ps = AS
  obtain ⟨A, S⟩ := AS
  simp only [chi2_shift big ln1m A S h hq]

/-- **C11 (brightness units), source level.** Distance-independent mode: if `lg (c·F) = lg c + lg F` for
    the fluxes of the source, multiplying every flux and error by `c ≠ 0` leaves A_V and chi² of every
    (non-singular) model unchanged and lowers its scale by `lg c / 2`. -/
theorem C11_scale (lg : K → K) (ln10 big : K) (ln1m : K → K) (c : K) (hc : c ≠ 0)
    {os os' : List (Obs K)} (h : List.Forall₂ (ScaledObs lg c) os os')
    (hlg : ∀ o ∈ os, (o.flag = 1 ∨ o.flag = 2 ∨ o.flag = 3) → lg (c * o.flux) = lg c + lg o.flux)
    (lo hi : K) (ks mf : List K)
    (hdet : m11 (obsPts lg ln10 os ks mf) * m22 (obsPts lg ln10 os ks mf)
      - m12 (obsPts lg ln10 os ks mf) * m12 (obsPts lg ln10 os ks mf) ≠ 0)
    (h22 : m22 (obsPts lg ln10 os ks mf) ≠ 0) :
    obsFit2 lg ln10 big ln1m lo hi os' ks mf
      = ((obsFit2 lg ln10 big ln1m lo hi os ks mf).1,
         (obsFit2 lg ln10 big ln1m lo hi os ks mf).2.1 - lg c / 2,
         (obsFit2 lg ln10 big ln1m lo hi os ks mf).2.2) := by
  unfold obsFit2
  refine C11_scale_pts big ln1m lo hi (lg c) ?_ (obsPts_q lg ln10 os ks mf) hdet h22
  apply obsPts_rel
  -- thread the `lg` law, which is stated by membership, through the band-wise relation
  have h' : List.Forall₂ (fun o o' => ScaledObs lg c o o' ∧
      ((o.flag = 1 ∨ o.flag = 2 ∨ o.flag = 3) → lg (c * o.flux) = lg c + lg o.flux)) os os' := by
    clear hdet h22
    induction h with
    | nil => exact List.Forall₂.nil
    | cons hab _ ih =>
      exact List.Forall₂.cons ⟨hab, hlg _ List.mem_cons_self⟩
        (ih (fun o ho => hlg o (List.mem_cons_of_mem _ ho)))
  refine h'.imp ?_
  intro o o' ⟨⟨hf, h1, h23, h4⟩, hl⟩ mf k
  obtain ⟨f, x, e⟩ := o
  obtain ⟨f', x', e'⟩ := o'
  simp only at hf h1 h23 h4 hl
  subst hf
  by_cases c1 : f' = 1
  · obtain ⟨hx, he⟩ := h1 c1
    subst c1; subst hx; subst he
    have hrel : c * e / (c * x) = e / x := mul_div_mul_left e x hc
    refine ⟨rfl, rfl, ?_, rfl, ?_, Or.inl ?_⟩
    · simp [mkPt, logTransform, hrel]
    · simp [mkPt, logTransform, hrel]
    · simp only [mkPt, logTransform, if_true, hrel, hl (Or.inl rfl)]; ring
  · by_cases c23 : f' = 2 ∨ f' = 3
    · obtain ⟨hx, he⟩ := h23 c23
      subst hx; subst he
      have hl' := hl (Or.inr c23)
      refine ⟨rfl, rfl, ?_, ?_, ?_, Or.inl ?_⟩
      · simp [mkPt, logTransform, c1, c23]
      · simp [mkPt, logTransform, c1, c23]
      · simp [mkPt, logTransform, c1, c23]
      · simp only [mkPt, logTransform, c1, c23, if_true, if_false, hl']; ring
    · by_cases c4 : f' = 4
      · obtain ⟨hx, he⟩ := h4 c4
        subst c4; subst hx; subst he
        refine ⟨rfl, rfl, ?_, rfl, ?_, Or.inl ?_⟩
        · simp [mkPt, logTransform]
        · simp [mkPt, logTransform]
        · simp only [mkPt, logTransform]; norm_num; ring
      · have c2 : f' ≠ 2 := fun h => c23 (Or.inl h)
        have c3 : f' ≠ 3 := fun h => c23 (Or.inr h)
        refine ⟨rfl, rfl, ?_, ?_, ?_, Or.inr ⟨?_, ?_, ?_⟩⟩ <;>
          simp [mkPt, logTransform, c1, c2, c3, c4]

/-- **C11 (purity).** `Fitter.fit` hands back the state it was given, so after any history of calls
    the fitter is unchanged and the result of every call is the result of fitting that source alone
    on the fresh fitter. -/
theorem C11_pure (lg : K → K) (ln10 big : K) (ln1m : K → K) (st : FitterState K)
    (srcs : List (List (Obs K))) :
    fitAll lg ln10 big ln1m st srcs
      = (st, srcs.map (fun s => (fitStep lg ln10 big ln1m st s).2)) := by
  induction srcs with
  | nil => rfl
  | cons s ss ih => simp only [fitAll, fitStep, List.map_cons] at ih ⊢; rw [ih]

/-- **C11 (history independence).** The same source fitted at position `i` of one history and at
    position `j` of another history on the same fitter gets the same result. -/
theorem C11_history (lg : K → K) (ln10 big : K) (ln1m : K → K) (st : FitterState K)
    (h1 h2 : List (List (Obs K))) (i j : Nat) (s : List (Obs K))
    (hi : h1[i]? = some s) (hj : h2[j]? = some s) :
    (fitAll lg ln10 big ln1m st h1).2[i]? = (fitAll lg ln10 big ln1m st h2).2[j]? ∧
    (fitAll lg ln10 big ln1m st h1).2[i]? = some (fitOne lg ln10 big ln1m st s) := by
  rw [C11_pure, C11_pure]
  simp only [List.getElem?_map, hi, hj, Option.map_some, fitStep, and_self]

/-- **C11 (model permutation), with names.** The association name ↔ result is part of the statement: if the
    (name, fluxes) pairs of two packages are permutations of each other, so are the (name, result) pairs
    that the fitter returns (`info.model_name = self.names` next to the per-model arrays). -/
theorem C11_model_perm_named (lg : K → K) (ln10 big : K) (ln1m : K → K) (st : FitterState K)
    (names names' : List String) (models' : List (List (List K)))
    (h : (names.zip st.models).Perm (names'.zip models')) (src : List (Obs K)) :
    (names.zip (fitOne lg ln10 big ln1m st src)).Perm
      (names'.zip (fitOne lg ln10 big ln1m { st with models := models' } src)) := by
  unfold fitOne
  simp only [List.zip_map_right]
  exact h.map _

/-- `FitInfo.sort` applied to whole rows: every column goes through the one index vector
    `np.argsort(chi2)` of C04 (`argsortEF` + `fancyIndex`, see `C11_rankRows_columns`) -/
def rankRows (R : List (K × K × K)) : List (K × K × K) :=
  fancyIndex (0, 0, 0) (argsortEF (R.map (fun r => EF.fin r.2.2))) R

/-- `rankRows` is `sortRows` (C04's model of `FitInfo.sort`) read row-wise -/
theorem C11_rankRows_columns (R : List (K × K × K)) (names : List String) :
    let x : FitRows K := { av := R.map (·.1), sc := R.map (·.2.1), chi2 := R.map (fun r => EF.fin r.2.2),
                           name := names, fluxes := none, modelId := [] }
    (sortRows x).av = (rankRows R).map (·.1) ∧ (sortRows x).sc = (rankRows R).map (·.2.1) ∧
    (sortRows x).chi2 = (rankRows R).map (fun r => EF.fin r.2.2) := by
  intro x
  have hin : ∀ i ∈ argsortEF (R.map (fun r => EF.fin r.2.2)), i < R.length := fun i hi => by
    simpa using argsortEF_lt _ hi
  refine ⟨?_, ?_, ?_⟩
  · simp only [sortRows, rankRows, fancyIndex, List.map_map, x]
    apply List.map_congr_left
    intro i hi
    simp [List.getD_eq_getElem?_getD, List.getElem?_eq_getElem (hin i hi)]
  · simp only [sortRows, rankRows, fancyIndex, List.map_map, x]
    apply List.map_congr_left
    intro i hi
    simp [List.getD_eq_getElem?_getD, List.getElem?_eq_getElem (hin i hi)]
  · simp only [sortRows, rankRows, fancyIndex, List.map_map, x]
    apply List.map_congr_left
    intro i hi
    simp [List.getD_eq_getElem?_getD, List.getElem?_eq_getElem (hin i hi)]

/-- **C11 (model permutation), ranked by `FitInfo.sort`.** Instance of `C11_model_perm_ranked` with C04's
    sort: the rankings produced for two result lists that are permutations of each other (finite chi²)
    contain the same rows and show the same chi² sequence — equal up to the order inside tie groups. -/
theorem C11_model_perm_sorted {R R' : List (K × K × K)} (h : R.Perm R') :
    (rankRows R).Perm (rankRows R') ∧ (rankRows R).map (·.2.2) = (rankRows R').map (·.2.2) := by
  have hperm : ∀ T : List (K × K × K), (rankRows T).Perm T := fun T =>
    fancyIndex_perm _ _ _ (by simpa using argsortEF_perm (T.map (fun r => EF.fin r.2.2)))
  have hsorted : ∀ T : List (K × K × K), (rankRows T).Pairwise (fun x y => x.2.2 ≤ y.2.2) := by
    intro T
    have hs := argsortEF_sorted (T.map (fun r => EF.fin r.2.2))
    rw [List.pairwise_map] at hs
    simp only [rankRows, fancyIndex, List.pairwise_map]
    refine hs.imp_of_mem ?_
    intro i j hi hj hij
    have hi' : i < T.length := by simpa using argsortEF_lt _ hi
    have hj' : j < T.length := by simpa using argsortEF_lt _ hj
    simpa [List.getD_eq_getElem?_getD, List.getElem?_eq_getElem hi', List.getElem?_eq_getElem hj',
      EF.leSort] using hij
  exact C11_model_perm_ranked h (hperm R) (hperm R') (hsorted R) (hsorted R')

/-- **C11 (no array of the fitter or of a source is ever written).** `Model/FitStore.lean` spells
    `Fitter.fit` → `Source.get_log_fluxes` → `Models.fit` (either branch) → `chi_squared` → `FitInfo.sort`
    out as allocations, in-place updates and (re)bindings of array objects, with
    `info.model_name = self.names` an alias that `sort` rebinds.  For every history of calls, every
    payload (whatever is computed) and every initial store: after the history, every array object owned by
    the fitter and every array object owned by any source holds what it held before. -/
theorem C11_store_unchanged {C : Type} (p : Payload C) (dist : Bool) (calls : List Nat)
    (h h' : Heap C) (hr : run h (progHistory p dist calls) = some h') :
    ∀ l : Loc, l.owner ≠ .fresh → h'.get l = h.get l := by
  induction calls generalizing h with
  | nil =>
    intro l _
    simp only [progHistory, run, Option.some.injEq] at hr
    rw [hr]
  | cons k ks ih =>
    intro l hl
    simp only [progHistory, run_append] at hr
    cases h1 : run h (progCall p dist k) with
    | none => simp [h1] at hr
    | some hm =>
      simp only [h1, Option.bind_some] at hr
      rw [ih hm hr l hl]
      exact run_unchanged _ [] h hm (knownFresh_nil h) (progCall_check p dist k) h1 l hl

/-- the check that carries `C11_store_unchanged` rejects both negative controls, and they do modify the fitter -/
def exStore : Heap Nat :=
  { cells := [(⟨.fitter, 0⟩, 10), (⟨.fitter, 1⟩, 11), (⟨.fitter, 2⟩, 12), (⟨.fitter, 3⟩, 13), (⟨.fitter, 4⟩, 14),
              (⟨.fitter, 5⟩, 15), (srcLoc 0 0, 20), (srcLoc 0 1, 21), (srcLoc 0 2, 22), (srcLoc 1 0, 30),
              (srcLoc 1 1, 31), (srcLoc 1 2, 32)],
    env := fitterEnv, next := 0 }

def exStorePayload : Payload Nat := { f := fun n _ => n, g := fun n c _ => c + n + 1 }

/-- **C11 (negative control).** An in-place `model_fluxes += model` on log fluxes cached on the fitter, and
    an in-place reordering of the aliased `model_name`, are rejected by the static check and do change a
    fitter array — the store model can tell a pure fitter from an impure one. -/
theorem C11_store_negative_control :
    writesFreshOnly [] (progBadInPlace exStorePayload) = false ∧
    writesFreshOnly [] (progBadNames exStorePayload) = false ∧
    ((run exStore (progBadInPlace exStorePayload)).bind (·.get ⟨.fitter, 0⟩)) ≠ exStore.get ⟨.fitter, 0⟩ ∧
    ((run exStore (progBadNames exStorePayload)).bind (·.get ⟨.fitter, 1⟩)) ≠ exStore.get ⟨.fitter, 1⟩ := by
  refine ⟨rfl, rfl, ?_, ?_⟩ <;> decide

/-- non-vacuity of `C11_store_unchanged`: on a store holding a fitter and two sources, a history of four
    interleaved calls runs to completion in both modes (no unbound name) -/
example : (run exStore (progHistory exStorePayload false [0, 1, 0, 0])).isSome = true ∧
    (run exStore (progHistory exStorePayload true [1, 0, 1])).isSome = true := by
  constructor <;> decide

/-! ### Non-vacuity (over ℚ; `lg` is replaced by a function that is additive on the fluxes used) -/

/-- the bands of `exPts` (C01), in another order -/
example : exPts.Perm [exPts[2], exPts[0], exPts[1]] := by
  simp only [exPts, List.getElem_cons_zero, List.getElem_cons_succ]
  exact ((List.Perm.swap _ _ _).cons _).trans (List.Perm.swap _ _ _)

/-- a scaled source: flags 1, 3, 4, 0 with `c = 2`, `lg 2 = 1`, `lg 20 = 1 + lg 10`, `lg 40 = 1 + lg 20` -/
def exLg (x : Rat) : Rat := if x = 2 then 1 else if x = 10 then 3 else if x = 20 then 4 else if x = 40 then 5 else 0

example : List.Forall₂ (ScaledObs exLg 2)
    [⟨1, 10, 1⟩, ⟨3, 20, 1/2⟩, ⟨4, 3/2, 1/10⟩, ⟨0, -999, -999⟩]
    [⟨1, 20, 2⟩, ⟨3, 40, 1/2⟩, ⟨4, 5/2, 1/10⟩, ⟨0, 7, 7⟩] := by
  simp [ScaledObs, exLg]; norm_num

example : ∀ o ∈ ([⟨1, 10, 1⟩, ⟨3, 20, 1/2⟩, ⟨4, 3/2, 1/10⟩, ⟨0, -999, -999⟩] : List (Obs Rat)),
    (o.flag = 1 ∨ o.flag = 2 ∨ o.flag = 3) → exLg (2 * o.flux) = exLg 2 + exLg o.flux := by
  simp [exLg]; norm_num

example : (∀ p ∈ exPts, p.q = (scLaw : Rat)) ∧ m11 exPts * m22 exPts - m12 exPts * m12 exPts ≠ 0
    ∧ m22 exPts ≠ 0 := by
  refine ⟨?_, ?_, ?_⟩ <;> simp [exPts, scLaw, two, m11, m12, m22, sumBy] <;> norm_num


/-- one concrete instance meeting ALL hypotheses of `C11_scale` jointly (bands 1, 3, 4, 0; `c = 2`; `ln 10` replaced
    by 2): scaled source, `lg` additive on its fluxes, non-singular regression, `c ≠ 0` -/
def exScaleOs : List (Obs Rat) := [⟨1, 10, 1⟩, ⟨3, 20, 1/2⟩, ⟨4, 3/2, 1/10⟩, ⟨0, -999, -999⟩]
def exScaleOs' : List (Obs Rat) := [⟨1, 20, 2⟩, ⟨3, 40, 1/2⟩, ⟨4, 5/2, 1/10⟩, ⟨0, 7, 7⟩]
def exKs : List Rat := [-1/2, -1/3, -1/5, -1/10]
def exMf : List Rat := [1, 2, 1/2, 0]

example : (2 : Rat) ≠ 0 ∧ List.Forall₂ (ScaledObs exLg 2) exScaleOs exScaleOs' ∧
    (∀ o ∈ exScaleOs, (o.flag = 1 ∨ o.flag = 2 ∨ o.flag = 3) → exLg (2 * o.flux) = exLg 2 + exLg o.flux) ∧
    m11 (obsPts exLg 2 exScaleOs exKs exMf) * m22 (obsPts exLg 2 exScaleOs exKs exMf)
      - m12 (obsPts exLg 2 exScaleOs exKs exMf) * m12 (obsPts exLg 2 exScaleOs exKs exMf) ≠ 0 ∧
    m22 (obsPts exLg 2 exScaleOs exKs exMf) ≠ 0 := by
  refine ⟨by norm_num, ?_, ?_, ?_, ?_⟩
  · simp [ScaledObs, exLg, exScaleOs, exScaleOs']; norm_num
  · simp [exLg, exScaleOs]; norm_num
  · simp [obsPts, exScaleOs, exKs, exMf, mkPts, logTransform, exLg, absK, two, scLaw, m11, m12, m22, sumBy]
    norm_num
  · simp [obsPts, exScaleOs, exKs, exMf, mkPts, logTransform, exLg, absK, two, scLaw, m22, sumBy]
    norm_num

/-- … and of `C11_filter_perm_source`: the same source with bands 0 and 2 exchanged, model fluxes and coefficients alike -/
example : (exScaleOs.zip (exMf.zip exKs)).Perm
    ([exScaleOs[2], exScaleOs[1], exScaleOs[0], exScaleOs[3]].zip
      ([exMf[2], exMf[1], exMf[0], exMf[3]].zip [exKs[2], exKs[1], exKs[0], exKs[3]])) := by
  simp only [exScaleOs, exMf, exKs, List.zip_cons_cons, List.zip_nil_right, List.getElem_cons_zero,
    List.getElem_cons_succ]
  exact ((List.Perm.swap _ _ _).trans ((List.Perm.swap _ _ _).cons _)).trans (List.Perm.swap _ _ _)

end SF
