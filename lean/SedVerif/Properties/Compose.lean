import SedVerif.Properties.C04
import SedVerif.Properties.C05
import SedVerif.Properties.C18
/-!
# Compositions across properties: fit → rank → select → filter_output

The per-property theorems are stated about one stage each, with the previous stage's guarantee as a
hypothesis (`Ranked`, `WFInfo`).  The theorems here discharge those hypotheses with the previous stage's
own theorem, so that the statement is about the *package as `Models.fit` assembled it* (unsorted, one
entry per model):

* `X_sort_wf` / `X_sort_ranked` — `FitInfo.sort` produces what `FitInfo.keep` assumes (C04 ⇒ hypotheses of C05);
* `X_fit_select_threshold` — after `sort` and `keep(('C'|'D'|'E'|'F', v))` the surviving chi² values are,
  as a multiset, exactly the chi² values of the package's models whose criterion is below `v`
  (no model that passes is lost by the ranking, none that fails is kept) and the number of fits kept is
  the number of passing models;
* `X_fit_select_topN` — after `sort` and `keep(('N', n))` every kept fit is at least as good as every
  dropped one, and the two parts together are the whole package;
* `X_select_keeps_best` — a non-empty selection keeps the best fit in front, whatever the selector;
* `X_filter_after_select` — hence `filter_output` takes the same branch for a source whether its record was
  written with `('A',)` or with any selector that kept at least one fit (C05 ∘ C18).
-/
namespace SF
variable {K : Type} [Field K] [LinearOrder K] [IsStrictOrderedRing K]

/-- **C04 ⇒ C05 (shape).** What `Models.fit` assembles (`WFRows`), once sorted, has one entry per fit in
    every array, `model_id` included. -/
theorem X_sort_wf (x : FitRows K) (hwf : WFRows x) : WFInfo (sortRows x) := by
  obtain ⟨h1, h2, h3, h4⟩ := hwf
  have hl := argsortEF_length x.chi2
  refine ⟨?_, ?_, ?_, ?_, ?_⟩
  · simp [sortRows, fancyIndex_length]
  · simp [sortRows, fancyIndex_length]
  · simp [sortRows, fancyIndex_length]
  · simp [sortRows, fancyIndex_length]
  · intro fl hfl
    cases hx : x.fluxes with
    | none => simp [sortRows, hx] at hfl
    | some f0 =>
      simp [sortRows, hx] at hfl
      subst hfl
      simp [sortRows, fancyIndex_length]

/-- **C04 ⇒ C05 (order).** A sorted result is `Ranked`. -/
theorem X_sort_ranked (x : FitRows K) : Ranked (sortRows x).chi2 := (C04_sorted x).1

/-- **fit → rank → threshold selector.** For the package as assembled (any order of models), after
    `FitInfo.sort` and `keep` with a threshold selector whose threshold no criterion value equals: the
    kept chi² values are a permutation of the chi² values of those models of the package whose
    criterion (relative to the best chi² `c0` of the package) is below the threshold, and `n_fits` is
    their number. -/
theorem X_fit_select_threshold (s : Sel K) (v : EF K) (hs : s.thr = some v) (nd : Nat) (x : FitRows K)
    (hwf : WFRows x) (hna : NonAttained s nd (sortRows x).chi2)
    (c0 : EF K) (hc0 : (sortRows x).chi2.head? = some c0) :
    (keep s nd (sortRows x)).chi2.Perm (x.chi2.filter (fun c => EF.lt (crit s nd c0 c) v)) ∧
    nFits s nd (sortRows x).chi2 = (x.chi2.filter (fun c => EF.lt (crit s nd c0 c) v)).length := by
  have h := C05_threshold s v hs nd (sortRows x) (X_sort_wf x hwf) (X_sort_ranked x) hna
  obtain ⟨_, _, hall, _, hfil⟩ := h
  have hp : (sortRows x).chi2.Perm x.chi2 := (C04_perm x hwf).2.2.2.1
  have hk := hfil c0 hc0
  have hperm : (keep s nd (sortRows x)).chi2.Perm (x.chi2.filter (fun c => EF.lt (crit s nd c0 c) v)) := by
    rw [hk]; exact hp.filter _
  refine ⟨hperm, ?_⟩
  rw [← hperm.length_eq]
  exact hall.2.2.1.symm

/-- **fit → rank → `('N', n)`.** The kept chi² values and the dropped ones together are the package's
    chi² values, and every kept one precedes (numpy sort order: `<=`, NaN last) every dropped one:
    the `n` kept fits are `n` best ones. -/
theorem X_fit_select_topN (n nd : Nat) (x : FitRows K) (hwf : WFRows x) :
    ((keep (Sel.N n) nd (sortRows x)).chi2 ++ (sortRows x).chi2.drop n).Perm x.chi2 ∧
    (keep (Sel.N n) nd (sortRows x)).chi2.length = min n x.chi2.length ∧
    ∀ a ∈ (keep (Sel.N n) nd (sortRows x)).chi2, ∀ b ∈ (sortRows x).chi2.drop n, EF.leSort a b = true := by
  have h := C05_N n nd (sortRows x) (X_sort_wf x hwf)
  obtain ⟨hcut, hall⟩ := h
  have hk : (keep (Sel.N n) nd (sortRows x)).chi2 = (sortRows x).chi2.take n := hcut.2.2.1
  have hp : (sortRows x).chi2.Perm x.chi2 := (C04_perm x hwf).2.2.2.1
  have hr : Ranked (sortRows x).chi2 := X_sort_ranked x
  refine ⟨?_, ?_, ?_⟩
  · rw [hk, List.take_append_drop]; exact hp
  · rw [hall.2.2.1, hp.length_eq]
  · intro a ha b hb
    rw [hk] at ha
    have hr' : ((sortRows x).chi2.take n ++ (sortRows x).chi2.drop n).Pairwise
        (fun a b => EF.leSort a b = true) := by rw [List.take_append_drop]; exact hr
    exact (List.pairwise_append.mp hr').2.2 a ha b hb

/-- **A non-empty selection keeps the best fit in front.** Whatever the selector, if `keep` keeps at
    least one fit, the first kept chi² is the first chi² of the ranking. -/
theorem X_select_keeps_best (s : Sel K) (nd : Nat) (x : FitRows K)
    (hpos : 0 < nFits s nd x.chi2) : (keep s nd x).chi2.head? = x.chi2.head? := by
  have hcut := keep_cutTo s nd x
  rw [hcut.2.2.1]
  cases hx : x.chi2 with
  | nil => simp
  | cons c t =>
    obtain ⟨m, hm⟩ : ∃ m, nFits s nd (c :: t) = m + 1 := ⟨nFits s nd (c :: t) - 1, by rw [hx] at hpos; omega⟩
    rw [hm]; simp

/-- **select → filter_output.** For a record whose selection is not empty, `filter_output` takes the same
    branch (`chi=` or `cpd=`, any thresholds) whether the record holds all fits or only the selected
    ones: the decision depends on the best chi² and on the source's flags only, and selection keeps
    both. -/
theorem X_filter_after_select {ρ : Type} (chi cpd : Option (EF K)) (s : Sel K) (x : FitRows K)
    (flags : List Nat) (rest rest' : ρ) (hpos : 0 < nFits s (nDataSrc flags) x.chi2) :
    goesGood chi cpd (⟨(keepSrc s flags x).chi2, flags, rest'⟩ : OutRec K ρ) =
    goesGood chi cpd (⟨x.chi2, flags, rest⟩ : OutRec K ρ) := by
  have h := X_select_keeps_best s (nDataSrc flags) x hpos
  unfold keepSrc
  cases hx : x.chi2 with
  | nil => rw [hx] at hpos; simp [nFits] at hpos
  | cons c t =>
    rw [hx] at h
    cases hk : (keep s (nDataSrc flags) x).chi2 with
    | nil => rw [hk] at h; simp at h
    | cons c' t' =>
      rw [hk] at h
      simp at h
      subst h
      simp [goesGood]

/-! ## non-vacuity: a concrete unsorted package meets the hypotheses -/

/-- three models with chi² 5, 1, +inf (unsorted), predicted fluxes stored -/
def exPkgX : FitRows Rat :=
  { av := [1, 2, 3], sc := [0, 0, 0], chi2 := [EF.fin 5, EF.fin 1, EF.pinf],
    name := ["a", "b", "c"], fluxes := some [[1], [2], [3]], modelId := [] }

example : WFRows exPkgX := by
  refine ⟨rfl, rfl, rfl, ?_⟩
  intro fl h
  simp [exPkgX] at h
  subst h
  rfl

end SF

namespace SF
variable {K : Type} [Field K] [LinearOrder K] [IsStrictOrderedRing K]

/-- the loop of `filter_output` commutes with any per-record rewrite that keeps the best chi² and the flags -/
theorem filterLoop_map {ρ : Type} (chi cpd : Option (EF K)) (f : OutRec K ρ → OutRec K ρ)
    (l : List (OutRec K ρ))
    (hf : ∀ r ∈ l, (f r).chi2.head? = r.chi2.head? ∧ (f r).flags = r.flags)
    (g b : List (OutRec K ρ)) :
    filterLoop chi cpd (l.map f) (g.map f, b.map f) =
      (filterLoop chi cpd l (g, b)).map (fun gb => (gb.1.map f, gb.2.map f)) := by
  induction l generalizing g b with
  | nil => simp [filterLoop, Except.map]
  | cons r rs ih =>
    obtain ⟨hh, hfl⟩ := hf r (by simp)
    have ih' := fun g b => ih (fun r' hr' => hf r' (by simp [hr'])) g b
    cases hr : r.chi2 with
    | nil =>
      rw [hr] at hh
      have hfr : (f r).chi2 = [] := by
        cases hc : (f r).chi2 with
        | nil => rfl
        | cons a t => rw [hc] at hh; simp at hh
      simp [filterLoop, hr, hfr, Except.map]
    | cons c0 t =>
      rw [hr] at hh
      obtain ⟨t', hfr⟩ : ∃ t', (f r).chi2 = c0 :: t' := by
        cases hc : (f r).chi2 with
        | nil => rw [hc] at hh; simp at hh
        | cons a t' => rw [hc] at hh; simp at hh; exact ⟨t', by rw [hh]⟩
      simp only [List.map_cons, filterLoop, hr, hfr, hfl]
      split
      · have := ih' (g ++ [r]) b
        simpa using this
      · have := ih' g (b ++ [r])
        simpa using this

/-- **select → filter_output, whole file.** If every record of a file is rewritten by a selection that
    kept at least one fit (and left the flags alone), `filter_output` produces the rewritten versions of
    exactly the records it produced before, in the same two files and the same order — and fails
    (a record without fits) exactly when it failed before. -/
theorem X_filter_file_after_select {ρ : Type} (chi cpd : Option (EF K)) (f : OutRec K ρ → OutRec K ρ)
    (input : List (OutRec K ρ))
    (hf : ∀ r ∈ input, (f r).chi2.head? = r.chi2.head? ∧ (f r).flags = r.flags) :
    filterOutput chi cpd (input.map f) =
      (filterOutput chi cpd input).map (fun gb => (gb.1.map f, gb.2.map f)) := by
  have := filterLoop_map chi cpd f input hf [] []
  simpa [filterOutput] using this

/-- the rewrite of a record by `FitInfo.keep` with selector `s`: chi² cut to `n_fits`, flags untouched
    (the other per-fit arrays live in `rest`, which `filter_output` never reads) -/
def selRec {ρ : Type} (s : Sel K) (cutRest : Nat → ρ → ρ) (r : OutRec K ρ) : OutRec K ρ :=
  let n := nFits s (nDataSrc r.flags) r.chi2
  ⟨r.chi2.take n, r.flags, cutRest n r.rest⟩

/-- **C05 ∘ C18 for a whole file**, instantiated with `keep`: selecting inside every record (each
    selection non-empty) and then running `filter_output` equals running `filter_output` and then
    selecting inside every output record. -/
theorem X_filter_commutes_with_keep {ρ : Type} (chi cpd : Option (EF K)) (s : Sel K) (cutRest : Nat → ρ → ρ)
    (input : List (OutRec K ρ))
    (hpos : ∀ r ∈ input, 0 < nFits s (nDataSrc r.flags) r.chi2) :
    filterOutput chi cpd (input.map (selRec s cutRest)) =
      (filterOutput chi cpd input).map
        (fun gb => (gb.1.map (selRec s cutRest), gb.2.map (selRec s cutRest))) := by
  apply X_filter_file_after_select
  intro r hr
  refine ⟨?_, rfl⟩
  have hp := hpos r hr
  simp only [selRec]
  cases hx : r.chi2 with
  | nil => simp
  | cons c t =>
    rw [hx] at hp
    obtain ⟨m, hm⟩ : ∃ m, nFits s (nDataSrc r.flags) (c :: t) = m + 1 :=
      ⟨nFits s (nDataSrc r.flags) (c :: t) - 1, by omega⟩
    rw [hm]; simp

end SF

namespace SF
/-- non-vacuity: a two-record file whose selections (`('N', 1)`) are non-empty, with sources of different `n_data` -/
def exFileX : List (OutRec Rat Unit) :=
  [⟨[EF.fin 1, EF.fin 7], [1, 1, 4], ()⟩, ⟨[EF.fin 9, EF.pinf], [1, 3, 0], ()⟩]

example : ∀ r ∈ exFileX, 0 < nFits (Sel.N 1 : Sel Rat) (nDataSrc r.flags) r.chi2 := by
  intro r hr
  simp [exFileX] at hr
  rcases hr with rfl | rfl <;> simp [nFits]
end SF

namespace SF
variable {K : Type} [Field K] [LinearOrder K] [IsStrictOrderedRing K]

/-- **selection does not touch the rows it keeps.** Below `n_fits`, the row read off the selected
    result is the row read off the ranked result, in every column, and the `model_id` is the same. -/
theorem X_keep_rows (s : Sel K) (nd : Nat) (y : FitRows K) (i : Nat) (hi : i < nFits s nd y.chi2) :
    rowAt (keep s nd y) i = rowAt y i ∧ (keep s nd y).modelId[i]? = y.modelId[i]? := by
  have h : ∀ {α : Type} (l : List α), (l.take (nFits s nd y.chi2))[i]? = l[i]? := by
    intro α l; rw [List.getElem?_take]; simp [hi]
  refine ⟨?_, by simp [keep, h]⟩
  unfold rowAt
  cases hy : y.fluxes with
  | none => simp [keep, h, hy]
  | some fl => simp [keep, h, hy]

/-- **fit → rank → select: every kept row describes one model of the package.** For the package as
    `Models.fit` assembled it and any selector, each kept position `i` holds, in every column, the row of
    one existing model `m = model_id[i]` of the unsorted package (name, A_V, scale, chi², predicted fluxes
    all from `m`). -/
theorem X_fit_select_rows (s : Sel K) (nd : Nat) (x : FitRows K) (hwf : WFRows x) (i : Nat)
    (hi : i < nFits s nd (sortRows x).chi2) (hlen : i < x.chi2.length) :
    ∃ m, m < x.chi2.length ∧ (keep s nd (sortRows x)).modelId[i]? = some m ∧
      (rowAt x m).isSome = true ∧ rowAt (keep s nd (sortRows x)) i = rowAt x m := by
  obtain ⟨m, hm, hid, hsome, hrow, _⟩ := C04_rows x hwf i hlen
  obtain ⟨h1, h2⟩ := X_keep_rows s nd (sortRows x) i hi
  exact ⟨m, hm, by rw [h2, hid], hsome, by rw [h1, hrow]⟩

end SF

namespace SF
variable {K : Type} [Field K] [LinearOrder K] [IsStrictOrderedRing K]

/-- **fit → rank → threshold selector, by model.** For the package as assembled (any model order) and a
    threshold selector whose threshold no criterion value equals: model `m` of the package is among the
    kept fits (its index is in the kept `model_id` column) **iff** its own criterion value, relative to
    the package's best chi² `c0`, is below the threshold.  So which models survive does not depend on
    where they sit in the package, and ties / `+inf` / NaN cannot make the ranking drop a passing model
    or keep a failing one. -/
theorem X_fit_select_models (s : Sel K) (v : EF K) (hs : s.thr = some v) (nd : Nat) (x : FitRows K)
    (hwf : WFRows x) (hna : NonAttained s nd (sortRows x).chi2)
    (c0 : EF K) (hc0 : (sortRows x).chi2.head? = some c0) (m : Nat) (hm : m < x.chi2.length) :
    m ∈ (keep s nd (sortRows x)).modelId ↔ EF.lt (crit s nd c0 x.chi2[m]) v = true := by
  have hth := C05_threshold s v hs nd (sortRows x) (X_sort_wf x hwf) (X_sort_ranked x) hna
  obtain ⟨hle, hcut, _, hiff, _⟩ := hth
  have hiff := hiff c0 hc0
  have hylen : (sortRows x).chi2.length = x.chi2.length := by
    simp [sortRows, fancyIndex_length, argsortEF_length]
  have hid : (keep s nd (sortRows x)).modelId = (argsortEF x.chi2).take (nFits s nd (sortRows x).chi2) := hcut.2.2.2.2.1
  have hol := argsortEF_length x.chi2
  -- the chi² at ranked position `i` is the chi² of model `order[i]`
  have hchi : ∀ i (hi : i < x.chi2.length) (k : Nat), (argsortEF x.chi2)[i]? = some k →
      ∃ hk : k < x.chi2.length, (sortRows x).chi2[i]'(by rw [hylen]; exact hi) = x.chi2[k] := by
    intro i hi k hk
    have hkl : k < x.chi2.length := argsortEF_lt x.chi2 (List.mem_of_getElem? hk)
    refine ⟨hkl, ?_⟩
    have h1 : (sortRows x).chi2[i]? = x.chi2[k]? := fancyIndex_getElem? EF.nan _ x.chi2 i k hk hkl
    have h2 : (sortRows x).chi2[i]? = some ((sortRows x).chi2[i]'(by rw [hylen]; exact hi)) :=
      List.getElem?_eq_getElem _
    rw [h2, List.getElem?_eq_getElem hkl] at h1
    exact Option.some.inj h1
  rw [hid]
  constructor
  · intro hmem
    obtain ⟨i, hi, hget⟩ := List.mem_iff_getElem.mp hmem
    have hin : i < nFits s nd (sortRows x).chi2 := by
      have := hi; simp only [List.length_take] at this; omega
    have hil : i < x.chi2.length := by rw [← hylen]; omega
    have hk : (argsortEF x.chi2)[i]? = some m := by
      rw [List.getElem_take] at hget
      rw [← hget]; exact List.getElem?_eq_getElem _
    obtain ⟨_, he⟩ := hchi i hil m hk
    have := (hiff i (by rw [hylen]; exact hil)).mp hin
    rw [he] at this
    exact this
  · intro hlt
    have hmo : m ∈ argsortEF x.chi2 := (argsortEF_perm x.chi2).mem_iff.mpr (List.mem_range.mpr hm)
    obtain ⟨i, hi, hget⟩ := List.mem_iff_getElem.mp hmo
    have hil : i < x.chi2.length := by rw [← hol]; exact hi
    have hk : (argsortEF x.chi2)[i]? = some m := by rw [← hget]; exact List.getElem?_eq_getElem _
    obtain ⟨_, he⟩ := hchi i hil m hk
    have hin : i < nFits s nd (sortRows x).chi2 := by
      apply (hiff i (by rw [hylen]; exact hil)).mpr
      rw [he]; exact hlt
    apply List.mem_iff_getElem.mpr
    refine ⟨i, by simp only [List.length_take]; omega, ?_⟩
    rw [List.getElem_take]; exact hget

end SF

namespace SF
variable {K : Type} [Field K] [LinearOrder K] [IsStrictOrderedRing K]

/-- numpy's sort order on doubles is antisymmetric on the extended floats of the model (all NaNs are one value) -/
theorem EF.leSort_antisymm (a b : EF K) (h1 : EF.leSort a b = true) (h2 : EF.leSort b a = true) : a = b := by
  cases a <;> cases b <;> simp_all [EF.leSort]
  exact le_antisymm h1 h2

/-- **selection does not depend on the order of the models in the package.** Two packages whose chi²
    columns are permutations of each other (the same models stored in another order) rank to the *same*
    chi² sequence, get the same `n_fits` from every selector, and keep the same chi² column — ties,
    `+inf` and NaN included (only *which* of several exactly tied models comes first may differ). -/
theorem X_select_model_perm (s : Sel K) (nd : Nat) (x x' : FitRows K) (h : x.chi2.Perm x'.chi2) :
    (sortRows x).chi2 = (sortRows x').chi2 ∧
    nFits s nd (sortRows x).chi2 = nFits s nd (sortRows x').chi2 ∧
    (keep s nd (sortRows x)).chi2 = (keep s nd (sortRows x')).chi2 := by
  have hp : ∀ y : FitRows K, (sortRows y).chi2.Perm y.chi2 := fun y =>
    fancyIndex_perm _ _ _ (argsortEF_perm y.chi2)
  have heq : (sortRows x).chi2 = (sortRows x').chi2 :=
    ((hp x).trans (h.trans (hp x').symm)).eq_of_pairwise
      (fun a b _ _ h1 h2 => EF.leSort_antisymm a b h1 h2) (X_sort_ranked x) (X_sort_ranked x')
  refine ⟨heq, by rw [heq], ?_⟩
  simp only [keep]
  rw [heq]

end SF

/-! ## non-vacuity of the selection compositions: the hypotheses hold for a concrete unsorted package, and the
    conclusion separates a passing model from a failing one -/
namespace SF
theorem exPkgX_sorted : (sortRows exPkgX).chi2 = [EF.fin 1, EF.fin 5, EF.pinf] := by
  simp [sortRows, exPkgX, argsortEF, fancyIndex, List.mergeSort, List.range, List.range.loop, EF.leSort, List.MergeSort.Internal.splitInTwo]
theorem exPkgX_nonAttained : NonAttained (Sel.C (EF.fin 3) : Sel Rat) 2 (sortRows exPkgX).chi2 := by
  rw [exPkgX_sorted]
  intro v hv c0 hc0 c hc
  simp [Sel.thr] at hv
  subst hv
  simp at hc
  rcases hc with rfl | rfl | rfl <;> simp [crit, EF.eq]
example : 1 ∈ (keep (Sel.C (EF.fin 3) : Sel Rat) 2 (sortRows exPkgX)).modelId ∧
    0 ∉ (keep (Sel.C (EF.fin 3) : Sel Rat) 2 (sortRows exPkgX)).modelId := by
  have hwf : WFRows exPkgX := by
    refine ⟨rfl, rfl, rfl, ?_⟩
    intro fl h; simp [exPkgX] at h; subst h; rfl
  have h := fun m hm => X_fit_select_models (Sel.C (EF.fin 3) : Sel Rat) (EF.fin 3) rfl 2 exPkgX hwf exPkgX_nonAttained
    (EF.fin 1) (by rw [exPkgX_sorted]; rfl) m hm
  constructor
  · exact (h 1 (by simp [exPkgX])).mpr (by simp [crit, exPkgX, EF.lt])
  · intro h0
    have := (h 0 (by simp [exPkgX])).mp h0
    simp [crit, exPkgX, EF.lt] at this
    exact absurd this (by decide)
end SF
