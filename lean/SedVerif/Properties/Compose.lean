import SedVerif.Properties.C04
import SedVerif.Properties.C05
import SedVerif.Properties.C18
/-!
# Compositions across properties: fit → rank → select → filter_output

The per-property theorems are stated about one stage each, with the previous stage's guarantee as a
hypothesis (`Ranked`, `WFInfo`).  The theorems here discharge those hypotheses with the previous stage's
own theorem, so that the statement is about the *package as `Models.fit` assembled it* (unsorted, one
entry per model):

* `X_sort_wf` / `X_sort_ranked` — `FitInfo.sort` produces what `FitInfo.keep` assumes (C04 ⇒ hypotheses of C05);
* `X_fit_select_threshold` — after `sort` and `keep(('C'|'D'|'E'|'F', v))` the surviving chi² values are,
  as a multiset, exactly the chi² values of the package's models whose criterion is below `v`
  (no model that passes is lost by the ranking, none that fails is kept) and the number of fits kept is
  the number of passing models;
* `X_fit_select_topN` — after `sort` and `keep(('N', n))` every kept fit is at least as good as every
  dropped one, and the two parts together are the whole package;
* `X_select_keeps_best` — a non-empty selection keeps the best fit in front, whatever the selector;
* `X_filter_after_select` — hence `filter_output` takes the same branch for a source whether its record was
  written with `('A',)` or with any selector that kept at least one fit (C05 ∘ C18).
-/
namespace SF
variable {K : Type} [Field K] [LinearOrder K] [IsStrictOrderedRing K]

/-- **C04 ⇒ C05 (shape).** What `Models.fit` assembles (`WFRows`), once sorted, has one entry per fit in
    every array, `model_id` included. -/
theorem X_sort_wf (x : FitRows K) (hwf : WFRows x) : WFInfo (sortRows x) := by
  obtain ⟨h1, h2, h3, h4⟩ := hwf
  have hl := argsortEF_length x.chi2
  refine ⟨?_, ?_, ?_, ?_, ?_⟩
  · simp [sortRows, fancyIndex_length]
  · simp [sortRows, fancyIndex_length]
  · simp [sortRows, fancyIndex_length]
  · simp [sortRows, fancyIndex_length]
  · intro fl hfl
    cases hx : x.fluxes with
    | none => simp [sortRows, hx] at hfl
    | some f0 =>
      simp [sortRows, hx] at hfl
      subst hfl
      simp [sortRows, fancyIndex_length]

/-- **C04 ⇒ C05 (order).** A sorted result is `Ranked`. -/
theorem X_sort_ranked (x : FitRows K) : Ranked (sortRows x).chi2 := (C04_sorted x).1

/-- **fit → rank → threshold selector.** For the package as assembled (any order of models), after
    `FitInfo.sort` and `keep` with a threshold selector whose threshold no criterion value equals: the
    kept chi² values are a permutation of the chi² values of those models of the package whose
    criterion (relative to the best chi² `c0` of the package) is below the threshold, and `n_fits` is
    their number. -/
theorem X_fit_select_threshold (s : Sel K) (v : EF K) (hs : s.thr = some v) (nd : Nat) (x : FitRows K)
    (hwf : WFRows x) (hna : NonAttained s nd (sortRows x).chi2)
    (c0 : EF K) (hc0 : (sortRows x).chi2.head? = some c0) :
    (keep s nd (sortRows x)).chi2.Perm (x.chi2.filter (fun c => EF.lt (crit s nd c0 c) v)) ∧
    nFits s nd (sortRows x).chi2 = (x.chi2.filter (fun c => EF.lt (crit s nd c0 c) v)).length := by
  have h := C05_threshold s v hs nd (sortRows x) (X_sort_wf x hwf) (X_sort_ranked x) hna
  obtain ⟨_, _, hall, _, hfil⟩ := h
  have hp : (sortRows x).chi2.Perm x.chi2 := (C04_perm x hwf).2.2.2.1
  have hk := hfil c0 hc0
  have hperm : (keep s nd (sortRows x)).chi2.Perm (x.chi2.filter (fun c => EF.lt (crit s nd c0 c) v)) := by
    rw [hk]; exact hp.filter _
  refine ⟨hperm, ?_⟩
  rw [← hperm.length_eq]
  exact hall.2.2.1.symm

/-- **fit → rank → `('N', n)`.** The kept chi² values and the dropped ones together are the package's
    chi² values, and every kept one precedes (numpy sort order: `<=`, NaN last) every dropped one:
    the `n` kept fits are `n` best ones. -/
theorem X_fit_select_topN (n nd : Nat) (x : FitRows K) (hwf : WFRows x) :
    ((keep (Sel.N n) nd (sortRows x)).chi2 ++ (sortRows x).chi2.drop n).Perm x.chi2 ∧
    (keep (Sel.N n) nd (sortRows x)).chi2.length = min n x.chi2.length ∧
    ∀ a ∈ (keep (Sel.N n) nd (sortRows x)).chi2, ∀ b ∈ (sortRows x).chi2.drop n, EF.leSort a b = true := by
  have h := C05_N n nd (sortRows x) (X_sort_wf x hwf)
  obtain ⟨hcut, hall⟩ := h
  have hk : (keep (Sel.N n) nd (sortRows x)).chi2 = (sortRows x).chi2.take n := hcut.2.2.1
  have hp : (sortRows x).chi2.Perm x.chi2 := (C04_perm x hwf).2.2.2.1
  have hr : Ranked (sortRows x).chi2 := X_sort_ranked x
  refine ⟨?_, ?_, ?_⟩
  · rw [hk, List.take_append_drop]; exact hp
  · rw [hall.2.2.1, hp.length_eq]
  · intro a ha b hb
    rw [hk] at ha
    have hr' : ((sortRows x).chi2.take n ++ (sortRows x).chi2.drop n).Pairwise
        (fun a b => EF.leSort a b = true) := by rw [List.take_append_drop]; exact hr
    exact (List.pairwise_append.mp hr').2.2 a ha b hb

/-- **A non-empty selection keeps the best fit in front.** Whatever the selector, if `keep` keeps at
    least one fit, the first kept chi² is the first chi² of the ranking. -/
theorem X_select_keeps_best (s : Sel K) (nd : Nat) (x : FitRows K)
    (hpos : 0 < nFits s nd x.chi2) : (keep s nd x).chi2.head? = x.chi2.head? := by
  have hcut := keep_cutTo s nd x
  rw [hcut.2.2.1]
  cases hx : x.chi2 with
  | nil => simp
  | cons c t =>
    obtain ⟨m, hm⟩ : ∃ m, nFits s nd (c :: t) = m + 1 := ⟨nFits s nd (c :: t) - 1, by rw [hx] at hpos; omega⟩
    rw [hm]; simp

/-- **select → filter_output.** For a record whose selection is not empty, `filter_output` takes the same
    branch (`chi=` or `cpd=`, any thresholds) whether the record holds all fits or only the selected
    ones: the decision depends on the best chi² and on the source's flags only, and selection keeps
    both. -/
theorem X_filter_after_select {ρ : Type} (chi cpd : Option (EF K)) (s : Sel K) (x : FitRows K)
    (flags : List Nat) (rest rest' : ρ) (hpos : 0 < nFits s (nDataSrc flags) x.chi2) :
    goesGood chi cpd (⟨(keepSrc s flags x).chi2, flags, rest'⟩ : OutRec K ρ) =
    goesGood chi cpd (⟨x.chi2, flags, rest⟩ : OutRec K ρ) := by
  have h := X_select_keeps_best s (nDataSrc flags) x hpos
  unfold keepSrc
  cases hx : x.chi2 with
  | nil => rw [hx] at hpos; simp [nFits] at hpos
  | cons c t =>
    rw [hx] at h
    cases hk : (keep s (nDataSrc flags) x).chi2 with
    | nil => rw [hk] at h; simp at h
    | cons c' t' =>
      rw [hk] at h
      simp at h
      subst h
      simp [goesGood]

/-! ## non-vacuity: a concrete unsorted package meets the hypotheses -/

/-- three models with chi² 5, 1, +inf (unsorted), predicted fluxes stored -/
def exPkgX : FitRows Rat :=
  { av := [1, 2, 3], sc := [0, 0, 0], chi2 := [EF.fin 5, EF.fin 1, EF.pinf],
    name := ["a", "b", "c"], fluxes := some [[1], [2], [3]], modelId := [] }

example : WFRows exPkgX := by
  refine ⟨rfl, rfl, rfl, ?_⟩
  intro fl h
  simp [exPkgX] at h
  subst h
  rfl

end SF
