import SedVerif.Proofs.Match
import SedVerif.Model.Pipeline
import SedVerif.Proofs.RoundTrip
/-!
# C07 — convolved-flux files keep model identity, identically in both package formats

Property theorems only.  Model: `SedVerif/Model/Match.lean` (`orderToMatch`, `sortToMatch`,
`convolveV1`, `convolveV2`).  Statements hold for every number of models and apertures, every scalar
type and every row type.
-/
namespace SF
open SF.Match
variable {K F S : Type}

/-- **C07 (safety).** If `sort_to_match` returns, the new names are the requested (stripped) names,
    apertures and central wavelength are untouched, and every new row `i` holds the flux row *and* the
    error row of one old row `j` that carried the label `requested[i]`. -/
theorem C07_safety (c c' : Conv K F) (req : List String) (h : sortToMatch c req = .ok c') :
    c'.names = req.map strip ∧ c'.apertures = c.apertures ∧ c'.filtwav = c.filtwav ∧
    c'.flux.length = req.length ∧ c'.error.length = req.length ∧
    ∀ i (hi : i < req.length), ∃ (j : Nat) (f e : F),
      c.names[j]? = some (strip req[i]) ∧ c.flux[j]? = some f ∧ c.error[j]? = some e ∧
      c'.flux[i]? = some f ∧ c'.error[i]? = some e := by
  obtain ⟨order, fl, er, -, hnm, hfl, her, rfl⟩ := sortToMatch_ok c c' req h
  have hlen : order.length = req.length := by
    have := gather?_length _ _ _ hnm; simpa using this.symm
  refine ⟨rfl, rfl, rfl, ?_, ?_, ?_⟩
  · simpa [hlen] using gather?_length _ _ _ hfl
  · simpa [hlen] using gather?_length _ _ _ her
  · intro i hi
    have hi' : i < order.length := by omega
    obtain ⟨hn1, -⟩ := gather?_getElem? _ _ _ hnm i hi'
    obtain ⟨hf1, hf2⟩ := gather?_getElem? _ _ _ hfl i hi'
    obtain ⟨he1, he2⟩ := gather?_getElem? _ _ _ her i hi'
    obtain ⟨f, hf⟩ := Option.isSome_iff_exists.mp hf2
    obtain ⟨e, he⟩ := Option.isSome_iff_exists.mp he2
    refine ⟨order[i], f, e, ?_, hf, he, ?_, ?_⟩
    · rw [← hn1]; simp [hi]
    · simpa [hf] using hf1
    · simpa [he] using he1

/-- **C07 (safety, distinct names).** With distinct model names the row is pinned: *every* new row
    labelled `X` equals *every* old row labelled `X`, flux and error alike. -/
theorem C07_safety_nodup (c c' : Conv K F) (req : List String) (h : sortToMatch c req = .ok c')
    (hnd : c.names.Nodup) (i j : Nat) (X : String)
    (hi : c'.names[i]? = some X) (hj : c.names[j]? = some X) :
    c'.flux[i]? = c.flux[j]? ∧ c'.error[i]? = c.error[j]? ∧
    (c'.flux[i]?).isSome ∧ (c'.error[i]?).isSome := by
  obtain ⟨hn, -, -, -, -, hrow⟩ := C07_safety c c' req h
  rw [hn] at hi
  obtain ⟨hi', hX⟩ := List.getElem?_eq_some_iff.mp hi
  simp only [List.length_map] at hi'
  obtain ⟨j0, f, e, h1, h2, h3, h4, h5⟩ := hrow i hi'
  simp only [List.getElem_map] at hX
  rw [hX] at h1
  have hj0 : j0 < c.names.length := (List.getElem?_eq_some_iff.mp h1).1
  have : j0 = j := (List.getElem?_inj hj0 hnd).mp (h1.trans hj.symm)
  subst this
  simp [h2, h3, h4, h5]

/-- **C07 (liveness).** If the names carried by the rows are a rearrangement of the requested
    (stripped) names — any directory-listing order against any row order of the parameter table —
    and the arrays are as long as the name list, `sort_to_match` returns and the new names equal the
    requested list.  (No distinctness is needed.) -/
theorem C07_liveness (c : Conv K F) (req : List String)
    (hperm : c.names.Perm (req.map strip))
    (hfl : c.flux.length = c.names.length) (her : c.error.length = c.names.length) :
    ∃ c', sortToMatch c req = .ok c' ∧ c'.names = req.map strip := by
  obtain ⟨order, horder, -, hlt, hnm⟩ := orderToMatch_of_perm c.names (req.map strip) hperm
  obtain ⟨fl, hfl'⟩ := gather?_isSome c.flux order (fun i hi => hfl ▸ hlt i hi)
  obtain ⟨er, her'⟩ := gather?_isSome c.error order (fun i hi => her ▸ hlt i hi)
  refine ⟨{ c with names := req.map strip, flux := fl, error := er }, ?_, rfl⟩
  unfold sortToMatch
  simp [horder, hnm, hfl', her']

/-- the flux row and the error row the convolution assigns to one SED -/
def convRowOf (cv ce : S → K) (aps : Option (List K)) (sedOf : String → Nat → Ap S) (X : String) :
    List K × List K := convRow cv ce (nApOf aps) (sedOf X)

/-- **C07 (formats).** A per-file package and a cube package built from the same name → SED map
    (`sedOf`), the same aperture grid and the same filter: for ANY directory-listing order of the SED
    files, ANY row order of the per-file parameter table (names possibly padded with blanks) and ANY
    cube order, both convolutions return; rows follow the parameter table (per-file) / the cube (cube
    format); apertures and central wavelength are carried over; and for every name `X` the row
    labelled `X` is the same in both files, namely the convolution of SED `X`.
    (`take30 s.name = s.name` says the names fit the 30-character columns; `take30_of_length_le`
    derives it from `s.name.length ≤ 30`.) -/
theorem C07_formats [Zero K] (cv ce : S → K) (w : K) (aps : Option (List K))
    (sedOf : String → Nat → Ap S)
    (listing : List (SedFile K S)) (table1 : List String) (cube : Cube K S)
    (hne : listing ≠ [])
    (hfiles : ∀ s ∈ listing, s.apertures = aps ∧ s.sed = sedOf s.name ∧ take30 s.name = s.name)
    (htable : (table1.map strip).Perm (listing.map (·.name)))
    (hcubeAp : cube.apertures = aps) (hcubeSeds : cube.seds = cube.names.map sedOf)
    (hcubeNames : cube.names.Perm (listing.map (·.name))) :
    ∃ f1 f2, convolveV1 cv ce w listing table1 = .ok f1 ∧
      convolveV2 cv ce w cube cube.names = .ok f2 ∧
      f1.names = table1.map strip ∧ f2.names = cube.names ∧
      f1.apertures = aps ∧ f2.apertures = aps ∧ f1.filtwav = w ∧ f2.filtwav = w ∧
      ∀ X, f1.lookup X = f2.lookup X ∧
        (X ∈ listing.map (·.name) →
          f1.lookup X = some ((convRowOf cv ce aps sedOf X).1, (convRowOf cv ce aps sedOf X).2)) := by
  obtain ⟨first, rest, rfl⟩ := List.exists_cons_of_ne_nil hne
  have hfirst : first.apertures = aps := (hfiles first (by simp)).1
  -- names ≤ 30 characters: truncation is the identity on every name in play
  have ht30 : ∀ X ∈ (first :: rest).map (·.name), take30 X = X := by
    intro X hX
    obtain ⟨s, hs, rfl⟩ := List.mem_map.mp hX
    exact (hfiles s hs).2.2
  -- the object before sort_to_match: rows are a function of their label
  have hnames : (v1Unsorted cv ce w first (first :: rest)).names = (first :: rest).map (·.name) := by
    simp only [v1Unsorted]
    exact List.map_congr_left (fun s hs => (hfiles s hs).2.2)
  have hflux : (v1Unsorted cv ce w first (first :: rest)).flux
      = (v1Unsorted cv ce w first (first :: rest)).names.map (fun X => (convRowOf cv ce aps sedOf X).1) := by
    rw [hnames]
    simp only [v1Unsorted, List.map_map, convRowOf, hfirst]
    exact List.map_congr_left (fun s hs => by simp [(hfiles s hs).2.1])
  have herr : (v1Unsorted cv ce w first (first :: rest)).error
      = (v1Unsorted cv ce w first (first :: rest)).names.map (fun X => (convRowOf cv ce aps sedOf X).2) := by
    rw [hnames]
    simp only [v1Unsorted, List.map_map, convRowOf, hfirst]
    exact List.map_congr_left (fun s hs => by simp [(hfiles s hs).2.1])
  obtain ⟨c', hc', hn'⟩ := C07_liveness (v1Unsorted cv ce w first (first :: rest)) table1
    (by rw [hnames]; exact htable.symm) (by rw [hflux]; simp) (by rw [herr]; simp)
  obtain ⟨hfl', her'⟩ := sortToMatch_labelled _ _ _ _ _ hc' hflux herr
  obtain ⟨-, hap', hw', -⟩ := C07_safety _ _ _ hc'
  have hw1 : c'.written.names = table1.map strip := by
    simp only [Conv.written, hn']
    conv => rhs; rw [← List.map_id (table1.map strip)]
    exact List.map_congr_left (fun X hX => by simpa using ht30 X (htable.mem_iff.mp hX))
  -- the cube side
  have hw2 : cube.names.map take30 = cube.names := by
    conv => rhs; rw [← List.map_id cube.names]
    exact List.map_congr_left (fun X hX => by simpa using ht30 X (hcubeNames.mem_iff.mp hX))
  have hlenS : cube.seds.length = cube.names.length := by rw [hcubeSeds]; simp
  have hF := fromCols_eq (fun (s : Nat → Ap S) ia => cv (s ia).val) cube.seds (nApOf cube.apertures)
  have hE := fromCols_eq (fun (s : Nat → Ap S) ia => ce (s ia).unc) cube.seds (nApOf cube.apertures)
  rw [hlenS] at hF hE
  refine ⟨c'.written, (v2Filled cv ce w cube).written, ?_, ?_, hw1, ?_, ?_, ?_, ?_, ?_, ?_⟩
  · simp [convolveV1, hc']
  · simp [convolveV2]
  · simp [Conv.written, v2Filled, hw2]
  · simp [Conv.written, hap', v1Unsorted, hfirst]
  · simp [Conv.written, v2Filled, hcubeAp]
  · simp [Conv.written, hw', v1Unsorted]
  · simp [Conv.written, v2Filled]
  · intro X
    have h1 : c'.written.lookup X
        = if X ∈ table1.map strip then some ((convRowOf cv ce aps sedOf X).1, (convRowOf cv ce aps sedOf X).2)
          else none := by
      have := lookupRow_map X (fun X => (convRowOf cv ce aps sedOf X).1)
        (fun X => (convRowOf cv ce aps sedOf X).2) (table1.map strip)
      simp only [Conv.lookup]
      rw [hw1]
      simp only [Conv.written, hfl', her', hn']
      exact this
    have h2 : (v2Filled cv ce w cube).written.lookup X
        = if X ∈ cube.names then some ((convRowOf cv ce aps sedOf X).1, (convRowOf cv ce aps sedOf X).2)
          else none := by
      have := lookupRow_map X (fun X => (convRowOf cv ce aps sedOf X).1)
        (fun X => (convRowOf cv ce aps sedOf X).2) cube.names
      simp only [Conv.lookup, Conv.written, v2Filled, hw2, hF, hE]
      rw [hcubeSeds, hcubeAp]
      simp only [List.map_map]
      exact this
    rw [h1, h2]
    have hmem : X ∈ table1.map strip ↔ X ∈ cube.names :=
      (htable.mem_iff).trans (hcubeNames.mem_iff).symm
    refine ⟨by simp [hmem], fun hX => ?_⟩
    simp [htable.mem_iff.mpr hX]

/-! ### The same with the concrete convolution and the concrete readers -/

section concrete
variable {K : Type} [Zero K] [One K] [Add K] [Sub K] [Mul K] [Div K] [Neg K] [LinearOrder K]

/-- the `SED` object of model `X` in increasing frequency: grid `nus` (wavelengths `wavs`), one flux row
    and one uncertainty row per aperture -/
def canonSed (aps wavs nus : List K) (F U : String → List (List K)) (X : String) : RT.Sed K :=
  { name := X, wav := wavs, nu := nus, aps := some aps, flux := F X, err := some (U X) }

/-- the four HDUs of `seds/<X>.fits`, stored in increasing (`dec = false`) or decreasing frequency -/
def storedSedFile (aps wavs nus : List K) (F U : String → List (List K)) (X : String) (dec : Bool) :
    RT.SedFile K :=
  if dec then
    { name := X, wav := wavs.reverse, nu := nus.reverse, aps := aps,
      flux := (F X).map List.reverse, err := (U X).map List.reverse }
  else { name := X, wav := wavs, nu := nus, aps := aps, flux := F X, err := U X }

/-- the cube in increasing frequency, models in cube order -/
def canonCube (aps wavs : List K) (F U : String → List (List K)) (names : List String) : RT.Cube K :=
  { names := names, wav := wavs, aps := some aps, val := names.map F, unc := some (names.map U) }

/-- the cube object written to `flux.fits`, spectral axis in either order -/
def storedCube (aps wavs : List K) (F U : String → List (List K)) (names : List String) (dec : Bool) :
    RT.Cube K :=
  if dec then RT.reverseSpectralCube (canonCube aps wavs F U names) else canonCube aps wavs F U names

/-- the cube as `_convolve_model_dir_2` slices it: model `m`, aperture `ia` ↦ (`val[m, ia, :]`,
    `unc[m, ia, :]`) on the grid `cube.nu`; `none` when the cube has no uncertainties (the code
    raises) -/
def cubeAsMatch (toNu : K → K) (c : RT.Cube K) : Option (Match.Cube K (Pipe.Spec K)) :=
  match c.unc with
  | none => none
  | some unc =>
    some { names := c.names, apertures := c.aps,
           seds := List.zipWith (fun v u => fun ia =>
             (⟨(c.wav.map toNu, v.getD ia []), (c.wav.map toNu, u.getD ia [])⟩ : Ap (Pipe.Spec K))) c.val unc }

theorem zipWith_map_map {α β γ δ : Type} (f : β → γ → δ) (g : α → β) (h : α → γ) : ∀ l : List α,
    List.zipWith f (l.map g) (l.map h) = l.map (fun x => f (g x) (h x))
  | [] => rfl
  | a :: l => by simp [zipWith_map_map f g h l]

/-- `SED.read(order='nu')` returns the same object whichever way the file stores the spectral axis -/
theorem sedRead_stored (aps wavs nus : List K) (F U : String → List (List K)) (X : String) (dec : Bool)
    (hinc : nus.Pairwise (· < ·)) (hlen : 2 ≤ nus.length) :
    RT.sedRead .nu (storedSedFile aps wavs nus F U X dec) = some (canonSed aps wavs nus F U X) := by
  cases dec with
  | false =>
    have h := RT.firstGtLast_inc nus hinc (by intro h; simp [h] at hlen)
    rw [RT.sedRead_nu _ false (by simpa [storedSedFile] using h)]
    rfl
  | true =>
    have hdec : nus.reverse.Pairwise (· > ·) := List.pairwise_reverse.mpr hinc
    have h := RT.firstGtLast_dec nus.reverse hdec (by simpa using hlen)
    rw [RT.sedRead_nu _ true (by simpa [storedSedFile] using h)]
    simp [storedSedFile, RT.fileSed, RT.reverseSpectral, canonSed]

/-- `SEDCube.read(order='nu')` likewise -/
theorem cubeRead_stored (toNu : K → K) (aps wavs nus : List K) (F U : String → List (List K))
    (names : List String) (dec : Bool) (hnu : wavs.map toNu = nus)
    (hinc : nus.Pairwise (· < ·)) (hlen : 2 ≤ nus.length) :
    RT.cubeRead toNu .nu (RT.cubeWrite toNu (storedCube aps wavs F U names dec))
      = some (canonCube aps wavs F U names) := by
  cases dec with
  | false =>
    have h := RT.firstGtLast_inc nus hinc (by intro h; simp [h] at hlen)
    rw [RT.cubeRead_nu toNu _ false (by simpa [storedCube, canonCube, hnu] using h)]
    rfl
  | true =>
    have hdec : nus.reverse.Pairwise (· > ·) := List.pairwise_reverse.mpr hinc
    have h := RT.firstGtLast_dec nus.reverse hdec (by simpa using hlen)
    rw [RT.cubeRead_nu toNu _ true (by
      simpa [storedCube, canonCube, RT.reverseSpectralCube, List.map_reverse, hnu] using h)]
    simp [storedCube, RT.reverseSpectralCube_invol]

/-- **C07 (formats, concrete).** `C07_formats` with nothing left abstract: the functionals are the
    code's `np.sum(flux * f.rebin(nu).response)` and `np.sum((error * f.rebin(nu).response) ** 2)`
    (`Pipe.cvOf`, `Pipe.ceOf` of one filter `flt`), the per-file package is read by `SED.read(order='nu')`
    file by file — each file stored in increasing or decreasing frequency as it likes (`files`: name and
    storage flag, in directory-listing order), each convolved on its own grid after the flip — and the
    cube by `SEDCube.read(order='nu')` from either storage order, convolved aperture slice by aperture
    slice on `cube.nu`.  For equal SEDs on a common grid both files come out, rows follow the parameter
    table / the cube, and the row labelled `X` is the same in both: flux `Σ F_X R` and variance
    `Σ (σ_X R)²` per aperture, `R = rebin flt nus`. -/
theorem C07_formats_concrete (flt : List (K × K)) (w : K) (toNu : K → K) (aps wavs nus : List K)
    (F U : String → List (List K)) (files : List (String × Bool)) (table1 cubeNames : List String)
    (cubeDec : Bool)
    (hnu : wavs.map toNu = nus) (hinc : nus.Pairwise (· < ·)) (hlen : 2 ≤ nus.length)
    (hne : files ≠ []) (h30 : ∀ p ∈ files, take30 p.1 = p.1)
    (htable : (table1.map strip).Perm (files.map (·.1)))
    (hcube : cubeNames.Perm (files.map (·.1))) :
    (∀ p ∈ files, RT.sedRead .nu (storedSedFile aps wavs nus F U p.1 p.2)
        = some (canonSed aps wavs nus F U p.1)) ∧
    RT.cubeRead toNu .nu (RT.cubeWrite toNu (storedCube aps wavs F U cubeNames cubeDec))
        = some (canonCube aps wavs F U cubeNames) ∧
    ∃ cube f1 f2, cubeAsMatch toNu (canonCube aps wavs F U cubeNames) = some cube ∧
      convolveV1 (Pipe.cvOf flt) (Pipe.ceOf flt) w
        (files.map (fun p => Pipe.asSedFile (canonSed aps wavs nus F U p.1))) table1 = .ok f1 ∧
      convolveV2 (Pipe.cvOf flt) (Pipe.ceOf flt) w cube cubeNames = .ok f2 ∧
      f1.names = table1.map strip ∧ f2.names = cubeNames ∧
      f1.apertures = some aps ∧ f2.apertures = some aps ∧ f1.filtwav = w ∧ f2.filtwav = w ∧
      ∀ X, f1.lookup X = f2.lookup X ∧
        (X ∈ files.map (·.1) → f1.lookup X = some
          ((List.range aps.length).map (fun ia => Pipe.cvOf flt (nus, (F X).getD ia [])),
           (List.range aps.length).map (fun ia => Pipe.ceOf flt (nus, (U X).getD ia [])))) := by
  refine ⟨fun p _ => sedRead_stored aps wavs nus F U p.1 p.2 hinc hlen,
    cubeRead_stored toNu aps wavs nus F U cubeNames cubeDec hnu hinc hlen, ?_⟩
  let sedOf : String → Nat → Ap (Pipe.Spec K) := fun X ia =>
    ⟨(nus, (F X).getD ia []), (nus, (U X).getD ia [])⟩
  let cube : Match.Cube K (Pipe.Spec K) :=
    { names := cubeNames, apertures := some aps, seds := cubeNames.map sedOf }
  have hcubeEq : cubeAsMatch toNu (canonCube aps wavs F U cubeNames) = some cube := by
    simp only [cubeAsMatch, canonCube, hnu, zipWith_map_map]
    rfl
  have hnames : (files.map (fun p => Pipe.asSedFile (canonSed aps wavs nus F U p.1))).map (·.name)
      = files.map (·.1) := by
    simp [List.map_map, Function.comp_def, Pipe.asSedFile, canonSed]
  obtain ⟨f1, f2, h1, h2, h3, h4, h5, h6, h7, h8, h9⟩ :=
    C07_formats (Pipe.cvOf flt) (Pipe.ceOf flt) w (some aps) sedOf
      (files.map (fun p => Pipe.asSedFile (canonSed aps wavs nus F U p.1))) table1 cube
      (by simpa using hne)
      (by
        intro s hs
        obtain ⟨p, hp, rfl⟩ := List.mem_map.mp hs
        exact ⟨rfl, rfl, h30 p hp⟩)
      (by rw [hnames]; exact htable) rfl rfl (by rw [hnames]; exact hcube)
  refine ⟨cube, f1, f2, hcubeEq, h1, h2, h3, h4, h5, h6, h7, h8, fun X => ?_⟩
  obtain ⟨g1, g2⟩ := h9 X
  refine ⟨g1, fun hX => ?_⟩
  rw [g2 (by rw [hnames]; exact hX)]
  rfl

-- hypotheses of `C07_formats_concrete` on a concrete grid (wavelengths 4, 2, 1 ↦ frequencies 1, 2, 4), two files
-- stored in opposite spectral orders, a padded permuted table, a cube in a third order
example : ([4, 2, 1] : List Rat).map (fun x => 4 / x) = [1, 2, 4] ∧ ([1, 2, 4] : List Rat).Pairwise (· < ·) ∧
    2 ≤ ([1, 2, 4] : List Rat).length ∧ [("m2", true), ("m1", false)] ≠ ([] : List (String × Bool)) ∧
    (∀ p ∈ [("m2", true), ("m1", false)], take30 p.1 = p.1) ∧
    (["m1 ", "m2"].map strip).Perm ([("m2", true), ("m1", false)].map (·.1)) ∧
    ["m1", "m2"].Perm ([("m2", true), ("m1", false)].map (·.1)) := by
  refine ⟨by decide +kernel, by decide +kernel, by decide, by decide, ?_, by decide, by decide⟩
  intro p hp
  simp only [List.mem_cons, List.not_mem_nil, or_false] at hp
  rcases hp with rfl | rfl <;> decide

end concrete

/-! ### Convolving a package again -/

section directory
variable {C : Type}

/-- **C07 (re-convolution refused).** With `overwrite=False`, if the first file to be written already
    exists the run stops with `fileExists` and the directory is exactly what it was. -/
theorem C07_reconvolve_refused (n : String) (c : C) (rest : List (String × C)) (dir : Dir C)
    (h : (dir n).isSome = true) :
    writeFiles false ((n, c) :: rest) dir = (dir, some MErr.fileExists) := by
  simp [writeFiles, h]

/-- **C07 (re-convolution with overwrite).** With `overwrite=True` the run never refuses; afterwards
    every filter's file holds the newly computed content (that of the revised package), and every
    other file of the directory is untouched. -/
theorem C07_reconvolve_overwrite : ∀ (new : List (String × C)) (dir : Dir C), (new.map (·.1)).Nodup →
    (writeFiles true new dir).2 = none ∧
    (∀ nc ∈ new, (writeFiles true new dir).1 nc.1 = some nc.2) ∧
    (∀ m, m ∉ new.map (·.1) → (writeFiles true new dir).1 m = dir m)
  | [], dir, _ => by simp [writeFiles]
  | (n, c) :: rest, dir, hnd => by
    simp only [List.map_cons, List.nodup_cons] at hnd
    obtain ⟨h1, h2, h3⟩ := C07_reconvolve_overwrite rest (putFile n c dir) hnd.2
    have hw : writeFiles true ((n, c) :: rest) dir = writeFiles true rest (putFile n c dir) := by
      simp [writeFiles]
    rw [hw]
    refine ⟨h1, ?_, ?_⟩
    · intro nc hnc
      rcases List.mem_cons.mp hnc with rfl | hmem
      · rw [h3 n hnd.1]; simp [putFile]
      · exact h2 nc hmem
    · intro m hm
      simp only [List.map_cons, List.mem_cons, not_or] at hm
      rw [h3 m hm.2]
      simp [putFile, hm.1]

/-- **C07 (first convolution).** Into a directory that holds none of the files, `overwrite=False` and
    `overwrite=True` do the same. -/
theorem C07_first_convolution : ∀ (new : List (String × C)) (dir : Dir C), (new.map (·.1)).Nodup →
    (∀ nc ∈ new, dir nc.1 = none) → writeFiles false new dir = writeFiles true new dir
  | [], _, _, _ => rfl
  | (n, c) :: rest, dir, hnd, hfree => by
    simp only [List.map_cons, List.nodup_cons] at hnd
    have hn : dir n = none := hfree (n, c) (by simp)
    have ih := C07_first_convolution rest (putFile n c dir) hnd.2 (fun nc hnc => by
      have hne : nc.1 ≠ n := fun e => hnd.1 (e ▸ List.mem_map.mpr ⟨nc, hnc, rfl⟩)
      simp [putFile, hne, hfree nc (by simp [hnc])])
    simp [writeFiles, hn, ih]

-- a directory holding F0; convolving F0 and F1 again: refused without overwrite, both rewritten with it
example : (putFile "F0" (1 : Nat) (fun _ => none) "F0").isSome = true ∧ (["F0", "F1"] : List String).Nodup := by decide

end directory

/-! ### Non-vacuity: concrete packages meet the hypotheses and exercise every step -/

/-- three rows in directory-listing order (`a_m2 < b_m3 < c_m1` are the *file* names; the labels are
    the model names), two apertures -/
def c07ExConv : Conv Rat (List Rat) :=
  { names := ["m1", "m3", "m2"], apertures := some [10, 20], filtwav := 5 / 2,
    flux := [[1, 2], [3, 4], [5, 6]], error := [[1 / 10, 1 / 5], [3 / 10, 2 / 5], [1 / 2, 3 / 5]] }

/-- parameter-table order ≠ listing order ≠ name order; two names padded with blanks -/
def c07ExReq : List String := ["m2  ", "m1", "m3 "]

-- hypotheses of `C07_liveness`
example : c07ExConv.names.Perm (c07ExReq.map strip) ∧ c07ExConv.flux.length = c07ExConv.names.length ∧
    c07ExConv.error.length = c07ExConv.names.length := by decide

-- hypothesis of `C07_safety` (and, with distinct names, of `C07_safety_nodup`): it does return
example : ∃ c', sortToMatch c07ExConv c07ExReq = .ok c' ∧ c'.names = ["m2", "m1", "m3"] :=
  C07_liveness c07ExConv c07ExReq (by decide) (by decide) (by decide)
example : c07ExConv.names.Nodup := by decide

-- the post-check is live: a requested list that is not a rearrangement is never accepted
example : ∀ c', sortToMatch c07ExConv ["m1", "m2", "m4"] ≠ .ok c' := by
  intro c' h
  obtain ⟨-, -, -, -, -, hrow⟩ := C07_safety _ _ _ h
  obtain ⟨j, _, _, hj, -⟩ := hrow 2 (by decide)
  have hmem : strip "m4" ∈ c07ExConv.names := List.mem_iff_getElem?.mpr ⟨j, hj⟩
  revert hmem; decide

/-- hypotheses of `C07_formats`: a name → SED map, three files, a permuted padded table, a cube in a
    third order -/
def c07ExSedOf (X : String) (ia : Nat) : Ap Nat := ⟨X.length + 10 * ia, 7 * X.length + ia⟩
def c07ExListing : List (SedFile Rat Nat) :=
  [⟨"m1", some [10, 20], c07ExSedOf "m1"⟩, ⟨"model_3", some [10, 20], c07ExSedOf "model_3"⟩,
   ⟨"m2", some [10, 20], c07ExSedOf "m2"⟩]
def c07ExTable : List String := ["m2  ", "m1", "model_3 "]
def c07ExCube : Cube Rat Nat :=
  { names := ["model_3", "m2", "m1"], apertures := some [10, 20],
    seds := ["model_3", "m2", "m1"].map c07ExSedOf }

example : c07ExListing ≠ [] ∧
    (∀ s ∈ c07ExListing, s.apertures = some [10, 20] ∧ s.sed = c07ExSedOf s.name ∧ take30 s.name = s.name) ∧
    (c07ExTable.map strip).Perm (c07ExListing.map (·.name)) ∧
    c07ExCube.apertures = some [10, 20] ∧ c07ExCube.seds = c07ExCube.names.map c07ExSedOf ∧
    c07ExCube.names.Perm (c07ExListing.map (·.name)) := by
  refine ⟨by decide, ?_, by decide, rfl, rfl, by decide⟩
  intro s hs
  simp only [c07ExListing, List.mem_cons, List.not_mem_nil, or_false] at hs
  rcases hs with rfl | rfl | rfl <;> exact ⟨rfl, rfl, by decide⟩

end SF
