import SedVerif.Model.Units
import Mathlib.Tactic.Ring
import Mathlib.Tactic.FieldSimp
import Mathlib.Tactic.NormNum
import Mathlib.Algebra.Order.Field.Basic
/-!
# C15 — flux unit conversions are mutually consistent and invertible

Property theorems only.  Model: `SedVerif/Model/Units.lean` (`convertFlux`).  Statements hold over
every field; `ν`, `d` and the unit scale factors are arbitrary non-zero field elements.
-/
namespace SF
variable {K : Type} [Field K] [LinearOrder K] [IsStrictOrderedRing K]

/-- **C15 (relations).** In coherent base units the converted values satisfy `F = ν·F_ν` and
    `L = F·d²` (hence `L = ν·F_ν·d²`), whatever units of the three families are involved. -/
theorem C15_relations (ν d : K) (A B : FUnit K) (v : K) (hB : B.scale ≠ 0) :
    (A.fam = some .fnu → B.fam = some .flux →
      ∃ r, convertFlux ν d A B v = .ok r ∧ phys B r = ν * phys A v) ∧
    (A.fam = some .flux → B.fam = some .lum →
      ∃ r, convertFlux ν d A B v = .ok r ∧ phys B r = phys A v * (d * d)) ∧
    (A.fam = some .fnu → B.fam = some .lum →
      ∃ r, convertFlux ν d A B v = .ok r ∧ phys B r = ν * phys A v * (d * d)) ∧
    (A.fam = B.fam → A.fam ≠ none → ν ≠ 0 → d ≠ 0 →
      ∃ r, convertFlux ν d A B v = .ok r ∧ phys B r = phys A v) := by
  refine ⟨?_, ?_, ?_, ?_⟩
  · intro ha hb
    refine ⟨_, by simp only [convertFlux, toFlux, fromFlux, ha, hb]; rfl, ?_⟩
    simp only [phys]; field_simp
  · intro ha hb
    refine ⟨_, by simp only [convertFlux, toFlux, fromFlux, ha, hb]; rfl, ?_⟩
    simp only [phys]; field_simp
  · intro ha hb
    refine ⟨_, by simp only [convertFlux, toFlux, fromFlux, ha, hb]; rfl, ?_⟩
    simp only [phys]; field_simp
  · intro hab hne hν hd
    rcases hfa : A.fam with _ | fa
    · exact absurd hfa hne
    · have hfb : B.fam = some fa := by rw [← hab, hfa]
      cases fa
      · refine ⟨_, by simp only [convertFlux, toFlux, fromFlux, hfa, hfb]; rfl, ?_⟩
        simp only [phys]; field_simp
      · refine ⟨_, by simp only [convertFlux, toFlux, fromFlux, hfa, hfb]; rfl, ?_⟩
        simp only [phys]; field_simp
      · refine ⟨_, by simp only [convertFlux, toFlux, fromFlux, hfa, hfb]; rfl, ?_⟩
        simp only [phys]; field_simp

/-- **C15 (supported units convert).** Between any two supported units the conversion returns a value. -/
theorem C15_total (ν d : K) (A B : FUnit K) (v : K) (fa fb : Family)
    (ha : A.fam = some fa) (hb : B.fam = some fb) : ∃ r, convertFlux ν d A B v = .ok r := by
  cases fa <;> cases fb <;> exact ⟨_, by simp only [convertFlux, toFlux, fromFlux, ha, hb]; rfl⟩

/-- **C15 (round trip).** `A → B → A` is the identity for supported units, `ν, d ≠ 0`. -/
theorem C15_roundtrip (ν d : K) (A B : FUnit K) (v : K) (fa fb : Family)
    (ha : A.fam = some fa) (hb : B.fam = some fb)
    (hν : ν ≠ 0) (hd : d ≠ 0) (hA : A.scale ≠ 0) (hB : B.scale ≠ 0) :
    ∃ r, convertFlux ν d A B v = .ok r ∧ convertFlux ν d B A r = .ok v := by
  cases fa <;> cases fb <;>
    exact ⟨_, by simp only [convertFlux, toFlux, fromFlux, ha, hb]; rfl, by
      simp only [convertFlux, toFlux, fromFlux, ha, hb]
      congr 1; field_simp⟩

/-- **C15 (composition).** `A → B → C` equals `A → C` when the intermediate unit `B` is supported,
    `ν, d ≠ 0` — including the case where either side refuses (`A` or `C` unsupported). -/
theorem C15_compose (ν d : K) (A B C : FUnit K) (v : K) (fb : Family) (hb : B.fam = some fb)
    (hν : ν ≠ 0) (hd : d ≠ 0) (hB : B.scale ≠ 0) :
    (match convertFlux ν d A B v with
     | .ok r => convertFlux ν d B C r
     | .error e => .error e) = convertFlux ν d A C v := by
  rcases hfa : A.fam with _ | fa
  · simp only [convertFlux, toFlux, hfa]
  · rcases hfc : C.fam with _ | fc
    · cases fa <;> cases fb <;> simp only [convertFlux, toFlux, fromFlux, hfa, hb, hfc]
    · cases fa <;> cases fb <;> cases fc <;>
        (simp only [convertFlux, toFlux, fromFlux, hfa, hb, hfc]; congr 1; field_simp)

/-- **C15 (refusal).** A unit of none of the three families is refused, as source or as target. -/
theorem C15_refuse (ν d : K) (A B : FUnit K) (v : K) :
    (A.fam = none → convertFlux ν d A B v = .error .unsupported) ∧
    (B.fam = none → convertFlux ν d A B v = .error .unsupported) := by
  constructor
  · intro ha; simp only [convertFlux, toFlux, ha]
  · intro hb
    rcases hfa : A.fam with _ | fa
    · simp only [convertFlux, toFlux, hfa]
    · cases fa <;> simp only [convertFlux, toFlux, fromFlux, hfa, hb]

/-! ### Non-vacuity (over ℚ): mJy, Jy, erg/cm²/s, W/m², erg/s and a temperature -/

def exMJy : FUnit Rat := ⟨some .fnu, 1 / 10 ^ 26⟩
def exJy : FUnit Rat := ⟨some .fnu, 1 / 10 ^ 23⟩
def exCgs : FUnit Rat := ⟨some .flux, 1⟩
def exSI : FUnit Rat := ⟨some .flux, 1000⟩
def exLum : FUnit Rat := ⟨some .lum, 1⟩
def exKelvin : FUnit Rat := ⟨none, 1⟩

-- 5 mJy at 2·10¹⁴ Hz is 10⁻¹¹ erg/cm²/s = 10⁻¹⁴ W/m²; at d = 3·10²¹ cm that is 9·10³¹ erg/s
example : convertFlux (2 * 10 ^ 14) (3 * 10 ^ 21) exMJy exCgs 5 = .ok (1 / 10 ^ 11)
    ∧ convertFlux (2 * 10 ^ 14) (3 * 10 ^ 21) exMJy exSI 5 = .ok (1 / 10 ^ 14)
    ∧ convertFlux (2 * 10 ^ 14) (3 * 10 ^ 21) exMJy exLum 5 = .ok (9 * 10 ^ 31)
    ∧ convertFlux (2 * 10 ^ 14) (3 * 10 ^ 21) exLum exJy (9 * 10 ^ 31) = .ok (5 / 1000)
    ∧ convertFlux (2 * 10 ^ 14) (3 * 10 ^ 21) exMJy exKelvin 5 = .error .unsupported := by
  simp only [convertFlux, toFlux, fromFlux, exMJy, exJy, exCgs, exSI, exLum, exKelvin]
  norm_num

end SF
