import SedVerif.Model.Units
import Mathlib.Tactic.Ring
import Mathlib.Tactic.FieldSimp
import Mathlib.Tactic.NormNum
import Mathlib.Algebra.Order.Field.Basic
/-!
# C15 — flux unit conversions are mutually consistent and invertible

Property theorems only.  Model: `SedVerif/Model/Units.lean` (`convertFlux`).  Statements hold over
every field; `ν`, `d` and the unit scale factors are arbitrary non-zero field elements.
-/
namespace SF
variable {K : Type} [Field K] [LinearOrder K] [IsStrictOrderedRing K]

/-- **C15 (relations).** In coherent base units the converted values satisfy `F = ν·F_ν` and
    `L = F·d²` (hence `L = ν·F_ν·d²`), whatever units of the three families are involved. -/
theorem C15_relations (ν d : K) (A B : FUnit K) (v : K) (hB : B.scale ≠ 0) :
    (A.fam = some .fnu → B.fam = some .flux →
      ∃ r, convertFlux ν d A B v = .ok r ∧ phys B r = ν * phys A v) ∧
    (A.fam = some .flux → B.fam = some .lum →
      ∃ r, convertFlux ν d A B v = .ok r ∧ phys B r = phys A v * (d * d)) ∧
    (A.fam = some .fnu → B.fam = some .lum →
      ∃ r, convertFlux ν d A B v = .ok r ∧ phys B r = ν * phys A v * (d * d)) ∧
    (A.fam = B.fam → A.fam ≠ none → ν ≠ 0 → d ≠ 0 →
      ∃ r, convertFlux ν d A B v = .ok r ∧ phys B r = phys A v) := by
  refine ⟨?_, ?_, ?_, ?_⟩
  · intro ha hb
    refine ⟨_, by simp only [convertFlux, toFlux, fromFlux, ha, hb]; rfl, ?_⟩
    simp only [phys]; field_simp
  · intro ha hb
    refine ⟨_, by simp only [convertFlux, toFlux, fromFlux, ha, hb]; rfl, ?_⟩
    simp only [phys]; field_simp
  · intro ha hb
    refine ⟨_, by simp only [convertFlux, toFlux, fromFlux, ha, hb]; rfl, ?_⟩
    simp only [phys]; field_simp
  · intro hab hne hν hd
    rcases hfa : A.fam with _ | fa
    · exact absurd hfa hne
    · have hfb : B.fam = some fa := by rw [← hab, hfa]
      cases fa
      · refine ⟨_, by simp only [convertFlux, toFlux, fromFlux, hfa, hfb]; rfl, ?_⟩
        simp only [phys]; field_simp
      · refine ⟨_, by simp only [convertFlux, toFlux, fromFlux, hfa, hfb]; rfl, ?_⟩
        simp only [phys]; field_simp
      · refine ⟨_, by simp only [convertFlux, toFlux, fromFlux, hfa, hfb]; rfl, ?_⟩
        simp only [phys]; field_simp

/-- **C15 (supported units convert).** Between any two supported units the conversion returns a value. -/
theorem C15_total (ν d : K) (A B : FUnit K) (v : K) (fa fb : Family)
    (ha : A.fam = some fa) (hb : B.fam = some fb) : ∃ r, convertFlux ν d A B v = .ok r := by
  cases fa <;> cases fb <;> exact ⟨_, by simp only [convertFlux, toFlux, fromFlux, ha, hb]; rfl⟩

/-- **C15 (round trip).** `A → B → A` is the identity for supported units, `ν, d ≠ 0`. -/
theorem C15_roundtrip (ν d : K) (A B : FUnit K) (v : K) (fa fb : Family)
    (ha : A.fam = some fa) (hb : B.fam = some fb)
    (hν : ν ≠ 0) (hd : d ≠ 0) (hA : A.scale ≠ 0) (hB : B.scale ≠ 0) :
    ∃ r, convertFlux ν d A B v = .ok r ∧ convertFlux ν d B A r = .ok v := by
  cases fa <;> cases fb <;>
    exact ⟨_, by simp only [convertFlux, toFlux, fromFlux, ha, hb]; rfl, by
      simp only [convertFlux, toFlux, fromFlux, ha, hb]
      congr 1; field_simp⟩

/-- **C15 (composition).** `A → B → C` equals `A → C` when the intermediate unit `B` is supported,
    `ν, d ≠ 0` — including the case where either side refuses (`A` or `C` unsupported). -/
theorem C15_compose (ν d : K) (A B C : FUnit K) (v : K) (fb : Family) (hb : B.fam = some fb)
    (hν : ν ≠ 0) (hd : d ≠ 0) (hB : B.scale ≠ 0) :
    (match convertFlux ν d A B v with
     | .ok r => convertFlux ν d B C r
     | .error e => .error e) = convertFlux ν d A C v := by
  rcases hfa : A.fam with _ | fa
  · simp only [convertFlux, toFlux, hfa]
  · rcases hfc : C.fam with _ | fc
    · cases fa <;> cases fb <;> simp only [convertFlux, toFlux, fromFlux, hfa, hb, hfc]
    · cases fa <;> cases fb <;> cases fc <;>
        (simp only [convertFlux, toFlux, fromFlux, hfa, hb, hfc]; congr 1; field_simp)

/-- **C15 (refusal).** A unit of none of the three families is refused, as source or as target. -/
theorem C15_refuse (ν d : K) (A B : FUnit K) (v : K) :
    (A.fam = none → convertFlux ν d A B v = .error .unsupported) ∧
    (B.fam = none → convertFlux ν d A B v = .error .unsupported) := by
  constructor
  · intro ha; simp only [convertFlux, toFlux, ha]
  · intro hb
    rcases hfa : A.fam with _ | fa
    · simp only [convertFlux, toFlux, hfa]
    · cases fa <;> simp only [convertFlux, toFlux, fromFlux, hfa, hb]

/-- **C15 (one factor).** Between two supported units the conversion is multiplication by one factor that
    depends only on the two families, the two unit scales, the frequency and the distance. -/
theorem C15_factor (ν d : K) (A B : FUnit K) (v : K) (fa fb : Family)
    (ha : A.fam = some fa) (hb : B.fam = some fb) :
    convertFlux ν d A B v = .ok (v * convFactor ν d fa fb A.scale B.scale) := by
  cases fa <;> cases fb <;>
    (simp only [convertFlux, toFlux, fromFlux, ha, hb, convFactor, famTo, famFrom]; congr 1; ring)

/-- **C15 (groupoid).** Stated once for all families, with the frequency and the distance as parameters:
    the factors compose (`A→B→C = A→C`), the factor of `A→A` is one, and `A→B` and `B→A` are inverse. -/
theorem C15_groupoid (ν d : K) (fa fb fc : Family) (sa sb sc : K)
    (hν : ν ≠ 0) (hd : d ≠ 0) (hsa : sa ≠ 0) (hsb : sb ≠ 0) :
    convFactor ν d fa fb sa sb * convFactor ν d fb fc sb sc = convFactor ν d fa fc sa sc ∧
    convFactor ν d fa fa sa sa = 1 ∧
    convFactor ν d fa fb sa sb * convFactor ν d fb fa sb sa = 1 := by
  refine ⟨?_, ?_, ?_⟩
  · cases fa <;> cases fb <;> cases fc <;> (simp only [convFactor, famTo, famFrom]; field_simp)
  · cases fa <;> (simp only [convFactor, famTo, famFrom]; field_simp)
  · cases fa <;> cases fb <;> (simp only [convFactor, famTo, famFrom]; field_simp)

/-- **C15 (groupoid on values).** The same on the conversions themselves, for every triple of supported
    units: `A→B→C = A→C` and `A→B→A = id`. -/
theorem C15_groupoid_values (ν d : K) (A B C : FUnit K) (v : K) (fa fb fc : Family)
    (ha : A.fam = some fa) (hb : B.fam = some fb) (hc : C.fam = some fc)
    (hν : ν ≠ 0) (hd : d ≠ 0) (hA : A.scale ≠ 0) (hB : B.scale ≠ 0) :
    (∃ r, convertFlux ν d A B v = .ok r ∧ convertFlux ν d B C r = convertFlux ν d A C v) ∧
    (∃ r, convertFlux ν d A B v = .ok r ∧ convertFlux ν d B A r = .ok v) := by
  obtain ⟨h1, _, h3⟩ := C15_groupoid ν d fa fb fc A.scale B.scale C.scale hν hd hA hB
  refine ⟨⟨_, C15_factor ν d A B v fa fb ha hb, ?_⟩, ⟨_, C15_factor ν d A B v fa fb ha hb, ?_⟩⟩
  · rw [C15_factor ν d B C _ fb fc hb hc, C15_factor ν d A C v fa fc ha hc, mul_assoc, h1]
  · rw [C15_factor ν d B A _ fb fa hb ha, mul_assoc, h3, mul_one]

/-- **C15 (distance).** The luminosity family depends on the distance through `d²` only
    (`L = F·d²`, `F = L/d²`), the other families not at all; a file without a `DISTANCE` keyword is
    converted with `d = 1 kpc`. -/
theorem C15_distance (ν d kpc x : K) (sa sb : K) (hd : d ≠ 0) :
    convFactor ν d .flux .lum sa sb = sa * (d * d) / sb ∧
    convFactor ν d .lum .flux sa sb = sa / (d * d) / sb ∧
    convFactor ν d .fnu .lum sa sb = sa * ν * (d * d) / sb ∧
    convFactor ν d .lum .lum sa sb = sa / sb ∧
    (∀ d' : K, convFactor ν d .fnu .flux sa sb = convFactor ν d' .fnu .flux sa sb) ∧
    readDistance (none : Option K) kpc = kpc ∧ readDistance (some x) kpc = x := by
  refine ⟨?_, ?_, ?_, ?_, ?_, rfl, rfl⟩
  · simp only [convFactor, famTo, famFrom]; try ring
  · simp only [convFactor, famTo, famFrom]; try ring
  · simp only [convFactor, famTo, famFrom]; try ring
  · simp only [convFactor, famTo, famFrom]; try field_simp
  · intro d'; simp only [convFactor, famTo, famFrom]

/-- **C15 (linear, zero preserved).** Conversion between supported units is linear — scales and sums
    commute with it, so errors convert exactly like fluxes — and zero converts to zero (a value of the
    REQUESTED unit: the result is `.ok 0`, whatever `ν`, `d` and the scales are). -/
theorem C15_linear (ν d : K) (A B : FUnit K) (fa fb : Family) (ha : A.fam = some fa) (hb : B.fam = some fb)
    (α β v w : K) :
    (∃ r1 r2, convertFlux ν d A B v = .ok r1 ∧ convertFlux ν d A B w = .ok r2 ∧
      convertFlux ν d A B (α * v + β * w) = .ok (α * r1 + β * r2)) ∧
    convertFlux ν d A B 0 = .ok 0 := by
  refine ⟨⟨_, _, C15_factor ν d A B v fa fb ha hb, C15_factor ν d A B w fa fb ha hb, ?_⟩, ?_⟩
  · rw [C15_factor ν d A B _ fa fb ha hb]; congr 1; ring
  · rw [C15_factor ν d A B 0 fa fb ha hb, zero_mul]

/-- a whole aperture row between supported units: element-wise multiplication by the factor at its own frequency -/
theorem C15_row_factor (d : K) (A B : FUnit K) (fa fb : Family) (ha : A.fam = some fa) (hb : B.fam = some fb) :
    ∀ (νs vs : List K), convertRow d A B νs vs
      = .ok (List.zipWith (fun ν v => v * convFactor ν d fa fb A.scale B.scale) νs vs)
  | [], _ => by simp [convertRow]
  | _ :: _, [] => by simp [convertRow]
  | ν :: νs, v :: vs => by
    simp only [convertRow, C15_factor ν d A B v fa fb ha hb, C15_row_factor d A B fa fb ha hb νs vs,
      List.zipWith_cons_cons]

/-- **C15 (all-zero rows).** An all-zero row (model SEDs without uncertainties) converts to an all-zero
    row of the same length in the requested unit. -/
theorem C15_zero_row (d : K) (A B : FUnit K) (fa fb : Family) (ha : A.fam = some fa) (hb : B.fam = some fb)
    (νs : List K) : convertRow d A B νs (νs.map (fun _ => 0)) = .ok (νs.map (fun _ => 0)) := by
  rw [C15_row_factor d A B fa fb ha hb]
  congr 1
  induction νs with
  | nil => rfl
  | cons ν νs ih => simp only [List.map_cons, List.zipWith_cons_cons, zero_mul, ih]

/-- **C15 (refusal for every input).** A target unit of none of the families is refused for every
    non-empty row — whatever the values are, all-zero rows included — and so is such a source unit. -/
theorem C15_refuse_row (d : K) (A B : FUnit K) (h : A.fam = none ∨ B.fam = none) (ν v : K) (νs vs : List K) :
    convertRow d A B (ν :: νs) (v :: vs) = .error .unsupported := by
  have hc : convertFlux ν d A B v = .error .unsupported := by
    rcases h with h | h
    · exact (C15_refuse ν d A B v).1 h
    · exact (C15_refuse ν d A B v).2 h
  simp only [convertRow, hc]

/-- **C15 (spectral order).** Conversion commutes with reversing the spectral axis, because each
    frequency travels with its flux: converting then reversing = reversing both arrays then converting. -/
theorem C15_reverse (d : K) (A B : FUnit K) (fa fb : Family) (ha : A.fam = some fa) (hb : B.fam = some fb)
    (νs vs : List K) (hlen : νs.length = vs.length) :
    convertRow d A B νs.reverse vs.reverse = (convertRow d A B νs vs).map List.reverse := by
  rw [C15_row_factor d A B fa fb ha hb, C15_row_factor d A B fa fb ha hb]
  simp only [Except.map]
  rw [List.reverse_zipWith hlen]

/-! ### Non-vacuity (over ℚ): mJy, Jy, erg/cm²/s, W/m², erg/s and a temperature -/

def exMJy : FUnit Rat := ⟨some .fnu, 1 / 10 ^ 26⟩
def exJy : FUnit Rat := ⟨some .fnu, 1 / 10 ^ 23⟩
def exCgs : FUnit Rat := ⟨some .flux, 1⟩
def exSI : FUnit Rat := ⟨some .flux, 1000⟩
def exLum : FUnit Rat := ⟨some .lum, 1⟩
def exKelvin : FUnit Rat := ⟨none, 1⟩

-- 5 mJy at 2·10¹⁴ Hz is 10⁻¹¹ erg/cm²/s = 10⁻¹⁴ W/m²; at d = 3·10²¹ cm that is 9·10³¹ erg/s
example : convertFlux (2 * 10 ^ 14) (3 * 10 ^ 21) exMJy exCgs 5 = .ok (1 / 10 ^ 11)
    ∧ convertFlux (2 * 10 ^ 14) (3 * 10 ^ 21) exMJy exSI 5 = .ok (1 / 10 ^ 14)
    ∧ convertFlux (2 * 10 ^ 14) (3 * 10 ^ 21) exMJy exLum 5 = .ok (9 * 10 ^ 31)
    ∧ convertFlux (2 * 10 ^ 14) (3 * 10 ^ 21) exLum exJy (9 * 10 ^ 31) = .ok (5 / 1000)
    ∧ convertFlux (2 * 10 ^ 14) (3 * 10 ^ 21) exMJy exKelvin 5 = .error .unsupported := by
  simp only [convertFlux, toFlux, fromFlux, exMJy, exJy, exCgs, exSI, exLum, exKelvin]
  norm_num

-- groupoid, linearity, zero and reversal on concrete rows: two frequencies, mJy -> erg/s and back
example : convFactor (2 * 10 ^ 14 : Rat) (3 * 10 ^ 21) .fnu .lum exMJy.scale exLum.scale
      * convFactor (2 * 10 ^ 14 : Rat) (3 * 10 ^ 21) .lum .fnu exLum.scale exMJy.scale = 1 := by
  simp only [convFactor, famTo, famFrom, exMJy, exLum]; norm_num

example : convertRow (3 * 10 ^ 21) exMJy exCgs [2 * 10 ^ 14, 10 ^ 14] [5, 0] = .ok [1 / 10 ^ 11, 0]
    ∧ convertRow (3 * 10 ^ 21) exMJy exCgs [10 ^ 14, 2 * 10 ^ 14] [0, 5] = .ok [0, 1 / 10 ^ 11]
    ∧ convertRow (3 * 10 ^ 21) exMJy exKelvin [2 * 10 ^ 14, 10 ^ 14] [0, 0] = .error .unsupported
    ∧ readDistance (none : Option Rat) (3085677581491367278913 / 1) = 3085677581491367278913 := by
  simp only [convertRow, convertFlux, toFlux, fromFlux, exMJy, exCgs, exKelvin, readDistance]
  norm_num

end SF
