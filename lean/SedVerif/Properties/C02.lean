import SedVerif.Proofs.Dist
import SedVerif.Properties.C03
import Mathlib.Data.Rat.Floor
/-!
# C02 — distance-dependent fits pick the grid optimum of correctly scaled model fluxes

Property theorems only.  Model: `SedVerif/Model/Dist.lean` (`distGrid`, `distancesKpc`, `fluxAt`,
`modelPss`, `fit3Model`) and `SedVerif/Model/Fit.lean` (`optAv`, `clipAv`, `argminFirst`, `fit3`).
All statements hold over every linearly ordered field, every grid length, every list of bands.
-/
namespace SF
open Dist
variable {K : Type} [Field K] [LinearOrder K] [IsStrictOrderedRing K]

/-- **C02 (grid).**  For `lgLo < lgHi` and a positive step, with `ceilK` the ceiling function
    (characterised by its two inequalities), the grid of `log10 d` has `n = ceil(1 + (lgHi − lgLo)/step) ≥ 2`
    points `lgLo + i·(lgHi − lgLo)/(n − 1)`, starts at `lgLo`, ends at `lgHi`, its spacing does not exceed
    `step`, and no grid of `m ≥ 2` equally spaced points from `lgLo` to `lgHi` with spacing `≤ step` is shorter. -/
theorem C02_grid (ceilK : K → ℕ) (hc1 : ∀ x, x ≤ (ceilK x : K))
    (hc2 : ∀ x (m : ℕ), x ≤ (m : K) → ceilK x ≤ m)
    (lgLo lgHi step : K) (hlt : lgLo < lgHi) (hs : 0 < step) :
    2 ≤ ceilK (1 + (lgHi - lgLo) / step) ∧
    (distGrid ceilK lgLo lgHi step).length = ceilK (1 + (lgHi - lgLo) / step) ∧
    (∀ i, i < ceilK (1 + (lgHi - lgLo) / step) →
      (distGrid ceilK lgLo lgHi step)[i]?
        = some (lgLo + (i : K) * ((lgHi - lgLo) / ((ceilK (1 + (lgHi - lgLo) / step) : K) - 1)))) ∧
    (distGrid ceilK lgLo lgHi step)[0]? = some lgLo ∧
    (distGrid ceilK lgLo lgHi step)[ceilK (1 + (lgHi - lgLo) / step) - 1]? = some lgHi ∧
    (lgHi - lgLo) / ((ceilK (1 + (lgHi - lgLo) / step) : K) - 1) ≤ step ∧
    (∀ m : ℕ, 2 ≤ m → (lgHi - lgLo) / ((m : K) - 1) ≤ step → ceilK (1 + (lgHi - lgLo) / step) ≤ m) := by
  have h1 := hc1 (1 + (lgHi - lgLo) / step)
  have h2 := hc2 (1 + (lgHi - lgLo) / step)
  have hd : 0 < lgHi - lgLo := sub_pos.mpr hlt
  have hq : 0 < (lgHi - lgLo) / step := div_pos hd hs
  unfold distGrid
  generalize ceilK (1 + (lgHi - lgLo) / step) = n at h1 h2 ⊢
  have hn2 : 2 ≤ n := by
    have : (1 : K) < (n : K) := by linarith
    have : 1 < n := by exact_mod_cast this
    omega
  obtain ⟨m, rfl⟩ : ∃ m, n = m + 2 := ⟨n - 2, by omega⟩
  have hm1 : (0 : K) < (m : K) + 1 := by positivity
  have hcast : (((m + 2 : ℕ) : K) - 1) = (m : K) + 1 := by push_cast; ring
  have hsp : (lgHi - lgLo) / ((m : K) + 1) ≤ step := by
    rw [div_le_iff₀ hm1]
    have : (lgHi - lgLo) / step ≤ (m : K) + 1 := by
      have : (((m + 2 : ℕ) : K)) = (m : K) + 2 := by push_cast; ring
      linarith
    rw [div_le_iff₀ hs] at this
    linarith
  refine ⟨hn2, linspace_length _ _ _, ?_, ?_, ?_, ?_, ?_⟩
  · intro i hi
    rw [linspace_getElem? lgLo lgHi m i hi, hcast]
  · rw [linspace_getElem? lgLo lgHi m 0 (by omega)]; simp
  · rw [linspace_getElem? lgLo lgHi m (m + 2 - 1) (by omega)]
    have : ((m + 2 - 1 : ℕ) : K) = (m : K) + 1 := by
      have : m + 2 - 1 = m + 1 := by omega
      rw [this]; push_cast; ring
    rw [this]
    congr 1; field_simp; ring
  · rw [hcast]; exact hsp
  · intro m' hm' hsp'
    apply h2
    have hm'1 : (0 : K) < (m' : K) - 1 := by
      have : (2 : K) ≤ (m' : K) := by exact_mod_cast hm'
      linarith
    rw [div_le_iff₀ hm'1] at hsp'
    have : (lgHi - lgLo) / step ≤ (m' : K) - 1 := by
      rw [div_le_iff₀ hs]; linarith
    linarith

/-- **C02 (grid, degenerate range).**  `dmin = dmax` gives the single trial distance `dmin`; otherwise
    the trial distances are `10 ** grid`. -/
theorem C02_grid_degenerate (lg exp10 : K → K) (ceilK : K → ℕ) (dlo dhi step : K) :
    distancesKpc lg exp10 ceilK dlo dlo step = [dlo] ∧
    (dlo ≠ dhi → distancesKpc lg exp10 ceilK dlo dhi step
      = (distGrid ceilK (lg dlo) (lg dhi) step).map exp10) := by
  constructor
  · simp [distancesKpc]
  · intro h; simp [distancesKpc, h]

/-- **C02 (flux).**  For increasing apertures `xs` with fluxes `ys`, the model flux at aperture radius
    `θ·d_pc` and distance `d_kpc` is the tabulated value on a knot, the two-point linear interpolant
    between neighbouring knots, and the largest-aperture value beyond the table — each times `(1/d_kpc)²`. -/
theorem C02_flux (xs ys : List K) (h : xs.length = ys.length) (hinc : Incr xs) (θ dpc dkpc : K) :
    (∀ i (hi : i < xs.length), θ * dpc = xs[i] →
      fluxAt xs ys θ dpc dkpc = .ok ((ys[i]'(h ▸ hi)) * (1 / dkpc) ^ 2)) ∧
    (∀ i (hi : i + 1 < xs.length), xs[i] < θ * dpc → θ * dpc < xs[i + 1] →
      fluxAt xs ys θ dpc dkpc
        = .ok ((ys[i]'(by omega) + (θ * dpc - xs[i]) / (xs[i + 1] - xs[i]) * (ys[i + 1]'(by omega) - ys[i]'(by omega)))
            * (1 / dkpc) ^ 2)) ∧
    (∀ n (hx : xs.length = n + 1), xs[n] < θ * dpc →
      fluxAt xs ys θ dpc dkpc = .ok ((ys[n]'(by omega)) * (1 / dkpc) ^ 2)) := by
  refine ⟨?_, ?_, ?_⟩
  · intro i hi he
    unfold fluxAt
    rw [he, interpClamp_knot xs ys h hinc i hi]
    simp only [Except.map]; congr 1; ring
  · intro i hi h0 h1
    unfold fluxAt
    rw [interpClamp_between xs ys h hinc i hi _ h0 h1]
    simp only [Except.map, lin]; congr 1; ring
  · intro n hx hgt
    unfold fluxAt
    rw [interpClamp_above xs ys n hx (by omega) hinc _ hgt]
    simp only [Except.map]; congr 1; ring

/-- **C02 (fit).**  For one model with per-distance band lists `pss` (one per grid distance, at least
    one) and `logd` the grid of `log10 d`: the reported grid index `bi` is valid; the reported chi² is the
    chi² at that index and is `≤` the chi² at every grid index; the reported A_V is the one-parameter
    least-squares optimum at that distance clipped to `[lo, hi]`, lies in the range, and (non-negative
    weights, `Σ k²w > 0`) minimises `Σ w (r − a k)²` over `lo ≤ a ≤ hi`; the reported scale is the grid
    value `logd[bi]`. -/
theorem C02_fit (big : K) (ln1m : K → K) (lo hi : K) (hlohi : lo ≤ hi) (logd : List K)
    (pss : List (List (Pt K))) (hne : pss ≠ []) (hlen : logd.length = pss.length) :
    ∃ (hb : (fit3 big ln1m lo hi logd pss).2.2.2 < pss.length),
      let bi := (fit3 big ln1m lo hi logd pss).2.2.2
      let av := (fit3 big ln1m lo hi logd pss).1
      let sc := (fit3 big ln1m lo hi logd pss).2.1
      let c := (fit3 big ln1m lo hi logd pss).2.2.1
      c = chi2 big ln1m av 0 pss[bi] ∧
      (∀ j (hj : j < pss.length), c ≤ chiAt big ln1m lo hi pss[j]) ∧
      av = clipAv lo hi (optAv pss[bi]) ∧ lo ≤ av ∧ av ≤ hi ∧
      ((∀ p ∈ pss[bi], 0 ≤ p.w) → 0 < sumBy (fun p => p.k * p.k * p.w) pss[bi] →
        ∀ a, lo ≤ a → a ≤ hi →
          sumBy (fun p => (p.r - av * p.k) * (p.r - av * p.k) * p.w) pss[bi]
            ≤ sumBy (fun p => (p.r - a * p.k) * (p.r - a * p.k) * p.w) pss[bi]) ∧
      sc = logd[bi]'(hlen ▸ hb) ∧ sc ∈ logd := by
  obtain ⟨before, ps, after, hblt, hpss, hfit, hpre, hpost⟩ := fit3_spec big ln1m lo hi logd pss hne hlen
  generalize fit3 big ln1m lo hi logd pss = res at hfit ⊢
  subst hfit
  subst hpss
  have hb : before.length < (before ++ ps :: after).length := by simp
  refine ⟨hb, ?_⟩
  have hget : (before ++ ps :: after)[before.length]'hb = ps := by simp
  simp only [hget]
  refine ⟨rfl, ?_, trivial, (clipAv_mem lo hi _ hlohi).1, (clipAv_mem lo hi _ hlohi).2, ?_, trivial, List.getElem_mem _⟩
  · intro j hj
    have hmem : (before ++ ps :: after)[j] ∈ before ++ ps :: after := List.getElem_mem hj
    rcases List.mem_append.mp hmem with hm | hm
    · exact le_of_lt (hpre _ hm)
    · rcases List.mem_cons.mp hm with hm | hm
      · rw [hm]
      · exact hpost _ hm
  · intro _ h11 a ha ha'
    have := clipAv_optimal lo hi hlohi ps h11 a ha ha'
    rwa [ssq_zero, ssq_zero] at this

/-- **C02 (first minimum).**  The reported index is the first one attaining the minimum: chi² at every
    earlier grid index is strictly larger. -/
theorem C02_argmin_first (big : K) (ln1m : K → K) (lo hi : K) (logd : List K)
    (pss : List (List (Pt K))) (hne : pss ≠ []) (hlen : logd.length = pss.length) :
    ∀ j (hj : j < (fit3 big ln1m lo hi logd pss).2.2.2) (hj' : j < pss.length),
      (fit3 big ln1m lo hi logd pss).2.2.1 < chiAt big ln1m lo hi pss[j] := by
  obtain ⟨before, ps, after, hblt, hpss, hfit, hpre, hpost⟩ := fit3_spec big ln1m lo hi logd pss hne hlen
  intro j hj hj'
  rw [hfit] at hj ⊢
  simp only at hj ⊢
  apply hpre
  have : pss[j] = before[j] := by simp only [hpss]; rw [List.getElem_append_left hj]
  rw [this]; exact List.getElem_mem hj

/-- **C02 (glue).**  Whenever the distance-dependent fit of a model returns, its result is `fit3` on one
    band list per trial distance with `logd = log10(distances)` (so `logd.length = pss.length`, and
    `pss ≠ []` for a non-empty grid: the hypotheses of `C02_fit`), and the band lists are exactly what the
    property says: at trial distance `i` there are fluxes `fl`, one per band, with
    `fl[j] = fluxAt (table j) θ_j (1000·d_i) d_i` (the right-hand sides of `C02_flux`), the band list is
    `mkPts lobs (fl.map lg) ks`, and its `j`-th point has residual `log F_obs,j − lg fl[j]`, extinction
    coefficient `ks[j]`, scale pattern −2, and weight / flag / log-error of source band `j`. -/
theorem C02_model (big : K) (ln1m lg : K → K) (lo hi : K) (lobs : List (LogObs K)) (ks : List K)
    (tabs : List (BandTab K)) (dists : List K) (res : K × K × K × Nat)
    (h : fit3Model big ln1m lg lo hi lobs ks tabs dists = .ok res) :
    ∃ pss, modelPss lg lobs ks tabs dists = .ok pss ∧ pss.length = dists.length ∧
      (dists.map lg).length = pss.length ∧ res = fit3 big ln1m lo hi (dists.map lg) pss ∧
      ∀ (i : Nat) (hi : i < dists.length) (hi' : i < pss.length),
        ∃ fl : List K, fl.length = tabs.length ∧ pss[i] = mkPts lobs (fl.map lg) ks ∧
          (∀ (j : Nat) (hj : j < tabs.length) (hj' : j < fl.length),
            fluxAt tabs[j].aps tabs[j].row tabs[j].theta (1000 * dists[i]) dists[i] = .ok fl[j]) ∧
          (∀ (j : Nat) (h1 : j < lobs.length) (h2 : j < fl.length) (h3 : j < ks.length),
            pss[i][j]? = some { r := lobs[j].lf - lg fl[j], k := ks[j], q := scLaw, w := lobs[j].w,
                                flag := lobs[j].flag, e := lobs[j].le }) := by
  unfold fit3Model at h
  obtain ⟨pss, hp, hres⟩ := exceptMap_ok _ _ _ h
  unfold modelPss at hp
  obtain ⟨lfs, hq, hpss⟩ := exceptMap_ok _ _ _ hp
  unfold modelLogFluxes at hq
  have hll : lfs.length = dists.length := by simpa using seqE_length _ _ hq
  have hl : pss.length = dists.length := by rw [hpss]; simpa using hll
  refine ⟨pss, by rw [hpss]; unfold modelPss modelLogFluxes; rw [hq]; rfl, hl, by simp [hl], hres, ?_⟩
  intro i hi hi'
  have hget := seqE_getElem _ _ hq i (by simpa using hi) (by rw [hll]; exact hi)
  simp only [List.getElem_map] at hget
  obtain ⟨fl, hfl, hlf⟩ := exceptMap_ok _ _ _ hget
  unfold modelFluxes at hfl
  have hfll : fl.length = tabs.length := by simpa using seqE_length _ _ hfl
  have hpi : pss[i] = mkPts lobs (fl.map lg) ks := by
    simp only [hpss, List.getElem_map, hlf]
  refine ⟨fl, hfll, hpi, ?_, ?_⟩
  · intro j hj hj'
    have := seqE_getElem _ _ hfl j (by simpa using hj) hj'
    simpa [thousandK_eq] using this
  · intro j h1 h2 h3
    rw [hpi, mkPts_getElem? lobs (fl.map lg) ks j h1 (by simpa using h2) h3]
    simp

/-- **C02 (source).**  The property's wording — at least one fitted band (flag 1 with non-zero flux and
    error, or flag 4 with non-zero error; `ln 10 ≠ 0`) whose extinction coefficient is non-zero, and a model
    flux for it — gives the two algebraic hypotheses of `C02_fit` for the band list `obsPts … = mkPts
    (source bands through `logTransform`) (model log fluxes) ks` that `C02_model` exhibits at every trial
    distance: all weights are `≥ 0` and `Σ k²w > 0`. -/
theorem C02_source (lg : K → K) (ln10 : K) (hln : ln10 ≠ 0) (os : List (Obs K)) (ks mf : List K)
    (j : Nat) (h1 : j < os.length) (h2 : j < mf.length) (h3 : j < ks.length)
    (hfit : (os[j].flag = 1 ∧ os[j].flux ≠ 0 ∧ os[j].err ≠ 0) ∨ (os[j].flag = 4 ∧ os[j].err ≠ 0))
    (hk : ks[j] ≠ 0) :
    (∀ p ∈ obsPts lg ln10 os ks mf, 0 ≤ p.w) ∧
    0 < sumBy (fun p => p.k * p.k * p.w) (obsPts lg ln10 os ks mf) := by
  have hwf := (C03_weights lg ln10).2 os ks mf
  have hw : ∀ p ∈ obsPts lg ln10 os ks mf, 0 ≤ p.w := fun p hp => (hwf p hp).1
  refine ⟨hw, ?_⟩
  have hget := mkPts_getElem? (os.map (logTransform lg ln10)) mf ks j (by simpa using h1) h2 h3
  have hmem := List.mem_of_getElem? hget
  refine sumBy_pos_of_mem _ _ (fun p hp => mul_nonneg (mul_self_nonneg _) (hw p hp)) _ hmem ?_
  simp only [List.getElem_map]
  exact mul_pos (mul_self_pos.mpr hk) (C03_weights_pos lg ln10 hln os[j] hfit)

/-- **C02 (grid ends).**  With `10 ** log10 x = x` and `log10` increasing on positive numbers, for
    `0 < dmin < dmax` the list of trial distances has the grid's length, starts at `dmin` and ends at `dmax`. -/
theorem C02_grid_ends (lg exp10 : K → K) (hexp : ∀ x, 0 < x → exp10 (lg x) = x)
    (hmono : ∀ x y, 0 < x → x < y → lg x < lg y)
    (ceilK : K → ℕ) (hc1 : ∀ x, x ≤ (ceilK x : K)) (hc2 : ∀ x (m : ℕ), x ≤ (m : K) → ceilK x ≤ m)
    (dlo dhi step : K) (h0 : 0 < dlo) (hlt : dlo < dhi) (hs : 0 < step) :
    (distancesKpc lg exp10 ceilK dlo dhi step).length = ceilK (1 + (lg dhi - lg dlo) / step) ∧
    (distancesKpc lg exp10 ceilK dlo dhi step)[0]? = some dlo ∧
    (distancesKpc lg exp10 ceilK dlo dhi step)[ceilK (1 + (lg dhi - lg dlo) / step) - 1]? = some dhi := by
  obtain ⟨_, hlen, _, hfirst, hlast, _, _⟩ :=
    C02_grid ceilK hc1 hc2 (lg dlo) (lg dhi) step (hmono dlo dhi h0 hlt) hs
  rw [(C02_grid_degenerate lg exp10 ceilK dlo dhi step).2 (ne_of_lt hlt)]
  refine ⟨by simpa using hlen, ?_, ?_⟩
  · rw [List.getElem?_map, hfirst]; simp [hexp dlo h0]
  · rw [List.getElem?_map, hlast]; simp [hexp dhi (lt_trans h0 hlt)]

/-! ### Non-vacuity -/

/-- the ceiling function meets both hypotheses of `C02_grid` (over ℚ) -/
example : (∀ x : ℚ, x ≤ ((⌈x⌉₊ : ℕ) : ℚ)) ∧ (∀ (x : ℚ) (m : ℕ), x ≤ (m : ℚ) → ⌈x⌉₊ ≤ m) :=
  ⟨fun x => Nat.le_ceil x, fun x m h => Nat.ceil_le.mpr h⟩

/-- a concrete grid: log10 d from 0 to 1 in steps of at most 3/10 has 5 points, spacing 1/4 -/
example : distGrid (fun x : ℚ => ⌈x⌉₊) 0 1 (3/10) = [0, 1/4, 1/2, 3/4, 1] := by
  have : ⌈(1 + (1 - 0) / (3/10) : ℚ)⌉₊ = 5 := by
    rw [Nat.ceil_eq_iff (by norm_num)]; norm_num
  simp only [distGrid, this, linspace, ofNatK_eq, List.range, List.range.loop]
  norm_num

/-- a concrete aperture table meets the hypotheses of `C02_flux` -/
example : Incr ([100, 300, 1000] : List ℚ) ∧ ([100, 300, 1000] : List ℚ).length = ([2, 3, 5] : List ℚ).length := by
  constructor
  · simp [Incr]; norm_num
  · rfl

def exPss : List (List (Pt ℚ)) :=
  [[{ r := 1, k := -1/2, q := -2, w := 4, flag := 1, e := 1/2 }, { r := 3, k := -1/5, q := -2, w := 9, flag := 4, e := 1/3 }],
   [{ r := 1/2, k := -1/2, q := -2, w := 4, flag := 1, e := 1/2 }, { r := 2, k := -1/5, q := -2, w := 9, flag := 4, e := 1/3 }]]

/-- a concrete two-distance problem meets the hypotheses of `C02_fit` (weights ≥ 0, Σ k²w > 0) -/
example : exPss ≠ [] ∧ ([0, 1/10] : List ℚ).length = exPss.length ∧
    ∀ ps ∈ exPss, (∀ p ∈ ps, 0 ≤ p.w) ∧ 0 < sumBy (fun p => p.k * p.k * p.w) ps := by
  refine ⟨by simp [exPss], rfl, ?_⟩
  intro ps hps
  simp [exPss] at hps
  rcases hps with rfl | rfl <;> (simp [sumBy]; norm_num)

end SF
