import SedVerif.Proofs.Plot
import SedVerif.Proofs.Dist
import SedVerif.Properties.C04
import Mathlib.Analysis.SpecialFunctions.Log.Base
/-!
# C17 — plotted model SEDs are the fitted models

Property theorems only.  Model: `SedVerif/Model/Plot.lean` (`curves` = the `LineCollection` that
`plot(..., output_dir=None)` returns for one source; `fitCurves` = what one selected fit appends;
`predStored3` / `predStored2` = the predicted log flux `Models.fit` stores with a fit).

All statements hold over every linearly ordered field, every number of fits, wavelengths, apertures
and filters.  `lg`, `exp10` are parameters; exactly two laws are assumed of them in the pass-through
theorems,

* `hadd : ∀ a b, exp10 (a + b) = exp10 a * exp10 b`
* `hlg  : ∀ x, 0 < x → exp10 (lg x) = x`

and, for the composite curve of mode `interp` only, `hmono : ∀ x y, 0 < x → x < y → lg x < lg y`;
for the logarithmic form `C17_through` only, `hinv : ∀ x, lg (exp10 x) = x`.
`Real.logb 10` and `(10 : ℝ) ^ ·` satisfy all four (shown at the end of this file).
-/
namespace SF
open Plt
variable {K : Type} [Field K] [LinearOrder K] [IsStrictOrderedRing K]

/-- **C17 (count).** For every display mode and every number of selected fits, the number of curves is
    the number of fits times the number of apertures the mode shows. -/
theorem C17_count (lg exp10 : K → K) (P : PlotCtx K) (mode : SedType) (fits : List (PlotFit K))
    (ls : List (Curve K)) (h : curves lg exp10 P mode fits = .ok ls) :
    ls.length = fits.length * nCurves mode (uniqueSorted P.theta).length := by
  unfold curves at h
  split at h
  · obtain ⟨css, hall, rfl⟩ := (appendCurves_spec lg exp10 P mode _ _ _).mp h
    rw [List.nil_append, List.length_flatten,
      forall₂_flatten_length _ List.length _ hall (fun f cs hf => fitCurves_length lg exp10 P mode f hf),
      List.length_reverse]
  · cases h

/-- **C17 (blocks).** The collection is the concatenation of the blocks of the selected fits, worst fit
    first: every selected fit contributes exactly what `fitCurves` computes from *its own* model SED,
    scale and A_V. -/
theorem C17_blocks (lg exp10 : K → K) (P : PlotCtx K) (mode : SedType) (fits : List (PlotFit K))
    (ls : List (Curve K)) (h : curves lg exp10 P mode fits = .ok ls) :
    ∃ css, List.Forall₂ (fun f cs => fitCurves lg exp10 P mode f = .ok cs) fits.reverse css ∧
      ls = css.flatten := by
  unfold curves at h
  split at h
  · obtain ⟨css, hall, rfl⟩ := (appendCurves_spec lg exp10 P mode _ _ _).mp h
    exact ⟨css, hall, by simp⟩
  · cases h

/-- **C17 (best fit last).** The curves of fit 0 (the best fit) are the last ones of the collection,
    after the `rest.length × nCurves` curves of all other selected fits. -/
theorem C17_best_last (lg exp10 : K → K) (P : PlotCtx K) (mode : SedType) (best : PlotFit K)
    (rest : List (PlotFit K)) (ls : List (Curve K))
    (h : curves lg exp10 P mode (best :: rest) = .ok ls) :
    ∃ pre cs0, fitCurves lg exp10 P mode best = .ok cs0 ∧ ls = pre ++ cs0 ∧
      pre.length = rest.length * nCurves mode (uniqueSorted P.theta).length := by
  obtain ⟨css, hall, rfl⟩ := C17_blocks lg exp10 P mode _ _ h
  rw [List.reverse_cons] at hall
  obtain ⟨c1, c, h1, hb, rfl⟩ := forall₂_append_singleton _ hall  -- split at the last fit
  refine ⟨c1.flatten, c, hb, by simp, ?_⟩
  rw [List.length_flatten,
    forall₂_flatten_length _ List.length _ h1 (fun f cs hf => fitCurves_length lg exp10 P mode f hf),
    List.length_reverse]

/-- **C17 (the plot returns).** On the property's domain — consistent array shapes, and for a
    multi-aperture package no requested aperture `θ·10**sc·1000` AU below the smallest tabulated
    aperture (above the table is allowed: it is reset to the largest) — `curves` returns, in every
    display mode and for every number of fits; this discharges the `= .ok ls` hypothesis of
    `C17_count`, `C17_blocks`, `C17_best_last`. -/
theorem C17_returns (lg exp10 : K → K) (P : PlotCtx K) (mode : SedType) (fits : List (PlotFit K))
    (hshape : shapeOk P fits = true)
    (hdom : 1 < P.aps.length → ∀ f ∈ fits, ∀ t ∈ P.theta, listMin P.aps ≤ plotAperture exp10 t f.sc) :
    ∃ ls, curves lg exp10 P mode fits = .ok ls := by
  unfold curves
  rw [if_pos hshape]
  have hth : P.theta ≠ [] := by
    intro h0
    simp [shapeOk, h0] at hshape
  apply appendCurves_ok
  intro f hf
  exact fitCurves_ok lg exp10 P mode f hth (fun hap => hdom hap f (List.mem_reverse.mp hf))

/-- the value the property promises at one tabulated wavelength (row `r`) for the aperture `t` arcsec
    of a multi-aperture package fitted at the grid distance `d` kpc: `10**(stored predicted log flux)`
    × the unit factor `ν·c` (mJy → erg/cm²/s) × the squared ratio of the package's kiloparsec to the
    plot's `KPC` (this is the "rounding of the physical constants": 1 − 2.1e-4 in the code) -/
def throughVal3 (lg exp10 : K → K) (P : PlotCtx K) (d av t : K) (r : SedRow K) : K :=
  exp10 (predStored3 lg P.aps r.flux t d av r.k) * (r.nu * P.c) * ((P.dOld / P.kpc) * (P.dOld / P.kpc))

/-- the same for a package without apertures (distance-independent fit, scale `sc`) -/
def throughVal2 (lg exp10 : K → K) (P : PlotCtx K) (sc av : K) (r : SedRow K) : K :=
  exp10 (predStored2 lg r.flux sc av r.k) * (r.nu * P.c) * ((P.dOld / P.kpc) * (P.dOld / P.kpc))

/-- **C17 (pass-through, logarithmic form, one tabulated wavelength and one aperture).**  With the third
    law `lg (exp10 x) = x`: `lg` of the value drawn at a tabulated wavelength for the aperture `θ`, for a
    fit at grid distance `d` (`sc = lg d`), is the stored predicted log flux (model log flux in that
    aperture at `θ·d`, plus `av·k`, with the distance scaling `lg (1/d²)` inside `predStored3`) plus the
    unit constant `lg (ν·c)` [mJy → erg/cm²/s] plus `lg` of the squared ratio of the two kiloparsec
    constants (0 when they agree).  `C17_through_fixed` / `_interp` / `_single` lift this to what
    `fitCurves` returns in each display mode. -/
theorem C17_through (lg exp10 : K → K) (hadd : ∀ a b, exp10 (a + b) = exp10 a * exp10 b)
    (hlg : ∀ x, 0 < x → exp10 (lg x) = x) (hinv : ∀ x, lg (exp10 x) = x)
    (P : PlotCtx K) (hkpc : P.kpc ≠ 0) (hap : 1 < P.aps.length)
    (d : K) (hd : 0 < d) (av θ : K) (r : SedRow K)
    (hF : 0 < fitApFlux P.aps r.flux (θ * (d * thousand)))
    (hunit : 0 < r.nu * P.c) (hrho : 0 < (P.dOld / P.kpc) * (P.dOld / P.kpc)) :
    lg (apInterp P.aps (scaledRow exp10 P (lg d) av r).2
          (clampAbove (listMax P.aps) (plotAperture exp10 θ (lg d))))
      = predStored3 lg P.aps r.flux θ d av r.k + lg (r.nu * P.c)
          + lg ((P.dOld / P.kpc) * (P.dOld / P.kpc)) := by
  rw [through3_core lg exp10 hadd hlg P hkpc hap d hd av θ r hF]
  conv_lhs => rw [← hlg _ hunit, ← hlg _ hrho, ← hadd, ← hadd]
  exact hinv _

/-- **C17 (pass-through, modes `largest`, `largest+smallest`, `all`; multi-aperture package).**
    The block of a fit made at grid distance `d` (`sc = lg d`) consists, for every aperture `t` the mode
    shows, of the curve whose value at *every* tabulated wavelength is `throughVal3 … t`: the predicted
    flux the fitter stores for a band at that wavelength measured in aperture `t`. -/
theorem C17_through_fixed (lg exp10 : K → K) (hadd : ∀ a b, exp10 (a + b) = exp10 a * exp10 b)
    (hlg : ∀ x, 0 < x → exp10 (lg x) = x)
    (P : PlotCtx K) (hkpc : P.kpc ≠ 0) (hap : 1 < P.aps.length)
    (mode : SedType) (hm : mode ≠ .interp) (f : PlotFit K) (d : K) (hd : 0 < d) (hsc : f.sc = lg d)
    (hF : ∀ t ∈ modeThetas mode P.theta, ∀ r ∈ f.rows, 0 < fitApFlux P.aps r.flux (t * (d * thousand)))
    (cs : List (Curve K)) (h : fitCurves lg exp10 P mode f = .ok cs) :
    cs = (modeThetas mode P.theta).map
      (fun t => f.rows.map (fun r => (r.wav, throughVal3 lg exp10 P d f.av t r))) := by
  have hnot : ¬ P.aps.length ≤ 1 := by omega
  have key : Plt.sedInterpolate P.aps (f.rows.map (scaledRow exp10 P f.sc f.av))
      ((modeThetas mode P.theta).map (fun t => plotAperture exp10 t f.sc)) = .ok cs := by
    cases mode
    · exact absurd rfl hm
    all_goals exact h
  unfold Plt.sedInterpolate at key
  rw [if_neg hnot] at key
  split at key
  · cases key
  · next r hr =>
    cases key
    rw [prepAps_eq hr, List.map_map, List.map_map]
    apply List.map_congr_left
    intro t ht
    simp only [Function.comp, apCurve, List.map_map]
    apply List.map_congr_left
    intro row hrow
    simp only [Function.comp]
    rw [hsc]
    refine Prod.ext ?_ ?_
    · simp [scaledRow]
    · exact through3_core lg exp10 hadd hlg P hkpc hap d hd f.av t row (hF t ht row hrow)

/-- **C17 (mode `all` shows every filter's aperture).** -/
theorem C17_all_covers (P : PlotCtx K) (t : K) (ht : t ∈ P.theta) : t ∈ modeThetas .all P.theta :=
  (uniqueSorted_mem t P.theta).mpr ht

/-- **C17 (pass-through, mode `interp`; multi-aperture package).**  The block is one composite curve;
    at the wavelength of every filter `(w, θ)` (distinct positive filter wavelengths, positive
    aperture table) its value is `throughVal3 … θ`, the stored predicted flux of that band. -/
theorem C17_through_interp (lg exp10 : K → K) (hadd : ∀ a b, exp10 (a + b) = exp10 a * exp10 b)
    (hlg : ∀ x, 0 < x → exp10 (lg x) = x) (hmono : ∀ x y, 0 < x → x < y → lg x < lg y)
    (P : PlotCtx K) (hkpc : P.kpc ≠ 0) (hap : 1 < P.aps.length) (hmin : 0 < listMin P.aps)
    (hfw : P.fwav.Pairwise (· ≠ ·)) (hfpos : ∀ w ∈ P.fwav, 0 < w)
    (f : PlotFit K) (d : K) (hd : 0 < d) (hsc : f.sc = lg d)
    (cs : List (Curve K)) (h : fitCurves lg exp10 P .interp f = .ok cs) :
    ∃ g : SedRow K → K, cs = [f.rows.map (fun r => (r.wav, g r))] ∧
      ∀ wt ∈ P.fwav.zip P.theta, ∀ r ∈ f.rows, r.wav = wt.1 →
        0 < fitApFlux P.aps r.flux (wt.2 * (d * thousand)) →
        g r = throughVal3 lg exp10 P d f.av wt.2 r := by
  have hnot : ¬ P.aps.length ≤ 1 := by omega
  simp only [fitCurves, modeThetas, sedInterpolateVariable, if_neg hnot] at h
  split at h
  · cases h
  · next c hc =>
    cases h
    split at hc
    · cases hc
    · next rr hrr =>
      cases hc
      refine ⟨fun r => apInterp P.aps (scaledRow exp10 P f.sc f.av r).2
        (varAperture lg exp10 P.aps P.fwav rr (scaledRow exp10 P f.sc f.av r).1), ?_, ?_⟩
      · simp only [List.map_map]
        congr 1
      · intro wt hwt r hr hw hF
        have hrr_eq := prepAps_eq hrr
        rw [List.map_map] at hrr_eq
        have hge := prepAps_ge hrr
        have hle : ∀ x ∈ rr, x ≤ listMax P.aps := by
          intro x hx
          rw [hrr_eq] at hx
          obtain ⟨t, _, rfl⟩ := List.mem_map.mp hx
          exact clampAbove_le _ _
        have hmem : (wt.1, clampAbove (listMax P.aps) (plotAperture exp10 wt.2 f.sc)) ∈ P.fwav.zip rr := by
          rw [hrr_eq, List.zip_map_right]
          exact List.mem_map.mpr ⟨wt, hwt, rfl⟩
        have hv := varAperture_knot lg exp10 hlg hmono P.aps P.fwav rr hmin hfw hfpos hge hle _ _ hmem
        simp only
        have h1 : (scaledRow exp10 P f.sc f.av r).1 = wt.1 := by simp [scaledRow, hw]
        rw [h1, hv, hsc]
        exact through3_core lg exp10 hadd hlg P hkpc hap d hd f.av wt.2 r hF

/-- **C17 (pass-through, package without apertures; every mode).**  Every curve of the block is the
    same curve, whose value at every tabulated wavelength is `throughVal2`: the predicted flux the
    distance-independent fit stores for a band at that wavelength. -/
theorem C17_through_single (lg exp10 : K → K) (hadd : ∀ a b, exp10 (a + b) = exp10 a * exp10 b)
    (hlg : ∀ x, 0 < x → exp10 (lg x) = x)
    (P : PlotCtx K) (hkpc : P.kpc ≠ 0) (hap : P.aps.length ≤ 1) (mode : SedType) (f : PlotFit K)
    (hF : ∀ r ∈ f.rows, 0 < r.flux.headD 0)
    (cs : List (Curve K)) (h : fitCurves lg exp10 P mode f = .ok cs) :
    cs = List.replicate (nCurves mode (uniqueSorted P.theta).length)
      (f.rows.map (fun r => (r.wav, throughVal2 lg exp10 P f.sc f.av r))) := by
  have hflat : flatCurve (f.rows.map (scaledRow exp10 P f.sc f.av))
      = f.rows.map (fun r => (r.wav, throughVal2 lg exp10 P f.sc f.av r)) := by
    unfold flatCurve
    rw [List.map_map]
    apply List.map_congr_left
    intro r hr
    simp only [Function.comp]
    refine Prod.ext ?_ ?_
    · simp [scaledRow]
    · exact through2_core lg exp10 hadd hlg P hkpc f.sc f.av r (hF r hr)
  cases mode
  · simp only [fitCurves, sedInterpolateVariable, if_pos hap] at h
    cases h
    simp [nCurves, hflat]
  all_goals
    simp only [fitCurves, Plt.sedInterpolate, if_pos hap] at h
    cases h
    rw [hflat, List.map_map, ← modeThetas_length _ (by simp) P.theta]
    exact List.eq_replicate_iff.mpr ⟨by simp, by intro b hb; simp at hb; exact hb.2.symm⟩

/-! ### The "predicted flux stored with the fit" is the fit model's own stored row

`predStored2` / `predStored3` (Model/Plot.lean) are shown to be what the fit model stores:
`predicted2` of Model/Fit.lean for the distance-independent mode, and `mf + av·k` with
`mf = lg (fluxAt …)` (Model/Dist.lean: `modelLogFluxes`), the entry `C04_predicted` proves
`predictedRow3` to hold, for the distance-dependent mode.  The pass-through statements are then restated
against those. -/

/-- **C17 (stored prediction, distance-independent).** Band `j` of the row `predicted2` stores for a
    model with log flux `lg F` in that band is `predStored2`. -/
theorem C17_stored2 (lg : K → K) (a s : K) (lobs : List (LogObs K)) (mfs ks : List K) (j : Nat)
    (o : LogObs K) (cell : List K) (k : K)
    (ho : lobs[j]? = some o) (hmf : mfs[j]? = some (lg (cell.headD 0))) (hk : ks[j]? = some k) :
    (predicted2 a s (mkPts lobs mfs ks) mfs)[j]? = some (predStored2 lg cell s a k) := by
  rw [C04_predicted.1 a s lobs mfs ks j o _ k ho hmf hk]
  unfold predStored2
  rw [two_eq]
  congr 1
  ring

/-- **C17 (stored prediction, distance-dependent).** If the fit model's `fluxAt` (interpolate the
    tabulated fluxes to `θ·d[pc]` AU, reset above the table, times `(1 kpc/d)²`) returns `v` for an
    increasing aperture table, then `predStored3` is `lg v + av·k` — the entry `mf + av·k` that
    `C04_predicted` shows `predictedRow3` to hold at the best distance. -/
theorem C17_stored3 (lg : K → K) (aps cell : List K) (hlen : aps.length = cell.length)
    (hap : 1 < aps.length) (hinc : Dist.Incr aps) (θ d av k v : K)
    (h : fluxAt aps cell θ (thousandK * d) d = .ok v) :
    predStored3 lg aps cell θ d av k = lg v + av * k := by
  have hnot : ¬ aps.length ≤ 1 := by omega
  have h1000 : (thousandK : K) * d = d * thousand := by
    rw [thousand_eq]; unfold thousandK tenK; rw [two_eq]; ring
  cases aps with
  | nil => simp at hap
  | cons a0 arest =>
    cases cell with
    | nil => simp at hlen
    | cons c0 crest =>
      have hmax : listMax (a0 :: arest) = (lastD (arest.zip crest) (a0, c0)).1 := by
        rw [listMax_of_sorted a0 arest hinc]
        exact (Dist.lastD_zip_fst arest crest (by simpa using hlen) a0 c0).symm
      have hfl : fluxAt (a0 :: arest) (c0 :: crest) θ (thousandK * d) d
          = (interpClampT ((a0, c0) :: arest.zip crest) (θ * (thousandK * d))).map
              (fun f => f * (1 / d * (1 / d))) := rfl
      rw [hfl] at h
      by_cases hc : clampHi (lastD (arest.zip crest) (a0, c0)).1 (θ * (thousandK * d)) < (a0, c0).1
      · have herr : interpClampT ((a0, c0) :: arest.zip crest) (θ * (thousandK * d)) = .error .tooSmall := by
          simp [interpClampT, lastD, hc]
        rw [herr] at h
        cases h
      · rw [Dist.interpClampT_eq _ _ _ hc] at h
        have hv : interpIn ((a0, c0) :: arest.zip crest)
            (clampHi (lastD (arest.zip crest) (a0, c0)).1 (θ * (thousandK * d))) * (1 / d * (1 / d)) = v := by
          cases h; rfl
        unfold predStored3 fitApFlux apInterp
        rw [if_neg hnot, ← hv, hmax, ← h1000]
        simp only [List.zip_cons_cons, clampAbove, clampHi]
        ring

/-- **C17 (pass-through against the fit model's stored value, distance-dependent).**  `through3_core`
    with the stored prediction expressed by the fit model itself: if `fluxAt` gives `v > 0` at the grid
    distance `d`, the curve for aperture `θ` passes, at that tabulated wavelength, through
    `10**(lg v + av·k) · ν·c · (dOld/KPC)²`. -/
theorem C17_through_stored3 (lg exp10 : K → K) (hadd : ∀ a b, exp10 (a + b) = exp10 a * exp10 b)
    (hlg : ∀ x, 0 < x → exp10 (lg x) = x)
    (P : PlotCtx K) (hkpc : P.kpc ≠ 0) (hap : 1 < P.aps.length) (hinc : Dist.Incr P.aps)
    (d : K) (hd : 0 < d) (av θ : K) (r : SedRow K) (hlen : P.aps.length = r.flux.length)
    (v : K) (hv : 0 < v) (h : fluxAt P.aps r.flux θ (thousandK * d) d = .ok v) :
    apInterp P.aps (scaledRow exp10 P (lg d) av r).2
        (clampAbove (listMax P.aps) (plotAperture exp10 θ (lg d)))
      = exp10 (lg v + av * r.k) * (r.nu * P.c) * ((P.dOld / P.kpc) * (P.dOld / P.kpc)) := by
  have hst := C17_stored3 lg P.aps r.flux hlen hap hinc θ d av r.k v h
  -- positivity of the interpolated flux from `v = F · (1/d)² > 0`
  have hF : 0 < fitApFlux P.aps r.flux (θ * (d * thousand)) := by
    have hst0 := C17_stored3 (fun x => x) P.aps r.flux hlen hap hinc θ d 0 0 v h
    unfold predStored3 at hst0
    simp only [zero_add, mul_zero, add_zero] at hst0
    have hdd : 0 < 1 / d * (1 / d) := by positivity
    rw [← hst0] at hv
    by_contra hneg
    have hle : fitApFlux P.aps r.flux (θ * (d * thousand)) ≤ 0 := not_lt.mp hneg
    have : fitApFlux P.aps r.flux (θ * (d * thousand)) * (1 / d * (1 / d)) ≤ 0 :=
      mul_nonpos_of_nonpos_of_nonneg hle (le_of_lt hdd)
    exact absurd hv (not_lt.mpr this)
  rw [through3_core lg exp10 hadd hlg P hkpc hap d hd av θ r hF, hst]

/-- **C17 (pass-through against the fit model's stored value, distance-independent).** The single
    curve of a package without apertures passes, at a tabulated wavelength, through `10**stored · ν·c ·
    (dOld/KPC)²` where `stored` is band `j` of the row `predicted2` stores for that model. -/
theorem C17_through_stored2 (lg exp10 : K → K) (hadd : ∀ a b, exp10 (a + b) = exp10 a * exp10 b)
    (hlg : ∀ x, 0 < x → exp10 (lg x) = x)
    (P : PlotCtx K) (hkpc : P.kpc ≠ 0) (sc av : K) (r : SedRow K) (hF : 0 < r.flux.headD 0)
    (lobs : List (LogObs K)) (mfs ks : List K) (j : Nat) (o : LogObs K) (stored : K)
    (ho : lobs[j]? = some o) (hmf : mfs[j]? = some (lg (r.flux.headD 0))) (hk : ks[j]? = some r.k)
    (hst : (predicted2 av sc (mkPts lobs mfs ks) mfs)[j]? = some stored) :
    (scaledRow exp10 P sc av r).2.headD 0
      = exp10 stored * (r.nu * P.c) * ((P.dOld / P.kpc) * (P.dOld / P.kpc)) := by
  rw [C17_stored2 lg av sc lobs mfs ks j o r.flux r.k ho hmf hk] at hst
  cases hst
  exact through2_core lg exp10 hadd hlg P hkpc sc av r hF

/-- **C17 (the plot's domain is the fit's domain).** The distance-dependent fit only exists when
    `θ·dmin[pc]` is not below the smallest tabulated aperture for every filter (C02's domain:
    `interpClamp` refuses smaller requests); every reported distance `10**sc` is a grid distance
    `≥ dmin`; hence no aperture the plot requests is below the table — the `hdom` hypothesis of
    `C17_returns`. -/
theorem C17_domain_from_fit (exp10 : K → K) (P : PlotCtx K) (a0 : K) (rest : List K)
    (haps : P.aps = a0 :: rest) (hinc : Dist.Incr P.aps) (dmin : K)
    (hθ : ∀ t ∈ P.theta, 0 ≤ t)
    (hC02 : ∀ t ∈ P.theta, a0 ≤ t * (thousandK * dmin))
    (fits : List (PlotFit K)) (hgrid : ∀ f ∈ fits, dmin ≤ exp10 f.sc) :
    ∀ f ∈ fits, ∀ t ∈ P.theta, listMin P.aps ≤ plotAperture exp10 t f.sc := by
  intro f hf t ht
  have hmin : listMin P.aps = a0 := by rw [haps]; exact listMin_of_sorted a0 rest (haps ▸ hinc)
  have h1000 : (thousandK : K) = thousand := by
    rw [thousand_eq]; unfold thousandK tenK; rw [two_eq]; norm_num
  have hpos : (0 : K) ≤ thousand := by rw [thousand_eq]; norm_num
  rw [hmin]
  unfold plotAperture
  calc a0 ≤ t * (thousandK * dmin) := hC02 t ht
    _ = t * dmin * thousand := by rw [h1000]; ring
    _ ≤ t * exp10 f.sc * thousand :=
        mul_le_mul_of_nonneg_right (mul_le_mul_of_nonneg_left (hgrid f hf) (hθ t ht)) hpos

/-! ### Non-vacuity -/

/-- the four laws assumed of `lg` / `exp10` hold for the real base-10 logarithm and power -/
example : (∀ a b : ℝ, (10 : ℝ) ^ (a + b) = (10 : ℝ) ^ a * (10 : ℝ) ^ b) ∧
    (∀ x : ℝ, 0 < x → (10 : ℝ) ^ (Real.logb 10 x) = x) ∧
    (∀ x y : ℝ, 0 < x → x < y → Real.logb 10 x < Real.logb 10 y) ∧
    (∀ x : ℝ, Real.logb 10 ((10 : ℝ) ^ x) = x) :=
  ⟨fun a b => Real.rpow_add (by norm_num) a b,
   fun x hx => Real.rpow_logb (by norm_num) (by norm_num) hx,
   fun x y hx hxy => Real.logb_lt_logb (by norm_num) hx hxy,
   fun x => Real.logb_rpow (by norm_num) (by norm_num)⟩

/-- an instance over ℝ, with the genuine `Real.logb 10` / `10^x`, that meets ALL hypotheses of
    `C17_through_fixed` jointly (two apertures, one filter of 0.5 arcsec, a fit at the grid distance
    `d = 1` kpc, mode `largest`), so that the theorem's conclusion is obtained outright -/
noncomputable def exRCtx : PlotCtx ℝ :=
  { c := 1, dOld := 3, kpc := 3, aps := [100, 1000], fwav := [1], theta := [1 / 2] }

noncomputable def exRFit : PlotFit ℝ :=
  { sc := Real.logb 10 1, av := 0, rows := [{ wav := 1, nu := 3, k := 0, flux := [1, 2] }] }

example : ∃ cs, fitCurves (Real.logb 10) (fun x => (10 : ℝ) ^ x) exRCtx .largest exRFit = .ok cs ∧
    cs = (modeThetas .largest exRCtx.theta).map (fun t => exRFit.rows.map (fun r =>
      (r.wav, throughVal3 (Real.logb 10) (fun x => (10 : ℝ) ^ x) exRCtx 1 exRFit.av t r))) := by
  have hadd : ∀ a b : ℝ, (10 : ℝ) ^ (a + b) = (10 : ℝ) ^ a * (10 : ℝ) ^ b :=
    fun a b => Real.rpow_add (by norm_num) a b
  have hlg : ∀ x : ℝ, 0 < x → (10 : ℝ) ^ (Real.logb 10 x) = x :=
    fun x hx => Real.rpow_logb (by norm_num) (by norm_num) hx
  have hmax : listMax ([100, 1000] : List ℝ) = 1000 := by
    simp only [listMax, List.foldl_cons, List.foldl_nil]; norm_num
  have hmin : listMin ([100, 1000] : List ℝ) = 100 := by
    simp only [listMin, List.foldl_cons, List.foldl_nil]; norm_num
  have hth : modeThetas .largest exRCtx.theta = [1 / 2] := by
    simp [modeThetas, exRCtx, listMax]
  have hdom : 1 < exRCtx.aps.length → ∀ t ∈ exRCtx.theta,
      listMin exRCtx.aps ≤ plotAperture (fun x => (10 : ℝ) ^ x) t exRFit.sc := by
    intro _ t ht
    simp only [exRCtx, List.mem_singleton] at ht
    subst ht
    simp only [exRCtx, exRFit, hmin, plotAperture, Real.logb_one, Real.rpow_zero, thousand_eq]
    norm_num
  obtain ⟨cs, hcs⟩ := fitCurves_ok (Real.logb 10) (fun x => (10 : ℝ) ^ x) exRCtx .largest exRFit
    (by simp [exRCtx]) hdom
  refine ⟨cs, hcs, C17_through_fixed _ _ hadd hlg exRCtx (by norm_num [exRCtx]) (by simp [exRCtx])
    .largest (by simp) exRFit 1 one_pos rfl ?_ cs hcs⟩
  intro t ht r hr
  rw [hth, List.mem_singleton] at ht
  subst ht
  simp only [exRFit, List.mem_singleton] at hr
  subst hr
  have hnot : ¬ ([100, 1000] : List ℝ).length ≤ 1 := by simp
  simp only [exRCtx, fitApFlux, if_neg hnot, apInterp, hmax, clampAbove, thousand_eq, List.zip_cons_cons,
    List.zip_nil_right, interpIn, lin]
  norm_num

/-- a concrete two-filter, three-aperture package with two selected fits -/
def exPlotCtx : PlotCtx Rat :=
  { c := 1, dOld := 3, kpc := 3, aps := [100, 1000, 10000], fwav := [1, 2], theta := [1, 2] }

def exPlotFits : List (PlotFit Rat) :=
  [{ sc := 1, av := 0, rows := [{ wav := 1, nu := 3, k := 0, flux := [1, 2, 3] },
                                { wav := 2, nu := 2, k := 0, flux := [2, 3, 4] }] },
   { sc := 2, av := 1, rows := [{ wav := 1, nu := 3, k := 0, flux := [2, 3, 5] },
                                { wav := 2, nu := 2, k := 0, flux := [1, 1, 2] }] }]

/-- `curves` returns on it in every mode, with 2 × (1 | 1 | 2 | 2) curves -/
example : [SedType.interp, .largest, .largestSmallest, .all].map (fun mode =>
      match curves (fun x => x) (fun x => x) exPlotCtx mode exPlotFits with
      | .ok ls => ls.length
      | .error _ => 0) = [2, 2, 4, 4] := by decide +kernel

/-- the side conditions of the pass-through theorems (shape, more than one aperture, positive table,
    distinct positive filter wavelengths, positive interpolated fluxes) hold on it -/
example : exPlotCtx.kpc ≠ 0 ∧ 1 < exPlotCtx.aps.length ∧ 0 < listMin exPlotCtx.aps ∧
    exPlotCtx.fwav.Pairwise (· ≠ ·) ∧ (∀ w ∈ exPlotCtx.fwav, 0 < w) ∧
    (∀ f ∈ exPlotFits, ∀ t ∈ exPlotCtx.theta, ∀ r ∈ f.rows, 0 < fitApFlux exPlotCtx.aps r.flux (t * (f.sc * thousand))) := by
  decide +kernel

end SF
