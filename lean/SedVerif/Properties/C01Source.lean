import SedVerif.Properties.C01
import SedVerif.Properties.C03
/-!
# C01 at the level of the source as it stands in the data file

`Properties/C01.lean` proves optimality for any well-formed band list; `Properties/C03.lean` proves that
`Source.get_log_fluxes` + the residual assembly (`obsPts`) produce such lists.  Here the two are composed
into the statement of C01 itself: for a source with two fitted bands (flags 1 / 4, non-zero values) whose
extinction coefficients differ, the reported `(A_V, scale)` lies in the requested range and minimises
`Σ_j w_j (log10 F_obs,j − log10 F_model,j − A_V k_j + 2·scale)²`, and the reported chi² is that sum plus
the limit penalties at the reported point.
-/
namespace SF
variable {K : Type} [Field K] [LinearOrder K] [IsStrictOrderedRing K]

omit [LinearOrder K] [IsStrictOrderedRing K] in
/-- band `i` of `mkPts` is assembled from band `i` of each input list -/
theorem mkPts_bandAt (l : List (LogObs K)) (mf ks : List K) (i : Nat) (o : LogObs K) (m k : K)
    (ho : l[i]? = some o) (hm : mf[i]? = some m) (hk : ks[i]? = some k) :
    (mkPts l mf ks)[i]? = some { r := o.lf - m, k := k, q := scLaw, w := o.w, flag := o.flag, e := o.le } := by
  induction l generalizing mf ks i with
  | nil => simp at ho
  | cons a l ih =>
    cases mf with
    | nil => simp at hm
    | cons b mf =>
      cases ks with
      | nil => simp at hk
      | cons c ks =>
        cases i with
        | zero =>
          simp only [List.getElem?_cons_zero, Option.some.injEq] at ho hm hk
          subst ho hm hk
          simp [mkPts]
        | succ i =>
          simp only [List.getElem?_cons_succ] at ho hm hk
          simpa [mkPts] using ih mf ks i ho hm hk

/-- the objective of C01 written on the source: `ssq` over `obsPts` is
    `Σ_j w_j (lf_j − mf_j − a k_j + 2 s)²` (with the code's scale pattern `q = −2`) -/
theorem C01_objective (a s : K) (ps : List (Pt K)) (hq : ∀ p ∈ ps, p.q = scLaw) :
    ssq a s ps = sumBy (fun p => (p.r - a * p.k + 2 * s) * (p.r - a * p.k + 2 * s) * p.w) ps := by
  unfold ssq
  apply sumBy_congr
  intro p hp
  rw [hq p hp]
  have : (scLaw : K) = -2 := by unfold scLaw; rw [two_eq]
  rw [this]; ring

theorem obsPts_q (lg : K → K) (ln10 : K) (os : List (Obs K)) (ks mf : List K) :
    ∀ p ∈ obsPts lg ln10 os ks mf, p.q = scLaw := by
  intro p hp
  obtain ⟨l, _, m, k, rfl⟩ := mem_mkPts hp
  rfl

/-- **C01 (source level).**  Two fitted bands `i ≠ j` (flag 1 with non-zero flux and error, or flag 4
    with non-zero log error) whose extinction coefficients differ make the regression non-singular; then
    for every `lo ≤ hi` the reported `(av, sc)` is inside the range and minimises the weighted sum of squares
    over `lo ≤ a ≤ hi`, any `s`; and the reported chi² is that minimum plus the limit penalties at
    `(av, sc)`. -/
theorem C01_source_optimal (lg : K → K) (ln10 big : K) (ln1m : K → K) (hln : ln10 ≠ 0)
    (os : List (Obs K)) (ks mf : List K) (lo hi : K) (hlohi : lo ≤ hi)
    (i j : Nat) (oi oj : Obs K) (mi mj ki kj : K)
    (hoi : os[i]? = some oi) (hoj : os[j]? = some oj)
    (hmi : mf[i]? = some mi) (hmj : mf[j]? = some mj)
    (hki : ks[i]? = some ki) (hkj : ks[j]? = some kj)
    (hfi : (oi.flag = 1 ∧ oi.flux ≠ 0 ∧ oi.err ≠ 0) ∨ (oi.flag = 4 ∧ oi.err ≠ 0))
    (hfj : (oj.flag = 1 ∧ oj.flux ≠ 0 ∧ oj.err ≠ 0) ∨ (oj.flag = 4 ∧ oj.err ≠ 0))
    (hk : ki ≠ kj) :
    let ps := obsPts lg ln10 os ks mf
    let res := obsFit2 lg ln10 big ln1m lo hi os ks mf
    lo ≤ res.1 ∧ res.1 ≤ hi ∧
    (∀ a s : K, lo ≤ a → a ≤ hi → ssq res.1 res.2.1 ps ≤ ssq a s ps) ∧
    res.2.2 = ssq res.1 res.2.1 ps + sumBy (limitTerm big ln1m res.1 res.2.1) ps := by
  intro ps res
  have hwf : WF ps := (C03_weights lg ln10).2 os ks mf
  have hw : ∀ p ∈ ps, 0 ≤ p.w := fun p hp => (hwf p hp).1
  -- the two fitted bands as members of the point list
  have hpi := mkPts_bandAt (os.map (logTransform lg ln10)) mf ks i (logTransform lg ln10 oi) mi ki
    (by simp [hoi]) hmi hki
  have hpj := mkPts_bandAt (os.map (logTransform lg ln10)) mf ks j (logTransform lg ln10 oj) mj kj
    (by simp [hoj]) hmj hkj
  have hmemi := List.mem_of_getElem? hpi
  have hmemj := List.mem_of_getElem? hpj
  have hscne : (scLaw : K) ≠ 0 := by
    have : (scLaw : K) = -2 := by unfold scLaw; rw [two_eq]
    rw [this]; norm_num
  obtain ⟨h22, hdet⟩ := C01_nonsingular ps scLaw hscne (obsPts_q lg ln10 os ks mf) hw _ _ hmemi hmemj
    (C03_weights_pos lg ln10 hln oi hfi) (C03_weights_pos lg ln10 hln oj hfj) hk
  obtain ⟨hlo, hhi, hopt⟩ := C01_box_optimal lo hi hlohi ps hw h22 hdet
  obtain ⟨h1, h2, h3⟩ := C01_reported big ln1m lo hi ps hwf
  have e1 : res.1 = (fit2 lo hi ps).1 := h1
  have e2 : res.2.1 = (fit2 lo hi ps).2 := h2
  refine ⟨e1 ▸ hlo, e1 ▸ hhi, ?_, ?_⟩
  · intro a s ha ha'
    rw [e1, e2]; exact hopt a s ha ha'
  · rw [e1, e2]; exact h3

end SF

namespace SF
/-! ### Non-vacuity: a two-band source (flags 1 and 4) with different extinction coefficients over ℚ -/
example :=
  C01_source_optimal (K := Rat) (fun x => x) 2 ((10 : Rat) ^ 30) (fun _ => 0) (by norm_num)
    [⟨1, 2, 1/10⟩, ⟨4, 1/2, 1/5⟩] [-1/2, -1/5] [1, 3] 0 10 (by norm_num) 0 1
    ⟨1, 2, 1/10⟩ ⟨4, 1/2, 1/5⟩ 1 3 (-1/2) (-1/5) rfl rfl rfl rfl rfl rfl
    (Or.inl ⟨rfl, by norm_num, by norm_num⟩) (Or.inr ⟨rfl, by norm_num⟩) (by norm_num)
end SF
