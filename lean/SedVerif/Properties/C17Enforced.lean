import SedVerif.Properties.C17
/-!
# C17 — clauses the correspondence harness enforces, as theorems

* `C17_all_distinct` / `C17_count_distinct` — mode `all` shows one curve per DISTINCT aperture per selected
  fit: `np.unique` keeps every value that occurs, once, in increasing order — apertures that differ, however
  little, are never merged; `largest+smallest` shows two curves per fit also when all apertures coincide.
* `C17_on_smallest` — an aperture exactly equal to the smallest tabulated one is inside the table: no
  refusal, and the interpolation returns the tabulated value.
* `C17_best_last_ties` — the last block is the first-ranked fit whatever the chi² values are (ties
  included): the loop runs over positions in the result as given, never over chi².
* `C17_block_local` — the block of a fit depends on that fit alone (its own scale `sc`, A_V and SED), not
  on the fits before or after it (in particular not on the best fit's distance).
-/
namespace SF
open Plt
variable {K : Type} [Field K] [LinearOrder K] [IsStrictOrderedRing K]

theorem insertUniq_sorted (x : K) (l : List K) (h : l.Pairwise (· < ·)) :
    (insertUniq x l).Pairwise (· < ·) := by
  induction l with
  | nil => simp [insertUniq]
  | cons y ys ih =>
    have hy := List.pairwise_cons.mp h
    simp only [insertUniq]
    split
    · next hxy =>
      refine List.pairwise_cons.mpr ⟨?_, h⟩
      intro z hz
      rcases List.mem_cons.mp hz with rfl | hz'
      · exact hxy
      · exact lt_trans hxy (hy.1 z hz')
    · next hnlt =>
      split
      · exact h
      · next hne =>
        have hyx : y < x := lt_of_le_of_ne (not_lt.mp hnlt) (fun e => hne e.symm)
        refine List.pairwise_cons.mpr ⟨?_, ih hy.2⟩
        intro z hz
        rcases (insertUniq_mem x z ys).mp hz with rfl | hz'
        · exact hyx
        · exact hy.1 z hz'

/-- **C17 (mode `all` shows the distinct apertures).** `uniqueSorted` (= `np.unique`) is strictly
    increasing — so it has no repeated entry — and contains exactly the values that occur among the filter
    apertures: two apertures that differ are both shown, however close they are. -/
theorem C17_all_distinct (theta : List K) :
    (modeThetas .all theta).Pairwise (· < ·) ∧ (∀ t, t ∈ modeThetas .all theta ↔ t ∈ theta) ∧
    (∀ a b, a ∈ theta → b ∈ theta → a ≠ b →
      a ∈ modeThetas .all theta ∧ b ∈ modeThetas .all theta ∧ 2 ≤ (modeThetas .all theta).length) := by
  have hs : (uniqueSorted theta).Pairwise (· < ·) := by
    induction theta with
    | nil => simp [uniqueSorted]
    | cons x xs ih => exact insertUniq_sorted x _ ih
  refine ⟨hs, fun t => uniqueSorted_mem t theta, ?_⟩
  intro a b ha hb hab
  have ha' := (uniqueSorted_mem a theta).mpr ha
  have hb' := (uniqueSorted_mem b theta).mpr hb
  refine ⟨ha', hb', ?_⟩
  simp only [modeThetas]
  match h : uniqueSorted theta with
  | [] => rw [h] at ha'; cases ha'
  | [c] =>
    rw [h] at ha' hb'
    simp only [List.mem_singleton] at ha' hb'
    exact absurd (ha'.trans hb'.symm) hab
  | _ :: _ :: _ => simp

/-- **C17 (count by distinct apertures).** For every list of filter apertures and every number of selected
    fits: mode `all` draws (number of distinct apertures) curves per fit, `largest+smallest` two per fit (also
    when all apertures coincide), `interp` and `largest` one per fit. -/
theorem C17_count_distinct (lg exp10 : K → K) (P : PlotCtx K) (fits : List (PlotFit K)) :
    (∀ ls, curves lg exp10 P .all fits = .ok ls → ls.length = fits.length * (uniqueSorted P.theta).length) ∧
    (∀ ls, curves lg exp10 P .largestSmallest fits = .ok ls → ls.length = fits.length * 2) ∧
    (∀ ls, curves lg exp10 P .largest fits = .ok ls → ls.length = fits.length * 1) ∧
    (∀ ls, curves lg exp10 P .interp fits = .ok ls → ls.length = fits.length * 1) :=
  ⟨fun ls h => C17_count lg exp10 P .all fits ls h, fun ls h => C17_count lg exp10 P .largestSmallest fits ls h,
   fun ls h => C17_count lg exp10 P .largest fits ls h, fun ls h => C17_count lg exp10 P .interp fits ls h⟩

/-- **C17 (an aperture equal to the smallest tabulated one is inside the table).** For an increasing table
    `a0 < a1 < …`, the request `a0` is not refused and the interpolated flux is the tabulated one. -/
theorem C17_on_smallest (a0 a1 : K) (rest : List K) (c0 : K) (crest : List K)
    (hinc : (a0 :: a1 :: rest).Pairwise (· < ·)) :
    prepAps (a0 :: a1 :: rest) [a0] = .ok [a0] ∧ apInterp (a0 :: a1 :: rest) (c0 :: crest) a0 = c0 := by
  have hmin : listMin (a0 :: a1 :: rest) = a0 := listMin_of_sorted a0 _ hinc
  have hle : a0 ≤ listMax (a0 :: a1 :: rest) := by
    have := listMin_le_listMax (a0 :: a1 :: rest) (by simp)
    rwa [hmin] at this
  constructor
  · unfold prepAps
    simp only [List.map_cons, List.map_nil, clampAbove, if_neg (not_lt.mpr hle), hmin, List.any_cons,
      List.any_nil, lt_irrefl, decide_false, Bool.or_false]
    rfl
  · cases crest with
    | nil => simp [apInterp, interpIn]
    | cons c1 cr => simp [apInterp, interpIn]

/-- **C17 (best fit drawn last, whatever the chi² values).** For any assignment of chi² values to the
    selected fits — all tied, partly tied, or distinct — the last block of the collection is the block of the
    fit ranked first in the result as given. -/
theorem C17_best_last_ties (lg exp10 : K → K) (P : PlotCtx K) (mode : SedType) (chi2 : PlotFit K → K)
    (best : PlotFit K) (rest : List (PlotFit K)) (_hranked : (best :: rest).Pairwise (fun f g => chi2 f ≤ chi2 g))
    (ls : List (Curve K)) (h : curves lg exp10 P mode (best :: rest) = .ok ls) :
    ∃ pre cs0, fitCurves lg exp10 P mode best = .ok cs0 ∧ ls = pre ++ cs0 :=
  let ⟨pre, cs0, h1, h2, _⟩ := C17_best_last lg exp10 P mode best rest ls h
  ⟨pre, cs0, h1, h2⟩

theorem forall₂_append_split {α β : Type} (R : α → β → Prop) {l1 l2 : List α} {css : List β}
    (h : List.Forall₂ R (l1 ++ l2) css) :
    ∃ c1 c2, List.Forall₂ R l1 c1 ∧ List.Forall₂ R l2 c2 ∧ css = c1 ++ c2 := by
  induction l1 generalizing css with
  | nil => exact ⟨[], css, List.Forall₂.nil, h, rfl⟩
  | cons x xs ih =>
    cases h with
    | cons hx hrest =>
      obtain ⟨c1, c2, h1, h2, rfl⟩ := ih hrest
      exact ⟨_ :: c1, c2, List.Forall₂.cons hx h1, h2, rfl⟩

/-- **C17 (every fit is drawn with its own scale, A_V and SED).** Wherever a fit `f` stands among the
    selected fits, its block is `fitCurves … f` — a function of `f.sc`, `f.av`, `f.rows` and the filters
    only — placed after the blocks of the fits ranked below it; no other fit (in particular not the best
    fit's distance) enters. -/
theorem C17_block_local (lg exp10 : K → K) (P : PlotCtx K) (mode : SedType) (pre post : List (PlotFit K))
    (f : PlotFit K) (ls : List (Curve K)) (h : curves lg exp10 P mode (pre ++ f :: post) = .ok ls) :
    ∃ a cs b, fitCurves lg exp10 P mode f = .ok cs ∧ ls = a ++ cs ++ b ∧
      a.length = post.length * nCurves mode (uniqueSorted P.theta).length := by
  obtain ⟨css, hall, rfl⟩ := C17_blocks lg exp10 P mode _ _ h
  rw [List.reverse_append, List.reverse_cons, List.append_assoc] at hall
  obtain ⟨c1, c2, h1, h2, rfl⟩ := forall₂_append_split _ hall
  obtain ⟨c3, c4, h3, h4, rfl⟩ := forall₂_append_split (l1 := [f]) _ h2
  cases h3 with
  | cons hf hnil =>
    cases hnil
    refine ⟨c1.flatten, _, c4.flatten, hf, by simp, ?_⟩
    rw [List.length_flatten,
      forall₂_flatten_length _ List.length _ h1 (fun g cs hg => fitCurves_length lg exp10 P mode g hg),
      List.length_reverse]

/-! ### Non-vacuity -/

/-- 2.000″ and 2.003″ (and a repeated 2.000″) are two distinct apertures: mode `all` shows both -/
example : modeThetas .all ([2, 2003 / 1000, 2] : List Rat) = [2, 2003 / 1000] := by decide +kernel

/-- all apertures equal: `largest+smallest` still asks for two curves -/
example : (modeThetas .largestSmallest ([3, 3, 3] : List Rat)).length = 2 := by decide +kernel

/-- the table 2000 < 5000 < 9000 AU with the request 2000 AU (2″ at 1 kpc) -/
example : prepAps ([2000, 5000, 9000] : List Rat) [2000] = .ok [2000] ∧
    apInterp ([2000, 5000, 9000] : List Rat) [7, 8, 9] 2000 = 7 :=
  C17_on_smallest 2000 5000 [9000] 7 [8, 9] (by decide +kernel)

/-- the two fits of `exPlotFits` with one and the same chi²: a ranked list with an exact tie, on which
    `curves` returns in every mode (see `Properties/C17.lean`) -/
example : (exPlotFits).Pairwise (fun f g => (fun _ : PlotFit Rat => (5 : Rat)) f ≤ (fun _ => 5) g) := by
  simp [exPlotFits]

/-- a fit standing in the middle of three: `curves` returns on `pre ++ f :: post` with non-empty `pre`, `post` -/
example : (match curves (fun x => x) (fun x => x) exPlotCtx .all (exPlotFits ++ exPlotFits.take 1) with
    | .ok ls => ls.length
    | .error _ => 0) = 6 := by decide +kernel

end SF
