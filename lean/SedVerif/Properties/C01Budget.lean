import SedVerif.Properties.C01
/-!
# C01: what a displacement of `(A_V, scale)` costs in chi²

The correspondence check of C01 compares the implementation's `(A_V, scale, chi²)` with the exact optimum inside a
rounding budget.  The budget for chi² is not chosen freely: it is the budget of `(A_V, scale)` expressed in chi².
`C01_excess` is the identity behind it (the excess of the weighted sum of squares over its unconstrained optimum is
the weighted sum of the squared changes of the residuals — the first-order term vanishes at the optimum), and
`C01_excess_bound` the bound the harness evaluates: a displacement of at most `ta` in `A_V` and `ts` in the scale
costs at most `(Σ w)·(kmax·ta + qmax·ts)²`.  (`harness/c01.py`, `dchi_cond`, with `qmax = 2`.)
-/
namespace SF
variable {K : Type} [Field K] [LinearOrder K] [IsStrictOrderedRing K]

/-- **C01 (excess over the optimum).**  Around the unconstrained optimum `linreg ps` of a non-singular regression,
    `ssq a s = ssq_opt + Σ_j w_j (k_j (a − A) + q_j (s − S))²` for every `(a, s)`. -/
theorem C01_excess (ps : List (Pt K)) (hdet : m11 ps * m22 ps - m12 ps * m12 ps ≠ 0) (a s : K) :
    ssq a s ps = ssq (linreg ps).1 (linreg ps).2 ps
      + sumBy (fun p => (p.k * (a - (linreg ps).1) + p.q * (s - (linreg ps).2))
                        * (p.k * (a - (linreg ps).1) + p.q * (s - (linreg ps).2)) * p.w) ps := by
  obtain ⟨h1, h2⟩ := linreg_normal_eqs ps hdet
  have hd := ssq_diff ps (linreg ps).1 (linreg ps).2 a s h1 h2
  rw [quad_eq] at hd
  linarith

omit [Field K] [LinearOrder K] [IsStrictOrderedRing K] in
private theorem sumBy_mul_const [Field K] {α : Type} (f : α → K) (c : K) (l : List α) :
    sumBy (fun p => c * f p) l = c * sumBy f l := by
  induction l with
  | nil => simp [sumBy]
  | cons p l ih => simp only [sumBy, ih]; ring

private theorem sumBy_le_sumBy {α : Type} (f g : α → K) (l : List α) (h : ∀ p ∈ l, f p ≤ g p) :
    sumBy f l ≤ sumBy g l := by
  induction l with
  | nil => simp [sumBy]
  | cons p l ih =>
    simp only [sumBy]
    exact add_le_add (h p (by simp)) (ih (fun q hq => h q (by simp [hq])))

/-- **C01 (budget in chi²).**  If `|a − A| ≤ ta`, `|s − S| ≤ ts`, every `|k_j| ≤ kmax`, every `|q_j| ≤ qmax` and the
    weights are non-negative, then the excess of `ssq a s` over the optimum is at most `(Σ w)(kmax·ta + qmax·ts)²`. -/
theorem C01_excess_bound (ps : List (Pt K)) (hdet : m11 ps * m22 ps - m12 ps * m12 ps ≠ 0)
    (hw : ∀ p ∈ ps, 0 ≤ p.w) (a s ta ts kmax qmax : K)
    (ha : |a - (linreg ps).1| ≤ ta) (hs : |s - (linreg ps).2| ≤ ts)
    (hk : ∀ p ∈ ps, |p.k| ≤ kmax) (hq : ∀ p ∈ ps, |p.q| ≤ qmax) :
    ssq a s ps - ssq (linreg ps).1 (linreg ps).2 ps
      ≤ sumBy (fun p => p.w) ps * ((kmax * ta + qmax * ts) * (kmax * ta + qmax * ts)) := by
  rw [C01_excess ps hdet a s]
  have hta : 0 ≤ ta := le_trans (abs_nonneg _) ha
  have hts : 0 ≤ ts := le_trans (abs_nonneg _) hs
  have hstep : sumBy (fun p => (p.k * (a - (linreg ps).1) + p.q * (s - (linreg ps).2))
                        * (p.k * (a - (linreg ps).1) + p.q * (s - (linreg ps).2)) * p.w) ps
      ≤ sumBy (fun p => ((kmax * ta + qmax * ts) * (kmax * ta + qmax * ts)) * p.w) ps := by
    apply sumBy_le_sumBy
    intro p hp
    have hkm : 0 ≤ kmax := le_trans (abs_nonneg _) (hk p hp)
    have hqm : 0 ≤ qmax := le_trans (abs_nonneg _) (hq p hp)
    have h1 : |p.k * (a - (linreg ps).1)| ≤ kmax * ta := by
      rw [abs_mul]; exact mul_le_mul (hk p hp) ha (abs_nonneg _) hkm
    have h2 : |p.q * (s - (linreg ps).2)| ≤ qmax * ts := by
      rw [abs_mul]; exact mul_le_mul (hq p hp) hs (abs_nonneg _) hqm
    have h3 : |p.k * (a - (linreg ps).1) + p.q * (s - (linreg ps).2)| ≤ kmax * ta + qmax * ts :=
      le_trans (abs_add_le _ _) (add_le_add h1 h2)
    have h4 : (p.k * (a - (linreg ps).1) + p.q * (s - (linreg ps).2))
                * (p.k * (a - (linreg ps).1) + p.q * (s - (linreg ps).2))
              ≤ (kmax * ta + qmax * ts) * (kmax * ta + qmax * ts) := by
      have := abs_le.mp h3
      nlinarith [this.1, this.2]
    exact mul_le_mul_of_nonneg_right h4 (hw p hp)
  have : sumBy (fun p => ((kmax * ta + qmax * ts) * (kmax * ta + qmax * ts)) * p.w) ps
      = sumBy (fun p => p.w) ps * ((kmax * ta + qmax * ts) * (kmax * ta + qmax * ts)) := by
    rw [sumBy_mul_const (fun p : Pt K => p.w)]; ring
  linarith

/-- non-vacuity: two bands with distinct coefficients form a non-singular regression meeting every hypothesis -/
example :
    let ps : List (Pt ℚ) := [{ r := 1, k := -1/2, q := -2, w := 3, flag := 1, e := 0 },
                             { r := 2, k := -1/5, q := -2, w := 5, flag := 1, e := 0 }]
    m11 ps * m22 ps - m12 ps * m12 ps ≠ 0 ∧ (∀ p ∈ ps, 0 ≤ p.w) ∧ (∀ p ∈ ps, |p.k| ≤ 1/2) ∧ (∀ p ∈ ps, |p.q| ≤ 2) := by
  refine ⟨by simp [m11, m12, m22, sumBy]; norm_num, ?_, ?_, ?_⟩ <;>
    · intro p hp
      simp at hp
      rcases hp with rfl | rfl <;> norm_num [abs_le]

end SF
