import SedVerif.Proofs.PickleFrame
/-!
# C19 — a fit output file cut short by a crash never yields a wrong record

Property theorems only.  Model: `SedVerif/Model/PickleFrame.lean`, namespace `SF.Pickle` (`argFmt`, `skipArg`, `scanOne`,
`readHeader`, `readRecs`, `readFile`).  A *frame* is the byte string of one complete pickle:
`scanOne b = .done []` (`Frames l` = every element of `l` is a frame).  A written file is
`hdr.flatten ++ recs.flatten` with `hdr` the header frames (three in `FitInfoFile`) and `recs` the
record frames; a crash leaves `take t` of it.

All statements hold for every number and content of header and record frames and every offset.
Partial (not claimed here, only observed by the correspondence harness): that CPython's unpickler
consumes exactly the bytes `scanOne` consumes and builds a value that is a function of those bytes.
-/
namespace SF
open Pickle

/-- **C19 (prefix-free).** A proper prefix of a complete frame is never a complete frame: reading it
    ends at an opcode boundary (`EOFError`) or inside an argument (`UnpicklingError`). -/
theorem C19_prefix_free (b : List UInt8) (hb : scanOne b = .done []) (p : List UInt8)
    (hp : p <+: b) (hne : p ≠ b) :
    scanOne p = .eofAtOpcode ∨ scanOne p = .truncatedArg := by
  have hlen : p.length < b.length := by
    rcases Nat.lt_or_ge p.length b.length with h | h
    · exact h
    · exact absurd (hp.eq_of_length_le h) hne
  have : p = b.take p.length := (List.prefix_iff_eq_take.mp hp)
  rw [this]
  exact scanOne_take b _ hb hlen

/-- **C19 (truncation).** For well-formed header frames `hdr` and record frames `recs = [b₁…b_k]` and
    every cut `t` strictly inside the file, reading `take t` of the file either fails in the
    constructor having yielded nothing, or yields exactly `[b₁…b_j]` for some `j < k` — an exact
    prefix of the written records, never a frame that was not written — and then ends (cleanly or
    with an error).  `j` is moreover the number of records that lie completely within the first `t`
    bytes. -/
theorem C19_truncation (hdr recs : List (List UInt8)) (hh : Frames hdr) (hr : Frames recs)
    (t : Nat) (ht : t < (hdr.flatten ++ recs.flatten).length) :
    (readFile hdr.length ((hdr.flatten ++ recs.flatten).take t) = ⟨.openError, []⟩ ∧
        t < hdr.flatten.length) ∨
    (∃ j, j < recs.length ∧
      (readFile hdr.length ((hdr.flatten ++ recs.flatten).take t)).recs = recs.take j ∧
      (readFile hdr.length ((hdr.flatten ++ recs.flatten).take t)).status ≠ .openError ∧
      (hdr.flatten ++ (recs.take j).flatten).length ≤ t ∧
      t < (hdr.flatten ++ (recs.take (j + 1)).flatten).length) := by
  by_cases h1 : t < hdr.flatten.length
  · left
    refine ⟨?_, h1⟩
    rw [List.take_append_of_le_length (by omega)]
    unfold readFile
    rw [readHeader_cut hdr hh t h1]
  · right
    rw [List.take_append, List.take_of_length_le (by omega)]
    unfold readFile
    rw [readHeader_all hdr hh]
    simp only
    rw [List.length_append] at ht
    obtain ⟨j, hj, hrecs, hst, hlo, hhi⟩ :=
      readRecs_cut recs hr (t - hdr.flatten.length) (by omega)
        ((recs.flatten.take (t - hdr.flatten.length)).length + 1)
        (by rw [List.length_take]; omega)
    refine ⟨j, hj, hrecs, hst, ?_, ?_⟩
    · rw [List.length_append]; omega
    · rw [List.length_append]; omega

/-- **C19 (complete file).** The untruncated file yields every written record, in order, and ends
    cleanly — so the prefix in `C19_truncation` is a prefix of what a reader of the whole file sees. -/
theorem C19_complete (hdr recs : List (List UInt8)) (hh : Frames hdr) (hr : Frames recs) :
    readFile hdr.length (hdr.flatten ++ recs.flatten) = ⟨.cleanEnd, recs⟩ := by
  unfold readFile
  rw [readHeader_all hdr hh]
  exact readRecs_all recs hr _ (by omega)

/-! ### Non-vacuity: real protocol-2 pickles (`pickle.dumps(obj, 2)` of CPython 3.12) -/

/-- `pickle.dumps('models_dir', 2)` -/
def exH1 : List UInt8 :=
  [0x80, 0x02, 0x58, 0x0a, 0x00, 0x00, 0x00, 0x6d, 0x6f, 0x64, 0x65, 0x6c, 0x73, 0x5f, 0x64, 0x69, 0x72, 0x71, 0x00, 0x2e]
/-- `pickle.dumps([{'name': 'F0', 'aperture_arcsec': 3.0}], 2)` -/
def exH2 : List UInt8 :=
  [0x80, 0x02, 0x5d, 0x71, 0x00, 0x7d, 0x71, 0x01, 0x28, 0x58, 0x04, 0x00, 0x00, 0x00, 0x6e, 0x61, 0x6d, 0x65, 0x71, 0x02, 0x58, 0x02, 0x00, 0x00, 0x00, 0x46, 0x30, 0x71, 0x03, 0x58, 0x0f, 0x00, 0x00, 0x00, 0x61, 0x70, 0x65, 0x72, 0x74, 0x75, 0x72, 0x65, 0x5f, 0x61, 0x72, 0x63, 0x73, 0x65, 0x63, 0x71, 0x04, 0x47, 0x40, 0x08, 0x00, 0x00, 0x00, 0x00, 0x00, 0x00, 0x75, 0x61, 0x2e]
/-- `pickle.dumps(None, 2)` -/
def exH3 : List UInt8 := [0x80, 0x02, 0x4e, 0x2e]
/-- `pickle.dumps({'name': 's1', 'chi2': [1.5, 2.5], 'id': (0, 1)}, 2)` -/
def exR1 : List UInt8 :=
  [0x80, 0x02, 0x7d, 0x71, 0x00, 0x28, 0x58, 0x04, 0x00, 0x00, 0x00, 0x6e, 0x61, 0x6d, 0x65, 0x71, 0x01, 0x58, 0x02, 0x00, 0x00, 0x00, 0x73, 0x31, 0x71, 0x02, 0x58, 0x04, 0x00, 0x00, 0x00, 0x63, 0x68, 0x69, 0x32, 0x71, 0x03, 0x5d, 0x71, 0x04, 0x28, 0x47, 0x3f, 0xf8, 0x00, 0x00, 0x00, 0x00, 0x00, 0x00, 0x47, 0x40, 0x04, 0x00, 0x00, 0x00, 0x00, 0x00, 0x00, 0x65, 0x58, 0x02, 0x00, 0x00, 0x00, 0x69, 0x64, 0x71, 0x05, 0x4b, 0x00, 0x4b, 0x01, 0x86, 0x71, 0x06, 0x75, 0x2e]
/-- `pickle.dumps(collections.OrderedDict(a=2**70), 2)` (GLOBAL with two lines, REDUCE, LONG1) -/
def exR2 : List UInt8 :=
  [0x80, 0x02, 0x63, 0x63, 0x6f, 0x6c, 0x6c, 0x65, 0x63, 0x74, 0x69, 0x6f, 0x6e, 0x73, 0x0a, 0x4f, 0x72, 0x64, 0x65, 0x72, 0x65, 0x64, 0x44, 0x69, 0x63, 0x74, 0x0a, 0x71, 0x00, 0x29, 0x52, 0x71, 0x01, 0x58, 0x01, 0x00, 0x00, 0x00, 0x61, 0x71, 0x02, 0x8a, 0x09, 0x00, 0x00, 0x00, 0x00, 0x00, 0x00, 0x00, 0x00, 0x40, 0x73, 0x2e]

/-- the hypotheses of the theorems hold for real pickles -/
example : Frames [exH1, exH2, exH3] ∧ Frames [exR1, exR2] := by
  constructor <;> (intro b hb; simp only [List.mem_cons, List.not_mem_nil, or_false] at hb;
                   rcases hb with rfl | rfl | rfl <;> decide +kernel)

/-- both non-`done` outcomes occur among the proper prefixes of one real frame -/
example : scanOne (exR2.take 2) = .eofAtOpcode ∧ scanOne (exR2.take 20) = .truncatedArg ∧
    scanOne (exR2.take 27) = .eofAtOpcode ∧ scanOne (exR2.take 45) = .truncatedArg ∧
    scanOne (exR2.take 53) = .eofAtOpcode := by decide +kernel

/-- all three endings occur on one real file: cut in the header, cut inside record 2 at an opcode
    boundary (silently yields record 1 only), cut inside an argument of record 2 (yields record 1, then
    raises), and the whole file -/
example :
    let file := [exH1, exH2, exH3].flatten ++ [exR1, exR2].flatten
    readFile 3 (file.take 50) = ⟨.openError, []⟩ ∧
    readFile 3 (file.take 87) = ⟨.cleanEnd, []⟩ ∧
    readFile 3 (file.take (87 + 78 + 29)) = ⟨.cleanEnd, [exR1]⟩ ∧
    readFile 3 (file.take (87 + 78 + 45)) = ⟨.iterError, [exR1]⟩ ∧
    readFile 3 file = ⟨.cleanEnd, [exR1, exR2]⟩ := by decide +kernel

end SF
