import SedVerif.Proofs.PickleFrame
/-!
# C19 — a fit output file cut short by a crash never yields a wrong record

Property theorems only.  Model: `SedVerif/Model/PickleFrame.lean`, namespace `SF.Pickle` (`argFmt`, `skipArg`, `scanOne`,
`readHeader`, `readRecs`, `readFile`).  A *frame* is the byte string of one complete pickle:
`scanOne b = .done []` (`Frames l` = every element of `l` is a frame).  A written file is
`hdr.flatten ++ recs.flatten` with `hdr` the header frames (three in `FitInfoFile`) and `recs` the
record frames; a crash leaves `take t` of it.

All statements hold for every number and content of header and record frames and every offset.
Partial (not claimed here, only observed by the correspondence harness): that CPython's unpickler
consumes exactly the bytes `scanOne` consumes and builds a value that is a function of those bytes.
-/
namespace SF
open Pickle

/-- **C19 (prefix-free).** A proper prefix of a complete frame is never a complete frame: reading it
    ends at an opcode boundary (`EOFError`) or inside an argument (`UnpicklingError`). -/
theorem C19_prefix_free (b : List UInt8) (hb : scanOne b = .done []) (p : List UInt8)
    (hp : p <+: b) (hne : p ≠ b) :
    scanOne p = .eofAtOpcode ∨ scanOne p = .truncatedArg := by
  have hlen : p.length < b.length := by
    rcases Nat.lt_or_ge p.length b.length with h | h
    · exact h
    · exact absurd (hp.eq_of_length_le h) hne
  have : p = b.take p.length := (List.prefix_iff_eq_take.mp hp)
  rw [this]
  exact scanOne_take b _ hb hlen

/-- **C19 (truncation).** For well-formed header frames `hdr` and record frames `recs = [b₁…b_k]` and
    every cut `t` strictly inside the file, reading `take t` of the file either fails in the
    constructor having yielded nothing, or yields exactly `[b₁…b_j]` for some `j < k` — an exact
    prefix of the written records, never a frame that was not written — and then ends (cleanly or
    with an error).  `j` is moreover the number of records that lie completely within the first `t`
    bytes. -/
theorem C19_truncation (hdr recs : List (List UInt8)) (hh : Frames hdr) (hr : Frames recs)
    (t : Nat) (ht : t < (hdr.flatten ++ recs.flatten).length) :
    (readFile hdr.length ((hdr.flatten ++ recs.flatten).take t) = ⟨.openError, []⟩ ∧
        t < hdr.flatten.length) ∨
    (∃ j, j < recs.length ∧
      (readFile hdr.length ((hdr.flatten ++ recs.flatten).take t)).recs = recs.take j ∧
      (readFile hdr.length ((hdr.flatten ++ recs.flatten).take t)).status ≠ .openError ∧
      (hdr.flatten ++ (recs.take j).flatten).length ≤ t ∧
      t < (hdr.flatten ++ (recs.take (j + 1)).flatten).length) := by
  by_cases h1 : t < hdr.flatten.length
  · left
    refine ⟨?_, h1⟩
    rw [List.take_append_of_le_length (by omega)]
    unfold readFile
    rw [readHeader_cut hdr hh t h1]
  · right
    rw [List.take_append, List.take_of_length_le (by omega)]
    unfold readFile
    rw [readHeader_all hdr hh]
    simp only
    rw [List.length_append] at ht
    obtain ⟨j, hj, hrecs, hst, hlo, hhi⟩ :=
      readRecs_cut recs hr (t - hdr.flatten.length) (by omega)
        ((recs.flatten.take (t - hdr.flatten.length)).length + 1)
        (by rw [List.length_take]; omega)
    refine ⟨j, hj, hrecs, hst, ?_, ?_⟩
    · rw [List.length_append]; omega
    · rw [List.length_append]; omega

/-- **C19 (complete file).** The untruncated file yields every written record, in order, and ends
    cleanly — so the prefix in `C19_truncation` is a prefix of what a reader of the whole file sees. -/
theorem C19_complete (hdr recs : List (List UInt8)) (hh : Frames hdr) (hr : Frames recs) :
    readFile hdr.length (hdr.flatten ++ recs.flatten) = ⟨.cleanEnd, recs⟩ := by
  unfold readFile
  rw [readHeader_all hdr hh]
  exact readRecs_all recs hr _ (by omega)

/-- the bytes a reader object iterates over after its constructor consumed the header of the file cut at `t` -/
theorem C19_reader_position (hdr recs : List (List UInt8)) (hh : Frames hdr) (t : Nat)
    (ht : hdr.flatten.length ≤ t) :
    readHeader hdr.length ((hdr.flatten ++ recs.flatten).take t)
      = some (recs.flatten.take (t - hdr.flatten.length)) := by
  rw [List.take_append, List.take_of_length_le ht]
  exact readHeader_all hdr hh _

/-- **C19 (reader life-cycle).** One reader object of the file cut at ANY offset `t`, driven through ANY
    sequence of passes (each iterated to its end — `EOFError` or an error — or abandoned after any number
    of records, the next pass continuing where the previous one stopped): everything it yields over all
    passes together is exactly `[b₁…b_j]`, a prefix of the written records, all of them lying completely
    before the cut.  (When the cut is inside the header the constructor raises and there is no reader.) -/
theorem C19_lifecycle (hdr recs : List (List UInt8)) (hh : Frames hdr) (hr : Frames recs)
    (t : Nat) (ops : List (Option Nat)) (r : List UInt8)
    (hopen : readHeader hdr.length ((hdr.flatten ++ recs.flatten).take t) = some r) :
    ∃ j, j ≤ recs.length ∧ allYielded (readPasses ops r) = recs.take j ∧
      (hdr.flatten ++ (recs.take j).flatten).length ≤ t := by
  by_cases h1 : t < hdr.flatten.length
  · rw [List.take_append_of_le_length (by omega), readHeader_cut hdr hh t h1] at hopen
    cases hopen
  · rw [C19_reader_position hdr recs hh t (by omega)] at hopen
    cases hopen
    obtain ⟨j, hj, hy, hle⟩ := readPasses_stream ops recs hr (t - hdr.flatten.length)
    exact ⟨j, hj, hy, by rw [List.length_append]; omega⟩

/-- **C19 (a single full pass is one of the life-cycles).** `readFile` yields what the one-pass life-cycle
    `[none]` yields. -/
theorem C19_single_pass (nh : Nat) (b r : List UInt8) (h : readHeader nh b = some r) :
    (readFile nh b).recs = allYielded (readPasses [none] r) := by
  simp only [readFile, h, readPasses, allYielded, List.map_cons, List.map_nil, List.flatten_cons,
    List.flatten_nil, List.append_nil]
  exact readRecs_eq_readPass _ _

/-- what a full read of the file cut at `t` yields: the `j` records that lie completely before the cut,
    and `j` is the largest such number -/
theorem C19_count (hdr recs : List (List UInt8)) (hh : Frames hdr) (hr : Frames recs) (t : Nat) :
    ∃ j, j ≤ recs.length ∧ (readFile hdr.length ((hdr.flatten ++ recs.flatten).take t)).recs = recs.take j ∧
      (t < hdr.flatten.length → j = 0) ∧
      (hdr.flatten.length ≤ t → (hdr.flatten ++ (recs.take j).flatten).length ≤ t ∧
        (j < recs.length → t < (hdr.flatten ++ (recs.take (j + 1)).flatten).length)) := by
  by_cases h1 : t < hdr.flatten.length
  · refine ⟨0, by simp, ?_, fun _ => rfl, fun h => by omega⟩
    rw [List.take_append_of_le_length (by omega)]
    simp [readFile, readHeader_cut hdr hh t h1]
  · have hp := C19_reader_position hdr recs hh t (by omega)
    obtain ⟨j, s', hj, hrec, _, hle, hmax⟩ := readPass_stream recs hr
      ((recs.flatten.take (t - hdr.flatten.length)).length + 1) none (t - hdr.flatten.length) (by omega)
    refine ⟨j, hj, ?_, fun h => by omega, fun _ => ⟨by rw [List.length_append]; omega, fun hj1 => ?_⟩⟩
    · simp only [readFile, hp]
      rw [readRecs_eq_readPass]; exact hrec
    · have := hmax rfl hj1
      rw [List.length_append]; omega

/-- **C19 (monotone in the offset).** A longer prefix of the file never yields fewer records and yields the
    same first records: for `t ≤ t'` the records read from the file cut at `t` are a prefix of those read
    from the file cut at `t'`. -/
theorem C19_monotone (hdr recs : List (List UInt8)) (hh : Frames hdr) (hr : Frames recs)
    (t t' : Nat) (htt : t ≤ t') :
    (readFile hdr.length ((hdr.flatten ++ recs.flatten).take t)).recs <+:
      (readFile hdr.length ((hdr.flatten ++ recs.flatten).take t')).recs := by
  obtain ⟨j, hj, hrec, h0, hb⟩ := C19_count hdr recs hh hr t
  obtain ⟨j', hj', hrec', h0', hb'⟩ := C19_count hdr recs hh hr t'
  rw [hrec, hrec']
  have hjj : j ≤ j' := by
    by_cases h1 : t < hdr.flatten.length
    · rw [h0 h1]; omega
    · obtain ⟨hlo, _⟩ := hb (by omega)
      obtain ⟨_, hhi'⟩ := hb' (by omega)
      refine Nat.le_of_not_lt (fun hc => ?_)
      have hlt : j' < recs.length := by omega
      have h2 := hhi' hlt
      have h3 := take_flatten_length_mono recs (show j' + 1 ≤ j by omega)
      rw [List.length_append] at hlo h2
      omega
  have : recs.take j = (recs.take j').take j := by rw [List.take_take, Nat.min_eq_left hjj]
  rw [this]
  exact List.take_prefix _ _

/-- **C19 (liveness: a cut inside record `k`).** The file cut `off` bytes into record `k` (`off` smaller
    than the record's length; `off = 0` is a cut exactly at the record boundary) is the header, records
    `0..k-1` and the first `off` bytes of record `k`; reading it yields EXACTLY records `0..k-1`, and the
    pass ends cleanly (`EOFError`) when those `off` bytes end at an opcode boundary and with an error when
    they end inside an argument — one of the two always holds. -/
theorem C19_cut_inside (hdr recs : List (List UInt8)) (hh : Frames hdr) (hr : Frames recs)
    (k : Nat) (hk : k < recs.length) (off : Nat) (hoff : off < recs[k].length) :
    (hdr.flatten ++ recs.flatten).take (hdr.flatten.length + (recs.take k).flatten.length + off)
        = hdr.flatten ++ ((recs.take k).flatten ++ recs[k].take off) ∧
    (scanOne (recs[k].take off) = .eofAtOpcode ∨ scanOne (recs[k].take off) = .truncatedArg) ∧
    readFile hdr.length (hdr.flatten ++ ((recs.take k).flatten ++ recs[k].take off))
      = ⟨if scanOne (recs[k].take off) = .eofAtOpcode then .cleanEnd else .iterError, recs.take k⟩ ∧
    (off = 0 → scanOne (recs[k].take off) = .eofAtOpcode) := by
  have hbk : scanOne recs[k] = .done [] := hr _ (List.getElem_mem hk)
  have hsplit : recs = recs.take k ++ recs[k] :: recs.drop (k + 1) := by
    rw [List.getElem_cons_drop hk, List.take_append_drop]
  have hcase := scanOne_take recs[k] off hbk hoff
  refine ⟨?_, hcase, ?_, fun h0 => by subst h0; rfl⟩
  · have hfl : recs.flatten = (recs.take k).flatten ++ (recs[k] ++ (recs.drop (k + 1)).flatten) := by
      rw [← List.flatten_cons, ← List.flatten_append, ← hsplit]
    rw [hfl]
    rw [Nat.add_assoc, List.take_append, List.take_of_length_le (by omega), Nat.add_sub_cancel_left]
    rw [List.take_append, List.take_of_length_le (by omega), Nat.add_sub_cancel_left]
    rw [List.take_append_of_le_length (by omega)]
  · unfold readFile
    rw [readHeader_all hdr hh]
    simp only
    have hfl : (recs.take k).length < ((recs.take k).flatten ++ recs[k].take off).length + 1 := by
      have := frames_length_le (recs.take k) (fun c hc => hr c (List.mem_of_mem_take hc))
      rw [List.length_append]; omega
    rw [readRecs_append (recs.take k) (fun c hc => hr c (List.mem_of_mem_take hc)) _ _ hfl]
    obtain ⟨g, hg⟩ := Nat.exists_eq_add_of_lt hfl
    have hg' : ((recs.take k).flatten ++ recs[k].take off).length + 1 - (recs.take k).length = g + 1 := by omega
    rw [hg']
    rcases hcase with e | e <;> simp [readRecs, e]

/-! ### Non-vacuity: real protocol-2 pickles (`pickle.dumps(obj, 2)` of CPython 3.12) -/

/-- `pickle.dumps('models_dir', 2)` -/
def exH1 : List UInt8 :=
  [0x80, 0x02, 0x58, 0x0a, 0x00, 0x00, 0x00, 0x6d, 0x6f, 0x64, 0x65, 0x6c, 0x73, 0x5f, 0x64, 0x69, 0x72, 0x71, 0x00, 0x2e]
/-- `pickle.dumps([{'name': 'F0', 'aperture_arcsec': 3.0}], 2)` -/
def exH2 : List UInt8 :=
  [0x80, 0x02, 0x5d, 0x71, 0x00, 0x7d, 0x71, 0x01, 0x28, 0x58, 0x04, 0x00, 0x00, 0x00, 0x6e, 0x61, 0x6d, 0x65, 0x71, 0x02, 0x58, 0x02, 0x00, 0x00, 0x00, 0x46, 0x30, 0x71, 0x03, 0x58, 0x0f, 0x00, 0x00, 0x00, 0x61, 0x70, 0x65, 0x72, 0x74, 0x75, 0x72, 0x65, 0x5f, 0x61, 0x72, 0x63, 0x73, 0x65, 0x63, 0x71, 0x04, 0x47, 0x40, 0x08, 0x00, 0x00, 0x00, 0x00, 0x00, 0x00, 0x75, 0x61, 0x2e]
/-- `pickle.dumps(None, 2)` -/
def exH3 : List UInt8 := [0x80, 0x02, 0x4e, 0x2e]
/-- `pickle.dumps({'name': 's1', 'chi2': [1.5, 2.5], 'id': (0, 1)}, 2)` -/
def exR1 : List UInt8 :=
  [0x80, 0x02, 0x7d, 0x71, 0x00, 0x28, 0x58, 0x04, 0x00, 0x00, 0x00, 0x6e, 0x61, 0x6d, 0x65, 0x71, 0x01, 0x58, 0x02, 0x00, 0x00, 0x00, 0x73, 0x31, 0x71, 0x02, 0x58, 0x04, 0x00, 0x00, 0x00, 0x63, 0x68, 0x69, 0x32, 0x71, 0x03, 0x5d, 0x71, 0x04, 0x28, 0x47, 0x3f, 0xf8, 0x00, 0x00, 0x00, 0x00, 0x00, 0x00, 0x47, 0x40, 0x04, 0x00, 0x00, 0x00, 0x00, 0x00, 0x00, 0x65, 0x58, 0x02, 0x00, 0x00, 0x00, 0x69, 0x64, 0x71, 0x05, 0x4b, 0x00, 0x4b, 0x01, 0x86, 0x71, 0x06, 0x75, 0x2e]
/-- `pickle.dumps(collections.OrderedDict(a=2**70), 2)` (GLOBAL with two lines, REDUCE, LONG1) -/
def exR2 : List UInt8 :=
  [0x80, 0x02, 0x63, 0x63, 0x6f, 0x6c, 0x6c, 0x65, 0x63, 0x74, 0x69, 0x6f, 0x6e, 0x73, 0x0a, 0x4f, 0x72, 0x64, 0x65, 0x72, 0x65, 0x64, 0x44, 0x69, 0x63, 0x74, 0x0a, 0x71, 0x00, 0x29, 0x52, 0x71, 0x01, 0x58, 0x01, 0x00, 0x00, 0x00, 0x61, 0x71, 0x02, 0x8a, 0x09, 0x00, 0x00, 0x00, 0x00, 0x00, 0x00, 0x00, 0x00, 0x40, 0x73, 0x2e]

/-- the hypotheses of the theorems hold for real pickles -/
example : Frames [exH1, exH2, exH3] ∧ Frames [exR1, exR2] := by
  constructor <;> (intro b hb; simp only [List.mem_cons, List.not_mem_nil, or_false] at hb;
                   rcases hb with rfl | rfl | rfl <;> decide +kernel)

/-- both non-`done` outcomes occur among the proper prefixes of one real frame -/
example : scanOne (exR2.take 2) = .eofAtOpcode ∧ scanOne (exR2.take 20) = .truncatedArg ∧
    scanOne (exR2.take 27) = .eofAtOpcode ∧ scanOne (exR2.take 45) = .truncatedArg ∧
    scanOne (exR2.take 53) = .eofAtOpcode := by decide +kernel

/-- all three endings occur on one real file: cut in the header, cut inside record 2 at an opcode
    boundary (silently yields record 1 only), cut inside an argument of record 2 (yields record 1, then
    raises), and the whole file -/
example :
    let file := [exH1, exH2, exH3].flatten ++ [exR1, exR2].flatten
    readFile 3 (file.take 50) = ⟨.openError, []⟩ ∧
    readFile 3 (file.take 87) = ⟨.cleanEnd, []⟩ ∧
    readFile 3 (file.take (87 + 78 + 29)) = ⟨.cleanEnd, [exR1]⟩ ∧
    readFile 3 (file.take (87 + 78 + 45)) = ⟨.iterError, [exR1]⟩ ∧
    readFile 3 file = ⟨.cleanEnd, [exR1, exR2]⟩ := by decide +kernel

/-- life-cycles on the real file: peek one record, then iterate twice (cut inside record 2: the three passes
    yield `[exR1]`, `[]`, `[]`); peek, then a full pass, then another on the complete file; a pass over a cut that
    ends in an error followed by another pass -/
example :
    let file := [exH1, exH2, exH3].flatten ++ [exR1, exR2].flatten
    readHeader 3 (file.take (87 + 78 + 29)) = some (([exR1, exR2].flatten).take (78 + 29)) ∧
    (readPasses [some 1, none, none] (([exR1, exR2].flatten).take (78 + 29))).map (fun o => (o.recs, o.ending))
      = [([exR1], .stopped), ([], .cleanEnd), ([], .cleanEnd)] ∧
    (readPasses [some 1, none, none] [exR1, exR2].flatten).map (fun o => (o.recs, o.ending))
      = [([exR1], .stopped), ([exR2], .cleanEnd), ([], .cleanEnd)] ∧
    (readPasses [none, none] (([exR1, exR2].flatten).take (78 + 45))).map (fun o => (o.recs, o.ending))
      = [([exR1], .error), ([], .cleanEnd)] ∧
    allYielded (readPasses [some 0, some 1, some 5, none] [exR1, exR2].flatten) = [exR1, exR2] := by
  decide +kernel

/-- monotone and cut-inside on the real file: record counts 0, 0, 1, 1, 2 at increasing offsets; the cut 29
    bytes into record 2 ends cleanly, the cut 45 bytes into it ends with an error -/
example :
    let file := [exH1, exH2, exH3].flatten ++ [exR1, exR2].flatten
    ([50, 87, 87 + 78, 87 + 78 + 45, 87 + 78 + 54].map fun t => (readFile 3 (file.take t)).recs.length)
      = [0, 0, 1, 1, 2] ∧
    scanOne (exR2.take 29) = .eofAtOpcode ∧ scanOne (exR2.take 45) = .truncatedArg ∧
    [exR1, exR2][1].length = 54 := by decide +kernel

end SF
