import SedVerif.Proofs.Pipeline3
import SedVerif.Properties.C08
/-!
# E2E3 — cube packages, distance-dependent mode: every listed row stays on ONE model of the cube

Composition theorems for `runPipeline3` (`Model/Pipeline3.lean`): cube write/read → convolve / slice →
distance grid, aperture interpolation, `d⁻²` → `fit3` → rank → select → list.  Every statement is derived
from the per-stage property theorems (C02, C04, C05, C08, C09, C12, C16) through the stage lemmas of
`Proofs/Pipeline3.lean` (and `Proofs/Pipeline.lean` for the shared listing stage); nothing about a stage
is re-proved here.

Vocabulary (defined in `Model/Pipeline3.lean` / `Proofs/Pipeline3.lean`):
* `NamesOK3 inp` — cube names distinct, each fits the 30-character column and has no surrounding blanks;
  `CubeShape c` — one `val` / `unc` slab per name;
* `rdCube env inp` — the cube after `SEDCube.write` + `SEDCube.read(order='nu')`;
* `entryRow env inp e m`, `entryErr …` — fluxes / uncertainties over apertures of cube row `m` through ONE
  entry `e` (convolution of `val[m][ia]` with the rebinned filter, or the column at `nearestIdx`);
* `cubeTabs`, `cubeLfs`, `cubePss`, `cubeFit env inp bands m` — what cube row `m` gives for one source: band
  tables `(θ, apertures, entryRow)`, `log10` of the interpolated and `d⁻²`-scaled fluxes over the distance
  grid (`modelLogFluxes`), the fitter's per-distance points, `(av, sc, chi2, best index) = fit3` of those;
* `distsOf`, `logdOf` — the trial distances (kpc) and their `log10`; `fittedSources3 inp` — the sources
  with `n_data ≥ n_data_min`, in data-file order; `fullRanking3` — the complete ranking of one source.
-/
set_option linter.unusedSectionVars false
set_option linter.unusedVariables false
namespace SF
open SF.Match SF.Pipe SF.Pipe3 SF.Dist
variable {K : Type} [Field K] [LinearOrder K] [IsStrictOrderedRing K]

/-- **E2E3 (row integrity).**  If the pipeline returns (cube names distinct):
    * every entry's table carries the entry's wavelength, the cube's names in cube order and the cube's
      apertures, and its row `m` is cube row `m` through that entry (`entryRow`, `entryErr`);
    * the fitter holds, under the name of cube row `m`, `log10` of those tables interpolated to `θ·d` and
      scaled by `d⁻²` over the distance grid (`cubeLfs m`, = `modelLogFluxes` of `cubeTabs m`), and the
      fit of row `m` is the `fit3Model` of C02 (`C02_model`, `C02_fit` apply to it);
    * there is one listing block per fitted source, in data-file order, under the source's name;
    * every listed row names a model `X` such that, for THE index `m` with `cube.names[m] = X`: the
      parameter values printed are those of THE parameter-file row whose stripped name is `X`, and
      `(av, sc, chi2)` are `fit3` of the per-distance points built from cube row `m`.
    So name ↔ cube row ↔ interpolated flux ↔ fit ↔ parameters refer to one model. -/
theorem E2E3_row_integrity (env : P3Env K) (inp : P3Input K) (out : P3Out K)
    (h : runPipeline3 env inp = .ok out) (hN : NamesOK3 inp) (hS : CubeShape inp.cube)
    (hT : (inp.table.map (fun y => strip y.1)).Nodup) :
    (out.conv.length = inp.filters.length ∧
      ∀ (j : Nat) (f : Filt3 K) (c : Conv K (List K)), inp.filters[j]? = some f → out.conv[j]? = some c →
        c.filtwav = entryWav f.entry ∧ c.names = inp.cube.names ∧ c.apertures = inp.cube.aps ∧
        c.flux.length = inp.cube.names.length ∧
        ∀ m, m < inp.cube.names.length →
          c.flux[m]? = some (entryRow env inp f.entry m) ∧ c.error[m]? = some (entryErr env inp f.entry m)) ∧
    (out.dists = distsOf env inp ∧ distsOf env inp ≠ [] ∧ out.models.length = inp.cube.names.length ∧
      ∀ (m : Nat) (X : String), inp.cube.names[m]? = some X →
        out.models[m]? = some ⟨X, cubeLfs env inp m, []⟩ ∧
        modelLogFluxes env.lg (cubeTabs env inp m) (distsOf env inp) = .ok (cubeLfs env inp m) ∧
        ∀ bands : List (Obs K),
          fit3Model env.big env.ln1m env.lg inp.lo inp.hi (bands.map (logTransform env.lg env.ln10)) (ksIn3 inp)
            (cubeTabs env inp m) (distsOf env inp) = .ok (cubeFit env inp bands m)) ∧
    out.listings.length = (fittedSources3 inp).length ∧
    ∀ (k : Nat) (src : String × List (Obs K)) (L : SrcListing K),
      (fittedSources3 inp)[k]? = some src → out.listings[k]? = some L →
      L.source = src.1 ∧
      ∀ row ∈ L.rows, ∃ m, inp.cube.names[m]? = some row.name ∧
        (∀ m', inp.cube.names[m']? = some row.name → m' = m) ∧
        (∃ y ∈ inp.table, strip y.1 = row.name ∧ y.2 = row.pars) ∧
        (∀ y ∈ inp.table, strip y.1 = row.name → y.2 = row.pars) ∧
        row.av = (cubeFit env inp src.2 m).1 ∧ row.sc = (cubeFit env inp src.2 m).2.1 ∧
        row.chi2 = EF.fin (cubeFit env inp src.2 m).2.2.1 := by
  obtain ⟨cube, unc, hrd, hunc, hne, -, hconv, hdists, hdne, hmodels, hall, -, hls⟩ := runPipeline3_ok env inp out h hN hS
  have hG : GridOK env inp := ⟨hdne, hall⟩
  obtain ⟨hrdc, hnames, haps⟩ := rdCube_names env inp cube hrd
  obtain ⟨hlen, hget⟩ := mapE_getElem? _ _ _ hls
  refine ⟨⟨by rw [hconv]; simp, ?_⟩, ⟨hdists, hdne, by rw [hmodels, lmodelsOf3_length], ?_⟩, hlen, ?_⟩
  · -- the tables
    intro j f c hf hc
    rw [hconv, List.getElem?_map, hf] at hc
    simp only [Option.map_some, Option.some.injEq] at hc
    subst hc
    refine ⟨rfl, hnames, haps, by simp [convOf, hnames], ?_⟩
    intro m hm
    simp [convOf, hnames, List.getElem?_range hm]
  · -- the arrays the fitter holds
    intro m X hX
    have hm : m < inp.cube.names.length := (List.getElem?_eq_some_iff.mp hX).1
    refine ⟨?_, hall m hm, ?_⟩
    · rw [hmodels]
      simp only [lmodelsOf3, List.getElem?_map, List.getElem?_range hm, Option.map_some,
        List.getD_eq_getElem?_getD, hX, Option.getD_some]
    · intro bands
      simp only [fit3Model, modelPss, hall m hm, Except.map]
      rfl
  · -- the listing
    intro k src L hsrc hL
    obtain ⟨ts, hts, hsource, -, -, hrows⟩ := listing_block3 env inp out h hN hS k src L hsrc hL
    refine ⟨hsource, ?_⟩
    intro row hrow
    obtain ⟨hmn, hts2⟩ := listing_ok _ _ _ hts hT
    rw [hrows] at hrow
    obtain ⟨j, hj, hrj⟩ := List.mem_iff_getElem.mp hrow
    have hrj' := List.getElem?_eq_getElem hj
    rw [hrj, mkRows_getElem?] at hrj'
    simp only [Option.bind_eq_some_iff, Option.map_eq_some_iff] at hrj'
    obtain ⟨n, hn, c, hc, a, ha, sc, hsc, t, ht, hrow_eq⟩ := hrj'
    -- position `j` of the ranking
    have hM := (rank3_wf env inp.lo inp.hi (logdOf env inp) (ksIn3 inp) (lmodelsOf3 env inp) src.2).2.2
    rw [lmodelsOf3_length] at hM
    have hjlt : j < inp.cube.names.length := by
      have h1 : j < ((fullRanking3 env inp src.2).chi2.take (nKept3 env inp src.2)).length :=
        (List.getElem?_eq_some_iff.mp hc).1
      rw [List.length_take] at h1
      unfold fullRanking3 at h1
      omega
    obtain ⟨m, hm, rn, ra, rs, rc⟩ := fullRanking3_row env inp hG src.2 j hjlt
    have take_get : ∀ {α : Type} (l : List α) (q : Nat) (x : α), (l.take q)[j]? = some x → l[j]? = some x := by
      intro α l q x hx
      rw [List.getElem?_take] at hx
      split at hx
      · exact hx
      · simp at hx
    have en := (take_get _ _ _ hn).symm.trans rn
    have ea := (take_get _ _ _ ha).symm.trans ra
    have es := (take_get _ _ _ hsc).symm.trans rs
    have ec := (take_get _ _ _ hc).symm.trans rc
    simp only [Option.some.injEq] at ea es ec
    -- the table row printed beside it
    have htm : t ∈ ts := List.mem_of_getElem? ht
    obtain ⟨t1, t2, t3⟩ := hts2 t htm
    have htn : t.1 = n := by
      have := congrArg (fun l => l[j]?) hmn
      simp only [List.getElem?_map, ht, Option.map_some] at this
      rw [hn] at this
      simpa using this
    subst hrow_eq
    simp only
    rw [t1, List.append_nil]
    refine ⟨m, en.symm, ?_, ?_, ?_, ea, es, ec⟩
    · intro m' hm'
      have h1 : m' < inp.cube.names.length := (List.getElem?_eq_some_iff.mp hm').1
      have e1 : inp.cube.names[m'] = n := by
        have := List.getElem?_eq_getElem h1; rw [hm'] at this; exact (Option.some.inj this).symm
      have e2 : inp.cube.names[m] = n := by
        have := List.getElem?_eq_getElem hm; rw [← en] at this; exact (Option.some.inj this).symm
      exact (List.Nodup.getElem_inj_iff hN.1).mp (e1.trans e2.symm)
    · obtain ⟨y, hy, hy1, hy2⟩ := t2
      exact ⟨y, hy, by rw [hy1, htn], hy2⟩
    · intro y hy hyn
      exact t3 y hy (by rw [hyn, htn])

/-- **E2E3 (ranked, selected).**  If the pipeline returns, every listing block
    * has chi² values that are finite and non-decreasing;
    * is a PREFIX of the complete ranking of its source: names, chi², A_V and scale columns are the first
      `n_fits` entries of the ranked arrays (`C04`), `fit_id` counts `1 … n_fits`, `n_data` counts the flag-1
      and flag-4 bands, and `n_fits = min(n, number of models)` where `n` is what `output_format` and then
      `select_format` compute (`nKept3`, the two `nFits` of `C05`);
    * the complete ranking lists every model of the cube exactly once;
    * and when `select_format` has a threshold no criterion value equals and is not looser than
      `output_format`, the listed fits are EXACTLY those whose criterion is below the threshold (`C05`). -/
theorem E2E3_ranked (env : P3Env K) (inp : P3Input K) (out : P3Out K)
    (h : runPipeline3 env inp = .ok out) (hN : NamesOK3 inp) (hS : CubeShape inp.cube) :
    ∀ (k : Nat) (src : String × List (Obs K)) (L : SrcListing K),
      (fittedSources3 inp)[k]? = some src → out.listings[k]? = some L →
      (L.rows.map (·.chi2)).Pairwise (fun a b => EF.le a b = true) ∧
      (∀ r ∈ L.rows, ∃ x, r.chi2 = EF.fin x) ∧
      L.rows.length = L.nFits ∧
      L.nFits = min (nKept3 env inp src.2) inp.cube.names.length ∧
      L.nData = (flagsOf src.2).count 1 + (flagsOf src.2).count 4 ∧
      L.rows.map (·.fitId) = (List.range L.nFits).map (· + 1) ∧
      L.rows.map (·.name) = (fullRanking3 env inp src.2).name.take L.nFits ∧
      L.rows.map (·.chi2) = (fullRanking3 env inp src.2).chi2.take L.nFits ∧
      L.rows.map (·.av) = (fullRanking3 env inp src.2).av.take L.nFits ∧
      L.rows.map (·.sc) = (fullRanking3 env inp src.2).sc.take L.nFits ∧
      (fullRanking3 env inp src.2).name.Perm inp.cube.names ∧
      Ranked (fullRanking3 env inp src.2).chi2 ∧
      (∀ v, inp.selOut.thr = some v →
        NonAttained inp.selOut (nDataSrc (flagsOf src.2)) (fullRanking3 env inp src.2).chi2 →
        nFits inp.selOut (nDataSrc (flagsOf src.2)) (fullRanking3 env inp src.2).chi2
          ≤ nFits inp.selFit (nDataSrc (flagsOf src.2)) (fullRanking3 env inp src.2).chi2 →
        ∀ c0, (fullRanking3 env inp src.2).chi2.head? = some c0 →
          L.rows.map (·.chi2) = (fullRanking3 env inp src.2).chi2.filter
            (fun c => EF.lt (crit inp.selOut (nDataSrc (flagsOf src.2)) c0 c) v)) := by
  intro k src L hsrc hL
  obtain ⟨-, -, -, -, -, -, -, -, hdne, -, hall, -, -⟩ := runPipeline3_ok env inp out h hN hS
  have hG : GridOK env inp := ⟨hdne, hall⟩
  obtain ⟨ts, hts, -, hnd, hnf, hrows⟩ := listing_block3 env inp out h hN hS k src L hsrc hL
  obtain ⟨hwf, hranked, hM⟩ := rank3_wf env inp.lo inp.hi (logdOf env inp) (ksIn3 inp) (lmodelsOf3 env inp) src.2
  rw [lmodelsOf3_length] at hM
  change WFInfo (fullRanking3 env inp src.2) at hwf
  change Ranked (fullRanking3 env inp src.2).chi2 at hranked
  change (fullRanking3 env inp src.2).chi2.length = _ at hM
  obtain ⟨w1, w2, w3, w4, -⟩ := hwf
  obtain ⟨hmn, -, -⟩ := C09_safety _ _ _ _ (by unfold listing at hts; exact hts)
  have htl : ts.length = ((fullRanking3 env inp src.2).name.take (nKept3 env inp src.2)).length := by
    have := congrArg List.length hmn; simpa using this
  have hnfits : L.nFits = min (nKept3 env inp src.2) inp.cube.names.length := by
    rw [hnf, List.length_take, hM]
  have l1 : ((fullRanking3 env inp src.2).name.take (nKept3 env inp src.2)).length = L.nFits := by
    rw [hnfits, List.length_take]; rw [w3, hM]
  have l2 : ((fullRanking3 env inp src.2).chi2.take (nKept3 env inp src.2)).length = L.nFits := hnf.symm
  have l3 : ((fullRanking3 env inp src.2).av.take (nKept3 env inp src.2)).length = L.nFits := by
    rw [hnfits, List.length_take]; rw [w1, hM]
  have l4 : ((fullRanking3 env inp src.2).sc.take (nKept3 env inp src.2)).length = L.nFits := by
    rw [hnfits, List.length_take]; rw [w2, hM]
  have l5 : ts.length = L.nFits := htl.trans l1
  obtain ⟨m1, m2, m3, m4, m5, -⟩ := mkRows_maps _ 0 _ _ _ ts L.nFits l1 l2 l3 l4 l5
  have hlenrows := mkRows_length _ 0 _ _ _ ts L.nFits l1 l2 l3 l4 l5
  have tk : ∀ {α : Type} (l : List α), l.length = inp.cube.names.length →
      l.take (nKept3 env inp src.2) = l.take L.nFits := by
    intro α l hl
    rw [hnfits, ← hl, take_min_length']
  have hchi : L.rows.map (·.chi2) = (fullRanking3 env inp src.2).chi2.take L.nFits := by
    rw [hrows, m2]; exact tk _ hM
  have hfin := rank3_chi2_fin env inp hG src.2
  refine ⟨?_, ?_, by rw [hrows]; exact hlenrows, hnfits, ?_, ?_, ?_, hchi, ?_, ?_,
    rank3_names_perm env inp src.2, hranked, ?_⟩
  · rw [hchi]
    have hsub : ((fullRanking3 env inp src.2).chi2.take L.nFits).Pairwise (fun a b => EF.leSort a b = true) :=
      List.Pairwise.sublist (List.take_sublist _ _) hranked
    refine List.Pairwise.imp_of_mem ?_ hsub
    intro a b ha hb hab
    obtain ⟨x, rfl⟩ := hfin a (List.mem_of_mem_take ha)
    obtain ⟨y, rfl⟩ := hfin b (List.mem_of_mem_take hb)
    simpa [EF.leSort, EF.le] using hab
  · intro r hr
    have : r.chi2 ∈ L.rows.map (·.chi2) := List.mem_map.mpr ⟨r, hr, rfl⟩
    rw [hchi] at this
    exact hfin _ (List.mem_of_mem_take this)
  · rw [hnd]; exact (C05_ndata (K := K) (flagsOf src.2)).1
  · rw [hrows, m5]; simp
  · rw [hrows, m1]; exact tk _ (by rw [w3, hM])
  · rw [hrows, m3]; exact tk _ (by rw [w1, hM])
  · rw [hrows, m4]; exact tk _ (by rw [w2, hM])
  · intro v hv hna hle c0 hc0
    let x : FitRows K := { fullRanking3 env inp src.2 with fluxes := none }
    have hxr : Ranked x.chi2 := hranked
    have hxwf : WFInfo x := ⟨w1, w2, w3, w4, by intro fl hfl; simp [x] at hfl⟩
    have e1 := C05_looser_first inp.selOut inp.selFit (nDataSrc (flagsOf src.2)) x hxr hna hle
    have e2 := (C05_threshold inp.selOut v hv (nDataSrc (flagsOf src.2)) x hxwf hxr hna).2.2.2.2 c0 hc0
    have e3 : (keep inp.selOut (nDataSrc (flagsOf src.2)) (keep inp.selFit (nDataSrc (flagsOf src.2)) x)).chi2
        = (fullRanking3 env inp src.2).chi2.take (nKept3 env inp src.2) := by
      simp [keep, nKept3, List.take_take, x]
    rw [hrows, m2, ← e3, e1, e2]

/-- the per-distance point lists of a cube row have one entry per trial distance -/
theorem cubePss_length (env : P3Env K) (inp : P3Input K) (bands : List (Obs K)) (m : Nat)
    (hm : modelLogFluxes env.lg (cubeTabs env inp m) (distsOf env inp) = .ok (cubeLfs env inp m)) :
    (logdOf env inp).length = (cubePss env inp bands m).length := by
  unfold modelLogFluxes at hm
  have := seqE_length _ _ hm
  simp only [cubePss, logdOf, List.length_map] at this ⊢
  exact this.symm

/-- **E2E3 (grid).**  With `ceilK` the ceiling function, `log10 (10**x) = x` and a positive step:
    * `dmin = dmax` gives the single trial distance `dmin`;
    * for `log10 dmin < log10 dmax` the grid of `log10 d` the fitter holds is the one of `C02_grid`:
      `n = ceil(1 + (log10 dmax − log10 dmin)/step) ≥ 2` points `log10 dmin + i·Δ`,
      `Δ = (log10 dmax − log10 dmin)/(n − 1) ≤ step`, and no grid with spacing `≤ step` is shorter;
    * the grid is a function of `(dmin, dmax, step)` only — the same for every model and every source —
      and, if the pipeline returns, every listed row's scale is the grid value at the best index `i` that
      `fit3` reports for the row's own cube row: `sc = log10 dmin + i·Δ`. -/
theorem E2E3_grid (env : P3Env K) (inp : P3Input K)
    (hc1 : ∀ x, x ≤ (env.ceilK x : K)) (hc2 : ∀ x (m : ℕ), x ≤ (m : K) → env.ceilK x ≤ m)
    (hexp : ∀ x, env.lg (env.exp10 x) = x) (hs : 0 < inp.step) :
    (inp.dmin = inp.dmax → distsOf env inp = [inp.dmin] ∧ logdOf env inp = [env.lg inp.dmin]) ∧
    (env.lg inp.dmin < env.lg inp.dmax →
      2 ≤ env.ceilK (1 + (env.lg inp.dmax - env.lg inp.dmin) / inp.step) ∧
      (logdOf env inp).length = env.ceilK (1 + (env.lg inp.dmax - env.lg inp.dmin) / inp.step) ∧
      (env.lg inp.dmax - env.lg inp.dmin)
          / ((env.ceilK (1 + (env.lg inp.dmax - env.lg inp.dmin) / inp.step) : K) - 1) ≤ inp.step ∧
      (∀ i, i < env.ceilK (1 + (env.lg inp.dmax - env.lg inp.dmin) / inp.step) →
        (logdOf env inp)[i]? = some (env.lg inp.dmin + (i : K) * ((env.lg inp.dmax - env.lg inp.dmin)
          / ((env.ceilK (1 + (env.lg inp.dmax - env.lg inp.dmin) / inp.step) : K) - 1)))) ∧
      (logdOf env inp)[0]? = some (env.lg inp.dmin) ∧
      (logdOf env inp)[env.ceilK (1 + (env.lg inp.dmax - env.lg inp.dmin) / inp.step) - 1]? = some (env.lg inp.dmax) ∧
      (∀ m' : ℕ, 2 ≤ m' → (env.lg inp.dmax - env.lg inp.dmin) / ((m' : K) - 1) ≤ inp.step →
        env.ceilK (1 + (env.lg inp.dmax - env.lg inp.dmin) / inp.step) ≤ m')) ∧
    ∀ (out : P3Out K), runPipeline3 env inp = .ok out → NamesOK3 inp → CubeShape inp.cube →
      (inp.table.map (fun y => strip y.1)).Nodup →
      (inp.dmin = inp.dmax ∨ env.lg inp.dmin < env.lg inp.dmax) →
      out.dists.map env.lg = logdOf env inp ∧
      ∀ (k : Nat) (src : String × List (Obs K)) (L : SrcListing K),
        (fittedSources3 inp)[k]? = some src → out.listings[k]? = some L →
        ∀ row ∈ L.rows, ∃ m, inp.cube.names[m]? = some row.name ∧
          (logdOf env inp)[(cubeFit env inp src.2 m).2.2.2]? = some row.sc ∧
          (env.lg inp.dmin < env.lg inp.dmax →
            row.sc = env.lg inp.dmin + (((cubeFit env inp src.2 m).2.2.2 : ℕ) : K) * ((env.lg inp.dmax - env.lg inp.dmin)
              / ((env.ceilK (1 + (env.lg inp.dmax - env.lg inp.dmin) / inp.step) : K) - 1))) := by
  have hdeg : inp.dmin = inp.dmax → distsOf env inp = [inp.dmin] ∧ logdOf env inp = [env.lg inp.dmin] := by
    intro he
    have := (C02_grid_degenerate env.lg env.exp10 env.ceilK inp.dmin inp.dmax inp.step).1
    have hd : distsOf env inp = [inp.dmin] := by unfold distsOf; rw [← he]; exact this
    exact ⟨hd, by simp [logdOf, hd]⟩
  have hlogd : env.lg inp.dmin < env.lg inp.dmax →
      logdOf env inp = distGrid env.ceilK (env.lg inp.dmin) (env.lg inp.dmax) inp.step := by
    intro hlt
    have hd : inp.dmin ≠ inp.dmax := by
      intro e; rw [e] at hlt; exact lt_irrefl _ hlt
    have := (C02_grid_degenerate env.lg env.exp10 env.ceilK inp.dmin inp.dmax inp.step).2 hd
    unfold logdOf distsOf
    rw [this, List.map_map]
    conv => rhs; rw [← List.map_id (distGrid env.ceilK (env.lg inp.dmin) (env.lg inp.dmax) inp.step)]
    apply List.map_congr_left
    intro x _
    simp [hexp]
  have hgrid : env.lg inp.dmin < env.lg inp.dmax → _ := fun hlt =>
    C02_grid env.ceilK hc1 hc2 (env.lg inp.dmin) (env.lg inp.dmax) inp.step hlt hs
  refine ⟨hdeg, ?_, ?_⟩
  · intro hlt
    obtain ⟨g1, g2, g3, g4, g5, g6, g7⟩ := hgrid hlt
    rw [hlogd hlt]
    exact ⟨g1, g2, g6, g3, g4, g5, g7⟩
  · intro out h hN hS hT hrange
    obtain ⟨-, ⟨hdists, -, -, hmod⟩, -, hint⟩ := E2E3_row_integrity env inp out h hN hS hT
    refine ⟨by rw [hdists]; rfl, ?_⟩
    intro k src L hsrc hL row hrow
    obtain ⟨-, hr⟩ := hint k src L hsrc hL
    obtain ⟨m, hname, -, -, -, -, hsc, -⟩ := hr row hrow
    obtain ⟨-, hall, -⟩ := hmod m row.name hname
    have hlen := cubePss_length env inp src.2 m hall
    -- the grid is not empty
    have hne : cubePss env inp src.2 m ≠ [] := by
      intro he
      rw [he] at hlen
      rcases hrange with he' | hlt
      · rw [(hdeg he').2] at hlen; simp at hlen
      · obtain ⟨g1, g2, -⟩ := hgrid hlt
        rw [hlogd hlt, g2] at hlen
        simp at hlen; omega
    obtain ⟨before, ps, after, hb, hpss, hfit, -, -⟩ := fit3_spec env.big env.ln1m inp.lo inp.hi (logdOf env inp)
      (cubePss env inp src.2 m) hne hlen
    have hcf : cubeFit env inp src.2 m
        = (clipAv inp.lo inp.hi (optAv ps), (logdOf env inp)[before.length], chiAt env.big env.ln1m inp.lo inp.hi ps,
            before.length) := hfit
    have hidx : (logdOf env inp)[(cubeFit env inp src.2 m).2.2.2]? = some row.sc := by
      rw [hsc, hcf]
      exact List.getElem?_eq_getElem hb
    refine ⟨m, hname, hidx, ?_⟩
    intro hlt
    obtain ⟨-, g2, g3, -⟩ := hgrid hlt
    have hi : (cubeFit env inp src.2 m).2.2.2 < env.ceilK (1 + (env.lg inp.dmax - env.lg inp.dmin) / inp.step) := by
      rw [hcf, ← g2, ← hlogd hlt]; exact hb
    have := g3 _ hi
    rw [← hlogd hlt, hidx] at this
    exact Option.some.inj this

/-- **E2E3 (slice).**  For a cube of the property's domain (`CubeOK`: one strictly monotone wavelength axis in
    EITHER stored order, rows of that length) and a requested wavelength `λ₀`, there is a tabulated wavelength
    `wr` — nearest to `λ₀`, and the largest such if two are equally near; so `wr` is determined by the SET of
    tabulated wavelengths and `λ₀`, not by the stored order — such that the table of the entry `λ₀` is, row by
    row and aperture by aperture, exactly the INPUT cube's cells at wavelength value `wr`
    (`val[m, ia, ·]`, and `unc[m, ia, ·]` for the error column): `nearestIdx` on the axis as read,
    composed with the spectral-axis reversal of `SEDCube.read` (`C12_cube_cell`, `C16_nearest`).
    The same holds for the table in the pipeline's output, whose recorded wavelength is `λ₀` itself. -/
theorem E2E3_slice (env : P3Env K) (inp : P3Input K) (hC : RT.CubeOK env.toNu inp.cube) (w0 : K) :
    ∃ wr, wr ∈ inp.cube.wav ∧ (∀ w ∈ inp.cube.wav, |wr - w0| ≤ |w - w0|) ∧
      (∀ w ∈ inp.cube.wav, |w - w0| = |wr - w0| → w ≤ wr) ∧
      (∀ (m ia : Nat) (v : K), m < inp.cube.val.length →
        ((entryRow env inp (.mono w0) m)[ia]? = some v ↔ RT.cubeVal inp.cube m ia wr = some v)) ∧
      (∀ u, inp.cube.unc = some u → ∀ (m ia : Nat) (v : K), m < u.length →
        ((entryErr env inp (.mono w0) m)[ia]? = some v ↔ RT.cubeUnc inp.cube m ia wr = some v)) ∧
      ∀ (out : P3Out K), runPipeline3 env inp = .ok out → NamesOK3 inp → CubeShape inp.cube →
        (inp.table.map (fun y => strip y.1)).Nodup →
        ∀ (j : Nat) (θ : K) (c : Conv K (List K)), inp.filters[j]? = some ⟨.mono w0, θ⟩ → out.conv[j]? = some c →
          c.filtwav = w0 ∧
          ∀ (m ia : Nat) (v : K), m < inp.cube.names.length →
            (((c.flux[m]?).bind (fun r => r[ia]?) = some v ↔ RT.cubeVal inp.cube m ia wr = some v) ∧
             ((c.error[m]?).bind (fun r => r[ia]?) = some v ↔ RT.cubeUnc inp.cube m ia wr = some v)) := by
  obtain ⟨rd, hrd, -, -, -, hcell, hdec, hne, hmem, hrowsV, hrowsU, hvlen, hunc⟩ := readCube_ok env.toNu inp.cube hC
  have hrdc : rdCube env inp = rd := by simp [rdCube, hrd]
  obtain ⟨j, hj⟩ := (C16_nearest rd.wav w0).1 hne
  obtain ⟨wr, hwr, hmin, hlargest⟩ := nearest_largest rd.wav hdec w0 j hj
  have hnd : rd.wav.Nodup := RT.nodup_of_dec _ hdec
  have hval : ∀ (m ia : Nat) (v : K), m < inp.cube.val.length →
      ((entryRow env inp (.mono w0) m)[ia]? = some v ↔ RT.cubeVal inp.cube m ia wr = some v) := by
    intro m ia v _
    rw [← (hcell m ia wr).1]
    have : RT.cubeVal rd m ia wr = ((rd.val.getD m [])[ia]?).map (fun row => row.getD j 0) :=
      slab_col rd.wav hnd rd.val hrowsV j wr hwr m ia
    rw [this]
    simp only [entryRow, hrdc, hj, List.getElem?_map]
  have herr : ∀ u, inp.cube.unc = some u → ∀ (m ia : Nat) (v : K), m < u.length →
      ((entryErr env inp (.mono w0) m)[ia]? = some v ↔ RT.cubeUnc inp.cube m ia wr = some v) := by
    intro u hu m ia v _
    obtain ⟨u', hu', -⟩ := hunc u hu
    rw [← (hcell m ia wr).2]
    have : RT.cubeUnc rd m ia wr = ((u'.getD m [])[ia]?).map (fun row => row.getD j 0) := by
      unfold RT.cubeUnc
      rw [hu', Option.bind_some]
      exact slab_col rd.wav hnd u' (hrowsU u' hu') j wr hwr m ia
    rw [this]
    simp only [entryErr, hrdc, hu', Option.getD_some, hj, List.getElem?_map]
  refine ⟨wr, (hmem wr).mp (List.mem_of_getElem? hwr), fun w hw => hmin w ((hmem w).mpr hw),
    fun w hw => hlargest w ((hmem w).mpr hw), hval, herr, ?_⟩
  intro out h hN hS hT jj θ c hf hc
  obtain ⟨⟨-, htab⟩, -, -, -⟩ := E2E3_row_integrity env inp out h hN hS hT
  obtain ⟨hw, -, -, -, hrows⟩ := htab jj _ c hf hc
  refine ⟨hw, ?_⟩
  intro m ia v hm
  obtain ⟨hfl, her⟩ := hrows m hm
  simp only at hfl her
  rw [hfl, her, Option.bind_some, Option.bind_some]
  constructor
  · exact hval m ia v (by rw [hS.1]; exact hm)
  · obtain ⟨cube, unc, hrd2, hunc2, -⟩ := runPipeline3_ok env inp out h hN hS
    rw [hrd] at hrd2
    cases hrd2
    obtain ⟨-, -, -, huu⟩ := readCube_names env.toNu inp.cube rd hrd
    obtain ⟨u0, hu0, -⟩ := huu unc hunc2
    exact herr u0 hu0 m ia v (by rw [hS.2 u0 hu0]; exact hm)

/-- **E2E3 (planted model).**  Corollary of row integrity, ranking and `C08_exact3_fit3`.  Let the pipeline
    return, let `m` be a row of the cube (named `X`), and let the photometry of a fitted source be exactly
    row `m`'s model fluxes at trial distance `i0` (interpolated to `θ·d`, scaled by `d⁻²`) reddened by `a0`
    (`r = a0·k` on every fitted band of `m`'s points at distance `i0`), some fitted band with `k ≠ 0`,
    `lo ≤ a0 ≤ hi`, no limit violated at `a0`, confidences of the source's limits with `ln(1 − c) ≤ 0`,
    earlier trial distances of `m` and every other cube row with chi² > 0 for this source.  Then, if anything
    is listed for the source, row 0 of its block is fit 1, names `X`, reports exactly
    `(a0, logd[i0], 0)` — `logd[i0]` the grid value of `E2E3_grid` — and prints `X`'s own parameter row. -/
theorem E2E3_planted (env : P3Env K) (inp : P3Input K) (out : P3Out K)
    (h : runPipeline3 env inp = .ok out) (hN : NamesOK3 inp) (hS : CubeShape inp.cube)
    (hT : (inp.table.map (fun y => strip y.1)).Nodup) (hbig : 0 ≤ env.big)
    (k : Nat) (src : String × List (Obs K)) (L : SrcListing K)
    (hsrc : (fittedSources3 inp)[k]? = some src) (hL : out.listings[k]? = some L)
    (m : Nat) (X : String) (hX : inp.cube.names[m]? = some X)
    (a0 : K) (i0 : Nat) (ps : List (Pt K)) (hps : (cubePss env inp src.2 m)[i0]? = some ps)
    (hex : ∀ p ∈ ps, p.w ≠ 0 → p.r = a0 * p.k)
    (hk : sumBy (fun p => p.k * p.k * p.w) ps ≠ 0) (hlo : inp.lo ≤ a0) (hhi : a0 ≤ inp.hi)
    (hnf : ∀ p ∈ ps, ¬ forbidden a0 0 p)
    (hconf : ∀ o ∈ src.2, (o.flag = 2 ∨ o.flag = 3) → o.err ≠ 1 → env.ln1m o.err ≤ 0)
    (hbefore : ∀ j < i0, ∀ x,
      (fit3PerDist env.big env.ln1m inp.lo inp.hi (cubePss env inp src.2 m))[j]? = some x → 0 < x.2)
    (hothers : ∀ m', m' < inp.cube.names.length → m' ≠ m → 0 < (cubeFit env inp src.2 m').2.2.1)
    (hne : L.rows ≠ []) :
    ∃ row, L.rows.head? = some row ∧ row.fitId = 1 ∧ row.name = X ∧
      row.av = a0 ∧ (logdOf env inp)[i0]? = some row.sc ∧ row.chi2 = EF.fin 0 ∧
      (∃ y ∈ inp.table, strip y.1 = X ∧ y.2 = row.pars) ∧
      (∀ y ∈ inp.table, strip y.1 = X → y.2 = row.pars) := by
  have hm : m < inp.cube.names.length := (List.getElem?_eq_some_iff.mp hX).1
  -- the planted row's own fit (C08)
  have hwf : ∀ qs ∈ cubePss env inp src.2 m, WF qs := by
    intro qs hqs
    obtain ⟨lf, -, rfl⟩ := List.mem_map.mp hqs
    exact (C03_weights env.lg env.ln10).2 src.2 (ksIn3 inp) lf
  have hc : ∀ qs ∈ cubePss env inp src.2 m, ∀ p ∈ qs, (p.flag = 2 ∨ p.flag = 3) → p.e ≠ 1 → env.ln1m p.e ≤ 0 := by
    intro qs hqs p hp hfl hne1
    obtain ⟨lf, -, rfl⟩ := List.mem_map.mp hqs
    obtain ⟨l, hl, mf, kk, rfl⟩ := mem_mkPts hp
    obtain ⟨o, ho, rfl⟩ := List.mem_map.mp hl
    simp only at hfl hne1 ⊢
    have hof : o.flag = 2 ∨ o.flag = 3 := by rwa [logTransform_flag] at hfl
    have hle : (logTransform env.lg env.ln10 o).le = o.err := by
      unfold logTransform
      have h1 : o.flag ≠ 1 := by rcases hof with h | h <;> omega
      simp [h1, hof]
    rw [hle] at hne1 ⊢
    exact hconf o ho hof hne1
  have hmfit : cubeFit env inp src.2 m = (a0, (logdOf env inp).getD i0 0, 0, i0) :=
    C08_exact3_fit3 env.big env.ln1m hbig inp.lo inp.hi a0 (logdOf env inp) (cubePss env inp src.2 m) i0 ps hps
      hex hk hlo hhi hnf hwf hc hbefore
  obtain ⟨row, rest, hrows⟩ := List.exists_cons_of_ne_nil hne
  obtain ⟨-, ⟨-, hdne, -, hmod⟩, -, hint⟩ := E2E3_row_integrity env inp out h hN hS hT
  have hG : GridOK env inp := ⟨hdne, fun m' hm' => by
    obtain ⟨X', hX'⟩ : ∃ X', inp.cube.names[m']? = some X' := ⟨_, List.getElem?_eq_getElem hm'⟩
    exact (hmod m' X' hX').2.1⟩
  obtain ⟨-, hrow⟩ := hint k src L hsrc hL
  obtain ⟨m', hm'n, huniq, hy1, hy2, hav, hsc, hchi⟩ := hrow row (by rw [hrows]; simp)
  obtain ⟨-, -, -, -, -, hid, -, hchis, -, -, -, hranked, -⟩ := E2E3_ranked env inp out h hN hS k src L hsrc hL
  have hmem := rank3_chi2_mem env inp hG src.2 m hm
  rw [hmfit] at hmem
  have hm'lt : m' < inp.cube.names.length := (List.getElem?_eq_some_iff.mp hm'n).1
  have hmm : m' = m := by
    by_contra hne'
    have hpos := hothers m' hm'lt hne'
    rw [hrows, List.map_cons] at hchis
    cases hfull : (fullRanking3 env inp src.2).chi2 with
    | nil => rw [hfull] at hmem; simp at hmem
    | cons c0 cs =>
      rw [hfull] at hchis hmem hranked
      have hc0 : c0 = row.chi2 := by
        cases hn : L.nFits with
        | zero => rw [hn] at hchis; simp at hchis
        | succ n => rw [hn, List.take_succ_cons] at hchis; exact (List.cons.inj hchis).1.symm
      rcases List.mem_cons.mp hmem with h0 | h0
      · rw [← h0, hchi] at hc0
        simp only [EF.fin.injEq] at hc0
        rw [← hc0] at hpos; exact lt_irrefl _ hpos
      · have hle := (List.pairwise_cons.mp hranked).1 _ h0
        rw [hc0, hchi] at hle
        simp only [EF.leSort, decide_eq_true_eq] at hle
        exact absurd hpos (not_lt.mpr hle)
  subst hmm
  have hname : row.name = X := by rw [hm'n] at hX; exact Option.some.inj hX
  have hlen := cubePss_length env inp src.2 m' (hmod m' X hX).2.1
  have hi0 : i0 < (logdOf env inp).length := by rw [hlen]; exact (List.getElem?_eq_some_iff.mp hps).1
  refine ⟨row, by rw [hrows]; rfl, ?_, hname, ?_, ?_, ?_, ?_, ?_⟩
  · rw [hrows, List.map_cons] at hid
    cases hn : L.nFits with
    | zero => rw [hn] at hid; simp at hid
    | succ n =>
      rw [hn, List.range_succ_eq_map, List.map_cons] at hid
      exact (List.cons.inj hid).1
  · rw [hav, hmfit]
  · rw [hsc, hmfit]; simp [List.getD_eq_getElem?_getD, List.getElem?_eq_getElem hi0]
  · rw [hchi, hmfit]
  · rw [← hname]; exact hy1
  · rw [← hname]; exact hy2

/-- **E2E3 (stored spectral order).**  Storing the cube in the other spectral order (wavelength axis and
    the spectral axis of `val` / `unc` reversed together) changes NOTHING in the pipeline's output:
    both are read back as the same object (`C12_cube_cell`, `C12_other_order_cube`). -/
theorem E2E3_stored_order (env : P3Env K) (inp : P3Input K) (hC : RT.CubeOK env.toNu inp.cube) :
    runPipeline3 env { inp with cube := RT.reverseSpectralCube inp.cube } = runPipeline3 env inp := by
  have := readCube_reverse env.toNu inp.cube hC
  unfold runPipeline3
  simp only [this]
  rfl

/-- **E2E3 (the pipeline returns on its domain).**  Cube names distinct / unpadded / ≤ 30 characters, one
    slab per name, a strictly monotone wavelength axis in either stored order with rows of that length,
    uncertainties present, `parameters.fits` in cube order, at least two increasing apertures and one
    aperture row per aperture, at least one entry, no empty filter, every tabulated model flux positive,
    at least one trial distance (`E2E3_grid`: `dmin = dmax` gives one, `log10 dmin < log10 dmax` at least two),
    and `θ·d` not below the smallest aperture at any trial distance (the quantifier of C02): then
    `runPipeline3` returns — for any sources, any selectors, any `A_V` range.
    (This discharges the "if the pipeline returns" of the theorems above.) -/
theorem E2E3_returns (env : P3Env K) (inp : P3Input K) (hN : NamesOK3 inp) (hS : CubeShape inp.cube)
    (hC : RT.CubeOK env.toNu inp.cube)
    (hunc : ∃ u, inp.cube.unc = some u)
    (htab : inp.table.map (·.1) = inp.cube.names)
    (a0 : K) (t : List K) (haps : inp.cube.aps = some (a0 :: t)) (ht : t ≠ []) (hinc : Incr (a0 :: t))
    (hvap : ∀ mm ∈ inp.cube.val, mm.length = (a0 :: t).length)
    (hfne : inp.filters ≠ [])
    (hflt : ∀ f ∈ inp.filters, ∀ g, f.entry = .band g → held g ≠ [])
    (hpos : ∀ f ∈ inp.filters, ∀ m, m < inp.cube.names.length → ∀ x ∈ entryRow env inp f.entry m, 0 < x)
    (hd : distsOf env inp ≠ [])
    (hreach : ∀ f ∈ inp.filters, ∀ d ∈ distsOf env inp, a0 ≤ f.theta * (thousandK * d)) :
    ∃ out, runPipeline3 env inp = .ok out :=
  runPipeline3_live env inp hN hS hC hunc htab a0 t haps ht hinc hvap hfne hflt hpos hd hreach

/-! ### Non-vacuity: a concrete 2-model, 2-aperture cube (over ℚ) meets every hypothesis above

Cube rows `mb, ma` (cube order is not name order), wavelengths stored increasing `[1, 2, 4]` (so the reader
reverses the spectral axis), apertures `[100, 1000]` AU, parameter rows in cube order; two entries: the
wavelength `2` with `θ = 1/5` (`θ·d` inside the aperture table) and a flat broadband filter over the whole
axis with `θ = 2` (`θ·d` beyond the largest aperture); distance range `1 … 2` with step `1/2` (three trial
distances); one source planted from `ma` at the middle distance with `A_V = 1`, one source below
`n_data_min`.  `lg` and `10**x` are instantiated by the identity (the theorems hold for every pair with
`lg (exp10 x) = x`), `ceilK` by the ceiling function. -/

def e3Env : P3Env Rat :=
  { lg := fun x => x, exp10 := fun x => x, ln10 := 2, big := 1000, ln1m := fun c => -c,
    ceilK := fun x => ⌈x⌉₊, toNu := fun w => 1 / w }
def e3Cube : RT.Cube Rat :=
  { names := ["mb", "ma"], wav := [1, 2, 4], aps := some [100, 1000],
    val := [[[2, 4, 6], [4, 8, 12]], [[1, 3, 5], [3, 9, 15]]],
    unc := some [[[1, 1, 1], [1, 1, 1]], [[1, 1, 2], [1, 1, 1]]] }
def e3Band : PFilter Rat := ⟨false, [(1/4, 1), (1, 1)], 1⟩
def e3Bands : List (Obs Rat) := [⟨4, 493/270, 1⟩, ⟨4, 37/15, 1/2⟩]
def e3Inp : P3Input Rat :=
  { cube := e3Cube
    table := [("mb", [20, 1]), ("ma", [10, 2])]
    filters := [⟨.mono 2, 1/5⟩, ⟨.band e3Band, 2⟩]
    ext := [(1/2, 4), (1, 2), (2, 1), (4, 1/2)], v := 1/2
    dmin := 1, dmax := 2, step := 1/2
    sources := [("s1", e3Bands), ("s2", [⟨1, 3, 1⟩, ⟨0, 0, 0⟩])]
    lo := 0, hi := 5, nDataMin := 2, selFit := Sel.A, selOut := Sel.N 2 }

theorem e3_names : NamesOK3 e3Inp := by
  refine ⟨by decide, ?_⟩
  intro n hn
  simp only [e3Inp, e3Cube, List.mem_cons, List.not_mem_nil, or_false] at hn
  rcases hn with rfl | rfl <;> exact ⟨by decide, by decide⟩

theorem e3_shape : CubeShape e3Inp.cube := ⟨rfl, fun u hu => by cases hu; rfl⟩

theorem e3_cubeOK : RT.CubeOK e3Env.toNu e3Inp.cube := by
  refine ⟨by decide, Or.inl (by decide +kernel), by decide +kernel, by decide, ?_⟩
  intro u hu
  cases hu
  decide

theorem e3_table : (e3Inp.table.map (fun y => strip y.1)).Nodup := by decide

/-- the laws assumed of `ceilK`, `lg`, `exp10` hold for the instances of the example -/
theorem e3_laws : (∀ x : ℚ, x ≤ ((e3Env.ceilK x : ℕ) : ℚ)) ∧ (∀ (x : ℚ) (m : ℕ), x ≤ (m : ℚ) → e3Env.ceilK x ≤ m) ∧
    (∀ x, e3Env.lg (e3Env.exp10 x) = x) :=
  ⟨fun x => Nat.le_ceil x, fun x m h => Nat.ceil_le.mpr h, fun _ => rfl⟩

/-- the example package is in the domain of `E2E3_returns`: the pipeline returns on it -/
theorem e3_returns : ∃ out, runPipeline3 e3Env e3Inp = .ok out := by
  refine E2E3_returns e3Env e3Inp e3_names e3_shape e3_cubeOK ⟨_, rfl⟩ (by decide) 100 [1000] rfl (by decide)
    (by simp [Incr]; norm_num) (by decide) (by decide) ?_ ?_ (by decide +kernel) ?_
  · intro f hf g hg
    simp only [e3Inp, List.mem_cons, List.not_mem_nil, or_false] at hf
    rcases hf with rfl | rfl
    · cases hg
    · cases hg; decide +kernel
  · decide +kernel
  · decide +kernel

theorem e3_fitted : fittedSources3 e3Inp = [("s1", e3Bands)] := rfl

/-- the grid of the example: three trial distances -/
theorem e3_grid : logdOf e3Env e3Inp = [1, 3/2, 2] := by decide +kernel

/-- hypotheses of `E2E3_planted` for the source `s1`, planted from cube row 1 (`ma`) at trial distance 1
    with `a0 = 1` -/
theorem e3_planted_hyps :
    ∃ ps, (cubePss e3Env e3Inp e3Bands 1)[1]? = some ps ∧
      (∀ p ∈ ps, p.w ≠ 0 → p.r = 1 * p.k) ∧ sumBy (fun p => p.k * p.k * p.w) ps ≠ 0 ∧
      (∀ p ∈ ps, ¬ forbidden 1 0 p) ∧
      (∀ j < 1, ∀ x, (fit3PerDist e3Env.big e3Env.ln1m e3Inp.lo e3Inp.hi (cubePss e3Env e3Inp e3Bands 1))[j]? = some x
        → 0 < x.2) ∧
      (∀ m', m' < e3Inp.cube.names.length → m' ≠ 1 → 0 < (cubeFit e3Env e3Inp e3Bands m').2.2.1) := by
  have hlen : 1 < (cubePss e3Env e3Inp e3Bands 1).length := by decide +kernel
  refine ⟨(cubePss e3Env e3Inp e3Bands 1).getD 1 [],
    by rw [List.getD_eq_getElem?_getD, List.getElem?_eq_getElem hlen]; rfl, by decide +kernel, by decide +kernel,
    ?_, ?_, ?_⟩
  · simp only [forbidden]; decide +kernel
  · intro j hj x hx
    have hj0 : j = 0 := by omega
    subst hj0
    have h0 : 0 < (fit3PerDist e3Env.big e3Env.ln1m e3Inp.lo e3Inp.hi (cubePss e3Env e3Inp e3Bands 1)).length := by
      decide +kernel
    have hx' : x = (fit3PerDist e3Env.big e3Env.ln1m e3Inp.lo e3Inp.hi (cubePss e3Env e3Inp e3Bands 1)).getD 0 (0, 0) := by
      rw [List.getD_eq_getElem?_getD, hx]; rfl
    rw [hx']
    decide +kernel
  · intro m' hm' hne
    have : m' = 0 := by
      have : m' < 2 := hm'
      omega
    subst this
    decide +kernel

/-- both selectors keep both fits of `s1` (`('A', ·)` then `('N', 2)`) -/
theorem e3_nKept : nKept3 e3Env e3Inp e3Bands = 2 := by
  have hM := (rank3_wf e3Env e3Inp.lo e3Inp.hi (logdOf e3Env e3Inp) (ksIn3 e3Inp) (lmodelsOf3 e3Env e3Inp) e3Bands).2.2
  have h2 : (lmodelsOf3 e3Env e3Inp).length = 2 := rfl
  rw [h2] at hM
  unfold nKept3 fullRanking3
  simp only
  match hc : (rankSource3 e3Env e3Inp.lo e3Inp.hi (logdOf e3Env e3Inp) (ksIn3 e3Inp) (lmodelsOf3 e3Env e3Inp) e3Bands).chi2, hM with
  | [c0, c1], _ => simp [nFits, e3Inp]

/-- the conclusions of the theorems on the example: the entry `2` is the cube column at wavelength 2
    (stored increasing, read reversed); the grid is `1, 3/2, 2`; the block of `s1` lists `ma` first with exactly
    `(1, 3/2, 0)` and `ma`'s parameters `[10, 2]`; and the output is the same for the cube stored in the other
    spectral order -/
example (out : P3Out Rat) (h : runPipeline3 e3Env e3Inp = .ok out) :
    (∃ c, out.conv[0]? = some c ∧ c.filtwav = 2 ∧ c.names = ["mb", "ma"] ∧ c.flux = [[4, 8], [3, 9]]) ∧
    out.dists = [1, 3/2, 2] ∧
    (∃ L, out.listings[0]? = some L ∧ L.source = "s1" ∧ L.nData = 2 ∧ L.nFits = 2 ∧
      ∃ row, L.rows.head? = some row ∧ row.fitId = 1 ∧ row.name = "ma" ∧ row.av = 1 ∧ row.sc = 3 / 2 ∧
        row.chi2 = EF.fin 0 ∧ row.pars = [10, 2]) ∧
    runPipeline3 e3Env { e3Inp with cube := RT.reverseSpectralCube e3Inp.cube } = .ok out := by
  obtain ⟨ps, hps, hex, hk, hnf, hbefore, hothers⟩ := e3_planted_hyps
  obtain ⟨⟨hclen, htab⟩, ⟨hdists, -, -, -⟩, hlen, hint⟩ := E2E3_row_integrity e3Env e3Inp out h e3_names e3_shape e3_table
  rw [e3_fitted] at hlen
  refine ⟨?_, by rw [hdists]; decide +kernel, ?_, by rw [E2E3_stored_order e3Env e3Inp e3_cubeOK]; exact h⟩
  · obtain ⟨c, hc⟩ : ∃ c, out.conv[0]? = some c := by
      cases hl : out.conv with
      | nil => rw [hl] at hclen; simp [e3Inp] at hclen
      | cons a t => exact ⟨a, rfl⟩
    obtain ⟨h1, h2, -, h4, h5⟩ := htab 0 ⟨.mono 2, 1/5⟩ c rfl hc
    refine ⟨c, hc, h1, h2, ?_⟩
    have r0 := (h5 0 (by decide)).1
    have r1 := (h5 1 (by decide)).1
    have hl2 : c.flux.length = 2 := h4
    match hf : c.flux, hl2 with
    | [x0, x1], _ =>
      rw [hf] at r0 r1
      simp only [List.getElem?_cons_zero, List.getElem?_cons_succ, Option.some.injEq] at r0 r1
      rw [r0, r1]
      decide +kernel
  · obtain ⟨L, hL⟩ : ∃ L, out.listings[0]? = some L := by
      cases hl : out.listings with
      | nil => rw [hl] at hlen; simp at hlen
      | cons a t => exact ⟨a, rfl⟩
    have hsrc : (fittedSources3 e3Inp)[0]? = some ("s1", e3Bands) := by rw [e3_fitted]; rfl
    obtain ⟨hsource, -⟩ := hint 0 _ L hsrc hL
    obtain ⟨-, -, hrl, hnf2, hnd, -⟩ := E2E3_ranked e3Env e3Inp out h e3_names e3_shape 0 _ L hsrc hL
    have hnfits : L.nFits = 2 := by rw [hnf2, e3_nKept]; rfl
    have hne : L.rows ≠ [] := by
      intro he; rw [he, hnfits] at hrl; simp at hrl
    obtain ⟨row, hrow, hid, hname, hav, hsc, hchi, -, hpars⟩ := E2E3_planted e3Env e3Inp out h e3_names e3_shape e3_table
      (by decide +kernel) 0 _ L hsrc hL 1 "ma" rfl 1 1 ps hps hex hk (by decide +kernel) (by decide +kernel) hnf
      (by decide +kernel) hbefore hothers hne
    refine ⟨L, hL, hsource, by rw [hnd]; rfl, hnfits, row, hrow, hid, hname, hav, ?_, hchi, ?_⟩
    · rw [e3_grid] at hsc
      simpa using hsc.symm
    · exact (hpars ("ma", [10, 2]) (by decide) (by decide)).symm

/-- … and such an `out` exists -/
example : ∃ out, runPipeline3 e3Env e3Inp = .ok out := e3_returns

/-- the grid theorem on the example: `n = 3` points `1 + i/2` -/
example : e3Env.ceilK (1 + (e3Env.lg e3Inp.dmax - e3Env.lg e3Inp.dmin) / e3Inp.step) = 3 ∧
    e3Env.lg e3Inp.dmin < e3Env.lg e3Inp.dmax ∧ 0 < e3Inp.step := by
  refine ⟨by decide +kernel, by decide +kernel, by decide +kernel⟩

/-- the slice theorem on the example: for `λ₀ = 3` (midway between the tabulated 2 and 4) the larger one, 4, is taken -/
example : ∃ wr, wr ∈ e3Inp.cube.wav ∧ (∀ w ∈ e3Inp.cube.wav, |wr - 3| ≤ |w - 3|) ∧
    (∀ w ∈ e3Inp.cube.wav, |w - 3| = |wr - 3| → w ≤ wr) ∧ wr = 4 := by
  obtain ⟨wr, h1, h2, h3, -⟩ := E2E3_slice e3Env e3Inp e3_cubeOK 3
  refine ⟨wr, h1, h2, h3, ?_⟩
  have h4 : (4 : ℚ) ∈ e3Inp.cube.wav := by decide
  have h5 : (2 : ℚ) ∈ e3Inp.cube.wav := by decide
  have a := h2 4 h4
  have hle := h3 4 h4
  simp only [e3Inp, e3Cube, List.mem_cons, List.not_mem_nil, or_false] at h1
  rcases h1 with rfl | rfl | rfl
  · norm_num at a
  · have := hle (by norm_num)
    norm_num at this
  · rfl

end SF
