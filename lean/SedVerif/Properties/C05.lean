import SedVerif.Proofs.Select
import SedVerif.Properties.C04
/-!
# C05 — selection tuples keep exactly the fits the syntax page promises

Property theorems only.  Model: `SedVerif/Model/Select.lean` (`nDataSrc`, `nFits`, `keep` =
`FitInfo.keep`).  chi² vectors range over the extended floats (ties, `±inf`, NaN), thresholds over
the extended floats too; `n_data` over all naturals (0 included: IEEE division by zero).

`Ranked` is "a ranked result" (what `FitInfo.sort` produces: `C04_sorted`); `NonAttained` is the
quantifier's "thresholds avoid exact equality with an attained value"; `WFInfo` says the per-fit
arrays have one entry per fit (what `Models.fit` + `FitInfo.sort` produce: `C04_perm`).
-/
namespace SF
variable {K : Type} [Field K] [LinearOrder K] [IsStrictOrderedRing K]

/-- a ranked chi² vector: numpy sort order (non-decreasing, `+inf` after finite values, NaN last) -/
def Ranked (chi2 : List (EF K)) : Prop := chi2.Pairwise (fun a b => EF.leSort a b = true)

/-- no fit's criterion value is (IEEE-)equal to the selector's threshold; vacuous for `A` and `N` -/
def NonAttained (s : Sel K) (nd : Nat) (chi2 : List (EF K)) : Prop :=
  ∀ v, s.thr = some v → ∀ c0, chi2.head? = some c0 → ∀ c ∈ chi2, EF.eq (crit s nd c0 c) v = false

/-- every per-fit array has one entry per fit -/
def WFInfo (x : FitRows K) : Prop :=
  x.av.length = x.chi2.length ∧ x.sc.length = x.chi2.length ∧ x.name.length = x.chi2.length ∧
  x.modelId.length = x.chi2.length ∧ ∀ fl, x.fluxes = some fl → fl.length = x.chi2.length

/-- every array of `y` is the array of `x` cut to its first `n` entries -/
def CutTo (n : Nat) (x y : FitRows K) : Prop :=
  y.av = x.av.take n ∧ y.sc = x.sc.take n ∧ y.chi2 = x.chi2.take n ∧ y.name = x.name.take n ∧
  y.modelId = x.modelId.take n ∧ y.fluxes = x.fluxes.map (fun fl => fl.take n)

/-- every array of `y` has exactly `n` entries -/
def AllLen (n : Nat) (y : FitRows K) : Prop :=
  y.av.length = n ∧ y.sc.length = n ∧ y.chi2.length = n ∧ y.name.length = n ∧ y.modelId.length = n ∧
  ∀ fl, y.fluxes = some fl → fl.length = n

theorem keep_cutTo (s : Sel K) (nd : Nat) (x : FitRows K) : CutTo (nFits s nd x.chi2) x (keep s nd x) :=
  ⟨rfl, rfl, rfl, rfl, rfl, rfl⟩

theorem cutTo_allLen {n : Nat} {x y : FitRows K} (hwf : WFInfo x) (h : CutTo n x y) :
    AllLen (min n x.chi2.length) y := by
  obtain ⟨h1, h2, h3, h4, h5⟩ := hwf
  obtain ⟨e1, e2, e3, e4, e5, e6⟩ := h
  refine ⟨by simp [e1, h1], by simp [e2, h2], by simp [e3], by simp [e4, h3], by simp [e5, h4], ?_⟩
  intro fl hfl
  rw [e6] at hfl
  cases hx : x.fluxes with
  | none => simp [hx] at hfl
  | some fl0 =>
    simp [hx] at hfl
    subst hfl
    simp [h5 fl0 hx]

theorem nFits_le_of_thr (s : Sel K) (v : EF K) (hs : s.thr = some v) (nd : Nat) (chi2 : List (EF K)) :
    nFits s nd chi2 ≤ chi2.length := by
  cases chi2 with
  | nil => simp [nFits]
  | cons c0 t =>
    rw [nFits_crit s v hs]
    exact List.length_filter_le _ _

/-- **C05 (domain).** The hypotheses `WFInfo` and `Ranked` of the theorems below are what
    `FitInfo.sort` establishes (C04) and what `keep` preserves — so they hold along every history
    `sort, keep s₁, keep s₂, …`. -/
theorem C05_domain (x : FitRows K) :
    (WFRows x → WFInfo (sortRows x) ∧ Ranked (sortRows x).chi2) ∧
    (∀ (s : Sel K) (nd : Nat), WFInfo x → Ranked x.chi2 →
      WFInfo (keep s nd x) ∧ Ranked (keep s nd x).chi2) := by
  refine ⟨?_, ?_⟩
  · intro hwf
    obtain ⟨h1, h2, h3, h4⟩ := hwf
    have hl := argsortEF_length x.chi2
    refine ⟨⟨?_, ?_, ?_, ?_, ?_⟩, (C04_sorted x).1⟩
    · simp [sortRows, fancyIndex_length]
    · simp [sortRows, fancyIndex_length]
    · simp [sortRows, fancyIndex_length]
    · simp [sortRows, fancyIndex_length]
    · intro fl hfl
      cases hx : x.fluxes with
      | none => simp [sortRows, hx] at hfl
      | some fl0 =>
        simp [sortRows, hx] at hfl
        subst hfl
        simp [sortRows, fancyIndex_length]
  · intro s nd hwf hr
    have hall := cutTo_allLen hwf (keep_cutTo s nd x)
    obtain ⟨a1, a2, a3, a4, a5, a6⟩ := hall
    refine ⟨⟨by rw [a1, a3], by rw [a2, a3], by rw [a4, a3], by rw [a5, a3], ?_⟩, ?_⟩
    · intro fl hfl; rw [a6 fl hfl, a3]
    · exact List.Pairwise.sublist (List.take_sublist _ _) hr

/-- **C05 (`('A', ·)` keeps everything).** -/
theorem C05_all (nd : Nat) (x : FitRows K) (hwf : WFInfo x) : keep Sel.A nd x = x := by
  have hn : nFits Sel.A nd x.chi2 = x.chi2.length := by
    cases h : x.chi2 <;> simp [nFits]
  obtain ⟨h1, h2, h3, h4, h5⟩ := hwf
  obtain ⟨av, sc, chi2, name, fluxes, modelId⟩ := x
  simp only at h1 h2 h3 h4 h5 hn
  simp only [keep, hn, FitRows.mk.injEq]
  refine ⟨by simp [← h1], by simp [← h2], by simp, by simp [← h3], ?_, by simp [← h4]⟩
  cases fluxes with
  | none => rfl
  | some fl => simp [← h5 fl rfl]

/-- **C05 (`('N', n)` keeps the `min(n, total)` best).** Every array is cut to its first `n` entries
    (a prefix of the ranking), which leaves `min n total` entries in each. -/
theorem C05_N (n nd : Nat) (x : FitRows K) (hwf : WFInfo x) :
    CutTo n x (keep (Sel.N n) nd x) ∧ AllLen (min n x.chi2.length) (keep (Sel.N n) nd x) := by
  have hcut : CutTo n x (keep (Sel.N n) nd x) := by
    cases h : x.chi2 with
    | nil =>
      -- `len(chi2) == 0`: n_fits = 0, and all arrays are empty
      obtain ⟨h1, h2, h3, h4, h5⟩ := hwf
      rw [h] at h1 h2 h3 h4 h5
      simp only [List.length_nil, List.length_eq_zero_iff] at h1 h2 h3 h4 h5
      have hn : nFits (Sel.N n) nd x.chi2 = 0 := by simp [nFits, h]
      refine ⟨by simp [keep, h1], by simp [keep, h2], by simp [keep, h], by simp [keep, h3],
        by simp [keep, h4], ?_⟩
      cases hx : x.fluxes with
      | none => simp [keep, hx]
      | some fl => simp [keep, hx, h5 fl hx]
    | cons c0 t =>
      have hn : nFits (Sel.N n) nd x.chi2 = n := by simp [nFits, h]
      have := keep_cutTo (Sel.N n) nd x
      rw [hn] at this
      exact this
  exact ⟨hcut, cutTo_allLen hwf hcut⟩

/-- **C05 (`('C'|'D'|'E'|'F', v)` keep exactly the fits below `v`).** For a ranked result and a
    threshold that no criterion value equals: `n_fits` does not exceed the number of fits, every array
    is cut to its first `n_fits` entries and has exactly that many, and position `i` of the ranking
    survives **iff** its criterion value is `< v` — so the survivors are a prefix of the ranking and are
    exactly the fits below the threshold (ties, `+inf` and NaN included: a NaN or `+inf` criterion
    is never below anything). -/
theorem C05_threshold (s : Sel K) (v : EF K) (hs : s.thr = some v) (nd : Nat) (x : FitRows K)
    (hwf : WFInfo x) (hr : Ranked x.chi2) (hna : NonAttained s nd x.chi2) :
    nFits s nd x.chi2 ≤ x.chi2.length ∧
    CutTo (nFits s nd x.chi2) x (keep s nd x) ∧ AllLen (nFits s nd x.chi2) (keep s nd x) ∧
    (∀ c0, x.chi2.head? = some c0 → ∀ (i : Nat) (hi : i < x.chi2.length),
      (i < nFits s nd x.chi2 ↔ EF.lt (crit s nd c0 x.chi2[i]) v = true)) ∧
    (∀ c0, x.chi2.head? = some c0 →
      (keep s nd x).chi2 = x.chi2.filter (fun c => EF.lt (crit s nd c0 c) v)) := by
  have hle := nFits_le_of_thr s v hs nd x.chi2
  have hcut := keep_cutTo s nd x
  have hall := cutTo_allLen hwf hcut
  rw [Nat.min_eq_left hle] at hall
  refine ⟨hle, hcut, hall, ?_, ?_⟩
  · intro c0 hc0 i hi
    exact nFits_lt_iff s v hs nd x.chi2 hr c0 hc0 (hna v hs c0 hc0) i hi
  · intro c0 hc0
    exact take_nFits_eq_filter s v hs nd x.chi2 hr c0 hc0 (hna v hs c0 hc0)

/-- **C05 (`n_data` counts flags 1 and 4 only).** The divisor of the `E` and `F` criteria is the
    number of flag-1 points plus the number of flag-4 points; limits (2, 3), unused (0) and plot-only
    (9) points, or any other flag value, do not count. -/
theorem C05_ndata (flags : List Nat) :
    nDataSrc flags = flags.count 1 + flags.count 4 ∧
    ∀ (s : Sel K) (x : FitRows K), keepSrc s flags x = keep s (flags.count 1 + flags.count 4) x := by
  have h : nDataSrc flags = flags.count 1 + flags.count 4 := by
    induction flags with
    | nil => rfl
    | cons f fs ih =>
      unfold nDataSrc at ih ⊢
      by_cases h1 : f = 1
      · subst h1; simp [ih]; omega
      · by_cases h4 : f = 4
        · subst h4; simp [ih]; omega
        · simp [h1, h4, ih]
  exact ⟨h, fun s x => by simp [keepSrc, h]⟩

/-- **C05 (looser selector first).** On a ranked result, if `s'` keeps at least as many fits as `s`
    does, selecting with `s'` and then with `s` gives exactly what `s` alone gives.  (`s'` is
    arbitrary; for `D`/`F` the proof uses that `chi2[0]` survives every non-empty cut.) -/
theorem C05_looser_first (s s' : Sel K) (nd : Nat) (x : FitRows K) (hr : Ranked x.chi2)
    (hna : NonAttained s nd x.chi2) (hle : nFits s nd x.chi2 ≤ nFits s' nd x.chi2) :
    keep s nd (keep s' nd x) = keep s nd x := by
  have hn : nFits s nd (x.chi2.take (nFits s' nd x.chi2)) = nFits s nd x.chi2 :=
    nFits_take s nd x.chi2 _ hr hna hle
  obtain ⟨av, sc, chi2, name, fluxes, modelId⟩ := x
  simp only at hn hle
  simp only [keep, hn, List.take_take, Nat.min_eq_left hle, FitRows.mk.injEq, true_and]
  cases fluxes with
  | none => simp
  | some fl => simp [List.take_take, Nat.min_eq_left hle]

/-- **C05 (looser selector first, counts capped at the number of fits).** "Looser" compares what the
    two selectors actually keep, `min(n_fits, total)`: e.g. `s = ('N', 10)`, `s' = ('A', ·)` on 5 fits.
    If `s'` keeps at least as many fits as `s`, then `keep s ∘ keep s' = keep s`. -/
theorem C05_looser_first_min (s s' : Sel K) (nd : Nat) (x : FitRows K) (hwf : WFInfo x)
    (hr : Ranked x.chi2) (hna : NonAttained s nd x.chi2)
    (hle : min (nFits s nd x.chi2) x.chi2.length ≤ min (nFits s' nd x.chi2) x.chi2.length) :
    keep s nd (keep s' nd x) = keep s nd x := by
  have hn : nFits s nd (x.chi2.take (nFits s' nd x.chi2)) = nFits s nd x.chi2 :=
    nFits_take_min s nd x.chi2 _ hr hna (le_trans hle (Nat.min_le_left _ _))
  obtain ⟨h1, h2, h3, h4, h5⟩ := hwf
  -- on an array with one entry per fit, cutting at n' and then at n is cutting at n
  have cut : ∀ {α : Type} (l : List α), l.length = x.chi2.length →
      (l.take (nFits s' nd x.chi2)).take (nFits s nd x.chi2) = l.take (nFits s nd x.chi2) := by
    intro α l hl
    rw [List.take_take, List.take_eq_take_iff, hl]
    omega
  obtain ⟨av, sc, chi2, name, fluxes, modelId⟩ := x
  simp only at hn hle h1 h2 h3 h4 h5 cut
  simp only [keep, hn, FitRows.mk.injEq]
  refine ⟨cut av h1, cut sc h2, cut chi2 rfl, cut name h3, ?_, cut modelId h4⟩
  cases fluxes with
  | none => rfl
  | some fl => simp [cut fl (h5 fl rfl)]

/-- **C05 (selecting twice).** On a ranked result `keep s ∘ keep s = keep s`. -/
theorem C05_idem (s : Sel K) (nd : Nat) (x : FitRows K) (hr : Ranked x.chi2)
    (hna : NonAttained s nd x.chi2) : keep s nd (keep s nd x) = keep s nd x :=
  C05_looser_first s s nd x hr hna (Nat.le_refl _)

/-- `keep` preserves "one entry per fit in every array" (no ranking needed) -/
theorem keep_wfInfo (s : Sel K) (nd : Nat) (x : FitRows K) (hwf : WFInfo x) : WFInfo (keep s nd x) := by
  have hall := cutTo_allLen hwf (keep_cutTo s nd x)
  obtain ⟨a1, a2, a3, a4, a5, a6⟩ := hall
  exact ⟨by rw [a1, a3], by rw [a2, a3], by rw [a4, a3], by rw [a5, a3], fun fl hfl => by rw [a6 fl hfl, a3]⟩

/-- **C05 (n_fits is the length of every per-fit array, along every history).** After any sequence of
    selectors applied one after the other, every per-fit array has exactly `n_fits = len(chi2)`
    entries. -/
theorem C05_nfits_invariant (ops : List (Sel K)) (nd : Nat) (x : FitRows K) (hwf : WFInfo x) :
    WFInfo (ops.foldl (fun acc s => keep s nd acc) x) ∧
    AllLen (ops.foldl (fun acc s => keep s nd acc) x).chi2.length (ops.foldl (fun acc s => keep s nd acc) x) := by
  have hw : WFInfo (ops.foldl (fun acc s => keep s nd acc) x) := by
    induction ops generalizing x with
    | nil => exact hwf
    | cons s rest ih => exact ih (keep s nd x) (keep_wfInfo s nd x hwf)
  obtain ⟨h1, h2, h3, h4, h5⟩ := hw
  exact ⟨⟨h1, h2, h3, h4, h5⟩, h1, h2, rfl, h3, h4, h5⟩

/-- **C05 (the selection depends only on chi², n_data and the selector).** Two results with the same
    chi² column — a record and its copy, a record and what is read back from a fit file, or results
    that differ in every other column — keep the same number of fits, and each has every array cut to
    that number; flag arrays with the same count of 1/4 entries select alike. -/
theorem C05_depends_only_on_chi2 (s : Sel K) (nd : Nat) (x y : FitRows K) (h : x.chi2 = y.chi2) :
    nFits s nd x.chi2 = nFits s nd y.chi2 ∧ (keep s nd x).chi2 = (keep s nd y).chi2 ∧
    CutTo (nFits s nd x.chi2) y (keep s nd y) ∧ (x = y → keep s nd x = keep s nd y) ∧
    ∀ flags flags' : List Nat, nDataSrc flags = nDataSrc flags' → keepSrc s flags x = keepSrc s flags' x := by
  refine ⟨by rw [h], by simp [keep, h], ?_, fun e => by rw [e], ?_⟩
  · rw [h]; exact keep_cutTo s nd y
  · intro f f' hf
    simp [keepSrc, hf]

/-! ### Non-vacuity: a ranked vector with a tie, `+inf` and NaN; `F` threshold between attained values -/

def exSelC05 : Sel Rat := Sel.F (EF.fin (1/4))

def exInfoC05 : FitRows Rat :=
  { av := [10, 11, 12, 13, 14], sc := [20, 21, 22, 23, 24]
    chi2 := [EF.fin 1, EF.fin 2, EF.fin 2, EF.pinf, EF.nan]
    name := ["a", "b", "c", "d", "e"], fluxes := none, modelId := [3, 0, 4, 2, 1] }

example : WFInfo exInfoC05 ∧ Ranked exInfoC05.chi2 ∧ NonAttained exSelC05 3 exInfoC05.chi2 ∧
    exSelC05.thr = some (EF.fin (1/4)) := by
  refine ⟨by simp [WFInfo, exInfoC05], by unfold Ranked; decide +kernel, ?_, rfl⟩
  intro v hv c0 hc0 c hc
  simp [exSelC05, Sel.thr] at hv
  simp [exInfoC05] at hc0 hc
  subst hv; subst hc0
  rcases hc with rfl | rfl | rfl | rfl <;> decide +kernel

/-- `(chi² − 1)/3 < 1/4` keeps only the best fit; a looser `('N', 4)` first changes nothing -/
example : nFits exSelC05 3 exInfoC05.chi2 = 1 ∧ nFits exSelC05 3 exInfoC05.chi2 ≤ nFits (Sel.N 4) 3 exInfoC05.chi2 := by
  decide +kernel

/-- `('N', 10)` after `('A', ·)` on 5 fits: the raw counts are 10 > 5, the capped ones 5 ≤ 5 -/
example : ¬ (nFits (Sel.N 10) 3 exInfoC05.chi2 ≤ nFits (Sel.A : Sel Rat) 3 exInfoC05.chi2) ∧
    min (nFits (Sel.N 10) 3 exInfoC05.chi2) exInfoC05.chi2.length
      ≤ min (nFits (Sel.A : Sel Rat) 3 exInfoC05.chi2) exInfoC05.chi2.length := by decide +kernel

/-- a three-step history on the example: ('N', 4), then ('F', 1/4), then ('A', ·) -/
example : WFInfo exInfoC05 ∧ ([Sel.N 4, exSelC05, Sel.A].foldl (fun acc s => keep s 3 acc) exInfoC05).chi2.length = 1 := by
  refine ⟨by simp [WFInfo, exInfoC05], ?_⟩
  decide +kernel

/-- a "copy" that shares only the chi² column -/
example : exInfoC05.chi2 = ({ exInfoC05 with av := [], name := ["x"] } : FitRows Rat).chi2 := rfl

end SF
