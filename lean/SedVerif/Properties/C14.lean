import SedVerif.Proofs.Extinction
/-!
# C14 — the extinction law is normalised at V, unit-free and zero outside its table

Property theorems only.  Model: `SedVerif/Model/Extinction.lean` (`getAv`) over
`SedVerif/Model/Interp.lean` (`npInterp` = `np.interp(…, left, right)`, `npInterpEdge` = default
`np.interp`).  `tab` is the opacity table `(wavelength, chi)`, `v` is 0.55 µm and `x` the query, all
in the table's wavelength unit.  All statements hold over every linearly ordered field and every
table length.
-/
namespace SF
variable {K : Type} [Field K] [LinearOrder K] [IsStrictOrderedRing K]
open Integ Ext

/-- **C14 (formula).** The per-magnitude extinction pattern is `−0.4·chi(λ)/chi(V)` with `chi(λ)`
    interpolated with zero fill and `chi(V)` with edge fill. -/
theorem C14_formula (tab : List (K × K)) (v x : K) :
    getAv tab v x = -(2 / 5) * npInterp 0 0 tab x / npInterpEdge tab v := by
  unfold getAv; rw [negPt4_eq]

/-- **C14 (chi is linearly interpolated).** Between two adjacent nodes `p`, `q` of an increasing
    table, `chi(λ)` is the straight line through them. -/
theorem C14_linear_interp (pre post : List (K × K)) (p q : K × K) (x : K)
    (hs : SortedX (pre ++ p :: q :: post)) (h0 : p.1 ≤ x) (h1 : x ≤ q.1) :
    npInterp 0 0 (pre ++ p :: q :: post) x = lin p q x := by
  have hmem : p ∈ pre ++ p :: q :: post := by simp
  have hmemq : q ∈ pre ++ p :: q :: post := by simp
  cases hl : pre ++ p :: q :: post with
  | nil => simp at hl
  | cons t0 tl =>
    rw [hl] at hs hmem hmemq
    have a := (mem_range tl t0 p hs hmem).1
    have b := (mem_range tl t0 q hs hmemq).2
    rw [npInterp_in 0 0 t0 tl x (le_trans a h0) (le_trans h1 b), ← hl]
    rw [← hl] at hs
    exact interpIn_seg p q post x pre hs h0 h1

/-- **C14 (chi(V) > 0).** For an increasing table of positive opacities that covers V the
    normalising value is positive (so the hypothesis `chi(V) ≠ 0` of `C14_at_V` holds on the
    property's domain). -/
theorem C14_chiV_pos (p0 : K × K) (tl : List (K × K)) (v : K) (hs : SortedX (p0 :: tl))
    (hpos : ∀ p ∈ p0 :: tl, 0 < p.2) (h0 : p0.1 ≤ v) (h1 : v ≤ (lastD tl p0).1) :
    0 < npInterpEdge (p0 :: tl) v := by
  simp only [npInterpEdge, lastD]
  rw [npInterp_in _ _ p0 tl v h0 h1]
  exact interpIn_pos tl p0 v hs hpos h0 h1

/-- **C14 (normalised at V).** Exactly `−0.4` at 0.55 µm when the table covers V and `chi(V) ≠ 0`. -/
theorem C14_at_V (p0 : K × K) (tl : List (K × K)) (v : K) (h0 : p0.1 ≤ v) (h1 : v ≤ (lastD tl p0).1)
    (hne : npInterpEdge (p0 :: tl) v ≠ 0) : getAv (p0 :: tl) v v = -(2 / 5) := by
  have e : npInterp 0 0 (p0 :: tl) v = npInterpEdge (p0 :: tl) v := by
    simp only [npInterpEdge, lastD]
    rw [npInterp_in _ _ p0 tl v h0 h1, npInterp_in _ _ p0 tl v h0 h1]
  rw [C14_formula, e, mul_div_assoc, div_self hne, mul_one]

/-- **C14 (zero outside the table).** -/
theorem C14_outside (p0 : K × K) (tl : List (K × K)) (v x : K)
    (h : x < p0.1 ∨ (lastD tl p0).1 < x) : getAv (p0 :: tl) v x = 0 := by
  rw [C14_formula, npInterp_out 0 p0 tl x h, mul_zero, zero_div]

/-- **C14 (opacity scale / opacity unit).** Multiplying every `chi` by a constant `c ≠ 0` changes
    nothing. -/
theorem C14_chi_scale (c : K) (hc : c ≠ 0) (tab : List (K × K)) (v x : K) :
    getAv (tab.map (fun p => (p.1, c * p.2))) v x = getAv tab v x := by
  have h := npInterp_yscale c 0 0 x tab
  rw [mul_zero] at h
  rw [C14_formula, C14_formula, h, npInterpEdge_yscale, mul_left_comm, mul_div_mul_left _ _ hc]

/-- **C14 (wavelength unit).** Expressing the table wavelengths, V and the query in another unit
    (a common positive factor) changes nothing. -/
theorem C14_unit (s : K) (hs : 0 < s) (tab : List (K × K)) (v x : K) :
    getAv (tab.map (fun p => (s * p.1, p.2))) (s * v) (s * x) = getAv tab v x := by
  rw [C14_formula, C14_formula, npInterp_xscale s hs, npInterpEdge_xscale s hs]

/-- **C14 (nodes).** At a table node the pattern is `−0.4·chi_j/chi(V)`. -/
theorem C14_node (p0 : K × K) (tl : List (K × K)) (v : K) (p : K × K) (hs : SortedX (p0 :: tl))
    (hp : p ∈ p0 :: tl) : getAv (p0 :: tl) v p.1 = -(2 / 5) * p.2 / npInterpEdge (p0 :: tl) v := by
  obtain ⟨a, b⟩ := mem_range tl p0 p hs hp
  rw [C14_formula, npInterp_in 0 0 p0 tl p.1 a b, interpIn_node (p0 :: tl) p hs hp]

/-- **C14 (persistence).** The explicit pickle state, the table conversion and the text-file reader
    (any column selection, units given by the caller) give back an object with the same wavelength
    unit, the same opacity unit and the same table, hence the same `get_av` for every V and query. -/
theorem C14_persist {U : Type} (law : ExtLaw U K) (v x : K) :
    (extSetState (extGetState law) = law ∧ (extSetState (extGetState law)).av v x = law.av v x) ∧
    (extFromTable (extToTable law) = law ∧ (extFromTable (extToTable law)).av v x = law.av v x) ∧
    (∀ (rows : List (List K)) (i j : Nat),
      rows.map (fun r => r[i]?) = law.wav.vals.map some →
      rows.map (fun r => r[j]?) = law.chi.vals.map some →
      extFromFile rows i j law.wav.unit law.chi.unit = .ok law) := by
  refine ⟨⟨rfl, rfl⟩, ⟨rfl, rfl⟩, ?_⟩
  intro rows i j hw hc
  simp only [extFromFile, selectCols_ok i j rows _ _ hw hc]

/-- **C14 (end nodes).** A query exactly on the first or on the last tabulated wavelength is inside the
    table: the interpolated opacity is the node's own value — never the outside fill 0 — for every
    increasing table with at least two rows; so the pattern there is `−0.4·chi_end/chi(V)`, and it is
    exactly `−0.4` when V itself is the first or the last node. -/
theorem C14_end_nodes (p0 p1 : K × K) (tl : List (K × K)) (v : K) (hs : SortedX (p0 :: p1 :: tl)) :
    npInterp 0 0 (p0 :: p1 :: tl) p0.1 = p0.2 ∧
    npInterp 0 0 (p0 :: p1 :: tl) (lastD (p1 :: tl) p0).1 = (lastD (p1 :: tl) p0).2 ∧
    getAv (p0 :: p1 :: tl) v p0.1 = -(2 / 5) * p0.2 / npInterpEdge (p0 :: p1 :: tl) v ∧
    getAv (p0 :: p1 :: tl) v (lastD (p1 :: tl) p0).1
      = -(2 / 5) * (lastD (p1 :: tl) p0).2 / npInterpEdge (p0 :: p1 :: tl) v ∧
    (p0.2 ≠ 0 → getAv (p0 :: p1 :: tl) p0.1 p0.1 = -(2 / 5)) ∧
    ((lastD (p1 :: tl) p0).2 ≠ 0 →
      getAv (p0 :: p1 :: tl) (lastD (p1 :: tl) p0).1 (lastD (p1 :: tl) p0).1 = -(2 / 5)) := by
  have hm0 : p0 ∈ p0 :: p1 :: tl := List.mem_cons_self
  have hml : lastD (p1 :: tl) p0 ∈ p0 :: p1 :: tl := lastD_mem (p1 :: tl) p0
  obtain ⟨a0, b0⟩ := mem_range (p1 :: tl) p0 p0 hs hm0
  obtain ⟨al, bl⟩ := mem_range (p1 :: tl) p0 _ hs hml
  have e0 : npInterp 0 0 (p0 :: p1 :: tl) p0.1 = p0.2 := by
    rw [npInterp_in 0 0 p0 (p1 :: tl) p0.1 a0 b0, interpIn_node _ p0 hs hm0]
  have el : npInterp 0 0 (p0 :: p1 :: tl) (lastD (p1 :: tl) p0).1 = (lastD (p1 :: tl) p0).2 := by
    rw [npInterp_in 0 0 p0 (p1 :: tl) _ al bl, interpIn_node _ _ hs hml]
  have hE : ∀ x, p0.1 ≤ x → x ≤ (lastD (p1 :: tl) p0).1 →
      npInterpEdge (p0 :: p1 :: tl) x = interpIn (p0 :: p1 :: tl) x := by
    intro x h0 h1
    show npInterp p0.2 (lastD (p0 :: p1 :: tl) p0).2 (p0 :: p1 :: tl) x = _
    exact npInterp_in _ _ p0 (p1 :: tl) x h0 h1
  refine ⟨e0, el, C14_node p0 (p1 :: tl) v p0 hs hm0, C14_node p0 (p1 :: tl) v _ hs hml, ?_, ?_⟩
  · intro hne
    apply C14_at_V p0 (p1 :: tl) p0.1 a0 b0
    rw [hE p0.1 a0 b0, interpIn_node _ p0 hs hm0]; exact hne
  · intro hne
    apply C14_at_V p0 (p1 :: tl) _ al bl
    rw [hE _ al bl, interpIn_node _ _ hs hml]; exact hne

/-- **C14 (copies are independent objects).** A copy (`copy.copy`, `copy.deepcopy`, pickle round trip) or
    a table round trip of law `i` is a new object holding the same law (hence the same `get_av`); a later
    assignment of `chi` or `wav` to the copy leaves the original as it was, and a later assignment to
    the original leaves the copy as it was. -/
theorem C14_copy_independent {U : Type} (h : List (ExtLaw U K)) (i : Nat) (hi : i < h.length)
    (c w : QCol U K) :
    (heapCopy h i)[h.length]? = h[i]? ∧ (heapViaTable h i)[h.length]? = h[i]? ∧
    (heapCopy h i)[i]? = h[i]? ∧
    (heapSetChi (heapCopy h i) h.length c)[i]? = h[i]? ∧
    (heapSetWav (heapCopy h i) h.length w)[i]? = h[i]? ∧
    (heapSetChi (heapCopy h i) i c)[h.length]? = h[i]? ∧
    (heapSetWav (heapCopy h i) i w)[h.length]? = h[i]? ∧
    (heapSetChi (heapCopy h i) h.length c)[h.length]? = (h[i]?).map (fun law => { law with chi := c }) := by
  have hget : h[i]? = some h[i] := List.getElem?_eq_getElem hi
  have hne : i ≠ h.length := Nat.ne_of_lt hi
  have hcopy : heapCopy h i = h ++ [h[i]] := by simp [heapCopy, hget, extSetState, extGetState]
  have htab : heapViaTable h i = h ++ [h[i]] := by simp [heapViaTable, hget, extFromTable, extToTable]
  have hnew : (h ++ [h[i]])[h.length]? = some h[i] := by simp
  have hold : (h ++ [h[i]])[i]? = some h[i] := by rw [List.getElem?_append_left hi]; exact hget
  refine ⟨?_, ?_, ?_, ?_, ?_, ?_, ?_, ?_⟩
  · rw [hcopy, hnew, hget]
  · rw [htab, hnew, hget]
  · rw [hcopy, hold, hget]
  · rw [hcopy]; simp only [heapSetChi, hnew]; rw [List.getElem?_set_ne (Ne.symm hne), hold, hget]
  · rw [hcopy]; simp only [heapSetWav, hnew]; rw [List.getElem?_set_ne (Ne.symm hne), hold, hget]
  · rw [hcopy]; simp only [heapSetChi, hold]; rw [List.getElem?_set_ne hne, hnew, hget]
  · rw [hcopy]; simp only [heapSetWav, hold]; rw [List.getElem?_set_ne hne, hnew, hget]
  · rw [hcopy]; simp only [heapSetChi, hnew]; rw [hget]; simp

/-! ### Non-vacuity (over ℚ): a four-row table in µm covering V = 11/20 -/

def exLaw : List (Rat × Rat) := [(1/10, 900), (1/2, 400), (1, 150), (10, 3)]

example : SortedX exLaw ∧ (∀ p ∈ exLaw, 0 < p.2) ∧ (1/10 : Rat) ≤ 11/20 ∧ (11/20 : Rat) ≤ 10 := by
  refine ⟨?_, ?_, ?_, ?_⟩
  · simp [exLaw, SortedX]; norm_num
  · simp [exLaw]
  · norm_num
  · norm_num

-- chi(V) = 400 + (1/20)/(1/2)·(150 − 400) = 375; at λ = 3/4: chi = 275 → −0.4·275/375 = −22/75
example : npInterpEdge exLaw (11/20) = 375 ∧ getAv exLaw (11/20) (3/4) = -(22/75)
    ∧ getAv exLaw (11/20) (11/20) = -(2/5) ∧ getAv exLaw (11/20) 11 = 0 ∧ getAv exLaw (11/20) 1 = -(4/25) := by
  simp [exLaw, getAv, negPt4, npInterpEdge, npInterp, interpIn, lastD, lin, two]
  norm_num

-- persistence: a three-column text table read with columns (2, 0) gives back the law in nm, m²/kg
example : extFromFile (K := Rat) [[900, 7, 100], [400, 7, 500], [150, 7, 1000]] 2 0 "nm" "m2/kg"
    = .ok ⟨⟨"nm", [100, 500, 1000]⟩, ⟨"m2/kg", [900, 400, 150]⟩⟩
    ∧ extFromFile (K := Rat) (U := String) [[900, 7, 100], [400, 7]] 2 0 "nm" "m2/kg" = .error .missingColumn := by
  constructor <;> simp [extFromFile, selectCols]

-- end nodes of the four-row table: 0.1 and 10 micron give the tabulated 900 and 3 over chi(V) = 375
example : getAv exLaw (11/20) (1/10) = -(24/25) ∧ getAv exLaw (11/20) 10 = -(2/625)
    ∧ getAv [(11/20, 400), (1, 150)] (11/20) (11/20) = -(2/5) ∧ getAv [(1/10, 900), (11/20, 400)] (11/20) (11/20) = -(2/5) := by
  simp [exLaw, getAv, negPt4, npInterpEdge, npInterp, interpIn, lastD, lin, two]
  norm_num

-- two law objects: the copy of law 0 is object 1; assigning another chi to the copy leaves object 0 alone
example : (heapSetChi (heapCopy [(⟨⟨"nm", [100, 500]⟩, ⟨"m2/kg", [9, 4]⟩⟩ : ExtLaw String Rat)] 0) 1 ⟨"cm2/g", [1, 2]⟩)
    = [⟨⟨"nm", [100, 500]⟩, ⟨"m2/kg", [9, 4]⟩⟩, ⟨⟨"nm", [100, 500]⟩, ⟨"cm2/g", [1, 2]⟩⟩] := by
  simp [heapSetChi, heapCopy, extSetState, extGetState]

end SF
