import SedVerif.Proofs.Pipeline
import SedVerif.Properties.C08
/-!
# E2E — the whole pipeline keeps every listed row on ONE model

Composition theorems for `runPipeline` (`Model/Pipeline.lean`): convolve → match → fit → rank →
select → list.  Every statement is derived from the per-stage property theorems (C04, C05, C07, C08,
C09) through the stage lemmas of `Proofs/Pipeline.lean`; nothing about a stage is re-proved here.

Vocabulary (all defined in `Model/Pipeline.lean` / `Proofs/Pipeline.lean`):
* `NamesOK inp` — SED names distinct, each fits the 30-character column and has no surrounding blanks;
* `tNames inp` — stripped `MODEL_NAME` column of the parameter file, in file order;
* `sedFlux`, `sedVar`, `sedPts`, `sedFit` — what ONE `SED` object gives through one filter / for one
  source: convolved flux, variance, the fitter's points, `(av, sc, chi2) = fit2Full` of those points;
* `fittedSources inp` — the sources with `n_data ≥ n_data_min`, in data-file order.
-/
set_option linter.unusedSectionVars false
set_option linter.unusedVariables false
namespace SF
open SF.Match SF.Pipe
variable {K : Type} [Field K] [LinearOrder K] [IsStrictOrderedRing K]

/-- **E2E (row integrity).**  If the pipeline returns — for ANY directory-listing order of the SED
    files and ANY row order of the parameter table, names distinct —
    * every `convolved/<filter>.fits` follows the parameter table, carries the filter's wavelength, and
      its row labelled `X` holds the convolved flux and variance of the SED object named `X`;
    * there is one listing block per fitted source, in data-file order, under the source's name;
    * every listed row names a model `X` such that: an SED object of the package is named `X`; the
      parameter values printed are those of THE parameter-file row whose stripped name is `X`; and
      `(av, sc, chi2)` are `fit2Full` of the points built from the convolution of that very SED object.
    So name ↔ SED ↔ convolved flux ↔ fit ↔ parameters refer to one model. -/
theorem E2E_row_integrity (env : PEnv K) (inp : PInput K) (out : POut K)
    (h : runPipeline env inp = .ok out) (hN : NamesOK inp)
    (hT : (inp.table.map (fun y => strip y.1)).Nodup) :
    (out.conv.length = inp.filters.length ∧
      ∀ (j : Nat) (f : PFilter K) (c : Conv K (List K)), inp.filters[j]? = some f → out.conv[j]? = some c →
        c.filtwav = f.wav ∧ c.names = tNames inp ∧
        ∀ (i : Nat) (X : String), c.names[i]? = some X → ∃ s ∈ inp.seds, s.name = X ∧
          (c.flux[i]?).bind List.head? = some (sedFlux env.tiny f s) ∧
          (c.error[i]?).bind List.head? = some (sedVar env.tiny f s)) ∧
    out.listings.length = (fittedSources inp).length ∧
    ∀ (k : Nat) (src : String × List (Obs K)) (L : SrcListing K),
      (fittedSources inp)[k]? = some src → out.listings[k]? = some L →
      L.source = src.1 ∧
      ∀ row ∈ L.rows, ∃ s ∈ inp.seds, s.name = row.name ∧
        (∃ y ∈ inp.table, strip y.1 = row.name ∧ y.2 = row.pars) ∧
        (∀ y ∈ inp.table, strip y.1 = row.name → y.2 = row.pars) ∧
        row.av = (sedFit env inp src.2 s).1 ∧ row.sc = (sedFit env inp src.2 s).2.1 ∧
        row.chi2 = EF.fin (sedFit env inp src.2 s).2.2 := by
  obtain ⟨first, rest, hrd, hsub, hheads, -, -, hconv, -, hls⟩ := runPipeline_ok env inp out h hN
  obtain ⟨hlen, hget⟩ := mapE_getElem? _ _ _ hls
  refine ⟨⟨by rw [hconv]; simp, ?_⟩, hlen, ?_⟩
  · -- the convolved files
    intro j f c hf hc
    rw [hconv, List.getElem?_map, hf] at hc
    simp only [Option.map_some, Option.some.injEq] at hc
    subst hc
    refine ⟨rfl, rfl, ?_⟩
    intro i X hX
    simp only [convFile] at hX
    have hXm : X ∈ tNames inp := List.mem_of_getElem? hX
    obtain ⟨s, hs, hsn, hp⟩ := pick_of_name_mem inp.seds hN.1 X (hsub X hXm)
    obtain ⟨x, hx, -⟩ := hheads f (List.mem_of_getElem? hf) X hXm
    obtain ⟨g1, g2⟩ := rowOf_heads env.tiny _ f inp.seds X s x hp hx
    refine ⟨s, hs, hsn, ?_, ?_⟩
    · simp only [convFile, List.getElem?_map, hX, Option.map_some, Option.bind_some, g1]
    · simp only [convFile, List.getElem?_map, hX, Option.map_some, Option.bind_some, g2]
  · -- the listing
    intro k src L hsrc hL
    have hLs := hget k src L hsrc hL
    obtain ⟨ts, hts, hsource, -, -, hrows⟩ := listSource_ok _ _ _ _ _ hLs
    refine ⟨hsource, ?_⟩
    intro row hrow
    obtain ⟨hmn, hts2⟩ := listing_ok _ _ _ hts hT
    obtain ⟨hkn, hkc, hka, hks⟩ := keptOf_arrays env inp (ksIn inp) (modelsOf env inp) src.2
    simp only [keptOf] at hkn hkc hka hks
    change (keepSrc inp.selOut (flagsOf src.2) (recordOf env inp src.2)).name = _ at hkn
    change (keepSrc inp.selOut (flagsOf src.2) (recordOf env inp src.2)).chi2 = _ at hkc
    change (keepSrc inp.selOut (flagsOf src.2) (recordOf env inp src.2)).av = _ at hka
    change (keepSrc inp.selOut (flagsOf src.2) (recordOf env inp src.2)).sc = _ at hks
    rw [hrows] at hrow
    obtain ⟨j, hj, hrj⟩ := List.mem_iff_getElem.mp hrow
    have hrj' := List.getElem?_eq_getElem hj
    rw [hrj, mkRows_getElem?] at hrj'
    -- unpack the five look-ups
    simp only [Option.bind_eq_some_iff, Option.map_eq_some_iff] at hrj'
    obtain ⟨n, hn, c, hc, a, ha, sc, hsc, t, ht, hrow_eq⟩ := hrj'
    rw [hkn] at hn; rw [hkc] at hc; rw [hka] at ha; rw [hks] at hsc
    -- position `j` of the ranking
    have hjlt : j < (modelsOf env inp).length := by
      have h1 : j < ((rankSource env inp.lo inp.hi (ksIn inp) (modelsOf env inp) src.2).chi2.take
          (nKept env inp (ksIn inp) (modelsOf env inp) src.2)).length :=
        (List.getElem?_eq_some_iff.mp hc).1
      have h2 := (rank_wf env inp.lo inp.hi (ksIn inp) (modelsOf env inp) src.2).2.2
      rw [List.length_take] at h1
      omega
    obtain ⟨md, hmd, rn, ra, rs, rc⟩ := rank_row env inp.lo inp.hi (ksIn inp) (modelsOf env inp) src.2 j hjlt
    have take_get : ∀ {α : Type} (l : List α) (m : Nat) (x : α), (l.take m)[j]? = some x → l[j]? = some x := by
      intro α l m x hx
      rw [List.getElem?_take] at hx
      split at hx
      · exact hx
      · simp at hx
    have en := (take_get _ _ _ hn).symm.trans rn
    have ea := (take_get _ _ _ ha).symm.trans ra
    have es := (take_get _ _ _ hsc).symm.trans rs
    have ec := (take_get _ _ _ hc).symm.trans rc
    simp only [Option.some.injEq] at en ea es ec
    -- the model is the one of a table name, hence of an SED object
    obtain ⟨X, hX, rfl⟩ := List.mem_map.mp hmd
    obtain ⟨s, hs, hsn, hp⟩ := pick_of_name_mem inp.seds hN.1 X (hsub X hX)
    have hmf : (modelOf env inp X).mf = sedLogFluxes env inp s := by simp [modelOf, hp]
    have hname : (modelOf env inp X).name = X := rfl
    -- the table row printed beside it
    have htm : t ∈ ts := List.mem_of_getElem? ht
    obtain ⟨t1, t2, t3⟩ := hts2 t htm
    have htn : t.1 = n := by
      have := congrArg (fun l => l[j]?) hmn
      simp only [List.getElem?_map, ht, Option.map_some] at this
      rw [hkn, hn] at this
      simpa using this
    subst hrow_eq
    simp only
    rw [t1, List.append_nil]
    refine ⟨s, hs, by rw [hsn, en, hname], ?_, ?_, ?_, ?_, ?_⟩
    · obtain ⟨y, hy, hy1, hy2⟩ := t2
      exact ⟨y, hy, by rw [hy1, htn], hy2⟩
    · intro y hy hyn
      exact t3 y hy (by rw [hyn, htn])
    · rw [ea, hmf]; rfl
    · rw [es, hmf]; rfl
    · rw [ec, hmf]; rfl

/-- the complete ranking of one source over the models of the parameter table (what `Models.fit`
    returns before any selection), as a function of the pipeline's inputs -/
def fullRanking (env : PEnv K) (inp : PInput K) (bands : List (Obs K)) : FitRows K :=
  rankSource env inp.lo inp.hi (ksIn inp) (modelsOf env inp) bands

/-- **E2E (ranked, selected).**  If the pipeline returns, every listing block
    * has chi² values that are finite and non-decreasing;
    * is a PREFIX of the complete ranking of its source: names, chi², A_V and scale columns are the first
      `n_fits` entries of the ranked arrays (`C04`), `fit_id` counts `1 … n_fits`, `n_data` counts the flag-1
      and flag-4 bands, and `n_fits = min(n, number of models)` where `n` is what `output_format` and then
      `select_format` compute (`nKept`, the two `nFits` of `C05`);
    * the complete ranking lists every model of the parameter table exactly once;
    * and when `select_format` has a threshold no criterion value equals and is not looser than
      `output_format`, the listed fits are EXACTLY those whose criterion is below the threshold (`C05`). -/
theorem E2E_ranked (env : PEnv K) (inp : PInput K) (out : POut K)
    (h : runPipeline env inp = .ok out) (hN : NamesOK inp) :
    ∀ (k : Nat) (src : String × List (Obs K)) (L : SrcListing K),
      (fittedSources inp)[k]? = some src → out.listings[k]? = some L →
      (L.rows.map (·.chi2)).Pairwise (fun a b => EF.le a b = true) ∧
      (∀ r ∈ L.rows, ∃ x, r.chi2 = EF.fin x) ∧
      L.rows.length = L.nFits ∧
      L.nFits = min (nKept env inp (ksIn inp) (modelsOf env inp) src.2) (tNames inp).length ∧
      L.nData = (flagsOf src.2).count 1 + (flagsOf src.2).count 4 ∧
      L.rows.map (·.fitId) = (List.range L.nFits).map (· + 1) ∧
      L.rows.map (·.name) = (fullRanking env inp src.2).name.take L.nFits ∧
      L.rows.map (·.chi2) = (fullRanking env inp src.2).chi2.take L.nFits ∧
      L.rows.map (·.av) = (fullRanking env inp src.2).av.take L.nFits ∧
      L.rows.map (·.sc) = (fullRanking env inp src.2).sc.take L.nFits ∧
      (fullRanking env inp src.2).name.Perm (tNames inp) ∧
      Ranked (fullRanking env inp src.2).chi2 ∧
      (∀ v, inp.selOut.thr = some v →
        NonAttained inp.selOut (nDataSrc (flagsOf src.2)) (fullRanking env inp src.2).chi2 →
        nFits inp.selOut (nDataSrc (flagsOf src.2)) (fullRanking env inp src.2).chi2
          ≤ nFits inp.selFit (nDataSrc (flagsOf src.2)) (fullRanking env inp src.2).chi2 →
        ∀ c0, (fullRanking env inp src.2).chi2.head? = some c0 →
          L.rows.map (·.chi2) = (fullRanking env inp src.2).chi2.filter
            (fun c => EF.lt (crit inp.selOut (nDataSrc (flagsOf src.2)) c0 c) v)) := by
  intro k src L hsrc hL
  unfold fullRanking
  obtain ⟨ts, hts, -, hnd, hnf, hrows⟩ := listing_block env inp out h hN k src L hsrc hL
  obtain ⟨hwf, hranked, hM⟩ := rank_wf env inp.lo inp.hi (ksIn inp) (modelsOf env inp) src.2
  obtain ⟨w1, w2, w3, w4, -⟩ := hwf
  have hMT : (modelsOf env inp).length = (tNames inp).length := by simp [modelsOf]
  obtain ⟨hmn, -, -⟩ := C09_safety _ _ _ _ (by unfold listing at hts; exact hts)
  have htl : ts.length = ((rankSource env inp.lo inp.hi (ksIn inp) (modelsOf env inp) src.2).name.take
      (nKept env inp (ksIn inp) (modelsOf env inp) src.2)).length := by
    have := congrArg List.length hmn; simpa using this
  -- all five arrays handed to the print loop have `n_fits` entries
  have hnfits : L.nFits = min (nKept env inp (ksIn inp) (modelsOf env inp) src.2) (tNames inp).length := by
    rw [hnf, List.length_take, hM, hMT]
  have l1 : ((rankSource env inp.lo inp.hi (ksIn inp) (modelsOf env inp) src.2).name.take (nKept env inp (ksIn inp) (modelsOf env inp) src.2)).length = L.nFits := by
    rw [hnfits, List.length_take]; rw [w3, hM, hMT]
  have l2 : ((rankSource env inp.lo inp.hi (ksIn inp) (modelsOf env inp) src.2).chi2.take (nKept env inp (ksIn inp) (modelsOf env inp) src.2)).length = L.nFits := hnf.symm
  have l3 : ((rankSource env inp.lo inp.hi (ksIn inp) (modelsOf env inp) src.2).av.take (nKept env inp (ksIn inp) (modelsOf env inp) src.2)).length = L.nFits := by
    rw [hnfits, List.length_take]; rw [w1, hM, hMT]
  have l4 : ((rankSource env inp.lo inp.hi (ksIn inp) (modelsOf env inp) src.2).sc.take (nKept env inp (ksIn inp) (modelsOf env inp) src.2)).length = L.nFits := by
    rw [hnfits, List.length_take]; rw [w2, hM, hMT]
  have l5 : ts.length = L.nFits := htl.trans l1
  obtain ⟨m1, m2, m3, m4, m5, -⟩ := mkRows_maps _ 0 _ _ _ ts L.nFits l1 l2 l3 l4 l5
  have hlenrows := mkRows_length _ 0 _ _ _ ts L.nFits l1 l2 l3 l4 l5
  -- `take nKept = take n_fits` on arrays with one entry per model
  have tk : ∀ {α : Type} (l : List α), l.length = (tNames inp).length →
      l.take (nKept env inp (ksIn inp) (modelsOf env inp) src.2) = l.take L.nFits := by
    intro α l hl
    rw [hnfits, ← hl, take_min_length']
  have hchi : L.rows.map (·.chi2) = (rankSource env inp.lo inp.hi (ksIn inp) (modelsOf env inp) src.2).chi2.take L.nFits := by
    rw [hrows, m2]; exact tk _ (by rw [hM, hMT])
  have hfin := rank_chi2_fin env inp.lo inp.hi (ksIn inp) (modelsOf env inp) src.2
  refine ⟨?_, ?_, by rw [hrows]; exact hlenrows, hnfits, ?_, ?_, ?_, hchi, ?_, ?_,
    rank_names_perm env inp src.2, hranked, ?_⟩
  · -- non-decreasing
    rw [hchi]
    have hsub : ((rankSource env inp.lo inp.hi (ksIn inp) (modelsOf env inp) src.2).chi2.take L.nFits).Pairwise (fun a b => EF.leSort a b = true) :=
      List.Pairwise.sublist (List.take_sublist _ _) hranked
    refine List.Pairwise.imp_of_mem ?_ hsub
    intro a b ha hb hab
    obtain ⟨x, rfl⟩ := hfin a (List.mem_of_mem_take ha)
    obtain ⟨y, rfl⟩ := hfin b (List.mem_of_mem_take hb)
    simpa [EF.leSort, EF.le] using hab
  · intro r hr
    have : r.chi2 ∈ L.rows.map (·.chi2) := List.mem_map.mpr ⟨r, hr, rfl⟩
    rw [hchi] at this
    exact hfin _ (List.mem_of_mem_take this)
  · rw [hnd]; exact (C05_ndata (K := K) (flagsOf src.2)).1
  · rw [hrows, m5]; simp
  · rw [hrows, m1]; exact tk _ (by rw [w3, hM, hMT])
  · rw [hrows, m3]; exact tk _ (by rw [w1, hM, hMT])
  · rw [hrows, m4]; exact tk _ (by rw [w2, hM, hMT])
  · -- the selector's meaning
    intro v hv hna hle c0 hc0
    let x : FitRows K := { rankSource env inp.lo inp.hi (ksIn inp) (modelsOf env inp) src.2 with fluxes := none }
    have hxr : Ranked x.chi2 := hranked
    have hxwf : WFInfo x := ⟨w1, w2, w3, w4, by intro fl hfl; simp [x] at hfl⟩
    have e1 := C05_looser_first inp.selOut inp.selFit (nDataSrc (flagsOf src.2)) x hxr hna hle
    have e2 := (C05_threshold inp.selOut v hv (nDataSrc (flagsOf src.2)) x hxwf hxr hna).2.2.2.2 c0 hc0
    have e3 : (keep inp.selOut (nDataSrc (flagsOf src.2)) (keep inp.selFit (nDataSrc (flagsOf src.2)) x)).chi2
        = (rankSource env inp.lo inp.hi (ksIn inp) (modelsOf env inp) src.2).chi2.take (nKept env inp (ksIn inp) (modelsOf env inp) src.2) := by
      simp [keep, nKept, List.take_take, x]
    rw [hrows, m2, ← e3, e1, e2]

/-- **E2E (planted model).**  Corollary of row integrity, ranking and `C08_exact2`.  Let the pipeline
    return, let `m` be an SED object of the package that has a parameter row, and let the photometry of
    a fitted source be exactly `m`'s convolved fluxes reddened by `a0` and scaled by `s0`
    (`r = a0·k + s0·q` on every fitted band of `m`'s points), regression non-singular, `lo ≤ a0 ≤ hi`,
    no limit violated at `(a0, s0)`, and every other SED object with chi² > 0 for this source.  Then, if
    anything is listed for the source, row 0 of its block is fit 1, names `m`, reports exactly
    `(a0, s0, 0)` and prints `m`'s own parameter row. -/
theorem E2E_planted (env : PEnv K) (inp : PInput K) (out : POut K)
    (h : runPipeline env inp = .ok out) (hN : NamesOK inp)
    (hT : (inp.table.map (fun y => strip y.1)).Nodup)
    (k : Nat) (src : String × List (Obs K)) (L : SrcListing K)
    (hsrc : (fittedSources inp)[k]? = some src) (hL : out.listings[k]? = some L)
    (m : RT.Sed K) (hm : m ∈ inp.seds) (hmT : m.name ∈ tNames inp) (a0 s0 : K)
    (hex : ∀ p ∈ sedPts env inp src.2 m, p.w ≠ 0 → p.r = a0 * p.k + s0 * p.q)
    (h22 : 0 < m22 (sedPts env inp src.2 m))
    (hdet : 0 < m11 (sedPts env inp src.2 m) * m22 (sedPts env inp src.2 m)
              - m12 (sedPts env inp src.2 m) * m12 (sedPts env inp src.2 m))
    (hlo : inp.lo ≤ a0) (hhi : a0 ≤ inp.hi)
    (hnf : ∀ p ∈ sedPts env inp src.2 m, ¬ forbidden a0 s0 p)
    (hothers : ∀ s ∈ inp.seds, s ≠ m → 0 < (sedFit env inp src.2 s).2.2)
    (hne : L.rows ≠ []) :
    ∃ row, L.rows.head? = some row ∧ row.fitId = 1 ∧ row.name = m.name ∧
      row.av = a0 ∧ row.sc = s0 ∧ row.chi2 = EF.fin 0 ∧
      (∃ y ∈ inp.table, strip y.1 = m.name ∧ y.2 = row.pars) ∧
      (∀ y ∈ inp.table, strip y.1 = m.name → y.2 = row.pars) := by
  -- the planted model's own fit (C08)
  have hwf : WF (sedPts env inp src.2 m) := (C03_weights env.lg env.ln10).2 src.2 (ksIn inp) (sedLogFluxes env inp m)
  have hmfit : sedFit env inp src.2 m = (a0, s0, 0) :=
    (C08_exact2 env.big env.ln1m inp.lo inp.hi a0 s0 _ hex h22 hdet hlo hhi).2.2 hwf hnf
  obtain ⟨row, rest, hrows⟩ := List.exists_cons_of_ne_nil hne
  obtain ⟨-, -, hint⟩ := E2E_row_integrity env inp out h hN hT
  obtain ⟨-, hrow⟩ := hint k src L hsrc hL
  obtain ⟨s, hs, hsn, hy1, hy2, hav, hsc, hchi⟩ := hrow row (by rw [hrows]; simp)
  obtain ⟨-, -, -, -, -, hid, -, hchis, -, -, -, hranked, -⟩ := E2E_ranked env inp out h hN k src L hsrc hL
  -- row 0 carries the smallest chi² of the complete ranking, which contains the planted model's 0
  have hmem := rank_chi2_mem env inp hN src.2 m hm hmT
  rw [hmfit] at hmem
  have hsm : s = m := by
    by_contra hne'
    have hpos := hothers s hs hne'
    rw [hrows, List.map_cons] at hchis
    unfold fullRanking at hchis hranked
    cases hfull : (rankSource env inp.lo inp.hi (ksIn inp) (modelsOf env inp) src.2).chi2 with
    | nil => rw [hfull] at hmem; simp at hmem
    | cons c0 cs =>
      rw [hfull] at hchis hmem hranked
      have hc0 : c0 = row.chi2 := by
        cases hn : L.nFits with
        | zero => rw [hn] at hchis; simp at hchis
        | succ n => rw [hn, List.take_succ_cons] at hchis; exact (List.cons.inj hchis).1.symm
      rcases List.mem_cons.mp hmem with h0 | h0
      · rw [← h0, hchi] at hc0
        simp only [EF.fin.injEq] at hc0
        rw [← hc0] at hpos; exact lt_irrefl _ hpos
      · have hle := (List.pairwise_cons.mp hranked).1 _ h0
        rw [hc0, hchi] at hle
        simp only [EF.leSort, decide_eq_true_eq] at hle
        exact absurd hpos (not_lt.mpr hle)
  subst hsm
  refine ⟨row, by rw [hrows]; rfl, ?_, hsn.symm, ?_, ?_, ?_, ?_, ?_⟩
  · rw [hrows, List.map_cons] at hid
    cases hn : L.nFits with
    | zero => rw [hn] at hid; simp at hid
    | succ n =>
      rw [hn, List.range_succ_eq_map, List.map_cons] at hid
      exact (List.cons.inj hid).1
  · rw [hav, hmfit]
  · rw [hsc, hmfit]
  · rw [hchi, hmfit]
  · rw [hsn]; exact hy1
  · rw [hsn]; exact hy2

/-- **E2E (order invariance).**  Take a package whose parameter table names exactly the SED objects
    (names distinct, one aperture list for all SEDs) and on which the pipeline returns, and suppose that
    for every fitted source the chi² values of the SED objects are pairwise different (tie-free).  Then
    for ANY other directory-listing order of the SED files and ANY other row order of the parameter
    table the pipeline returns too, with the SAME listing (every block, every row, every value);
    the convolved files hold the same row under every label (and are identical when the table order is
    kept). -/
theorem E2E_order_invariant (env : PEnv K) (inp : PInput K) (out : POut K)
    (h : runPipeline env inp = .ok out) (hN : NamesOK inp)
    (hT : (inp.table.map (fun y => strip y.1)).Nodup)
    (hcover : (tNames inp).Perm (inp.seds.map (·.name)))
    (aps : Option (List K)) (haps : ∀ s ∈ inp.seds, s.aps = aps)
    (htie : ∀ src ∈ fittedSources inp, (inp.seds.map (fun s => (sedFit env inp src.2 s).2.2)).Nodup)
    (seds' : List (RT.Sed K)) (table' : List (String × List K))
    (hps : seds'.Perm inp.seds) (hpt : table'.Perm inp.table) :
    ∃ out', runPipeline env (reorder inp seds' table') = .ok out' ∧
      out'.listings = out.listings ∧
      (table'.map (fun y => strip y.1) = inp.table.map (fun y => strip y.1) → out'.conv = out.conv) ∧
      (∀ (j : Nat) (c c' : Conv K (List K)), out.conv[j]? = some c → out'.conv[j]? = some c' →
        c'.apertures = c.apertures ∧ c'.filtwav = c.filtwav ∧ ∀ X, c'.lookup X = c.lookup X) := by
  obtain ⟨first, rest, hrd, hsub, hheads, hne, hflt, hconv, -, hls⟩ := runPipeline_ok env inp out h hN
  -- the reordered input is in the same domain
  have hN' : NamesOK (reorder inp seds' table') :=
    ⟨(hps.map _).nodup_iff.mpr hN.1, fun s hs => hN.2 s (hps.mem_iff.mp hs)⟩
  have hTp : (tNames (reorder inp seds' table')).Perm (tNames inp) := hpt.map _
  have hcover' : (tNames (reorder inp seds' table')).Perm ((reorder inp seds' table').seds.map (·.name)) :=
    hTp.trans (hcover.trans (hps.map _).symm)
  -- every SED file of the other listing can be written and read
  obtain ⟨hrd1, hrd2⟩ := mapO_some (readSed env.tiny) (fun s => s) inp.seds _ hrd
  have hrd' : mapO (readSed env.tiny) seds' = some (seds'.map (fun s => (readSed env.tiny s).getD s)) := by
    apply mapO_of_forall
    intro s hs
    obtain ⟨b, hb⟩ := hrd2 s (hps.mem_iff.mp hs)
    simp [hb]
  have hne' : seds' ≠ [] := by
    intro he
    have : inp.seds = [] := by simpa [he] using hps.symm
    rw [this] at hrd1; simp at hrd1
  obtain ⟨s0, ss, hs0⟩ := List.exists_cons_of_ne_nil hne'
  have hrd'' : mapO (readSed env.tiny) (reorder inp seds' table').seds
      = some ((readSed env.tiny s0).getD s0 :: ss.map (fun s => (readSed env.tiny s).getD s)) := by
    change mapO (readSed env.tiny) seds' = _
    rw [hrd', hs0]; rfl
  -- convolution stage
  obtain ⟨convs', hconvs'⟩ := convStage_live env.tiny (reorder inp seds' table') hN' hcover' _ _ hrd'' hflt
  obtain ⟨first', rest', hrdx, hcv', -, -⟩ := convStage_ok env.tiny _ convs' hconvs' hN'
  have hfa : first.aps = some (aps.getD [env.tiny]) := first_aps env.tiny inp.seds first rest hrd aps haps
  have hfa' : first'.aps = some (aps.getD [env.tiny]) :=
    first_aps env.tiny seds' first' rest' hrdx aps (fun s hs => haps s (hps.mem_iff.mp hs))
  rw [hfa'] at hcv'
  rw [hfa] at hconv hheads
  -- `Models.read`
  have hheads' : ∀ f ∈ (reorder inp seds' table').filters, ∀ X ∈ tNames (reorder inp seds' table'),
      ∃ x, (rowOf env.tiny (nApOf (some (aps.getD [env.tiny]))) f (reorder inp seds' table').seds X).1.head? = some x
        ∧ 0 < x := by
    intro f hf X hX
    change ∃ x, (rowOf env.tiny _ f seds' X).1.head? = some x ∧ 0 < x
    rw [rowOf_perm env.tiny _ f hps hN.1 X]
    exact hheads f hf X (hTp.mem_iff.mp hX)
  obtain ⟨models', hmodels'⟩ := readModels_live env (reorder inp seds' table') _ (some (aps.getD [env.tiny])) hne hheads'
  obtain ⟨hm', -⟩ := readModels_ok env (reorder inp seds' table') _ _ models' hmodels' hN'
    (fun X hX => hcover'.mem_iff.mp hX)
  -- the listing stage gives, source by source, what it gave before
  have hmod : modelsOf env (reorder inp seds' table') = (tNames (reorder inp seds' table')).map (modelOf env inp) := by
    unfold modelsOf
    apply List.map_congr_left
    intro X _
    exact modelOf_reorder env inp seds' table' hps hN.1 X
  have hmperm : (modelsOf env inp).Perm (modelsOf env (reorder inp seds' table')) := by
    rw [hmod]; exact (hTp.map _).symm
  have hsame : ∀ s ∈ fittedSources inp,
      listSource table' inp.selOut s (recordOf env (reorder inp seds' table') s.2)
        = listSource inp.table inp.selOut s (recordOf env inp s.2) := by
    intro s hs
    have hkey := modelsOf_key env inp hN hsub s.2 (htie s hs)
    obtain ⟨r1, r2, r3, r4⟩ := fitRows2_perm_invariant env.big env.ln1m inp.lo inp.hi
      (s.2.map (logTransform env.lg env.ln10)) (ksIn inp) _ _ hmperm hkey
    obtain ⟨e1, e2, e3, e4⟩ := fitSource_congr env inp.lo inp.hi (ksIn inp) (modelsOf env inp)
      (modelsOf env (reorder inp seds' table')) inp.selFit s.2 ⟨r1, r2, r3, r4⟩
    have := listSource_congr table' inp.selOut s (recordOf env inp s.2)
      (recordOf env (reorder inp seds' table') s.2) e1 e2 e3 e4
    rw [this]
    simp only [listSource, listing_perm inp.table table' hpt hT]
  have hls' : mapE (fun s => listSource table' inp.selOut s (recordOf env (reorder inp seds' table') s.2))
      (fittedSources inp) = .ok out.listings := by
    rw [mapE_congr _ _ _ hsame]; exact hls
  -- assemble
  have hrun : runPipeline env (reorder inp seds' table')
      = .ok { conv := convs', fits := (fittedSources inp).map (fun s => recordOf env (reorder inp seds' table') s.2),
              listings := out.listings } := by
    unfold runPipeline
    rw [hconvs']
    simp only
    rw [hcv', hmodels']
    simp only
    rw [ksOf_convFile, hm']
    change (match mapE (fun s => listSource table' inp.selOut s (recordOf env (reorder inp seds' table') s.2))
      (fittedSources inp) with | .error e => _ | .ok ls => _) = _
    rw [hls']
    subst hcv'
    rfl
  refine ⟨_, hrun, rfl, ?_, ?_⟩
  · intro hsameT
    simp only
    rw [hcv', hconv]
    apply List.map_congr_left
    intro f _
    have hT2 : tNames (reorder inp seds' table') = tNames inp := hsameT
    have hrow : ∀ X, rowOf env.tiny (nApOf (some (aps.getD [env.tiny]))) f (reorder inp seds' table').seds X
        = rowOf env.tiny (nApOf (some (aps.getD [env.tiny]))) f inp.seds X :=
      fun X => rowOf_perm env.tiny _ f hps hN.1 X
    simp only [convFile, hT2, hrow]
  · intro j c c' hc hc'
    simp only at hc'
    rw [hcv', List.getElem?_map] at hc'
    rw [hconv, List.getElem?_map] at hc
    cases hf : inp.filters[j]? with
    | none => rw [hf] at hc; simp at hc
    | some f =>
      have hf' : (reorder inp seds' table').filters[j]? = some f := hf
      rw [hf] at hc; rw [hf'] at hc'
      simp only [Option.map_some, Option.some.injEq] at hc hc'
      subst hc; subst hc'
      refine ⟨rfl, rfl, ?_⟩
      intro X
      simp only [Conv.lookup, convFile]
      rw [lookupRow_map X (fun X => (rowOf env.tiny _ f (reorder inp seds' table').seds X).1)
        (fun X => (rowOf env.tiny _ f (reorder inp seds' table').seds X).2),
        lookupRow_map X (fun X => (rowOf env.tiny _ f inp.seds X).1) (fun X => (rowOf env.tiny _ f inp.seds X).2)]
      have hmem : X ∈ tNames (reorder inp seds' table') ↔ X ∈ tNames inp := hTp.mem_iff
      have hrow : rowOf env.tiny (nApOf (some (aps.getD [env.tiny]))) f (reorder inp seds' table').seds X
          = rowOf env.tiny (nApOf (some (aps.getD [env.tiny]))) f inp.seds X := rowOf_perm env.tiny _ f hps hN.1 X
      by_cases hX : X ∈ tNames inp
      · simp [hX, hmem.mpr hX, hrow]
      · have hX' : X ∉ tNames (reorder inp seds' table') := fun hc => hX (hmem.mp hc)
        simp [hX, hX']

/-- **E2E (the pipeline returns on its domain).**  Names distinct / unpadded / ≤ 30 characters, a
    parameter row for exactly the SED objects, every SED file writable and readable, at least one
    aperture, at least one filter, no empty filter, every convolved flux positive: then
    `runPipeline` returns — for any directory-listing order, any table order, any sources, any
    selectors.  (This discharges the "if the pipeline returns" of the theorems above.) -/
theorem E2E_returns (env : PEnv K) (inp : PInput K) (hN : NamesOK inp)
    (hT : (inp.table.map (fun y => strip y.1)).Nodup)
    (hcover : (tNames inp).Perm (inp.seds.map (·.name)))
    (hne : inp.seds ≠ [])
    (hread : ∀ s ∈ inp.seds, ∃ s', readSed env.tiny s = some s')
    (haps : ∀ s ∈ inp.seds, s.aps ≠ some [])
    (hfne : inp.filters ≠ []) (hflt : ∀ f ∈ inp.filters, held f ≠ [])
    (hpos : ∀ f ∈ inp.filters, ∀ s ∈ inp.seds, 0 < sedFlux env.tiny f s) :
    ∃ out, runPipeline env inp = .ok out :=
  runPipeline_live env inp hN hT hcover hne hread haps hfne hflt hpos

/-! ### Non-vacuity: a concrete 2-model package (over ℚ) meets every hypothesis above

Two SED files listed as `mb, ma` (stored in opposite spectral orders), parameter rows `ma , ␣mb` (padded),
three filters (one normalised, stored in decreasing ν), one planted source and one source below
`n_data_min`.  `lg` is instantiated by the identity (the theorems hold for every `lg`). -/

def e2eEnv : PEnv Rat := { lg := fun x => x, ln10 := 2, big := 1000, ln1m := fun c => -c, tiny := 1 / 1000 }
def e2eSedA : RT.Sed Rat :=
  { name := "ma", wav := [1, 2, 4], nu := [4, 2, 1], aps := none, flux := [[3, 5, 7]], err := some [[1, 1, 2]] }
def e2eSedB : RT.Sed Rat :=
  { name := "mb", wav := [4, 2, 1], nu := [1, 2, 4], aps := none, flux := [[2, 2, 9]], err := some [[1, 1, 1]] }
def e2eBands : List (Obs Rat) := [⟨4, 49/5, 1⟩, ⟨4, 41/15, 1/2⟩, ⟨4, 217/20, 1⟩]
def e2eInp : PInput Rat :=
  { seds := [e2eSedB, e2eSedA]
    table := [("ma ", [10, 2]), (" mb", [20, 1])]
    filters := [⟨false, [(1, 1), (3, 1)], 1⟩, ⟨true, [(4, 2), (2, 1)], 2⟩, ⟨false, [(2, 1), (3, 2), (4, 1)], 3/2⟩]
    ext := [(1/2, 4), (1, 2), (2, 1)], v := 1/2
    sources := [("s1", e2eBands), ("s2", [⟨1, 3, 1⟩, ⟨0, 0, 0⟩, ⟨3, 1, 1/2⟩])]
    lo := 0, hi := 5, nDataMin := 2, selFit := Sel.A, selOut := Sel.N 2 }

theorem e2e_readA : readSed e2eEnv.tiny e2eSedA = some
    { name := "ma", wav := [4, 2, 1], nu := [1, 2, 4], aps := some [1 / 1000], flux := [[7, 5, 3]],
      err := some [[2, 1, 1]] } := by
  unfold readSed RT.sedWrite
  simp only [e2eSedA]
  rw [RT.argsort_dec _ (by decide)]
  decide +kernel

theorem e2e_readB : readSed e2eEnv.tiny e2eSedB = some
    { name := "mb", wav := [4, 2, 1], nu := [1, 2, 4], aps := some [1 / 1000], flux := [[2, 2, 9]],
      err := some [[1, 1, 1]] } := by
  unfold readSed RT.sedWrite
  simp only [e2eSedB]
  rw [RT.argsort_inc _ (by decide)]
  decide +kernel

theorem e2e_fluxA (f : PFilter Rat) : sedFlux e2eEnv.tiny f e2eSedA = cvOf (held f) ([1, 2, 4], [7, 5, 3]) := by
  unfold sedFlux; rw [e2e_readA]; rfl
theorem e2e_fluxB (f : PFilter Rat) : sedFlux e2eEnv.tiny f e2eSedB = cvOf (held f) ([1, 2, 4], [2, 2, 9]) := by
  unfold sedFlux; rw [e2e_readB]; rfl

theorem e2e_names : NamesOK e2eInp := by
  refine ⟨by decide, ?_⟩
  intro s hs
  simp only [e2eInp, List.mem_cons, List.not_mem_nil, or_false] at hs
  rcases hs with rfl | rfl <;> exact ⟨by decide, by decide⟩

theorem e2e_table : (e2eInp.table.map (fun y => strip y.1)).Nodup := by decide
theorem e2e_cover : (tNames e2eInp).Perm (e2eInp.seds.map (·.name)) := by decide

/-- the example package is in the domain of `E2E_returns`: the pipeline returns on it -/
theorem e2e_returns : ∃ out, runPipeline e2eEnv e2eInp = .ok out := by
  refine E2E_returns e2eEnv e2eInp e2e_names e2e_table e2e_cover (by decide) ?_ ?_ (by decide) ?_ ?_
  · intro s hs
    simp only [e2eInp, List.mem_cons, List.not_mem_nil, or_false] at hs
    rcases hs with rfl | rfl
    · exact ⟨_, e2e_readB⟩
    · exact ⟨_, e2e_readA⟩
  · intro s hs
    simp only [e2eInp, List.mem_cons, List.not_mem_nil, or_false] at hs
    rcases hs with rfl | rfl <;> decide
  · intro f hf
    simp only [e2eInp, List.mem_cons, List.not_mem_nil, or_false] at hf
    rcases hf with rfl | rfl | rfl <;> decide +kernel
  · intro f hf s hs
    simp only [e2eInp, List.mem_cons, List.not_mem_nil, or_false] at hf hs
    rcases hs with rfl | rfl
    · rw [e2e_fluxB]; rcases hf with rfl | rfl | rfl <;> decide +kernel
    · rw [e2e_fluxA]; rcases hf with rfl | rfl | rfl <;> decide +kernel

theorem e2e_fitted : fittedSources e2eInp = [("s1", e2eBands)] := rfl

/-- hypotheses of `E2E_planted` for the source `s1`, planted from `ma` at `(a0, s0) = (1, 1/2)` -/
theorem e2e_planted_hyps :
    (∀ p ∈ sedPts e2eEnv e2eInp e2eBands e2eSedA, p.w ≠ 0 → p.r = 1 * p.k + (1 / 2) * p.q) ∧
    0 < m22 (sedPts e2eEnv e2eInp e2eBands e2eSedA) ∧
    0 < m11 (sedPts e2eEnv e2eInp e2eBands e2eSedA) * m22 (sedPts e2eEnv e2eInp e2eBands e2eSedA)
          - m12 (sedPts e2eEnv e2eInp e2eBands e2eSedA) * m12 (sedPts e2eEnv e2eInp e2eBands e2eSedA) ∧
    (∀ p ∈ sedPts e2eEnv e2eInp e2eBands e2eSedA, ¬ forbidden 1 (1 / 2) p) ∧
    (∀ s ∈ e2eInp.seds, s ≠ e2eSedA → 0 < (sedFit e2eEnv e2eInp e2eBands s).2.2) ∧
    (e2eInp.seds.map (fun s => (sedFit e2eEnv e2eInp e2eBands s).2.2)).Nodup := by
  refine ⟨?_, ?_, ?_, ?_, ?_, ?_⟩
  · simp only [sedPts, sedLogFluxes, e2e_fluxA]; decide +kernel
  · simp only [sedPts, sedLogFluxes, e2e_fluxA]; decide +kernel
  · simp only [sedPts, sedLogFluxes, e2e_fluxA]; decide +kernel
  · simp only [sedPts, sedLogFluxes, e2e_fluxA, forbidden]; decide +kernel
  · intro s hs hne
    simp only [e2eInp, List.mem_cons, List.not_mem_nil, or_false] at hs
    rcases hs with rfl | rfl
    · simp only [sedFit, sedPts, sedLogFluxes, e2e_fluxB]; decide +kernel
    · exact absurd rfl hne
  · simp only [e2eInp, List.map_cons, List.map_nil, sedFit, sedPts, sedLogFluxes, e2e_fluxA, e2e_fluxB]
    decide +kernel

/-- both selectors keep both fits of `s1` (`('A', ·)` then `('N', 2)`) -/
theorem e2e_nKept : nKept e2eEnv e2eInp (ksIn e2eInp) (modelsOf e2eEnv e2eInp) e2eBands = 2 := by
  have hM := (rank_wf e2eEnv e2eInp.lo e2eInp.hi (ksIn e2eInp) (modelsOf e2eEnv e2eInp) e2eBands).2.2
  have h2 : (modelsOf e2eEnv e2eInp).length = 2 := rfl
  rw [h2] at hM
  unfold nKept
  simp only
  match hc : (rankSource e2eEnv e2eInp.lo e2eInp.hi (ksIn e2eInp) (modelsOf e2eEnv e2eInp) e2eBands).chi2, hM with
  | [c0, c1], _ => simp [nFits, e2eInp]

/-- the conclusions of the four theorems on the example: the block of `s1` lists `ma` first with
    exactly `(1, 1/2, 0)` and `ma`'s parameters `[10, 2]`; and the listing is the same when the SED files
    are listed in the other order and the table rows are swapped -/
example (out : POut Rat) (h : runPipeline e2eEnv e2eInp = .ok out) :
    (∃ L, out.listings[0]? = some L ∧ L.source = "s1" ∧ L.nData = 3 ∧ L.nFits = 2 ∧
      ∃ row, L.rows.head? = some row ∧ row.fitId = 1 ∧ row.name = "ma" ∧ row.av = 1 ∧ row.sc = 1 / 2 ∧
        row.chi2 = EF.fin 0 ∧ row.pars = [10, 2]) ∧
    ∃ out', runPipeline e2eEnv (reorder e2eInp [e2eSedA, e2eSedB] [(" mb", [20, 1]), ("ma ", [10, 2])]) = .ok out' ∧
      out'.listings = out.listings := by
  obtain ⟨hex, h22, hdet, hnf, hothers, htie⟩ := e2e_planted_hyps
  obtain ⟨-, hlen, hint⟩ := E2E_row_integrity e2eEnv e2eInp out h e2e_names e2e_table
  rw [e2e_fitted] at hlen
  obtain ⟨L, hL⟩ : ∃ L, out.listings[0]? = some L := by
    cases hl : out.listings with
    | nil => rw [hl] at hlen; simp at hlen
    | cons a t => exact ⟨a, rfl⟩
  have hsrc : (fittedSources e2eInp)[0]? = some ("s1", e2eBands) := by rw [e2e_fitted]; rfl
  obtain ⟨hsource, -⟩ := hint 0 _ L hsrc hL
  obtain ⟨-, -, hrl, hnf2, hnd, -⟩ := E2E_ranked e2eEnv e2eInp out h e2e_names 0 _ L hsrc hL
  have hnfits : L.nFits = 2 := by rw [hnf2, e2e_nKept]; rfl
  have hne : L.rows ≠ [] := by
    intro he; rw [he, hnfits] at hrl; simp at hrl
  obtain ⟨row, hrow, hid, hname, hav, hsc, hchi, -, hpars⟩ := E2E_planted e2eEnv e2eInp out h e2e_names e2e_table
    0 _ L hsrc hL e2eSedA (by decide) (by decide) 1 (1 / 2) hex h22 hdet (by decide) (by decide) hnf hothers hne
  refine ⟨⟨L, hL, hsource, by rw [hnd]; rfl, hnfits, row, hrow, hid, hname, hav, hsc, hchi, ?_⟩, ?_⟩
  · exact (hpars ("ma ", [10, 2]) (by decide) (by decide)).symm
  · obtain ⟨out', h1, h2, -⟩ := E2E_order_invariant e2eEnv e2eInp out h e2e_names e2e_table e2e_cover none
      (by intro s hs
          simp only [e2eInp, List.mem_cons, List.not_mem_nil, or_false] at hs
          rcases hs with rfl | rfl <;> rfl)
      (by intro src hsrc'
          rw [e2e_fitted] at hsrc'
          simp only [List.mem_cons, List.not_mem_nil, or_false] at hsrc'
          subst hsrc'
          exact htie)
      [e2eSedA, e2eSedB] [(" mb", [20, 1]), ("ma ", [10, 2])] (by decide) (by decide)
    exact ⟨out', h1, h2⟩

/-- … and such an `out` exists -/
example : ∃ out, runPipeline e2eEnv e2eInp = .ok out := e2e_returns

end SF
