import SedVerif.Properties.C02
import SedVerif.Properties.C13
import Mathlib.Analysis.SpecialFunctions.Log.Base
import Mathlib.Algebra.Order.Floor.Semiring
/-!
# The laws assumed of `lg`, `exp10`, `ceilK` hold for the real functions (non-vacuity of C02 / C13 hypotheses)

`C13_variable` and `C02_grid_ends` take `lg` (`log10`) and `exp10` (`10 ** x`) as parameters and assume only
`exp10 (lg x) = x` for `x > 0` and that `lg` is increasing on positive numbers; `C02_grid` / `C02_grid_ends`
assume the two inequalities that characterise the ceiling.  Over `K := ℝ` with `lg := Real.logb 10`,
`exp10 := fun y => 10 ^ y`, `ceilK := Nat.ceil` these hold, and the theorems instantiate.
-/
namespace SF
open _root_.SF.Dist

theorem real_exp10_lg (x : ℝ) (hx : 0 < x) : (fun y : ℝ => (10 : ℝ) ^ y) (Real.logb 10 x) = x :=
  Real.rpow_logb (by norm_num) (by norm_num) hx

theorem real_lg_lt (x y : ℝ) (hx : 0 < x) (hxy : x < y) : Real.logb 10 x < Real.logb 10 y :=
  Real.logb_lt_logb (by norm_num) hx hxy

theorem real_ceil_laws : (∀ x : ℝ, x ≤ ((⌈x⌉₊ : ℕ) : ℝ)) ∧ (∀ (x : ℝ) (m : ℕ), x ≤ (m : ℝ) → ⌈x⌉₊ ≤ m) :=
  ⟨fun x => Nat.le_ceil x, fun _ _ h => Nat.ceil_le.mpr h⟩

/-- `C13_variable` over the reals with the real `log10` / `10 ** x` -/
example (s : SedTab ℝ) (a0 a1 : ℝ) (rest : List ℝ) (haps : s.aps = a0 :: a1 :: rest) (hinc : Incr s.aps)
    (ha0 : 0 < a0) (hshape1 : s.flux.length = s.aps.length) (hshape2 : ∀ row ∈ s.flux, row.length = s.wav.length)
    (fw fa : List ℝ) (hlen : fw.length = fa.length) (hnd : fw.Nodup) (hwpos : ∀ w ∈ fw, 0 < w)
    (out : List ℝ) (hok : interpVariable (Real.logb 10) (fun y => (10 : ℝ) ^ y) s fw fa = .ok out) :
    out.length = s.wav.length :=
  (C13_variable (Real.logb 10) (fun y => (10 : ℝ) ^ y) real_exp10_lg real_lg_lt s a0 a1 rest haps hinc ha0
    hshape1 hshape2 fw fa hlen hnd hwpos out hok).1

/-- `C02_grid_ends` over the reals: the trial distances run from `dmin` to `dmax` -/
example (dlo dhi step : ℝ) (h0 : 0 < dlo) (hlt : dlo < dhi) (hs : 0 < step) :
    (distancesKpc (Real.logb 10) (fun y => (10 : ℝ) ^ y) (fun x => ⌈x⌉₊) dlo dhi step)[0]? = some dlo :=
  (C02_grid_ends (Real.logb 10) (fun y => (10 : ℝ) ^ y) real_exp10_lg real_lg_lt (fun x => ⌈x⌉₊)
    real_ceil_laws.1 real_ceil_laws.2 dlo dhi step h0 hlt hs).2.1

end SF
