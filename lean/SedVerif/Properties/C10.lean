import SedVerif.Proofs.History
/-!
# C10 — `fit()` writes one faithful record per eligible source; the file reads back unchanged; the
# three input forms of the post-processing functions are interchangeable and never modified

Property theorems only.  Model: `SedVerif/Model/History.lean` (`fitLoop`/`fitMany`, `Writer.write`,
`serialize`, `readAll`; heap machine `yield1`/`iterKeep`/`iterSplit`/`step`/`run`).  Helper lemmas:
`SedVerif/Proofs/History.lean`.  Core Lean only.

All statements are for every line list, every parser / fit / selector functions, every record list,
every heap, every sequence of calls.  The only assumptions are the two laws of the byte codec
(`CodecLaws`, pickle itself is not modelled — the runtime part of this property, observed by the
correspondence check) and, for the output theorems, that the inputs of the calls refer to objects that
exist in the caller's heap (a dangling reference cannot be written down in Python).
-/
namespace SF
open Hist

section records
variable {L Src Hdr Rec B : Type} [DecidableEq Hdr]

/-- **C10 (records).**  The frames `fit()` writes are: nothing when no source is eligible, otherwise
    the fitter's metadata once and then, in input order, `keep(output_format)` of the fit (with the
    predicted fluxes dropped unless `output_convolved`) of every source that was parsed before the
    first `EOFError` and has `n_data >= n_data_min`.  A parse error other than `EOFError` propagates. -/
theorem C10_records (c : FitCfg L Src Hdr Rec) (lines : List L) :
    fitMany c lines =
      (parsePrefix c.parse lines).map
        (fun ss => framesOf c.hdr ((ss.filter (fun s => decide (c.nMin ≤ (c.nData s : Int)))).map
          (fun s => c.keepSel (if c.conv then c.fitOne s else c.dropFluxes (c.fitOne s))))) := by
  have h := fitLoop_spec c lines Writer.new (Or.inl rfl)
  unfold fitMany
  cases hq : parsePrefix c.parse lines with
  | error e => rw [hq] at h; simp only at h; rw [h]; rfl
  | ok ss =>
    rw [hq] at h
    obtain ⟨w', h1, ho⟩ := h
    rw [h1]
    simp only [Except.map, ho]
    simp only [Writer.new, appended, FitCfg.records, List.nil_append]
    rfl

/-- **C10 (records, spelled out).**  If the lines `pre` parse to the sources `ss` and are followed by
    the end of the file or by a line on which `from_ascii` raises `EOFError` (a blank line), the file
    holds the header and the records of the eligible sources among `ss`, whatever follows. -/
theorem C10_records_upto_eof (c : FitCfg L Src Hdr Rec) (pre tail : List L) (ss : List Src)
    (hpre : pre.map c.parse = ss.map .ok)
    (htail : tail = [] ∨ ∃ l rest, tail = l :: rest ∧ c.parse l = .error .eof) :
    fitMany c (pre ++ tail) = .ok (framesOf c.hdr (c.records ss)) := by
  rw [C10_records, parsePrefix_upto c.parse pre ss tail hpre htail]
  rfl

/-- **C10 (metadata once).**  A non-empty output starts with the header and contains no other header
    frame; its record frames are the remaining `length − 1` frames. -/
theorem C10_header_once (c : FitCfg L Src Hdr Rec) (lines : List L) (fs : List (Frame Hdr Rec))
    (h : fitMany c lines = .ok fs) (hne : fs ≠ []) :
    fs.head? = some (.hdr c.hdr) ∧ (fs.filter Frame.isHdr).length = 1 := by
  rw [C10_records] at h
  cases hq : parsePrefix c.parse lines with
  | error e => rw [hq] at h; cases h
  | ok ss =>
    rw [hq] at h
    simp only [Except.map, Except.ok.injEq] at h
    subst h
    generalize (List.map _ (List.filter _ ss)) = rs at hne ⊢
    cases rs with
    | nil => exact absurd rfl hne
    | cons r rs =>
      refine ⟨rfl, ?_⟩
      simp only [framesOf, List.filter, Frame.isHdr, List.length_cons]
      have : List.filter Frame.isHdr (rs.map (Frame.recd (Hdr := Hdr))) = [] := by
        induction rs with
        | nil => rfl
        | cons a as ih => simp [Frame.isHdr]
      rw [this]; rfl

variable {encH : Hdr → List B} {decH : List B → Dec Hdr B} {enc : Rec → List B} {dec : List B → Dec Rec B}

/-- **C10 (read-back).**  Writing any non-empty list of records that share the metadata `h` with
    `FitInfoFile.write` and reading the bytes back returns the metadata and every record, in order. -/
theorem C10_readback (hH : CodecLaws encH decH) (hR : CodecLaws enc dec) (h : Hdr) (rs : List Rec)
    (hne : rs ≠ []) :
    ∃ fs, writeAll h rs = .ok fs ∧ readAll decH dec (serialize encH enc fs) = .ok (h, rs) := by
  refine ⟨framesOf h rs, writeAll_eq h rs, ?_⟩
  cases rs with
  | nil => exact absurd rfl hne
  | cons r rs => exact readAll_framesOf hH hR h r rs trivial (fun _ _ => trivial)

/-- the case the property excludes: no record written leaves a zero-byte file, and opening it for
    reading raises `EOFError` -/
theorem C10_readback_empty (hH : CodecLaws encH decH) (h : Hdr) :
    writeAll h ([] : List Rec) = .ok [] ∧
    serialize encH enc ([] : List (Frame Hdr Rec)) = [] ∧
    readAll decH dec (serialize encH enc ([] : List (Frame Hdr Rec))) = .error .eof := by
  refine ⟨rfl, rfl, ?_⟩
  simp [serialize, readAll, hH.atEnd]

/-- **C10 (fit then read).**  Reading back what `fit()` wrote returns the fitter's metadata and
    exactly the records of `C10_records`. -/
theorem C10_fit_then_read (hH : CodecLaws encH decH) (hR : CodecLaws enc dec)
    (c : FitCfg L Src Hdr Rec) (lines : List L) (ss : List Src)
    (hp : parsePrefix c.parse lines = .ok ss) (hne : c.records ss ≠ []) :
    ∃ fs, fitMany c lines = .ok fs ∧
      readAll decH dec (serialize encH enc fs) = .ok (c.hdr, c.records ss) := by
  refine ⟨framesOf c.hdr (c.records ss), ?_, ?_⟩
  · rw [C10_records, hp]; rfl
  · cases hr : c.records ss with
    | nil => exact absurd hr hne
    | cons r rs => exact readAll_framesOf hH hR c.hdr r rs trivial (fun _ _ => trivial)

end records

/-! ### the repo's own `__getstate__` / `__setstate__` -/
section states
variable {F M Fl B : Type}

/-- **C10 (state round trip).**  `FitInfo.__setstate__(FitInfo.__getstate__(x))` restores the seven
    named fields (the `Source` inside goes through its own six-field state and its validating
    setters) and a NEW empty `meta` (`m0`); `FitInfoFile.__iter__` then re-attaches the header, so a
    record whose `meta` is the header comes back as it was. -/
theorem C10_state_roundtrip (x : FitInfo F M) (m0 : M) (hs : x.core.source.WF) :
    FitInfo.setstate m0 x.getstate = .ok ⟨x.core, m0⟩ ∧
    (FitInfo.setstate m0 x.getstate).map (FitInfo.attach x.fmeta) = .ok x := by
  simp [FitInfo.setstate, FitInfo.getstate, fitcore_state_roundtrip x.core hs, Except.map, FitInfo.attach]

/-- **C10 (state round trip, Source).**  Six fields; the setters accept what a `Source` can hold. -/
theorem C10_state_roundtrip_source (s : Source F) (h : s.WF) : Source.setstate s.getstate = .ok s :=
  source_state_roundtrip s h

/-- **C10 (state round trip, Extinction and header).**  `wav`, `chi` with their units; the header is
    `model_dir`, `filters` and the state of the law. -/
theorem C10_state_roundtrip_extinction (isLen isApm : String → Bool) (e : Extinction F) (h : e.WF isLen isApm)
    (m : Meta F Fl) (hm : m.law.WF isLen isApm) :
    Extinction.setstate isLen isApm e.getstate = .ok e ∧ Meta.setstate isLen isApm m.getstate = .ok m :=
  ⟨extinction_state_roundtrip isLen isApm e h, meta_state_roundtrip isLen isApm m hm⟩

/-- **C10 (read-back through the states).**  With pickle reduced to a byte codec for STATES
    (dictionaries of arrays, strings, numbers) — the only thing still assumed — writing records
    (`FitInfo` without `meta`) under a header and reading the bytes back returns header and records. -/
theorem C10_readback_state [DecidableEq (Meta F Fl)] (isLen isApm : String → Bool)
    {encS : List (String × PV F) → List B} {decS : List B → Dec (List (String × PV F)) B}
    {encHS : String × Fl × List (String × PV0 F) → List B}
    {decHS : List B → Dec (String × Fl × List (String × PV0 F)) B}
    (hS : CodecLaws encS decS) (hHS : CodecLaws encHS decHS)
    (h : Meta F Fl) (hh : h.law.WF isLen isApm) (rs : List (FitCore F)) (hne : rs ≠ [])
    (hrs : ∀ r ∈ rs, r.source.WF) :
    ∃ fs, writeAll h rs = .ok fs ∧
      readAll (decVia (Meta.setstate isLen isApm) decHS) (decVia FitCore.setstate decS)
        (serialize (encVia Meta.getstate encHS) (encVia FitCore.getstate encS) fs) = .ok (h, rs) := by
  refine ⟨framesOf h rs, writeAll_eq h rs, ?_⟩
  have cH := codec_via (P := fun m : Meta F Fl => m.law.WF isLen isApm) hHS
    (fun m hm => meta_state_roundtrip isLen isApm m hm)
  have cR := codec_via (P := fun r : FitCore F => r.source.WF) hS (fun r hr => fitcore_state_roundtrip r hr)
  cases rs with
  | nil => exact absurd rfl hne
  | cons r rs => exact readAll_framesOf cH cR h r rs hh hrs

end states

section histories
variable {X Sel Thr V Pk : Type}

/-- **C10 (no mutation).**  With the iterator as repaired (in-memory results are yielded as SHALLOW
    copies: fresh objects whose attributes point at the caller's own arrays), after EVERY sequence of
    calls of the repo's post-processing ops, on every input form (including calls that raise): every
    reference of the caller leads to the same object, every array / `Source` / `meta` cell the caller
    can reach holds what it held, and so every result has the value it had. -/
theorem C10_no_mutation (S : Sem X Sel Thr V Pk) (calls : List (Op Sel Thr Pk × Input X)) (st0 : Store X)
    (hc : ∀ c ∈ calls, c.1.noInplace = true) :
    (∀ r, r < freshRef st0.objs → lookupRef r (run S .copy st0 calls).1.objs = lookupRef r st0.objs) ∧
    (∀ a, a < freshRef st0.cells → lookupRef a (run S .copy st0 calls).1.cells = lookupRef a st0.cells) ∧
    (∀ r v, deref st0 r = some v → deref (run S .copy st0 calls).1 r = some v) := by
  have e := run_copy_ext S calls st0 hc
  exact ⟨e.1.2, e.2.2, fun r v hv => deref_ext e r v hv⟩

/-- **C10 (outputs depend on the records only).**  The output of every call of a history is the
    output that call has on the records its input denoted at the start — independent of the calls
    made before and of the form of the input. -/
theorem C10_outputs_spec (S : Sem X Sel Thr V Pk) (calls : List (Op Sel Thr Pk × Input X)) (st0 : Store X)
    (hc : ∀ c ∈ calls, c.1.noInplace = true)
    (hv : ∀ c ∈ calls, ∃ recs, denote st0 c.2 = some recs) :
    (run S .copy st0 calls).2 =
      calls.map (fun c => match denote st0 c.2 with
                          | none => .error .badRef
                          | some recs => specOut S c.1 recs) := by
  rw [run_copy_out S st0 calls st0 (Ext2.refl st0) hc hv _ rfl, List.map_map]
  rfl

/-- **C10 (form independence).**  For every sequence of the repo's ops, passing the results as a
    file, as one object or as a list of objects gives the same outputs whenever the inputs hold equal
    records. -/
theorem C10_form_independent (S : Sem X Sel Thr V Pk) (ops : List (Op Sel Thr Pk)) (st0 : Store X)
    (hc : ∀ op ∈ ops, op.noInplace = true)
    (inA inB : Input X) (recs : List (RecV X))
    (hA : denote st0 inA = some recs) (hB : denote st0 inB = some recs) :
    (run S .copy st0 (ops.map (fun op => (op, inA)))).2 = (run S .copy st0 (ops.map (fun op => (op, inB)))).2 ∧
    (run S .copy st0 (ops.map (fun op => (op, inA)))).2 = ops.map (fun op => specOut S op recs) := by
  have key : ∀ inp : Input X, denote st0 inp = some recs →
      (run S .copy st0 (ops.map (fun op => (op, inp)))).2 = ops.map (fun op => specOut S op recs) := by
    intro inp hi
    rw [C10_outputs_spec S _ st0 (by
      intro c hc'
      obtain ⟨op, hop, rfl⟩ := List.mem_map.mp hc'
      exact hc op hop) (by
      intro c hc'
      obtain ⟨op, _, rfl⟩ := List.mem_map.mp hc'
      exact ⟨recs, hi⟩)]
    simp [List.map_map, Function.comp_def, hi]
  exact ⟨by rw [key inA hA, key inB hB], key inA hA⟩

/-- the three forms hold equal records: a file with the record, a list with a reference to an object
    of that value, and the object itself -/
theorem C10_forms_denote (st0 : Store X) (r : Nat) (v : RecV X) (hr : deref st0 r = some v) :
    denote st0 (.file [v]) = some [v] ∧ denote st0 (.obj r) = some [v] ∧ denote st0 (.list [r]) = some [v] := by
  simp [denote, Input.items, itemsVals, itemVal, hr]

end histories

/-! ## Non-vacuity -/
section examples
set_option synthInstance.maxSize 1024

/-- a toy codec that satisfies the laws: two-byte records, one-byte headers -/
def exEnc (p : Nat × Nat) : List Nat := [p.1, p.2]
def exDec : List Nat → Dec (Nat × Nat) Nat
  | [] => .eof
  | [_] => .bad
  | a :: b :: rest => .ok (a, b) rest
def exEncH (h : Nat) : List Nat := [h]
def exDecH : List Nat → Dec Nat Nat
  | [] => .eof
  | a :: rest => .ok a rest

example : CodecLaws exEnc exDec := ⟨fun _ _ _ => rfl, rfl⟩
example : CodecLaws exEncH exDecH := ⟨fun _ _ _ => rfl, rfl⟩

/-- a data file of 6 lines: `(name, n_data)`; `none` is a blank line -/
def exCfg (nMin : Int) (conv : Bool) : FitCfg (Option (Nat × Nat)) (Nat × Nat) Nat (Nat × Nat) where
  parse := fun l => match l with | none => .error .eof | some s => .ok s
  nData := fun s => s.2
  fitOne := fun s => (s.1, 100 + s.2)
  dropFluxes := fun r => (r.1, r.2 - 100)
  keepSel := fun r => (r.1, r.2 + 1000)
  hdr := 7
  nMin := nMin
  conv := conv

def exLines : List (Option (Nat × Nat)) := [some (0, 3), some (1, 1), some (2, 4), some (3, 2), none, some (5, 9)]

-- sources 0, 2 are eligible for n_data_min = 3; source 5 comes after the blank line
example : fitMany (exCfg 3 false) exLines = .ok [.hdr 7, .recd (0, 1003), .recd (2, 1004)] := by decide
example : fitMany (exCfg 3 true) exLines = .ok [.hdr 7, .recd (0, 1103), .recd (2, 1104)] := by decide
-- n_data_min above every n_data: zero-byte file
example : fitMany (exCfg 5 false) exLines = .ok [] := by decide
-- the bytes read back
example : readAll exDecH exDec (serialize exEncH exEnc [.hdr 7, .recd (0, 1003), .recd (2, 1004)])
    = .ok (7, [(0, 1003), (2, 1004)]) := by decide
example : readAll exDecH exDec (serialize exEncH exEnc ([] : List (Frame Nat (Nat × Nat)))) = .error .eof := by decide
-- hypotheses of `C10_records_upto_eof` and `C10_fit_then_read` are met by this instance
example : (exLines.take 4).map (exCfg 3 false).parse = [(0, 3), (1, 1), (2, 4), (3, 2)].map .ok := by decide
example : parsePrefix (exCfg 3 false).parse exLines = .ok [(0, 3), (1, 1), (2, 4), (3, 2)] ∧
    (exCfg 3 false).records [(0, 3), (1, 1), (2, 4), (3, 2)] ≠ [] := by decide

-- states: a well-formed source / law (hypotheses of the state theorems), and a setter that rejects
def c10ExSource : Source Int := ⟨"s1", 10, -20, [1, 4, 9, 0], [5, 6, 7, 8], [1, 1, 2, 2]⟩
example : c10ExSource.WF := by decide
example : ¬ (⟨"bad", 0, 0, [1, 7], [5, 6], [1, 1]⟩ : Source Int).WF := by decide
def c10ExIsLen (u : String) : Bool := u == "micron"
def c10ExIsApm (u : String) : Bool := u == "cm2 / g"
def c10ExLaw : Extinction Int := ⟨⟨[1, 2, 3], "micron"⟩, ⟨[30, 20, 10], "cm2 / g"⟩⟩
example : c10ExLaw.WF c10ExIsLen c10ExIsApm := by decide

/-- two caller objects with 3 and 2 rows; the cells 0..7 are their arrays and sub-objects -/
def c10ExRecs : List (CRec Int) := [⟨0, [0, 1, 2], 5, 1⟩, ⟨1, [0, 1], 40, 20⟩]

def c10ExStore : Store (CX Int) :=
  { objs := [(0, [⟨0, some 3⟩, ⟨1, none⟩, ⟨2, none⟩, ⟨3, none⟩]), (1, [⟨4, some 2⟩, ⟨5, none⟩, ⟨6, none⟩, ⟨7, none⟩])],
    cells := [(0, [.row 0, .row 1, .row 2]), (1, [.src 0]), (2, [.best 5]), (3, [.bestpd 1]),
              (4, [.row 0, .row 1]), (5, [.src 1]), (6, [.best 40]), (7, [.bestpd 20])] }

def exSem : Sem (CX Int) (Nat → Nat) (Option Int × Option Int) (Option (Nat × List Nat)) Nat := csem

abbrev C10ExOp := Op (Nat → Nat) (Option Int × Option Int) Nat

def exCalls (inp : Input (CX Int)) : List (C10ExOp × Input (CX Int)) :=
  [(.writeParameters (fun _ => 1), inp), (.plotParams2d (fun _ => 2), inp), (.filterOutput (some 10, none), inp)]

example : deref c10ExStore 0 = some (c10ExRecs[0]).toV ∧ deref c10ExStore 1 = some (c10ExRecs[1]).toV := by decide

-- the history cuts to 1 row, then (from the uncut object again) to 2 rows, then splits
example : (run exSem .copy c10ExStore (exCalls (.list [0, 1]))).2 =
    [.ok (.printed [some (0, [0]), some (1, [0])]), .ok (.printed [some (0, [0, 1]), some (1, [0, 1])]),
     .ok (.split [(c10ExRecs[0]).toV] [(c10ExRecs[1]).toV])] := by decide
-- file form, same records, same outputs
example : (run exSem .copy c10ExStore (exCalls (.file (c10ExRecs.map CRec.toV)))).2 =
    (run exSem .copy c10ExStore (exCalls (.list [0, 1]))).2 := by decide
-- the caller's objects AND arrays are as before
example : (∀ r ∈ [0, 1], lookupRef r (run exSem .copy c10ExStore (exCalls (.list [0, 1]))).1.objs = lookupRef r c10ExStore.objs) ∧
    (∀ a ∈ List.range 8, lookupRef a (run exSem .copy c10ExStore (exCalls (.list [0, 1]))).1.cells = lookupRef a c10ExStore.cells) := by
  decide
-- the shallow copy really shares: the object yielded for caller object 0 points at the caller's cells 0..3
example : (yield1 .copy c10ExStore (.mem 0)).map (fun p => lookupRef p.2 p.1.objs) =
    .ok (some [⟨0, some 3⟩, ⟨1, none⟩, ⟨2, none⟩, ⟨3, none⟩]) := by decide
-- hypotheses of `C10_form_independent` are met
example : denote c10ExStore (.list [0, 1]) = some (c10ExRecs.map CRec.toV) ∧
    denote c10ExStore (.file (c10ExRecs.map CRec.toV)) = some (c10ExRecs.map CRec.toV) ∧
    denote c10ExStore (.obj 0) = some [(c10ExRecs[0]).toV] := by decide

end examples

/-! ## Negative controls

(1) the iterator before the repair, `Iter.alias` (`yield info`: the consumer's `keep` rebinds the
attributes of the caller's own object); (2) an op that, after `keep`, writes IN PLACE through an
attribute of the yielded shallow copy (`info.model_fluxes += …`, which no consumer of the repo does):
the write lands in the cell the caller's object points to.  With either, the history theorems are
false — so they do say something about aliasing and about sharing. -/
section negative
set_option synthInstance.maxSize 1024

/-- **C10 (negative control, aliasing).**  One call — `write_parameters(info, select_format=('N', 1))`
    on an object with three fits — leaves the caller's object with one fit. -/
theorem C10_alias_mutates :
    ¬ ∀ (calls : List (C10ExOp × Input (CX Int))) (st0 : Store (CX Int)) (r : Nat) (v : RecV (CX Int)),
        (∀ c ∈ calls, c.1.noInplace = true) →
        deref st0 r = some v → deref (run exSem .alias st0 calls).1 r = some v := by
  intro h
  have := h [(.writeParameters (fun _ => 1), .obj 0)] c10ExStore 0 (c10ExRecs[0]).toV (by decide) (by decide)
  revert this
  decide

/-- **C10 (negative control, form dependence under aliasing).**  `('N', 1)` then `('N', 2)`: from a
    file the second call prints two rows, from the object only one is left. -/
theorem C10_alias_form_dependent :
    ¬ ∀ (ops : List C10ExOp) (st0 : Store (CX Int)) (inA inB : Input (CX Int)) (recs : List (RecV (CX Int))),
        (∀ op ∈ ops, op.noInplace = true) →
        denote st0 inA = some recs → denote st0 inB = some recs →
        (run exSem .alias st0 (ops.map (fun op => (op, inA)))).2 = (run exSem .alias st0 (ops.map (fun op => (op, inB)))).2 := by
  intro h
  have := h [.writeParameters (fun _ => 1), .writeParameters (fun _ => 2)] c10ExStore
    (.file [(c10ExRecs[0]).toV]) (.obj 0) [(c10ExRecs[0]).toV] (by decide) (by decide) (by decide)
  revert this
  decide

/-- **C10 (negative control, in-place write through the shallow copy).**  In COPY mode, one call that
    cuts to 2 fits and then writes in place through attribute 0 changes the caller's array (cell 0):
    without the hypothesis `noInplace`, `C10_no_mutation` is false. -/
theorem C10_inplace_mutates :
    ¬ ∀ (calls : List (C10ExOp × Input (CX Int))) (st0 : Store (CX Int)) (a : Nat),
        a < freshRef st0.cells → lookupRef a (run exSem .copy st0 calls).1.cells = lookupRef a st0.cells := by
  intro h
  have := h [(.inplace (fun _ => 2) 0 10, .obj 0)] c10ExStore 0 (by decide)
  revert this
  decide

/-- **C10 (negative control, form dependence after an in-place write).**  The in-place op, then
    `filter_output`: the records written differ between the file form and the object form. -/
theorem C10_inplace_form_dependent :
    ¬ ∀ (ops : List C10ExOp) (st0 : Store (CX Int)) (inA inB : Input (CX Int)) (recs : List (RecV (CX Int))),
        denote st0 inA = some recs → denote st0 inB = some recs →
        (run exSem .copy st0 (ops.map (fun op => (op, inA)))).2 = (run exSem .copy st0 (ops.map (fun op => (op, inB)))).2 := by
  intro h
  have := h [.inplace (fun _ => 2) 0 10, .filterOutput (some 10, none)] c10ExStore
    (.file [(c10ExRecs[0]).toV]) (.obj 0) [(c10ExRecs[0]).toV] (by decide) (by decide)
  revert this
  decide

end negative

/-! ## What the harness enforces since: verbatim metadata and names, options on both sides, readers, file names -/
section verbatim
variable {F Fl : Type}

/-- **C10 (model directory verbatim).**  Whatever string was passed as `model_dir` (relative, with a
    trailing slash, with `..` — no normalisation anywhere): if the header state loads at all, the
    directory and the filters read back are the ones written; and the header frame `fit()` writes is
    the fitter's metadata itself, once, so every record of the file carries that same string. -/
theorem C10_model_dir_verbatim (isLen isApm : String → Bool) (m m' : Meta F Fl)
    (h : Meta.setstate isLen isApm m.getstate = .ok m') :
    m'.modelDir = m.modelDir ∧ m'.filters = m.filters := by
  simp only [Meta.setstate, Meta.getstate] at h
  cases hl : Extinction.setstate isLen isApm m.law.getstate with
  | error e => rw [hl] at h; cases h
  | ok l =>
    rw [hl] at h
    simp only [Except.ok.injEq] at h
    subst h
    exact ⟨rfl, rfl⟩

/-- every header frame of a fit file is the metadata of the fitter that wrote it (for every `Hdr`, in
    particular `Meta` with any `modelDir` string) -/
theorem C10_meta_verbatim {L Src Hdr Rec : Type} [DecidableEq Hdr] (c : FitCfg L Src Hdr Rec) (lines : List L)
    (fs : List (Frame Hdr Rec)) (h : fitMany c lines = .ok fs) :
    ∀ h', Frame.hdr h' ∈ fs → h' = c.hdr := by
  rw [C10_records] at h
  cases hq : parsePrefix c.parse lines with
  | error e => rw [hq] at h; cases h
  | ok ss =>
    rw [hq] at h
    simp only [Except.map, Except.ok.injEq] at h
    subst h
    intro h' hm
    generalize (List.map _ (List.filter _ ss)) = rs at hm
    cases rs with
    | nil => simp [framesOf] at hm
    | cons r rs =>
      simp only [framesOf, List.mem_cons, Frame.hdr.injEq, List.mem_map] at hm
      rcases hm with hm | hm | ⟨_, _, hm⟩
      · exact hm
      · cases hm
      · cases hm

/-- **C10 (model names verbatim).**  `__setstate__ ∘ __getstate__` returns the list of model names it
    was given — strings of ANY length, no truncation to the 30 characters of `MODEL_NAME` — together
    with the other per-fit fields. -/
theorem C10_names_verbatim (c c' : FitCore F) (h : FitCore.setstate c.getstate = .ok c') :
    c'.modelName = c.modelName ∧ c'.modelId = c.modelId ∧ c'.chi2 = c.chi2 ∧ c'.av = c.av ∧ c'.sc = c.sc ∧
    c'.modelFluxes = c.modelFluxes := by
  obtain ⟨s, av, sc, chi2, mid, mn, mf⟩ := c
  simp only [FitCore.setstate, FitCore.getstate, getKey, String.reduceEq, if_true, if_false] at h
  cases hs : Source.setstate s.getstate with
  | error e => cases mf <;> simp [hs] at h
  | ok s' =>
    cases mf with
    | none =>
      simp only [hs, Except.ok.injEq] at h
      subst h; exact ⟨rfl, rfl, rfl, rfl, rfl, rfl⟩
    | some m =>
      simp only [hs, Except.ok.injEq] at h
      subst h; exact ⟨rfl, rfl, rfl, rfl, rfl, rfl⟩

end verbatim

section options
variable {L Src Hdr Rec : Type} [DecidableEq Hdr]

/-- the options that `fit()` forwards to the `Fitter` it builds / applies itself -/
structure FitOpts where
  memmap : Bool          -- `use_memmap` of the Fitter (float32 model fluxes for version-2 packages)
  conv : Bool            -- `output_convolved`
  deriving DecidableEq, Repr

/-- `fit()` run with options `o`, where `fitWith mm` is the object interface `Fitter(use_memmap=mm).fit` -/
def cfgWith (parse : L → Except Err Src) (nData : Src → Nat) (fitWith : Bool → Src → Rec)
    (dropFluxes keepSel : Rec → Rec) (hdr : Hdr) (nMin : Int) (o : FitOpts) : FitCfg L Src Hdr Rec :=
  ⟨parse, nData, fitWith o.memmap, dropFluxes, keepSel, hdr, nMin, o.conv⟩

/-- **C10 (same options on both sides).**  The records `fit()` writes under options `o` are the
    object-interface results under THE SAME `o` (same `use_memmap`, predicted fluxes dropped iff not
    `output_convolved`), selector applied: `o` occurs on both sides, so a `fit()` that built its Fitter
    with other options than the caller's Fitter is a different right-hand side. -/
theorem C10_same_options (parse : L → Except Err Src) (nData : Src → Nat) (fitWith : Bool → Src → Rec)
    (dropFluxes keepSel : Rec → Rec) (hdr : Hdr) (nMin : Int) (o : FitOpts) (lines : List L) :
    fitMany (cfgWith parse nData fitWith dropFluxes keepSel hdr nMin o) lines =
      (parsePrefix parse lines).map (fun ss => framesOf hdr
        ((ss.filter (fun s => decide (nMin ≤ (nData s : Int)))).map
          (fun s => keepSel (if o.conv then fitWith o.memmap s else dropFluxes (fitWith o.memmap s))))) := by
  rw [C10_records]; rfl

end options

section readers
variable {X Sel Thr V Pk : Type}

/-- **C10 (frame condition for every reader).**  Whatever a consumer computes and prints from the
    (cut) record — `view` is ARBITRARY: log or linear axes, `additional=` columns, any parameter, any
    file format —, whatever its routing decision (`isGood`: `chi`, `cpd`, both, given by keyword or by
    position) and however its selector counts (`nKeep`): as long as it does what the repo's consumers
    do (iterate, `keep`, read), the caller's objects and arrays are untouched after every sequence of
    calls on every input form. -/
theorem C10_readers_frame (nKeep : Sel → RecV X → Nat) (view : Op Sel Thr Pk → RecV X → V)
    (isGood : Thr → RecV X → Except Err Bool) (poke : Pk → X → X)
    (calls : List (Op Sel Thr Pk × Input X)) (st0 : Store X) (hc : ∀ c ∈ calls, c.1.noInplace = true) :
    (∀ r, r < freshRef st0.objs →
      lookupRef r (run ⟨nKeep, view, isGood, poke⟩ .copy st0 calls).1.objs = lookupRef r st0.objs) ∧
    (∀ a, a < freshRef st0.cells →
      lookupRef a (run ⟨nKeep, view, isGood, poke⟩ .copy st0 calls).1.cells = lookupRef a st0.cells) :=
  let h := C10_no_mutation ⟨nKeep, view, isGood, poke⟩ calls st0 hc
  ⟨h.1, h.2.1⟩

end readers

section filenames

/-- `extract_parameters` / `plot_params_*` / `plot`: `output_prefix + info.source.name + output_suffix`
    (resp. `"%s/%s.%s" % (output_dir, name, format)`): the name enters the file name verbatim -/
def fileNameOf (pre suf name : List Char) : List Char := pre ++ name ++ suf

/-- **C10 (file names).**  The per-source file name is the name itself between a fixed prefix and
    suffix — no character is replaced (`:` `?` `*` `"` `<` `>` `|` `\` included) — so distinct source
    names give distinct files, and the name can be read off the file name. -/
theorem C10_file_name_injective (pre suf a b : List Char) (h : fileNameOf pre suf a = fileNameOf pre suf b) :
    a = b := by
  simp only [fileNameOf, List.append_assoc] at h
  exact List.append_cancel_right (List.append_cancel_left h)

end filenames

section examples2
set_option synthInstance.maxSize 1024

-- a relative, non-normalised model directory and a 45-character model name go through the states
def c10ExMeta : Meta Int Nat := ⟨"grid/../grid/", 3, c10ExLaw⟩
example : (Meta.setstate c10ExIsLen c10ExIsApm c10ExMeta.getstate).map (fun m => (m.modelDir, m.filters)) =
    .ok ("grid/../grid/", 3) := by decide
example : c10ExMeta.law.WF c10ExIsLen c10ExIsApm := by decide
def c10ExCore : FitCore Int :=
  ⟨c10ExSource, [1, 2], [3, 4], [5, 6], [1, 0],
   ["grid_v2_xxxxxxxxxxxxxxxxxxxxxx_101yyyyyyyyyyy", "grid_v2_xxxxxxxxxxxxxxxxxxxxxx_102"], none⟩
example : (c10ExCore.modelName.map String.length) = [45, 34] := by decide
example : (FitCore.setstate c10ExCore.getstate).map (fun c => c.modelName) = .ok c10ExCore.modelName := by decide
-- header frames of the running example are the fitter's metadata
example : ∀ h', Frame.hdr h' ∈ [Frame.hdr 7, Frame.recd (0, 1003), Frame.recd (2, 1004)] → h' = (exCfg 3 false).hdr :=
  C10_meta_verbatim (exCfg 3 false) exLines _ (by decide)
-- options: a fitter whose results depend on `use_memmap`; other options, other file
def c10ExFitWith (mm : Bool) (s : Nat × Nat) : Nat × Nat := (s.1, (if mm then 200 else 100) + s.2)
def c10ExCfgWith (o : FitOpts) : FitCfg (Option (Nat × Nat)) (Nat × Nat) Nat (Nat × Nat) :=
  cfgWith (fun l => match l with | none => .error .eof | some s => .ok s) (fun s => s.2) c10ExFitWith
    (fun r => (r.1, r.2 - 100)) (fun r => (r.1, r.2 + 1000)) 7 3 o
example : fitMany (c10ExCfgWith ⟨true, true⟩) exLines = .ok [.hdr 7, .recd (0, 1203), .recd (2, 1204)] := by decide
example : fitMany (c10ExCfgWith ⟨true, true⟩) exLines ≠ fitMany (c10ExCfgWith ⟨false, true⟩) exLines := by decide
-- file names with special characters stay distinct
example : fileNameOf "out/x_".toList ".txt".toList "G010.5:a".toList ≠ fileNameOf "out/x_".toList ".txt".toList "G010.5_a".toList := by
  decide

end examples2

end SF
