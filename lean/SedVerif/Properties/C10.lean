import SedVerif.Proofs.History
/-!
# C10 — `fit()` writes one faithful record per eligible source; the file reads back unchanged; the
# three input forms of the post-processing functions are interchangeable and never modified

Property theorems only.  Model: `SedVerif/Model/History.lean` (`fitLoop`/`fitMany`, `Writer.write`,
`serialize`, `readAll`; heap machine `yield1`/`iterKeep`/`iterSplit`/`step`/`run`).  Helper lemmas:
`SedVerif/Proofs/History.lean`.  Core Lean only.

All statements are for every line list, every parser / fit / selector functions, every record list,
every heap, every sequence of calls.  The only assumptions are the two laws of the byte codec
(`CodecLaws`, pickle itself is not modelled — the runtime part of this property, observed by the
correspondence check) and, for the output theorems, that the inputs of the calls refer to objects that
exist in the caller's heap (a dangling reference cannot be written down in Python).
-/
namespace SF
open Hist

section records
variable {L Src Hdr Rec B : Type} [DecidableEq Hdr]

/-- **C10 (records).**  The frames `fit()` writes are: nothing when no source is eligible, otherwise
    the fitter's metadata once and then, in input order, `keep(output_format)` of the fit (with the
    predicted fluxes dropped unless `output_convolved`) of every source that was parsed before the
    first `EOFError` and has `n_data >= n_data_min`.  A parse error other than `EOFError` propagates. -/
theorem C10_records (c : FitCfg L Src Hdr Rec) (lines : List L) :
    fitMany c lines =
      (parsePrefix c.parse lines).map
        (fun ss => framesOf c.hdr ((ss.filter (fun s => decide (c.nMin ≤ (c.nData s : Int)))).map
          (fun s => c.keepSel (if c.conv then c.fitOne s else c.dropFluxes (c.fitOne s))))) := by
  have h := fitLoop_spec c lines Writer.new (Or.inl rfl)
  unfold fitMany
  cases hq : parsePrefix c.parse lines with
  | error e => rw [hq] at h; simp only at h; rw [h]; rfl
  | ok ss =>
    rw [hq] at h
    obtain ⟨w', h1, ho⟩ := h
    rw [h1]
    simp only [Except.map, ho]
    simp only [Writer.new, appended, FitCfg.records, List.nil_append]
    rfl

/-- **C10 (records, spelled out).**  If the lines `pre` parse to the sources `ss` and are followed by
    the end of the file or by a line on which `from_ascii` raises `EOFError` (a blank line), the file
    holds the header and the records of the eligible sources among `ss`, whatever follows. -/
theorem C10_records_upto_eof (c : FitCfg L Src Hdr Rec) (pre tail : List L) (ss : List Src)
    (hpre : pre.map c.parse = ss.map .ok)
    (htail : tail = [] ∨ ∃ l rest, tail = l :: rest ∧ c.parse l = .error .eof) :
    fitMany c (pre ++ tail) = .ok (framesOf c.hdr (c.records ss)) := by
  rw [C10_records, parsePrefix_upto c.parse pre ss tail hpre htail]
  rfl

/-- **C10 (metadata once).**  A non-empty output starts with the header and contains no other header
    frame; its record frames are the remaining `length − 1` frames. -/
theorem C10_header_once (c : FitCfg L Src Hdr Rec) (lines : List L) (fs : List (Frame Hdr Rec))
    (h : fitMany c lines = .ok fs) (hne : fs ≠ []) :
    fs.head? = some (.hdr c.hdr) ∧ (fs.filter Frame.isHdr).length = 1 := by
  rw [C10_records] at h
  cases hq : parsePrefix c.parse lines with
  | error e => rw [hq] at h; cases h
  | ok ss =>
    rw [hq] at h
    simp only [Except.map, Except.ok.injEq] at h
    subst h
    generalize (List.map _ (List.filter _ ss)) = rs at hne ⊢
    cases rs with
    | nil => exact absurd rfl hne
    | cons r rs =>
      refine ⟨rfl, ?_⟩
      simp only [framesOf, List.filter, Frame.isHdr, List.length_cons]
      have : List.filter Frame.isHdr (rs.map (Frame.recd (Hdr := Hdr))) = [] := by
        induction rs with
        | nil => rfl
        | cons a as ih => simp [Frame.isHdr]
      rw [this]; rfl

variable {encH : Hdr → List B} {decH : List B → Dec Hdr B} {enc : Rec → List B} {dec : List B → Dec Rec B}

/-- **C10 (read-back).**  Writing any non-empty list of records that share the metadata `h` with
    `FitInfoFile.write` and reading the bytes back returns the metadata and every record, in order. -/
theorem C10_readback (hH : CodecLaws encH decH) (hR : CodecLaws enc dec) (h : Hdr) (rs : List Rec)
    (hne : rs ≠ []) :
    ∃ fs, writeAll h rs = .ok fs ∧ readAll decH dec (serialize encH enc fs) = .ok (h, rs) := by
  refine ⟨framesOf h rs, writeAll_eq h rs, ?_⟩
  cases rs with
  | nil => exact absurd rfl hne
  | cons r rs => exact readAll_framesOf hH hR h r rs

/-- the case the property excludes: no record written leaves a zero-byte file, and opening it for
    reading raises `EOFError` -/
theorem C10_readback_empty (hH : CodecLaws encH decH) (h : Hdr) :
    writeAll h ([] : List Rec) = .ok [] ∧
    serialize encH enc ([] : List (Frame Hdr Rec)) = [] ∧
    readAll decH dec (serialize encH enc ([] : List (Frame Hdr Rec))) = .error .eof := by
  refine ⟨rfl, rfl, ?_⟩
  simp [serialize, readAll, hH.atEnd]

/-- **C10 (fit then read).**  Reading back what `fit()` wrote returns the fitter's metadata and
    exactly the records of `C10_records`. -/
theorem C10_fit_then_read (hH : CodecLaws encH decH) (hR : CodecLaws enc dec)
    (c : FitCfg L Src Hdr Rec) (lines : List L) (ss : List Src)
    (hp : parsePrefix c.parse lines = .ok ss) (hne : c.records ss ≠ []) :
    ∃ fs, fitMany c lines = .ok fs ∧
      readAll decH dec (serialize encH enc fs) = .ok (c.hdr, c.records ss) := by
  refine ⟨framesOf c.hdr (c.records ss), ?_, ?_⟩
  · rw [C10_records, hp]; rfl
  · cases hr : c.records ss with
    | nil => exact absurd hr hne
    | cons r rs => exact readAll_framesOf hH hR c.hdr r rs

end records

section histories
variable {Rec Sel Thr V : Type}

/-- **C10 (no mutation).**  With the iterator as repaired (in-memory results are yielded as shallow
    copies), after EVERY sequence of post-processing calls, on every input form (including calls that
    raise), every reference of the caller leads to the value it led to before. -/
theorem C10_no_mutation (S : Sem Rec Sel Thr V) (calls : List (Op Sel Thr × Input Rec)) (h0 : Heap Rec) :
    (∀ r, r < freshRef h0 → lookupRef r (run S .copy h0 calls).1 = lookupRef r h0) ∧
    (∀ r v, lookupRef r h0 = some v → lookupRef r (run S .copy h0 calls).1 = some v) := by
  have e := run_copy_ext S calls h0
  refine ⟨e.2, fun r v hv => ?_⟩
  rw [e.2 r (lookup_lt_fresh h0 r v hv), hv]

/-- **C10 (outputs depend on the records only).**  The output of every call of a history is the
    output that call has on the records its input denoted at the start — independent of the calls
    made before and of the form of the input. -/
theorem C10_outputs_spec (S : Sem Rec Sel Thr V) (calls : List (Op Sel Thr × Input Rec)) (h0 : Heap Rec)
    (hv : ∀ c ∈ calls, ∃ recs, denote h0 c.2 = some recs) :
    (run S .copy h0 calls).2 =
      calls.map (fun c => match denote h0 c.2 with
                          | none => .error .badRef
                          | some recs => specOut S c.1 recs) := by
  rw [run_copy_out S h0 calls h0 (Ext.refl h0) hv _ rfl, List.map_map]
  rfl

/-- **C10 (form independence).**  For every op sequence, passing the results as a file, as one
    object or as a list of objects gives the same outputs whenever the inputs hold equal records. -/
theorem C10_form_independent (S : Sem Rec Sel Thr V) (ops : List (Op Sel Thr)) (h0 : Heap Rec)
    (inA inB : Input Rec) (recs : List Rec)
    (hA : denote h0 inA = some recs) (hB : denote h0 inB = some recs) :
    (run S .copy h0 (ops.map (fun op => (op, inA)))).2 = (run S .copy h0 (ops.map (fun op => (op, inB)))).2 ∧
    (run S .copy h0 (ops.map (fun op => (op, inA)))).2 = ops.map (fun op => specOut S op recs) := by
  have key : ∀ inp : Input Rec, denote h0 inp = some recs →
      (run S .copy h0 (ops.map (fun op => (op, inp)))).2 = ops.map (fun op => specOut S op recs) := by
    intro inp hi
    rw [C10_outputs_spec S _ h0 (by
      intro c hc
      obtain ⟨op, _, rfl⟩ := List.mem_map.mp hc
      exact ⟨recs, hi⟩)]
    simp [List.map_map, Function.comp_def, hi]
  exact ⟨by rw [key inA hA, key inB hB], key inA hA⟩

/-- the three forms hold equal records: a file with `recs`, a list of references to objects with
    these values, and (for a single record) the object itself -/
theorem C10_forms_denote (h0 : Heap Rec) (r : Nat) (v : Rec) (hr : lookupRef r h0 = some v) :
    denote h0 (.file [v]) = some [v] ∧ denote h0 (.obj r) = some [v] ∧ denote h0 (.list [r]) = some [v] := by
  simp [denote, Input.items, itemsVals, itemVal, hr]

end histories

/-! ## Non-vacuity -/
section examples

/-- a toy codec that satisfies the laws: two-byte records, one-byte headers -/
def exEnc (p : Nat × Nat) : List Nat := [p.1, p.2]
def exDec : List Nat → Dec (Nat × Nat) Nat
  | [] => .eof
  | [_] => .bad
  | a :: b :: rest => .ok (a, b) rest
def exEncH (h : Nat) : List Nat := [h]
def exDecH : List Nat → Dec Nat Nat
  | [] => .eof
  | a :: rest => .ok a rest

example : CodecLaws exEnc exDec := ⟨fun _ _ => rfl, rfl⟩
example : CodecLaws exEncH exDecH := ⟨fun _ _ => rfl, rfl⟩

/-- a data file of 6 lines: `(name, n_data)`; `none` is a blank line -/
def exCfg (nMin : Int) (conv : Bool) : FitCfg (Option (Nat × Nat)) (Nat × Nat) Nat (Nat × Nat) where
  parse := fun l => match l with | none => .error .eof | some s => .ok s
  nData := fun s => s.2
  fitOne := fun s => (s.1, 100 + s.2)
  dropFluxes := fun r => (r.1, r.2 - 100)
  keepSel := fun r => (r.1, r.2 + 1000)
  hdr := 7
  nMin := nMin
  conv := conv

def exLines : List (Option (Nat × Nat)) := [some (0, 3), some (1, 1), some (2, 4), some (3, 2), none, some (5, 9)]

-- sources 0, 2 are eligible for n_data_min = 3; source 5 comes after the blank line
example : fitMany (exCfg 3 false) exLines = .ok [.hdr 7, .recd (0, 1003), .recd (2, 1004)] := by decide
example : fitMany (exCfg 3 true) exLines = .ok [.hdr 7, .recd (0, 1103), .recd (2, 1104)] := by decide
-- n_data_min above every n_data: zero-byte file
example : fitMany (exCfg 5 false) exLines = .ok [] := by decide
-- the bytes read back
example : readAll exDecH exDec (serialize exEncH exEnc [.hdr 7, .recd (0, 1003), .recd (2, 1004)])
    = .ok (7, [(0, 1003), (2, 1004)]) := by decide
example : readAll exDecH exDec (serialize exEncH exEnc ([] : List (Frame Nat (Nat × Nat)))) = .error .eof := by decide
-- hypotheses of `C10_records_upto_eof` and `C10_fit_then_read` are met by this instance
example : (exLines.take 4).map (exCfg 3 false).parse = [(0, 3), (1, 1), (2, 4), (3, 2)].map .ok := by decide
example : parsePrefix (exCfg 3 false).parse exLines = .ok [(0, 3), (1, 1), (2, 4), (3, 2)] ∧
    (exCfg 3 false).records [(0, 3), (1, 1), (2, 4), (3, 2)] ≠ [] := by decide

/-- two caller objects with 3 and 2 rows -/
def exHeap : Heap (CRec Int) := [(0, ⟨0, [0, 1, 2], 5⟩), (1, ⟨1, [0, 1], 40⟩)]

def exSem : Sem (CRec Int) (Nat → Nat) Int (Nat × List Nat) := csem

def exCalls (inp : Input (CRec Int)) : List (Op (Nat → Nat) Int × Input (CRec Int)) :=
  [(.writeParameters (fun _ => 1), inp), (.extract (fun _ => 2), inp), (.filterOutput 10, inp)]

-- the history cuts to 1 row, then (from the uncut object again) to 2 rows, then splits
example : (run exSem .copy exHeap (exCalls (.list [0, 1]))).2 =
    [.ok (.printed [(0, [0]), (1, [0])]), .ok (.printed [(0, [0, 1]), (1, [0, 1])]),
     .ok (.split [⟨0, [0, 1, 2], 5⟩] [⟨1, [0, 1], 40⟩])] := by decide
-- file form, same records, same outputs
example : (run exSem .copy exHeap (exCalls (.file [⟨0, [0, 1, 2], 5⟩, ⟨1, [0, 1], 40⟩]))).2 =
    (run exSem .copy exHeap (exCalls (.list [0, 1]))).2 := by decide
-- the caller's objects are as before
example : lookupRef 0 (run exSem .copy exHeap (exCalls (.list [0, 1]))).1 = some ⟨0, [0, 1, 2], 5⟩ ∧
    lookupRef 1 (run exSem .copy exHeap (exCalls (.list [0, 1]))).1 = some ⟨1, [0, 1], 40⟩ := by decide
-- hypotheses of `C10_form_independent` are met
example : denote exHeap (.list [0, 1]) = some [⟨0, [0, 1, 2], 5⟩, ⟨1, [0, 1], 40⟩] ∧
    denote exHeap (.file [⟨0, [0, 1, 2], 5⟩, ⟨1, [0, 1], 40⟩]) = some [⟨0, [0, 1, 2], 5⟩, ⟨1, [0, 1], 40⟩] ∧
    denote exHeap (.obj 0) = some [⟨0, [0, 1, 2], 5⟩] := by decide

end examples

/-! ## Negative control: the iterator before the repair

With `Iter.alias` (`yield info`: the consumer's `keep` acts on the caller's own object) both
history theorems are false, so they do say something about aliasing. -/
section negative

/-- **C10 (negative control, mutation).**  One call — `write_parameters(info, select_format=('N', 1))`
    on an object with three fits — leaves the caller's object with one fit. -/
theorem C10_alias_mutates :
    ¬ ∀ (calls : List (Op (Nat → Nat) Int × Input (CRec Int))) (h0 : Heap (CRec Int)) (r : Nat),
        r < freshRef h0 → lookupRef r (run exSem .alias h0 calls).1 = lookupRef r h0 := by
  intro h
  have := h [(.writeParameters (fun _ => 1), .obj 0)] exHeap 0 (by decide)
  revert this
  decide

/-- **C10 (negative control, form dependence).**  `('N', 1)` then `('N', 2)`: from a file the second
    call prints two rows, from the object only one is left. -/
theorem C10_alias_form_dependent :
    ¬ ∀ (ops : List (Op (Nat → Nat) Int)) (h0 : Heap (CRec Int)) (inA inB : Input (CRec Int)) (recs : List (CRec Int)),
        denote h0 inA = some recs → denote h0 inB = some recs →
        (run exSem .alias h0 (ops.map (fun op => (op, inA)))).2 = (run exSem .alias h0 (ops.map (fun op => (op, inB)))).2 := by
  intro h
  have := h [.writeParameters (fun _ => 1), .writeParameters (fun _ => 2)] exHeap
    (.file [⟨0, [0, 1, 2], 5⟩]) (.obj 0) [⟨0, [0, 1, 2], 5⟩] (by decide) (by decide)
  revert this
  decide

end negative
end SF
