import SedVerif.Proofs.RoundTrip
import Mathlib.Algebra.Order.Ring.Rat
/-!
# C12 — SED, cube and convolved-flux files read back exactly what was stored

Property theorems only.  Model: `SedVerif/Model/RoundTrip.lean` (`sedWrite`, `sedRead`, `cubeWrite`,
`cubeRead`, `getSed`, `convWrite`, `convRead`).  Cells are looked up by wavelength *value*
(`sedFlux`, `sedErr`, `sedNu`, `cubeVal`, `cubeUnc`).  All statements hold for every linear order `K`,
every number of apertures / models / wavelengths.
-/
namespace SF
open RT

section sed
variable {K : Type} [Zero K] [LinearOrder K]

namespace RT
/-- an SED as the property quantifies it: equally long wavelength and frequency lists on a strictly
    monotone spectral axis (either direction; frequency runs against wavelength), rectangular flux /
    error arrays -/
structure SedOK (s : Sed K) : Prop where
  len : s.nu.length = s.wav.length
  ne : s.wav ≠ []
  mono : (s.wav.Pairwise (· < ·) ∧ s.nu.Pairwise (· > ·)) ∨ (s.wav.Pairwise (· > ·) ∧ s.nu.Pairwise (· < ·))
  rowsF : ∀ row ∈ s.flux, row.length = s.wav.length
  rowsE : ∀ e, s.err = some e → ∀ row ∈ e, row.length = s.wav.length

/-- what `SED.read` makes of a missing aperture list: the stored placeholder `[1e-30]` -/
def withAps (tiny : K) (s : Sed K) : Sed K := { s with aps := some (s.aps.getD [tiny]) }
end RT

/-- **C12 (what `SED.write` stores).** For an SED on a strictly monotone axis, the file holds the
    arrays in increasing frequency (decreasing wavelength), and they are the input either unchanged
    or with wav, nu, flux and error reversed *together*. -/
theorem C12_sed_stored (tiny : K) (s : Sed K) (hs : SedOK s) (e : List (List K)) (he : s.err = some e) :
    ∃ f, sedWrite tiny s = some f ∧ f.nu.Pairwise (· < ·) ∧ f.wav.Pairwise (· > ·) ∧
      f.nu.length = f.wav.length ∧ f.wav.length = s.wav.length ∧
      (fileSed f = withAps tiny s ∨ fileSed f = reverseSpectral (withAps tiny s)) := by
  rcases hs.mono with ⟨hw, hn⟩ | ⟨hw, hn⟩
  · -- wavelength increasing, frequency decreasing: everything is reversed on writing
    have ho : argsort s.nu = (List.range s.wav.length).reverse := by rw [argsort_dec s.nu hn, hs.len]
    have hg : ∀ rows : List (List K), (∀ row ∈ rows, row.length = s.wav.length) →
        rows.map (gather (List.range s.wav.length).reverse) = rows.map List.reverse := by
      intro rows hr
      apply List.map_congr_left
      intro row hrow
      exact gather_range_reverse row _ (hr row hrow)
    refine ⟨{ name := s.name, wav := s.wav.reverse, nu := s.nu.reverse, aps := s.aps.getD [tiny],
              flux := s.flux.map List.reverse, err := e.map List.reverse }, ?_, ?_, ?_, ?_, ?_, ?_⟩
    · simp only [sedWrite, he, ho, gather_range_reverse s.wav _ rfl, gather_range_reverse s.nu _ hs.len,
        hg s.flux hs.rowsF, hg e (hs.rowsE e he)]
    · exact List.pairwise_reverse.mpr hn
    · exact List.pairwise_reverse.mpr hw
    · simp [hs.len]
    · simp
    · right
      simp [fileSed, reverseSpectral, withAps, he]
  · -- already in increasing frequency: stored as given
    have ho : argsort s.nu = List.range s.wav.length := by rw [argsort_inc s.nu hn, hs.len]
    have hg : ∀ rows : List (List K), (∀ row ∈ rows, row.length = s.wav.length) →
        rows.map (gather (List.range s.wav.length)) = rows := by
      intro rows hr
      conv => rhs; rw [← List.map_id rows]
      apply List.map_congr_left
      intro row hrow
      exact gather_range row _ (hr row hrow)
    refine ⟨{ name := s.name, wav := s.wav, nu := s.nu, aps := s.aps.getD [tiny],
              flux := s.flux, err := e }, ?_, hn, hw, hs.len, rfl, ?_⟩
    · simp only [sedWrite, he, ho, gather_range s.wav _ rfl, gather_range s.nu _ hs.len,
        hg s.flux hs.rowsF, hg e (hs.rowsE e he)]
    · left
      cases s
      simp_all [fileSed, withAps]

omit [Zero K] in
/-- **C12 (other order).** For a stored SED with at least two wavelengths on a strictly monotone axis,
    asking for the other order returns the same object with wav, nu, flux and error reversed together
    — and nothing else changed. -/
theorem C12_other_order (f : SedFile K) (hlen : f.nu.length = f.wav.length) (h2 : 2 ≤ f.wav.length)
    (hmono : (f.wav.Pairwise (· < ·) ∧ f.nu.Pairwise (· > ·)) ∨ (f.wav.Pairwise (· > ·) ∧ f.nu.Pairwise (· < ·))) :
    ∃ r, sedRead .nu f = some r ∧ sedRead .wav f = some (reverseSpectral r) := by
  have hwne : f.wav ≠ [] := by intro h; rw [h] at h2; simp at h2
  have hnne : f.nu ≠ [] := by intro h; rw [h] at hlen; rw [← hlen] at h2; simp at h2
  rcases hmono with ⟨hw, hn⟩ | ⟨hw, hn⟩
  · refine ⟨reverseSpectral (fileSed f), ?_, ?_⟩
    · rw [sedRead_nu f true (firstGtLast_dec f.nu hn (by omega))]; rfl
    · rw [sedRead_wav f false (firstGtLast_inc f.wav hw hwne), reverseSpectral_invol]; rfl
  · refine ⟨fileSed f, ?_, ?_⟩
    · rw [sedRead_nu f false (firstGtLast_inc f.nu hn hnne)]; rfl
    · rw [sedRead_wav f true (firstGtLast_dec f.wav hw h2)]; rfl

/-- **C12 (SED cells).** For a strictly monotone spectral axis in either direction and either read
    order, write-then-read succeeds and returns the same flux, error and frequency for every
    (aperture, wavelength value); the name is kept; the result is the input or its joint reversal. -/
theorem C12_sed_cell (tiny : K) (o : Order) (s : Sed K) (hs : SedOK s) (e : List (List K))
    (he : s.err = some e) :
    ∃ f r, sedWrite tiny s = some f ∧ sedRead o f = some r ∧
      (r = withAps tiny s ∨ r = reverseSpectral (withAps tiny s)) ∧
      r.name = s.name ∧
      ∀ (a : Nat) (x : K), sedFlux r a x = sedFlux s a x ∧ sedErr r a x = sedErr s a x ∧
        sedNu r x = sedNu s x := by
  obtain ⟨f, hf, hn, hw, hl, hl2, hfile⟩ := C12_sed_stored tiny s hs e he
  have hwne : f.wav ≠ [] := by
    intro h; apply hs.ne; apply List.eq_nil_of_length_eq_zero; rw [← hl2, h]; rfl
  have hnne : f.nu ≠ [] := by
    intro h; rw [h] at hl; exact hwne (List.eq_nil_of_length_eq_zero hl.symm)
  -- whichever order is requested, the object read is `fileSed f` or its reversal
  have hr : ∃ b : Bool, sedRead o f = some (if b then reverseSpectral (fileSed f) else fileSed f) := by
    cases o with
    | nu => obtain ⟨b, hb⟩ := firstGtLast_some f.nu hnne; exact ⟨b, sedRead_nu f b hb⟩
    | wav => obtain ⟨b, hb⟩ := firstGtLast_some f.wav hwne; exact ⟨b, sedRead_wav f b hb⟩
  obtain ⟨b, hrd⟩ := hr
  have hcase : (if b then reverseSpectral (fileSed f) else fileSed f) = withAps tiny s ∨
      (if b then reverseSpectral (fileSed f) else fileSed f) = reverseSpectral (withAps tiny s) := by
    cases b
    · simpa using hfile
    · rcases hfile with h | h
      · right; simp [h]
      · left; simp [h, reverseSpectral_invol]
  have hnd : s.wav.Nodup := by
    rcases hs.mono with ⟨hw', _⟩ | ⟨hw', _⟩
    · exact nodup_of_inc _ hw'
    · exact nodup_of_dec _ hw'
  refine ⟨f, _, hf, hrd, hcase, ?_, ?_⟩
  · rcases hcase with h | h <;> rw [h] <;> rfl
  · intro a x
    rcases hcase with h | h <;> rw [h]
    · exact ⟨rfl, rfl, rfl⟩
    · refine ⟨?_, ?_, ?_⟩
      · rw [sedFlux_reverse (withAps tiny s) hnd hs.rowsF]; rfl
      · rw [sedErr_reverse (withAps tiny s) hnd hs.rowsE]; rfl
      · rw [sedNu_reverse (withAps tiny s) hnd hs.len]; rfl

omit [Zero K] in
/-- every tabulated cell is found by its wavelength value (so `C12_sed_cell` speaks about all of them) -/
theorem C12_sed_lookup_total (s : Sed K) (hs : SedOK s) (a i : Nat) (row : List K) (w v : K)
    (hrow : s.flux[a]? = some row) (hw : s.wav[i]? = some w) (hv : row[i]? = some v) :
    sedFlux s a w = some v := by
  have hnd : s.wav.Nodup := by
    rcases hs.mono with ⟨hw', _⟩ | ⟨hw', _⟩
    · exact nodup_of_inc _ hw'
    · exact nodup_of_dec _ hw'
  simp only [sedFlux, hrow, Option.bind_some]
  exact cellAt_getElem s.wav row hnd i w v hw hv

end sed

section cube
variable {K : Type} [LinearOrder K]

namespace RT
/-- a cube as the property quantifies it -/
structure CubeOK (toNu : K → K) (c : Cube K) : Prop where
  ne : c.wav ≠ []
  mono : c.wav.Pairwise (· < ·) ∨ c.wav.Pairwise (· > ·)
  anti : ∀ x ∈ c.wav, ∀ y ∈ c.wav, x < y → toNu y < toNu x
  rowsV : ∀ mm ∈ c.val, ∀ row ∈ mm, row.length = c.wav.length
  rowsU : ∀ u, c.unc = some u → ∀ mm ∈ u, ∀ row ∈ mm, row.length = c.wav.length

theorem nu_of_inc (toNu : K → K) (wav : List K) (h : wav.Pairwise (· < ·))
    (anti : ∀ x ∈ wav, ∀ y ∈ wav, x < y → toNu y < toNu x) : (wav.map toNu).Pairwise (· > ·) := by
  rw [List.pairwise_map]
  exact h.imp_of_mem (fun ha hb hab => anti _ ha _ hb hab)

theorem nu_of_dec (toNu : K → K) (wav : List K) (h : wav.Pairwise (· > ·))
    (anti : ∀ x ∈ wav, ∀ y ∈ wav, x < y → toNu y < toNu x) : (wav.map toNu).Pairwise (· < ·) := by
  rw [List.pairwise_map]
  exact h.imp_of_mem (fun ha hb hab => anti _ hb _ ha hab)
end RT

/-- **C12 (cube cells).** Write-then-read of a cube succeeds for either read order and either axis
    direction; names, apertures and the absence of uncertainties are preserved; every
    (model, aperture, wavelength value) cell of `val` and `unc` is unchanged; the result is the input
    or the input with the *spectral* axis of wav, val and unc reversed together. -/
theorem C12_cube_cell (toNu : K → K) (o : Order) (c : Cube K) (hc : CubeOK toNu c) :
    ∃ r, cubeRead toNu o (cubeWrite toNu c) = some r ∧ (r = c ∨ r = reverseSpectralCube c) ∧
      r.names = c.names ∧ r.aps = c.aps ∧ (c.unc = none → r.unc = none) ∧
      ∀ (m a : Nat) (x : K), cubeVal r m a x = cubeVal c m a x ∧ cubeUnc r m a x = cubeUnc c m a x := by
  have hnune : c.wav.map toNu ≠ [] := by simpa using hc.ne
  have hr : ∃ b : Bool, cubeRead toNu o (cubeWrite toNu c) = some (if b then reverseSpectralCube c else c) := by
    cases o with
    | nu => obtain ⟨b, hb⟩ := firstGtLast_some _ hnune; exact ⟨b, cubeRead_nu toNu c b hb⟩
    | wav => obtain ⟨b, hb⟩ := firstGtLast_some _ hc.ne; exact ⟨b, cubeRead_wav toNu c b hb⟩
  obtain ⟨b, hrd⟩ := hr
  have hnd : c.wav.Nodup := by
    rcases hc.mono with h | h
    · exact nodup_of_inc _ h
    · exact nodup_of_dec _ h
  cases b with
  | false => exact ⟨c, hrd, Or.inl rfl, rfl, rfl, id, fun m a x => ⟨rfl, rfl⟩⟩
  | true =>
    refine ⟨reverseSpectralCube c, hrd, Or.inr rfl, rfl, rfl, ?_, ?_⟩
    · intro h; simp [reverseSpectralCube, h]
    · intro m a x
      exact ⟨cubeVal_reverse c hnd hc.rowsV m a x, cubeUnc_reverse c hnd hc.rowsU m a x⟩

/-- **C12 (other order, cube).** With at least two wavelengths, the two read orders differ exactly by
    the joint reversal of the spectral axis of wav, val and unc. -/
theorem C12_other_order_cube (toNu : K → K) (c : Cube K) (hc : CubeOK toNu c) (h2 : 2 ≤ c.wav.length) :
    ∃ r, cubeRead toNu .nu (cubeWrite toNu c) = some r ∧
      cubeRead toNu .wav (cubeWrite toNu c) = some (reverseSpectralCube r) := by
  have hnune : c.wav.map toNu ≠ [] := by simpa using hc.ne
  rcases hc.mono with h | h
  · refine ⟨reverseSpectralCube c, ?_, ?_⟩
    · rw [cubeRead_nu toNu c true (firstGtLast_dec _ (nu_of_inc toNu c.wav h hc.anti) (by simpa using h2))]; rfl
    · rw [cubeRead_wav toNu c false (firstGtLast_inc c.wav h hc.ne), reverseSpectralCube_invol]; rfl
  · refine ⟨c, ?_, ?_⟩
    · rw [cubeRead_nu toNu c false (firstGtLast_inc _ (nu_of_dec toNu c.wav h hc.anti) hnune)]; rfl
    · rw [cubeRead_wav toNu c true (firstGtLast_dec c.wav h h2)]; rfl

end cube

section getsed
variable {K : Type}

/-- **C12 (get_sed).** `get_sed name` returns slice `i` of the cube — `i` the first index carrying that
    name — with the cube's wavelengths and apertures; optional parts that are absent stay absent
    (no apertures ⟹ none; no uncertainties ⟹ no errors), present ones are slice `i` too.  It fails
    only for a name that is not in the cube (or a cube whose arrays are shorter than its name list). -/
theorem C12_get_sed (toNu : K → K) (c : Cube K) (name : String) :
    (∀ s, getSed toNu c name = some s →
      ∃ i : Nat, c.names[i]? = some name ∧ (∀ j : Nat, j < i → c.names[j]? ≠ some name) ∧
        s.name = name ∧ s.wav = c.wav ∧ s.nu = c.wav.map toNu ∧ s.aps = c.aps ∧
        c.val[i]? = some s.flux ∧
        (match c.unc with
         | none => s.err = none
         | some u => ∃ e, s.err = some e ∧ u[i]? = some e)) ∧
    (name ∈ c.names → c.val.length = c.names.length →
      (∀ u, c.unc = some u → u.length = c.names.length) → ∃ s, getSed toNu c name = some s) := by
  constructor
  · intro s h
    unfold getSed at h
    cases hi : c.names.findIdx? (fun n => n == name) with
    | none => simp [hi] at h
    | some i =>
      obtain ⟨hlt, hp, hfirst⟩ := List.findIdx?_eq_some_iff_getElem.mp hi
      have hname : c.names[i]? = some name := by
        rw [List.getElem?_eq_getElem hlt]; simpa using hp
      have hfirst' : ∀ j : Nat, j < i → c.names[j]? ≠ some name := by
        intro j hj hc
        have hjl : j < c.names.length := by omega
        have := hfirst j hj
        rw [List.getElem?_eq_getElem hjl] at hc
        simp only [Option.some.injEq] at hc
        simp [hc] at this
      simp only [hi] at h
      cases hv : c.val[i]? with
      | none => simp [hv] at h
      | some fl =>
        simp only [hv] at h
        cases hu : c.unc with
        | none =>
          simp only [hu, Option.some.injEq] at h
          subst h
          exact ⟨i, hname, hfirst', rfl, rfl, rfl, rfl, hv, by simp⟩
        | some u =>
          simp only [hu] at h
          cases hui : u[i]? with
          | none => simp [hui] at h
          | some e =>
            simp only [hui, Option.some.injEq] at h
            subst h
            exact ⟨i, hname, hfirst', rfl, rfl, rfl, rfl, hv, ⟨e, rfl, hui⟩⟩
  · intro hmem hlv hlu
    unfold getSed
    cases hi : c.names.findIdx? (fun n => n == name) with
    | none =>
      rw [List.findIdx?_eq_none_iff] at hi
      have := hi name hmem
      simp at this
    | some i =>
      obtain ⟨hlt, _, _⟩ := List.findIdx?_eq_some_iff_getElem.mp hi
      simp only
      rw [List.getElem?_eq_getElem (by omega : i < c.val.length)]
      cases hu : c.unc with
      | none => exact ⟨_, rfl⟩
      | some u =>
        have := hlu u hu
        simp only
        rw [List.getElem?_eq_getElem (by omega : i < u.length)]
        exact ⟨_, rfl⟩

end getsed

/-- **C12 (convolved fluxes).** For a rectangular object (`flux`, `error` of shape `(n_models, n_ap)`, with
    `n_ap = 1` when there are no apertures) write-then-read succeeds and returns the object itself up to
    the 30-byte name column: central wavelength (also its absence), apertures (also their absence) and
    every (model, aperture) flux and error cell are unchanged; names are unchanged when they fit. -/
theorem C12_conv_cell {K : Type} (c : Conv K)
    (hf : c.flux.length = c.names.length) (he : c.err.length = c.names.length)
    (hfr : ∀ r ∈ c.flux, r.length = convNAp c) (her : ∀ r ∈ c.err, r.length = convNAp c) :
    convRead (convWrite c) = some { c with names := c.names.map s30 } ∧
    (∀ n ∈ c.names, n.length ≤ 30 → s30 n = n) ∧
    ∀ r, convRead (convWrite c) = some r →
      r.wavelength = c.wavelength ∧ r.aps = c.aps ∧
      ∀ m a : Nat, convFlux r m a = convFlux c m a ∧ convErr r m a = convErr c m a := by
  have hread : convRead (convWrite c) = some { c with names := c.names.map s30 } := by
    have hcol : ∀ rows : List (List K), rows.length = c.names.length → (∀ r ∈ rows, r.length = convNAp c) →
        colRead (c.names.map s30).length (convNAp c) (.d2 rows) = some rows := by
      intro rows hl h
      have hall : rows.all (fun r => r.length == convNAp c) = true := by
        rw [List.all_eq_true]
        intro r hr
        simpa using h r hr
      simp only [colRead, List.length_map, hl, hall, and_self, if_true]
    have hn : fileNAp (convWrite c) = convNAp c := rfl
    unfold convRead
    rw [hn]
    have e1 : (convWrite c).names = c.names.map s30 := rfl
    have e2 : (convWrite c).flux = .d2 c.flux := rfl
    have e3 : (convWrite c).err = .d2 c.err := rfl
    rw [e1, e2, e3, hcol c.flux hf hfr, hcol c.err he her]
    rfl
  refine ⟨hread, ?_, ?_⟩
  · intro n _ hn
    unfold s30
    rw [List.take_of_length_le (by rw [String.length_toList]; exact hn)]
    simp
  · intro r hr
    rw [hread] at hr
    cases hr
    exact ⟨rfl, rfl, fun m a => ⟨rfl, rfl⟩⟩

/-- **C12 (convolved fluxes, scalar columns).** A file whose flux / error columns hold one number per
    model and which has a single aperture (or no aperture list) is read as an `(n_models, 1)` array with
    the same numbers; `FILTWAV` / `APERTURES` absent → `None`. -/
theorem C12_conv_read_1d {K : Type} (f : ConvFile K) (v e : List K) (hfl : f.flux = .d1 v) (her : f.err = .d1 e)
    (hap : fileNAp f = 1) (hv : v.length = f.names.length) (he : e.length = f.names.length) :
    convRead f = some { wavelength := f.filtwav, names := f.names, aps := f.aps,
                        flux := v.map (fun x => [x]), err := e.map (fun x => [x]) } := by
  simp only [convRead, colRead, hfl, her, hap, hv, he, and_self, if_true]

/-- **C12 (SED without uncertainties).** `SED.write` refuses an SED whose errors are not set; uncertainties
    are optional for cubes (and for `get_sed`) only. -/
theorem C12_sed_no_err_refused {K : Type} [Zero K] [LT K] [DecidableLT K] (tiny : K) (s : Sed K)
    (h : s.err = none) : sedWrite tiny s = none := by
  simp only [sedWrite, h]

/-! ### Non-vacuity (over ℚ) -/

/-- two apertures on an increasing-wavelength axis (so `SED.write` has to reverse) -/
def c12ExSed : Sed Rat :=
  { name := "m1", wav := [1, 2, 5], nu := [30, 15, 6], aps := none,
    flux := [[10, 20, 30], [11, 21, 31]], err := some [[1, 2, 3], [4, 5, 6]] }

example : SedOK c12ExSed := by
  refine ⟨rfl, by decide, Or.inl ⟨by decide, by decide⟩, by decide, ?_⟩
  intro e he
  simp only [c12ExSed, Option.some.injEq] at he
  subst he
  decide

theorem c12ExSed_ok : SedOK c12ExSed := by
  refine ⟨rfl, by decide, Or.inl ⟨by decide, by decide⟩, by decide, ?_⟩
  intro e he
  simp only [c12ExSed, Option.some.injEq] at he
  subst he
  decide

-- the round trip of `c12ExSed` read in wavelength order returns cell (aperture 1, λ = 2) = 21
example : ∃ f r, sedWrite (1 / 10 ^ 30 : Rat) c12ExSed = some f ∧ sedRead .wav f = some r ∧
    sedFlux r 1 2 = some 21 := by
  obtain ⟨f, r, h1, h2, _, _, h3⟩ := C12_sed_cell (1 / 10 ^ 30 : Rat) .wav c12ExSed c12ExSed_ok _ rfl
  exact ⟨f, r, h1, h2, by rw [(h3 1 2).1]; decide⟩

-- a stored file (decreasing wavelength, increasing frequency) meets the hypotheses of `C12_other_order`
example : ([5, 2, 1] : List Rat).Pairwise (· > ·) ∧ ([6, 15, 30] : List Rat).Pairwise (· < ·) := by decide

example : sedFlux c12ExSed 1 2 = some 21 ∧ sedErr c12ExSed 0 5 = some 3 ∧ sedNu c12ExSed 5 = some 6 := by decide

/-- a decreasing-wavelength cube without apertures and without uncertainties -/
def c12ExCube : Cube Rat :=
  { names := ["a", "b"], wav := [8, 4, 2], aps := none,
    val := [[[1, 2, 3]], [[4, 5, 6]]], unc := none }

example : CubeOK (fun w => 1 / w) c12ExCube := by
  refine ⟨by decide, Or.inr (by decide), ?_, by decide, ?_⟩
  · decide +kernel
  · intro u hu; simp [c12ExCube] at hu

example : cubeRead (fun w => 1 / w) .wav (cubeWrite (fun w => 1 / w) c12ExCube)
    = some { c12ExCube with wav := [2, 4, 8], val := [[[3, 2, 1]], [[6, 5, 4]]] } := by decide +kernel

example : (getSed (fun w => 1 / w) c12ExCube "b").map (fun s => (s.flux, s.err, s.aps))
    = some ([[4, 5, 6]], none, none) := by decide +kernel

/-- a convolved-flux object without central wavelength and without apertures -/
def c12ExConv : Conv Rat :=
  { wavelength := none, names := ["a", "b"], aps := none, flux := [[7], [8]], err := [[1], [2]] }

example : c12ExConv.flux.length = c12ExConv.names.length ∧ (∀ r ∈ c12ExConv.flux, r.length = convNAp c12ExConv) ∧
    (∀ r ∈ c12ExConv.err, r.length = convNAp c12ExConv) := by decide

example : convRead (convWrite c12ExConv) = some c12ExConv := by decide

example : convRead ({ filtwav := none, names := ["a", "b"], aps := none, flux := .d1 [7, 8], err := .d1 [1, 2] } : ConvFile Rat)
    = some c12ExConv := by decide

end SF
