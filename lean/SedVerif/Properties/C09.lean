import SedVerif.Proofs.Match
import SedVerif.Proofs.MatchRanges
/-!
# C09 — parameter listings follow the fit ranking, for any parameter-file order

Property theorems only.  Model: `SedVerif/Model/Match.lean` (`filterTable`, `filterTableAdd`,
`prepTable`, `listing`, `paramRanges`, `counts`).  A table row is `(MODEL_NAME, other columns)`, an
output row is `(MODEL_NAME, other columns, additional values)`.
-/
namespace SF
open SF.Match
variable {K V : Type}

/-- **C09 (safety).** If `filter_table` returns, output row `i` is named `model_name[i]` (for every
    `i`: the name columns are equal as lists), its parameter values are those of a table row of that
    name, and its additional values are the dictionaries' entries for that (stripped) name. -/
theorem C09_safety (table : List (String × V)) (mn : List String) (addl : List (List (String × K)))
    (r : List (String × V × List K)) (h : filterTableAdd table mn addl = .ok r) :
    r.map (·.1) = mn ∧
    (∀ x ∈ r, (x.1, x.2.1) ∈ table) ∧
    (∀ x ∈ r, addl.map (fun d => d.lookup (strip x.1)) = x.2.2.map some) := by
  unfold filterTableAdd at h
  split at h
  · simp at h
  · rename_i sorted hs
    split at h
    · simp at h
    · rename_i t ht
      simp only [Except.ok.injEq] at h; subst h
      obtain ⟨hg, hmn⟩ := filterTable_ok table mn sorted hs
      obtain ⟨h1, h2⟩ := attach_spec addl sorted t ht
      refine ⟨?_, ?_, ?_⟩
      · rw [hmn, ← h1]; simp [List.map_map, Function.comp_def]
      · intro x hx
        have : (x.1, x.2.1) ∈ sorted := by
          rw [← h1]; exact List.mem_map.mpr ⟨x, hx, rfl⟩
        exact (List.mem_filter.mp (gather?_mem _ _ _ hg _ this)).1
      · intro x hx
        exact (extras_spec addl x.1 x.2.2).mp (h2 x hx)

/-- **C09 (safety, with the guards).** The same for `filter_table` as the code runs it — column check,
    subset / rank-gather / post-check, then the `additional` loop parameter by parameter: if it
    returns, row `i` is named `model_name[i]`, shows a table row of that name, and carries, for every
    additional parameter in the order given, the dictionary entry of that (stripped) name. -/
theorem C09_safety_full (cols : List String) (table : List (String × V)) (mn : List String)
    (addl : List (String × List (String × K))) (r : List (String × V × List K))
    (h : filterTableFull cols table mn addl = .ok r) :
    r.map (·.1) = mn ∧
    (∀ x ∈ r, (x.1, x.2.1) ∈ table) ∧
    (∀ x ∈ r, addl.map (fun d => d.2.lookup (strip x.1)) = x.2.2.map some) := by
  unfold filterTableFull at h
  split at h
  · simp at h
  · split at h
    · simp at h
    · rename_i sorted hs
      obtain ⟨hg, hmn⟩ := filterTable_ok table mn sorted hs
      obtain ⟨h1, h2⟩ := attachCols_spec addl cols _ r [] h (by simp)
      have h1' : r.map (fun x => (x.1, x.2.1)) = sorted := by
        rw [h1]; simp [List.map_map, Function.comp_def]
      refine ⟨?_, ?_, ?_⟩
      · rw [hmn, ← h1']; simp [List.map_map, Function.comp_def]
      · intro x hx
        have : (x.1, x.2.1) ∈ sorted := by
          rw [← h1']; exact List.mem_map.mpr ⟨x, hx, rfl⟩
        exact (List.mem_filter.mp (gather?_mem _ _ _ hg _ this)).1
      · intro x hx
        have := h2 x hx
        simpa [List.map_map, Function.comp_def] using this

/-- **C09 (refusals).** The two guards of `filter_table`: a table without a `MODEL_NAME` column is
    refused whatever else is given; and if the core succeeds, an additional parameter whose name is
    already a column of the table is refused. -/
theorem C09_refusals (cols : List String) (table : List (String × V)) (mn : List String)
    (addl : List (String × List (String × K))) :
    ("MODEL_NAME" ∉ cols → filterTableFull cols table mn addl = .error .noModelName) ∧
    (∀ key d rest sorted, "MODEL_NAME" ∈ cols → filterTable table mn = .ok sorted →
      addl = (key, d) :: rest → key ∈ cols →
      filterTableFull cols table mn addl = .error .dupColumn) := by
  refine ⟨fun h => by simp [filterTableFull, h], ?_⟩
  intro key d rest sorted hc hs ha hk
  subst ha
  simp [filterTableFull, hc, hs, attachCols, hk]

/-- **C09 (safety, distinct names).** In a table with distinct names "the row named X" is unique, so
    the values shown for fit `i` are those of *the* table row named `model_name[i]`. -/
theorem C09_safety_nodup (table : List (String × V)) (mn : List String)
    (addl : List (List (String × K))) (r : List (String × V × List K))
    (h : filterTableAdd table mn addl = .ok r) (hnd : (table.map (·.1)).Nodup) :
    ∀ x ∈ r, ∀ y ∈ table, y.1 = x.1 → y.2 = x.2.1 := by
  intro x hx y hy hxy
  have hmem := (C09_safety table mn addl r h).2.1 x hx
  have := eq_of_fst_eq_of_nodup table hnd y hy (x.1, x.2.1) hmem hxy
  rw [this]

/-- **C09 (liveness).** A table sorted by name with distinct names that contains the (distinct) fit
    names — and additional dictionaries that cover them — makes `filter_table` return. -/
theorem C09_liveness (table : List (String × V)) (mn : List String) (addl : List (List (String × K)))
    (hsorted : (table.map (·.1)).Pairwise (fun a b => strLe a b = true))
    (hnd : (table.map (·.1)).Nodup) (hmn : mn.Nodup) (hsub : ∀ X ∈ mn, X ∈ table.map (·.1))
    (hadd : ∀ d ∈ addl, ∀ X ∈ mn, ∃ v, d.lookup (strip X) = some v) :
    ∃ r, filterTableAdd table mn addl = .ok r := by
  have hfm : (table.filter (fun x => mn.contains x.1)).map (·.1)
      = (table.map (·.1)).filter (fun n => mn.contains n) := by
    rw [List.filter_map]; rfl
  have hsN : ((table.filter (fun x => mn.contains x.1)).map (·.1)).Pairwise
      (fun a b => strLe a b = true) := by rw [hfm]; exact hsorted.filter _
  have hndN : ((table.filter (fun x => mn.contains x.1)).map (·.1)).Nodup := by
    rw [hfm]; exact List.filter_sublist.nodup hnd
  have hperm : ((table.filter (fun x => mn.contains x.1)).map (·.1)).Perm mn := by
    refine (List.perm_ext_iff_of_nodup hndN hmn).mpr (fun a => ?_)
    rw [hfm, List.mem_filter, List.contains_iff_mem]
    exact ⟨fun h => h.2, fun h => ⟨hsub a h, h⟩⟩
  have hg := rank_gather_sorted mn _ hsN hperm
  rw [gather?_map] at hg
  cases hgs : gather? (table.filter (fun x => mn.contains x.1)) (argsortNat (argsortStr mn)) with
  | none => rw [hgs] at hg; simp at hg
  | some sorted =>
    rw [hgs] at hg
    simp only [Option.map_some, Option.some.injEq] at hg
    have hft : filterTable table mn = .ok sorted := by
      unfold filterTable
      simp only []
      rw [hgs]
      simp only [hg, ↓reduceIte]
    obtain ⟨t, ht⟩ := attach_isSome addl sorted (fun x hx => by
      apply extras_isSome
      intro d hd
      exact hadd d hd x.1 (by rw [← hg]; exact List.mem_map.mpr ⟨x, hx, rfl⟩))
    exact ⟨t, by unfold filterTableAdd; simp [hft, ht]⟩

/-- **C09 (liveness, with the guards).** With a `MODEL_NAME` column, additional parameter names that
    are distinct and not table columns, and the hypotheses of `C09_liveness`, `filter_table` as the
    code runs it returns. -/
theorem C09_liveness_full (cols : List String) (table : List (String × V)) (mn : List String)
    (addl : List (String × List (String × K)))
    (hcol : "MODEL_NAME" ∈ cols) (hkeys : ∀ kd ∈ addl, kd.1 ∉ cols) (hknd : (addl.map (·.1)).Nodup)
    (hsorted : (table.map (·.1)).Pairwise (fun a b => strLe a b = true))
    (hnd : (table.map (·.1)).Nodup) (hmn : mn.Nodup) (hsub : ∀ X ∈ mn, X ∈ table.map (·.1))
    (hadd : ∀ kd ∈ addl, ∀ X ∈ mn, ∃ v, kd.2.lookup (strip X) = some v) :
    ∃ r, filterTableFull cols table mn addl = .ok r := by
  obtain ⟨r0, hr0⟩ := C09_liveness table mn ([] : List (List (String × K))) hsorted hnd hmn hsub (by simp)
  unfold filterTableAdd at hr0
  cases hs : filterTable table mn with
  | error e => simp [hs] at hr0
  | ok sorted =>
    have hmn' := (filterTable_ok table mn sorted hs).2
    obtain ⟨r, hr⟩ := attachCols_isSome addl cols (sorted.map (fun r => (r.1, r.2, ([] : List K)))) hkeys hknd
      (fun kd hkd n hn => hadd kd hkd n (by
        rw [hmn']
        simpa [List.map_map, Function.comp_def] using hn))
    refine ⟨r, ?_⟩
    simp [filterTableFull, hcol, hs, hr]

/-- **C09 (any order).** Composed with the strip + sort-by-name step that `write_parameters`,
    `write_parameter_ranges`, `extract_parameters` and the parameter plots apply: for ANY two row
    orders of the parameter file (distinct stripped names containing the distinct fit names, names
    possibly padded with blanks) the listing returns, is the same, names row `i` `model_name[i]`, and
    shows the values of the one file row of that name. -/
theorem C09_any_order (rows rows' : List (String × V)) (mn : List String)
    (addl : List (List (String × K)))
    (hperm : rows.Perm rows') (hnd : (rows.map (fun r => strip r.1)).Nodup) (hmn : mn.Nodup)
    (hsub : ∀ X ∈ mn, X ∈ rows.map (fun r => strip r.1))
    (hadd : ∀ d ∈ addl, ∀ X ∈ mn, ∃ v, d.lookup (strip X) = some v) :
    ∃ r, listing rows mn addl = .ok r ∧ listing rows' mn addl = .ok r ∧ r.map (·.1) = mn ∧
      (∀ x ∈ r, ∃ y ∈ rows, strip y.1 = x.1 ∧ y.2 = x.2.1) ∧
      (∀ x ∈ r, ∀ y ∈ rows, strip y.1 = x.1 → y.2 = x.2.1) := by
  have hpn := prepTable_names_perm rows
  have hnd' : ((prepTable rows).map (·.1)).Nodup := hpn.nodup_iff.mpr hnd
  obtain ⟨r, hr⟩ := C09_liveness (prepTable rows) mn addl (prepTable_sorted rows) hnd' hmn
    (fun X hX => hpn.mem_iff.mpr (hsub X hX)) hadd
  obtain ⟨h1, h2, -⟩ := C09_safety _ _ _ _ hr
  refine ⟨r, hr, ?_, h1, ?_, ?_⟩
  · unfold listing; rw [← prepTable_eq_of_perm rows rows' hperm hnd]; exact hr
  · intro x hx
    have := (prepTable_perm rows).mem_iff.mp (h2 x hx)
    obtain ⟨y, hy, hyx⟩ := List.mem_map.mp this
    simp only [Prod.mk.injEq] at hyx
    exact ⟨y, hy, hyx.1, hyx.2⟩
  · intro x hx y hy hyx
    have hy' : (strip y.1, y.2) ∈ prepTable rows :=
      (prepTable_perm rows).mem_iff.mpr (List.mem_map.mpr ⟨y, hy, rfl⟩)
    exact C09_safety_nodup _ _ _ _ hr hnd' x hx (strip y.1, y.2) hy' hyx

section ranges
variable {K : Type} [LinearOrder K]

/-- **C09 (ranges, finite values).** For a non-empty column (one value per selected fit, in rank
    order) of ordinary numbers the three numbers printed are `min ≤ x ≤ max` for every selected `x`,
    both attained by a selected fit, and `best` is the value of the rank-1 fit; an empty selection
    prints no numbers. -/
theorem C09_ranges_finite (col : List K) :
    (col = [] → paramRanges col = none) ∧
    (∀ x xs, col = x :: xs → ∃ lo hi, paramRanges col = some (lo, x, hi) ∧
      (∀ y ∈ col, lo ≤ y ∧ y ≤ hi) ∧ lo ∈ col ∧ hi ∈ col) := by
  refine ⟨fun h => by subst h; rfl, ?_⟩
  rintro x xs rfl
  obtain ⟨a1, a2, a3⟩ := minL_spec xs x
  obtain ⟨b1, b2, b3⟩ := maxL_spec xs x
  refine ⟨minL x xs, maxL x xs, rfl, ?_, ?_, ?_⟩
  · intro y hy
    rcases List.mem_cons.mp hy with rfl | hy'
    · exact ⟨a1, b1⟩
    · exact ⟨a2 y hy', b2 y hy'⟩
  · rcases a3 with h | h
    · rw [h]; simp
    · exact List.mem_cons_of_mem _ h
  · rcases b3 with h | h
    · rw [h]; simp
    · exact List.mem_cons_of_mem _ h

/-- **C09 (ranges).** The same for columns of doubles that may hold NaN and ±inf (`np.nanmin`, `[0]`,
    `np.nanmax`): `best` is the value of the rank-1 fit whatever it is; if every selected value is NaN,
    `min` and `max` are NaN; otherwise `min` and `max` are non-NaN values of selected fits with
    `min ≤ x ≤ max` (IEEE order, `-inf < finite < +inf`) for every selected non-NaN `x`; an empty
    selection prints no numbers. -/
theorem C09_ranges (col : List (EF K)) :
    (col = [] → paramRangesEF col = none) ∧
    (∀ x xs, col = x :: xs → ∃ lo hi, paramRangesEF col = some (lo, x, hi) ∧
      ((∀ y ∈ col, isNan y = true) → lo = EF.nan ∧ hi = EF.nan) ∧
      ((∃ y ∈ col, isNan y = false) → lo ∈ col ∧ hi ∈ col ∧ isNan lo = false ∧ isNan hi = false ∧
        ∀ y ∈ col, isNan y = false → EF.le lo y = true ∧ EF.le y hi = true)) := by
  refine ⟨fun h => by subst h; rfl, ?_⟩
  rintro x xs rfl
  obtain ⟨a1, a2⟩ := nanMin_spec (x :: xs)
  obtain ⟨b1, b2⟩ := nanMax_spec (x :: xs)
  refine ⟨nanMin (x :: xs), nanMax (x :: xs), rfl, fun h => ⟨a1 h, b1 h⟩, fun h => ?_⟩
  obtain ⟨m1, m2, m3⟩ := a2 h
  obtain ⟨n1, n2, n3⟩ := b2 h
  exact ⟨m1, n1, m2, n2, fun y hy hn => ⟨m3 y hy hn, n3 y hy hn⟩⟩

end ranges

/-- **C09 (counts).** `n_data` is the number of fitted points (flags 1 and 4) and, for a fit result
    whose arrays are parallel (`len(chi2) = len(model_name)`, the `FitInfo` invariant kept by `sort` and
    `keep`), `n_fits` is the number of rows listed. -/
theorem C09_counts {α : Type} (flags : List Nat) (chi2 : List α) (table : List (String × V))
    (mn : List String) (addl : List (List (String × K))) (r : List (String × V × List K))
    (hlen : chi2.length = mn.length) (h : filterTableAdd table mn addl = .ok r) :
    (counts flags chi2).1 = (flags.filter (fun f => decide (f = 1 ∨ f = 4))).length ∧
    (counts flags chi2).2 = r.length ∧ r.length = mn.length := by
  have hr : r.length = mn.length := by
    have := congrArg List.length (C09_safety table mn addl r h).1
    simpa using this
  refine ⟨?_, by simp [counts, hlen, hr], hr⟩
  simp only [counts, nData, List.countP_eq_length_filter]
  congr 2
  funext f
  by_cases h1 : f = 1 <;> by_cases h4 : f = 4 <;> simp [h1, h4]

/-! ### Labelled columns, call-time counts, the plots' table -/

theorem zip_map_self {α β : Type} (f : α → β) : ∀ l : List α, l.zip (l.map f) = l.map (fun p => (p, f p))
  | [] => rfl
  | a :: l => by simp [zip_map_self f l]

/-- **C09 (labels).** For every column list of the parameter table — any width, `MODEL_NAME` first, in
    the middle or last — the header labels and the cells of a printed line pair up label by label:
    the column labelled `p` holds the row's value of parameter `p`; every parameter column is shown
    and `MODEL_NAME` never is. -/
theorem C09_labels (cols : List String) (row : String → K) :
    (printHeader cols).zip (printCells cols row) = (paramLabels cols).map (fun p => (p, row p)) ∧
    (∀ p ∈ cols, p ≠ "MODEL_NAME" → (p, row p) ∈ (printHeader cols).zip (printCells cols row)) ∧
    "MODEL_NAME" ∉ printHeader cols := by
  have hz : (printHeader cols).zip (printCells cols row) = (paramLabels cols).map (fun p => (p, row p)) :=
    zip_map_self row (paramLabels cols)
  refine ⟨hz, ?_, ?_⟩
  · intro p hp hne
    rw [hz]
    exact List.mem_map.mpr ⟨p, List.mem_filter.mpr ⟨hp, by simpa using hne⟩, rfl⟩
  · simp [printHeader, paramLabels]

/-- **C09 (labels, any column order).** Two column orders of the same table (any permutation, so also
    any position of `MODEL_NAME`) print the same label–value pairs, up to that permutation. -/
theorem C09_labels_any_order (cols cols' : List String) (h : cols.Perm cols') (row : String → K) :
    ((printHeader cols).zip (printCells cols row)).Perm ((printHeader cols').zip (printCells cols' row)) := by
  rw [(C09_labels cols row).1, (C09_labels cols' row).1]
  exact (h.filter _).map _

/-- **C09 (counts at call time).** `n_data` is computed from the flag list as it is when the listing is
    made: after an in-place edit `valid[j] = v` it is the number of flags 1 / 4 of the edited list. -/
theorem C09_counts_at_call_time (flags : List Nat) (j v : Nat) :
    nData (flags.set j v) = ((flags.set j v).filter (fun f => decide (f = 1 ∨ f = 4))).length := by
  simp only [nData, List.countP_eq_length_filter]
  congr 2
  funext f
  by_cases h1 : f = 1 <;> by_cases h4 : f = 4 <;> simp [h1, h4]

theorem attach_nil : ∀ rows : List (String × V),
    attach ([] : List (List (String × K))) rows = some (rows.map (fun r => (r.1, r.2, [])))
  | [] => rfl
  | r :: rs => by simp [attach, extras, attach_nil rs]

/-- **C09 (the plots' table).** The table the parameter plots obtain does not depend on `log_x` /
    `log_y`, and it is the table of the listing (without additional columns): same rows, same order. -/
theorem C09_plot_table (logX logY : Bool) (rows : List (String × V)) (mn : List String) :
    plotTable logX logY rows mn = plotTable false false rows mn ∧
    (∀ r, listing rows mn ([] : List (List (String × K))) = .ok r →
      plotTable logX logY rows mn = .ok (r.map (fun x => (x.1, x.2.1)))) := by
  refine ⟨rfl, ?_⟩
  intro r hr
  unfold listing filterTableAdd at hr
  unfold plotTable
  cases hs : filterTable (prepTable rows) mn with
  | error e => simp [hs] at hr
  | ok sorted =>
    simp only [hs, attach_nil, Except.ok.injEq] at hr
    subst hr
    simp [List.map_map, Function.comp_def]

/-! ### Non-vacuity: concrete tables, fits and dictionaries meet the hypotheses -/

/-- a prepared (stripped, name-sorted) table with one numeric column -/
def c09ExTab : List (String × List Rat) := [("ma", [1]), ("mb", [2]), ("mc", [3]), ("md", [4])]
/-- three of the four models selected, in rank order (not name order) -/
def c09ExFit : List String := ["mc", "ma", "md"]
/-- one additional parameter, keyed by model name -/
def c09ExAdd : List (List (String × Rat)) := [[("mb", 20), ("md", 40), ("ma", 10), ("mc", 30)]]

-- hypotheses of `C09_liveness`
example : (c09ExTab.map (·.1)).Pairwise (fun a b => strLe a b = true) ∧ (c09ExTab.map (·.1)).Nodup ∧
    c09ExFit.Nodup ∧ (∀ X ∈ c09ExFit, X ∈ c09ExTab.map (·.1)) ∧
    (∀ d ∈ c09ExAdd, ∀ X ∈ c09ExFit, ∃ v, d.lookup (strip X) = some v) := by
  refine ⟨by decide, by decide, by decide, by decide, ?_⟩
  intro d hd X hX
  simp only [c09ExAdd, List.mem_cons, List.not_mem_nil, or_false] at hd
  subst hd
  simp only [c09ExFit, List.mem_cons, List.not_mem_nil, or_false] at hX
  rcases hX with rfl | rfl | rfl
  · exact ⟨30, by decide⟩
  · exact ⟨10, by decide⟩
  · exact ⟨40, by decide⟩

-- hypothesis of `C09_safety` / `C09_safety_nodup` / `C09_counts`: it does return (and with no
-- dictionaries at all, and with nothing selected)
example : ∃ r, filterTableAdd c09ExTab c09ExFit ([] : List (List (String × Rat))) = .ok r :=
  C09_liveness c09ExTab c09ExFit [] (by decide) (by decide) (by decide) (by decide) (by simp)
example : ∃ r, filterTableAdd c09ExTab [] ([] : List (List (String × Rat))) = .ok r :=
  C09_liveness c09ExTab [] [] (by decide) (by decide) (by decide) (by simp) (by simp)

/-- two row orders of the same parameter file, names padded with blanks -/
def c09ExRows : List (String × List Rat) := [("mc ", [3]), ("ma", [1]), ("md  ", [4]), ("mb", [2])]
def c09ExRows' : List (String × List Rat) := [("mb", [2]), ("md  ", [4]), ("mc ", [3]), ("ma", [1])]

-- hypotheses of `C09_any_order`
example : c09ExRows.Perm c09ExRows' ∧ (c09ExRows.map (fun r => strip r.1)).Nodup ∧ c09ExFit.Nodup ∧
    (∀ X ∈ c09ExFit, X ∈ c09ExRows.map (fun r => strip r.1)) := by
  refine ⟨by decide, by decide, by decide, by decide⟩

-- hypotheses of `C09_liveness_full` (hence of `C09_safety_full`); the refusing inputs of `C09_refusals`
example : "MODEL_NAME" ∈ ["MODEL_NAME", "PAR1"] ∧ (∀ kd ∈ [("extra", c09ExAdd.headD [])], kd.1 ∉ ["MODEL_NAME", "PAR1"]) ∧
    ([("extra", c09ExAdd.headD [])].map (·.1)).Nodup := by
  refine ⟨by decide, ?_, by decide⟩
  intro kd hkd
  simp only [List.mem_cons, List.not_mem_nil, or_false] at hkd
  subst hkd; decide
example : "MODEL_NAME" ∉ ["PAR1", "Q2"] ∧ "PAR1" ∈ ["MODEL_NAME", "PAR1"] := by decide

-- `C09_ranges` on concrete columns (with NaN and both infinities; all NaN); `C09_counts` on a flag vector
example : paramRangesEF [EF.fin (3 : Rat), EF.nan, EF.ninf, EF.fin 1, EF.pinf] = some (EF.ninf, EF.fin 3, EF.pinf) := by
  decide
example : paramRangesEF [EF.nan, EF.fin (3 : Rat), EF.fin 7] = some (EF.fin 3, EF.nan, EF.fin 7) := by decide
example : paramRangesEF [(EF.nan : EF Rat), EF.nan] = some (EF.nan, EF.nan, EF.nan) := by decide
example : paramRanges [(3 : Rat), 1, 4] = some (1, 3, 4) := by decide
example : nData [1, 4, 0, 3, 9, 1, 2] = 3 := by decide
-- `C09_labels` / `C09_labels_any_order`: MODEL_NAME in the middle and last; `C09_counts_at_call_time`: one band masked
example : printHeader ["PAR1", "MODEL_NAME", "Q2"] = ["PAR1", "Q2"] ∧ printHeader ["Q2", "PAR1", "MODEL_NAME"] = ["Q2", "PAR1"] ∧
    ["PAR1", "MODEL_NAME", "Q2"].Perm ["Q2", "PAR1", "MODEL_NAME"] := by decide
example : nData ([1, 4, 0, 1].set 1 0) = 2 ∧ nData [1, 4, 0, 1] = 3 := by decide

end SF
