import SedVerif.Properties.Compose
import SedVerif.Properties.C09
/-!
# Compositions across properties, continued: fit → rank → select → parameter listing

`Source.n_data` is modelled twice (`nDataSrc` for `keep`'s E/F criteria, `Match.nData` for the counts printed in
the listings); `X_ndata_agree` shows the two models are the same function.  `X_listing_after_select` chains
C04 (row integrity), C05 (cut) and C09 (safety of `filter_table`): in a listing written from a selected result of
the package as `Models.fit` assembled it, line `i` is named after, and shows the parameter-file row of, the
model `model_id[i]` of the package, and the counts printed are `(n_data, n_fits)` of that selection.
-/
namespace SF
open SF.Match

/-- the two models of `Source.n_data` (selection criteria; printed counts) agree on every flag vector -/
theorem X_ndata_agree (flags : List Nat) : Match.nData flags = nDataSrc flags := by
  unfold Match.nData nDataSrc
  rw [List.countP_eq_length_filter]
  congr 2

variable {K : Type} [Field K] [LinearOrder K] [IsStrictOrderedRing K] {V : Type}

/-- **fit → rank → select → listing.** For the package as assembled (any model order), any selector, any
    parameter table (any row order) and any additional dictionaries: if `filter_table` returns for the
    selected result, its name column is the selected `model_name` column, every line shows a row of the
    parameter table carrying the line's own name, the printed counts are `(n_data, number of kept fits)`,
    and every line `i` (a real position of the package) is named after the model `m = model_id[i]` of the
    unsorted package whose A_V / scale / chi² / predicted fluxes the kept row `i` holds. -/
theorem X_listing_after_select (s : Sel K) (flags : List Nat) (x : FitRows K) (hwf : WFRows x)
    (table : List (String × V)) (addl : List (List (String × K))) (r : List (String × V × List K))
    (h : filterTableAdd table (keepSrc s flags (sortRows x)).name addl = .ok r) :
    r.map (·.1) = (keepSrc s flags (sortRows x)).name ∧
    (∀ y ∈ r, (y.1, y.2.1) ∈ table) ∧
    Match.counts flags (keepSrc s flags (sortRows x)).chi2
      = (nDataSrc flags, (keepSrc s flags (sortRows x)).chi2.length) ∧
    (∀ i, i < nFits s (nDataSrc flags) (sortRows x).chi2 → i < x.chi2.length →
      ∃ m, m < x.chi2.length ∧ (keepSrc s flags (sortRows x)).modelId[i]? = some m ∧
        (r.map (·.1))[i]? = x.name[m]? ∧
        rowAt (keepSrc s flags (sortRows x)) i = rowAt x m) := by
  obtain ⟨hn, ht, _⟩ := C09_safety table _ addl r h
  refine ⟨hn, ht, by simp [Match.counts, X_ndata_agree], ?_⟩
  intro i hi hlen
  obtain ⟨m, hm, hid, hsome, hrow, hname, _⟩ := C04_rows x hwf i hlen
  obtain ⟨h1, h2⟩ := X_keep_rows s (nDataSrc flags) (sortRows x) i hi
  refine ⟨m, hm, by unfold keepSrc; rw [h2, hid], ?_, by unfold keepSrc; rw [h1, hrow]⟩
  rw [hn, ← hname]
  unfold keepSrc
  simp only [keep]
  rw [List.getElem?_take]; simp [hi]

end SF
