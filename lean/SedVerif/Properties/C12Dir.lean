import SedVerif.Proofs.RoundTripDir
import SedVerif.Properties.C12
import Mathlib.Algebra.Order.Field.Basic
/-!
# C12, second layer — files in a directory, optional parts, quantities, construction routes

Property theorems only.  Model: `SedVerif/Model/RoundTripDir.lean` on top of `Model/RoundTrip.lean`.
-/
namespace SF
open RT

section dir
variable {α : Type}

/-- **C12 (read after write, whatever lies beside).** If `write(p, x, overwrite)` is not refused, `read(p)`
    returns `x` — in every directory (stale `<p>.gz`, stale entries of any other path), for readers with and
    without the `.gz` fallback — and no other path, in particular the twin `<p>.gz`, is changed. -/
theorem C12_dir_read_after_write (d : Dir α) (p : String) (x : α) (overwrite fallback : Bool)
    (h : (dirWrite d p x overwrite).2 = true) :
    dirRead fallback (dirWrite d p x overwrite).1 p = some x ∧
    ∀ q, q ≠ p → (dirWrite d p x overwrite).1.get q = d.get q := by
  have hd : (dirWrite d p x overwrite).1 = d.put p x := by
    unfold dirWrite at h ⊢
    split at h
    · cases h
    · rename_i hc; simp [hc]
  rw [hd]
  exact ⟨by simp [dirRead, get_put_same], fun q hq => get_put_other d p q x hq⟩

/-- **C12 (the compressed twin).** Writing `<p>` leaves `<p>.gz` alone and vice versa, so after writing OLD to
    `<p>.gz` and NEW to `<p>` (either order of events, `overwrite=True`) reading `<p>` gives NEW and reading
    `<p>.gz` gives OLD. -/
theorem C12_dir_twins (d : Dir α) (p : String) (old new : α) (fallback : Bool) :
    let d1 := (dirWrite (dirWrite d (gzOf p) old true).1 p new true).1
    let d2 := (dirWrite (dirWrite d p new true).1 (gzOf p) old true).1
    dirRead fallback d1 p = some new ∧ dirRead fallback d1 (gzOf p) = some old ∧
    dirRead fallback d2 p = some new ∧ dirRead fallback d2 (gzOf p) = some old := by
  simp only [dirWrite, Bool.not_true, Bool.false_and, Bool.false_eq_true, if_false, dirRead]
  refine ⟨?_, ?_, ?_, ?_⟩
  · simp [get_put_same]
  · rw [get_put_other _ p (gzOf p) new (gzOf_ne p)]; simp [get_put_same]
  · rw [get_put_other _ (gzOf p) p old (ne_gzOf p)]; simp [get_put_same]
  · simp [get_put_same]

/-- **C12 (refused write).** `overwrite=False` on an existing path is refused and leaves the directory exactly as
    it was; on a free path (or with `overwrite=True`) the write happens. -/
theorem C12_dir_refused (d : Dir α) (p : String) (x : α) :
    ((d.get p).isSome → dirWrite d p x false = (d, false)) ∧
    (d.get p = none → (dirWrite d p x false).2 = true) ∧ (dirWrite d p x true).2 = true := by
  refine ⟨?_, ?_, ?_⟩
  · intro h; simp [dirWrite, h]
  · intro h; simp [dirWrite, h]
  · simp [dirWrite]

/-- **C12 (`.gz` fallback of `SED.read`).** The twin is consulted only when the path itself is absent; a reader
    without fallback fails there; a present path always wins over its twin. -/
theorem C12_dir_fallback (d : Dir α) (p : String) :
    (d.get p = none → dirRead true d p = d.get (gzOf p) ∧ dirRead false d p = none) ∧
    (∀ y fb, d.get p = some y → dirRead fb d p = some y) := by
  refine ⟨?_, ?_⟩
  · intro h; simp [dirRead, h]
  · intro y fb h; simp [dirRead, h]

end dir

/-- **C12 (SED through a directory).** `SED.write` into any directory (path free or `overwrite=True`) followed by
    `SED.read(path, order)` returns, cell by cell, the SED that was just written — whatever older files
    (the `.gz` twin included) the directory holds. -/
theorem C12_sed_dir {K : Type} [Zero K] [LinearOrder K] (tiny : K) (o : Order) (s : Sed K) (hs : SedOK s)
    (e : List (List K)) (he : s.err = some e) (d : Dir (SedFile K)) (p : String) (overwrite : Bool)
    (hfree : overwrite = true ∨ d.get p = none) :
    ∃ f r, sedWrite tiny s = some f ∧ (dirWrite d p f overwrite).2 = true ∧
      dirRead true (dirWrite d p f overwrite).1 p = some f ∧ sedRead o f = some r ∧ r.name = s.name ∧
      ∀ (a : Nat) (x : K), sedFlux r a x = sedFlux s a x ∧ sedErr r a x = sedErr s a x ∧ sedNu r x = sedNu s x := by
  obtain ⟨f, r, hf, hr, _, hname, hcells⟩ := C12_sed_cell tiny o s hs e he
  have hw : (dirWrite d p f overwrite).2 = true := by
    rcases hfree with h | h
    · subst h; simp [dirWrite]
    · simp [dirWrite, h]
  exact ⟨f, r, hf, hw, (C12_dir_read_after_write d p f overwrite true hw).1, hr, hname, hcells⟩

/-- **C12 (presence of optional parts is carried by the option, not by the values).** A cube stored with
    uncertainties reads back with uncertainties — the stored array or its spectral reversal — whatever their
    values (all exactly 0 included); a cube stored without reads back without. -/
theorem C12_unc_presence {K : Type} [LinearOrder K] (toNu : K → K) (o : Order) (c : Cube K) (hc : CubeOK toNu c) :
    ∃ r, cubeRead toNu o (cubeWrite toNu c) = some r ∧ r.unc.isSome = c.unc.isSome ∧
      ∀ u, c.unc = some u → r.unc = some u ∨ r.unc = some (u.map (fun m => m.map List.reverse)) := by
  obtain ⟨r, hr, hcase, _⟩ := C12_cube_cell toNu o c hc
  refine ⟨r, hr, ?_, ?_⟩
  · rcases hcase with rfl | rfl
    · rfl
    · cases h : c.unc <;> simp [reverseSpectralCube, h]
  · intro u hu
    rcases hcase with rfl | rfl
    · exact Or.inl hu
    · right; simp [reverseSpectralCube, hu]

section qty
variable {K : Type} [Field K] [LinearOrder K] [IsStrictOrderedRing K]

omit [LinearOrder K] [IsStrictOrderedRing K] in
/-- **C12 (central wavelength is a quantity).** For every non-zero scale `s` (microns per unit): an object whose
    central wavelength is `x` microns expressed in that unit (`x / s` units) is written with `FILTWAV = x` and
    reads back with `x`; two quantities denoting the same length give the same file. -/
theorem C12_conv_wavelength_unit (c : Conv K) (x s : K) (hs : s ≠ 0)
    (hf : c.flux.length = c.names.length) (he : c.err.length = c.names.length)
    (hfr : ∀ r ∈ c.flux, r.length = convNAp c) (her : ∀ r ∈ c.err, r.length = convNAp c) :
    (convWriteQ c (some ⟨x / s, s⟩)).filtwav = some x ∧
    (∃ r, convRead (convWriteQ c (some ⟨x / s, s⟩)) = some r ∧ r.wavelength = some x ∧
      ∀ m a : Nat, convFlux r m a = convFlux c m a ∧ convErr r m a = convErr c m a) ∧
    (∀ q1 q2 : Qty K, q1.micron = q2.micron → convWriteQ c (some q1) = convWriteQ c (some q2)) := by
  have hx : (Qty.mk (x / s) s).micron = x := by simp [Qty.micron, div_mul_cancel₀ _ hs]
  refine ⟨by simp [convWriteQ, convWrite, hx], ?_, ?_⟩
  · obtain ⟨hread, _, hall⟩ := C12_conv_cell { c with wavelength := some x } hf he hfr her
    refine ⟨_, by simpa [convWriteQ, hx] using hread, rfl, ?_⟩
    intro m a
    exact (hall _ hread).2.2 m a
  · intro q1 q2 h; simp [convWriteQ, h]

omit [IsStrictOrderedRing K] in
/-- **C12 (spectral axis is a quantity; cells).** Holding the wavelength axis of a cube in a unit of `s ≠ 0`
    microns moves no cell: the cell found at `x` units is the cell found at `x·s` microns. -/
theorem C12_axis_unit_cells (s : K) (hs : s ≠ 0) (c : Cube K) (m a : Nat) (x : K) :
    cubeVal (axisMicron s c) m a (x * s) = cubeVal c m a x ∧
    cubeUnc (axisMicron s c) m a (x * s) = cubeUnc c m a x := by
  have hinj : ∀ a b : K, a * s = b * s → a = b := fun a b h => mul_right_cancel₀ hs h
  have key : ∀ row : List K, cellAt (c.wav.map (fun y => y * s)) row (x * s) = cellAt c.wav row x :=
    fun row => cellAt_map_inj (fun y => y * s) hinj x c.wav row
  constructor
  · simp only [cubeVal, axisMicron, key]
  · simp only [cubeUnc, axisMicron, key]

/-- **C12 (spectral axis is a quantity; direction).** For a positive scale the axis keeps its direction, so the
    round-trip theorems apply unchanged to the axis seen in microns. -/
theorem C12_axis_unit_mono (s : K) (hs : 0 < s) (ws : List K) :
    (ws.Pairwise (· < ·) → (ws.map (fun y => y * s)).Pairwise (· < ·)) ∧
    (ws.Pairwise (· > ·) → (ws.map (fun y => y * s)).Pairwise (· > ·)) := by
  constructor <;> intro h <;> rw [List.pairwise_map] <;>
    exact h.imp (fun hab => mul_lt_mul_of_pos_right hab hs)

end qty

/-- **C12 (constructor route = attribute route).** For a rectangular cube, building it through the constructor's
    keywords succeeds, gives exactly that cube, and is the same object as the one obtained by assigning the
    attributes one by one — also with the spectral axis assigned before the names. -/
theorem C12_ctor_route {K : Type} (c : Cube K)
    (hv : shapeOK (⟨some c.names, some c.wav, c.aps, none, none⟩ : CubeObj K) c.val = true)
    (hu : ∀ u, c.unc = some u → shapeOK (⟨some c.names, some c.wav, c.aps, none, none⟩ : CubeObj K) u = true) :
    ∃ obj, construct c = some obj ∧ obj.toCube = some c ∧
      assign CubeObj.init ([Attr.wav c.wav, Attr.names c.names] ++ (ctorAttrs c).drop 2) = some obj := by
  obtain ⟨names, wav, aps, val, unc⟩ := c
  simp only at hv hu
  cases aps with
  | none =>
    cases unc with
    | none =>
      refine ⟨⟨some names, some wav, none, some val, none⟩, ?_, rfl, ?_⟩ <;>
        simp only [construct, ctorAttrs, assign, setAttr, CubeObj.init, List.cons_append, List.nil_append,
          List.append_nil, List.drop, hv, if_true]
    | some u =>
      have hu2 : shapeOK (⟨some names, some wav, none, some val, none⟩ : CubeObj K) u = true := hu u rfl
      refine ⟨⟨some names, some wav, none, some val, some u⟩, ?_, rfl, ?_⟩ <;>
        simp only [construct, ctorAttrs, assign, setAttr, CubeObj.init, List.cons_append, List.nil_append,
          List.append_nil, List.drop, hv, hu2, if_true]
  | some a =>
    cases unc with
    | none =>
      refine ⟨⟨some names, some wav, some a, some val, none⟩, ?_, rfl, ?_⟩ <;>
        simp only [construct, ctorAttrs, assign, setAttr, CubeObj.init, List.cons_append, List.nil_append,
          List.append_nil, List.drop, hv, if_true]
    | some u =>
      have hu2 : shapeOK (⟨some names, some wav, some a, some val, none⟩ : CubeObj K) u = true := hu u rfl
      refine ⟨⟨some names, some wav, some a, some val, some u⟩, ?_, rfl, ?_⟩ <;>
        simp only [construct, ctorAttrs, assign, setAttr, CubeObj.init, List.cons_append, List.nil_append,
          List.append_nil, List.drop, hv, hu2, if_true]

/-! ### Non-vacuity -/

/-- a directory with a stale compressed twin -/
def c12ExDir : Dir Nat := [("x.fits.gz", 1), ("y.fits", 7)]

example : (dirWrite c12ExDir "x.fits" 2 false).2 = true ∧
    dirRead true (dirWrite c12ExDir "x.fits" 2 false).1 "x.fits" = some 2 ∧
    dirRead true c12ExDir "x.fits" = some 1 ∧ dirRead false c12ExDir "x.fits" = none ∧
    dirWrite c12ExDir "y.fits" 9 false = (c12ExDir, false) := by decide

/-- a cube whose uncertainties are all exactly zero -/
def c12ExZeroUnc : Cube Rat :=
  { names := ["a"], wav := [1, 2, 4], aps := none, val := [[[1, 2, 3]]], unc := some [[[0, 0, 0]]] }

example : CubeOK (fun w => 1 / w) c12ExZeroUnc := by
  refine ⟨by decide, Or.inl (by decide), by decide +kernel, by decide, ?_⟩
  intro u hu
  simp only [c12ExZeroUnc, Option.some.injEq] at hu
  subst hu
  decide

-- 5500 Angstrom (1e-4 micron per Angstrom) is 0.55 micron
example : (Qty.mk (5500 : Rat) (1 / 10000)).micron = (Qty.mk (55 / 100 : Rat) 1).micron := by
  decide +kernel

example : shapeOK (⟨some c12ExZeroUnc.names, some c12ExZeroUnc.wav, c12ExZeroUnc.aps, none, none⟩ : CubeObj Rat)
    c12ExZeroUnc.val = true := by decide

example : (construct c12ExZeroUnc).bind CubeObj.toCube = some c12ExZeroUnc := by decide

end SF
