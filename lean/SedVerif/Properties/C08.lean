import SedVerif.Proofs.FitExact
import SedVerif.Properties.C03
/-!
# C08 — a planted model is recovered (fitting core)

Property theorems only; the pipeline around them (convolution, files, parameter table) is observed by
the correspondence harness.  Model: `Model/Fit.lean`.  `WF`, `limitTerm` from `Properties/C01.lean`,
`forbidden` from `Properties/C03.lean`.  Photometry "synthesised from model m at `(a₀, s₀)`" means that
every fitted band (weight ≠ 0) has residual `r = a₀·k + s₀·q` against m.
-/
namespace SF
variable {K : Type} [Field K] [LinearOrder K] [IsStrictOrderedRing K]

/-- **C08 (exact recovery, distance-independent mode).** If every fitted band satisfies
    `r = a₀·k + s₀·q`, the regression is non-singular (hypotheses of `C01_box_optimal`, discharged by
    `C01_nonsingular`) and `lo ≤ a₀ ≤ hi`, then `fit2` returns exactly `(a₀, s₀)`, the weighted sum of
    squares is 0, and — on a well-formed list with no limit violated at `(a₀, s₀)` — the reported chi²
    is 0. -/
theorem C08_exact2 (big : K) (ln1m : K → K) (lo hi a0 s0 : K) (ps : List (Pt K))
    (hex : ∀ p ∈ ps, p.w ≠ 0 → p.r = a0 * p.k + s0 * p.q)
    (h22 : 0 < m22 ps) (hdet : 0 < m11 ps * m22 ps - m12 ps * m12 ps)
    (hlo : lo ≤ a0) (hhi : a0 ≤ hi) :
    fit2 lo hi ps = (a0, s0) ∧ ssq a0 s0 ps = 0 ∧
    (WF ps → (∀ p ∈ ps, ¬ forbidden a0 s0 p) → fit2Full big ln1m lo hi ps = (a0, s0, 0)) := by
  have hfit := fit2_exact lo hi hex (ne_of_gt hdet) hlo hhi
  have hssq := ssq_exact hex
  refine ⟨hfit, hssq, ?_⟩
  intro hwf hnf
  have hlim : sumBy (limitTerm big ln1m a0 s0) ps = 0 := by
    apply sumBy_eq_zero
    intro p hp
    have := hnf p hp
    simp only [forbidden, not_or] at this
    simp only [limitTerm, if_neg this.1, if_neg this.2]
  simp only [fit2Full, hfit, C01_chi2_decomp big ln1m a0 s0 ps hwf, hssq, hlim, add_zero]

/-- **C08 (exact recovery at one trial distance).** If every fitted band at this distance satisfies
    `r = a₀·k`, some fitted band has `k ≠ 0` (`Σ k²w ≠ 0`) and `lo ≤ a₀ ≤ hi`, then the A_V fitted at
    this distance is `a₀`, the clip leaves it alone, and — well-formed list, no limit violated — the
    chi² at this distance is 0. -/
theorem C08_exact3 (big : K) (ln1m : K → K) (lo hi a0 : K) (ps : List (Pt K))
    (hex : ∀ p ∈ ps, p.w ≠ 0 → p.r = a0 * p.k)
    (hk : sumBy (fun p => p.k * p.k * p.w) ps ≠ 0) (hlo : lo ≤ a0) (hhi : a0 ≤ hi) :
    optAv ps = a0 ∧ clipAv lo hi (optAv ps) = a0 ∧
    (WF ps → (∀ p ∈ ps, ¬ forbidden a0 0 p) → chi2 big ln1m a0 0 ps = 0) := by
  have hav := optAv_exact hex hk
  refine ⟨hav, by rw [hav]; exact clipAv_of_mem lo hi a0 hlo hhi, ?_⟩
  intro hwf hnf
  have hex' : ∀ p ∈ ps, p.w ≠ 0 → p.r = a0 * p.k + 0 * p.q := by
    intro p hp hw; rw [hex p hp hw]; ring
  have hlim : sumBy (limitTerm big ln1m a0 0) ps = 0 := by
    apply sumBy_eq_zero
    intro p hp
    have := hnf p hp
    simp only [forbidden, not_or] at this
    simp only [limitTerm, if_neg this.1, if_neg this.2]
  rw [C01_chi2_decomp big ln1m a0 0 ps hwf, ssq_exact hex', hlim, add_zero]

/-- **C08 (chi² ≥ 0).** With weights `≥ 0`, `big ≥ 0` and `ln(1 − c) ≤ 0` for the confidences of the
    limit bands, every chi² is non-negative — so a model with chi² = 0 is `≤` every other. -/
theorem C08_first (big : K) (ln1m : K → K) (hbig : 0 ≤ big) (a s : K) (ps : List (Pt K))
    (hw : ∀ p ∈ ps, 0 ≤ p.w)
    (hc : ∀ p ∈ ps, (p.flag = 2 ∨ p.flag = 3) → p.e ≠ 1 → ln1m p.e ≤ 0) :
    0 ≤ chi2 big ln1m a s ps :=
  chi2_nonneg big ln1m a s ps hbig hw hc

/-- **C08 (ranked first).** In any ranking by chi² (a list sorted on the third component) in which all
    chi² are `≥ 0`, a row `m` with chi² = 0 while every other row has chi² > 0 (non-degenerate
    package) is the first row. -/
theorem C08_first_ranked (S : List (K × K × K)) (hs : S.Pairwise (fun x y => x.2.2 ≤ y.2.2))
    (m : K × K × K) (hm : m ∈ S) (hm0 : m.2.2 = 0) (hothers : ∀ x ∈ S, x ≠ m → 0 < x.2.2) :
    S.head? = some m := by
  cases S with
  | nil => cases hm
  | cons y rest =>
    simp only [List.head?_cons, Option.some.injEq]
    rcases List.mem_cons.mp hm with rfl | hmr
    · rfl
    · by_contra hne
      have h1 : y.2.2 ≤ m.2.2 := (List.pairwise_cons.mp hs).1 m hmr
      have h2 : 0 < y.2.2 := hothers y List.mem_cons_self hne
      rw [hm0] at h1
      exact absurd h2 (not_lt.mpr h1)

/-- **C08 (exact recovery, distance-dependent mode).** If the data are exact for `a₀` at trial distance
    `i` (as in `C08_exact3`), every chi² term at every distance is non-negative, and the distances before
    `i` have chi² > 0, then `fit3` reports `(a₀, logd[i], 0, i)`. -/
theorem C08_exact3_fit3 (big : K) (ln1m : K → K) (hbig : 0 ≤ big) (lo hi a0 : K) (logd : List K)
    (pss : List (List (Pt K))) (i : Nat) (ps : List (Pt K)) (hi' : pss[i]? = some ps)
    (hex : ∀ p ∈ ps, p.w ≠ 0 → p.r = a0 * p.k)
    (hk : sumBy (fun p => p.k * p.k * p.w) ps ≠ 0) (hlo : lo ≤ a0) (hhi : a0 ≤ hi)
    (hnf : ∀ p ∈ ps, ¬ forbidden a0 0 p)
    (hwf : ∀ qs ∈ pss, WF qs)
    (hc : ∀ qs ∈ pss, ∀ p ∈ qs, (p.flag = 2 ∨ p.flag = 3) → p.e ≠ 1 → ln1m p.e ≤ 0)
    (hbefore : ∀ j < i, ∀ x, (fit3PerDist big ln1m lo hi pss)[j]? = some x → 0 < x.2) :
    fit3 big ln1m lo hi logd pss = (a0, logd.getD i 0, 0, i) := by
  have hmem : ps ∈ pss := List.mem_of_getElem? hi'
  obtain ⟨_, hclip, hchi⟩ := C08_exact3 big ln1m lo hi a0 ps hex hk hlo hhi
  have hper : (fit3PerDist big ln1m lo hi pss)[i]? = some (a0, 0) := by
    simp only [fit3PerDist, List.getElem?_map, hi', Option.map_some, hclip, hchi (hwf ps hmem) hnf]
  have hmin : argminFirst ((fit3PerDist big ln1m lo hi pss).map (·.2)) = (i, 0) := by
    apply argminFirst_eq
    · simp only [List.getElem?_map, hper, Option.map_some]
    · intro j hj x hx
      simp only [List.getElem?_map, Option.map_eq_some_iff] at hx
      obtain ⟨y, hy, rfl⟩ := hx
      exact hbefore j hj y hy
    · intro x hx
      simp only [fit3PerDist, List.map_map, List.mem_map, Function.comp] at hx
      obtain ⟨qs, hqs, rfl⟩ := hx
      exact chi2_nonneg big ln1m _ 0 qs hbig (fun p hp => ((hwf qs hqs) p hp).1) (hc qs hqs)
  simp only [fit3, hmin, List.getD_eq_getElem?_getD, hper, Option.getD_some]

/-! ### Non-vacuity (over ℚ) -/

/-- three fitted bands synthesised from `(a₀, s₀) = (2, 1/2)`, one satisfied upper limit, one unused band -/
def exExact : List (Pt Rat) :=
  [{ r := 2 * (-1/2) + (1/2) * (-2), k := -1/2, q := -2, w := 4, flag := 1, e := 1/2 },
   { r := 2 * (-1/5) + (1/2) * (-2), k := -1/5, q := -2, w := 9, flag := 4, e := 1/3 },
   { r := 2 * (-1/10) + (1/2) * (-2), k := -1/10, q := -2, w := 1, flag := 1, e := 1 },
   { r := 0, k := -1/3, q := -2, w := 0, flag := 3, e := 9/10 },
   { r := 55, k := -1, q := -2, w := 0, flag := 0, e := 0 }]

example : (∀ p ∈ exExact, p.w ≠ 0 → p.r = 2 * p.k + (1/2) * p.q) ∧ 0 < m22 exExact ∧
    0 < m11 exExact * m22 exExact - m12 exExact * m12 exExact ∧ WF exExact ∧
    (∀ p ∈ exExact, ¬ forbidden 2 (1/2) p) := by
  refine ⟨?_, ?_, ?_, ?_, ?_⟩
  · simp [exExact]
  · simp [exExact, m22, sumBy]; norm_num
  · simp [exExact, m11, m12, m22, sumBy]; norm_num
  · simp [exExact, WF]
  · simp [exExact, forbidden]; norm_num

/-- the same at one trial distance (`s = 0`): `r = 2·k` -/
def exExact3 : List (Pt Rat) :=
  [{ r := 2 * (-1/2), k := -1/2, q := -2, w := 4, flag := 1, e := 1/2 },
   { r := 2 * (-1/5), k := -1/5, q := -2, w := 9, flag := 4, e := 1/3 },
   { r := -1, k := -1/3, q := -2, w := 0, flag := 2, e := 9/10 }]

example : (∀ p ∈ exExact3, p.w ≠ 0 → p.r = 2 * p.k) ∧ sumBy (fun p => p.k * p.k * p.w) exExact3 ≠ 0 ∧
    WF exExact3 ∧ (∀ p ∈ exExact3, ¬ forbidden 2 0 p) := by
  refine ⟨?_, ?_, ?_, ?_⟩
  · simp [exExact3]
  · simp [exExact3, sumBy]; norm_num
  · simp [exExact3, WF]
  · simp [exExact3, forbidden]; norm_num

/-- a ranking whose first row has chi² = 0 and whose other rows have chi² > 0 -/
example : ([(2, 1/2, 0), (0, 1, 3), (5, 0, 3), (1, 1, 7)] : List (Rat × Rat × Rat)).Pairwise
    (fun x y => x.2.2 ≤ y.2.2) := by
  simp; norm_num

end SF
