import SedVerif.Proofs.Integrate
import Mathlib.Tactic.NormNum
/-!
# C06 — broadband convolution is the binned integral of F_ν · R_ν

Property theorems only.  Model: `SedVerif/Model/Integrate.lean` (`integrateSubset`, `normalize`,
`rebin`, `convolve`, `convolveVar`; spec `cumInt` = integral of the piecewise-linear interpolant
of increasing nodes from the first node to `t`).  All statements hold over every linearly ordered
field, every number of filter nodes and every number of SED frequencies.

A filter with increasing nodes `q` is *stored* either as `q` or as `q.reverse`; an SED grid is
monotonic in either direction.
-/
namespace SF
variable {K : Type} [Field K] [LinearOrder K] [IsStrictOrderedRing K]
open Integ

/-- **C06 (refinement).** For strictly increasing nodes and `x₀ ≤ a < b ≤ x_n` the code's
    searchsorted / slice / trapezium pipeline returns the exact integral of the piecewise-linear
    response over `[a, b]`. -/
theorem C06_refine (p0 : K × K) (tl : List (K × K)) (a b : K) (hs : SortedX (p0 :: tl))
    (h0 : p0.1 ≤ a) (hab : a < b) (hbl : b ≤ (lastD tl p0).1) :
    integrateSubset (p0 :: tl) a b = cumInt (p0 :: tl) b - cumInt (p0 :: tl) a := by
  rw [integrateSubset_eq p0 tl a b hs h0 (le_trans hab.le hbl) (le_trans h0 hab.le) hbl, if_pos hab.le]

/-- **C06 (refinement, limits in the other order / equal limits).** -/
theorem C06_refine_swapped (p0 : K × K) (tl : List (K × K)) (a b : K) (hs : SortedX (p0 :: tl))
    (h0 : p0.1 ≤ a) (hab : a ≤ b) (hbl : b ≤ (lastD tl p0).1) :
    integrateSubset (p0 :: tl) b a = cumInt (p0 :: tl) b - cumInt (p0 :: tl) a := by
  rw [integrateSubset_eq p0 tl b a hs (le_trans h0 hab) hbl h0 (le_trans hab hbl)]
  by_cases h : b ≤ a
  · have : a = b := le_antisymm hab h
    rw [if_pos h, this]
  · rw [if_neg h]

/-- **C06 (refinement, nodes stored in decreasing order).** `pts` is the stored list; its reverse
    is increasing; limits in either order. -/
theorem C06_refine_reversed (pts : List (K × K)) (p0 : K × K) (tl : List (K × K))
    (hrev : pts.reverse = p0 :: tl) (hs : SortedX (p0 :: tl)) (a b : K)
    (h0 : p0.1 ≤ a) (hab : a ≤ b) (hbl : b ≤ (lastD tl p0).1) :
    integrateSubset pts a b = cumInt (p0 :: tl) b - cumInt (p0 :: tl) a ∧
    integrateSubset pts b a = cumInt (p0 :: tl) b - cumInt (p0 :: tl) a := by
  have e : pts = (p0 :: tl).reverse := by rw [← hrev, List.reverse_reverse]
  rw [e, integrateSubset_reverse _ hs, integrateSubset_reverse _ hs]
  refine ⟨?_, C06_refine_swapped p0 tl a b hs h0 hab hbl⟩
  by_cases h : a = b
  · subst h
    simpa using C06_refine_swapped p0 tl a a hs h0 le_rfl hbl
  · exact C06_refine p0 tl a b hs h0 (lt_of_le_of_ne hab h) hbl

/-- **C06 (each R_i is the exact integral over its clipped bin).** For increasing storage the
    response of one bin with edges `e1`, `e2` (either order) is exactly the integral of the
    piecewise-linear response between the edges clipped to the filter range, taken in increasing
    order; for non-negative responses it is non-negative. -/
theorem C06_bin (p0 : K × K) (tl : List (K × K)) (hs : SortedX (p0 :: tl)) (e1 e2 : K) :
    binResp (p0 :: tl) p0.1 (lastD tl p0).1 e1 e2
      = cumInt (p0 :: tl) (clampK p0.1 (lastD tl p0).1 (max e1 e2))
        - cumInt (p0 :: tl) (clampK p0.1 (lastD tl p0).1 (min e1 e2)) ∧
    ((∀ p ∈ p0 :: tl, 0 ≤ p.2) → 0 ≤ binResp (p0 :: tl) p0.1 (lastD tl p0).1 e1 e2) := by
  refine ⟨binResp_exact p0 tl hs e1 e2, fun hnn => ?_⟩
  rw [binResp_exact p0 tl hs e1 e2]
  have hlh := lastD_ge tl p0 hs
  exact sub_nonneg.mpr (cumInt_mono _ _ _ hs hnn
    (clampK_mono _ _ _ _ hlh (le_trans (min_le_left e1 e2) (le_max_left e1 e2))))

/-- **C06 (bins).** The bins of `Filter.rebin` are the consecutive pairs of `binEdges`: first edge
    `ν₀`, midpoints between adjacent SED frequencies, last edge `ν_last`. -/
theorem C06_edges (f : K → K → K) : ∀ (rest : List K) (e1 n : K),
    rebinAux f e1 n rest = List.zipWith f (e1 :: edgesAux n rest) (edgesAux n rest)
  | [], _, _ => rfl
  | m :: rest, e1, n => by
    simp only [rebinAux, edgesAux, List.zipWith_cons_cons]
    rw [C06_edges f rest ((n + m) / two) m]

/-- the rebinned response has one entry per SED frequency -/
theorem C06_rebin_length (p0 : K × K) (tl : List (K × K)) (nus : List K) :
    (rebin (p0 :: tl) nus).length = nus.length := by
  cases nus with
  | nil => rfl
  | cons n0 rest => simp [rebin, rebinAux_length]

/-- **C06 (storage order of the filter).** A filter stored in decreasing frequency gives the same
    binned response as the same nodes stored in increasing frequency. -/
theorem C06_rebin_reversed (q : List (K × K)) (hs : SortedX q) (nus : List K) :
    rebin q.reverse nus = rebin q nus := rebin_reverse q hs nus

/-- the exact integral of the response of increasing nodes `q0 :: tq` over the bin with edges `e1`, `e2`
    (either order), restricted to the filter range -/
def binIntegral (q0 : K × K) (tq : List (K × K)) (e1 e2 : K) : K :=
  cumInt (q0 :: tq) (clampK q0.1 (lastD tq q0).1 (max e1 e2))
    - cumInt (q0 :: tq) (clampK q0.1 (lastD tq q0).1 (min e1 e2))

/-- **C06 (every R_i).** Filter nodes `q` increasing, stored in either order; any SED grid (either
    order — no monotonicity is needed).  Element `i` of `Filter.rebin(nu).response` is the exact
    integral of the response over bin `i`, whose edges are elements `i` and `i+1` of `binEdges`
    (first edge ν₀, midpoints, last edge ν_last), clipped to the filter range. -/
theorem C06_rebin_elem (q0 : K × K) (tq : List (K × K)) (flt : List (K × K))
    (hs : SortedX (q0 :: tq)) (hst : flt = q0 :: tq ∨ flt = (q0 :: tq).reverse) (nus : List K) :
    rebin flt nus = List.zipWith (binIntegral q0 tq) (binEdges nus) (binEdges nus).tail := by
  have hflt : rebin flt nus = rebin (q0 :: tq) nus := by
    rcases hst with h | h
    · rw [h]
    · rw [h, rebin_reverse _ hs]
  rw [hflt]
  cases nus with
  | nil => rfl
  | cons n0 rest =>
    rw [rebin_sorted q0 tq hs, C06_edges]
    have hf : binResp (q0 :: tq) q0.1 (lastD tq q0).1 = binIntegral q0 tq := by
      funext e1 e2; exact binResp_exact q0 tq hs e1 e2
    rw [hf]; rfl

/-- **C06 (every R_i, indexed form).** -/
theorem C06_rebin_getElem (q0 : K × K) (tq : List (K × K)) (flt : List (K × K))
    (hs : SortedX (q0 :: tq)) (hst : flt = q0 :: tq ∨ flt = (q0 :: tq).reverse) (nus : List K) (i : Nat) :
    (rebin flt nus)[i]? =
      (match (binEdges nus)[i]?, (binEdges nus)[i + 1]? with
       | some e1, some e2 => some (binIntegral q0 tq e1 e2)
       | _, _ => none) := by
  rw [C06_rebin_elem q0 tq flt hs hst nus, List.getElem?_zipWith, List.getElem?_tail]
  cases (binEdges nus)[i]? <;> cases (binEdges nus)[i + 1]? <;> rfl

/-- **C06 (R_i ≥ 0).** Non-negative responses give non-negative binned responses. -/
theorem C06_rebin_nonneg (q0 : K × K) (tq : List (K × K)) (flt : List (K × K))
    (hs : SortedX (q0 :: tq)) (hst : flt = q0 :: tq ∨ flt = (q0 :: tq).reverse)
    (hnn : ∀ p ∈ q0 :: tq, 0 ≤ p.2) (nus : List K) : ∀ r ∈ rebin flt nus, 0 ≤ r := by
  intro r hr
  rw [C06_rebin_elem q0 tq flt hs hst nus] at hr
  obtain ⟨e1, e2, rfl⟩ := mem_zipWith_exists _ _ _ r hr
  have := (C06_bin q0 tq hs e1 e2).2 hnn
  rw [(C06_bin q0 tq hs e1 e2).1] at this
  exact this

/-- **C06 (conservation).** Filter nodes `q` increasing, stored in either order; SED frequencies
    monotonic in either order.  The rebinned responses sum to the integral of the filter over the
    overlap of the filter range with `[ν_min, ν_max]` of the SED. -/
theorem C06_conservation (q0 : K × K) (tq : List (K × K)) (flt : List (K × K))
    (hs : SortedX (q0 :: tq)) (hst : flt = q0 :: tq ∨ flt = (q0 :: tq).reverse)
    (n0 : K) (rest : List K)
    (hn : (n0 :: rest).Pairwise (fun a b => a ≤ b) ∨ (n0 :: rest).Pairwise (fun a b => b ≤ a)) :
    sumBy id (rebin flt (n0 :: rest))
      = cumInt (q0 :: tq) (clampK q0.1 (lastD tq q0).1 (max n0 (lastD rest n0)))
        - cumInt (q0 :: tq) (clampK q0.1 (lastD tq q0).1 (min n0 (lastD rest n0))) := by
  have hflt : rebin flt (n0 :: rest) = rebin (q0 :: tq) (n0 :: rest) := by
    rcases hst with h | h
    · rw [h]
    · rw [h, rebin_reverse _ hs]
  rw [hflt, rebin_sorted q0 tq hs]
  rcases hn with hn | hn
  · have hle := le_lastD rest n0 hn
    rw [max_eq_right hle, min_eq_left hle]
    exact rebinAux_sum_inc _ (fun t => cumInt (q0 :: tq) (clampK q0.1 (lastD tq q0).1 t))
      (fun x y h => binResp_inc q0 tq hs x y h) rest n0 n0 le_rfl hn
  · have hle := lastD_le rest n0 hn
    rw [max_eq_left hle, min_eq_right hle]
    exact rebinAux_sum_dec _ (fun t => cumInt (q0 :: tq) (clampK q0.1 (lastD tq q0).1 t))
      (fun x y h => binResp_dec q0 tq hs x y h) rest n0 n0 le_rfl hn

/-- **C06 (normalisation).** `Filter.normalize` makes the absolute integral over ν (in stored order,
    as the code computes it) equal to one, keeps the abscissae and their order, and keeps responses
    non-negative; it commutes with reversing the storage order. -/
theorem C06_normalize (pts : List (K × K)) (h : trapz pts ≠ 0) :
    absK (trapz (normalize pts)) = 1 ∧ (normalize pts).map Prod.fst = pts.map Prod.fst ∧
    ((∀ p ∈ pts, 0 ≤ p.2) → ∀ p ∈ normalize pts, 0 ≤ p.2) ∧
    normalize pts.reverse = (normalize pts).reverse := by
  refine ⟨normalize_unit pts h, ?_, normalize_nonneg pts, normalize_reverse pts⟩
  simp [normalize, Function.comp_def]

/-- **C06 (flat spectrum).** A filter with non-negative responses whose absolute integral is one
    (what `normalize` produces, `C06_normalize`), stored in either order and lying inside the SED
    range, returns `c` for the flat spectrum `F_ν ≡ c` on a grid monotonic in either order. -/
theorem C06_flat (q0 : K × K) (tq : List (K × K)) (flt : List (K × K))
    (hs : SortedX (q0 :: tq)) (hst : flt = q0 :: tq ∨ flt = (q0 :: tq).reverse)
    (hnn : ∀ p ∈ q0 :: tq, 0 ≤ p.2) (hnorm : absK (trapz flt) = 1)
    (n0 : K) (rest : List K)
    (hn : (n0 :: rest).Pairwise (fun a b => a ≤ b) ∨ (n0 :: rest).Pairwise (fun a b => b ≤ a))
    (hlo : min n0 (lastD rest n0) ≤ q0.1) (hhi : (lastD tq q0).1 ≤ max n0 (lastD rest n0))
    (c : K) (F : List K) (hF : F.length = (n0 :: rest).length) (hc : ∀ f ∈ F, f = c) :
    convolve F (rebin flt (n0 :: rest)) = c := by
  have hlh := lastD_ge tq q0 hs
  have hflt : rebin flt (n0 :: rest) = rebin (q0 :: tq) (n0 :: rest) := by
    rcases hst with h | h
    · rw [h]
    · rw [h, rebin_reverse _ hs]
  have t0 := trapz_nonneg (q0 :: tq) hs hnn
  have t1 : trapz (q0 :: tq) = 1 := by
    rcases hst with h | h
    · rw [h, absK_eq_abs, abs_of_nonneg t0] at hnorm; exact hnorm
    · rw [h, trapz_reverse, absK_neg, absK_eq_abs, abs_of_nonneg t0] at hnorm; exact hnorm
  rw [hflt, convolve_const c F _ (by rw [C06_rebin_length]; exact hF) hc,
    C06_conservation q0 tq (q0 :: tq) hs (Or.inl rfl) n0 rest hn,
    clampK_above _ _ _ hlh hhi, clampK_below _ _ _ hlh hlo, cumInt_last tq q0 hs,
    cumInt_first_zero, t1]
  ring

/-- **C06 (flat spectrum, stated for the code's own `normalize`).** Raw increasing nodes `q` with
    non-negative responses and non-zero integral, stored in either order, normalised by the code,
    inside the SED range: the convolved flux of `F_ν ≡ c` is `c`. -/
theorem C06_flat_normalized (q0 : K × K) (tq : List (K × K)) (stored : List (K × K))
    (hs : SortedX (q0 :: tq)) (hst : stored = q0 :: tq ∨ stored = (q0 :: tq).reverse)
    (hnn : ∀ p ∈ q0 :: tq, 0 ≤ p.2) (hint : trapz (q0 :: tq) ≠ 0)
    (n0 : K) (rest : List K)
    (hn : (n0 :: rest).Pairwise (fun a b => a ≤ b) ∨ (n0 :: rest).Pairwise (fun a b => b ≤ a))
    (hlo : min n0 (lastD rest n0) ≤ q0.1) (hhi : (lastD tq q0).1 ≤ max n0 (lastD rest n0))
    (c : K) (F : List K) (hF : F.length = (n0 :: rest).length) (hc : ∀ f ∈ F, f = c) :
    convolve F (rebin (normalize stored) (n0 :: rest)) = c := by
  have hint' : trapz stored ≠ 0 := by
    rcases hst with h | h
    · rw [h]; exact hint
    · rw [h, trapz_reverse]; exact neg_ne_zero.mpr hint
  -- the normalised increasing node list
  have hshape : normalize (q0 :: tq)
      = (q0.1, q0.2 / absK (trapz (q0 :: tq))) :: tq.map (fun p => (p.1, p.2 / absK (trapz (q0 :: tq)))) := by
    simp [normalize]
  have hlast : (lastD (tq.map (fun p => (p.1, p.2 / absK (trapz (q0 :: tq)))))
      (q0.1, q0.2 / absK (trapz (q0 :: tq)))).1 = (lastD tq q0).1 := by
    generalize absK (trapz (q0 :: tq)) = s
    clear hs hst hnn hint hlo hhi hint' hshape
    induction tq generalizing q0 with
    | nil => rfl
    | cons q1 tq ih => simpa [lastD] using ih q1
  have hs' := normalize_sorted _ hs
  have hnn' := normalize_nonneg _ hnn
  rw [hshape] at hs' hnn'
  refine C06_flat _ _ (normalize stored) hs' ?_ hnn' (normalize_unit stored hint') n0 rest hn hlo
    (by rw [hlast]; exact hhi) c F hF hc
  rcases hst with h | h
  · left; rw [h, hshape]
  · right; rw [h, normalize_reverse, hshape]

/-- **C06 (linearity in the SED).** -/
theorem C06_linear (α β : K) : ∀ (F G R : List K), F.length = G.length →
    convolve (List.zipWith (fun f g => α * f + β * g) F G) R = α * convolve F R + β * convolve G R
  | [], [], R, _ => by cases R <;> simp [convolve]
  | [], _ :: _, _, h => by simp at h
  | _ :: _, [], _, h => by simp at h
  | f :: F, g :: G, [], _ => by simp [convolve]
  | f :: F, g :: G, r :: R, h => by
    have ih := C06_linear α β F G R (by simpa using h)
    simp only [List.zipWith_cons_cons, convolve, ih]; ring

/-- **C06 (errors in quadrature with the same R_i).** Flux and variance are the sum and the sum of
    squares of the per-bin products with the same rebinned response; the variance is non-negative. -/
theorem C06_quadrature : ∀ (F E R : List K),
    convolve F R = sumBy id (List.zipWith (fun f r => f * r) F R) ∧
    convolveVar E R = sumBy (fun t => t * t) (List.zipWith (fun e r => e * r) E R) ∧
    0 ≤ convolveVar E R := by
  intro F E R
  refine ⟨?_, ?_, ?_⟩
  · induction F generalizing R with
    | nil => cases R <;> simp [convolve, sumBy]
    | cons f F ih => cases R with
      | nil => simp [convolve, sumBy]
      | cons r R => simp [convolve, sumBy, ih R]
  · induction E generalizing R with
    | nil => cases R <;> simp [convolveVar, sumBy]
    | cons e E ih => cases R with
      | nil => simp [convolveVar, sumBy]
      | cons r R => simp [convolveVar, sumBy, ih R]
  · induction E generalizing R with
    | nil => cases R <;> simp [convolveVar]
    | cons e E ih => cases R with
      | nil => simp [convolveVar]
      | cons r R =>
        simp only [convolveVar]
        have := ih R
        have := mul_self_nonneg (e * r)
        linarith

/-- **C06 (quadrature, scaling).** Scaling every flux error by `c` scales the variance by `c²`
    (the stored error by `|c|`), with the response unchanged. -/
theorem C06_quadrature_scale (c : K) : ∀ (E R : List K),
    convolveVar (E.map (fun e => c * e)) R = c * c * convolveVar E R
  | [], R => by cases R <;> simp [convolveVar]
  | _ :: _, [] => by simp [convolveVar]
  | e :: E, r :: R => by
    have ih := C06_quadrature_scale c E R
    simp only [List.map_cons, convolveVar, ih]; ring

/-- **C06 (the whole convolution: flat spectrum).** `broadband` is the composition the code performs
    (re-bin onto the SED grid, then `Σ F_i R_i`); for the code's own normalisation, a filter inside the
    SED range and `F_ν ≡ c` it returns `c`. -/
theorem C06_broadband_flat (q0 : K × K) (tq : List (K × K)) (stored : List (K × K))
    (hs : SortedX (q0 :: tq)) (hst : stored = q0 :: tq ∨ stored = (q0 :: tq).reverse)
    (hnn : ∀ p ∈ q0 :: tq, 0 ≤ p.2) (hint : trapz (q0 :: tq) ≠ 0)
    (n0 : K) (rest : List K)
    (hn : (n0 :: rest).Pairwise (fun a b => a ≤ b) ∨ (n0 :: rest).Pairwise (fun a b => b ≤ a))
    (hlo : min n0 (lastD rest n0) ≤ q0.1) (hhi : (lastD tq q0).1 ≤ max n0 (lastD rest n0))
    (c : K) (F : List K) (hF : F.length = (n0 :: rest).length) (hc : ∀ f ∈ F, f = c) :
    broadband (normalize stored) (n0 :: rest) F = c :=
  C06_flat_normalized q0 tq stored hs hst hnn hint n0 rest hn hlo hhi c F hF hc

/-- **C06 (the whole convolution: Σ F_i · exact bin integral).** -/
theorem C06_broadband_eq (q0 : K × K) (tq : List (K × K)) (flt : List (K × K))
    (hs : SortedX (q0 :: tq)) (hst : flt = q0 :: tq ∨ flt = (q0 :: tq).reverse) (nus F E : List K) :
    broadband flt nus F
      = convolve F (List.zipWith (binIntegral q0 tq) (binEdges nus) (binEdges nus).tail) ∧
    broadbandVar flt nus E
      = convolveVar E (List.zipWith (binIntegral q0 tq) (binEdges nus) (binEdges nus).tail) := by
  unfold broadband broadbandVar
  rw [C06_rebin_elem q0 tq flt hs hst nus]
  exact ⟨rfl, rfl⟩

/-- **C06 (the whole convolution: linear in the SED, errors scale in quadrature).** -/
theorem C06_broadband_linear (flt : List (K × K)) (nus : List K) (α β : K) (F G : List K)
    (h : F.length = G.length) (c : K) (E : List K) :
    broadband flt nus (List.zipWith (fun f g => α * f + β * g) F G)
      = α * broadband flt nus F + β * broadband flt nus G ∧
    broadbandVar flt nus (E.map (fun e => c * e)) = c * c * broadbandVar flt nus E ∧
    0 ≤ broadbandVar flt nus E :=
  ⟨C06_linear α β F G _ h, C06_quadrature_scale c E _, (C06_quadrature [] E _).2.2⟩

/-- `rebinE` refuses an empty table and otherwise is `rebin` -/
theorem C06_rebinE (flt : List (K × K)) (nus : List K) :
    (flt = [] → rebinE flt nus = .error .emptyTable) ∧ (flt ≠ [] → rebinE flt nus = .ok (rebin flt nus)) := by
  cases flt with
  | nil => simp [rebinE]
  | cons p tl => simp [rebinE]

/-! ### Non-vacuity (over ℚ) -/

def exFlt : List (Rat × Rat) := [(1, 0), (2, 2), (4, 1), (5, 0)]
def exNus : List Rat := [0, 3/2, 3, 6]

example : SortedX exFlt ∧ (∀ p ∈ exFlt, 0 ≤ p.2) ∧ trapz exFlt ≠ 0 := by
  refine ⟨?_, ?_, ?_⟩
  · simp [exFlt, SortedX]; norm_num
  · simp [exFlt]
  · simp [exFlt, trapz, two]; norm_num

example : exNus.Pairwise (fun a b => a ≤ b) := by simp [exNus]; norm_num

-- refinement between two non-node limits: ∫_{3/2}^{9/2} = 1/2·(1+2)/2 + 3 + 1/2·(1+1/2)/2
example : integrateSubset exFlt (3/2) (9/2) = 33/8 ∧ integrateSubset exFlt.reverse (9/2) (3/2) = 33/8 := by
  decide +kernel

-- conservation on a grid that covers the filter: Σ R_i = 0 + 95/64 + 185/64 + 1/8 = 9/2 = ∫ filter
example : rebin exFlt exNus = [0, 95/64, 185/64, 1/8] := by
  simp [exFlt, exNus, rebin, rebinAux, binResp, clampK, integrateSubset, integrateInc, lastD, interpAt, lin, two]
  norm_num [trapz, two]

-- filter and grid both stored in decreasing order
example : rebin exFlt.reverse exNus.reverse = [1/8, 185/64, 95/64, 0] := by
  simp [exFlt, exNus, rebin, rebinAux, binResp, clampK, integrateSubset, integrateInc, lastD, interpAt, lin, two]
  norm_num [trapz, two]

-- flat spectrum through the code's own normalisation, filter stored in decreasing order
example : convolve [7, 7, 7, 7] (rebin (normalize exFlt.reverse) exNus) = 7 := by
  simp [exFlt, exNus, normalize, absK, rebin, rebinAux, binResp, clampK, integrateSubset, integrateInc, lastD,
    interpAt, lin, two, trapz, convolve]
  norm_num [trapz, two, convolve]

-- partial overlap: the grid [5/2, 7/2, 9/2] only sees the filter between 5/2 and 9/2 (= 39/16)
example : sumBy id (rebin exFlt [5/2, 7/2, 9/2]) = cumInt exFlt (9/2) - cumInt exFlt (5/2) := by
  simp [exFlt, cumInt, sumBy, rebin, rebinAux, binResp, clampK, integrateSubset, integrateInc, lastD, interpAt,
    lin, two]
  norm_num [trapz, two]

end SF
