import SedVerif.Properties.C10
import SedVerif.Properties.C19
/-!
# Composition C10 ∘ C19: a `fit()` run cut at any byte

C10 describes what `fit()` writes at the level of frames (one header, then one record per eligible input
line, in input order); C19 describes what a reader returns from a truncated byte stream of
self-delimiting pickles.  `X_fit_truncation` joins the two: serialise what `fit()` writes with any
encoders whose outputs are well-formed pickle frames, cut the bytes anywhere, and read — the reader either
fails to open or returns the encodings of a strict prefix of the records `fit()` was writing, i.e. of the
eligible sources' selected results in input order; never anything else.
-/
namespace SF
open Hist Pickle

section
variable {L Src Hdr Rec : Type} [DecidableEq Hdr]

/-- the bytes of a fit output file: header frames, then one frame per record -/
theorem serialize_framesOf (hf : Hdr → List (List UInt8)) (enc : Rec → List UInt8) (h : Hdr) (recs : List Rec)
    (hne : recs ≠ []) :
    serialize (fun h => (hf h).flatten) enc (framesOf h recs) = (hf h).flatten ++ (recs.map enc).flatten := by
  cases recs with
  | nil => exact absurd rfl hne
  | cons r rs =>
    have hrs : ∀ l : List Rec, serialize (fun h => (hf h).flatten) enc (l.map Frame.recd) = (l.map enc).flatten := by
      intro l
      induction l with
      | nil => rfl
      | cons a t ih => simp [serialize, ih]
    simp [framesOf, serialize, hrs]

/-- **C10 ∘ C19.** `fit()` on a data file whose lines parse (`ss`) and yield at least one record; the bytes
    it writes (header frames `hf c.hdr`, record frames `enc r`, all well-formed pickles) are cut at any
    offset `t` before the end.  Then reading either fails at opening (the cut is inside the header), or
    yields exactly the encodings of the first `j` records of `C10_records` for some `j` smaller than the
    number written — a strict prefix, in input order, of the eligible sources' results — and then stops. -/
theorem X_fit_truncation (hf : Hdr → List (List UInt8)) (enc : Rec → List UInt8)
    (hH : ∀ h, Frames (hf h)) (hR : ∀ r, scanOne (enc r) = .done [])
    (c : FitCfg L Src Hdr Rec) (lines : List L) (ss : List Src)
    (hp : parsePrefix c.parse lines = .ok ss) (hne : c.records ss ≠ []) (t : Nat)
    (ht : t < ((hf c.hdr).flatten ++ ((c.records ss).map enc).flatten).length) :
    ∃ fs, fitMany c lines = .ok fs ∧
      serialize (fun h => (hf h).flatten) enc fs = (hf c.hdr).flatten ++ ((c.records ss).map enc).flatten ∧
      ((readFile (hf c.hdr).length ((serialize (fun h => (hf h).flatten) enc fs).take t) = ⟨.openError, []⟩) ∨
       (∃ j, j < (c.records ss).length ∧
          (readFile (hf c.hdr).length ((serialize (fun h => (hf h).flatten) enc fs).take t)).recs
            = ((c.records ss).take j).map enc ∧
          (readFile (hf c.hdr).length ((serialize (fun h => (hf h).flatten) enc fs).take t)).status ≠ .openError)) := by
  refine ⟨framesOf c.hdr (c.records ss), ?_, serialize_framesOf hf enc c.hdr _ hne, ?_⟩
  · rw [C10_records, hp]; rfl
  · rw [serialize_framesOf hf enc c.hdr _ hne]
    have hr : Frames ((c.records ss).map enc) := by
      intro b hb
      obtain ⟨r, _, rfl⟩ := List.mem_map.mp hb
      exact hR r
    rcases C19_truncation (hf c.hdr) ((c.records ss).map enc) (hH c.hdr) hr t ht with h | ⟨j, hj, hrecs, hst, _, _⟩
    · exact Or.inl h.1
    · refine Or.inr ⟨j, by simpa using hj, ?_, hst⟩
      rw [hrecs, List.map_take]

/-- **C10 ∘ C19, the uncut file.** Reading all the bytes `fit()` wrote yields the encoding of every record of
    `C10_records`, in order, and ends cleanly — the prefixes of `X_fit_truncation` are prefixes of this. -/
theorem X_fit_complete (hf : Hdr → List (List UInt8)) (enc : Rec → List UInt8)
    (hH : ∀ h, Frames (hf h)) (hR : ∀ r, scanOne (enc r) = .done [])
    (c : FitCfg L Src Hdr Rec) (lines : List L) (ss : List Src)
    (hp : parsePrefix c.parse lines = .ok ss) (hne : c.records ss ≠ []) :
    ∃ fs, fitMany c lines = .ok fs ∧
      readFile (hf c.hdr).length (serialize (fun h => (hf h).flatten) enc fs)
        = ⟨.cleanEnd, (c.records ss).map enc⟩ := by
  refine ⟨framesOf c.hdr (c.records ss), ?_, ?_⟩
  · rw [C10_records, hp]; rfl
  · rw [serialize_framesOf hf enc c.hdr _ hne]
    have hr : Frames ((c.records ss).map enc) := by
      intro b hb
      obtain ⟨r, _, rfl⟩ := List.mem_map.mp hb
      exact hR r
    exact C19_complete (hf c.hdr) ((c.records ss).map enc) (hH c.hdr) hr

end
end SF

namespace SF
open Hist Pickle
/-! ## non-vacuity: encoders whose outputs are real pickle frames (the frames of C19's examples) meet the
    hypotheses of `X_fit_truncation` for C10's example configuration -/

/-- every record is written as the same well-formed frame (enough for non-vacuity: the hypotheses are met) -/
def exEncX (_ : Nat × Nat) : List UInt8 := exR1

example : (∀ h : Nat, Frames ((fun _ => [exH1, exH2, exH3]) h)) ∧ (∀ r, scanOne (exEncX r) = .done []) := by
  refine ⟨fun _ b hb => ?_, fun _ => ?_⟩
  · simp at hb
    rcases hb with rfl | rfl | rfl <;> decide +kernel
  · show scanOne exR1 = .done []
    decide +kernel
end SF
