import SedVerif.Properties.C08
/-!
# C08 — non-degeneracy derived, not assumed

`C08_first_ranked` assumes that every other model has chi² > 0 and `C08_exact3_fit3` that every earlier
trial distance has chi² > 0.  Here these are *derived* from the property's own wording ("no two models
related by a pure reddening + scaling"): a chi² of exactly 0 forces every fitted band (flag 1 / 4,
positive weight) onto `r = a·k + s·q`; hence if no `(a, s)` reproduces the data on the fitted bands, the
chi² is positive whatever `(a, s)` the fitter reports.
-/
namespace SF
variable {K : Type} [Field K] [LinearOrder K] [IsStrictOrderedRing K]

/-- a vanishing sum of non-negative terms has only zero terms -/
theorem sumBy_zero_terms {α : Type} (f : α → K) (l : List α) (hnn : ∀ p ∈ l, 0 ≤ f p)
    (h : sumBy f l = 0) : ∀ p ∈ l, f p = 0 := by
  induction l with
  | nil => intro p hp; cases hp
  | cons q qs ih =>
    simp only [sumBy] at h
    have hq := hnn q List.mem_cons_self
    have hrest := sumBy_nonneg f qs (fun p hp => hnn p (List.mem_cons_of_mem _ hp))
    have hq0 : f q = 0 := by linarith
    have hr0 : sumBy f qs = 0 := by linarith
    intro p hp
    rcases List.mem_cons.mp hp with rfl | hp'
    · exact hq0
    · exact ih (fun p hp => hnn p (List.mem_cons_of_mem _ hp)) hr0 p hp'

/-- a band the fitter uses: flag 1 or 4 with positive weight -/
def fittedBand (p : Pt K) : Prop := (p.flag = 1 ∨ p.flag = 4) ∧ 0 < p.w

/-- **C08 (chi² = 0 forces exactness).** With non-negative weights, `big ≥ 0` and `ln(1 − c) ≤ 0` for the
    confidences of the limit bands, a chi² of 0 at `(a, s)` puts every fitted band on `r = a·k + s·q`. -/
theorem C08_zero_forces_exact (big : K) (ln1m : K → K) (hbig : 0 ≤ big) (a s : K) (ps : List (Pt K))
    (hw : ∀ p ∈ ps, 0 ≤ p.w)
    (hc : ∀ p ∈ ps, (p.flag = 2 ∨ p.flag = 3) → p.e ≠ 1 → ln1m p.e ≤ 0)
    (h : chi2 big ln1m a s ps = 0) :
    ∀ p ∈ ps, fittedBand p → p.r = a * p.k + s * p.q := by
  have hterms := sumBy_zero_terms (chiTerm big ln1m a s) ps
    (fun p hp => chiTerm_nonneg big ln1m a s p (hw p hp) hbig (hc p hp)) h
  intro p hp hf
  have h0 := hterms p hp
  obtain ⟨hflag, hpos⟩ := hf
  have hn0 : p.flag ≠ 0 := by rcases hflag with h | h <;> omega
  have hn2 : p.flag ≠ 2 := by rcases hflag with h | h <;> omega
  have hn3 : p.flag ≠ 3 := by rcases hflag with h | h <;> omega
  simp only [chiTerm, if_neg hn0, if_neg hn2, if_neg hn3] at h0
  have hsq : (p.r - (a * p.k + s * p.q)) * (p.r - (a * p.k + s * p.q)) = 0 := by
    rcases mul_eq_zero.mp h0 with h1 | h1
    · exact h1
    · exact absurd h1 (ne_of_gt hpos)
  have := mul_self_eq_zero.mp hsq
  linarith

/-- **C08 (non-degenerate ⇒ chi² > 0).** If no `(a, s)` reproduces the data on the fitted bands of this
    model (it is not the planted model up to a pure reddening + scaling), its chi² is positive at every
    `(a, s)` — in particular at the one `fit2` reports: the `hothers` hypothesis of `C08_first_ranked`. -/
theorem C08_nondeg_positive (big : K) (ln1m : K → K) (hbig : 0 ≤ big) (ps : List (Pt K))
    (hw : ∀ p ∈ ps, 0 ≤ p.w)
    (hc : ∀ p ∈ ps, (p.flag = 2 ∨ p.flag = 3) → p.e ≠ 1 → ln1m p.e ≤ 0)
    (hnd : ∀ a s : K, ∃ p ∈ ps, fittedBand p ∧ p.r ≠ a * p.k + s * p.q) :
    (∀ a s : K, 0 < chi2 big ln1m a s ps) ∧
    ∀ lo hi : K, 0 < (fit2Full big ln1m lo hi ps).2.2 := by
  have hall : ∀ a s : K, 0 < chi2 big ln1m a s ps := by
    intro a s
    rcases lt_or_eq_of_le (chi2_nonneg big ln1m a s ps hbig hw hc) with h | h
    · exact h
    · exfalso
      obtain ⟨p, hp, hf, hne⟩ := hnd a s
      exact hne (C08_zero_forces_exact big ln1m hbig a s ps hw hc h.symm p hp hf)
  refine ⟨hall, ?_⟩
  intro lo hi
  unfold fit2Full
  generalize fit2 lo hi ps = AS
  obtain ⟨A, S⟩ := AS
  exact hall A S

/-- **C08 (non-degenerate distance ⇒ chi² > 0 there).** If at trial distance `j` no A_V reproduces the
    data on the fitted bands (no reddening makes the model at that distance equal to the data), the
    chi² the distance-dependent fit computes there is positive: the `hbefore` hypothesis of
    `C08_exact3_fit3`, and, applied to every distance of another model, its positive best chi². -/
theorem C08_nondeg_distance (big : K) (ln1m : K → K) (hbig : 0 ≤ big) (lo hi : K)
    (pss : List (List (Pt K))) (j : Nat) (ps : List (Pt K)) (hj : pss[j]? = some ps)
    (hw : ∀ p ∈ ps, 0 ≤ p.w)
    (hc : ∀ p ∈ ps, (p.flag = 2 ∨ p.flag = 3) → p.e ≠ 1 → ln1m p.e ≤ 0)
    (hnd : ∀ a : K, ∃ p ∈ ps, fittedBand p ∧ p.r ≠ a * p.k) :
    ∀ x, (fit3PerDist big ln1m lo hi pss)[j]? = some x → 0 < x.2 := by
  intro x hx
  simp only [fit3PerDist, List.getElem?_map, hj, Option.map_some, Option.some.injEq] at hx
  subst hx
  simp only
  rcases lt_or_eq_of_le (chi2_nonneg big ln1m (clipAv lo hi (optAv ps)) 0 ps hbig hw hc) with h | h
  · exact h
  · exfalso
    obtain ⟨p, hp, hf, hne⟩ := hnd (clipAv lo hi (optAv ps))
    have := C08_zero_forces_exact big ln1m hbig _ 0 ps hw hc h.symm p hp hf
    rw [zero_mul, add_zero] at this
    exact hne this

/-! ### Non-vacuity (over ℚ): data from `(2, 1/2)` of one model are not reproduced by another model -/

/-- residuals against a model whose shape differs: three fitted bands not on any plane `a·k + s·q` -/
def exOther : List (Pt Rat) :=
  [{ r := 0, k := -1/2, q := -2, w := 4, flag := 1, e := 1/2 },
   { r := 1, k := -1/5, q := -2, w := 9, flag := 4, e := 1/3 },
   { r := 5, k := -1/10, q := -2, w := 1, flag := 1, e := 1 }]

example : ∀ a s : Rat, ∃ p ∈ exOther, fittedBand p ∧ p.r ≠ a * p.k + s * p.q := by
  intro a s
  by_contra hcon
  push Not at hcon
  have h1 := hcon ⟨0, -1/2, -2, 4, 1, 1/2⟩ (by simp [exOther]) ⟨by simp, by norm_num⟩
  have h2 := hcon ⟨1, -1/5, -2, 9, 4, 1/3⟩ (by simp [exOther]) ⟨by simp, by norm_num⟩
  have h3 := hcon ⟨5, -1/10, -2, 1, 1, 1⟩ (by simp [exOther]) ⟨by simp, by norm_num⟩
  simp only at h1 h2 h3
  linarith

end SF
