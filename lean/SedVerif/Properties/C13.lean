import SedVerif.Proofs.Dist
/-!
# C13 — aperture interpolation: exact at tabulated radii, linear between, clamped above, refused below

Property theorems only.  Model: `SedVerif/Model/Dist.lean` (`interpClamp`, `convInterpolate`,
`sedInterpolate`, `interpVariable`).  `xs` are the tabulated apertures (strictly increasing, `Incr`),
`ys` the fluxes of one model (or one wavelength) over apertures.
-/
namespace SF
open Dist
variable {K : Type} [Field K] [LinearOrder K] [IsStrictOrderedRing K]

/-- **C13 (knot).**  A request equal to a tabulated radius returns the tabulated value. -/
theorem C13_knot (xs ys : List K) (h : xs.length = ys.length) (hinc : Incr xs) (i : Nat)
    (hi : i < xs.length) : interpClamp xs ys xs[i] = .ok (ys[i]'(h ▸ hi)) :=
  interpClamp_knot xs ys h hinc i hi

/-- **C13 (between).**  Strictly between neighbouring radii the result is the two-point linear interpolant. -/
theorem C13_between (xs ys : List K) (h : xs.length = ys.length) (hinc : Incr xs) (i : Nat)
    (hi : i + 1 < xs.length) (x : K) (h0 : xs[i] < x) (h1 : x < xs[i + 1]) :
    interpClamp xs ys x
      = .ok (ys[i]'(by omega) + (x - xs[i]) / (xs[i + 1] - xs[i]) * (ys[i + 1]'(by omega) - ys[i]'(by omega))) := by
  rw [interpClamp_between xs ys h hinc i hi x h0 h1]
  simp only [lin]; congr 1; ring

/-- **C13 (above).**  Beyond the largest tabulated radius the largest-aperture value is returned. -/
theorem C13_above (xs ys : List K) (n : Nat) (hx : xs.length = n + 1) (hy : ys.length = n + 1)
    (hinc : Incr xs) (x : K) (hgt : xs[n] < x) : interpClamp xs ys x = .ok ys[n] :=
  interpClamp_above xs ys n hx hy hinc x hgt

/-- **C13 (below).**  A radius below the smallest tabulated one is refused — by the scalar function, and
    (any one such request among the requested radii, table of ≥ 2 apertures) by each array entry point. -/
theorem C13_below_error (xs ys : List K) (h : xs.length = ys.length) (hinc : Incr xs)
    (h0 : 0 < xs.length) (x : K) (hlt : x < xs[0]) : interpClamp xs ys x = .error .tooSmall :=
  interpClamp_below xs ys h hinc h0 x hlt

theorem C13_below_error_conv (c : ConvTab K) (a0 a1 : K) (rest : List K) (haps : c.aps = a0 :: a1 :: rest)
    (hinc : Incr c.aps) (req : List K) (x : K) (hx : x ∈ req) (hlt : x < a0) :
    convInterpolate c req = .error .tooSmall := by
  rw [convInterpolate_multi c req a0 a1 rest haps, below_any a0 a1 rest req (haps ▸ hinc) x hx hlt]
  rfl

theorem C13_below_error_sed (s : SedTab K) (a0 a1 : K) (rest : List K) (haps : s.aps = a0 :: a1 :: rest)
    (hinc : Incr s.aps) (req : List K) (x : K) (hx : x ∈ req) (hlt : x < a0) :
    sedInterpolate s req = .error .tooSmall := by
  rw [sedInterpolate_multi s req a0 a1 rest haps, below_any a0 a1 rest req (haps ▸ hinc) x hx hlt]
  rfl

/-- **C13 (array = scalar, `ConvolvedFluxes.interpolate`).**  When the call returns, no request was
    below the table, the returned apertures are the requests reset to the largest aperture, and cell
    `(model row, request x)` of the returned fluxes / errors is `interpClamp` of that row at `x`
    (rows in the original order). -/
theorem C13_conv_cells (c c' : ConvTab K) (a0 a1 : K) (rest : List K) (haps : c.aps = a0 :: a1 :: rest)
    (hf : ∀ row ∈ c.flux, row.length = c.aps.length) (he : ∀ row ∈ c.err, row.length = c.aps.length)
    (req : List K) (hok : convInterpolate c req = .ok c') :
    (∀ x ∈ req, a0 ≤ x) ∧
    c'.aps = req.map (clampHi (lastD c.aps a0)) ∧
    ∃ f : List K → K → K,
      (∀ row, row.length = c.aps.length → ∀ x ∈ req, interpClamp c.aps row x = .ok (f row x)) ∧
      c'.flux = c.flux.map (fun row => req.map (f row)) ∧
      c'.err = c.err.map (fun row => req.map (f row)) := by
  rw [convInterpolate_multi c req a0 a1 rest haps] at hok
  by_cases hany : (req.map (clampHi (lastD (a0 :: a1 :: rest) a0))).any (fun x => decide (x < a0)) = true
  · rw [if_pos hany] at hok; cases hok
  · rw [if_neg hany] at hok
    simp only [Except.ok.injEq] at hok
    have hchk := any_lt_false _ a0 ((Bool.not_eq_true _).mp hany)
    have hchk' : ∀ x ∈ req, ¬ clampHi (lastD (a0 :: a1 :: rest) a0) x < a0 :=
      fun x hx => hchk _ (List.mem_map_of_mem hx)
    refine ⟨?_, by rw [← hok, haps], ?_⟩
    · intro x hx
      have h1 := not_lt.mp (hchk' x hx)
      have h2 : clampHi (lastD (a0 :: a1 :: rest) a0) x ≤ x := by
        unfold clampHi; split
        · exact le_of_lt ‹_›
        · exact le_rfl
      exact le_trans h1 h2
    · refine ⟨fun row x => interpIn ((a0 :: a1 :: rest).zip row)
          (clampK a0 (lastD (a0 :: a1 :: rest) a0) (clampHi (lastD (a0 :: a1 :: rest) a0) x)), ?_, ?_, ?_⟩
      · intro row hrow x hx
        rw [haps] at hrow ⊢
        exact row_cell a0 a1 rest row hrow x (hchk' x hx)
      · rw [← hok]; simp [List.map_map, Function.comp_def]
      · rw [← hok]; simp [List.map_map, Function.comp_def]

/-- **C13 (array = scalar, `SED.interpolate`).**  Cell `(wavelength, request x)` of the returned array is
    `interpClamp` of that wavelength's fluxes over apertures at `x`. -/
theorem C13_sed_cells (s : SedTab K) (a0 a1 : K) (rest : List K) (haps : s.aps = a0 :: a1 :: rest)
    (req : List K) (out : List (List K)) (hok : sedInterpolate s req = .ok out) :
    (∀ x ∈ req, a0 ≤ x) ∧
    ∃ f : List K → K → K,
      (∀ col, col.length = s.aps.length → ∀ x ∈ req, interpClamp s.aps col x = .ok (f col x)) ∧
      out = (transposeN s.wav.length s.flux).map (fun col => req.map (f col)) := by
  rw [sedInterpolate_multi s req a0 a1 rest haps] at hok
  by_cases hany : (req.map (clampHi (lastD (a0 :: a1 :: rest) a0))).any (fun x => decide (x < a0)) = true
  · rw [if_pos hany] at hok; cases hok
  · rw [if_neg hany] at hok
    simp only [Except.ok.injEq] at hok
    have hchk := any_lt_false _ a0 ((Bool.not_eq_true _).mp hany)
    have hchk' : ∀ x ∈ req, ¬ clampHi (lastD (a0 :: a1 :: rest) a0) x < a0 :=
      fun x hx => hchk _ (List.mem_map_of_mem hx)
    refine ⟨?_, ?_⟩
    · intro x hx
      have h1 := not_lt.mp (hchk' x hx)
      have h2 : clampHi (lastD (a0 :: a1 :: rest) a0) x ≤ x := by
        unfold clampHi; split
        · exact le_of_lt ‹_›
        · exact le_rfl
      exact le_trans h1 h2
    · refine ⟨fun col x => interpIn ((a0 :: a1 :: rest).zip col)
          (clampK a0 (lastD (a0 :: a1 :: rest) a0) (clampHi (lastD (a0 :: a1 :: rest) a0) x)), ?_, ?_⟩
      · intro col hcol x hx
        rw [haps] at hcol ⊢
        exact row_cell a0 a1 rest col hcol x (hchk' x hx)
      · rw [← hok]
        apply List.map_congr_left
        intro col _
        rw [List.map_map]
        apply List.map_congr_left
        intro x hx
        simp only [Function.comp]
        rw [clampK_of_mem _ _ _ (not_lt.mp (hchk' x hx)) (clampHi_le _ _)]

/-- **C13 (single aperture).**  A table with at most one aperture is simply repeated for every request
    (whatever its value), by each entry point. -/
theorem C13_single_repeat (c : ConvTab K) (h : c.aps.length ≤ 1) (vs es : List K)
    (hf : c.flux = vs.map (fun v => [v])) (he : c.err = es.map (fun v => [v])) (req : List K) :
    convInterpolate c req = .ok ⟨c.wav, c.names, req, vs.map (fun v => List.replicate req.length v),
      es.map (fun v => List.replicate req.length v)⟩ := by
  rw [convInterpolate_single c req h, hf, he]
  simp [List.map_map, Function.comp_def, repeatRow_single]

theorem C13_single_repeat_sed (lg exp10 : K → K) (s : SedTab K) (h : s.aps.length ≤ 1) (row : List K)
    (rows : List (List K)) (hf : s.flux = row :: rows) (req fw fa : List K) :
    sedInterpolate s req = .ok (row.map (fun v => List.replicate req.length v)) ∧
    interpVariable lg exp10 s fw fa = .ok row := by
  unfold sedInterpolate interpVariable
  match hc : s.aps with
  | [] => simp [hf]
  | [_] => simp [hf]
  | _ :: _ :: _ => rw [hc] at h; simp at h

/-- **C13 (untouched).**  Model names (and their order), the central wavelength and the number of rows
    are carried over unchanged; by `C13_conv_cells` row `i` of the result is computed from row `i`. -/
theorem C13_untouched (c c' : ConvTab K) (req : List K) (hok : convInterpolate c req = .ok c') :
    c'.names = c.names ∧ c'.wav = c.wav ∧ c'.flux.length = c.flux.length ∧ c'.err.length = c.err.length := by
  match hc : c.aps with
  | [] =>
    rw [convInterpolate_single c req (by simp [hc])] at hok
    simp only [Except.ok.injEq] at hok; subst hok; simp
  | [_] =>
    rw [convInterpolate_single c req (by simp [hc])] at hok
    simp only [Except.ok.injEq] at hok; subst hok; simp
  | a0 :: a1 :: rest =>
    rw [convInterpolate_multi c req a0 a1 rest hc] at hok
    split at hok
    · cases hok
    · simp only [Except.ok.injEq] at hok; subst hok; simp

/-- **C13 (unit).**  Expressing table and request in another length unit (a common positive factor)
    changes nothing. -/
theorem C13_unit (s : K) (hs : 0 < s) (xs ys : List K) (x : K) :
    interpClamp (xs.map (fun a => s * a)) ys (s * x) = interpClamp xs ys x :=
  interpClamp_scale s hs xs ys x

/-- **C13 (variable aperture).**  With `exp10 (lg x) = x` and `lg` increasing on positive numbers, for an
    SED of shape `n_ap × n_wav` with ≥ 2 increasing positive apertures and filters at distinct positive
    wavelengths: whenever `interpolate_variable` returns, its value at an SED wavelength equal to filter
    `j`'s wavelength is `interpClamp` of the SED at that wavelength at filter `j`'s aperture. -/
theorem C13_variable (lg exp10 : K → K) (hexp : ∀ x, 0 < x → exp10 (lg x) = x)
    (hmono : ∀ x y, 0 < x → x < y → lg x < lg y)
    (s : SedTab K) (a0 a1 : K) (rest : List K) (haps : s.aps = a0 :: a1 :: rest) (hinc : Incr s.aps)
    (ha0 : 0 < a0) (hshape1 : s.flux.length = s.aps.length) (hshape2 : ∀ row ∈ s.flux, row.length = s.wav.length)
    (fw fa : List K) (hlen : fw.length = fa.length) (hnd : fw.Nodup) (hwpos : ∀ w ∈ fw, 0 < w)
    (out : List K) (hok : interpVariable lg exp10 s fw fa = .ok out) :
    out.length = s.wav.length ∧
    ∀ (i : Nat) (hi : i < s.wav.length) (ho : i < out.length)
      (hc : i < (transposeN s.wav.length s.flux).length) (j : Nat) (hj : j < fw.length),
      s.wav[i] = fw[j] →
      interpClamp s.aps ((transposeN s.wav.length s.flux)[i]) (fa[j]'(hlen ▸ hj)) = .ok out[i] := by
  have hcols := transposeN_cols s.wav.length s.flux hshape2
  have htl := transposeN_length s.wav.length s.flux
  unfold interpVariable at hok
  rw [haps] at hok
  simp only at hok
  generalize hmx : lastD (a0 :: a1 :: rest) a0 = mx at hok
  by_cases hany : ((fa.map (clampHi mx)).any (fun x => decide (x < a0))) = true
  · rw [if_pos hany] at hok; cases hok
  rw [if_neg hany] at hok
  have hchk := any_lt_false _ a0 ((Bool.not_eq_true _).mp hany)
  have hlen' : fw.length = (fa.map (clampHi mx)).length := by simpa using hlen
  have hsorted := varTab_sorted lg hmono fw (fa.map (clampHi mx)) hlen' hnd hwpos
  generalize htab : ((fw.zip (fa.map (clampHi mx))).mergeSort (fun p q => decide (p.1 ≤ q.1))).map
      (fun p => (lg p.1, lg p.2)) = tab at hok hsorted
  cases tab with
  | nil => simp at hok
  | cons t0 trest =>
    simp only at hok
    have hol := seqE_length _ _ hok
    simp only [List.length_zipWith, htl, Nat.min_self] at hol
    refine ⟨hol, ?_⟩
    intro i hi ho hc j hj hw
    have hget := seqE_getElem _ _ hok i (by simp [htl, hi]) ho
    simp only [List.getElem_zipWith] at hget
    -- the aperture assigned to this wavelength is filter j's (reset) aperture
    have hmem := varTab_mem lg fw (fa.map (clampHi mx)) hlen' j hj
    rw [htab] at hmem
    have hedge := npInterpEdge_mem _ hsorted _ hmem
    simp only [List.getElem_map] at hedge
    have hge : a0 ≤ clampHi mx (fa[j]'(hlen ▸ hj)) :=
      not_lt.mp (hchk _ (List.mem_map_of_mem (List.getElem_mem _)))
    have hpos : 0 < clampHi mx (fa[j]'(hlen ▸ hj)) := lt_of_lt_of_le ha0 hge
    rw [hw, hedge, hexp _ hpos, clampK_of_mem _ _ _ hge (clampHi_le _ _)] at hget
    -- both sides are `interpIn` of the same table at the same point
    have hcl : ((transposeN s.wav.length s.flux)[i]).length = (a0 :: a1 :: rest).length := by
      rw [hcols _ (List.getElem_mem hc), hshape1, haps]
    rw [haps, row_cell a0 a1 rest _ hcl _ (by rw [hmx]; exact not_lt.mpr hge), hmx,
      clampK_of_mem _ _ _ hge (clampHi_le _ _), ← hget]
    generalize (transposeN s.wav.length s.flux)[i] = col at hcl ⊢
    cases col with
    | nil => simp at hcl
    | cons c0 ct =>
      simp only [List.zip_cons_cons]
      have hl : (lastD ((a1 :: rest).zip ct) (a0, c0)).1 = mx := by
        rw [lastD_zip_fst (a1 :: rest) ct (by simpa using hcl.symm) a0 c0, ← hmx]; simp [lastD]
      rw [interpStrictT_eq (a0, c0) _ _ hge (by rw [hl]; exact clampHi_le _ _)]

/-- **C13 (variable aperture, liveness).**  For an SED of shape `n_ap × n_wav` with ≥ 2 increasing
    apertures and at least one filter, if no filter aperture is below the smallest tabulated one then
    `interpolate_variable` returns (whatever `lg` / `exp10` are: the aperture assigned to a wavelength is
    clipped into the table before the SED is interpolated). -/
theorem C13_variable_returns (lg exp10 : K → K) (s : SedTab K) (a0 a1 : K) (rest : List K)
    (haps : s.aps = a0 :: a1 :: rest) (hinc : Incr s.aps)
    (hshape1 : s.flux.length = s.aps.length) (hshape2 : ∀ row ∈ s.flux, row.length = s.wav.length)
    (fw fa : List K) (hlen : fw.length = fa.length) (hne : fw ≠ []) (hge : ∀ a ∈ fa, a0 ≤ a) :
    ∃ out, interpVariable lg exp10 s fw fa = .ok out := by
  have hcols := transposeN_cols s.wav.length s.flux hshape2
  have hle := head_le_lastD a0 a1 rest (haps ▸ hinc)
  unfold interpVariable
  rw [haps]
  simp only
  generalize hmx : lastD (a0 :: a1 :: rest) a0 = mx at hle ⊢
  have hchk : ∀ x ∈ fa.map (clampHi mx), ¬ x < a0 := by
    intro x hx
    obtain ⟨a, ha, rfl⟩ := List.mem_map.mp hx
    unfold clampHi
    split
    · exact not_lt.mpr hle
    · exact not_lt.mpr (hge a ha)
  rw [any_lt_eq_false _ a0 hchk]
  simp only [Bool.false_eq_true, if_false]
  have htl : (((fw.zip (fa.map (clampHi mx))).mergeSort (fun p q => decide (p.1 ≤ q.1))).map
      (fun p => (lg p.1, lg p.2))).length = fw.length := by
    simp [List.length_mergeSort, List.length_zip, hlen]
  generalize ((fw.zip (fa.map (clampHi mx))).mergeSort (fun p q => decide (p.1 ≤ q.1))).map
      (fun p => (lg p.1, lg p.2)) = tab at htl
  cases tab with
  | nil =>
    have : fw.length = 0 := by simpa using htl.symm
    exact absurd (List.length_eq_zero_iff.mp this) hne
  | cons t0 trest =>
    simp only
    apply seqE_ok_of_forall
    intro x hx
    obtain ⟨w, _, col, hcol, rfl⟩ := mem_zipWith _ _ _ _ hx
    have hcl : col.length = (a0 :: a1 :: rest).length := by rw [hcols col hcol, hshape1, haps]
    have hb := clampK_mem a0 mx (exp10 (npInterpEdge (t0 :: trest) (lg w))) hle
    exact ⟨_, interpStrictT_col a0 a1 rest col hcl _ hb.1 (by rw [hmx]; exact hb.2)⟩

/-- **C13 (variable aperture, below).**  One filter aperture below the smallest tabulated one makes
    `interpolate_variable` refuse. -/
theorem C13_variable_below_error (lg exp10 : K → K) (s : SedTab K) (a0 a1 : K) (rest : List K)
    (haps : s.aps = a0 :: a1 :: rest) (hinc : Incr s.aps) (fw fa : List K) (a : K) (ha : a ∈ fa)
    (hlt : a < a0) : interpVariable lg exp10 s fw fa = .error .tooSmall := by
  unfold interpVariable
  rw [haps]
  simp only
  rw [below_any a0 a1 rest fa (haps ▸ hinc) a ha hlt]
  rfl

/-! ### Non-vacuity -/

/-- a concrete increasing table with matching fluxes (hypotheses of `C13_knot … C13_above`) -/
example : Incr ([100, 300, 1000] : List ℚ) ∧ ([100, 300, 1000] : List ℚ).length = ([2, 3, 5] : List ℚ).length := by
  constructor
  · simp [Incr]; norm_num
  · rfl

/-- the four regimes on that table: knot, between, above, below -/
example : interpClamp ([100, 300, 1000] : List ℚ) [2, 3, 5] 300 = .ok 3 ∧
    interpClamp ([100, 300, 1000] : List ℚ) [2, 3, 5] 200 = .ok (5/2) ∧
    interpClamp ([100, 300, 1000] : List ℚ) [2, 3, 5] 5000 = .ok 5 ∧
    interpClamp ([100, 300, 1000] : List ℚ) [2, 3, 5] 50 = .error .tooSmall := by
  refine ⟨by decide +kernel, by decide +kernel, by decide +kernel, by decide +kernel⟩

/-- a concrete call of the array entry point that returns (hypothesis `hok` of `C13_conv_cells` / `C13_untouched`) -/
example : ∃ c', convInterpolate (⟨1, ["a", "b"], [100, 300, 1000], [[2, 3, 5], [1, 1, 4]], [[0, 0, 0], [0, 0, 0]]⟩ : ConvTab ℚ)
    [200, 300, 5000] = .ok c' ∧
    c'.flux = [[5/2, 3, 5], [1, 1, 4]] := by
  refine ⟨_, rfl, ?_⟩
  decide +kernel

/-- `C13_variable`'s hypotheses on `lg`/`exp10` hold for the identity pair on ℚ, and a concrete call returns -/
example : (∀ x : ℚ, 0 < x → id (id x) = x) ∧ (∀ x y : ℚ, 0 < x → x < y → id x < id y) ∧
    interpVariable (id : ℚ → ℚ) id
      ({ wav := [1, 2, 3], aps := [100, 300, 1000], flux := [[2, 3, 5], [4, 4, 7], [8, 6, 9]] } : SedTab ℚ)
      [3, 1] [300, 200] = .ok [3, 15/4, 7] := by
  refine ⟨fun x _ => rfl, fun x y _ h => h, ?_⟩
  have hs : ([((3 : ℚ), (300 : ℚ)), (1, 200)]).mergeSort (fun p q => decide (p.1 ≤ q.1)) = [(1, 200), (3, 300)] := by
    simp [List.mergeSort, List.MergeSort.Internal.splitInTwo]
  have hc : clampHi (1000 : ℚ) 300 = 300 ∧ clampHi (1000 : ℚ) 200 = 200 := by
    constructor <;> decide +kernel
  simp only [interpVariable, lastD, List.map, List.zip, List.zipWith, hc.1, hc.2, hs, id, transposeN,
    List.filterMap, List.head?, List.tail, List.length]
  norm_num [seqE, interpStrictT, clampK, npInterpEdge, npInterp, interpIn, lastD, lin]

end SF
