import SedVerif.Properties.C03
import SedVerif.Properties.C11
import Mathlib.Analysis.SpecialFunctions.Log.Base
/-!
# The laws assumed of `lg`, `ln1m` hold for the real functions (non-vacuity of C03 / C11 / C08 hypotheses)

The theorems of C03, C08, C11 take `lg : K → K` (`log10`) and `ln1m : K → K` (`c ↦ ln(1 − c)`) as
parameters and assume only: `ln1m 0 = 0`; `ln1m c ≤ 0` for confidences `c ≠ 1` of limit bands;
`lg (c·F) = lg c + lg F` on the fluxes of the source.  Over `K := ℝ` with `lg := Real.logb 10`,
`ln1m := fun c => Real.log (1 − c)` these hold on the property's domain (positive fluxes and constant,
confidences in `[0, 1]`), and the theorems instantiate.
-/
namespace SF

theorem real_ln1m_zero : (fun c : ℝ => Real.log (1 - c)) 0 = 0 := by simp

theorem real_ln1m_nonpos (c : ℝ) (h0 : 0 ≤ c) (h1 : c ≤ 1) (hne : c ≠ 1) :
    (fun c : ℝ => Real.log (1 - c)) c ≤ 0 :=
  Real.log_nonpos (by linarith) (by linarith)

theorem real_lg_mul (c x : ℝ) (hc : 0 < c) (hx : 0 < x) :
    Real.logb 10 (c * x) = Real.logb 10 c + Real.logb 10 x :=
  Real.logb_mul hc.ne' hx.ne'

/-- C03_conf0 over the reals with the real logarithms -/
example {os os' : List (Obs ℝ)} (h : List.Forall₂ Conf0OrSame os os') (lo hi : ℝ) (ks mf : List ℝ) :
    obsFit2 (Real.logb 10) (Real.log 10) (10 ^ 30) (fun c => Real.log (1 - c)) lo hi os ks mf
      = obsFit2 (Real.logb 10) (Real.log 10) (10 ^ 30) (fun c => Real.log (1 - c)) lo hi os' ks mf :=
  (C03_conf0 (Real.logb 10) (Real.log 10) (10 ^ 30) (fun c => Real.log (1 - c)) real_ln1m_zero h).1 lo hi ks mf

/-- the `lg` hypothesis of C11_scale for a source with positive fluxes and a positive constant -/
example (c : ℝ) (hc : 0 < c) (os : List (Obs ℝ)) (hpos : ∀ o ∈ os, 0 < o.flux) :
    ∀ o ∈ os, (o.flag = 1 ∨ o.flag = 2 ∨ o.flag = 3) →
      Real.logb 10 (c * o.flux) = Real.logb 10 c + Real.logb 10 o.flux :=
  fun o ho _ => real_lg_mul c o.flux hc (hpos o ho)

/-- the sign hypothesis of C03_conf1 / C08_first for confidences in `[0, 1]` -/
example (ps : List (Pt ℝ)) (hconf : ∀ p ∈ ps, (p.flag = 2 ∨ p.flag = 3) → 0 ≤ p.e ∧ p.e ≤ 1) :
    ∀ p ∈ ps, (p.flag = 2 ∨ p.flag = 3) → p.e ≠ 1 → (fun c : ℝ => Real.log (1 - c)) p.e ≤ 0 :=
  fun p hp hl hne => real_ln1m_nonpos p.e (hconf p hp hl).1 (hconf p hp hl).2 hne

end SF
